(* C09 — Every traversal yields exactly the nodes the forest defines, in documented order.
   Part proved here: for every rose tree t laid out in an arena (any shape, any start node):
   traverse = Euler tour, reverse_traverse = its reversal, descendants = pre-order, children /
   reverse_children = the child list / its reversal, and consecutive edges of the tour are exactly
   one next_traverse / prev_traverse step apart (the two steps are inverse to each other). *)
From IT Require Import Spec.
From IT.proofs Require Import TraverseProofs.

Theorem C09_euler_steps : forall a t i e e', tree_in a t ->
  nth_error (euler t) i = Some e -> nth_error (euler t) (S i) = Some e' ->
  next_traverse e a = Ok (Some e') /\ prev_traverse e' a = Ok (Some e).
Proof. exact euler_steps. Qed.
Theorem C09_traverse : forall a t, tree_in a t -> traverse (root t) a = Ok (euler t).
Proof. exact traverse_euler. Qed.
Theorem C09_reverse_traverse : forall a t, tree_in a t -> reverse_traverse (root t) a = Ok (rev (euler t)).
Proof. exact reverse_traverse_euler. Qed.
Theorem C09_descendants : forall a t, tree_in a t -> descendants (root t) a = Ok (ids t).
Proof. exact descendants_preorder. Qed.
Theorem C09_children : forall a t, tree_in a t -> children (root t) a = Ok (map root (kids t)).
Proof. exact children_kids. Qed.
Theorem C09_reverse_children : forall a t, tree_in a t -> reverse_children (root t) a = Ok (rev (map root (kids t))).
Proof. exact reverse_children_kids. Qed.

Print Assumptions C09_euler_steps.
Print Assumptions C09_traverse.
Print Assumptions C09_reverse_traverse.
Print Assumptions C09_descendants.
Print Assumptions C09_children.
Print Assumptions C09_reverse_children.
