(* C09 — Every traversal yields exactly the nodes the forest defines, in documented order.
   Part proved here: for every rose tree t laid out in an arena (any shape, any start node):
   traverse = Euler tour, reverse_traverse = its reversal, descendants = pre-order, children /
   reverse_children = the child list / its reversal, and consecutive edges of the tour are exactly
   one next_traverse / prev_traverse step apart (the two steps are inverse to each other). *)
From IT Require Import Props.
From IT.proofs Require Import TraverseProofs Reach Reach2.
From IT.proofs Require ReprTree.

Theorem C09_euler_steps : forall a t i e e', tree_in a t ->
  nth_error (euler t) i = Some e -> nth_error (euler t) (S i) = Some e' ->
  next_traverse e a = Ok (Some e') /\ prev_traverse e' a = Ok (Some e).
Proof. exact euler_steps. Qed.
Theorem C09_traverse : forall a t, tree_in a t -> traverse (root t) a = Ok (euler t).
Proof. exact traverse_euler. Qed.
Theorem C09_reverse_traverse : forall a t, tree_in a t -> reverse_traverse (root t) a = Ok (rev (euler t)).
Proof. exact reverse_traverse_euler. Qed.
Theorem C09_descendants : forall a t, tree_in a t -> descendants (root t) a = Ok (ids t).
Proof. exact descendants_preorder. Qed.
Theorem C09_children : forall a t, tree_in a t -> children (root t) a = Ok (map root (kids t)).
Proof. exact children_kids. Qed.
Theorem C09_reverse_children : forall a t, tree_in a t -> reverse_children (root t) a = Ok (rev (map root (kids t))).
Proof. exact reverse_children_kids. Qed.

(* ---- from EVERY live node of EVERY reachable arena (any valid history) ---- *)
Theorem C09_ancestors : forall ops, valid_hist false init ops -> forall x, live (ar (reach ops)) x ->
  exists l, ancestors x (ar (reach ops)) = Ok l /\ is_path (ar (reach ops)) parent x l /\ NoDup l /\
            (length l <= length (live_ids (ar (reach ops))))%nat.
Proof. exact reach_ancestors. Qed.
Theorem C09_following_siblings : forall ops, valid_hist false init ops -> forall x, live (ar (reach ops)) x ->
  exists l, following_siblings x (ar (reach ops)) = Ok l /\ is_path (ar (reach ops)) next x l /\ NoDup l /\
            (length l <= length (live_ids (ar (reach ops))))%nat.
Proof. exact reach_following. Qed.
Theorem C09_preceding_siblings : forall ops, valid_hist false init ops -> forall x, live (ar (reach ops)) x ->
  exists l, preceding_siblings x (ar (reach ops)) = Ok l /\ is_path (ar (reach ops)) prev x l /\ NoDup l /\
            (length l <= length (live_ids (ar (reach ops))))%nat.
Proof. exact reach_preceding. Qed.
Theorem C09_predecessors : forall ops, valid_hist false init ops -> forall x, live (ar (reach ops)) x ->
  exists l, predecessors x (ar (reach ops)) = Ok l /\ is_path (ar (reach ops)) pred_link x l /\ NoDup l.
Proof. exact reach_predecessors. Qed.
(* the subtree iterators: the rose tree of x is the abstract forest's tree of x (treeF), confined to it *)
Theorem C09_subtree_iterators : forall ops F x, Repr (ar (reach ops)) F -> live (ar (reach ops)) x ->
  let a := ar (reach ops) in
  let t := ReprTree.treeF (length (nodes a)) F x in
  tree_in a t /\ root t = x /\
  traverse x a = Ok (euler t) /\ reverse_traverse x a = Ok (rev (euler t)) /\
  descendants x a = Ok (ids t) /\ children x a = Ok (kidsf F x) /\ reverse_children x a = Ok (rev (kidsf F x)) /\
  NoDup (euler t) /\ NoDup (ids t).
Proof. exact reach_subtree_iterators. Qed.
(* next_traverse and prev_traverse are inverse on all edges over live nodes, also across subtree boundaries *)
Theorem C09_steps_inverse : forall ops, valid_hist false init ops -> forall e e',
  (match e with Start x | End_ x => live (ar (reach ops)) x end) ->
  (match e' with Start x | End_ x => live (ar (reach ops)) x end) ->
  (next_traverse e (ar (reach ops)) = Ok (Some e') <-> prev_traverse e' (ar (reach ops)) = Ok (Some e)).
Proof. exact reach_steps_inverse. Qed.

Print Assumptions C09_euler_steps.
Print Assumptions C09_traverse.
Print Assumptions C09_reverse_traverse.
Print Assumptions C09_descendants.
Print Assumptions C09_children.
Print Assumptions C09_reverse_children.
Print Assumptions C09_ancestors.
Print Assumptions C09_following_siblings.
Print Assumptions C09_preceding_siblings.
Print Assumptions C09_predecessors.
Print Assumptions C09_subtree_iterators.
Print Assumptions C09_steps_inverse.
