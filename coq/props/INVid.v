(* INVid — pinned inventory of indextree/src/id.rs: every trait impl with its methods, every derive list,
   every static / const / macro-generated item (macro_rules! arms are read with their metavariables substituted).
   coq/gen/GenInventory.v is REGENERATED from the sources on every run by rs2coq; this theorem fails when the file
   gains or loses an impl, a method inside an impl (e.g. an overridden `fold`), a derive (e.g. Clone replaced by a
   hand-written impl), a static, or when the body of an expression macro changes.  The model accounts for exactly
   the items listed here. *)
From Coq Require Import String List.
Import ListNotations.
From IT.gen Require Import GenInventory.
Open Scope string_scope.

Theorem SRC_inventory_id : inv_id = [
  ("use alloc :: vec :: Vec", ["#[cfg(not(feature='std'))]"]);
  ("use core :: { fmt , num :: NonZeroUsize }", ["#[cfg(not(feature='std'))]"]);
  ("use serde :: { Deserialize , Serialize }", ["#[cfg(feature='deser')]"]);
  ("use std :: { fmt , num :: NonZeroUsize }", ["#[cfg(feature='std')]"]);
  ("use crate :: { debug_pretty_print :: DebugPrettyPrint , relations :: { insert_last_unchecked , insert_with_neighbors } , siblings_range :: SiblingsRange , Ancestors , Arena , Children , Descendants , FollowingSiblings , NodeError , PrecedingSiblings , Predecessors , ReverseChildren , ReverseTraverse , Traverse , }", []);
  ("struct NodeId", ["PartialEq"; "Eq"; "PartialOrd"; "Ord"; "Copy"; "Clone"; "Debug"; "Hash"; "feature='deser'=>Deserialize"; "feature='deser'=>Serialize"]);
  ("struct NodeStamp", ["PartialEq"; "Eq"; "PartialOrd"; "Ord"; "Copy"; "Clone"; "Debug"; "Hash"; "Default"; "feature='deser'=>Deserialize"; "feature='deser'=>Serialize"]);
  ("impl NodeStamp", ["is_removed"; "as_removed"; "reuseable"; "reuse"]);
  ("impl fmt::Display for NodeId", ["fmt := { write ! (f , '{}' , self . index1) }"]);
  ("impl From for NonZeroUsize", ["from := { value . index1 }"]);
  ("impl From for usize", ["from := { value . index1 . get () }"]);
  ("impl NodeId", ["index0"; "from_non_zero_usize"; "is_removed"; "ancestors := { Ancestors :: new (arena , self) }"; "predecessors := { Predecessors :: new (arena , self) }"; "preceding_siblings := { PrecedingSiblings :: new (arena , self) }"; "following_siblings := { FollowingSiblings :: new (arena , self) }"; "children := { Children :: new (arena , self) }"; "reverse_children := { ReverseChildren :: new (arena , self) }"; "descendants := { Descendants :: new (arena , self) }"; "traverse := { Traverse :: new (arena , self) }"; "reverse_traverse := { ReverseTraverse :: new (arena , self) }"; "detach"; "append"; "checked_append"; "append_value"; "append_new_node_unchecked"; "prepend"; "checked_prepend"; "insert_after"; "checked_insert_after"; "insert_before"; "checked_insert_before"; "remove"; "remove_subtree"; "debug_pretty_print := { DebugPrettyPrint :: new (self , arena) }"])
].
Proof. reflexivity. Qed.

Print Assumptions SRC_inventory_id.
