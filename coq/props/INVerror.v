(* INVerror — pinned inventory of indextree/src/error.rs: every trait impl with its methods, every derive list,
   every static / const / macro-generated item (macro_rules! arms are read with their metavariables substituted).
   coq/gen/GenInventory.v is REGENERATED from the sources on every run by rs2coq; this theorem fails when the file
   gains or loses an impl, a method inside an impl (e.g. an overridden `fold`), a derive (e.g. Clone replaced by a
   hand-written impl), a static, or when the body of an expression macro changes.  The model accounts for exactly
   the items listed here. *)
From Coq Require Import String List.
Import ListNotations.
From IT.gen Require Import GenInventory.
Open Scope string_scope.

Theorem SRC_inventory_error : inv_error = [
  ("use core :: fmt", ["#[cfg(not(feature='std'))]"]);
  ("use std :: { error , fmt }", ["#[cfg(feature='std')]"]);
  ("enum NodeError", ["Debug"; "Clone"; "Copy"]);
  ("impl NodeError", ["as_str := { match self { NodeError :: AppendSelf => 'Can not append a node to itself' , NodeError :: PrependSelf => 'Can not prepend a node to itself' , NodeError :: InsertBeforeSelf => 'Can not insert a node before itself' , NodeError :: InsertAfterSelf => 'Can not insert a node after itself' , NodeError :: Removed => 'Removed node cannot have any parent, siblings, and children' , NodeError :: AppendAncestor => 'Can not append a node to its descendant' , NodeError :: PrependAncestor => 'Can not prepend a node to its descendant' , NodeError :: InsertBeforeAncestor => 'Can not insert a node before its descendant' , NodeError :: InsertAfterAncestor => 'Can not insert a node after its descendant' , } }"]);
  ("impl fmt::Display for NodeError", ["fmt := { f . write_str (self . as_str ()) }"]);
  ("#[cfg(feature='std')] impl error::Error for NodeError", []);
  ("enum ConsistencyError", ["Debug"; "Clone"; "Copy"]);
  ("impl fmt::Display for ConsistencyError", ["fmt := { match self { ConsistencyError :: ParentChildLoop => f . write_str ('Specified a node as its parent') , ConsistencyError :: SiblingsLoop => f . write_str ('Specified a node as its sibling') , } }"]);
  ("#[cfg(feature='std')] impl error::Error for ConsistencyError", [])
].
Proof. reflexivity. Qed.

Print Assumptions SRC_inventory_error.
