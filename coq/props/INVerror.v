(* INVerror — pinned inventory of indextree/src/error.rs: every trait impl with its methods, every derive list,
   every static / const / macro-generated item (macro_rules! arms are read with their metavariables substituted).
   coq/gen/GenInventory.v is REGENERATED from the sources on every run by rs2coq; this theorem fails when the file
   gains or loses an impl, a method inside an impl (e.g. an overridden `fold`), a derive (e.g. Clone replaced by a
   hand-written impl), a static, or when the body of an expression macro changes.  The model accounts for exactly
   the items listed here. *)
From Coq Require Import String List.
Import ListNotations.
From IT.gen Require Import GenInventory.
Open Scope string_scope.

Theorem SRC_inventory_error : inv_error = [
  ("enum NodeError", ["Debug"; "Clone"; "Copy"]);
  ("impl NodeError", ["as_str"]);
  ("impl fmt::Display for NodeError", ["fmt"]);
  ("#[cfg(feature='std')] impl error::Error for NodeError", []);
  ("enum ConsistencyError", ["Debug"; "Clone"; "Copy"]);
  ("impl fmt::Display for ConsistencyError", ["fmt"]);
  ("#[cfg(feature='std')] impl error::Error for ConsistencyError", [])
].
Proof. reflexivity. Qed.

Print Assumptions SRC_inventory_error.
