(* INVarena — pinned inventory of indextree/src/arena.rs: every trait impl with its methods, every derive list,
   every static / const / macro-generated item (macro_rules! arms are read with their metavariables substituted).
   coq/gen/GenInventory.v is REGENERATED from the sources on every run by rs2coq; this theorem fails when the file
   gains or loses an impl, a method inside an impl (e.g. an overridden `fold`), a derive (e.g. Clone replaced by a
   hand-written impl), a static, or when the body of an expression macro changes.  The model accounts for exactly
   the items listed here. *)
From Coq Require Import String List.
Import ListNotations.
From IT.gen Require Import GenInventory.
Open Scope string_scope.

Theorem SRC_inventory_arena : inv_arena = [
  ("use alloc :: vec :: Vec", ["#[cfg(not(feature='std'))]"]);
  ("use core :: { mem , num :: NonZeroUsize , ops :: { Index , IndexMut } , slice , }", ["#[cfg(not(feature='std'))]"]);
  ("use rayon :: prelude :: *", ["#[cfg(feature='par_iter')]"]);
  ("use serde :: { Deserialize , Serialize }", ["#[cfg(feature='deser')]"]);
  ("use std :: { mem , num :: NonZeroUsize , ops :: { Index , IndexMut } , slice , }", ["#[cfg(feature='std')]"]);
  ("use crate :: { node :: NodeData , Node , NodeId }", []);
  ("struct Arena", ["PartialEq"; "Eq"; "Clone"; "Debug"; "feature='deser'=>Deserialize"; "feature='deser'=>Serialize"]);
  ("impl Arena < T >", ["new := { Self :: default () }"; "with_capacity := { Self { nodes : Vec :: with_capacity (n) , first_free_slot : None , last_free_slot : None , } }"; "capacity := { self . nodes . capacity () }"; "reserve := { self . nodes . reserve (additional) ; }"; "get_node_id"; "get_node_id_at"; "new_node"; "count"; "is_empty"; "get"; "get_mut := { self . nodes . get_mut (id . index0 ()) }"; "iter := { self . nodes . iter () }"; "iter_mut := { self . nodes . iter_mut () }"; "clear"; "as_slice := { self . nodes . as_slice () }"; "free_node"; "pop_front_free_node"]);
  ("#[cfg(feature='par_iter')] impl Arena < T >", ["par_iter := { self . nodes . par_iter () }"]);
  ("impl Default for Arena < T >", ["default := { Self { nodes : Vec :: new () , first_free_slot : None , last_free_slot : None , } }"]);
  ("impl Index for Arena < T >", ["type Output"; "index := { & self . nodes [node . index0 ()] }"]);
  ("impl IndexMut for Arena < T >", ["index_mut := { & mut self . nodes [node . index0 ()] }"])
].
Proof. reflexivity. Qed.

Print Assumptions SRC_inventory_arena.
