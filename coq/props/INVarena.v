(* INVarena — pinned inventory of indextree/src/arena.rs: every trait impl with its methods, every derive list,
   every static / const / macro-generated item (macro_rules! arms are read with their metavariables substituted).
   coq/gen/GenInventory.v is REGENERATED from the sources on every run by rs2coq; this theorem fails when the file
   gains or loses an impl, a method inside an impl (e.g. an overridden `fold`), a derive (e.g. Clone replaced by a
   hand-written impl), a static, or when the body of an expression macro changes.  The model accounts for exactly
   the items listed here. *)
From Coq Require Import String List.
Import ListNotations.
From IT.gen Require Import GenInventory.
Open Scope string_scope.

Theorem SRC_inventory_arena : inv_arena = [
  ("struct Arena", ["PartialEq"; "Eq"; "Clone"; "Debug"; "feature='deser'=>Deserialize"; "feature='deser'=>Serialize"]);
  ("impl Arena < T >", ["new"; "with_capacity"; "capacity"; "reserve"; "get_node_id"; "get_node_id_at"; "new_node"; "count"; "is_empty"; "get"; "get_mut"; "iter"; "iter_mut"; "clear"; "as_slice"; "free_node"; "pop_front_free_node"]);
  ("#[cfg(feature='par_iter')] impl Arena < T >", ["par_iter"]);
  ("impl Default for Arena < T >", ["default"]);
  ("impl Index for Arena < T >", ["type Output"; "index"]);
  ("impl IndexMut for Arena < T >", ["index_mut"])
].
Proof. reflexivity. Qed.

Print Assumptions SRC_inventory_arena.
