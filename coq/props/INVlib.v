(* INVlib — pinned inventory of indextree/src/lib.rs: every trait impl with its methods, every derive list,
   every static / const / macro-generated item (macro_rules! arms are read with their metavariables substituted).
   coq/gen/GenInventory.v is REGENERATED from the sources on every run by rs2coq; this theorem fails when the file
   gains or loses an impl, a method inside an impl (e.g. an overridden `fold`), a derive (e.g. Clone replaced by a
   hand-written impl), a static, or when the body of an expression macro changes.  The model accounts for exactly
   the items listed here. *)
From Coq Require Import String List.
Import ListNotations.
From IT.gen Require Import GenInventory.
Open Scope string_scope.

Theorem SRC_inventory_lib : inv_lib = [
  ("file attributes", ["#![forbid(unsafe_code)]"; "#![cfg_attr(not(feature='std'),no_std)]"]);
  ("extern crate alloc", []);
  ("use crate :: { arena :: Arena , debug_pretty_print :: DebugPrettyPrint , error :: NodeError , id :: NodeId , node :: Node , traverse :: { Ancestors , Children , Descendants , FollowingSiblings , NodeEdge , PrecedingSiblings , Predecessors , ReverseChildren , ReverseTraverse , Traverse , } , }", []);
  ("use indextree_macros as macros", ["#[cfg(feature='macros')]"]);
  ("mod relations;", ["#[macro_use]"]);
  ("mod arena;", []);
  ("mod debug_pretty_print;", []);
  ("mod error;", []);
  ("mod id;", []);
  ("mod node;", []);
  ("mod siblings_range;", []);
  ("mod traverse;", [])
].
Proof. reflexivity. Qed.

Print Assumptions SRC_inventory_lib.
