(* INVfiles — the set of source files of the two crates and the absence of build scripts: every file listed here is read by
   rs2coq (translated or pinned); a new file, a removed file or a build.rs changes this list.
   coq/gen/GenInventory.v is REGENERATED from the sources on every run by rs2coq; this theorem fails when the file
   gains or loses an impl, a method inside an impl (e.g. an overridden `fold`), a derive (e.g. Clone replaced by a
   hand-written impl), a static, or when the body of an expression macro changes.  The model accounts for exactly
   the items listed here. *)
From Coq Require Import String List.
Import ListNotations.
From IT.gen Require Import GenInventory.
Open Scope string_scope.

Theorem SRC_inventory_files : inv_files = [
  ("indextree/src", ["arena.rs"; "debug_pretty_print.rs"; "error.rs"; "id.rs"; "lib.rs"; "node.rs"; "relations.rs"; "siblings_range.rs"; "traverse.rs"]);
  ("indextree-macros/src", ["lib.rs"]);
  ("build scripts", [])
].
Proof. reflexivity. Qed.

Print Assumptions SRC_inventory_files.
