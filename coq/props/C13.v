(* C13 — Arenas are plain values: deterministic, cloneable, and clear() means fresh (partial).
   In a functional model determinism and clone-independence hold by construction ([run] is a
   function of the arena value; a clone IS the value) — what carries weight here is: (a) nothing but
   the arena value influences what a call does or returns, (b) after clear() every continuation
   behaves exactly as on a new arena (same arenas, same ids, same outcomes), (c) the capacity
   guarantees, for an arbitrary Vec growth policy with grow c n >= n.  Hidden state in the
   implementation (globals, address-dependent behaviour) can only be excluded by the correspondence
   runs (replay twice, fork/swap histories, clear-vs-new). *)
From IT Require Import Value.
From IT.proofs Require Import ValueProofs.

Theorem C13_function_of_arena : forall dbg w1 w2 o, ar w1 = ar w2 ->
  ar (fst (step dbg w1 o)) = ar (fst (step dbg w2 o)) /\ snd (step dbg w1 o) = snd (step dbg w2 o).
Proof. exact step_ar_only. Qed.

Theorem C13_clear_is_fresh : forall dbg w ops,
  ar (run dbg ops (fst (step dbg w OClear))) = ar (run dbg ops init) /\
  outcomes dbg ops (fst (step dbg w OClear)) = outcomes dbg ops init.
Proof. exact clear_is_fresh. Qed.

Theorem C13_reserve_changes_nothing : forall dbg w k,
  fst (step dbg w (OReserve k)) = w /\ snd (step dbg w (OReserve k)) = OutUnit.
Proof. exact reserve_changes_nothing. Qed.

Theorem C13_capacity : forall (grow : nat -> nat -> nat), (forall c n, (n <= grow c n)%nat) ->
  (forall n, (n <= cap (v_with_capacity grow n))%nat /\ va (v_with_capacity grow n) = empty_arena) /\
  (forall k v, cap_ok v -> (length (nodes (va v)) + k <= cap (v_reserve grow k v))%nat /\ va (v_reserve grow k v) = va v) /\
  (forall v, cap (v_clear v) = cap v /\ va (v_clear v) = empty_arena) /\
  (forall dbg v w o, va v = ar w -> cap_ok v -> cap_ok (v_step grow dbg v w o) /\ (cap v <= cap (v_step grow dbg v w o))%nat).
Proof.
  intros grow Hg. split; [|split; [|split]].
  - intros n. apply (with_capacity_ok grow Hg n).
  - intros k v H. destruct (reserve_ok grow Hg k v H) as (A & B & _). split; assumption.
  - intros v. apply clear_keeps_capacity.
  - intros dbg v w o E H. apply (step_cap_ok grow Hg dbg v w o E H).
Qed.

Print Assumptions C13_function_of_arena.
Print Assumptions C13_clear_is_fresh.
Print Assumptions C13_reserve_changes_nothing.
Print Assumptions C13_capacity.
