(* INVnode — pinned inventory of indextree/src/node.rs: every trait impl with its methods, every derive list,
   every static / const / macro-generated item (macro_rules! arms are read with their metavariables substituted).
   coq/gen/GenInventory.v is REGENERATED from the sources on every run by rs2coq; this theorem fails when the file
   gains or loses an impl, a method inside an impl (e.g. an overridden `fold`), a derive (e.g. Clone replaced by a
   hand-written impl), a static, or when the body of an expression macro changes.  The model accounts for exactly
   the items listed here. *)
From Coq Require Import String List.
Import ListNotations.
From IT.gen Require Import GenInventory.
Open Scope string_scope.

Theorem SRC_inventory_node : inv_node = [
  ("use core :: fmt", ["#[cfg(not(feature='std'))]"]);
  ("use serde :: { Deserialize , Serialize }", ["#[cfg(feature='deser')]"]);
  ("use std :: fmt", ["#[cfg(feature='std')]"]);
  ("use crate :: { id :: NodeStamp , NodeId }", []);
  ("enum NodeData", ["PartialEq"; "Eq"; "Clone"; "Debug"; "feature='deser'=>Deserialize"; "feature='deser'=>Serialize"]);
  ("struct Node", ["PartialEq"; "Eq"; "Clone"; "Debug"; "feature='deser'=>Deserialize"; "feature='deser'=>Serialize"]);
  ("impl Node < T >", ["get := { if let NodeData :: Data (ref data) = self . data { data } else { unreachable ! ('Try to access a freed node') } }"; "get_mut := { if let NodeData :: Data (ref mut data) = self . data { data } else { unreachable ! ('Try to access a freed node') } }"; "new"; "reuse"; "parent := { self . parent }"; "first_child := { self . first_child }"; "last_child := { self . last_child }"; "previous_sibling := { self . previous_sibling }"; "next_sibling := { self . next_sibling }"; "is_removed"; "is_detached"]);
  ("impl fmt::Display for Node < T >", ["fmt := { if let Some (parent) = self . parent { write ! (f , 'parent: {}; ' , parent) ? ; } else { write ! (f , 'no parent; ') ? ; } if let Some (previous_sibling) = self . previous_sibling { write ! (f , 'previous sibling: {}; ' , previous_sibling) ? ; } else { write ! (f , 'no previous sibling; ') ? ; } if let Some (next_sibling) = self . next_sibling { write ! (f , 'next sibling: {}; ' , next_sibling) ? ; } else { write ! (f , 'no next sibling; ') ? ; } if let Some (first_child) = self . first_child { write ! (f , 'first child: {}; ' , first_child) ? ; } else { write ! (f , 'no first child; ') ? ; } if let Some (last_child) = self . last_child { write ! (f , 'last child: {}; ' , last_child) ? ; } else { write ! (f , 'no last child; ') ? ; } Ok (()) }"])
].
Proof. reflexivity. Qed.

Print Assumptions SRC_inventory_node.
