(* INVnode — pinned inventory of indextree/src/node.rs: every trait impl with its methods, every derive list,
   every static / const / macro-generated item (macro_rules! arms are read with their metavariables substituted).
   coq/gen/GenInventory.v is REGENERATED from the sources on every run by rs2coq; this theorem fails when the file
   gains or loses an impl, a method inside an impl (e.g. an overridden `fold`), a derive (e.g. Clone replaced by a
   hand-written impl), a static, or when the body of an expression macro changes.  The model accounts for exactly
   the items listed here. *)
From Coq Require Import String List.
Import ListNotations.
From IT.gen Require Import GenInventory.
Open Scope string_scope.

Theorem SRC_inventory_node : inv_node = [
  ("enum NodeData", ["PartialEq"; "Eq"; "Clone"; "Debug"; "feature='deser'=>Deserialize"; "feature='deser'=>Serialize"]);
  ("struct Node", ["PartialEq"; "Eq"; "Clone"; "Debug"; "feature='deser'=>Deserialize"; "feature='deser'=>Serialize"]);
  ("impl Node < T >", ["get"; "get_mut"; "new"; "reuse"; "parent"; "first_child"; "last_child"; "previous_sibling"; "next_sibling"; "is_removed"; "is_detached"]);
  ("impl fmt::Display for Node < T >", ["fmt"])
].
Proof. reflexivity. Qed.

Print Assumptions SRC_inventory_node.
