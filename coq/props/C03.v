(* C03 — Insert, move and detach put exactly the requested subtree at the requested place.
   Refinement: in every reachable world, for every forest F the arena represents, a successful
   call takes the arena to one representing exactly f_insert / f_detach / f_append_value of F
   (theories/Forest.v: plain list surgery; subtrees are intact because only the named child lists
   change), leaves stamps, payloads, free list and length untouched (same_shape); re-inserting a
   node where it already is succeeds and leaves the arena EQUAL; append_value(v) = new_node(v)
   followed by append, as arena equality.  C03_*_means spell out the list surgery. *)
From IT Require Import Props.
From IT.proofs Require Import StepMonitor Reach ForestFacts.

Theorem C03_insert : forall ops k chk x c F, valid_hist false init ops -> let w := reach ops in
  Repr (ar w) F -> usable (ar w) x -> usable (ar w) c -> ~ impossible (ar w) F k x c ->
  let w' := fst (step false w (OInsert k chk x c)) in
  snd (step false w (OInsert k chk x c)) = OutUnit /\ Repr (ar w') (f_insert k x c F) /\ same_shape (ar w) (ar w').
Proof. exact reach_insert. Qed.
Theorem C03_detach : forall ops x F, valid_hist false init ops -> let w := reach ops in
  Repr (ar w) F -> live (ar w) x ->
  let w' := fst (step false w (ODetach x)) in
  snd (step false w (ODetach x)) = OutUnit /\ Repr (ar w') (f_detach x F) /\ same_shape (ar w) (ar w').
Proof. exact reach_detach. Qed.
Theorem C03_append_value : forall ops p v F, valid_hist false init ops -> let w := reach ops in
  Repr (ar w) F -> live (ar w) p ->
  let w' := fst (step false w (OAppendValue p v)) in
  exists x, snd (step false w (OAppendValue p v)) = OutId x /\ Repr (ar w') (f_append_value p x F) /\
            ~ live (ar w) x /\ issued w' = issued w ++ [x].
Proof. exact reach_append_value. Qed.
Theorem C03_append_value_eq : forall ops p v F, valid_hist false init ops -> let w := reach ops in
  Repr (ar w) F -> live (ar w) p ->
  exists x, snd (step false w (OAppendValue p v)) = OutId x /\ snd (step false w (ONew v)) = OutId x /\
    ar (fst (step false w (OAppendValue p v)))
    = ar (fst (step false (fst (step false w (ONew v))) (OInsert KAppend false p x))).
Proof. exact reach_append_value_eq. Qed.
Theorem C03_reinsert_noop : forall ops k x c nx F, valid_hist false init ops -> let w := reach ops in
  Repr (ar w) F -> live (ar w) x -> live (ar w) c -> x <> c -> node_at (ar w) x nx ->
  match k with KAppend => last nx = Some c | KPrepend => first nx = Some c
             | KAfter => next nx = Some c | KBefore => prev nx = Some c end ->
  snd (step false w (OInsert k true x c)) = OutUnit /\ ar (fst (step false w (OInsert k true x c))) = ar w.
Proof. exact reach_reinsert_noop. Qed.

(* what the abstract operations mean, in list terms *)
Theorem C03_append_means : forall x c F,
  kidsf (f_insert KAppend x c F) x = remove_id c (kidsf F x) ++ [c] /\
  (forall p, p <> x -> kidsf (f_insert KAppend x c F) p = remove_id c (kidsf F p)).
Proof. intros; split; [apply f_insert_append_target | intros; now apply f_insert_append_other]. Qed.
Theorem C03_prepend_means : forall x c F,
  kidsf (f_insert KPrepend x c F) x = c :: remove_id c (kidsf F x) /\
  (forall p, p <> x -> kidsf (f_insert KPrepend x c F) p = remove_id c (kidsf F p)).
Proof. intros; split; [apply f_insert_prepend_target | intros; now apply f_insert_prepend_other]. Qed.
Theorem C03_insert_after_means : forall x c F p A B,
  remove_id c (kidsf F p) = A ++ x :: B -> ~ In x A -> ~ In x B ->
  kidsf (f_insert KAfter x c F) p = A ++ x :: c :: B.
Proof.
  intros. rewrite f_insert_after_kids, H, ins_after_spec by assumption. now rewrite ins_after_id.
Qed.
Theorem C03_insert_before_means : forall x c F p A B,
  remove_id c (kidsf F p) = A ++ x :: B -> ~ In x A -> ~ In x B ->
  kidsf (f_insert KBefore x c F) p = A ++ c :: x :: B.
Proof.
  intros. rewrite f_insert_before_kids, H, ins_before_spec by assumption. now rewrite ins_before_id.
Qed.
Theorem C03_detach_means : forall x F, In [x] (tops (f_detach x F)) /\ (forall p, kidsf (f_detach x F) p = remove_id x (kidsf F p)).
Proof. intros; split; [apply f_detach_root | intros; apply f_detach_kids]. Qed.

(* the executable step checker that the correspondence run applies to consecutive states observed on
   the implementation (Monitor.check_step: documented forest operation, outcome vs impossibility,
   atomicity, frame clauses) is silent on EVERY valid step of the model from every reachable world:
   it cannot raise an alarm as long as the implementation behaves like the model *)
Theorem C03_step_monitor_silent : forall ops o, valid_hist false init ops -> valid_op (ar (reach ops)) o ->
  check_step (ar (reach ops)) o (snd (step false (reach ops) o)) (ar (fst (step false (reach ops) o))) = [].
Proof. intros ops o H Hv. exact (check_step_silent (reach ops) o (reach_WF ops H) Hv). Qed.

Print Assumptions C03_insert.
Print Assumptions C03_step_monitor_silent.
Print Assumptions C03_detach.
Print Assumptions C03_append_value.
Print Assumptions C03_append_value_eq.
Print Assumptions C03_reinsert_noop.
Print Assumptions C03_append_means.
Print Assumptions C03_prepend_means.
Print Assumptions C03_insert_after_means.
Print Assumptions C03_insert_before_means.
Print Assumptions C03_detach_means.
