(* SRCtrav — source tie for traverse.rs: NodeEdge::next_traverse / prev_traverse.
   The imported coq/gen/Gen*.v files are REGENERATED from /repo/indextree/src/*.rs on every run by rs2coq (one
   Gallina definition per Rust function; translation rules in DESIGN.md 5.1b).  The theorems state that each
   regenerated definition is, for every input and every arena, exactly the hand-written model function the
   property theorems are proved about (the model's ghost results are dropped with then_ret).  A function rs2coq
   cannot translate becomes a value of type `unsupported`, on which these statements do not type-check. *)
From IT.proofs Require Import SrcTac SrcTrav.
From IT.gen Require Import GenTrav.
Open Scope mon_scope.

Theorem SRC_edge_steps : forall dbg e a,
  g_NodeEdge_next_traverse dbg e a = lift (next_traverse e) a /\
  g_NodeEdge_prev_traverse dbg e a = lift (prev_traverse e) a.
Proof.
  intros. repeat split; first [ reflexivity | apply src_next_traverse | apply src_prev_traverse ].
Qed.

Print Assumptions SRC_edge_steps.
