(* INVmacros_lib — pinned inventory of indextree/src/macros_lib.rs: every trait impl with its methods, every derive list,
   every static / const / macro-generated item (macro_rules! arms are read with their metavariables substituted).
   coq/gen/GenInventory.v is REGENERATED from the sources on every run by rs2coq; this theorem fails when the file
   gains or loses an impl, a method inside an impl (e.g. an overridden `fold`), a derive (e.g. Clone replaced by a
   hand-written impl), a static, or when the body of an expression macro changes.  The model accounts for exactly
   the items listed here. *)
From Coq Require Import String List.
Import ListNotations.
From IT.gen Require Import GenInventory.
Open Scope string_scope.

Theorem SRC_inventory_macros_lib : inv_macros_lib = [
  ("use either :: Either", []);
  ("use itertools :: Itertools", []);
  ("use proc_macro2 :: TokenStream", []);
  ("use quote :: { quote , ToTokens }", []);
  ("use strum :: EnumDiscriminants", []);
  ("use syn :: { braced , parse :: { Parse , ParseStream } , parse_macro_input , punctuated :: Punctuated , Expr , Token , }", []);
  ("struct IndexNode", ["Clone"; "Debug"]);
  ("impl Parse for IndexNode", ["parse := { let node = input . parse :: < Expr > () ? ; if input . parse :: < Token ! [=>] > () . is_err () { return Ok (IndexNode { node , children : Punctuated :: new () , }) ; } let children_stream ; braced ! (children_stream in input) ; let children = children_stream . parse_terminated (Self :: parse , Token ! [,]) ? ; Ok (IndexNode { node , children }) }"]);
  ("struct IndexTree", ["Clone"; "Debug"]);
  ("impl Parse for IndexTree", ["parse := { let arena = input . parse :: < Expr > () ? ; input . parse :: < Token ! [,] > () ? ; let root_node = input . parse :: < Expr > () ? ; let nodes = if input . parse :: < Token ! [=>] > () . is_ok () { let braced_nodes ; braced ! (braced_nodes in input) ; braced_nodes . parse_terminated (IndexNode :: parse , Token ! [,]) ? } else { Punctuated :: new () } ; let _ = input . parse :: < Token ! [,] > () ; Ok (IndexTree { arena , root_node , nodes , }) }"]);
  ("enum Action", ["Clone"; "EnumDiscriminants"; "Debug"]);
  ("impl ToTokens for Action", ["to_tokens := { tokens . extend (self . to_stream ()) }"]);
  ("impl Action", ["to_stream := { match self { Action :: Append (expr) => quote ! { __last = __node . append_value (# expr , __arena) ; } , Action :: Parent => quote ! { let __temp = :: indextree :: Arena :: get (__arena , __node) ; let __temp = :: core :: option :: Option :: unwrap (__temp) ; let __temp = :: indextree :: Node :: parent (__temp) ; let __temp = :: core :: option :: Option :: unwrap (__temp) ; __node = __temp ; } , Action :: Nest => quote ! { __node = __last ; } , } }"]);
  ("struct NestingLevelMarker", ["Clone"; "Debug"]);
  ("struct ActionStream", ["Clone"; "Debug"]);
  ("impl ToTokens for ActionStream", ["to_tokens := { tokens . extend (self . stream . clone ()) ; }"]);
  ("fn tree", ["{ let IndexTree { arena , root_node , nodes , } = parse_macro_input ! (input as IndexTree) ; let mut stack : Vec < Either < _ , NestingLevelMarker > > = nodes . into_iter () . map (Either :: Left) . rev () . collect () ; let mut action_buffer : Vec < Action > = Vec :: new () ; while let Some (item) = stack . pop () { let Either :: Left (IndexNode { node , children }) = item else { action_buffer . push (Action :: Parent) ; continue ; } ; action_buffer . push (Action :: Append (node)) ; if children . is_empty () { continue ; } stack . push (Either :: Right (NestingLevelMarker)) ; action_buffer . push (Action :: Nest) ; stack . extend (children . into_iter () . map (Either :: Left) . rev ()) ; } let mut actions : Vec < ActionStream > = action_buffer . into_iter () . map (| action | ActionStream { count : 1 , kind : ActionKind :: from (& action) , stream : action . to_stream () , }) . coalesce (| action1 , action2 | { if action1 . kind != action2 . kind { return Err ((action1 , action2)) ; } let count = action1 . count + action2 . count ; let kind = action1 . kind ; let mut stream = action1 . stream ; stream . extend (action2 . stream) ; Ok (ActionStream { count , kind , stream , }) }) . collect () ; let is_last_action_useless = actions . last () . map (| last | last . kind == ActionKind :: Parent) . unwrap_or (false) ; if is_last_action_useless { actions . pop () ; } quote ! { { let mut __arena : & mut :: indextree :: Arena < _ > = # arena ; # [repr (transparent)] struct __Wrapping < __T > (:: core :: mem :: ManuallyDrop < __T >) ; trait __ToNodeId < __T > { fn __to_node_id (& mut self , __arena : & mut :: indextree :: Arena < __T >) -> :: indextree :: NodeId ; } trait __NodeIdToNodeId < __T > { fn __to_node_id (& mut self , __arena : & mut :: indextree :: Arena < __T >) -> :: indextree :: NodeId ; } impl < __T > __NodeIdToNodeId < __T > for __Wrapping <:: indextree :: NodeId > { fn __to_node_id (& mut self , __arena : & mut :: indextree :: Arena < __T >) -> :: indextree :: NodeId { unsafe { :: core :: mem :: ManuallyDrop :: take (& mut self . 0) } } } impl < __T > __ToNodeId < __T > for & mut __Wrapping < __T > { fn __to_node_id (& mut self , __arena : & mut :: indextree :: Arena < __T >) -> :: indextree :: NodeId { :: indextree :: Arena :: new_node (__arena , unsafe { :: core :: mem :: ManuallyDrop :: take (& mut self . 0) }) } } let __root_node : :: indextree :: NodeId = { let mut __root_node = __Wrapping (:: core :: mem :: ManuallyDrop :: new (# root_node)) ; (& mut __root_node) . __to_node_id (__arena) } ; let mut __node : :: indextree :: NodeId = __root_node ; let mut __last : :: indextree :: NodeId ; # (# actions) * __root_node } } . into () }"])
].
Proof. reflexivity. Qed.

Print Assumptions SRC_inventory_macros_lib.
