(* C10 — Double-ended sibling/children iterators obey the DoubleEndedIterator laws.
   For EVERY sequence of front/back pulls: on any run of siblings linked in the arena the
   (head, tail) machine returns exactly what [de_spec] prescribes for a deque: front pulls in
   forward order, back pulls in backward order, every element once, None at both ends afterwards. *)
From IT Require Import Props.
From IT.proofs Require Import TraverseProofs Reach Reach2.

Theorem C10_pulls_children_following : forall a xs pulls, linked a xs -> NoDup (map idx xs) ->
  de_pulls DChildren pulls (hd_error xs, last_error xs) a = Ok (de_spec xs pulls)
  /\ de_pulls DFollowing pulls (hd_error xs, last_error xs) a = Ok (de_spec xs pulls).
Proof. exact de_pulls_fwd. Qed.
Theorem C10_pulls_preceding : forall a xs pulls, linked a xs -> NoDup (map idx xs) ->
  de_pulls DPreceding pulls (last_error xs, hd_error xs) a = Ok (de_spec (rev xs) pulls).
Proof. exact de_pulls_bwd. Qed.
Theorem C10_children : forall a t pulls, tree_in a t ->
  de_run DChildren (root t) pulls a = Ok (de_spec (map root (kids t)) pulls).
Proof. exact children_pulls. Qed.

(* ---- from EVERY live node of EVERY reachable arena, for EVERY pull sequence ---- *)
Theorem C10_children_reachable : forall ops F x pulls, Repr (ar (reach ops)) F -> live (ar (reach ops)) x ->
  de_run DChildren x pulls (ar (reach ops)) = Ok (de_spec (kidsf F x) pulls).
Proof. exact reach_de_children. Qed.
(* l is the forward sequence: x and its later siblings (also for parentless nodes in a top-level chain) *)
Theorem C10_following_reachable : forall ops, valid_hist false init ops -> forall x pulls l,
  live (ar (reach ops)) x -> is_path (ar (reach ops)) next x l ->
  de_run DFollowing x pulls (ar (reach ops)) = Ok (de_spec l pulls).
Proof. exact reach_de_following. Qed.
Theorem C10_preceding_reachable : forall ops, valid_hist false init ops -> forall x pulls l,
  live (ar (reach ops)) x -> is_path (ar (reach ops)) prev x l ->
  de_run DPreceding x pulls (ar (reach ops)) = Ok (de_spec l pulls).
Proof. exact reach_de_preceding. Qed.

Print Assumptions C10_pulls_children_following.
Print Assumptions C10_pulls_preceding.
Print Assumptions C10_children.
Print Assumptions C10_children_reachable.
Print Assumptions C10_following_reachable.
Print Assumptions C10_preceding_reachable.
