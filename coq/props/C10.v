(* C10 — Double-ended sibling/children iterators obey the DoubleEndedIterator laws.
   For EVERY sequence of front/back pulls: on any run of siblings linked in the arena the
   (head, tail) machine returns exactly what [de_spec] prescribes for a deque: front pulls in
   forward order, back pulls in backward order, every element once, None at both ends afterwards. *)
From IT Require Import Spec.
From IT.proofs Require Import TraverseProofs.

Theorem C10_pulls_children_following : forall a xs pulls, linked a xs -> NoDup (map idx xs) ->
  de_pulls DChildren pulls (hd_error xs, last_error xs) a = Ok (de_spec xs pulls)
  /\ de_pulls DFollowing pulls (hd_error xs, last_error xs) a = Ok (de_spec xs pulls).
Proof. exact de_pulls_fwd. Qed.
Theorem C10_pulls_preceding : forall a xs pulls, linked a xs -> NoDup (map idx xs) ->
  de_pulls DPreceding pulls (last_error xs, hd_error xs) a = Ok (de_spec (rev xs) pulls).
Proof. exact de_pulls_bwd. Qed.
Theorem C10_children : forall a t pulls, tree_in a t ->
  de_run DChildren (root t) pulls a = Ok (de_spec (map root (kids t)) pulls).
Proof. exact children_pulls. Qed.

Print Assumptions C10_pulls_children_following.
Print Assumptions C10_pulls_preceding.
Print Assumptions C10_children.
