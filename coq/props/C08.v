(* C08 — A live node keeps its id and payload; each payload is dropped exactly once.
   In every reachable world: a node that is live before and after a valid call keeps its payload
   unless the call is a write to that very node (moves, removals, allocations, recycling of other
   slots do not alter it); a write stores exactly the new value; and over whole histories the
   payloads ever put into the arena are, as a multiset, exactly those dropped so far plus those
   still stored — so with distinct tokens nothing is dropped twice and nothing stored is dropped.
   (That overwriting NodeData drops the old value once is Rust's ownership semantics, modelled by
   free_node / write / clear returning what they drop.) *)
From IT Require Import Props.
From IT.proofs Require Import AllocProps Reach Reach2.
Require Import Permutation.

Theorem C08_payload_stable : forall ops o x, valid_hist false init ops -> let w := reach ops in
  valid_op (ar w) o -> live (ar w) x -> live (ar (fst (step false w o))) x ->
  (match o with OWrite y _ => y <> x | _ => True end) ->
  payload_of_id (ar (fst (step false w o))) x = payload_of_id (ar w) x.
Proof. exact reach_payload_stable. Qed.
Theorem C08_write : forall ops x v, valid_hist false init ops -> let w := reach ops in live (ar w) x ->
  payload_of_id (ar (fst (step false w (OWrite x v)))) x = Some v.
Proof. exact reach_write. Qed.
Theorem C08_payload_accounting : forall ops, valid_hist false init ops ->
  Permutation (introduced false ops init) (dropped (run false ops init) ++ stored (ar (run false ops init))).
Proof. exact hist_payload_accounting. Qed.
Theorem C08_drop_once : forall ops, valid_hist false init ops -> NoDup (introduced false ops init) ->
  NoDup (dropped (run false ops init)) /\
  (forall v, In v (dropped (run false ops init)) -> ~ In v (stored (ar (run false ops init)))).
Proof. exact hist_drop_once. Qed.

Print Assumptions C08_payload_stable.
Print Assumptions C08_write.
Print Assumptions C08_payload_accounting.
Print Assumptions C08_drop_once.
