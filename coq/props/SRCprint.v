(* SRCprint — source tie for the pretty printer's line-state machine (debug_pretty_print.rs: IndentedBlockState,
   IndentWriter and its fmt::Write impl).  coq/gen/GenPrint.v is REGENERATED from the Rust text on every run by
   rs2coq; the sink is the byte list written so far and `indents` is the Vec in its own order.  The theorems state
   that the regenerated machine refines the hand-written model of theories/Printer.v (which keeps the indent stack
   reversed: abstraction function absw) on every writer state that can occur during a print (invariant gw_inv:
   `pending` is meaningful whenever the line state is PartialIndent), for every string written, both build profiles.
   The driver around it (fmt of DebugPrettyPrint, prepare_next_node_printing) is pinned verbatim in
   props/INVdebug_pretty_print.v and exercised byte for byte by the correspondence check. *)
From IT.proofs Require Import SrcTac SrcPrint.
From IT.gen Require Import GenPrint.
Open Scope mon_scope.

Theorem SRC_indent_strings : forall i,
  g_IndentedBlockState_as_str i = as_str i /\
  g_IndentedBlockState_as_str_leading i = as_str_leading i /\
  g_IndentedBlockState_as_str_trailing_spaces i = as_str_trailing_spaces i /\
  g_IndentedBlockState_is_all_whitespace i = is_all_whitespace i.
Proof.
  intros. repeat split; first [ apply src_as_str | apply src_as_str_leading | apply src_as_str_trailing_spaces | apply src_is_all_whitespace ].
Qed.

Theorem SRC_indent_writer_items : forall g b,
  absw (g_IndentWriter_open_item g b) = open_item b (absw g) /\
  close_item (absw g) = (let '(g', ok) := g_IndentWriter_close_item g in if ok then Some (absw g') else None) /\
  absw (g_IndentWriter_write_indent_partial g) = write_indent_partial (absw g).
Proof.
  intros. repeat split; first [ apply src_open_item | apply src_close_item | apply src_write_indent_partial ].
Qed.

Theorem SRC_complete_partial_indent : forall dbg g a, gw_ok g ->
  exists r, g_IndentWriter_complete_partial_indent dbg g a = (a, r) /\
            map_res absw r = complete_partial_indent dbg (absw g) /\
            (forall g', r = Ok g' -> gw_ok g' /\ g_ind g' = g_ind g).
Proof. exact src_complete_partial_indent. Qed.

(* fmt::Write::write_str, on every writer state reachable during a print *)
Theorem SRC_write_str : forall dbg g s a, gw_inv g ->
  exists r, g_IndentWriter_write_str dbg g s a = (a, r) /\
            map_res absw r = write_str dbg s (absw g) /\
            (forall g', r = Ok g' -> gw_inv g' /\ (s <> [] -> g_lst g' <> PartialIndent)).
Proof. exact src_write_str_inv. Qed.

(* a payload's whole rendering, in any chunking (one write_str call per chunk) *)
Theorem SRC_write_chunks : forall dbg chunks g a, gw_inv g ->
  exists r, g_write_chunks dbg chunks g a = (a, r) /\
            map_res absw r = write_chunks dbg chunks (absw g) /\
            (forall g', r = Ok g' -> gw_inv g').
Proof. intros. apply src_write_chunks. assumption. Qed.

(* the invariant holds initially and is kept by the two other operations of a print *)
Theorem SRC_writer_invariant :
  gw_inv (mkGW [] BeforeIndent [] 0) /\
  (forall g b, gw_inv g -> gw_inv (g_IndentWriter_open_item g b)) /\
  (forall g, gw_inv g -> g_lst g <> PartialIndent -> gw_inv (fst (g_IndentWriter_close_item g))).
Proof. repeat split. apply gw_inv_new. apply gw_inv_open_item. apply gw_inv_close_item. Qed.

(* The driver of the printer (fmt of DebugPrettyPrint + prepare_next_node_printing, pinned verbatim in
   props/INVdebug_pretty_print.v) restated by hand over the REGENERATED writer functions computes exactly the model's
   pretty_print — so C14_print speaks about the regenerated state machine: *)
Theorem SRC_pretty_print : forall dbg rend mode x a,
  g_pretty_print dbg rend mode x a = (a, pretty_print dbg rend mode x a).
Proof. exact src_pretty_print. Qed.

From IT.proofs Require Import PrinterProofs.
From IT Require Import Spec.
Corollary SRC_C14_on_the_regenerated_machine : forall dbg a t rend mode pay,
  tree_in a t -> payloads_ok a rend mode pay t ->
  g_pretty_print dbg rend mode (root t) a = (a, Ok (render rend mode pay t)).
Proof. intros. rewrite src_pretty_print. f_equal. apply pretty_print_render; assumption. Qed.

Print Assumptions SRC_indent_strings.
Print Assumptions SRC_indent_writer_items.
Print Assumptions SRC_complete_partial_indent.
Print Assumptions SRC_write_str.
Print Assumptions SRC_writer_invariant.
Print Assumptions SRC_write_chunks.
Print Assumptions SRC_pretty_print.
Print Assumptions SRC_C14_on_the_regenerated_machine.
