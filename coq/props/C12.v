(* C12 — A removed node is out of every tree and can never be attached again.
   In every reachable world: a removed slot has none of the five links; no link of a live node
   names anything but a live node (so no link or traversal leads to a removed one); with a removed
   id in either position the checked inserts err with a reason that applies, the unchecked forms
   and append_value panic, and the arena is unchanged in all nine cases; a node created in a
   recycled slot starts with no links (C07_new_node: fresh_node). *)
From IT Require Import Props.
From IT.proofs Require Import Reach Reach2 MonitorSound.
Open Scope Z_scope.

Theorem C12_no_links : forall ops i n, valid_hist false init ops -> let w := reach ops in
  nth_error (nodes (ar w)) i = Some n -> stamp n < 0 ->
  parent n = None /\ prev n = None /\ next n = None /\ first n = None /\ last n = None.
Proof. exact reach_dead_no_links. Qed.
Theorem C12_unreachable : forall ops, valid_hist false init ops ->
  forall x n f z, live (ar (reach ops)) x -> node_at (ar (reach ops)) x n -> getf f n = Some z -> live (ar (reach ops)) z.
Proof. exact reach_links_live. Qed.
Theorem C12_refused_checked : forall ops k x c F, valid_hist false init ops -> let w := reach ops in
  Repr (ar w) F -> usable (ar w) x -> usable (ar w) c -> slot_removed (ar w) x \/ slot_removed (ar w) c ->
  exists e, snd (step false w (OInsert k true x c)) = OutErr e /\ reason_applies (ar w) F k x c e /\
            ar (fst (step false w (OInsert k true x c))) = ar w.
Proof.
  intros ops k x c F H w HF Hx Hc Hr.
  exact (proj1 (reach_checked ops k x c F H HF Hx Hc) (removed_impossible _ F k x c Hr)).
Qed.
Theorem C12_refused_unchecked : forall ops k x c F, valid_hist false init ops -> let w := reach ops in
  Repr (ar w) F -> usable (ar w) x -> usable (ar w) c -> slot_removed (ar w) x \/ slot_removed (ar w) c ->
  snd (step false w (OInsert k false x c)) = OutPanic P_PRECOND /\ ar (fst (step false w (OInsert k false x c))) = ar w.
Proof.
  intros ops k x c F H w HF Hx Hc Hr.
  exact (proj1 (reach_unchecked ops k x c F H HF Hx Hc) (removed_impossible _ F k x c Hr)).
Qed.
Theorem C12_refused_append_value : forall ops p v, valid_hist false init ops -> let w := reach ops in
  slot_removed (ar w) p ->
  snd (step false w (OAppendValue p v)) = OutPanic P_PRECOND /\ ar (fst (step false w (OAppendValue p v))) = ar w.
Proof. exact reach_append_value_removed. Qed.
Theorem C12_monitor_silent : forall ops, valid_hist false init ops -> c12_state (ar (reach ops)) = [].
Proof. exact reach_c12_silent. Qed.

Theorem C12_monitor_sound : forall a, c12_state a = [] ->
  forall i n, nth_error (nodes a) i = Some n -> stamp n < 0 ->
    parent n = None /\ prev n = None /\ next n = None /\ first n = None /\ last n = None.
Proof. exact c12_state_sound. Qed.

Print Assumptions C12_no_links.
Print Assumptions C12_monitor_sound.
Print Assumptions C12_unreachable.
Print Assumptions C12_refused_checked.
Print Assumptions C12_refused_unchecked.
Print Assumptions C12_refused_append_value.
Print Assumptions C12_monitor_silent.
