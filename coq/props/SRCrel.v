(* SRCrel — source tie for relations.rs and siblings_range.rs (the only writers of structural links).
   The imported coq/gen/Gen*.v files are REGENERATED from /repo/indextree/src/*.rs on every run by rs2coq (one
   Gallina definition per Rust function; translation rules in DESIGN.md 5.1b).  The theorems state that each
   regenerated definition is, for every input and every arena, exactly the hand-written model function the
   property theorems are proved about (the model's ghost results are dropped with then_ret).  A function rs2coq
   cannot translate becomes a value of type `unsupported`, on which these statements do not type-check. *)
From IT.proofs Require Import SrcTac SrcStamp SrcRel.
From IT.gen Require Import GenStamp GenRel.
Open Scope mon_scope.

Theorem SRC_relations : forall dbg new f l p pv nx a,
  g_assert_triangle_nodes dbg p pv nx a = assert_triangle_nodes p pv nx a /\
  g_connect_neighbors dbg p pv nx a = connect_neighbors dbg p pv nx a /\
  g_SiblingsRange_new dbg f l a = (a, Ok (f, l)) /\
  g_DetachedSiblingsRange_new dbg f l a = (a, Ok (f, l)) /\
  g_SiblingsRange_detach_from_siblings dbg (f, l) a = then_ret (detach_from_siblings dbg f l) (f, l) a /\
  g_DetachedSiblingsRange_rewrite_parents dbg (f, l) p a = rewrite_parents f p a /\
  g_DetachedSiblingsRange_transplant dbg (f, l) p pv nx a = transplant dbg f l p pv nx a /\
  g_insert_with_neighbors dbg new p pv nx a = insert_with_neighbors dbg new p pv nx a /\
  g_insert_last_unchecked dbg new f a = insert_last_unchecked dbg new f a.
Proof.
  intros. repeat split; first [ reflexivity | apply src_assert_triangle_nodes | apply src_connect_neighbors | apply src_detach_from_siblings | apply src_rewrite_parents | apply src_transplant | apply src_insert_with_neighbors | apply src_insert_last_unchecked ].
Qed.

Print Assumptions SRC_relations.
