(* C17 — Cargo features are purely additive (partial: the static half).
   Proved over the inventory of cfg gates REGENERATED from the sources by tools/translate.py:
   every gate that depends on a cargo feature guards an import, `extern crate`, the crate-level
   no_std attribute, a derive attribute, a whole trait impl, or a whole inherent impl made only of
   new pub fns — never a statement, expression, field or an existing function.  The dynamic half
   (same behaviour under every feature set) is decided by the correspondence runs. *)
From IT Require Import CfgModel.
From IT.gen Require Import GenCfg.

Theorem C17_gates_additive : forallb gate_ok gates = true.
Proof. vm_compute. reflexivity. Qed.

(* every other cfg predicate is one of the known non-feature ones (debug_assertions, the guard) *)
Theorem C17_gates_known : forallb known_nonfeature gates = true.
Proof. vm_compute. reflexivity. Qed.

(* non-vacuity: the inventory does contain feature gates, and a gate on an expression is refused *)
Theorem C17_inventory_nonempty : Nat.ltb 10 (length (filter is_feature_gate gates)) = true.
Proof. vm_compute. reflexivity. Qed.
Theorem C17_refuses_expression_gate :
  gate_ok (mkGate "x.rs" 1 "feature = ""std""" KExprMacro "") = false /\
  gate_ok (mkGate "x.rs" 1 "feature = ""std""" KFn "f") = false /\
  gate_ok (mkGate "x.rs" 1 "feature = ""std""" KUnknown "") = false.
Proof. vm_compute. repeat split. Qed.

Print Assumptions C17_gates_additive.
Print Assumptions C17_gates_known.
Print Assumptions C17_inventory_nonempty.
Print Assumptions C17_refuses_expression_gate.
