(* C14 — debug_pretty_print draws exactly the subtree, one block per node, correct guides.
   For every arena, every rose tree t laid out in it (any shape; the start node root t may have a
   parent and siblings, which must not show), every rendering of the payloads given as an arbitrary
   CHUNKING (sequence of write_str calls) whose concatenation is non-empty and does not end in a
   newline, the four modes, debug and release: the writer machine outputs exactly [render]. *)
From IT Require Import Props.
From IT.proofs Require Import PrinterProofs Reach Reach2.
From IT.proofs Require ReprTree.

Theorem C14_print : forall dbg a t rend mode pay,
  tree_in a t -> payloads_ok a rend mode pay t ->
  pretty_print dbg rend mode (root t) a = Ok (render rend mode pay t).
Proof. exact pretty_print_render. Qed.

(* from EVERY live node of EVERY reachable arena: the drawing is that of the abstract forest's tree of x *)
Theorem C14_print_reachable : forall ops dbg F x rend mode, Repr (ar (reach ops)) F -> live (ar (reach ops)) x ->
  let a := ar (reach ops) in
  (forall y, In y (preorderF (length (nodes a)) F x) ->
     good_text (concat (rend (payload_at a y) mode)) /\ exists n v, node_at a y n /\ data n = Data v) ->
  pretty_print dbg rend mode x a = Ok (render rend mode (payload_at a) (ReprTree.treeF (length (nodes a)) F x)).
Proof. exact reach_print. Qed.

Print Assumptions C14_print.
Print Assumptions C14_print_reachable.
