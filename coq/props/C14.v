(* C14 — debug_pretty_print draws exactly the subtree, one block per node, correct guides.
   For every arena, every rose tree t laid out in it (any shape; the start node root t may have a
   parent and siblings, which must not show), every rendering of the payloads given as an arbitrary
   CHUNKING (sequence of write_str calls) whose concatenation is non-empty and does not end in a
   newline, the four modes, debug and release: the writer machine outputs exactly [render]. *)
From IT Require Import Spec.
From IT.proofs Require Import PrinterProofs.

Theorem C14_print : forall dbg a t rend mode pay,
  tree_in a t -> payloads_ok a rend mode pay t ->
  pretty_print dbg rend mode (root t) a = Ok (render rend mode pay t).
Proof. exact pretty_print_render. Qed.

Print Assumptions C14_print.
