(* C16 — Serialising and deserialising an arena reproduces it exactly.
   Over the serde data-model view of the derived impls: for EVERY arena value whose stamps are
   i16 (what the Rust types guarantee; reachable or not), decoding the encoding gives the arena
   back and leaves the rest of the input.  Equal arenas have equal futures because [run] is a
   function of the arena. *)
From IT Require Import Serde World.
From IT.proofs Require Import SerdeProofs Reach Reach3.
From IT Require Import Props.

Theorem C16_roundtrip : forall (a : arena) (rest : list tok),
  types_ok a -> decode (encode a ++ rest) = Some (a, rest).
Proof. exact decode_encode. Qed.

Theorem C16_injective : forall a b, types_ok a -> types_ok b -> encode a = encode b -> a = b.
Proof. exact encode_injective. Qed.

(* the round-tripped copy continues to behave identically under any further calls *)
Theorem C16_continue : forall dbg (w : world) a' ops,
  types_ok (ar w) -> decode (encode (ar w)) = Some (a', []) ->
  run dbg ops (mkWorld a' (issued w) (removed w) (dropped w)) = run dbg ops w.
Proof.
  intros dbg w a' ops Ht Hd.
  pose proof (decode_encode (ar w) [] Ht) as H. rewrite app_nil_r in H.
  rewrite H in Hd. inversion Hd; subst a'. destruct w; reflexivity.
Qed.

(* every reachable arena (any mix of live, removed, recycled and retired slots) meets the typing
   side condition, so the round trip applies to it *)
Theorem C16_reachable_types_ok : forall ops, valid_hist false init ops -> types_ok (ar (reach ops)).
Proof. exact reach_types_ok. Qed.
Theorem C16_roundtrip_reachable : forall ops rest, valid_hist false init ops ->
  decode (encode (ar (reach ops)) ++ rest) = Some (ar (reach ops), rest).
Proof. exact reach_roundtrip. Qed.

Print Assumptions C16_roundtrip.
Print Assumptions C16_reachable_types_ok.
Print Assumptions C16_roundtrip_reachable.
Print Assumptions C16_injective.
Print Assumptions C16_continue.
