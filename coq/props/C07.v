(* C07 — Allocation recycles removed slots and never hands out an occupied one.
   In every reachable world: the free list (the observable walk from first_free_slot) holds exactly
   the removed slots whose generation counter is not exhausted, each once; new_node returns the head
   of that list if there is one (count unchanged) and otherwise the index count (count + 1); the slot
   it returns held no live node, the id was never issued, the new node has no links, and EVERY other
   slot is identical; free_node appends the slot to the END of the free list exactly when it is
   reusable — so between two allocations returning a slot there is exactly one removal of it. *)
From IT Require Import Props.
From IT.proofs Require Import Reach Reach2.
Open Scope Z_scope.

Theorem C07_free_list_exact : forall ops, valid_hist false init ops ->
  NoDup (free_list (ar (reach ops))) /\ (forall i, In i (free_list (ar (reach ops))) <-> reusable_slot (ar (reach ops)) i) /\
  ffree (ar (reach ops)) = hd_error (free_list (ar (reach ops))).
Proof. exact reach_free_list. Qed.
Theorem C07_new_node : forall ops v, valid_hist false init ops -> let w := reach ops in
  exists a' x, new_node false v (ar w) = (a', Ok x) /\ ~ In x (issued w) /\ ~ live (ar w) x /\ live a' x /\
    node_at a' x (fresh_node (gen x) (Data v)) /\
    (forall j, j <> idx x -> nth_error (nodes a') j = nth_error (nodes (ar w)) j) /\
    match free_list (ar w) with
    | i :: rest => idx x = i /\ length (nodes a') = length (nodes (ar w)) /\ free_list a' = rest
    | [] => idx x = length (nodes (ar w)) /\ length (nodes a') = S (length (nodes (ar w))) /\ free_list a' = []
    end.
Proof. exact reach_new_node. Qed.
Theorem C07_free_once : forall ops x, valid_hist false init ops -> let w := reach ops in live (ar w) x ->
  exists a' v, free_node false x (ar w) = (a', Ok (Some v)) /\ payload_of_id (ar w) x = Some v /\
    free_list a' = free_list (ar w) ++ (if gen x <? i16_max then [idx x] else []).
Proof. exact reach_free_node. Qed.

Print Assumptions C07_free_list_exact.
Print Assumptions C07_new_node.
Print Assumptions C07_free_once.
