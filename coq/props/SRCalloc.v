(* SRCalloc — source tie for id.rs (NodeStamp, id helpers), node.rs (Node helpers), arena.rs (allocation, free list, lookups).
   The imported coq/gen/Gen*.v files are REGENERATED from /repo/indextree/src/*.rs on every run by rs2coq (one
   Gallina definition per Rust function; translation rules in DESIGN.md 5.1b).  The theorems state that each
   regenerated definition is, for every input and every arena, exactly the hand-written model function the
   property theorems are proved about (the model's ghost results are dropped with then_ret).  A function rs2coq
   cannot translate becomes a value of type `unsupported`, on which these statements do not type-check. *)
From IT.proofs Require Import SrcTac SrcStamp SrcAlloc.
From IT Require Value.
From IT.gen Require Import GenStamp GenAlloc.
Open Scope mon_scope.

Theorem SRC_stamp : forall dbg s a,
  g_NodeStamp_is_removed dbg s a = (a, Ok (st_is_removed s)) /\
  g_NodeStamp_as_removed dbg s a = liftres (st_as_removed dbg s) a /\
  g_NodeStamp_reuseable dbg s a = liftres (st_reuseable dbg s) a /\
  g_NodeStamp_reuse dbg s a = liftres (dup (st_reuse dbg s)) a.
Proof.
  intros. repeat split; first [ reflexivity | apply src_stamp_as_removed | apply src_stamp_reuseable | apply src_stamp_reuse ].
Qed.

Theorem SRC_node : forall dbg n v a,
  g_Node_is_removed dbg n a = (a, Ok (node_is_removed n)) /\
  g_Node_is_detached dbg n a = (a, Ok (node_is_detached n)) /\
  g_Node_new dbg v a = (a, Ok (fresh_node 0 (Data v))) /\
  g_Node_reuse dbg n v a = liftres (node_reuse_val dbg n v) a.
Proof.
  intros. repeat split; first [ reflexivity | apply src_node_reuse ].
Qed.

Theorem SRC_id : forall dbg x i s a,
  g_NodeId_index0 dbg x a = (a, Ok (idx x)) /\
  g_NodeId_from_non_zero_usize dbg (S i) s a = (a, Ok (mkId i s)) /\
  g_NodeId_is_removed dbg x a = lift (id_is_removed x) a.
Proof.
  intros. repeat split; first [ reflexivity | apply src_index0 | apply src_id_is_removed ].
Qed.

Theorem SRC_arena : forall dbg x v i a,
  g_Arena_pop_front_free_node dbg a = pop_front_free_node a /\
  g_Arena_new_node dbg v a = new_node dbg v a /\
  g_Arena_free_node dbg x a = then_ret (free_node dbg x) tt a /\
  g_Arena_clear dbg a = then_ret clear tt a /\
  g_Arena_count dbg a = (a, Ok (ArenaM.count a)) /\
  g_Arena_is_empty dbg a = (a, Ok (ArenaM.is_empty a)) /\
  g_Arena_get dbg x a = (a, Ok (ArenaM.get a x)) /\
  g_Arena_get_node_id_at dbg (S i) a = (a, Ok (get_node_id_at a (S i))).
Proof.
  intros. repeat split; first [ reflexivity | apply src_pop_front_free_node | apply src_new_node | apply src_free_node | apply src_clear | apply src_get | apply src_get_node_id_at ].
Qed.

(* Arena::get_node_id, pointer arithmetic included.  The Vec's buffer is [length (nodes a)] slots of [size] bytes
   starting at [base]; the `&Node<T>` argument is an address.  The address of slot k resolves to the id of slot k
   (the model's InBuffer k), an interior address to the slot that contains it, and any address outside the buffer
   (a node of another arena or of a clone) to None (the model's Elsewhere). *)
Theorem SRC_get_node_id : forall dbg base size a,
  (0 < size)%Z ->
  (forall k, (k < length (nodes a))%nat ->
     g_Arena_get_node_id dbg base size (base + Z.of_nat k * size) a = (a, Ok (Value.get_node_id a (Value.InBuffer k)))) /\
  (forall p, (base <= p)%Z -> (p < base + Z.of_nat (length (nodes a)) * size)%Z ->
     g_Arena_get_node_id dbg base size p a = (a, Ok (Value.get_node_id a (Value.InBuffer (Z.to_nat ((p - base) / size)))))) /\
  (forall p, (p < base \/ base + Z.of_nat (length (nodes a)) * size <= p)%Z ->
     g_Arena_get_node_id dbg base size p a = (a, Ok (Value.get_node_id a Value.Elsewhere))).
Proof.
  intros dbg base size a Hs. repeat split; intros.
  - apply src_get_node_id_slot; assumption.
  - apply src_get_node_id_inside; assumption.
  - apply src_get_node_id_outside; assumption.
Qed.

Print Assumptions SRC_stamp.
Print Assumptions SRC_node.
Print Assumptions SRC_id.
Print Assumptions SRC_arena.
Print Assumptions SRC_get_node_id.
