(* C18 — Shared arenas are safe and deterministic to read from many threads (partial).
   (a) type-level part, over the field types REGENERATED from the sources by tools/translate.py;
   (b) schedule part over the reader machines of theories/Concurrency.v.
   Memory-model data-race freedom is delegated to safe Rust (forbid(unsafe_code)); see DESIGN.md. *)
From IT Require Import AutoTraits Concurrency.
From IT.gen Require Import GenTypes.
From IT.proofs Require Import ConcurrencyProofs.
Open Scope string_scope.

(* Arena<T>, Node<T>, NodeId (and NodeEdge) are Send and Sync whenever T is *)
Theorem C18_send_sync :
  send_sync_given env "Arena" true true = (true, true) /\
  send_sync_given env "Node" true true = (true, true) /\
  send_sync_given env "NodeId" true true = (true, true) /\
  send_sync_given env "NodeEdge" true true = (true, true).
Proof. vm_compute. repeat split. Qed.

(* every iterator over a shared arena can be moved to and shared between threads as soon as T: Sync *)
Theorem C18_iterators_send_sync :
  forallb (fun n => let r := send_sync_given env n false true in fst r && snd r)
    ["Ancestors"; "Predecessors"; "PrecedingSiblings"; "FollowingSiblings"; "Children";
     "ReverseChildren"; "Descendants"; "Traverse"; "ReverseTraverse"] = true.
Proof. vm_compute. reflexivity. Qed.

(* the derivation really depends on T (non-vacuity) and fails closed on unknown types *)
Theorem C18_depends_on_T :
  send_sync_given env "Arena" false true = (false, true) /\
  send_sync_given env "Arena" true false = (true, false) /\
  send_sync_given env "NoSuchType" true true = (false, false).
Proof. vm_compute. repeat split. Qed.

Theorem C18_no_unsafe_no_interior_mut :
  forbid_unsafe_code = true /\ unsafe_tokens = 0%nat /\ interior_mutability_tokens = [].
Proof. vm_compute. repeat split. Qed.

(* under EVERY schedule, each reader's observations are those of the same reader running alone *)
Theorem C18_schedule_independent :
  forall (St Obs : Type) (a : arena) (steps : list (rstep St Obs)) (sched : list nat) (sts : list St) i f s,
    nth_error steps i = Some f -> nth_error sts i = Some s ->
    project Obs i (run_sched St Obs a steps sts sched)
    = run_alone St Obs a f s (length (project Obs i (run_sched St Obs a steps sts sched))).
Proof. exact schedule_independent_gen. Qed.

Print Assumptions C18_send_sync.
Print Assumptions C18_iterators_send_sync.
Print Assumptions C18_depends_on_T.
Print Assumptions C18_no_unsafe_no_interior_mut.
Print Assumptions C18_schedule_independent.
