(* C06 — Node ids are never reissued; is_removed(id) stays true forever after removal.
   For histories of ANY length (the induction is over the operation list; the end of the i16
   generation counter is a case of the step lemma, not a bound): the ids issued since creation /
   the last clear are pairwise distinct; for every issued id, NodeId::is_removed returns (never
   panics) true exactly for the ids whose node has been removed; once removed, an id stays in the
   removed set (hence reports true) under every continuation without clear; stamps never leave
   the i16 range, so debug and release arithmetic agree.  The generation arithmetic itself is
   proved over the whole range (cycle_increases, exhausted_retired in proofs/AllocProofs.v) and
   compared with the implementation over all 65536 inputs on every run. *)
From IT Require Import Props.
From IT.proofs Require Import AllocProofs AllocProps Reach Reach2.
Open Scope Z_scope.

Theorem C06_unique : forall ops, valid_hist false init ops -> NoDup (issued (run false ops init)).
Proof. exact hist_issued_nodup. Qed.
Theorem C06_is_removed_exact : forall ops x, valid_hist false init ops ->
  let w := run false ops init in In x (issued w) ->
  (id_is_removed x (ar w) = Ok true <-> In x (removed w)) /\ (id_is_removed x (ar w) = Ok false <-> ~ In x (removed w)).
Proof. exact hist_is_removed_exact. Qed.
Theorem C06_is_removed_total : forall ops x, valid_hist false init ops -> In x (issued (reach ops)) ->
  id_is_removed x (ar (reach ops)) = Ok true /\ In x (removed (reach ops)) \/
  id_is_removed x (ar (reach ops)) = Ok false /\ ~ In x (removed (reach ops)) /\ live (ar (reach ops)) x.
Proof. exact reach_is_removed. Qed.
Theorem C06_removed_forever : forall ops1 ops2 x, valid_hist false init (ops1 ++ ops2) ->
  ~ In OClear ops2 -> In x (removed (run false ops1 init)) ->
  In x (removed (run false (ops1 ++ ops2) init)) /\ In x (issued (run false (ops1 ++ ops2) init)).
Proof. exact hist_removed_forever. Qed.
Theorem C06_no_overflow : forall ops i n, valid_hist false init ops ->
  nth_error (nodes (ar (reach ops))) i = Some n -> i16_min <= stamp n <= i16_max.
Proof. exact reach_stamps_in_range. Qed.
(* the generation of a slot strictly increases over a remove / reuse cycle, in debug and release;
   at the end of the counter the slot is retired instead of being reused *)
Theorem C06_generation_increases : forall dbg s s' s'', 0 <= s <= i16_max ->
  st_as_removed dbg s = Ok s' -> st_reuseable dbg s' = Ok true -> st_reuse dbg s' = Ok s'' -> s'' = s + 1 /\ s'' <= i16_max.
Proof. exact cycle_increases. Qed.
Theorem C06_exhausted_slot_retired : forall dbg, st_as_removed dbg i16_max = Ok i16_min /\ st_reuseable dbg i16_min = Ok false.
Proof. exact exhausted_retired. Qed.

Print Assumptions C06_unique.
Print Assumptions C06_is_removed_exact.
Print Assumptions C06_is_removed_total.
Print Assumptions C06_removed_forever.
Print Assumptions C06_no_overflow.
Print Assumptions C06_generation_increases.
Print Assumptions C06_exhausted_slot_retired.
