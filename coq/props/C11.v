(* C11 — Ids, positions, references and the slot view agree with each other (partial).
   Proved: the index/stamp logic of every lookup path, for EVERY arena and every live id, removed
   slot and out-of-range position.  A reference is abstracted to where it points (Value.v); the
   pointer-range test and size_of division of get_node_id are decided by the correspondence check
   only (own, cloned, foreign and reallocated references on the real crate). *)
From IT Require Import Value Forest.
From IT.proofs Require Import ValueProofs.

(* get / Index / get_mut address the slot idx(id) *)
Theorem C11_get_is_slot : forall a x n, get a x = Some n <-> nth_error (nodes a) (idx x) = Some n.
Proof. exact get_index_agree. Qed.
Theorem C11_index_agrees_with_get : forall a x n, get a x = Some n -> rdi x a = (a, Ok n).
Proof. intros a x n H. unfold rdi, rd. unfold get in H. now rewrite H. Qed.
Theorem C11_get_none_out_of_range : forall a x, (length (nodes a) <= idx x)%nat -> get a x = None.
Proof. exact get_none_out_of_range. Qed.
(* get_node_id(arena.get(id)) = id and get_node_id_at(position of id) = id, for every live id *)
Theorem C11_get_node_id : forall a x, live a x -> get_node_id a (ref_of a x) = Some x.
Proof. exact get_node_id_of_live. Qed.
Theorem C11_get_node_id_at : forall a x, live a x -> get_node_id_at a (usize_of x) = Some x.
Proof. exact get_node_id_at_of_live. Qed.
Theorem C11_position_in_range : forall a x, live a x -> (1 <= usize_of x <= count a)%nat.
Proof. exact position_of_id. Qed.
Theorem C11_get_node_id_at_removed : forall a i n, nth_error (nodes a) i = Some n -> stamp n < 0 ->
  get_node_id_at a (S i) = None.
Proof. exact get_node_id_at_removed. Qed.
Theorem C11_get_node_id_at_out_of_range : forall a k, (length (nodes a) < k)%nat -> get_node_id_at a k = None.
Proof. exact get_node_id_at_out_of_range. Qed.
Theorem C11_foreign_reference : forall a, get_node_id a Elsewhere = None.
Proof. exact get_node_id_elsewhere. Qed.
Theorem C11_is_empty : forall a, is_empty a = true <-> count a = 0%nat.
Proof. exact is_empty_count. Qed.

Print Assumptions C11_get_is_slot.
Print Assumptions C11_index_agrees_with_get.
Print Assumptions C11_get_none_out_of_range.
Print Assumptions C11_get_node_id.
Print Assumptions C11_get_node_id_at.
Print Assumptions C11_position_in_range.
Print Assumptions C11_get_node_id_at_removed.
Print Assumptions C11_get_node_id_at_out_of_range.
Print Assumptions C11_foreign_reference.
Print Assumptions C11_is_empty.
