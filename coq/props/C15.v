(* C15 — tree! builds exactly the tree that is written.
   Model: the macro's flattening loop (explicit stack of nodes and nesting markers), the coalescing
   of equal-kind runs, the removal of the useless trailing Parent run, and the expanded program with
   its registers __node / __last (theories/MacroModel.v).  Specification: plain recursion on the
   literal (theories/MacroSpec.v).
   In every reachable world, for EVERY literal forest (any nesting shape, width and depth, empty child
   lists included) and both root forms: (1) flatten-and-interpret computes exactly what the literal
   says; (2) it does not panic, returns the root (a new node when given a value, the given node when
   given a live NodeId), evaluates the root expression and then every node expression exactly once in
   textual order, creates one node per expression, shaped like the literal, appended after the root's
   existing children, children in textual order, payloads as written; nothing else changes.
   syn's parser (`=> {}`, trailing commas), quote! splicing, the order arena-expression-first and the
   autoref dispatch on the root's type are decided by compiling real invocations (correspondence). *)
From IT Require Import Props MacroSpec.
From IT.proofs Require Import MacroProofs Reach.

Theorem C15_macro_is_what_is_written : forall ops root nodes, valid_hist false init ops ->
  let w := reach ops in
  match root with RootId r => live (ar w) r | RootValue _ => True end ->
  tree_macro false root nodes (ar w) = tree_reference false root nodes (ar w).
Proof. intros ops root nodes H w Hr. exact (macro_is_reference w root nodes (reach_WF ops H) Hr). Qed.

Theorem C15_builds_the_literal : forall ops F root nodes, valid_hist false init ops ->
  let w := reach ops in Repr (ar w) F ->
  match root with RootId r => live (ar w) r | RootValue _ => True end ->
  exists a' r log new trees F',
    tree_macro false root nodes (ar w) = (a', Ok (r, log, new)) /\
    (match root with RootId r0 => r = r0 /\ log = flat_map lit_preorder nodes /\ new = flat_map ids trees
                   | RootValue v => ~ live (ar w) r /\ log = v :: flat_map lit_preorder nodes /\ new = r :: flat_map ids trees end) /\
    Forall2 shaped nodes trees /\
    Repr a' F' /\
    kidsf F' r = kidsf F r ++ map Spec.root trees /\
    (forall t x ts, In t trees -> subtree_of t (T x ts) -> kidsf F' x = map Spec.root ts) /\
    (forall p, p <> r -> ~ In p (flat_map ids trees) -> kidsf F' p = kidsf F p) /\
    (forall y, In y (flat_map ids trees) -> ~ live (ar w) y /\ live a' y) /\
    (forall y, live (ar w) y -> live a' y /\ payload_of_id a' y = payload_of_id (ar w) y) /\
    payloads_match a' nodes trees.
Proof. intros ops F root nodes H w HF Hr. exact (macro_builds_literal w F root nodes HF (reach_alloc ops H) Hr). Qed.

Print Assumptions C15_macro_is_what_is_written.
Print Assumptions C15_builds_the_literal.
