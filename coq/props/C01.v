(* C01 — Links of live nodes always describe a well-formed ordered forest.
   For EVERY history of valid API calls from the empty arena (failing calls included), the arena
   satisfies LinksOK (theories/Props.v: the property text over the arena's own fields), and the
   executable monitor c01_check — the same statement in boolean form, which the correspondence check
   evaluates on every state OBSERVED ON THE IMPLEMENTATION — is silent on every model state. *)
From IT Require Import Props.
From IT.proofs Require Import Reach Reach2 MonitorSound.

Theorem C01_links_wellformed : forall ops, valid_hist false init ops -> LinksOK (ar (reach ops)).
Proof. exact reach_links_ok. Qed.
Theorem C01_monitor_silent : forall ops, valid_hist false init ops -> c01_check (ar (reach ops)) = [].
Proof. exact reach_c01_silent. Qed.
(* the invariant behind it: every reachable arena represents an abstract ordered forest *)
Theorem C01_represents_forest : forall ops, valid_hist false init ops -> exists F, Repr (ar (reach ops)) F.
Proof. exact reach_repr. Qed.

(* soundness of the monitor, for ARBITRARY arenas (no invariant assumed): whenever c01_check is silent
   on a state — in particular a state observed on the implementation — LinksOK holds of that state *)
Theorem C01_monitor_sound : forall a, c01_check a = [] -> LinksOK a.
Proof. exact c01_check_sound. Qed.

Print Assumptions C01_links_wellformed.
Print Assumptions C01_monitor_sound.
Print Assumptions C01_monitor_silent.
Print Assumptions C01_represents_forest.
