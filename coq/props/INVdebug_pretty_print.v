(* INVdebug_pretty_print — pinned inventory of indextree/src/debug_pretty_print.rs: every trait impl with its methods, every derive list,
   every static / const / macro-generated item (macro_rules! arms are read with their metavariables substituted).
   coq/gen/GenInventory.v is REGENERATED from the sources on every run by rs2coq; this theorem fails when the file
   gains or loses an impl, a method inside an impl (e.g. an overridden `fold`), a derive (e.g. Clone replaced by a
   hand-written impl), a static, or when the body of an expression macro changes.  The model accounts for exactly
   the items listed here. *)
From Coq Require Import String List.
Import ListNotations.
From IT.gen Require Import GenInventory.
Open Scope string_scope.

Theorem SRC_inventory_debug_pretty_print : inv_debug_pretty_print = [
  ("struct IndentedBlockState", ["Clone"; "Copy"]);
  ("impl IndentedBlockState", ["as_str"; "as_str_leading"; "as_str_trailing_spaces"; "is_all_whitespace"]);
  ("enum LineState", ["Debug"; "Clone"; "Copy"; "PartialEq"; "Eq"]);
  ("struct IndentWriter", []);
  ("impl IndentWriter < 'a , 'b >", ["new"; "open_item"; "close_item"; "write_indent_partial"; "complete_partial_indent"]);
  ("impl fmt::Write for IndentWriter < '_ , '_ >", ["write_str"]);
  ("struct DebugPrettyPrint", ["Clone"; "Copy"]);
  ("impl DebugPrettyPrint < 'a , T >", ["new"]);
  ("impl fmt::Display for DebugPrettyPrint < '_ , T >", ["fmt"]);
  ("impl fmt::Debug for DebugPrettyPrint < '_ , T >", ["fmt"]);
  ("fn prepare_next_node_printing", [])
].
Proof. reflexivity. Qed.

Print Assumptions SRC_inventory_debug_pretty_print.
