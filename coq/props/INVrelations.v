(* INVrelations — pinned inventory of indextree/src/relations.rs: every trait impl with its methods, every derive list,
   every static / const / macro-generated item (macro_rules! arms are read with their metavariables substituted).
   coq/gen/GenInventory.v is REGENERATED from the sources on every run by rs2coq; this theorem fails when the file
   gains or loses an impl, a method inside an impl (e.g. an overridden `fold`), a derive (e.g. Clone replaced by a
   hand-written impl), a static, or when the body of an expression macro changes.  The model accounts for exactly
   the items listed here. *)
From Coq Require Import String List.
Import ListNotations.
From IT.gen Require Import GenInventory.
Open Scope string_scope.

Theorem SRC_inventory_relations : inv_relations = [
  ("use crate :: { error :: ConsistencyError , siblings_range :: { DetachedSiblingsRange , SiblingsRange } , Arena , NodeId , }", []);
  ("debug_assert_triangle_nodes!#1: expression macro", ["{ if cfg ! (debug_assertions) { crate :: relations :: assert_triangle_nodes (MV_arena , MV_parent , MV_previous , MV_next) ; } }"]);
  ("fn assert_triangle_nodes", []);
  ("fn connect_neighbors", []);
  ("fn insert_with_neighbors", []);
  ("fn insert_last_unchecked", [])
].
Proof. reflexivity. Qed.

Print Assumptions SRC_inventory_relations.
