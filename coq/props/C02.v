(* C02 — The forest stays acyclic; every call returns and every iterator is finite.
   For every valid history: parent / sibling walks from any live node are finite duplicate-free
   paths ending in a node without that link, no longer than the number of live nodes; no valid
   call diverges (fuel is never exhausted) in any reachable state; the iterators return (Ok) and
   yield each node (edge) at most once. *)
From IT Require Import Props.
From IT.proofs Require Import Reach Reach2 MonitorSound.
From IT.proofs Require ReprTree.

Theorem C02_parent_chain : forall ops, valid_hist false init ops -> forall x, live (ar (reach ops)) x ->
  exists l, ancestors x (ar (reach ops)) = Ok l /\ is_path (ar (reach ops)) parent x l /\ NoDup l /\
            (length l <= length (live_ids (ar (reach ops))))%nat.
Proof. exact reach_ancestors. Qed.
Theorem C02_next_sibling_chain : forall ops, valid_hist false init ops -> forall x, live (ar (reach ops)) x ->
  exists l, following_siblings x (ar (reach ops)) = Ok l /\ is_path (ar (reach ops)) next x l /\ NoDup l /\
            (length l <= length (live_ids (ar (reach ops))))%nat.
Proof. exact reach_following. Qed.
Theorem C02_prev_sibling_chain : forall ops, valid_hist false init ops -> forall x, live (ar (reach ops)) x ->
  exists l, preceding_siblings x (ar (reach ops)) = Ok l /\ is_path (ar (reach ops)) prev x l /\ NoDup l /\
            (length l <= length (live_ids (ar (reach ops))))%nat.
Proof. exact reach_preceding. Qed.
Theorem C02_predecessors_finite : forall ops, valid_hist false init ops -> forall x, live (ar (reach ops)) x ->
  exists l, predecessors x (ar (reach ops)) = Ok l /\ is_path (ar (reach ops)) pred_link x l /\ NoDup l.
Proof. exact reach_predecessors. Qed.
Theorem C02_subtree_iterators_finite : forall ops, valid_hist false init ops ->
  forall F x, Repr (ar (reach ops)) F -> live (ar (reach ops)) x ->
  let a := ar (reach ops) in
  let t := ReprTree.treeF (length (nodes a)) F x in
  tree_in a t /\ root t = x /\
  traverse x a = Ok (euler t) /\ reverse_traverse x a = Ok (rev (euler t)) /\
  descendants x a = Ok (ids t) /\ children x a = Ok (kidsf F x) /\ reverse_children x a = Ok (rev (kidsf F x)) /\
  NoDup (euler t) /\ NoDup (ids t).
Proof. intros ops _. exact (reach_subtree_iterators ops). Qed.
(* every valid call returns: never Diverge; the only panics are the documented refusals *)
Theorem C02_calls_return : forall ops o, valid_hist false init ops -> valid_op (ar (reach ops)) o ->
  snd (step false (reach ops) o) <> OutDiverge /\
  (forall c, snd (step false (reach ops) o) = OutPanic c ->
     c = P_PRECOND /\ ar (fst (step false (reach ops) o)) = ar (reach ops) /\
     match o with OInsert _ false _ _ | OAppendValue _ _ => True | _ => False end).
Proof. exact reach_total. Qed.
Theorem C02_monitor_silent : forall ops, valid_hist false init ops -> c02_check (ar (reach ops)) = [].
Proof. exact reach_c02_silent. Qed.

(* soundness of the monitor for ARBITRARY arenas: silent => all three walks from every live node end *)
Theorem C02_monitor_sound : forall a, c02_check a = [] -> forall x, live a x ->
  (exists l, is_path a parent x l /\ (length l <= length (nodes a))%nat) /\
  (exists l, is_path a next x l /\ (length l <= length (nodes a))%nat) /\
  (exists l, is_path a prev x l /\ (length l <= length (nodes a))%nat).
Proof. exact c02_check_sound. Qed.

Print Assumptions C02_parent_chain.
Print Assumptions C02_monitor_sound.
Print Assumptions C02_next_sibling_chain.
Print Assumptions C02_prev_sibling_chain.
Print Assumptions C02_predecessors_finite.
Print Assumptions C02_subtree_iterators_finite.
Print Assumptions C02_calls_return.
Print Assumptions C02_monitor_silent.
