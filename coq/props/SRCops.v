(* SRCops — source tie for id.rs: detach, the eight inserts, append_value, remove, remove_subtree.
   The imported coq/gen/Gen*.v files are REGENERATED from /repo/indextree/src/*.rs on every run by rs2coq (one
   Gallina definition per Rust function; translation rules in DESIGN.md 5.1b).  The theorems state that each
   regenerated definition is, for every input and every arena, exactly the hand-written model function the
   property theorems are proved about (the model's ghost results are dropped with then_ret).  A function rs2coq
   cannot translate becomes a value of type `unsupported`, on which these statements do not type-check. *)
From IT.proofs Require Import SrcTac SrcStamp SrcRel SrcAlloc SrcOps.
From IT.gen Require Import GenStamp GenRel GenAlloc GenOps.
Open Scope mon_scope.

Theorem SRC_ops : forall dbg x c v a,
  g_NodeId_detach dbg x a = detach dbg x a /\
  g_NodeId_checked_append dbg x c a = checked_append dbg x c a /\
  g_NodeId_checked_prepend dbg x c a = checked_prepend dbg x c a /\
  g_NodeId_checked_insert_after dbg x c a = checked_insert_after dbg x c a /\
  g_NodeId_checked_insert_before dbg x c a = checked_insert_before dbg x c a /\
  g_NodeId_append dbg x c a = append dbg x c a /\
  g_NodeId_prepend dbg x c a = prepend dbg x c a /\
  g_NodeId_insert_after dbg x c a = insert_after dbg x c a /\
  g_NodeId_insert_before dbg x c a = insert_before dbg x c a /\
  g_NodeId_append_value dbg x v a = append_value dbg x v a /\
  g_NodeId_remove dbg x a = then_ret (remove dbg x) tt a /\
  g_NodeId_remove_subtree dbg x a = then_ret (remove_subtree dbg x) tt a.
Proof.
  intros. repeat split; first [ reflexivity | apply src_detach | apply src_checked_append | apply src_checked_prepend | apply src_checked_insert_after | apply src_checked_insert_before | apply src_append | apply src_prepend | apply src_insert_after | apply src_insert_before | apply src_append_value | apply src_remove | apply src_remove_subtree ].
Qed.

Print Assumptions SRC_ops.
