(* C09 / C10 — source tie for the iterator step functions.
   coq/gen/GenIters.v is REGENERATED from traverse.rs on every run (tools/translate.py reads the
   `new_iterator!` invocations).  These theorems state that the link each model iterator follows — and,
   for the double-ended ones, the link it follows from the back, and for Children / ReverseChildren the
   links that seed it — is exactly what the source says.  A closure the translator cannot read becomes
   LUnknown / SUnknown and the theorems fail. *)
From IT Require Import IterModel.
From IT.gen Require Import GenIters.
Open Scope string_scope.

Theorem SRC_single_ended_steps : forall n : node,
  src_next iters "Ancestors" n = Some (parent n) /\
  src_next iters "Predecessors" n = Some (or_else (prev n) (parent n)) /\
  src_next iters "ReverseChildren" n = Some (prev n) /\
  src_start iters "Ancestors" = Some SSelf /\ src_start iters "Predecessors" = Some SSelf /\
  src_start iters "ReverseChildren" = Some (SOne Flast).
Proof. intros n. vm_compute. repeat split. Qed.

Theorem SRC_double_ended_steps : forall n : node,
  src_next iters "Children" n = Some (de_fwd DChildren n) /\ src_back iters "Children" n = Some (de_bwd DChildren n) /\
  src_next iters "PrecedingSiblings" n = Some (de_fwd DPreceding n) /\ src_back iters "PrecedingSiblings" n = Some (de_bwd DPreceding n) /\
  src_next iters "FollowingSiblings" n = Some (de_fwd DFollowing n) /\ src_back iters "FollowingSiblings" n = Some (de_bwd DFollowing n) /\
  src_start iters "Children" = Some (SBoth Ffirst Flast) /\
  src_start iters "PrecedingSiblings" = Some SBlock /\ src_start iters "FollowingSiblings" = Some SBlock.
Proof. intros n. vm_compute. repeat split. Qed.

(* the model's single-ended iterators are the generic collector over exactly the source's step function *)
Theorem SRC_model_single_ended : forall x a,
  (exists f, option_map (fun d => interp (it_next d)) (find_iter "Ancestors" iters) = Some (Some f) /\
             ancestors x a = iter_collect f (chain_fuel a) (Some x) a) /\
  (exists f, option_map (fun d => interp (it_next d)) (find_iter "Predecessors" iters) = Some (Some f) /\
             predecessors x a = iter_collect f (trav_fuel a) (Some x) a) /\
  (exists f, option_map (fun d => interp (it_next d)) (find_iter "ReverseChildren" iters) = Some (Some f) /\
             reverse_children x a = (rbind (rrdi x) (fun n => iter_collect f (chain_fuel a) (last n))) a).
Proof. intros x a. repeat split; eexists; split; reflexivity. Qed.

(* exactly the six macro-generated iterators exist *)
Theorem SRC_inventory : map it_name iters =
  ["Ancestors"; "Predecessors"; "PrecedingSiblings"; "FollowingSiblings"; "Children"; "ReverseChildren"].
Proof. vm_compute. reflexivity. Qed.

Print Assumptions SRC_single_ended_steps.
Print Assumptions SRC_double_ended_steps.
Print Assumptions SRC_inventory.
Print Assumptions SRC_model_single_ended.
