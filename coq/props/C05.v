(* C05 — Impossible inserts are rejected atomically; possible ones never fail or panic.
   In every reachable world, for each of the four checked entry points and every pair of usable
   ids (live, or removed and not yet recycled): the call errs EXACTLY when the request is
   impossible (theories/Forest.v: same node, a removed slot, or the node to insert is an ancestor
   of the place it would go), the reported reason applies, the arena is unchanged; the unchecked
   forms panic exactly then (arena unchanged) and otherwise end in the same arena as the checked
   form; impossibility is decidable, so every call falls under one of the two cases; no other valid
   call panics or diverges.  Stated for release semantics and transferred to debug builds by
   C05_debug_and_release_alike / C05_debug_histories (proofs/DebugProofs.v). *)
From IT Require Import Props.
From IT.proofs Require Import StepMonitor Reach DebugProofs.

Theorem C05_checked_exact_reason_atomic : forall ops k x c F, valid_hist false init ops -> let w := reach ops in
  Repr (ar w) F -> usable (ar w) x -> usable (ar w) c ->
  let out := snd (step false w (OInsert k true x c)) in
  let w' := fst (step false w (OInsert k true x c)) in
  (impossible (ar w) F k x c -> exists e, out = OutErr e /\ reason_applies (ar w) F k x c e /\ ar w' = ar w) /\
  (~ impossible (ar w) F k x c -> out = OutUnit).
Proof. exact reach_checked. Qed.
Theorem C05_unchecked : forall ops k x c F, valid_hist false init ops -> let w := reach ops in
  Repr (ar w) F -> usable (ar w) x -> usable (ar w) c ->
  let out := snd (step false w (OInsert k false x c)) in
  let w' := fst (step false w (OInsert k false x c)) in
  (impossible (ar w) F k x c -> out = OutPanic P_PRECOND /\ ar w' = ar w) /\
  (~ impossible (ar w) F k x c -> out = OutUnit /\ ar w' = ar (fst (step false w (OInsert k true x c)))).
Proof. exact reach_unchecked. Qed.
Theorem C05_impossible_decidable : forall ops k x c F, valid_hist false init ops -> let w := reach ops in
  Repr (ar w) F -> usable (ar w) x -> usable (ar w) c -> impossible (ar w) F k x c \/ ~ impossible (ar w) F k x c.
Proof. exact reach_impossible_dec. Qed.
Theorem C05_others_total : forall ops o, valid_hist false init ops -> let w := reach ops in valid_op (ar w) o ->
  snd (step false w o) <> OutDiverge /\
  (forall c, snd (step false w o) = OutPanic c ->
     c = P_PRECOND /\ ar (fst (step false w o)) = ar w /\
     match o with OInsert _ false _ _ | OAppendValue _ _ => True | _ => False end).
Proof. exact reach_total. Qed.

(* debug and release builds alike: on every valid call in every reachable world the debug build
   (all debug_assert!s, triangle checks and overflow checks active) returns exactly what the release
   build returns — no debug assertion ever fires — so every theorem of this development transfers
   to debug builds, for whole histories *)
Theorem C05_debug_and_release_alike : forall ops o, valid_hist false init ops -> valid_op (ar (reach ops)) o ->
  step true (reach ops) o = step false (reach ops) o.
Proof. intros ops o H Hv. exact (debug_agrees (reach ops) o (reach_WF ops H) Hv). Qed.
Theorem C05_debug_histories : forall ops, valid_hist true init ops ->
  valid_hist false init ops /\ run true ops init = run false ops init.
Proof. exact debug_reachable. Qed.

(* the executable step checker that the correspondence run applies to consecutive states observed on
   the implementation (Monitor.check_step: documented forest operation, outcome vs impossibility,
   atomicity, frame clauses) is silent on EVERY valid step of the model from every reachable world:
   it cannot raise an alarm as long as the implementation behaves like the model *)
Theorem C05_step_monitor_silent : forall ops o, valid_hist false init ops -> valid_op (ar (reach ops)) o ->
  check_step (ar (reach ops)) o (snd (step false (reach ops) o)) (ar (fst (step false (reach ops) o))) = [].
Proof. intros ops o H Hv. exact (check_step_silent (reach ops) o (reach_WF ops H) Hv). Qed.

Print Assumptions C05_checked_exact_reason_atomic.
Print Assumptions C05_step_monitor_silent.
Print Assumptions C05_debug_and_release_alike.
Print Assumptions C05_debug_histories.
Print Assumptions C05_unchecked.
Print Assumptions C05_impossible_decidable.
Print Assumptions C05_others_total.
