(* C05 — Impossible inserts are rejected atomically; possible ones never fail or panic.
   In every reachable world, for each of the four checked entry points and every pair of usable
   ids (live, or removed and not yet recycled): the call errs EXACTLY when the request is
   impossible (theories/Forest.v: same node, a removed slot, or the node to insert is an ancestor
   of the place it would go), the reported reason applies, the arena is unchanged; the unchecked
   forms panic exactly then (arena unchanged) and otherwise end in the same arena as the checked
   form; impossibility is decidable, so every call falls under one of the two cases; no other valid
   call panics or diverges.  Release semantics (dbg = false); debug builds are covered by the
   correspondence runs (debug + release). *)
From IT Require Import Props.
From IT.proofs Require Import Reach.

Theorem C05_checked_exact_reason_atomic : forall ops k x c F, valid_hist false init ops -> let w := reach ops in
  Repr (ar w) F -> usable (ar w) x -> usable (ar w) c ->
  let out := snd (step false w (OInsert k true x c)) in
  let w' := fst (step false w (OInsert k true x c)) in
  (impossible (ar w) F k x c -> exists e, out = OutErr e /\ reason_applies (ar w) F k x c e /\ ar w' = ar w) /\
  (~ impossible (ar w) F k x c -> out = OutUnit).
Proof. exact reach_checked. Qed.
Theorem C05_unchecked : forall ops k x c F, valid_hist false init ops -> let w := reach ops in
  Repr (ar w) F -> usable (ar w) x -> usable (ar w) c ->
  let out := snd (step false w (OInsert k false x c)) in
  let w' := fst (step false w (OInsert k false x c)) in
  (impossible (ar w) F k x c -> out = OutPanic P_PRECOND /\ ar w' = ar w) /\
  (~ impossible (ar w) F k x c -> out = OutUnit /\ ar w' = ar (fst (step false w (OInsert k true x c)))).
Proof. exact reach_unchecked. Qed.
Theorem C05_impossible_decidable : forall ops k x c F, valid_hist false init ops -> let w := reach ops in
  Repr (ar w) F -> usable (ar w) x -> usable (ar w) c -> impossible (ar w) F k x c \/ ~ impossible (ar w) F k x c.
Proof. exact reach_impossible_dec. Qed.
Theorem C05_others_total : forall ops o, valid_hist false init ops -> let w := reach ops in valid_op (ar w) o ->
  snd (step false w o) <> OutDiverge /\
  (forall c, snd (step false w o) = OutPanic c ->
     c = P_PRECOND /\ ar (fst (step false w o)) = ar w /\
     match o with OInsert _ false _ _ | OAppendValue _ _ => True | _ => False end).
Proof. exact reach_total. Qed.

Print Assumptions C05_checked_exact_reason_atomic.
Print Assumptions C05_unchecked.
Print Assumptions C05_impossible_decidable.
Print Assumptions C05_others_total.
