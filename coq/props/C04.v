(* C04 — remove splices the children into place; remove_subtree deletes exactly a subtree.
   In every reachable world: remove(x) takes the arena to one representing f_remove x F (x replaced
   by its children, in order, in whichever list — child list or top-level chain — held x) and
   removes exactly x; remove_subtree(x) removes exactly the pre-order D of x and takes the arena to
   f_remove_subtree x D F (every other list only loses x). *)
From IT Require Import Props.
From IT.proofs Require Import Reach ForestFacts.

Theorem C04_remove : forall ops x F, valid_hist false init ops -> let w := reach ops in
  Repr (ar w) F -> live (ar w) x ->
  let w' := fst (step false w (ORemove x)) in
  snd (step false w (ORemove x)) = OutUnit /\ Repr (ar w') (f_remove x F) /\ removed w' = removed w ++ [x].
Proof. exact reach_remove. Qed.
Theorem C04_remove_subtree : forall ops x F, valid_hist false init ops -> let w := reach ops in
  Repr (ar w) F -> live (ar w) x ->
  let w' := fst (step false w (ORemoveSubtree x)) in
  let D := preorderF (length (nodes (ar w))) F x in
  snd (step false w (ORemoveSubtree x)) = OutUnit /\ Repr (ar w') (f_remove_subtree x D F) /\ removed w' = removed w ++ D.
Proof. exact reach_remove_subtree. Qed.

Theorem C04_remove_means : forall x F,
  kidsf (f_remove x F) x = [] /\
  (forall p, p <> x -> kidsf (f_remove x F) p = subst_id x (kidsf F x) (kidsf F p)) /\
  (forall S A B, ~ In x A -> ~ In x B -> subst_id x S (A ++ x :: B) = A ++ S ++ B).
Proof. intros; repeat split; [apply f_remove_self | intros; now apply f_remove_kids | intros; now apply subst_id_spec]. Qed.
Theorem C04_remove_subtree_means : forall x D F,
  (forall p, nid_in p D = true -> kidsf (f_remove_subtree x D F) p = []) /\
  (forall p, nid_in p D = false -> kidsf (f_remove_subtree x D F) p = remove_id x (kidsf F p)).
Proof. intros; split; intros; [now apply f_remove_subtree_gone | now apply f_remove_subtree_kids]. Qed.

Print Assumptions C04_remove.
Print Assumptions C04_remove_subtree.
Print Assumptions C04_remove_means.
Print Assumptions C04_remove_subtree_means.
