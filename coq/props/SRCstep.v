(* SRCstep — the model's step function, with every operation replaced by the definition REGENERATED from the Rust
   sources (coq/gen, rs2coq, every run), computes the same arena and the same outcome as World.step, for every
   world, every operation and both build profiles.  All property theorems about histories are statements about
   World.step / World.run; this theorem is what connects them to the text of id.rs, arena.rs, relations.rs and
   siblings_range.rs.  (The payload write goes through Node::get_mut, which returns a reference and is modelled
   by hand: write_payload.) *)
From IT.proofs Require Import SrcTac SrcStep.
From IT Require Import World.
Open Scope mon_scope.

Theorem SRC_step : forall dbg w o,
  let '(a', r) := g_op dbg o (ar w) in
  ar (fst (step dbg w o)) = a' /\ snd (step dbg w o) = as_outcome r.
Proof. exact src_step. Qed.

Print Assumptions SRC_step.

(* Whole histories: the arena reached by executing a history with the regenerated operations is the arena of the
   model's run — so every theorem about reachable arenas speaks about the regenerated code.  Instances: *)
From IT Require Import Props.
From IT.proofs Require Import Reach Reach2.

Theorem SRC_run : forall dbg ops w, g_run dbg ops (ar w) = ar (run dbg ops w).
Proof. intros. apply g_run_is_run. Qed.

Corollary SRC_C01_on_the_regenerated_operations : forall ops,
  valid_hist false init ops -> LinksOK (g_run false ops empty_arena).
Proof. intros ops H. change empty_arena with (ar init). rewrite g_run_is_run. apply reach_links_ok. exact H. Qed.

Print Assumptions SRC_run.
Print Assumptions SRC_C01_on_the_regenerated_operations.
