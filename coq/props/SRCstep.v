(* SRCstep — the model's step function, with every operation replaced by the definition REGENERATED from the Rust
   sources (coq/gen, rs2coq, every run), computes the same arena and the same outcome as World.step, for every
   world, every operation and both build profiles.  All property theorems about histories are statements about
   World.step / World.run; this theorem is what connects them to the text of id.rs, arena.rs, relations.rs and
   siblings_range.rs.  (The payload write goes through Node::get_mut, which returns a reference and is modelled
   by hand: write_payload.) *)
From IT.proofs Require Import SrcTac SrcStep.
From IT Require Import World.
Open Scope mon_scope.

Theorem SRC_step : forall dbg w o,
  let '(a', r) := g_op dbg o (ar w) in
  ar (fst (step dbg w o)) = a' /\ snd (step dbg w o) = as_outcome r.
Proof. exact src_step. Qed.

Print Assumptions SRC_step.
