(* INVtraverse — pinned inventory of indextree/src/traverse.rs: every trait impl with its methods, every derive list,
   every static / const / macro-generated item (macro_rules! arms are read with their metavariables substituted).
   coq/gen/GenInventory.v is REGENERATED from the sources on every run by rs2coq; this theorem fails when the file
   gains or loses an impl, a method inside an impl (e.g. an overridden `fold`), a derive (e.g. Clone replaced by a
   hand-written impl), a static, or when the body of an expression macro changes.  The model accounts for exactly
   the items listed here. *)
From Coq Require Import String List.
Import ListNotations.
From IT.gen Require Import GenInventory.
Open Scope string_scope.

Theorem SRC_inventory_traverse : inv_traverse = [
  ("file attributes", ["#![allow(clippy::redundant_closure_call)]"]);
  ("use crate :: { Arena , Node , NodeId }", []);
  ("struct Iter", ["Clone"]);
  ("impl Iter < 'a , T >", ["new := { let node = node . into () ; Self { arena , node } }"]);
  ("struct DoubleEndedIter", ["Clone"]);
  ("impl DoubleEndedIter < 'a , T >", ["new := { let head = head . into () ; let tail = tail . into () ; Self { arena , head , tail } }"]);
  ("new_iterator!#1: struct MV_name", ["#[repr(transparent)]"; "Clone"]);
  ("new_iterator!#1: impl MV_name < 'a , T >", ["new := { let new : fn (& 'a Arena < T > , NodeId) -> MV_inner < 'a , T > = MV_new ; Self (new (arena , node)) }"]);
  ("new_iterator!#2: new_iterator! MV_name", []);
  ("new_iterator!#2: impl Iterator for MV_name < 'a , T >", ["type Item"; "next"]);
  ("new_iterator!#2: impl core::iter::FusedIterator for MV_name < 'a , T >", []);
  ("new_iterator!#3: new_iterator! MV_name", []);
  ("new_iterator!#3: impl Iterator for MV_name < 'a , T >", ["type Item"; "next"]);
  ("new_iterator!#3: impl core::iter::DoubleEndedIterator for MV_name < 'a , T >", ["next_back"]);
  ("new_iterator!#4: new_iterator! MV_name", []);
  ("new_iterator!#5: new_iterator! MV_name", []);
  ("new_iterator! Ancestors", []);
  ("new_iterator! Predecessors", []);
  ("new_iterator! PrecedingSiblings", []);
  ("new_iterator! FollowingSiblings", []);
  ("new_iterator! Children", []);
  ("new_iterator! ReverseChildren", []);
  ("struct Descendants", ["Clone"]);
  ("impl Descendants < 'a , T >", ["new := { Self (Traverse :: new (arena , current)) }"]);
  ("impl Iterator for Descendants < '_ , T >", ["type Item"; "next := { self . 0 . find_map (| edge | match edge { NodeEdge :: Start (node) => Some (node) , NodeEdge :: End (_) => None , }) }"]);
  ("impl core::iter::FusedIterator for Descendants < '_ , T >", []);
  ("enum NodeEdge", ["Debug"; "Clone"; "Copy"; "PartialEq"; "Eq"; "Hash"]);
  ("impl NodeEdge", ["next_traverse"; "prev_traverse"]);
  ("struct Traverse", ["Clone"]);
  ("impl Traverse < 'a , T >", ["new := { Self { arena , root : current , next : Some (NodeEdge :: Start (current)) , } }"; "next_of_next"; "arena := { self . arena }"]);
  ("impl Iterator for Traverse < '_ , T >", ["type Item"; "next"]);
  ("impl core::iter::FusedIterator for Traverse < '_ , T >", []);
  ("struct ReverseTraverse", ["Clone"]);
  ("impl ReverseTraverse < 'a , T >", ["new := { Self { arena , root : current , next : Some (NodeEdge :: End (current)) , } }"; "next_of_next"]);
  ("impl Iterator for ReverseTraverse < '_ , T >", ["type Item"; "next"]);
  ("impl core::iter::FusedIterator for ReverseTraverse < '_ , T >", [])
].
Proof. reflexivity. Qed.

Print Assumptions SRC_inventory_traverse.
