(* INVsiblings_range — pinned inventory of indextree/src/siblings_range.rs: every trait impl with its methods, every derive list,
   every static / const / macro-generated item (macro_rules! arms are read with their metavariables substituted).
   coq/gen/GenInventory.v is REGENERATED from the sources on every run by rs2coq; this theorem fails when the file
   gains or loses an impl, a method inside an impl (e.g. an overridden `fold`), a derive (e.g. Clone replaced by a
   hand-written impl), a static, or when the body of an expression macro changes.  The model accounts for exactly
   the items listed here. *)
From Coq Require Import String List.
Import ListNotations.
From IT.gen Require Import GenInventory.
Open Scope string_scope.

Theorem SRC_inventory_siblings_range : inv_siblings_range = [
  ("use crate :: { error :: ConsistencyError , relations :: connect_neighbors , Arena , NodeId }", []);
  ("struct SiblingsRange", ["Debug"; "Clone"; "Copy"]);
  ("impl SiblingsRange", ["new"; "detach_from_siblings"]);
  ("struct DetachedSiblingsRange", ["Debug"; "Clone"; "Copy"]);
  ("impl DetachedSiblingsRange", ["new"; "rewrite_parents"; "transplant"])
].
Proof. reflexivity. Qed.

Print Assumptions SRC_inventory_siblings_range.
