(* INVcargo — the three cargo manifests (workspace, indextree, indextree-macros) line by line without the descriptive
   metadata: features and what they switch on, dependencies, profiles (overflow checks, panic strategy), lints.
   coq/gen/GenInventory.v is REGENERATED from the sources on every run by rs2coq; this theorem fails when the file
   gains or loses an impl, a method inside an impl (e.g. an overridden `fold`), a derive (e.g. Clone replaced by a
   hand-written impl), a static, or when the body of an expression macro changes.  The model accounts for exactly
   the items listed here. *)
From Coq Require Import String List.
Import ListNotations.
From IT.gen Require Import GenInventory.
Open Scope string_scope.

Theorem SRC_inventory_cargo : inv_cargo = [
  ("workspace Cargo.toml", ["[workspace]"; "resolver = '2'"; "members = ["; "'indextree',"; "'indextree-macros',"; "]"]);
  ("indextree/Cargo.toml", ["[package]"; "name = 'indextree'"; "version = '4.7.3'"; "edition = '2021'"; "[features]"; "default = ['std', 'macros']"; "deser = ['serde']"; "par_iter = ['rayon']"; "std = []"; "macros = ['indextree-macros']"; "[dependencies]"; "rayon = { version = '1.7.0', optional = true }"; "serde = { version = '1.0.154', features = ['derive'], optional = true }"; "indextree-macros = { path = '../indextree-macros', version = '0.1.2', optional = true }"; "[[example]]"; "name = 'parallel_iteration'"; "required-features = ['par_iter']"; "[[example]]"; "name = 'simple'"; "[[example]]"; "name = 'tree-macro'"; "required-features = ['macros']"; "[lints.rust]"; "unexpected_cfgs = { level = 'warn', check-cfg = ['cfg(indextree_verif)'] }"]);
  ("indextree-macros/Cargo.toml", ["[package]"; "name = 'indextree-macros'"; "version = '0.1.2'"; "edition = '2021'"; "[lib]"; "proc-macro = true"; "[dependencies]"; "proc-macro2 = '1.0.86'"; "quote = '1.0.36'"; "thiserror = '2.0.0'"; "either = '1.13.0'"; "syn = { version = '2.0.71', features = ['extra-traits', 'full', 'visit'] }"; "itertools = '0.14.0'"; "strum = { version = '0.27.0', features = ['derive'] }"; "[dev-dependencies]"; "indextree = { path = '../indextree', version = '4.7.2' }"])
].
Proof. reflexivity. Qed.

Print Assumptions SRC_inventory_cargo.
