(* Reach3.v — every reachable arena satisfies the typing side condition of the serde round trip
   (all stamps, in slots and inside link ids, are i16 values). *)
From IT Require Import Props Serde.
From IT.proofs Require Import SerdeProofs Assembly AllocProps Reach Reach2.
Require Import Lia.

Lemma in_i16_of_range : forall z, (i16_min <= z <= i16_max)%Z -> in_i16 z = true.
Proof.
  intros z H. unfold in_i16, i16_min, i16_max in *.
  destruct (Z.leb_spec (-32768) z), (Z.leb_spec z 32767); auto; lia.
Qed.

Lemma reach_types_ok : forall ops, valid_hist false init ops -> types_ok (ar (reach ops)).
Proof.
  intros ops H. unfold types_ok. apply Forall_forall. intros n Hn.
  apply In_nth_error in Hn. destruct Hn as [i Hi].
  pose proof (reach_stamps_in_range ops i n H Hi) as Hr.
  assert (Hlink : forall f, oid_ok (getf f n)).
  { intros f. destruct (getf f n) as [z|] eqn:E; cbn; auto.
    destruct (Z_lt_ge_dec (stamp n) 0) as [Hneg|Hpos].
    - destruct (reach_dead_no_links ops i n H Hi Hneg) as (A & B & C & D & E').
      destruct f; cbn in E; congruence.
    - assert (Hl : live (ar (reach ops)) (mkId i (stamp n))).
      { exists n. cbn. repeat split; auto. lia. }
      assert (Hz : live (ar (reach ops)) z).
      { eapply (reach_links_live ops H (mkId i (stamp n)) n f z); eauto. }
      destruct Hz as (m & Hm & Hs & _). rewrite <- Hs.
      apply in_i16_of_range. eapply reach_stamps_in_range; eauto. }
  unfold node_types_ok. repeat split.
  - now apply in_i16_of_range.
  - exact (Hlink Fparent).
  - exact (Hlink Fprev).
  - exact (Hlink Fnext).
  - exact (Hlink Ffirst).
  - exact (Hlink Flast).
Qed.

Lemma reach_roundtrip : forall ops rest, valid_hist false init ops ->
  decode (encode (ar (reach ops)) ++ rest) = Some (ar (reach ops), rest).
Proof. intros ops rest H. apply decode_encode. now apply reach_types_ok. Qed.
