(* ReprRemove.v — remove and remove_subtree refine the abstract forest operations
   [f_remove] and [f_remove_subtree] (release semantics, dbg = false).

   Contents
     - list surgery (subst_id / remove_id / nid_in), [Repr_ext]
     - free_node / free_all executed slot-wise ([free_node_exec], [free_all_exec])
     - [prune_repr]: freeing the pre-order of a detached root keeps [Repr]; [free_node_repr]
     - segments: [dseg_app], [dseg_rewire], [dseg_unique]
     - [splice_exec] / [splice_repr]: detach_from_siblings + transplant of the children of a
       detached node into its old place (built on the equational specs of Layer1.v)
     - [detach_refines_own]: detach refines f_detach (own proof, so that this file only
       depends on Layer1.v, TraverseProofs.v and ReprTree.v)
     - main theorems [remove_refines], [remove_subtree_refines] *)
From IT Require Import Forest.
From IT.proofs Require Import TraverseProofs Layer1 ReprTree.
From Coq Require Import Lia.
Local Open Scope nat_scope.

Definition lfree_ok (a : arena) : Prop :=
  match lfree a with Some i => (i < length (nodes a))%nat | None => True end.

(* ====================================================================== *)
(* List surgery                                                            *)
(* ====================================================================== *)

Lemma nid_in_In : forall x l, nid_in x l = true <-> In x l.
Proof.
  intros x l. unfold nid_in. rewrite existsb_exists. split.
  - intros (y & Hy & E). apply nid_eqb_eq in E. now subst.
  - intros H. exists x. split; auto. apply nid_eqb_refl.
Qed.

Lemma nid_in_false : forall x l, nid_in x l = false <-> ~ In x l.
Proof.
  intros x l. rewrite <- nid_in_In. destruct (nid_in x l); split; intros; congruence.
Qed.

Lemma nid_dec : forall x y : nid, {x = y} + {x <> y}.
Proof.
  intros x y. destruct (nid_eqb x y) eqn:E.
  - left. now apply nid_eqb_eq.
  - right. intros ->. rewrite nid_eqb_refl in E. discriminate.
Qed.

Lemma in_remove_id : forall x y l, In y (remove_id x l) <-> In y l /\ y <> x.
Proof.
  intros x y l. unfold remove_id. rewrite filter_In. split; intros [H1 H2]; split; auto.
  - intros ->. rewrite nid_eqb_refl in H2. discriminate.
  - now rewrite nid_eqb_neq.
Qed.

Lemma remove_id_notin : forall x l, ~ In x l -> remove_id x l = l.
Proof.
  intros x. induction l as [|y l IH]; intros H; [reflexivity|].
  unfold remove_id in *. cbn [filter]. rewrite nid_eqb_neq.
  - cbn [negb]. f_equal. apply IH. intros Hi. apply H. now right.
  - intros ->. apply H. now left.
Qed.

Lemma subst_nil_remove : forall x l, subst_id x [] l = remove_id x l.
Proof.
  intros x. induction l as [|y l IH]; [reflexivity|].
  unfold subst_id, remove_id in *. cbn [flat_map filter]. rewrite IH.
  destruct (nid_eqb y x); reflexivity.
Qed.

Lemma subst_id_notin : forall x S l, ~ In x l -> subst_id x S l = l.
Proof.
  intros x S. induction l as [|y l IH]; intros H; [reflexivity|].
  unfold subst_id in *. cbn [flat_map]. rewrite nid_eqb_neq.
  - cbn [app]. f_equal. apply IH. intros Hi. apply H. now right.
  - intros ->. apply H. now left.
Qed.

Lemma subst_id_app : forall x S l1 l2, subst_id x S (l1 ++ l2) = subst_id x S l1 ++ subst_id x S l2.
Proof. intros. unfold subst_id. apply flat_map_app. Qed.

Lemma subst_id_split : forall x S A B, ~ In x A -> ~ In x B ->
  subst_id x S (A ++ x :: B) = A ++ S ++ B.
Proof.
  intros x S A B HA HB. rewrite subst_id_app. rewrite (subst_id_notin x S A HA). f_equal.
  unfold subst_id at 1. cbn [flat_map]. rewrite nid_eqb_refl. f_equal. now apply subst_id_notin.
Qed.

Lemma remove_id_split : forall x A B, ~ In x A -> ~ In x B -> remove_id x (A ++ x :: B) = A ++ B.
Proof. intros. rewrite <- subst_nil_remove. now rewrite subst_id_split. Qed.

Lemma in_subst_id : forall x S y l, In y (subst_id x S l) <-> (In y l /\ y <> x) \/ (In x l /\ In y S).
Proof.
  intros x S y l. unfold subst_id. rewrite in_flat_map. split.
  - intros (z & Hz & Hy). destruct (nid_eqb z x) eqn:E.
    + apply nid_eqb_eq in E. subst. auto.
    + destruct Hy as [<-|[]]. left. split; auto. intros ->. rewrite nid_eqb_refl in E. discriminate.
  - intros [[H1 H2]|[H1 H2]].
    + exists y. split; auto. rewrite nid_eqb_neq by auto. now left.
    + exists x. split; auto. now rewrite nid_eqb_refl.
Qed.

Lemma in_filter_nonempty : forall {A} (c : list A) l, In c (filter nonempty l) <-> In c l /\ c <> [].
Proof.
  intros A c l. rewrite filter_In. split; intros [H1 H2]; split; auto.
  - intros ->. discriminate.
  - destruct c; [contradiction | reflexivity].
Qed.

Lemma flat_map_ext_in : forall {A B} (f g : A -> list B) l,
  (forall x, In x l -> f x = g x) -> flat_map f l = flat_map g l.
Proof.
  intros A B f g. induction l as [|x l IH]; intros H; [reflexivity|]. cbn [flat_map].
  rewrite H by now left. f_equal. apply IH. intros y Hy. apply H. now right.
Qed.

Lemma in_split_nodup : forall (x : nid) l, In x l -> NoDup l ->
  exists A B, l = A ++ x :: B /\ ~ In x A /\ ~ In x B.
Proof.
  intros x l H Hn. apply in_split in H. destruct H as (A & B & ->). exists A, B. split; auto.
  apply NoDup_remove_2 in Hn. split; intros Hi; apply Hn; apply in_or_app; auto.
Qed.

(* ====================================================================== *)
(* Repr is insensitive to the presentation of the forest                   *)
(* ====================================================================== *)

Section Ext.
Variables (F G : forest).
Hypothesis HK : forall p, kidsf F p = kidsf G p.
Hypothesis HT : forall c, In c (tops F) <-> In c (tops G).

Lemma memberF_ext : forall x, memberF F x -> memberF G x.
Proof.
  intros x [(p & Hp)|(c & Hc & Hx)].
  - left. exists p. now rewrite <- HK.
  - right. exists c. split; auto. now apply HT.
Qed.

Lemma depthF_ext : forall x d, depthF F x d -> depthF G x d.
Proof.
  induction 1 as [x c Hc Hx | x p d Hp Hd IH].
  - apply depth_top with c; auto. now apply HT.
  - apply depth_kid with p; auto. now rewrite <- HK.
Qed.
End Ext.

Lemma Repr_ext : forall a F G, Repr a F -> (forall p, kidsf F p = kidsf G p) ->
  (forall c, In c (tops F) <-> In c (tops G)) -> Repr a G.
Proof.
  intros a F G HR HK HT.
  assert (HK' : forall p, kidsf G p = kidsf F p) by (intros; symmetry; apply HK).
  assert (HT' : forall c, In c (tops G) <-> In c (tops F)) by (intros; symmetry; apply HT).
  constructor.
  - intros x. rewrite <- (r_live a F HR). split; apply memberF_ext; auto.
  - intros p. rewrite <- HK. apply (r_kids a F HR).
  - intros p. rewrite <- HK. apply (r_owner a F HR).
  - intros c Hc. apply (r_tops a F HR). now apply HT.
  - intros p n. rewrite <- HK. apply (r_ends a F HR).
  - intros x Hx. destruct (r_depth a F HR x) as (d & Hd).
    + eapply memberF_ext; eauto.
    + exists d. eapply depthF_ext; eauto.
  - apply (r_dead a F HR).
Qed.

(* ====================================================================== *)
(* Stamps                                                                  *)
(* ====================================================================== *)

Lemma st_as_removed_ok : forall s, exists s', st_as_removed false s = Ok s' /\ (0 <= s -> s' < 0)%Z.
Proof.
  intros s. unfold st_as_removed. cbn [andb].
  destruct (Z.ltb_spec s i16_max) as [Hlt|Hge].
  - unfold arith16, in_i16, i16_min, i16_max in *.
    destruct ((-32768 <=? - s)%Z && (- s <=? 32767)%Z) eqn:E1.
    + destruct ((-32768 <=? - s - 1)%Z && (- s - 1 <=? 32767)%Z) eqn:E2.
      * eexists; split; [reflexivity|]. lia.
      * eexists; split; [reflexivity|]. intros Hs0.
        apply andb_false_iff in E2. destruct E2 as [E2|E2]; apply Z.leb_gt in E2; lia.
    + destruct (Z.leb_spec (-32768) (wrap16 (- s) - 1)), (Z.leb_spec (wrap16 (- s) - 1) 32767);
        cbn [andb]; eexists; (split; [reflexivity|]); intros Hs0;
        apply andb_false_iff in E1; destruct E1 as [E1|E1]; apply Z.leb_gt in E1; lia.
  - eexists; split; [reflexivity|]. unfold i16_min. lia.
Qed.

Lemma st_reuseable_ok : forall s, st_reuseable false s = Ok (i16_min <? s)%Z.
Proof. reflexivity. Qed.

(* ====================================================================== *)
(* Slot-wise relations between arenas                                      *)
(* ====================================================================== *)

Definition same_links (n n' : node) : Prop :=
  parent n' = parent n /\ prev n' = prev n /\ next n' = next n /\ first n' = first n /\ last n' = last n.
Definition all_none (n : node) : Prop :=
  parent n = None /\ prev n = None /\ next n = None /\ first n = None /\ last n = None.

Lemma same_links_refl : forall n, same_links n n.
Proof. intros n. repeat split. Qed.
Lemma same_links_trans : forall n m k, same_links n m -> same_links m k -> same_links n k.
Proof. unfold same_links. intros n m k H1 H2. intuition congruence. Qed.

(* slot-wise relation: same number of slots, each slot related by P *)
Definition slotrel (P : nat -> node -> node -> Prop) (a a' : arena) : Prop :=
  length (nodes a') = length (nodes a) /\
  forall i n, nth_error (nodes a) i = Some n -> exists n', nth_error (nodes a') i = Some n' /\ P i n n'.

Lemma slotrel_trans : forall (P Q R : nat -> node -> node -> Prop) a b c,
  (forall i n m k, P i n m -> Q i m k -> R i n k) ->
  slotrel P a b -> slotrel Q b c -> slotrel R a c.
Proof.
  intros P Q R a b c H [L1 H1] [L2 H2]. split; [congruence|].
  intros i n Hn. destruct (H1 i n Hn) as (m & Hm & Pm). destruct (H2 i m Hm) as (k & Hk & Qk). eauto.
Qed.

Lemma slotrel_amap : forall (P : nat -> node -> node -> Prop) G a,
  (forall i n, nth_error (nodes a) i = Some n -> P i n (G i n)) -> slotrel P a (amap G a).
Proof.
  intros P G a H. split; [apply length_amap|].
  intros i n Hn. exists (G i n). split; auto. rewrite nth_amap, Hn. reflexivity.
Qed.



(* ====================================================================== *)
(* free_node, executed                                                     *)
(* ====================================================================== *)

(* what free_node x does to slot i: links untouched everywhere, the stamp of x's slot turns negative *)
Definition freed1 (x : nid) (i : nat) (n n' : node) : Prop :=
  same_links n n' /\
  (if Nat.eqb i (idx x) then (0 <= stamp n -> stamp n' < 0)%Z else stamp n' = stamp n).

Lemma same_links_set_data : forall d n, same_links n (set_data d n).
Proof. intros; repeat split. Qed.
Lemma same_links_set_stamp : forall s n, same_links n (set_stamp s n).
Proof. intros; repeat split. Qed.

Lemma get_arena_bind : forall A (k : arena -> M A) a, bind get_arena k a = k a a.
Proof. reflexivity. Qed.

Lemma free_node_exec : forall b x n, nth_error (nodes b) (idx x) = Some n -> lfree_ok b ->
  exists b' old, free_node false x b = (b', Ok old) /\ lfree_ok b' /\ slotrel (freed1 x) b b'.
Proof.
  intros b x n Hn Hl. unfold free_node.
  erewrite bind_ok by (unfold rdi; apply rd_ok; eauto).
  erewrite bind_ok by (unfold updi; eapply upd_ok; eauto).
  destruct (st_as_removed_ok (stamp n)) as (s' & Es & Hs').
  erewrite bind_ok by (unfold liftres; rewrite Es; reflexivity).
  set (G1 := fun j m => if Nat.eqb j (idx x) then set_data (NextFree None) m else m).
  assert (Hn1 : nth_error (nodes (amap G1 b)) (idx x) = Some (set_data (NextFree None) n)).
  { rewrite nth_amap, Hn. unfold G1. cbn. now rewrite Nat.eqb_refl. }
  erewrite bind_ok by (unfold updi; eapply upd_ok; eauto).
  rewrite amap_amap.
  set (G2 := _ ∘∘ G1).
  assert (HG2 : forall i m, same_links m (G2 i m) /\
             stamp (G2 i m) = if Nat.eqb i (idx x) then s' else stamp m).
  { intros i m. unfold G2, comp, G1. destruct (Nat.eqb i (idx x)); split; try reflexivity; repeat split. }
  erewrite bind_ok by (unfold liftres; rewrite st_reuseable_ok; reflexivity).
  assert (Hfin : forall G, (forall i m, same_links m (G i m) /\ stamp (G i m) = stamp m) ->
            slotrel (freed1 x) b (set_lfree (Some (idx x)) (amap G (amap G2 b))) /\
            slotrel (freed1 x) b (set_lfree (Some (idx x)) (set_ffree (Some (idx x)) (amap G (amap G2 b)))) /\
            slotrel (freed1 x) b (amap G2 b)).
  { intros G HG.
    assert (K : forall i m, nth_error (nodes b) i = Some m -> freed1 x i m (G i (G2 i m))).
    { intros i m Hm. destruct (HG2 i m) as [L1 S1], (HG i (G2 i m)) as [L2 S2]. split.
      - eapply same_links_trans; eauto.
      - rewrite S2, S1. destruct (Nat.eqb i (idx x)) eqn:E; auto.
        apply Nat.eqb_eq in E. subst i. rewrite Hn in Hm. inversion Hm; subst m. auto. }
    assert (K2 : forall i m, nth_error (nodes b) i = Some m -> freed1 x i m (G2 i m)).
    { intros i m Hm. destruct (HG2 i m) as [L1 S1]. split; auto.
      rewrite S1. destruct (Nat.eqb i (idx x)) eqn:E; auto.
      apply Nat.eqb_eq in E. subst i. rewrite Hn in Hm. inversion Hm; subst m. auto. }
    split; [|split].
    - rewrite amap_amap. apply (slotrel_amap (freed1 x) (G ∘∘ G2) b). intros; apply K; auto.
    - rewrite amap_amap. apply (slotrel_amap (freed1 x) (G ∘∘ G2) b). intros; apply K; auto.
    - apply slotrel_amap; auto. }
  assert (Hx : idx x < length (nodes b)) by (apply nth_error_Some; congruence).
  set (b2 := amap G2 b).
  assert (Hinner : forall r : bool, exists b',
     (if r then
        a <- get_arena ;;
        match lfree a with
        | Some index =>
            upd index (set_data (NextFree (Some (idx x)))) ;;;
            a1 <- get_arena ;; put_arena (set_lfree (Some (idx x)) a1)
        | None =>
            dassert false (negb (is_some (ffree a))) ;;;
            a1 <- get_arena ;;
            put_arena (set_lfree (Some (idx x)) (set_ffree (Some (idx x)) a1))
        end
      else ret tt)%mon b2 = (b', Ok tt) /\ lfree_ok b' /\ slotrel (freed1 x) b b').
  { intros [|].
    - rewrite get_arena_bind. change (lfree b2) with (lfree b).
      unfold lfree_ok in Hl. destruct (lfree b) as [index|] eqn:El.
      + destruct (nth_error (nodes b) index) as [m|] eqn:Em; [|apply nth_error_None in Em; lia].
        erewrite bind_ok by (eapply upd_ok; unfold b2; rewrite nth_amap, Em; reflexivity).
        rewrite get_arena_bind. cbn [put_arena].
        eexists. split; [reflexivity|]. split.
        * unfold lfree_ok. cbn [lfree set_lfree nodes]. unfold b2. rewrite !length_amap. auto.
        * apply (Hfin _). intros i k. destruct (Nat.eqb i index); split; try reflexivity; repeat split.
      + cbn [dassert]. cbn [bind ret get_arena put_arena].
        eexists. split; [reflexivity|]. split.
        * unfold lfree_ok. cbn [lfree set_lfree set_ffree nodes]. unfold b2. rewrite !length_amap. auto.
        * unfold b2. rewrite <- (amap_id (amap G2 b)). apply (Hfin idF).
          intros; split; [apply same_links_refl | reflexivity].
    - cbn [ret]. eexists. split; [reflexivity|]. split.
      + unfold lfree_ok, b2. change (lfree (amap G2 b)) with (lfree b). rewrite length_amap. auto.
      + apply (Hfin idF). intros; split; [apply same_links_refl | reflexivity]. }
  destruct (Hinner (i16_min <? s')%Z) as (b' & Eb & Lb & Sb).
  erewrite bind_ok by apply Eb. cbn [ret].
  eexists _, _. split; [reflexivity|]. auto.
Qed.

(* ====================================================================== *)
(* free_all, executed                                                      *)
(* ====================================================================== *)

(* the effect of freeing (and clearing) the slots of D, slot by slot *)
Definition pruned1 (D : list nid) (i : nat) (n n' : node) : Prop :=
  (In i (map idx D) /\ all_none n' /\ (0 <= stamp n -> stamp n' < 0)%Z) \/
  (~ In i (map idx D) /\ same_links n n' /\ stamp n' = stamp n).

Lemma free_all_exec : forall D b, NoDup (map idx D) ->
  (forall y, In y D -> idx y < length (nodes b)) -> lfree_ok b ->
  exists b' olds, free_all false D b = (b', Ok olds) /\ lfree_ok b' /\ slotrel (pruned1 D) b b'.
Proof.
  induction D as [|y D IH]; intros b Hnd Hin Hl.
  - exists b, []. split; [reflexivity|]. split; auto. split; auto.
    intros i n Hn. exists n. split; auto. right. split; [intros []|]. split; [apply same_links_refl | reflexivity].
  - cbn [free_all].
    assert (Hy : idx y < length (nodes b)) by (apply Hin; now left).
    destruct (nth_error (nodes b) (idx y)) as [n|] eqn:En; [|apply nth_error_None in En; lia].
    destruct (free_node_exec b y n En Hl) as (b1 & old & E1 & L1 & [Len1 S1]).
    erewrite bind_ok by apply E1.
    destruct (S1 _ _ En) as (n1 & En1 & Hn1).
    erewrite bind_ok by (unfold updi; eapply upd_ok; eauto).
    set (G := fun j m => if Nat.eqb j (idx y) then clear_links m else m).
    inversion Hnd as [|? ? Hny Hnd']; subst.
    destruct (IH (amap G b1)) as (b' & olds & E2 & L2 & [Len2 S2]); auto.
    { intros z Hz. rewrite length_amap, Len1. apply Hin. now right. }
    { unfold lfree_ok in *. change (lfree (amap G b1)) with (lfree b1). now rewrite length_amap. }
    erewrite bind_ok by apply E2. cbn [ret].
    eexists _, _. split; [reflexivity|]. split; auto. split.
    { rewrite Len2, length_amap. auto. }
    intros i m Hm. destruct (S1 i m Hm) as (m1 & Hm1 & [Lk1 St1]).
    destruct (S2 i (G i m1)) as (m' & Hm' & P2); [rewrite nth_amap, Hm1; reflexivity|].
    exists m'. split; auto. unfold G in P2. cbn [map In].
    destruct (Nat.eqb i (idx y)) eqn:E.
    + apply Nat.eqb_eq in E. subst i. left. split; [now left|].
      destruct P2 as [(Hi & _)|(_ & Lk2 & St2)]; [contradiction|].
      destruct Lk2 as (A1 & A2 & A3 & A4 & A5). cbn in A1, A2, A3, A4, A5, St2.
      split; [repeat split; auto|]. rewrite St2. auto.
    + apply Nat.eqb_neq in E.
      destruct P2 as [(Hi & Hall & St2)|(Hi & Lk2 & St2)].
      * left. split; [now right|]. split; auto. rewrite St1 in St2. auto.
      * right. split; [intros [?|?]; [lia|contradiction]|]. split; [eapply same_links_trans; eauto | congruence].
Qed.

(* ====================================================================== *)
(* Transfer of segments between arenas                                     *)
(* ====================================================================== *)

Lemma dseg_transfer : forall a a' o xs pv nx,
  (forall y n, In y xs -> node_at a y n ->
     exists n', node_at a' y n' /\ parent n' = parent n /\ prev n' = prev n /\ next n' = next n) ->
  dseg a o pv xs nx -> dseg a' o pv xs nx.
Proof.
  intros a a' o. induction xs as [|y r IH]; intros pv nx H Hd; cbn [dseg] in *; auto.
  destruct Hd as (n & Hn & Hp & Hv & Hx & Hr).
  destruct (H y n (or_introl eq_refl) Hn) as (n' & Hn' & E1 & E2 & E3).
  exists n'. repeat split; try congruence. apply IH; auto. intros z m Hz. apply H. now right.
Qed.

(* ====================================================================== *)
(* Pruning a detached subtree keeps the representation                     *)
(* ====================================================================== *)

Section Prune.
Variables (a a' : arena) (K : nid -> list nid) (T : list (list nid)) (x : nid).
Let F1 := mkForest K ([x] :: T).
Hypothesis HR : Repr a F1.
Hypothesis HxT : forall c, In c T -> ~ In x c.
Let D := preorderF (length (nodes a)) F1 x.
Hypothesis HP : slotrel (pruned1 D) a a'.
Let F' := mkForest (fun p => if nid_in p D then [] else K p) T.

Let Lx : live a x.
Proof. apply (r_live a F1 HR). right. exists [x]. split; now left. Qed.

Let D_anc : forall y, In y D <-> ancF F1 y x.
Proof.
  intros y. split.
  - intros H. eapply preorder_anc; eauto.
  - intros H. apply preorder_complete; auto. eapply anc_live; eauto.
Qed.

Let x_not_kid : forall p, ~ In x (K p).
Proof. intros p H. eapply (kid_not_top a F1 HR x p [x]); eauto; now left. Qed.

Let D_kid : forall y p, In y (K p) -> (In y D <-> In p D).
Proof.
  intros y p H. rewrite !D_anc. split; intros Ha.
  - inversion Ha as [|? q ? Hq Hb]; subst.
    + exfalso. eapply x_not_kid; eauto.
    + assert (q = p) by (eapply (parent_unique a F1 HR); eauto). now subst.
  - eapply anc_step; eauto.
Qed.

Let D_top : forall c y, In c T -> In y c -> ~ In y D.
Proof.
  intros c y Hc Hy H. apply D_anc in H. inversion H as [|? q ? Hq Hb]; subst.
  - eapply HxT; eauto.
  - eapply (kid_not_top a F1 HR y q c); eauto. now right.
Qed.

Let D_live : forall y, In y D -> live a y.
Proof. intros y H. apply D_anc in H. eapply anc_live; eauto. Qed.

Let idx_D : forall y, live a y -> (In (idx y) (map idx D) <-> In y D).
Proof.
  intros y Ly. split.
  - intros H. apply in_map_iff in H. destruct H as (z & E & Hz).
    assert (z = y) by (apply (live_idx_inj a); auto). now subst.
  - apply in_map.
Qed.

Let live_after : forall y, live a' y <-> live a y /\ ~ In y D.
Proof.
  intros y. destruct HP as [Len HS]. split.
  - intros (n' & Hn' & St & Hg). unfold node_at in Hn'.
    destruct (nth_error (nodes a) (idx y)) as [n|] eqn:En.
    2:{ apply nth_error_None in En. assert (idx y < length (nodes a')) by (apply nth_error_Some; congruence). lia. }
    destruct (HS _ _ En) as (n2 & Hn2 & P). rewrite Hn' in Hn2. inversion Hn2; subst n2.
    destruct P as [(Hi & _ & Hneg)|(Hi & _ & Hst)].
    + exfalso. apply in_map_iff in Hi. destruct Hi as (z & E & Hz).
      destruct (D_live z Hz) as (m & Hm & Sm & Gm). unfold node_at in Hm. rewrite E, En in Hm.
      inversion Hm; subst m. lia.
    + assert (Ly : live a y) by (exists n; repeat split; auto; congruence).
      split; auto. intros H. apply Hi. now apply in_map.
  - intros [(n & Hn & St & Hg) Hy].
    assert (Ly : live a y) by (exists n; auto).
    destruct (HS _ _ Hn) as (n' & Hn' & [(Hi & _)|(_ & _ & Hst)]).
    + exfalso. apply Hy. now apply idx_D.
    + exists n'. repeat split; auto. congruence.
Qed.

Let node_after : forall y n, live a y -> ~ In y D -> node_at a y n ->
  exists n', node_at a' y n' /\ same_links n n'.
Proof.
  intros y n Ly Hy Hn. destruct HP as [_ HS]. destruct (HS _ _ Hn) as (n' & Hn' & [(Hi & _)|(_ & Lk & _)]).
  - exfalso. apply Hy. now apply idx_D.
  - eauto.
Qed.

Let dseg_after : forall o xs pv nx, (forall y, In y xs -> live a y /\ ~ In y D) ->
  dseg a o pv xs nx -> dseg a' o pv xs nx.
Proof.
  intros o xs pv nx H. apply dseg_transfer. intros y n Hy Hn. destruct (H y Hy) as [Ly Hd].
  destruct (node_after y n Ly Hd Hn) as (n' & Hn' & L1 & L2 & L3 & _). eauto.
Qed.

Let member_after : forall y, memberF F' y <-> memberF F1 y /\ ~ In y D.
Proof.
  intros y. split.
  - intros [(p & Hp)|(c & Hc & Hy)].
    + cbn [kidsf F'] in Hp. destruct (nid_in p D) eqn:E; [contradiction|]. apply nid_in_false in E.
      split; [left; eauto|]. now rewrite (D_kid y p Hp).
    + cbn [tops F'] in Hc. split; [right; exists c; split; auto; now right|]. eapply D_top; eauto.
  - intros [[(p & Hp)|(c & Hc & Hy)] Hd].
    + left. exists p. cbn [kidsf F']. cbn [kidsf F1] in Hp.
      rewrite (D_kid y p Hp) in Hd. apply nid_in_false in Hd. now rewrite Hd.
    + right. exists c. split; auto. cbn [tops F']. destruct Hc as [<-|Hc]; auto.
      exfalso. destruct Hy as [<-|[]]. apply Hd. apply D_anc. constructor.
Qed.

Let depth_after : forall y d, depthF F1 y d -> ~ In y D -> depthF F' y d.
Proof.
  induction 1 as [y c Hc Hy | y p d Hp Hd IH]; intros Hn.
  - destruct Hc as [<-|Hc].
    + exfalso. destruct Hy as [<-|[]]. apply Hn. apply D_anc. constructor.
    + apply depth_top with c; auto.
  - cbn [kidsf F1] in Hp. rewrite (D_kid y p Hp) in Hn.
    apply depth_kid with p; auto. cbn [kidsf F']. apply nid_in_false in Hn. now rewrite Hn.
Qed.

Lemma prune_repr : Repr a' F'.
Proof.
  constructor.
  - intros y. rewrite member_after, live_after. now rewrite (r_live a F1 HR).
  - intros p. cbn [kidsf F']. destruct (nid_in p D) eqn:E; [split; [exact I | constructor]|].
    apply nid_in_false in E. destruct (r_kids a F1 HR p) as [Hd Hn]. cbn [kidsf F1] in Hd, Hn.
    split; auto. apply dseg_after; auto. intros y Hy. split.
    + eapply (kid_live a F1 HR); eauto.
    + now rewrite (D_kid y p Hy).
  - intros p. cbn [kidsf F']. destruct (nid_in p D) eqn:E; [congruence|]. apply nid_in_false in E.
    intros H. apply live_after. split; auto. apply (r_owner a F1 HR). auto.
  - intros c Hc. cbn [tops F'] in Hc. destruct (r_tops a F1 HR c) as (H1 & H2 & H3); [now right|].
    split; auto. split; auto. apply dseg_after; auto. intros y Hy. split.
    + apply (r_live a F1 HR). right. exists c. split; auto. now right.
    + eapply D_top; eauto.
  - intros p n' Lp Hn'. apply live_after in Lp. destruct Lp as [Lp Hd].
    destruct Lp as (n & Hn & Hs & Hg). assert (Lp : live a p) by (exists n; auto).
    destruct (node_after p n Lp Hd Hn) as (n2 & Hn2 & _ & _ & _ & L4 & L5).
    unfold node_at in *. rewrite Hn' in Hn2. inversion Hn2; subst n2.
    destruct (r_ends a F1 HR p n Lp Hn) as [E1 E2]. cbn [kidsf F1] in E1, E2.
    cbn [kidsf F']. apply nid_in_false in Hd. rewrite Hd. split; congruence.
  - intros y Hy. apply member_after in Hy. destruct Hy as [Hm Hd].
    destruct (r_depth a F1 HR y Hm) as (d & Hdep). exists d. now apply depth_after.
  - intros i n' Hn' Hneg. destruct HP as [Len HS].
    destruct (nth_error (nodes a) i) as [n|] eqn:En.
    2:{ apply nth_error_None in En. assert (i < length (nodes a')) by (apply nth_error_Some; congruence). lia. }
    destruct (HS _ _ En) as (n2 & Hn2 & P). rewrite Hn' in Hn2. inversion Hn2; subst n2.
    destruct P as [(_ & Hall & _)|(_ & (L1 & L2 & L3 & L4 & L5) & Hst)]; auto.
    destruct (r_dead a F1 HR i n En) as (Z1 & Z2 & Z3 & Z4 & Z5); [lia|].
    repeat split; congruence.
Qed.
End Prune.

(* ====================================================================== *)
(* The state after detach                                                  *)
(* ====================================================================== *)

Lemma anc_kid_irrefl : forall a F x y, Repr a F -> live a x -> ancF F y x -> In x (kidsf F y) -> False.
Proof.
  intros a F x y HR Lx Ha Hk. destruct (live_depth a F HR x Lx) as (d & Hd).
  destruct (anc_depth F y x Ha d Hd) as (e & Hle & He).
  assert (d = S e) by (apply (depthF_fun a F HR x); auto; apply depth_kid with y; auto). lia.
Qed.

Lemma preorder_detach : forall a F x, Repr a F -> live a x ->
  forall f y, ancF F y x -> preorderF f (f_detach x F) y = preorderF f F y.
Proof.
  intros a F x HR Lx. induction f as [|f IH]; intros y Ha; [reflexivity|].
  cbn [preorderF]. f_equal.
  assert (E : kidsf (f_detach x F) y = kidsf F y).
  { cbn [kidsf f_detach]. apply remove_id_notin. intros H. eapply anc_kid_irrefl; eauto. }
  rewrite E. apply flat_map_ext_in. intros k Hk. apply IH. eapply anc_step; eauto.
Qed.

Lemma detach_tops_no_x : forall x F c,
  In c (filter nonempty (map (remove_id x) (tops F))) -> ~ In x c.
Proof.
  intros x F c H. apply in_filter_nonempty in H. destruct H as [H _].
  apply in_map_iff in H. destruct H as (c0 & <- & _). intros Hx. apply in_remove_id in Hx. tauto.
Qed.

Lemma same_shape_lfree_ok : forall a a1, same_shape a a1 -> lfree_ok a -> lfree_ok a1.
Proof. intros a a1 (L & _ & E & _) H. unfold lfree_ok in *. now rewrite E, L. Qed.

Lemma live_detached : forall a1 x F, Repr a1 (f_detach x F) -> live a1 x.
Proof. intros a1 x F R1. apply (r_live _ _ R1). right. exists [x]. split; now left. Qed.


(* ====================================================================== *)
(* free_node on a childless lone root                                      *)
(* ====================================================================== *)

Lemma dseg_single : forall a o pv x nx, dseg a o pv [x] nx ->
  exists n, node_at a x n /\ parent n = o /\ prev n = pv /\ next n = nx.
Proof. intros a o pv x nx (n & H1 & H2 & H3 & H4 & _). eauto. Qed.

Lemma free_node_repr : forall a1 K T x,
  Repr a1 (mkForest K ([x] :: T)) -> (forall c, In c T -> ~ In x c) -> K x = [] -> lfree_ok a1 ->
  exists a' old, free_node false x a1 = (a', Ok old) /\ Repr a' (mkForest K T) /\
                 length (nodes a') = length (nodes a1).
Proof.
  intros a1 K T x HR HxT HK Hl.
  destruct (r_tops _ _ HR [x]) as (_ & Hd & _); [now left|].
  destruct (dseg_single _ _ _ _ _ Hd) as (n & Hn & P1 & P2 & P3).
  assert (Lx : live a1 x) by (apply (r_live _ _ HR); right; exists [x]; split; now left).
  destruct (r_ends _ _ HR x n Lx Hn) as [P4 P5]. cbn [kidsf] in P4, P5. rewrite HK in P4, P5.
  cbn in P4, P5.
  destruct (free_node_exec a1 x n Hn Hl) as (a' & old & E & _ & [Len HS]).
  exists a', old. split; auto. split; auto.
  assert (ED : preorderF (length (nodes a1)) (mkForest K ([x] :: T)) x = [x]).
  { pose proof (live_in_range _ _ Lx) as Hr. destruct (length (nodes a1)); [lia|].
    cbn [preorderF kidsf]. now rewrite HK. }
  pose proof (prune_repr a1 a' K T x HR HxT) as HPr. rewrite ED in HPr.
  eapply Repr_ext; [apply HPr| |].
  - split; auto. intros i m Hm. destruct (HS i m Hm) as (m' & Hm' & Lk & St).
    exists m'. split; auto. cbn [map In].
    destruct (Nat.eqb i (idx x)) eqn:Ei.
    + apply Nat.eqb_eq in Ei. subst i. left. split; [now left|].
      unfold node_at in Hn. rewrite Hn in Hm. inversion Hm; subst m.
      split; auto. destruct Lk as (L1 & L2 & L3 & L4 & L5). repeat split; congruence.
    + apply Nat.eqb_neq in Ei. right. split; [intros [?|[]]; lia|]. split; auto.
  - intros p. cbn [kidsf]. destruct (nid_in p [x]) eqn:Ep; auto.
    apply nid_in_In in Ep. destruct Ep as [<-|[]]. now rewrite HK.
  - intros c. reflexivity.
Qed.

(* ====================================================================== *)
(* More on segments: concatenation, rewiring, uniqueness                   *)
(* ====================================================================== *)

Definition ohd (ys : list nid) (nx : option nid) : option nid :=
  match ys with [] => nx | y :: _ => Some y end.
Definition olast (xs : list nid) (pv : option nid) : option nid :=
  match last_error xs with Some z => Some z | None => pv end.

Lemma ohd_None : forall ys, ohd ys None = hd_error ys.
Proof. intros [|y r]; reflexivity. Qed.
Lemma olast_None : forall xs, olast xs None = last_error xs.
Proof. intros xs. unfold olast. destruct (last_error xs); reflexivity. Qed.
Lemma olast_cons : forall x r pv, olast (x :: r) pv = olast r (Some x).
Proof.
  intros x [|y r] pv; [reflexivity|]. unfold olast. rewrite last_error_cons. reflexivity.
Qed.
Lemma olast_nonempty : forall xs pv, xs <> [] -> olast xs pv = last_error xs.
Proof. intros [|x r] pv H; [congruence|]. reflexivity. Qed.

Lemma dseg_next_ohd : forall a o pv x r nx,
  dseg a o pv (x :: r) nx <->
  exists n, node_at a x n /\ parent n = o /\ prev n = pv /\ next n = ohd r nx /\ dseg a o (Some x) r nx.
Proof. intros. reflexivity. Qed.

Lemma dseg_app : forall a o xs ys pv nx,
  dseg a o pv (xs ++ ys) nx <-> dseg a o pv xs (ohd ys nx) /\ dseg a o (olast xs pv) ys nx.
Proof.
  intros a o. induction xs as [|x r IH]; intros ys pv nx.
  - cbn [app]. unfold olast. cbn. tauto.
  - rewrite <- app_comm_cons. rewrite !dseg_next_ohd, olast_cons. split.
    + intros (n & H1 & H2 & H3 & H4 & H5). apply IH in H5. destruct H5 as [H5 H6]. split; auto.
      exists n. repeat split; auto. rewrite H4. destruct r; reflexivity.
    + intros [(n & H1 & H2 & H3 & H4 & H5) H6]. exists n. repeat split; auto.
      * rewrite H4. destruct r; reflexivity.
      * apply IH. auto.
Qed.

Lemma node_at_fun : forall a x n m, node_at a x n -> node_at a x m -> n = m.
Proof. unfold node_at. intros. congruence. Qed.

Lemma dseg_hd_prev : forall a o pv x r nx n, dseg a o pv (x :: r) nx -> node_at a x n -> prev n = pv.
Proof. intros a o pv x r nx n (m & H1 & _ & H3 & _) Hn. now rewrite (node_at_fun _ _ _ _ Hn H1). Qed.

Lemma dseg_hd_prev' : forall a o pv xs nx y n, dseg a o pv xs nx -> hd_error xs = Some y ->
  node_at a y n -> prev n = pv.
Proof.
  intros a o pv [|x r] nx y n Hd E Hn; [discriminate|]. cbn in E. inversion E; subst.
  eapply dseg_hd_prev; eauto.
Qed.

Lemma dseg_last_next : forall a o xs pv nx z n, dseg a o pv xs nx -> last_error xs = Some z ->
  node_at a z n -> next n = nx.
Proof.
  intros a o. induction xs as [|x r IH]; intros pv nx z n Hd Hl Hn; [discriminate|].
  destruct r as [|y r].
  - cbn in Hl. inversion Hl; subst z. destruct Hd as (m & H1 & _ & _ & H4 & _).
    now rewrite (node_at_fun _ _ _ _ Hn H1).
  - rewrite last_error_cons in Hl. destruct Hd as (_ & _ & _ & _ & _ & Hr). eapply IH; eauto.
Qed.

(* re-parent a run and rewire its two outer ends *)
Lemma dseg_rewire : forall a a' o o' xs pv pv' nx nx', NoDup xs ->
  dseg a o pv xs nx ->
  (forall y n, In y xs -> node_at a y n -> exists n', node_at a' y n' /\ parent n' = o' /\
      (hd_error xs = Some y -> prev n' = pv') /\ (hd_error xs <> Some y -> prev n' = prev n) /\
      (last_error xs = Some y -> next n' = nx') /\ (last_error xs <> Some y -> next n' = next n)) ->
  dseg a' o' pv' xs nx'.
Proof.
  intros a a' o o'. induction xs as [|x r IH]; intros pv pv' nx nx' Hnd Hd H; [exact I|].
  inversion Hnd as [|? ? Hx Hr]; subst.
  destruct Hd as (n & H1 & H2 & H3 & H4 & H5).
  destruct (H x n (or_introl eq_refl) H1) as (n' & N1 & N2 & N3 & _ & N5 & N6).
  exists n'. split; auto. split; auto. split; [apply N3; reflexivity|]. split.
  - destruct r as [|y r].
    + apply N5. reflexivity.
    + rewrite N6, H4; auto. rewrite last_error_cons. intros E. inversion E as [E'].
      apply Hx. rewrite <- E'. rewrite <- (last_cons r x y). apply last_in.
  - apply (IH (Some x) (Some x) nx nx'); auto.
    intros y m Hy Hm. destruct (H y m (or_intror Hy) Hm) as (m' & M1 & M2 & M3 & M4 & M5 & M6).
    assert (Hne : hd_error (x :: r) <> Some y) by (cbn; intros E; inversion E; subst; auto).
    exists m'. split; auto. split; auto. split; [|split; [|split]].
    + intros E. rewrite (M4 Hne). destruct r as [|y0 r0]; [discriminate|]. cbn in E. inversion E; subst y0.
      eapply dseg_hd_prev; eauto.
    + intros _. auto.
    + intros E. apply M5. destruct r; [discriminate|]. now rewrite last_error_cons.
    + intros E. apply M6. destruct r; [contradiction|]. now rewrite last_error_cons.
Qed.

Lemma dseg_nth_prev : forall a o xs pv nx i y n, dseg a o pv xs nx -> nth_error xs i = Some y ->
  node_at a y n -> prev n = match i with 0 => pv | S j => nth_error xs j end.
Proof.
  intros a o. induction xs as [|x r IH]; intros pv nx i y n Hd Hi Hn; [destruct i; discriminate|].
  destruct i as [|i].
  - cbn in Hi. inversion Hi; subst. eapply dseg_hd_prev; eauto.
  - cbn [nth_error] in Hi. destruct Hd as (_ & _ & _ & _ & _ & Hr).
    rewrite (IH _ _ _ _ _ Hr Hi Hn). destruct i; reflexivity.
Qed.

Lemma dseg_hd_eq : forall a o o' c c' nx nx', dseg a o None c nx -> dseg a o' None c' nx' ->
  forall i y, nth_error c i = Some y -> In y c' -> hd_error c = hd_error c'.
Proof.
  intros a o o' c c' nx nx' Hc Hc'. induction i as [|i IH]; intros y Hi Hy.
  - apply In_nth_error in Hy. destruct Hy as (j & Hj).
    destruct (dseg_in _ _ _ _ _ y Hc) as (n & Hn & _); [eapply nth_error_In; eauto|].
    pose proof (dseg_nth_prev _ _ _ _ _ _ _ _ Hc Hi Hn) as P1.
    pose proof (dseg_nth_prev _ _ _ _ _ _ _ _ Hc' Hj Hn) as P2.
    destruct j as [|j].
    + destruct c, c'; cbn in *; congruence.
    + rewrite P1 in P2. symmetry in P2. apply nth_error_None in P2.
      assert (S j < length c') by (apply nth_error_Some; congruence). lia.
  - apply In_nth_error in Hy. destruct Hy as (j & Hj).
    destruct (dseg_in _ _ _ _ _ y Hc) as (n & Hn & _); [eapply nth_error_In; eauto|].
    pose proof (dseg_nth_prev _ _ _ _ _ _ _ _ Hc Hi Hn) as P1.
    pose proof (dseg_nth_prev _ _ _ _ _ _ _ _ Hc' Hj Hn) as P2.
    destruct (nth_error c i) as [z|] eqn:Ez.
    2:{ apply nth_error_None in Ez. assert (S i < length c) by (apply nth_error_Some; congruence). lia. }
    destruct j as [|j]; [congruence|].
    apply (IH z); auto. eapply nth_error_In. rewrite <- P2, P1. reflexivity.
Qed.

Lemma dseg_fun : forall a o o' c c' pv pv', dseg a o pv c None -> dseg a o' pv' c' None ->
  hd_error c = hd_error c' -> c = c'.
Proof.
  intros a o o'. induction c as [|x r IH]; intros [|x' r'] pv pv' Hc Hc' E; try discriminate; auto.
  cbn in E. inversion E; subst x'.
  destruct Hc as (n & H1 & _ & _ & H4 & H5). destruct Hc' as (n' & H1' & _ & _ & H4' & H5').
  rewrite (node_at_fun _ _ _ _ H1' H1) in H4'. f_equal. eapply IH; eauto.
  rewrite <- !ohd_None. change (ohd r None = ohd r' None). cbn [ohd]. 
  destruct r, r'; cbn in *; congruence.
Qed.

Lemma dseg_unique : forall a o o' c c' y, dseg a o None c None -> dseg a o' None c' None ->
  In y c -> In y c' -> c = c'.
Proof.
  intros a o o' c c' y Hc Hc' Hy Hy'. eapply dseg_fun; eauto.
  apply In_nth_error in Hy. destruct Hy as (i & Hi). eapply dseg_hd_eq; eauto.
Qed.

Lemma onid_eqb_neq : forall u v, u <> v -> onid_eqb u v = false.
Proof. intros u v H. destruct (onid_eqb u v) eqn:E; auto. apply onid_eqb_eq in E. contradiction. Qed.

Lemma NoDup_app_intro : forall {X} (l l' : list X), NoDup l -> NoDup l' ->
  (forall x, In x l -> ~ In x l') -> NoDup (l ++ l').
Proof.
  intros X. induction l as [|x l IH]; intros l' H1 H2 H3; cbn [app]; auto.
  inversion H1; subst. constructor.
  - intros Hi. apply in_app_or in Hi. destruct Hi; auto. apply (H3 x); auto. now left.
  - apply IH; auto. intros y Hy. apply H3. now right.
Qed.

Lemma NoDup_insert_middle : forall {X} (A Ks B : list X), NoDup (A ++ B) -> NoDup Ks ->
  (forall y, In y Ks -> ~ In y (A ++ B)) -> NoDup (A ++ Ks ++ B).
Proof.
  intros X A Ks B H1 H2 H3. destruct (NoDup_app_inv _ _ H1) as (NA & NB & HAB).
  apply NoDup_app_intro; auto.
  - apply NoDup_app_intro; auto. intros y Hy Hb. apply (H3 y Hy). apply in_or_app. now right.
  - intros y Hy Hi. apply in_app_or in Hi. destruct Hi as [Hi|Hi].
    + apply (H3 y Hi). apply in_or_app. now left.
    + apply (HAB y); auto.
Qed.

Lemma hd_error_in : forall {X} (l : list X) y, hd_error l = Some y -> In y l.
Proof. intros X [|z l] y H; [discriminate|]. inversion H. now left. Qed.
Lemma last_error_in : forall {X} (l : list X) y, last_error l = Some y -> In y l.
Proof. intros X [|z l] y H; [discriminate|]. inversion H. rewrite <- (last_cons l z z). apply last_in. Qed.

(* ====================================================================== *)
(* Splicing the children of a detached node into its old place             *)
(* ====================================================================== *)

(* the node of y after the splice, relative to its node before *)
Definition spliced_node (x f l : nid) (Ks : list nid) (o : option nid) (A B : list nid)
    (y : nid) (n n' : node) : Prop :=
  parent n' = (if nid_in y Ks then o else parent n) /\
  prev n' = (if nid_eqb y f then last_error A
             else if onid_eqb (Some y) (hd_error B) then Some l else prev n) /\
  next n' = (if nid_eqb y l then hd_error B
             else if onid_eqb (Some y) (last_error A) then Some f else next n) /\
  first n' = (if nid_eqb y x then None
              else if onid_eqb (Some y) o then hd_error (A ++ Ks ++ B) else first n) /\
  last n' = (if nid_eqb y x then None
             else if onid_eqb (Some y) o then last_error (A ++ Ks ++ B) else last n).

(* ---------- slot indices of live nodes ---------- *)
Lemma idx_eqb_live : forall a y z, live a y -> live a z -> Nat.eqb (idx y) (idx z) = nid_eqb y z.
Proof.
  intros a y z Ly Lz. destruct (nid_eqb y z) eqn:E.
  - apply nid_eqb_eq in E. subst. apply Nat.eqb_refl.
  - apply Nat.eqb_neq. intros H1. assert (y = z) by (eapply live_idx_inj; eauto). subst.
    rewrite nid_eqb_refl in E. discriminate.
Qed.

Lemma oat_live : forall a o y, live a y -> (forall z, o = Some z -> live a z) ->
  oat o (idx y) = onid_eqb (Some y) o.
Proof. intros a [z|] y Ly H; cbn; auto. apply (idx_eqb_live a); auto. Qed.

Lemma existsb_idx_live : forall a y l, live a y -> (forall z, In z l -> live a z) ->
  existsb (Nat.eqb (idx y)) (map idx l) = nid_in y l.
Proof.
  intros a y. induction l as [|z l IH]; intros Ly H; [reflexivity|].
  cbn [map existsb nid_in]. rewrite (idx_eqb_live a y z) by (auto; apply H; now left).
  f_equal. apply IH; auto. intros w Hw. apply H. now right.
Qed.

Lemma dead_idx : forall a i n y, nth_error (nodes a) i = Some n -> (stamp n < 0)%Z -> live a y ->
  Nat.eqb i (idx y) = false.
Proof.
  intros a i n y Hn Hneg (m & Hm & Sm & Gm). apply Nat.eqb_neq. intros ->.
  unfold node_at in Hm. rewrite Hn in Hm. inversion Hm; subst. lia.
Qed.

Lemma dead_oat : forall a i n o, nth_error (nodes a) i = Some n -> (stamp n < 0)%Z ->
  (forall z, o = Some z -> live a z) -> oat o i = false.
Proof. intros a i n [z|] Hn Hneg H; cbn; auto. eapply dead_idx; eauto. Qed.

Lemma dead_existsb : forall a i n l, nth_error (nodes a) i = Some n -> (stamp n < 0)%Z ->
  (forall z, In z l -> live a z) -> existsb (Nat.eqb i) (map idx l) = false.
Proof.
  intros a i n. induction l as [|z l IH]; intros Hn Hneg H; [reflexivity|].
  cbn [map existsb]. rewrite (dead_idx a i n z) by (auto; apply H; now left).
  apply IH; auto. intros w Hw. apply H. now right.
Qed.

Lemma next_path_transfer : forall a a' S o, (forall s, In s S -> next (nd a' s) = next (nd a s)) ->
  next_path a o S -> next_path a' o S.
Proof.
  intros a a'. induction S as [|x r IH]; intros o H HP; cbn [next_path] in *; auto.
  destruct HP as [-> HP]. split; auto. rewrite H by now left. apply IH; auto.
  intros s Hs. apply H. now right.
Qed.

Lemma dseg_next_path : forall a o' xs pv0, dseg a o' pv0 xs None -> next_path a (hd_error xs) xs.
Proof.
  intros a o'. induction xs as [|x r IH]; intros pv0 H; [reflexivity|].
  destruct H as (n & Hn & _ & _ & Hx & Hr). cbn [next_path hd_error]. split; auto.
  rewrite (nd_at _ _ _ Hn), Hx. specialize (IH _ Hr). destruct r; exact IH.
Qed.

Lemma last_error_app_ne : forall {X} (l l' : list X), l' <> [] -> last_error (l ++ l') = last_error l'.
Proof.
  intros X l l' H. destruct (snoc_case l') as [->|(s & z & ->)]; [congruence|].
  rewrite app_assoc, !last_error_snoc. reflexivity.
Qed.

Section Splice.
Variables (a1 : arena) (G : forest) (x f : nid) (Ks' : list nid) (o : option nid) (A B : list nid).
Let Ks := f :: Ks'.
Let l := List.last Ks' f.
Let Mid := A ++ Ks ++ B.

Hypothesis HR : Repr a1 G.
Hypothesis HxT : In [x] (tops G).
Hypothesis HKx : kidsf G x = Ks.
Hypothesis HxAB : ~ In x (A ++ B).
Hypothesis Hpos : match o with
                  | Some p => kidsf G p = A ++ B /\ live a1 p /\ ~ ancF G p x
                  | None => A ++ B = [] \/ In (A ++ B) (tops G)
                  end.

Let Lx : live a1 x.
Proof. apply (r_live _ _ HR). right. exists [x]. split; auto. now left. Qed.

Let x_not_kid : forall q, ~ In x (kidsf G q).
Proof. intros q H. eapply (kid_not_top a1 G HR x q [x]); eauto. now left. Qed.

Let dKs : dseg a1 (Some x) None Ks None.
Proof. rewrite <- HKx. apply (r_kids _ _ HR). Qed.
Let NDKs : NoDup Ks.
Proof. rewrite <- HKx. apply (r_kids _ _ HR). Qed.
Let LKs : forall s, In s Ks -> live a1 s.
Proof. intros s H. rewrite <- HKx in H. eapply kid_live; eauto. Qed.
Let pKs : forall s n, In s Ks -> node_at a1 s n -> parent n = Some x.
Proof.
  intros s n H Hn. destruct (dseg_in _ _ _ _ _ s dKs H) as (m & Hm & E).
  now rewrite (node_at_fun _ _ _ _ Hn Hm).
Qed.

Let dAB : dseg a1 o None (A ++ B) None /\ NoDup (A ++ B).
Proof.
  destruct o as [p|].
  - destruct Hpos as (E & _). rewrite <- E. apply (r_kids _ _ HR).
  - destruct Hpos as [E|Hc].
    + rewrite E. split; [exact I | constructor].
    + destruct (r_tops _ _ HR _ Hc) as (_ & H1 & H2). auto.
Qed.

Let LAB : forall y, In y (A ++ B) -> live a1 y.
Proof.
  intros y H. destruct o as [p|].
  - destruct Hpos as (E & _). rewrite <- E in H. eapply kid_live; eauto.
  - destruct Hpos as [E|Hc]; [rewrite E in H; contradiction|].
    apply (r_live _ _ HR). right. eauto.
Qed.

Let pAB : forall y n, In y (A ++ B) -> node_at a1 y n -> parent n = o.
Proof.
  intros y n H Hn. destruct dAB as [Hd _]. destruct (dseg_in _ _ _ _ _ y Hd H) as (m & Hm & E).
  now rewrite (node_at_fun _ _ _ _ Hn Hm).
Qed.

Let o_ne_x : o <> Some x.
Proof. intros E. rewrite E in Hpos. destruct Hpos as (_ & _ & H). apply H. constructor. Qed.

Let disj : forall y, In y Ks -> ~ In y (A ++ B).
Proof.
  intros y H1 H2. destruct (LKs y H1) as (n & Hn & _).
  pose proof (pKs y n H1 Hn) as E1. pose proof (pAB y n H2 Hn) as E2. congruence.
Qed.

Let x_not_Ks : ~ In x Ks.
Proof. rewrite <- HKx. apply x_not_kid. Qed.

Let NDM : NoDup Mid.
Proof. apply NoDup_insert_middle; auto. apply dAB. Qed.

Let fKs : In f Ks. Proof. now left. Qed.
Let lKs : In l Ks.
Proof. unfold l, Ks. rewrite <- (last_cons Ks' f f). apply last_in. Qed.

(* ---------- the two link operations, executed ---------- *)
Let pvv := last_error A.
Let nxx := hd_error B.

Let inr_live : forall y, live a1 y -> inr a1 y.
Proof. intros y H. apply live_in_range. exact H. Qed.
Let Lo : forall z, o = Some z -> live a1 z.
Proof. intros z E. rewrite E in Hpos. apply Hpos. Qed.
Let Lpv : forall z, pvv = Some z -> live a1 z.
Proof. intros z E. apply last_error_in in E. apply LAB. apply in_or_app. now left. Qed.
Let Lnx : forall z, nxx = Some z -> live a1 z.
Proof. intros z E. apply hd_error_in in E. apply LAB. apply in_or_app. now right. Qed.
Let oinr_live : forall u, (forall z, u = Some z -> live a1 z) -> oinr a1 u.
Proof. intros [z|] H; cbn; auto. Qed.

Let Ef1 : parent (nd a1 f) = Some x.
Proof. destruct (LKs f fKs) as (n & Hn & _). rewrite (nd_at _ _ _ Hn). exact (pKs f n fKs Hn). Qed.
Let Ef2 : prev (nd a1 f) = None.
Proof. destruct (LKs f fKs) as (n & Hn & _). rewrite (nd_at _ _ _ Hn). exact (dseg_hd_prev _ _ _ _ _ _ _ dKs Hn). Qed.
Let Ef3 : next (nd a1 l) = None.
Proof.
  destruct (LKs l lKs) as (n & Hn & _). rewrite (nd_at _ _ _ Hn).
  apply (dseg_last_next a1 (Some x) Ks None None l n dKs); auto.
Qed.

Let T2 := dfsF a1 f l.
Let a2 := amap T2 a1.
Let T3 := transplantF a2 Ks f l o pvv nxx.

Let T2_field : forall g j n, getf g (T2 j n) =
  if Nat.eqb j (idx x) && fld_eqb Flast g then None
  else if Nat.eqb j (idx x) && fld_eqb Ffirst g then None
  else if Nat.eqb j (idx l) && fld_eqb Fnext g then None
  else if Nat.eqb j (idx f) && fld_eqb Fprev g then None
  else getf g n.
Proof.
  intros g j n. unfold T2. rewrite getf_dfsF. cbv zeta. rewrite Ef1, Ef2, Ef3. cbn [oat andb].
  reflexivity.
Qed.

Let T2_parent : forall j n, parent (T2 j n) = parent n.
Proof. intros j n. change (getf Fparent (T2 j n) = getf Fparent n). rewrite T2_field. cbn [fld_eqb]. now rewrite !andb_false_r. Qed.
Let T2_first : forall j n, first (T2 j n) = if Nat.eqb j (idx x) then None else first n.
Proof. intros j n. change (first (T2 j n)) with (getf Ffirst (T2 j n)). rewrite T2_field. cbn [fld_eqb]. rewrite !andb_false_r, !andb_true_r. reflexivity. Qed.
Let T2_last : forall j n, last (T2 j n) = if Nat.eqb j (idx x) then None else last n.
Proof. intros j n. change (last (T2 j n)) with (getf Flast (T2 j n)). rewrite T2_field. cbn [fld_eqb]. rewrite !andb_false_r, !andb_true_r. reflexivity. Qed.
Let T2_prev : forall j n, nth_error (nodes a1) j = Some n -> prev (T2 j n) = prev n.
Proof.
  intros j n Hn. change (prev (T2 j n)) with (getf Fprev (T2 j n)). rewrite T2_field. cbn [fld_eqb].
  rewrite !andb_false_r, !andb_true_r. destruct (Nat.eqb j (idx f)) eqn:E; auto.
  apply Nat.eqb_eq in E. subst j. rewrite <- (nd_at _ _ _ Hn). now rewrite Ef2.
Qed.
Let T2_next : forall j n, nth_error (nodes a1) j = Some n -> next (T2 j n) = next n.
Proof.
  intros j n Hn. change (next (T2 j n)) with (getf Fnext (T2 j n)). rewrite T2_field. cbn [fld_eqb].
  rewrite !andb_false_r, !andb_true_r. destruct (Nat.eqb j (idx l)) eqn:E; auto.
  apply Nat.eqb_eq in E. subst j. rewrite <- (nd_at _ _ _ Hn). now rewrite Ef3.
Qed.

Let nd2 : forall y, inr a1 y -> nd a2 y = T2 (idx y) (nd a1 y).
Proof. intros y H. unfold a2. now rewrite nd_amap. Qed.

Let T3_field : forall g j m, getf g (T3 j m) =
  let a2' := amap (cnF a2 o pvv (Some f) ∘∘ reparentF Ks o) a2 in
  if oat o j && fld_eqb Flast g then cn_last a2' o (Some l) nxx
  else if oat o j && fld_eqb Ffirst g then cn_first a2' o (Some l) nxx
  else if oat nxx j && fld_eqb Fprev g then Some l
  else if Nat.eqb j (idx l) && fld_eqb Fnext g then nxx
  else if oat o j && fld_eqb Flast g then cn_last a2 o pvv (Some f)
  else if oat o j && fld_eqb Ffirst g then cn_first a2 o pvv (Some f)
  else if Nat.eqb j (idx f) && fld_eqb Fprev g then pvv
  else if oat pvv j && fld_eqb Fnext g then Some f
  else if existsb (Nat.eqb j) (map idx Ks) && fld_eqb Fparent g then o
  else getf g m.
Proof.
  intros g j m. unfold T3, transplantF. cbv zeta.
  rewrite getf_comp, getf_cnF, getf_comp, getf_cnF, getf_reparentF. reflexivity.
Qed.

Let ends_p : forall p, o = Some p ->
  first (nd a2 p) = hd_error (A ++ B) /\ last (nd a2 p) = last_error (A ++ B).
Proof.
  intros p Eo. pose proof (Lo p Eo) as Lp. rewrite Eo in Hpos. destruct Hpos as (EK & _ & Hna).
  rewrite nd2 by auto. rewrite T2_first, T2_last.
  rewrite (idx_eqb_live a1 p x) by auto.
  rewrite nid_eqb_neq by (intros ->; apply Hna; constructor).
  destruct Lp as (n & Hn & Sn & Gn). assert (Lp : live a1 p) by (exists n; auto).
  rewrite (nd_at _ _ _ Hn). rewrite <- EK. apply (r_ends _ _ HR); auto.
Qed.

Let cn_first_val : forall p, o = Some p ->
  cn_first (amap (cnF a2 o pvv (Some f) ∘∘ reparentF Ks o) a2) o (Some l) nxx = hd_error Mid.
Proof.
  intros p Eo. destruct (ends_p p Eo) as [F1 _]. pose proof (Lo p Eo) as Lp. rewrite Eo.
  unfold cn_first at 1.
  change (first (nd (amap (cnF a2 (Some p) pvv (Some f) ∘∘ reparentF Ks (Some p)) a2) p))
    with (getf Ffirst (nd (amap (cnF a2 (Some p) pvv (Some f) ∘∘ reparentF Ks (Some p)) a2) p)).
  rewrite getf_nd_amap by (unfold a2; apply inr_amap; auto).
  rewrite getf_comp, getf_cnF. cbn [oat fld_eqb]. rewrite Nat.eqb_refl. cbn [andb].
  unfold cn_first. rewrite F1. unfold pvv, Mid, Ks.
  destruct A as [|z A']; reflexivity.
Qed.

Let cn_last_val : forall p, o = Some p ->
  cn_last (amap (cnF a2 o pvv (Some f) ∘∘ reparentF Ks o) a2) o (Some l) nxx = last_error Mid.
Proof.
  intros p Eo. destruct (ends_p p Eo) as [_ F2]. pose proof (Lo p Eo) as Lp. rewrite Eo.
  unfold cn_last at 1.
  change (last (nd (amap (cnF a2 (Some p) pvv (Some f) ∘∘ reparentF Ks (Some p)) a2) p))
    with (getf Flast (nd (amap (cnF a2 (Some p) pvv (Some f) ∘∘ reparentF Ks (Some p)) a2) p)).
  rewrite getf_nd_amap by (unfold a2; apply inr_amap; auto).
  rewrite getf_comp, getf_cnF. cbn [oat fld_eqb]. rewrite Nat.eqb_refl. cbn [andb].
  unfold cn_last. rewrite F2. unfold nxx, Mid.
  destruct B as [|b B'].
  - cbn [hd_error]. rewrite app_nil_r. rewrite last_error_app_ne by discriminate. reflexivity.
  - cbn [hd_error]. rewrite (last_error_app_ne A (b :: B')) by discriminate.
    rewrite (last_error_app_ne A (Ks ++ b :: B')) by (unfold Ks; discriminate).
    rewrite (last_error_app_ne Ks (b :: B')) by discriminate. reflexivity.
Qed.

Lemma splice_exec : exists a3,
  (detach_from_siblings false f l ;;; (r <- transplant false f l o (last_error A) (hd_error B) ;; expect r))%mon a1
    = (a3, Ok tt) /\
  same_shape a1 a3 /\
  (forall y n, live a1 y -> node_at a1 y n ->
     exists n', node_at a3 y n' /\ spliced_node x f l Ks o A B y n n') /\
  (forall i n, nth_error (nodes a1) i = Some n -> (stamp n < 0)%Z ->
     exists n', nth_error (nodes a3) i = Some n' /\ same_links n n').
Proof.
  exists (amap T3 a2).
  assert (If : inr a1 f) by (apply inr_live; auto).
  assert (Il : inr a1 l) by (apply inr_live; auto).
  split; [|split; [|split]].
  - erewrite bind_ok.
    2:{ apply dfs_ok; auto; rewrite ?Ef1, ?Ef2, ?Ef3; cbn [oinr]; auto. }
    fold T2. fold a2.
    erewrite bind_ok.
    2:{ apply (transplant_ok a2 Ks f l o (last_error A) (hd_error B)).
        - apply (next_path_transfer a1).
          + intros s Hs. rewrite nd2 by auto. apply T2_next. apply at_nd. auto.
          + exact (dseg_next_path _ _ _ _ dKs).
        - apply Forall_forall. intros s Hs. unfold a2. apply inr_amap. auto.
        - unfold chain_fuel, a2. rewrite length_amap.
          assert (length (map idx Ks) <= length (nodes a1)).
          { apply NoDup_idx_bound.
            - apply (NoDup_live_idx a1); auto.
            - intros i Hi. apply in_map_iff in Hi. destruct Hi as (s & <- & Hs). apply live_in_range; auto. }
          rewrite map_length in H. lia.
        - intros s Hs. apply onid_eqb_neq. intros E. symmetry in E. rewrite E in Hpos.
          destruct Hpos as (_ & _ & Hna). apply Hna. apply anc_kid. now rewrite HKx.
        - unfold a2. apply inr_amap. auto.
        - unfold a2. apply oinr_amap. auto.
        - unfold a2. apply oinr_amap. auto.
        - unfold a2. apply oinr_amap. auto. }
    reflexivity.
  - apply same_shape_trans with a2.
    + apply same_shape_amap. apply links_only_dfsF.
    + apply same_shape_amap. apply links_only_transplantF.
  - intros y n Ly Hn. exists (T3 (idx y) (T2 (idx y) n)). split.
    { unfold node_at, a2. rewrite !nth_amap. unfold node_at in Hn. rewrite Hn. reflexivity. }
    unfold node_at in Hn.
    assert (Eo : oat o (idx y) = onid_eqb (Some y) o) by (apply (oat_live a1); auto).
    assert (Epv : oat pvv (idx y) = onid_eqb (Some y) pvv) by (apply (oat_live a1); auto).
    assert (Enx : oat nxx (idx y) = onid_eqb (Some y) nxx) by (apply (oat_live a1); auto).
    assert (Ef : Nat.eqb (idx y) (idx f) = nid_eqb y f) by (apply (idx_eqb_live a1); auto).
    assert (El : Nat.eqb (idx y) (idx l) = nid_eqb y l) by (apply (idx_eqb_live a1); auto).
    assert (Ex : Nat.eqb (idx y) (idx x) = nid_eqb y x) by (apply (idx_eqb_live a1); auto).
    assert (EK : existsb (Nat.eqb (idx y)) (map idx Ks) = nid_in y Ks) by (apply (existsb_idx_live a1); auto).
    unfold spliced_node. split; [|split; [|split; [|split]]].
    + change (parent (T3 (idx y) (T2 (idx y) n))) with (getf Fparent (T3 (idx y) (T2 (idx y) n))).
      rewrite T3_field. cbv zeta. cbn [fld_eqb]. rewrite !andb_false_r, andb_true_r. cbn [getf].
      rewrite T2_parent, EK. reflexivity.
    + change (prev (T3 (idx y) (T2 (idx y) n))) with (getf Fprev (T3 (idx y) (T2 (idx y) n))).
      rewrite T3_field. cbv zeta. cbn [fld_eqb]. rewrite !andb_false_r, !andb_true_r. cbn [getf].
      rewrite T2_prev by auto. rewrite Enx, Ef. fold nxx pvv.
      destruct (nid_eqb y f) eqn:Eyf; destruct (onid_eqb (Some y) nxx) eqn:Eyn; auto.
      exfalso. apply nid_eqb_eq in Eyf. subst y. apply onid_eqb_eq in Eyn. symmetry in Eyn.
      apply hd_error_in in Eyn. apply (disj f fKs). apply in_or_app. now right.
    + change (next (T3 (idx y) (T2 (idx y) n))) with (getf Fnext (T3 (idx y) (T2 (idx y) n))).
      rewrite T3_field. cbv zeta. cbn [fld_eqb]. rewrite !andb_false_r, !andb_true_r. cbn [getf].
      rewrite T2_next by auto. rewrite Epv, El. reflexivity.
    + change (first (T3 (idx y) (T2 (idx y) n))) with (getf Ffirst (T3 (idx y) (T2 (idx y) n))).
      rewrite T3_field. cbv zeta. cbn [fld_eqb]. rewrite !andb_false_r, !andb_true_r. cbn [getf].
      rewrite T2_first, Eo, Ex.
      destruct (onid_eqb (Some y) o) eqn:Eyo.
      * apply onid_eqb_eq in Eyo. rewrite (cn_first_val y) by auto.
        rewrite nid_eqb_neq; auto. intros ->. apply o_ne_x. auto.
      * reflexivity.
    + change (last (T3 (idx y) (T2 (idx y) n))) with (getf Flast (T3 (idx y) (T2 (idx y) n))).
      rewrite T3_field. cbv zeta. cbn [fld_eqb]. rewrite !andb_false_r, !andb_true_r. cbn [getf].
      rewrite T2_last, Eo, Ex.
      destruct (onid_eqb (Some y) o) eqn:Eyo.
      * apply onid_eqb_eq in Eyo. rewrite (cn_last_val y) by auto.
        rewrite nid_eqb_neq; auto. intros ->. apply o_ne_x. auto.
      * reflexivity.
  - intros i n Hn Hneg. exists (T3 i (T2 i n)). split.
    { unfold a2. rewrite !nth_amap, Hn. reflexivity. }
    assert (Eo : oat o i = false) by (eapply dead_oat; eauto).
    assert (Epv : oat pvv i = false) by (eapply dead_oat; eauto).
    assert (Enx : oat nxx i = false) by (eapply dead_oat; eauto).
    assert (Ef : Nat.eqb i (idx f) = false) by (eapply dead_idx; eauto).
    assert (El : Nat.eqb i (idx l) = false) by (eapply dead_idx; eauto).
    assert (Ex : Nat.eqb i (idx x) = false) by (eapply dead_idx; eauto).
    assert (EK : existsb (Nat.eqb i) (map idx Ks) = false) by (eapply dead_existsb; eauto).
    unfold same_links. split; [|split; [|split; [|split]]].
    + change (parent (T3 i (T2 i n))) with (getf Fparent (T3 i (T2 i n))).
      rewrite T3_field. cbv zeta. rewrite Eo, Epv, Enx, Ef, El, EK. cbn [andb getf]. apply T2_parent.
    + change (prev (T3 i (T2 i n))) with (getf Fprev (T3 i (T2 i n))).
      rewrite T3_field. cbv zeta. rewrite Eo, Epv, Enx, Ef, El, EK. cbn [andb getf]. apply T2_prev; auto.
    + change (next (T3 i (T2 i n))) with (getf Fnext (T3 i (T2 i n))).
      rewrite T3_field. cbv zeta. rewrite Eo, Epv, Enx, Ef, El, EK. cbn [andb getf]. apply T2_next; auto.
    + change (first (T3 i (T2 i n))) with (getf Ffirst (T3 i (T2 i n))).
      rewrite T3_field. cbv zeta. rewrite Eo, Epv, Enx, Ef, El, EK. cbn [andb getf].
      rewrite T2_first, Ex. reflexivity.
    + change (last (T3 i (T2 i n))) with (getf Flast (T3 i (T2 i n))).
      rewrite T3_field. cbv zeta. rewrite Eo, Epv, Enx, Ef, El, EK. cbn [andb getf].
      rewrite T2_last, Ex. reflexivity.
Qed.


Section SpliceRepr.
Variables (a3 : arena) (G' : forest).
Hypothesis Hshape : same_shape a1 a3.
Hypothesis Hlive : forall y n, live a1 y -> node_at a1 y n ->
  exists n', node_at a3 y n' /\ spliced_node x f l Ks o A B y n n'.
Hypothesis Hdead : forall i n, nth_error (nodes a1) i = Some n -> (stamp n < 0)%Z ->
  exists n', nth_error (nodes a3) i = Some n' /\ same_links n n'.
Hypothesis HK' : forall q, kidsf G' q =
  if nid_eqb q x then [] else if onid_eqb (Some q) o then Mid else kidsf G q.
Hypothesis HT' : forall c, In c (tops G') <->
  c = [x] \/ (o = None /\ c = Mid) \/ (In c (tops G) /\ c <> [x] /\ (o = None -> c <> A ++ B)).

Let live3 : forall y, live a3 y <-> live a1 y.
Proof.
  intros y. destruct Hshape as (Len & _ & _ & HS). split.
  - intros (n' & Hn' & St & Hg). unfold node_at in Hn'.
    destruct (nth_error (nodes a1) (idx y)) as [n|] eqn:En.
    2:{ apply nth_error_None in En. assert (idx y < length (nodes a3)) by (apply nth_error_Some; congruence). lia. }
    destruct (HS _ _ En) as (n2 & Hn2 & E2 & _). rewrite Hn' in Hn2. inversion Hn2; subst n2.
    exists n. repeat split; auto. congruence.
  - intros (n & Hn & St & Hg). destruct (HS _ _ Hn) as (n' & Hn' & E & _).
    exists n'. repeat split; auto. congruence.
Qed.

Let notA_notB : forall y, In y A -> ~ In y B.
Proof. intros y. destruct dAB as [_ H]. apply NoDup_app_inv in H. apply H. Qed.

Let untouched : forall y n, live a1 y -> ~ In y Ks -> ~ In y (A ++ B) -> node_at a1 y n ->
  exists n', node_at a3 y n' /\ parent n' = parent n /\ prev n' = prev n /\ next n' = next n.
Proof.
  intros y n Ly H1 H2 Hn. destruct (Hlive y n Ly Hn) as (n' & Hn' & P1 & P2 & P3 & _).
  exists n'. split; auto.
  apply nid_in_false in H1. rewrite H1 in P1.
  rewrite (nid_eqb_neq y f) in P2 by (intros ->; apply nid_in_false in H1; auto).
  rewrite (nid_eqb_neq y l) in P3 by (intros ->; apply nid_in_false in H1; auto).
  rewrite onid_eqb_neq in P2.
  2:{ intros E. symmetry in E. apply hd_error_in in E. apply H2. apply in_or_app. now right. }
  rewrite onid_eqb_neq in P3.
  2:{ intros E. symmetry in E. apply last_error_in in E. apply H2. apply in_or_app. now left. }
  auto.
Qed.

Let dseg_keep : forall o' c pv0 nx0,
  (forall y, In y c -> live a1 y /\ ~ In y Ks /\ ~ In y (A ++ B)) ->
  dseg a1 o' pv0 c nx0 -> dseg a3 o' pv0 c nx0.
Proof.
  intros o' c pv0 nx0 H. apply dseg_transfer. intros y n Hy Hn. destruct (H y Hy) as (L & H1 & H2).
  apply untouched; auto.
Qed.

Let dMid : dseg a3 o None Mid None.
Proof.
  destruct dAB as [Hd Hnd]. apply dseg_app in Hd. destruct Hd as [dA dB].
  destruct (NoDup_app_inv _ _ Hnd) as (NA & NB & _).
  unfold Mid. apply dseg_app. split.
  - change (ohd (Ks ++ B) None) with (Some f).
    apply (dseg_rewire a1 a3 o o A None None (ohd B None) (Some f)); auto.
    intros y n Hy Hn.
    assert (HyAB : In y (A ++ B)) by (apply in_or_app; now left).
    assert (HnK : ~ In y Ks) by (intros H; eapply disj; eauto).
    destruct (Hlive y n (LAB y HyAB) Hn) as (n' & Hn' & P1 & P2 & P3 & _).
    exists n'. split; auto.
    apply nid_in_false in HnK. rewrite HnK in P1.
    rewrite (nid_eqb_neq y f) in P2 by (intros ->; apply nid_in_false in HnK; auto).
    rewrite (nid_eqb_neq y l) in P3 by (intros ->; apply nid_in_false in HnK; auto).
    rewrite onid_eqb_neq in P2.
    2:{ intros E. symmetry in E. apply hd_error_in in E. eapply notA_notB; eauto. }
    split; [rewrite P1; eapply pAB; eauto|].
    split; [|split; [auto|split]].
    + intros E. rewrite P2. destruct A as [|z A']; [discriminate|]. cbn in E. inversion E; subst z.
      eapply dseg_hd_prev; eauto.
    + intros E. rewrite P3. rewrite (proj2 (onid_eqb_eq (Some y) (last_error A))); auto.
    + intros E. rewrite P3. rewrite onid_eqb_neq; auto.
  - apply dseg_app. split.
    + apply (dseg_rewire a1 a3 (Some x) o Ks None (olast A None) None (ohd B None)); auto.
      intros y n Hy Hn.
      destruct (Hlive y n (LKs y Hy) Hn) as (n' & Hn' & P1 & P2 & P3 & _).
      exists n'. split; auto.
      rewrite (proj2 (nid_in_In y Ks) Hy) in P1. split; auto.
      assert (HnAB : ~ In y (A ++ B)) by (apply disj; auto).
      split; [|split; [|split]].
      * intros E. cbn in E. inversion E; subst y. rewrite nid_eqb_refl in P2. now rewrite olast_None.
      * intros E. rewrite nid_eqb_neq in P2 by (intros ->; apply E; reflexivity).
        rewrite onid_eqb_neq in P2; auto.
        intros E2. symmetry in E2. apply hd_error_in in E2. apply HnAB. apply in_or_app. now right.
      * intros E. change (last_error Ks) with (Some l) in E. inversion E; subst y.
        rewrite nid_eqb_refl in P3. now rewrite ohd_None.
      * intros E. rewrite nid_eqb_neq in P3 by (intros ->; apply E; reflexivity).
        rewrite onid_eqb_neq in P3; auto.
        intros E2. symmetry in E2. apply last_error_in in E2. apply HnAB. apply in_or_app. now left.
    + change (olast Ks (olast A None)) with (Some l).
      apply (dseg_rewire a1 a3 o o B (olast A None) (Some l) None None); auto.
      intros y n Hy Hn.
      assert (HyAB : In y (A ++ B)) by (apply in_or_app; now right).
      assert (HnK : ~ In y Ks) by (intros H; eapply disj; eauto).
      destruct (Hlive y n (LAB y HyAB) Hn) as (n' & Hn' & P1 & P2 & P3 & _).
      exists n'. split; auto.
      apply nid_in_false in HnK. rewrite HnK in P1.
      rewrite (nid_eqb_neq y f) in P2 by (intros ->; apply nid_in_false in HnK; auto).
      rewrite (nid_eqb_neq y l) in P3 by (intros ->; apply nid_in_false in HnK; auto).
      rewrite (onid_eqb_neq (Some y) (last_error A)) in P3.
      2:{ intros E. symmetry in E. apply last_error_in in E. eapply notA_notB; eauto. }
      split; [rewrite P1; eapply pAB; eauto|].
      split; [|split; [|split; [|auto]]].
      * intros E. rewrite P2. rewrite (proj2 (onid_eqb_eq (Some y) (hd_error B))); auto.
      * intros E. rewrite P2. rewrite onid_eqb_neq; auto.
      * intros E. rewrite P3. eapply dseg_last_next; eauto.
Qed.

Let in_Mid : forall y, In y Mid <-> In y (A ++ B) \/ In y Ks.
Proof.
  intros y. unfold Mid. rewrite !in_app_iff. tauto.
Qed.

Let list_nid_dec : forall c c' : list nid, {c = c'} + {c <> c'}.
Proof. apply list_eq_dec. apply nid_dec. Qed.

Let Mid_member : forall y, In y Mid -> memberF G' y.
Proof.
  intros y Hy. destruct o as [p|] eqn:Eo.
  - left. exists p. rewrite HK'. rewrite nid_eqb_neq.
    + rewrite (proj2 (onid_eqb_eq (Some p) (Some p))); auto.
    + intros ->. apply o_ne_x. reflexivity.
  - right. exists Mid. split; auto. apply HT'. right. left. auto.
Qed.

Let kid_keep : forall y q, In y (kidsf G q) -> q <> x -> In y (kidsf G' q).
Proof.
  intros y q Hy Hq. rewrite HK'. rewrite nid_eqb_neq by auto.
  destruct (onid_eqb (Some q) o) eqn:E; auto.
  apply onid_eqb_eq in E. rewrite <- E in Hpos. destruct Hpos as (E2 & _).
  apply in_Mid. left. now rewrite <- E2.
Qed.

Let top_keep : forall c y, In c (tops G) -> In y c -> y <> x -> exists c', In c' (tops G') /\ In y c'.
Proof.
  intros c y Hc Hy Hne.
  destruct (list_nid_dec c [x]) as [->|Hcx]; [destruct Hy as [<-|[]]; congruence|].
  destruct o as [p|] eqn:Eo.
  - exists c. split; auto. apply HT'. right. right. split; auto. split; auto. discriminate.
  - destruct (list_nid_dec c (A ++ B)) as [->|Hcab].
    + exists Mid. split; [apply HT'; right; left; auto|]. apply in_Mid. now left.
    + exists c. split; auto. apply HT'. right. right. auto.
Qed.

Let member_iff : forall y, memberF G' y <-> memberF G y.
Proof.
  intros y. split.
  - intros [(q & Hq)|(c & Hc & Hy)].
    + rewrite HK' in Hq. destruct (nid_eqb q x); [contradiction|].
      destruct (onid_eqb (Some q) o) eqn:E; [|left; eauto].
      apply onid_eqb_eq in E. rewrite <- E in Hpos. destruct Hpos as (E2 & _).
      apply in_Mid in Hq. destruct Hq as [Hq|Hq]; left.
      * exists q. now rewrite E2.
      * exists x. now rewrite HKx.
    + apply HT' in Hc. destruct Hc as [->|[(Eo & ->)|(Hc & _ & _)]].
      * right. eauto.
      * apply in_Mid in Hy. destruct Hy as [Hy|Hy].
        -- rewrite Eo in Hpos. destruct Hpos as [E|Hc]; [rewrite E in Hy; contradiction|]. right. eauto.
        -- left. exists x. now rewrite HKx.
      * right. eauto.
  - intros [(q & Hq)|(c & Hc & Hy)].
    + destruct (nid_dec q x) as [->|Hne].
      * apply Mid_member. apply in_Mid. right. now rewrite <- HKx.
      * left. exists q. now apply kid_keep.
    + destruct (nid_dec y x) as [->|Hne].
      * right. exists [x]. split; [apply HT'; now left | now left].
      * destruct (top_keep c y Hc Hy Hne) as (c' & H1 & H2). right. eauto.
Qed.

Let depth_cases : forall y d, depthF G y d ->
  ancF G y x \/ (~ ancF G y x /\ exists d', depthF G' y d').
Proof.
  induction 1 as [y c Hc Hy | y q d Hq Hd IH].
  - destruct (nid_dec y x) as [->|Hne]; [left; constructor|]. right. split.
    + intros Ha. inversion Ha as [|? q ? Hq Hb]; subst; [congruence|].
      eapply (kid_not_top a1 G HR); eauto.
    + destruct (top_keep c y Hc Hy Hne) as (c' & H1 & H2). exists 0. eapply depth_top; eauto.
  - destruct IH as [Ha|(Hna & d' & Hd')].
    + left. eapply anc_step; eauto.
    + right. split.
      * intros Ha. inversion Ha as [|? q' ? Hq' Hb]; subst.
        -- eapply x_not_kid; eauto.
        -- assert (q' = q) by (eapply (parent_unique a1 G HR); eauto). subst. auto.
      * exists (S d'). apply depth_kid with q; auto. apply kid_keep; auto.
        intros ->. apply Hna. constructor.
Qed.

Let depth_Ks : forall y, In y Ks -> exists d, depthF G' y d.
Proof.
  intros y Hy. destruct o as [p|] eqn:Eo.
  - destruct Hpos as (E & Lp & Hna).
    destruct (live_depth a1 G HR p Lp) as (dp & Hdp).
    destruct (depth_cases p dp Hdp) as [Ha|(_ & d' & Hd')]; [contradiction|].
    exists (S d'). apply depth_kid with p; auto. rewrite HK'.
    rewrite nid_eqb_neq by (intros ->; apply Hna; constructor).
    rewrite (proj2 (onid_eqb_eq (Some p) (Some p))); auto. apply in_Mid. now right.
  - exists 0. apply depth_top with Mid; [apply HT'; right; left; auto | apply in_Mid; now right].
Qed.

Let depth_sub : forall y z, ancF G y z -> z = x -> exists d, depthF G' y d.
Proof.
  induction 1 as [z | y q z Hq Ha IH]; intros ->.
  - exists 0. apply depth_top with [x]; [apply HT'; now left | now left].
  - destruct (nid_dec q x) as [->|Hne].
    + apply depth_Ks. now rewrite <- HKx.
    + destruct (IH eq_refl) as (d & Hd). exists (S d). apply depth_kid with q; auto.
Qed.

Let not_spliced : forall q, live a1 q -> q <> x -> o <> Some q -> forall y, In y (kidsf G q) ->
  live a1 y /\ ~ In y Ks /\ ~ In y (A ++ B).
Proof.
  intros q Lq Hqx Hqo y Hy. destruct (kid_parent a1 G HR y q Hy) as (n & Hn & Pn).
  split; [eapply kid_live; eauto|]. split; intros H.
  - pose proof (pKs y n H Hn). congruence.
  - pose proof (pAB y n H Hn). congruence.
Qed.

Lemma splice_repr : Repr a3 G'.
Proof.
  constructor.
  - intros y. rewrite member_iff, live3. apply (r_live _ _ HR).
  - intros q. rewrite HK'. destruct (nid_eqb q x) eqn:Eqx; [split; [exact I|constructor]|].
    destruct (onid_eqb (Some q) o) eqn:Eqo.
    + apply onid_eqb_eq in Eqo. rewrite <- Eqo in dMid. split; auto.
    + destruct (r_kids _ _ HR q) as [Hd Hn]. split; auto.
      destruct (kidsf G q) as [|k ks] eqn:Ek; [exact I|]. rewrite <- Ek in *.
      apply dseg_keep; auto. apply not_spliced.
      * apply (r_owner _ _ HR). rewrite Ek. discriminate.
      * intros ->. rewrite nid_eqb_refl in Eqx. discriminate.
      * intros E. rewrite E in Eqo. rewrite (proj2 (onid_eqb_eq _ _) eq_refl) in Eqo. discriminate.
  - intros q. rewrite HK'. destruct (nid_eqb q x) eqn:Eqx; [congruence|].
    destruct (onid_eqb (Some q) o) eqn:Eqo.
    + intros _. apply onid_eqb_eq in Eqo. rewrite <- Eqo in Hpos. apply live3. apply Hpos.
    + intros H. apply live3. apply (r_owner _ _ HR). auto.
  - intros c Hc. apply HT' in Hc. destruct Hc as [->|[(Eo & ->)|(Hc & Hcx & Hcab)]].
    + destruct (r_tops _ _ HR [x] HxT) as (H1 & H2 & H3). split; auto. split; auto.
      apply dseg_keep; auto. intros y [<-|[]]. split; auto.
    + split; [unfold Mid, Ks; destruct A; discriminate|]. split; auto. pose proof dMid as HdM. rewrite Eo in HdM. exact HdM.
    + destruct (r_tops _ _ HR c Hc) as (H1 & H2 & H3). split; auto. split; auto.
      apply dseg_keep; auto. intros y Hy.
      destruct (top_parent a1 G HR y c Hc Hy) as (n & Hn & Pn).
      split; [apply (r_live _ _ HR); right; eauto|]. split; intros H.
      * pose proof (pKs y n H Hn). congruence.
      * pose proof (pAB y n H Hn) as Eo. rewrite Pn in Eo. symmetry in Eo.
        rewrite Eo in Hpos. destruct Hpos as [E|Hc2]; [rewrite E in H; contradiction|].
        apply (Hcab Eo). destruct (r_tops _ _ HR _ Hc2) as (_ & D2 & _).
        eapply dseg_unique; eauto.
  - intros q n' Lq Hn'. apply live3 in Lq. destruct Lq as (n & Hn & Sn & Gn).
    assert (Lq : live a1 q) by (exists n; auto).
    destruct (Hlive q n Lq Hn) as (n2 & Hn2 & _ & _ & _ & P4 & P5).
    rewrite (node_at_fun _ _ _ _ Hn' Hn2). rewrite HK', P4, P5.
    destruct (r_ends _ _ HR q n Lq Hn) as [E1 E2].
    destruct (nid_eqb q x); [split; reflexivity|].
    destruct (onid_eqb (Some q) o); split; auto.
  - intros y Hy. apply member_iff in Hy. destruct (r_depth _ _ HR y Hy) as (d & Hd).
    destruct (depth_cases y d Hd) as [Ha|(_ & d' & Hd')]; eauto.
  - intros i n' Hn' Hneg. destruct Hshape as (Len & _ & _ & HS).
    destruct (nth_error (nodes a1) i) as [n|] eqn:En.
    2:{ apply nth_error_None in En. assert (i < length (nodes a3)) by (apply nth_error_Some; congruence). lia. }
    destruct (HS _ _ En) as (n2 & Hn2 & St & _). rewrite Hn' in Hn2. inversion Hn2; subst n2.
    destruct (Hdead i n En) as (n3 & Hn3 & L1 & L2 & L3 & L4 & L5); [lia|].
    rewrite Hn' in Hn3. inversion Hn3; subst n3.
    destruct (r_dead _ _ HR i n En) as (Z1 & Z2 & Z3 & Z4 & Z5); [lia|].
    repeat split; congruence.
Qed.

End SpliceRepr.
End Splice.

(* ====================================================================== *)
(* remove                                                                  *)
(* ====================================================================== *)

Lemma same_shape_live : forall a a1 y, same_shape a a1 -> live a y -> live a1 y.
Proof.
  intros a a1 y (_ & _ & _ & HS) (n & Hn & Sn & Gn). destruct (HS _ _ Hn) as (n' & Hn' & E & _).
  exists n'. repeat split; auto. congruence.
Qed.

Lemma anc_detach_sub : forall x F u v, ancF (f_detach x F) u v -> ancF F u v.
Proof.
  intros x F u v H. induction H as [u | u p v Hp Ha IH]; [constructor|].
  cbn [kidsf f_detach] in Hp. apply in_remove_id in Hp. eapply anc_step; [apply Hp | exact IH].
Qed.

(* where x sits: its sibling run is A ++ x :: B, owned by its parent field *)
Lemma position : forall a F x n, Repr a F -> live a x -> node_at a x n ->
  exists A B, ~ In x A /\ ~ In x B /\ NoDup (A ++ x :: B) /\
              prev n = last_error A /\ next n = hd_error B /\
              match parent n with
              | Some p => kidsf F p = A ++ x :: B
              | None => In (A ++ x :: B) (tops F)
              end.
Proof.
  intros a F x n HR Lx Hn.
  assert (Hgen : forall o c, dseg a o None c None -> NoDup c -> In x c ->
            exists A B, c = A ++ x :: B /\ ~ In x A /\ ~ In x B /\ parent n = o /\
                        prev n = last_error A /\ next n = hd_error B).
  { intros o c Hd Hnd Hx. destruct (in_split_nodup x c Hx Hnd) as (A & B & -> & HA & HB).
    exists A, B. split; auto. split; auto. split; auto.
    apply dseg_app in Hd. destruct Hd as [_ Hd]. rewrite olast_None in Hd.
    destruct Hd as (m & Hm & P1 & P2 & P3 & _). rewrite (node_at_fun _ _ _ _ Hn Hm).
    split; auto. }
  apply (r_live _ _ HR) in Lx. destruct Lx as [(p & Hp)|(c & Hc & Hxc)].
  - destruct (r_kids _ _ HR p) as [Hd Hnd].
    destruct (Hgen _ _ Hd Hnd Hp) as (A & B & E & HA & HB & Po & Pv & Px).
    exists A, B. rewrite Po. rewrite <- E. repeat split; auto.
  - destruct (r_tops _ _ HR c Hc) as (_ & Hd & Hnd).
    destruct (Hgen _ _ Hd Hnd Hxc) as (A & B & E & HA & HB & Po & Pv & Px).
    exists A, B. rewrite Po. rewrite <- E. repeat split; auto.
Qed.


(* ====================================================================== *)
(* detach refines f_detach (own proof; the insert development has its own) *)
(* ====================================================================== *)

Lemma same_shape_live_iff : forall a a' y, same_shape a a' -> (live a' y <-> live a y).
Proof.
  intros a a' y Sh. split; [|apply same_shape_live; auto].
  destruct Sh as (Len & _ & _ & HS).
  intros (n' & Hn' & St & Hg). unfold node_at in Hn'.
  destruct (nth_error (nodes a) (idx y)) as [n|] eqn:En.
  2:{ apply nth_error_None in En. assert (idx y < length (nodes a')) by (apply nth_error_Some; congruence). lia. }
  destruct (HS _ _ En) as (n2 & Hn2 & E2 & _). rewrite Hn' in Hn2. inversion Hn2; subst n2.
  exists n. repeat split; auto. congruence.
Qed.

Section Detach.
Variables (a : arena) (F : forest) (x : nid) (n : node) (A B : list nid).
Hypothesis HR : Repr a F.
Hypothesis Lx : live a x.
Hypothesis Hn : node_at a x n.
Hypothesis HA : ~ In x A.
Hypothesis HB : ~ In x B.
Hypothesis Hnd : NoDup (A ++ x :: B).
Hypothesis Pv : prev n = last_error A.
Hypothesis Px : next n = hd_error B.
Hypothesis Ppos : match parent n with
                  | Some p => kidsf F p = A ++ x :: B
                  | None => In (A ++ x :: B) (tops F)
                  end.
Let o := parent n.
Let pv := last_error A.
Let nx := hd_error B.
Let cx := A ++ x :: B.
Let a' := amap (detachF a x) a.
Let F1 := f_detach x F.

Let x_in_cx : In x cx.
Proof. unfold cx. apply in_or_app. right. now left. Qed.

Let dcx : dseg a o None cx None.
Proof.
  unfold o, cx. destruct (parent n) as [p|].
  - rewrite <- Ppos. apply (r_kids _ _ HR).
  - apply (r_tops _ _ HR _ Ppos).
Qed.

Let Lcx : forall y, In y cx -> live a y.
Proof.
  intros y Hy. unfold cx in Hy. destruct (parent n) as [p|].
  - rewrite <- Ppos in Hy. eapply kid_live; eauto.
  - apply (r_live _ _ HR). right. eauto.
Qed.

Let pcx : forall y m, In y cx -> node_at a y m -> parent m = o.
Proof.
  intros y m Hy Hm. destruct (dseg_in _ _ _ _ _ y dcx Hy) as (m2 & Hm2 & E).
  now rewrite (node_at_fun _ _ _ _ Hm Hm2).
Qed.

Let inA : forall y, In y A -> In y cx.
Proof. intros y H. apply in_or_app. now left. Qed.
Let inB : forall y, In y B -> In y cx.
Proof. intros y H. apply in_or_app. right. now right. Qed.

Let Lo : forall z, o = Some z -> live a z.
Proof.
  intros z E. unfold o in E. rewrite E in Ppos. apply (r_owner _ _ HR). rewrite Ppos. destruct A; discriminate.
Qed.
Let Lpv : forall z, pv = Some z -> live a z.
Proof. intros z E. apply last_error_in in E. auto. Qed.
Let Lnx : forall z, nx = Some z -> live a z.
Proof. intros z E. apply hd_error_in in E. auto. Qed.
Let oinr_live : forall u, (forall z, u = Some z -> live a z) -> oinr a u.
Proof. intros [z|] H; cbn; auto. apply live_in_range. auto. Qed.

Let NDAB : NoDup (A ++ B).
Proof. eapply NoDup_remove_1; eauto. Qed.
Let notAB : forall y, In y A -> ~ In y B.
Proof. intros y. apply NoDup_app_inv in NDAB. apply NDAB. Qed.

Let Enx : nd a x = n.
Proof. apply nd_at. exact Hn. Qed.

Let x_ne_pv : onid_eqb (Some x) pv = false.
Proof. apply onid_eqb_neq. intros E. symmetry in E. apply last_error_in in E. auto. Qed.
Let x_ne_nx : onid_eqb (Some x) nx = false.
Proof. apply onid_eqb_neq. intros E. symmetry in E. apply hd_error_in in E. auto. Qed.

Let detach_exec : detach false x a = (a', Ok tt).
Proof.
  unfold a'. apply detach_ok; rewrite ?Enx.
  - apply live_in_range. auto.
  - apply oinr_live. exact Lo.
  - rewrite Pv. apply oinr_live. exact Lpv.
  - rewrite Px. apply oinr_live. exact Lnx.
  - rewrite Pv. rewrite (oat_live a); auto.
Qed.

Let DF_field : forall g j m, getf g (detachF a x j m) =
  if Nat.eqb j (idx x) && fld_eqb Fparent g then None
  else if oat o j && fld_eqb Flast g then cn_last a o pv nx
  else if oat o j && fld_eqb Ffirst g then cn_first a o pv nx
  else if oat nx j && fld_eqb Fprev g then pv
  else if oat pv j && fld_eqb Fnext g then nx
  else if Nat.eqb j (idx x) && fld_eqb Fnext g then None
  else if Nat.eqb j (idx x) && fld_eqb Fprev g then None
  else getf g m.
Proof.
  intros g j m. unfold detachF. rewrite getf_comp, getf_fset, getf_dfsF. cbv zeta.
  rewrite Enx, Pv, Px. reflexivity.
Qed.

Let ends_o : forall p, o = Some p ->
  first (nd a p) = hd_error cx /\ last (nd a p) = last_error cx.
Proof.
  intros p Eo. pose proof (Lo p Eo) as Lp. unfold o in Eo. rewrite Eo in Ppos.
  destruct Lp as (m & Hm & Sm & Gm). assert (Lp : live a p) by (exists m; auto).
  rewrite (nd_at _ _ _ Hm). unfold cx. rewrite <- Ppos. apply (r_ends _ _ HR); auto.
Qed.

Let cnf_val : forall p, o = Some p -> cn_first a o pv nx = hd_error (A ++ B).
Proof.
  intros p Eo. destruct (ends_o p Eo) as [E _]. rewrite Eo. unfold cn_first. rewrite E.
  unfold pv, nx, cx. destruct A as [|z A']; [reflexivity|]. reflexivity.
Qed.

Let cnl_val : forall p, o = Some p -> cn_last a o pv nx = last_error (A ++ B).
Proof.
  intros p Eo. destruct (ends_o p Eo) as [_ E]. rewrite Eo. unfold cn_last. rewrite E.
  unfold pv, nx, cx. destruct B as [|b B'].
  - cbn [hd_error]. now rewrite app_nil_r.
  - cbn [hd_error]. rewrite (last_error_app_ne A (x :: b :: B')) by discriminate.
    rewrite (last_error_app_ne A (b :: B')) by discriminate. rewrite last_error_cons. reflexivity.
Qed.

Definition detached_node (y : nid) (m m' : node) : Prop :=
  parent m' = (if nid_eqb y x then None else parent m) /\
  prev m' = (if onid_eqb (Some y) nx then pv else if nid_eqb y x then None else prev m) /\
  next m' = (if onid_eqb (Some y) pv then nx else if nid_eqb y x then None else next m) /\
  first m' = (if onid_eqb (Some y) o then hd_error (A ++ B) else first m) /\
  last m' = (if onid_eqb (Some y) o then last_error (A ++ B) else last m).

Let Hlive : forall y m, live a y -> node_at a y m -> exists m', node_at a' y m' /\ detached_node y m m'.
Proof.
  intros y m Ly Hm. exists (detachF a x (idx y) m). split.
  { unfold node_at, a'. rewrite nth_amap. unfold node_at in Hm. now rewrite Hm. }
  assert (Eo : oat o (idx y) = onid_eqb (Some y) o) by (apply (oat_live a); auto).
  assert (Epv : oat pv (idx y) = onid_eqb (Some y) pv) by (apply (oat_live a); auto).
  assert (Enx' : oat nx (idx y) = onid_eqb (Some y) nx) by (apply (oat_live a); auto).
  assert (Ex : Nat.eqb (idx y) (idx x) = nid_eqb y x) by (apply (idx_eqb_live a); auto).
  unfold detached_node. split; [|split; [|split; [|split]]].
  - change (parent (detachF a x (idx y) m)) with (getf Fparent (detachF a x (idx y) m)).
    rewrite DF_field. cbn [fld_eqb]. rewrite !andb_false_r, andb_true_r, Ex. reflexivity.
  - change (prev (detachF a x (idx y) m)) with (getf Fprev (detachF a x (idx y) m)).
    rewrite DF_field. cbn [fld_eqb]. rewrite !andb_false_r, !andb_true_r, Ex, Enx'. reflexivity.
  - change (next (detachF a x (idx y) m)) with (getf Fnext (detachF a x (idx y) m)).
    rewrite DF_field. cbn [fld_eqb]. rewrite !andb_false_r, !andb_true_r, Ex, Epv. reflexivity.
  - change (first (detachF a x (idx y) m)) with (getf Ffirst (detachF a x (idx y) m)).
    rewrite DF_field. cbn [fld_eqb]. rewrite !andb_false_r, !andb_true_r, Eo.
    destruct (onid_eqb (Some y) o) eqn:Eyo; [|reflexivity].
    apply onid_eqb_eq in Eyo. symmetry in Eyo. apply (cnf_val y Eyo).
  - change (last (detachF a x (idx y) m)) with (getf Flast (detachF a x (idx y) m)).
    rewrite DF_field. cbn [fld_eqb]. rewrite !andb_false_r, !andb_true_r, Eo.
    destruct (onid_eqb (Some y) o) eqn:Eyo; [|reflexivity].
    apply onid_eqb_eq in Eyo. symmetry in Eyo. apply (cnl_val y Eyo).
Qed.

Let Hdead : forall i m, nth_error (nodes a) i = Some m -> (stamp m < 0)%Z ->
  exists m', nth_error (nodes a') i = Some m' /\ same_links m m'.
Proof.
  intros i m Hm Hneg. exists (detachF a x i m). split.
  { unfold a'. rewrite nth_amap, Hm. reflexivity. }
  assert (Eo : oat o i = false) by (eapply dead_oat; eauto).
  assert (Epv : oat pv i = false) by (eapply dead_oat; eauto).
  assert (Enx' : oat nx i = false) by (eapply dead_oat; eauto).
  assert (Ex : Nat.eqb i (idx x) = false) by (eapply dead_idx; eauto).
  unfold same_links. split; [|split; [|split; [|split]]].
  - change (parent (detachF a x i m)) with (getf Fparent (detachF a x i m)).
    rewrite DF_field, Eo, Epv, Enx', Ex. reflexivity.
  - change (prev (detachF a x i m)) with (getf Fprev (detachF a x i m)).
    rewrite DF_field, Eo, Epv, Enx', Ex. reflexivity.
  - change (next (detachF a x i m)) with (getf Fnext (detachF a x i m)).
    rewrite DF_field, Eo, Epv, Enx', Ex. reflexivity.
  - change (first (detachF a x i m)) with (getf Ffirst (detachF a x i m)).
    rewrite DF_field, Eo, Epv, Enx', Ex. reflexivity.
  - change (last (detachF a x i m)) with (getf Flast (detachF a x i m)).
    rewrite DF_field, Eo, Epv, Enx', Ex. reflexivity.
Qed.

Let Hshape : same_shape a a'.
Proof. unfold a'. apply same_shape_amap. apply links_only_detachF. Qed.

Let live' : forall y, live a' y <-> live a y.
Proof. intros y. apply same_shape_live_iff. exact Hshape. Qed.

(* nodes outside x's sibling run keep parent / prev / next *)
Let untouched : forall y m, live a y -> ~ In y cx -> node_at a y m ->
  exists m', node_at a' y m' /\ parent m' = parent m /\ prev m' = prev m /\ next m' = next m.
Proof.
  intros y m Ly Hy Hm. destruct (Hlive y m Ly Hm) as (m' & Hm' & P1 & P2 & P3 & _).
  exists m'. split; auto.
  rewrite (nid_eqb_neq y x) in P1, P2, P3 by (intros ->; auto).
  rewrite onid_eqb_neq in P2 by (intros E; symmetry in E; apply hd_error_in in E; auto).
  rewrite onid_eqb_neq in P3 by (intros E; symmetry in E; apply last_error_in in E; auto).
  auto.
Qed.

Let dseg_keep : forall o' c pv0 nx0, (forall y, In y c -> live a y /\ ~ In y cx) ->
  dseg a o' pv0 c nx0 -> dseg a' o' pv0 c nx0.
Proof.
  intros o' c pv0 nx0 H. apply dseg_transfer. intros y m Hy Hm. destruct (H y Hy) as [L Hc].
  apply untouched; auto.
Qed.

(* the gap closes *)
Let dAB : dseg a' o None (A ++ B) None.
Proof.
  pose proof dcx as Hd. unfold cx in Hd. apply dseg_app in Hd. destruct Hd as [dA dxB].
  rewrite olast_None in dxB. cbn [ohd] in dA.
  destruct dxB as (m0 & _ & _ & _ & _ & dB).
  destruct (NoDup_app_inv _ _ NDAB) as (NA & NB & _).
  apply dseg_app. split.
  - apply (dseg_rewire a a' o o A None None (Some x) (ohd B None)); auto.
    intros y m Hy Hm.
    destruct (Hlive y m (Lcx y (inA y Hy)) Hm) as (m' & Hm' & P1 & P2 & P3 & _).
    pose proof (pcx y m (inA y Hy) Hm) as Pp.
    exists m'. split; auto.
    rewrite (nid_eqb_neq y x) in P1, P2, P3 by (intros ->; auto).
    rewrite onid_eqb_neq in P2.
    2:{ intros E. symmetry in E. apply hd_error_in in E. eapply notAB; eauto. }
    split; [rewrite P1; exact Pp|].
    split; [|split; [auto|split]].
    + intros E. rewrite P2. eapply dseg_hd_prev'; eauto.
    + intros E. rewrite P3. rewrite (proj2 (onid_eqb_eq (Some y) pv)); auto; now rewrite ohd_None.
    + intros E. rewrite P3. rewrite onid_eqb_neq; auto.
  - apply (dseg_rewire a a' o o B (Some x) (olast A None) None None); auto.
    intros y m Hy Hm.
    destruct (Hlive y m (Lcx y (inB y Hy)) Hm) as (m' & Hm' & P1 & P2 & P3 & _).
    pose proof (pcx y m (inB y Hy) Hm) as Pp.
    exists m'. split; auto.
    rewrite (nid_eqb_neq y x) in P1, P2, P3 by (intros ->; auto).
    rewrite (onid_eqb_neq (Some y) pv) in P3.
    2:{ intros E. symmetry in E. apply last_error_in in E. eapply notAB; eauto. }
    split; [rewrite P1; exact Pp|].
    split; [|split; [|split; [|auto]]].
    + intros E. rewrite P2. rewrite (proj2 (onid_eqb_eq (Some y) nx)); auto; now rewrite olast_None.
    + intros E. rewrite P2. rewrite onid_eqb_neq; auto.
    + intros E. rewrite P3. eapply dseg_last_next; eauto.
Qed.

(* a sibling run of F other than x's own does not meet it *)
Let other_run : forall o' c, dseg a o' None c None -> ~ In x c ->
  (o' = None -> In c (tops F)) -> (forall q, o' = Some q -> c = kidsf F q) ->
  forall y, In y c -> ~ In y cx.
Proof.
  intros o' c Hd Hxc Htop Hkid y Hy Hycx.
  destruct (dseg_in _ _ _ _ _ y Hd Hy) as (m & Hm & Pm).
  pose proof (pcx y m Hycx Hm) as Po. rewrite Pm in Po.
  apply Hxc. destruct o' as [q|].
  - rewrite (Hkid q eq_refl). unfold o in Po. rewrite <- Po in Ppos. rewrite Ppos. exact x_in_cx.
  - assert (c = cx); [|subst c; exact x_in_cx].
    unfold o in Po. rewrite <- Po in Ppos.
    destruct (r_tops _ _ HR _ Ppos) as (_ & D1 & _).
    apply (dseg_unique a None None c cx y Hd D1 Hy Hycx).
Qed.

Let x_kid_o : forall q, In x (kidsf F q) -> o = Some q.
Proof.
  intros q H. destruct (kid_parent a F HR x q H) as (m & Hm & Pm).
  unfold o. now rewrite (node_at_fun _ _ _ _ Hn Hm).
Qed.

Let member1 : forall y, memberF F1 y <-> memberF F y.
Proof.
  intros y. split.
  - intros [(q & Hq)|(c & Hc & Hy)].
    + cbn [kidsf F1 f_detach] in Hq. apply in_remove_id in Hq. left. exists q. tauto.
    + cbn [tops F1 f_detach] in Hc. destruct Hc as [<-|Hc].
      * destruct Hy as [<-|[]]. now apply (r_live _ _ HR).
      * apply in_filter_nonempty in Hc. destruct Hc as [Hc _]. apply in_map_iff in Hc.
        destruct Hc as (c0 & <- & Hc0). apply in_remove_id in Hy. right. exists c0. tauto.
  - intros Hm. destruct (nid_dec y x) as [->|Hne].
    + right. exists [x]. split; now left.
    + destruct Hm as [(q & Hq)|(c & Hc & Hy)].
      * left. exists q. cbn [kidsf F1 f_detach]. apply in_remove_id. auto.
      * right. exists (remove_id x c). assert (Hy' : In y (remove_id x c)) by (apply in_remove_id; auto).
        split; auto. cbn [tops F1 f_detach]. right. apply in_filter_nonempty. split.
        -- apply in_map. auto.
        -- intros E. rewrite E in Hy'. contradiction.
Qed.

Let depth1 : forall y d, depthF F y d -> exists d', depthF F1 y d'.
Proof.
  induction 1 as [y c Hc Hy | y q d Hq Hd IH].
  - exists 0. destruct (nid_dec y x) as [->|Hne].
    + apply depth_top with [x]; now left.
    + assert (Hy' : In y (remove_id x c)) by (apply in_remove_id; auto).
      apply depth_top with (remove_id x c); auto. cbn [tops F1 f_detach]. right.
      apply in_filter_nonempty. split; [apply in_map; auto|]. intros E. rewrite E in Hy'. contradiction.
  - destruct (nid_dec y x) as [->|Hne].
    + exists 0. apply depth_top with [x]; now left.
    + destruct IH as (d' & Hd'). exists (S d'). apply depth_kid with q; auto.
      cbn [kidsf F1 f_detach]. apply in_remove_id. auto.
Qed.

Lemma detach_repr_own : detach false x a = (a', Ok tt) /\ Repr a' F1 /\ same_shape a a'.
Proof.
  split; [exact detach_exec|]. split; [|exact Hshape].
  constructor.
  - intros y. rewrite member1, live'. apply (r_live _ _ HR).
  - intros q. cbn [kidsf F1 f_detach]. destruct (r_kids _ _ HR q) as [Hd Hq].
    split; [|apply NoDup_filter; auto].
    destruct (in_dec nid_dec x (kidsf F q)) as [Hx|Hx].
    + pose proof (x_kid_o q Hx) as Eo. unfold o in Eo. rewrite Eo in Ppos. rewrite Ppos.
      rewrite remove_id_split by auto. rewrite <- Eo. exact dAB.
    + rewrite remove_id_notin by auto. apply dseg_keep; auto. intros y Hy. split.
      * eapply kid_live; eauto.
      * apply (other_run (Some q) (kidsf F q)); auto; [discriminate | intros q' E; inversion E; auto].
  - intros q. cbn [kidsf F1 f_detach]. intros H. apply live'. apply (r_owner _ _ HR).
    intros E. rewrite E in H. apply H. reflexivity.
  - intros c Hc. cbn [tops F1 f_detach] in Hc. destruct Hc as [<-|Hc].
    + split; [discriminate|]. split; [|repeat constructor; intros []].
      destruct (Hlive x n Lx Hn) as (m' & Hm' & P1 & P2 & P3 & _).
      rewrite nid_eqb_refl in P1, P2, P3. rewrite x_ne_nx in P2. rewrite x_ne_pv in P3.
      exists m'. repeat split; auto.
    + apply in_filter_nonempty in Hc. destruct Hc as [Hc Hne]. split; auto.
      apply in_map_iff in Hc. destruct Hc as (c0 & <- & Hc0).
      destruct (r_tops _ _ HR c0 Hc0) as (_ & Hd & Hq).
      split; [|apply NoDup_filter; auto].
      destruct (in_dec nid_dec x c0) as [Hx|Hx].
      * destruct (top_parent a F HR x c0 Hc0 Hx) as (m & Hm & Pm).
        rewrite <- (node_at_fun _ _ _ _ Hn Hm) in Pm.
        assert (c0 = cx).
        { pose proof Ppos as Pp. rewrite Pm in Pp. destruct (r_tops _ _ HR _ Pp) as (_ & D1 & _).
          apply (dseg_unique a None None c0 cx x Hd D1 Hx x_in_cx). }
        subst c0. unfold cx. rewrite remove_id_split by auto.
        pose proof dAB as HdAB. unfold o in HdAB. rewrite Pm in HdAB. exact HdAB.
      * rewrite remove_id_notin by auto. apply dseg_keep; auto. intros y Hy. split.
        -- apply (r_live _ _ HR). right. eauto.
        -- apply (other_run None c0); auto. discriminate.
  - intros q m' Lq Hm'. apply live' in Lq. destruct Lq as (m & Hm & Sm & Gm).
    assert (Lq : live a q) by (exists m; auto).
    destruct (Hlive q m Lq Hm) as (m2 & Hm2 & _ & _ & _ & P4 & P5).
    rewrite (node_at_fun _ _ _ _ Hm' Hm2). rewrite P4, P5.
    destruct (r_ends _ _ HR q m Lq Hm) as [E1 E2]. cbn [kidsf F1 f_detach].
    destruct (onid_eqb (Some q) o) eqn:Eqo.
    + apply onid_eqb_eq in Eqo. unfold o in Eqo. rewrite <- Eqo in Ppos. rewrite Ppos.
      rewrite remove_id_split by auto. split; reflexivity.
    + rewrite remove_id_notin; auto. intros Hx. rewrite (x_kid_o q Hx) in Eqo.
      rewrite (proj2 (onid_eqb_eq _ _) eq_refl) in Eqo. discriminate.
  - intros y Hy. apply member1 in Hy. destruct (r_depth _ _ HR y Hy) as (d & Hd). eapply depth1; eauto.
  - intros i m' Hm' Hneg. destruct Hshape as (Len & _ & _ & HS).
    destruct (nth_error (nodes a) i) as [m|] eqn:Em.
    2:{ apply nth_error_None in Em. assert (i < length (nodes a')) by (apply nth_error_Some; congruence). lia. }
    destruct (HS _ _ Em) as (m2 & Hm2 & St & _). rewrite Hm' in Hm2. inversion Hm2; subst m2.
    destruct (Hdead i m Em) as (m3 & Hm3 & L1 & L2 & L3 & L4 & L5); [lia|].
    rewrite Hm' in Hm3. inversion Hm3; subst m3.
    destruct (r_dead _ _ HR i m Em) as (Z1 & Z2 & Z3 & Z4 & Z5); [lia|].
    repeat split; congruence.
Qed.
End Detach.

Theorem detach_refines_own : forall a F x, Repr a F -> live a x ->
  exists a', detach false x a = (a', Ok tt) /\ Repr a' (f_detach x F) /\ same_shape a a'.
Proof.
  intros a F x HR Lx. destruct (Lx) as (n & Hn & Sn & Gn).
  destruct (position a F x n HR Lx Hn) as (A & B & HA & HB & Hnd & Pv & Px & Ppos).
  eexists. eapply (detach_repr_own a F x n A B); eauto.
Qed.


Theorem remove_refines : forall a F x, Repr a F -> live a x -> lfree_ok a ->
  exists a1 a' old, same_shape a a1 /\ free_node false x a1 = (a', Ok old) /\
                    remove false x a = (a', Ok old) /\ Repr a' (f_remove x F).
Proof.
  intros a F x HR Lx Hl.
  destruct (Lx) as (n & Hn & Sn & Gn).
  destruct (position a F x n HR Lx Hn) as (A & B & HA & HB & Hnd & Pv & Px & Ppos).
  destruct (r_ends _ _ HR x n Lx Hn) as [Pf Pl].
  destruct (detach_refines_own a F x HR Lx) as (a1 & E1 & R1 & Sh1).
  assert (HxAB : ~ In x (A ++ B)) by (intros H; apply in_app_or in H; tauto).
  assert (Hxk : ~ In x (kidsf F x)).
  { intros H. eapply (anc_kid_irrefl a F x x); eauto. constructor. }
  (* the prefix of [remove] up to the splice *)
  assert (Hpre : forall k : M (option N),
     remove false x a =
     ((match first n, last n with
       | Some f, Some l =>
           detach_from_siblings false f l ;;;
           r <- transplant false f l (parent n) (prev n) (next n) ;; expect r
       | _, _ => ret tt
       end ;;;
       old <- free_node false x ;; n' <- rdi x ;; dassert false (node_is_detached n') ;;; ret old)%mon a1)).
  { intros _. unfold remove. cbn [when_dbg].
    rewrite bind_ret.
    erewrite bind_ok by (unfold rdi; apply rd_ok; exact Hn).
    rewrite Pf, Pl.
    assert (Eb : Bool.eqb (is_some (hd_error (kidsf F x))) (is_some (last_error (kidsf F x))) = true)
      by (destruct (kidsf F x); reflexivity).
    rewrite Eb. rewrite bind_ret.
    erewrite bind_ok by apply E1. reflexivity. }
  rewrite (Hpre (ret None)). clear Hpre.
  (* the tail after free_node *)
  assert (Htail : forall b b' old, free_node false x b = (b', Ok old) ->
            length (nodes b') = length (nodes a) ->
            (old <- free_node false x ;; n' <- rdi x ;; dassert false (node_is_detached n') ;;; ret old)%mon b
            = (b', Ok old)).
  { intros b b' old E Len. erewrite bind_ok by apply E.
    assert (I : inr b' x) by (unfold inr; rewrite Len; apply live_in_range; auto).
    rewrite bind_rdi by auto. reflexivity. }
  rewrite Pf, Pl.
  destruct (kidsf F x) as [|f Ks'] eqn:EK.
  - (* no children *)
    cbn [hd_error last_error]. rewrite bind_ret.
    destruct (free_node_repr a1 (kidsf (f_detach x F)) (filter nonempty (map (remove_id x) (tops F))) x)
      as (a' & old & E2 & R2 & Len2); auto.
    + apply detach_tops_no_x.
    + cbn [kidsf f_detach]. now rewrite EK.
    + eapply same_shape_lfree_ok; eauto.
    + exists a1, a', old. split; auto. split; auto. split.
      * apply Htail; auto. rewrite Len2. apply Sh1.
      * eapply Repr_ext; [exact R2| |].
        -- intros p. cbn [kidsf f_detach f_remove]. rewrite EK. rewrite subst_nil_remove.
           destruct (nid_eqb p x) eqn:Ep; auto. apply nid_eqb_eq in Ep. subst p. now rewrite EK.
        -- intros c. cbn [tops f_remove]. rewrite EK.
           rewrite (map_ext (subst_id x []) (remove_id x)) by (intros; apply subst_nil_remove). reflexivity.
  - (* children f :: Ks' are spliced into x's place *)
    cbn [hd_error last_error].
    set (Ks := f :: Ks'). set (l := List.last Ks' f).
    assert (HKx : kidsf (f_detach x F) x = Ks).
    { cbn [kidsf f_detach]. rewrite EK. apply remove_id_notin. exact Hxk. }
    assert (Hpos : match parent n with
                   | Some p => kidsf (f_detach x F) p = A ++ B /\ live a1 p /\ ~ ancF (f_detach x F) p x
                   | None => A ++ B = [] \/ In (A ++ B) (tops (f_detach x F))
                   end).
    { destruct (parent n) as [p|].
      - split; [cbn [kidsf f_detach]; rewrite Ppos; now apply remove_id_split|]. split.
        + apply (same_shape_live a); auto. apply (r_owner _ _ HR). rewrite Ppos. destruct A; discriminate.
        + intros Ha. apply anc_detach_sub in Ha. eapply (anc_kid_irrefl a F x p); eauto.
          rewrite Ppos. apply in_or_app. right. now left.
      - destruct (A ++ B) as [|z r] eqn:EAB; [now left|]. right. rewrite <- EAB.
        cbn [tops f_detach]. right. apply in_filter_nonempty. split; [|rewrite EAB; discriminate].
        apply in_map_iff. exists (A ++ x :: B). split; auto. now apply remove_id_split. }
    destruct (splice_exec a1 (f_detach x F) x f Ks' (parent n) A B R1 (or_introl eq_refl) HKx HxAB Hpos)
      as (a3 & E3 & Sh3 & Hlive3 & Hdead3).
    rewrite <- Pv, <- Px in E3. fold l in E3.
    erewrite bind_ok by apply E3.
    set (G' := mkForest (kidsf (f_remove x F)) ([x] :: tops (f_remove x F))).
    assert (R3 : Repr a3 G').
    { apply (splice_repr a1 (f_detach x F) x f Ks' (parent n) A B R1 (or_introl eq_refl) HKx HxAB Hpos a3 G');
        auto.
      - (* kidsf *)
        intros q. cbn [kidsf G' f_remove f_detach]. rewrite EK. fold Ks.
        destruct (nid_eqb q x) eqn:Eqx; auto.
        destruct (onid_eqb (Some q) (parent n)) eqn:Eqo.
        + apply onid_eqb_eq in Eqo. rewrite <- Eqo in Ppos. rewrite Ppos. now apply subst_id_split.
        + assert (Hnx : ~ In x (kidsf F q)).
          { intros H. destruct (kid_parent a F HR x q H) as (m & Hm & Pm).
            rewrite (node_at_fun _ _ _ _ Hn Hm) in Eqo. rewrite Pm in Eqo.
            rewrite (proj2 (onid_eqb_eq _ _) eq_refl) in Eqo. discriminate. }
          rewrite subst_id_notin by auto. now rewrite remove_id_notin.
      - (* tops *)
        assert (Fa : parent n = None -> In (A ++ x :: B) (tops F)).
        { intros E. now rewrite E in Ppos. }
        assert (Fb : forall c0, In c0 (tops F) -> In x c0 -> parent n = None /\ c0 = A ++ x :: B).
        { intros c0 Hc0 Hx0. destruct (top_parent a F HR x c0 Hc0 Hx0) as (m & Hm & Pm).
          rewrite <- (node_at_fun _ _ _ _ Hn Hm) in Pm. split; auto.
          destruct (r_tops _ _ HR c0 Hc0) as (_ & D0 & _).
          destruct (r_tops _ _ HR _ (Fa Pm)) as (_ & D1 & _).
          eapply dseg_unique; eauto. apply in_or_app. right. now left. }
        intros c. cbn [tops G' f_remove f_detach]. rewrite EK. fold Ks. split.
        + intros [Hc|Hc]; [left; auto|].
          apply in_filter_nonempty in Hc. destruct Hc as [Hc Hne].
          apply in_map_iff in Hc. destruct Hc as (c0 & Ec & Hc0).
          destruct (in_dec nid_dec x c0) as [Hx0|Hx0].
          * destruct (Fb c0 Hc0 Hx0) as [Eo ->]. right. left. split; auto.
            rewrite <- Ec. now apply subst_id_split.
          * rewrite subst_id_notin in Ec by auto. subst c0. right. right. split; [|split].
            -- right. apply in_filter_nonempty. split; auto. apply in_map_iff. exists c. split; auto.
               now apply remove_id_notin.
            -- intros ->. apply Hx0. now left.
            -- intros Eo Ecab. destruct c as [|z r]; [congruence|].
               destruct (r_tops _ _ HR _ Hc0) as (_ & D0 & _).
               destruct (r_tops _ _ HR _ (Fa Eo)) as (_ & D1 & _).
               assert (z :: r = A ++ x :: B).
               { apply (dseg_unique a None None _ _ z D0 D1); [now left|].
                 assert (Hz : In z (A ++ B)) by (rewrite <- Ecab; now left).
                 apply in_app_or in Hz. apply in_or_app. destruct Hz; [now left | right; now right]. }
               apply Hx0. rewrite H. apply in_or_app. right. now left.
        + intros [->|[(Eo & ->)|(Hc & Hne & Hab)]]; [now left| |].
          * right. apply in_filter_nonempty. split; [|unfold Ks; destruct A; discriminate].
            apply in_map_iff. exists (A ++ x :: B). split; [now apply subst_id_split | auto].
          * destruct Hc as [Hc|Hc]; [congruence|].
            apply in_filter_nonempty in Hc. destruct Hc as [Hc Hne2].
            apply in_map_iff in Hc. destruct Hc as (c0 & Ec & Hc0).
            destruct (in_dec nid_dec x c0) as [Hx0|Hx0].
            -- destruct (Fb c0 Hc0 Hx0) as [Eo ->]. exfalso. apply (Hab Eo).
               rewrite <- Ec. now apply remove_id_split.
            -- rewrite remove_id_notin in Ec by auto. subst c0. right.
               apply in_filter_nonempty. split; auto. apply in_map_iff. exists c. split; auto.
               now apply subst_id_notin. }
    destruct (free_node_repr a3 (kidsf (f_remove x F)) (tops (f_remove x F)) x R3)
      as (a' & old & E4 & R4 & Len4).
    + intros c Hc Hx. cbn [tops f_remove] in Hc. apply in_filter_nonempty in Hc. destruct Hc as [Hc _].
      apply in_map_iff in Hc. destruct Hc as (c0 & <- & _). apply in_subst_id in Hx.
      destruct Hx as [[_ Hx]|[_ Hx]]; [congruence|]. rewrite EK in Hx. auto.
    + cbn [kidsf f_remove]. now rewrite nid_eqb_refl.
    + eapply same_shape_lfree_ok; [|exact Hl]. eapply same_shape_trans; eauto.
    + exists a3, a', old. split; [eapply same_shape_trans; eauto|]. split; auto. split.
      * apply Htail; auto. rewrite Len4. destruct Sh3 as (L3 & _). destruct Sh1 as (L1 & _). congruence.
      * exact R4.
Qed.

(* ====================================================================== *)
(* remove_subtree                                                          *)
(* ====================================================================== *)


Theorem remove_subtree_refines : forall a F x, Repr a F -> live a x -> lfree_ok a ->
  let D := preorderF (length (nodes a)) F x in
  exists a1 a' olds, same_shape a a1 /\ NoDup (map idx D) /\ (forall y, In y D -> live a1 y) /\
                     free_all false D a1 = (a', Ok olds) /\
                     remove_subtree false x a = (a', Ok (D, olds)) /\
                     Repr a' (f_remove_subtree x D F).
Proof.
  intros a F x HR Lx Hl D.
  destruct (detach_refines_own a F x HR Lx) as (a1 & E1 & R1 & Sh).
  assert (Len : length (nodes a1) = length (nodes a)) by apply Sh.
  assert (Lx1 : live a1 x) by (eapply live_detached; eauto).
  assert (ED : preorderF (length (nodes a1)) (f_detach x F) x = D).
  { rewrite Len. apply (preorder_detach a F x HR Lx). constructor. }
  destruct (repr_tree a1 _ x R1 Lx1) as ((_ & Hnd) & _ & Hids & Hall).
  rewrite Hids, ED in Hnd. rewrite Hids, ED in Hall.
  assert (Hl1 : lfree_ok a1) by (eapply same_shape_lfree_ok; eauto).
  destruct (free_all_exec D a1 Hnd) as (a' & olds & E2 & _ & HS); auto.
  { intros y Hy. apply live_in_range. now apply Hall. }
  exists a1, a', olds. split; auto. split; auto. split; [intros y Hy; now apply Hall|]. split; auto. split.
  - unfold remove_subtree. erewrite bind_ok by apply E1.
    erewrite bind_ok by (unfold lift; rewrite (repr_descendants a1 _ x R1 Lx1), ED; reflexivity).
    erewrite bind_ok by apply E2. reflexivity.
  - unfold f_remove_subtree.
    pose proof (prune_repr a1 a' (fun p => remove_id x (kidsf F p))
                  (filter nonempty (map (remove_id x) (tops F))) x R1 (detach_tops_no_x x F)) as HPr.
    change (mkForest (fun p => remove_id x (kidsf F p)) ([x] :: filter nonempty (map (remove_id x) (tops F))))
      with (f_detach x F) in HPr.
    rewrite ED in HPr. apply HPr. exact HS.
Qed.

Print Assumptions remove_refines.
Print Assumptions remove_subtree_refines.
Print Assumptions detach_refines_own.
