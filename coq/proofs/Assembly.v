(* Assembly.v — the global invariant [WF] (the arena represents a forest and the allocation
   invariant holds) is preserved by every valid call, and what every valid call returns and does.
   Release semantics (dbg = false).  Built on the refinement theorems of ReprInsert.v /
   ReprRemove.v and the allocation theorems of AllocProofs.v. *)
From IT Require Import Props.
From IT.proofs Require Import Layer1 ReprBase ReprInsert.
From IT.proofs Require AllocProofs ReprTree ReprRemove.
Require Import Lia.
Local Open Scope nat_scope.

(* ====================================================================== *)
(* Part 1.  The invariant is preserved by every valid call                 *)
(* ====================================================================== *)

(* ---------- the initial world ---------- *)
Lemma Repr_empty : Repr empty_arena empty_forest.
Proof.
  constructor.
  - intros x. split.
    + intros [[p []]|(c & [] & _)].
    + intros (n & H & _). unfold node_at in H. cbn in H. destruct (idx x); discriminate.
  - intros p. split; [exact I | constructor].
  - intros p H. now contradiction H.
  - intros c [].
  - intros p n (m & H & _). unfold node_at in H; cbn in H. destruct (idx p); discriminate.
  - intros x [[p []]|(c & [] & _)].
  - intros i n H. destruct i; discriminate.
Qed.

Lemma WF_init : WF init.
Proof. split; [exists empty_forest; apply Repr_empty | apply AllocProofs.AllocOK_init]. Qed.

Lemma WF_eta : forall w, WF w -> WF (mkWorld (ar w) (issued w) (removed w) (dropped w)).
Proof. intros w H. now rewrite AllocProofs.world_eta. Qed.

Lemma WF_shape : forall w F' a', AllocOK w -> Repr a' F' -> same_shape (ar w) a' ->
  WF (mkWorld a' (issued w) (removed w) (dropped w)).
Proof. intros w F' a' OK R' S. split; [exists F'; exact R' | now apply AllocProofs.AllocOK_same_shape]. Qed.

Lemma FreeOK_lfree_ok : forall a FL, FreeOK a FL -> ReprRemove.lfree_ok a.
Proof.
  intros a FL (_ & HL & _ & HR). unfold ReprRemove.lfree_ok. rewrite HL.
  destruct (last_error FL) as [i|] eqn:E; auto.
  apply last_error_In in E. apply HR in E. destruct E as (n & Hn & _).
  apply nth_error_Some. congruence.
Qed.

Lemma AllocOK_lfree_ok : forall w, AllocOK w -> ReprRemove.lfree_ok (ar w).
Proof. intros w OK. destruct (al_free _ OK) as (FL & FO). eapply FreeOK_lfree_ok; eauto. Qed.

(* ---------- abstract facts about f_new ---------- *)
Lemma new_member : forall F x y, memberF (f_new x F) y <-> y = x \/ memberF F y.
Proof.
  intros F x y. unfold memberF. cbn [f_new kidsf tops]. split.
  - intros [H|(c & [<-|Hc] & Hy)]; auto.
    + destruct Hy as [<-|[]]. auto.
    + right. right. eauto.
  - intros [->|[H|(c & Hc & Hy)]]; auto.
    + right. exists [x]. split; now left.
    + right. exists c. split; auto. now right.
Qed.

Lemma new_depth : forall F x y d, depthF F y d -> depthF (f_new x F) y d.
Proof.
  induction 1.
  - eapply depth_top; eauto. cbn. now right.
  - eapply depth_kid; eauto.
Qed.

Lemma anc_owner : forall F y z, ancF F y z -> y = z \/ kidsf F z <> [].
Proof.
  induction 1 as [|y p z Hy Hp IH]; auto. right. destruct IH as [->|IH]; auto.
  intros E. rewrite E in Hy. destruct Hy.
Qed.

(* ---------- a fresh slot is a lone root ---------- *)
Section NewRoot.
Variables (a a' : arena) (F : forest) (x : nid) (d : ndata).
Hypothesis R : Repr a F.
Hypothesis Hx : node_at a' x (fresh_node (gen x) d).
Hypothesis Hg : (0 <= gen x)%Z.
Hypothesis Ho : forall j, j <> idx x -> nth_error (nodes a') j = nth_error (nodes a) j.
Hypothesis Hnl : forall y, live a y -> idx y <> idx x.

Lemma nr_live_x : live a' x.
Proof. exists (fresh_node (gen x) d). repeat split; auto. Qed.

Lemma nr_not_live : ~ live a x.
Proof. intros L. now apply (Hnl x L). Qed.

Lemma nr_node_old : forall y n, live a y -> (node_at a' y n <-> node_at a y n).
Proof. intros y n L. unfold node_at. rewrite Ho by (now apply Hnl). tauto. Qed.

Lemma nr_live : forall y, live a' y <-> y = x \/ live a y.
Proof.
  intros y. split.
  - intros L. destruct (Nat.eq_dec (idx y) (idx x)) as [E|E].
    + left. eapply live_inj; eauto using nr_live_x.
    + right. destruct L as (n & H & S). exists n. split; auto. unfold node_at in *. now rewrite <- Ho.
  - intros [->|L]; [apply nr_live_x|]. pose proof L as (n & H & S). exists n. split; auto.
    now apply nr_node_old.
Qed.

Lemma nr_kids_x : kidsf F x = [].
Proof.
  destruct (kidsf F x) eqn:E; auto. exfalso. apply nr_not_live. apply (r_owner _ _ R).
  rewrite E. discriminate.
Qed.

Lemma nr_dseg : forall o L, (forall y, In y L -> live a y) ->
  dseg a o None L None -> dseg a' o None L None.
Proof.
  intros o L HL. apply ReprRemove.dseg_transfer. intros y n Hy Hn. exists n. split; auto.
  apply nr_node_old; auto.
Qed.

Lemma nr_repr : Repr a' (f_new x F).
Proof.
  constructor.
  - intros y. rewrite new_member, nr_live, (r_live _ _ R). tauto.
  - intros p. cbn [f_new kidsf]. destruct (r_kids _ _ R p) as [D N]. split; auto.
    apply nr_dseg; auto. intros y Hy. eapply kid_live; eauto.
  - intros p H. cbn [f_new kidsf] in H. apply nr_live. right. now apply (r_owner _ _ R).
  - intros c Hc. cbn [f_new tops] in Hc. destruct Hc as [<-|Hc].
    + split; [discriminate|]. split; [|repeat constructor; auto].
      cbn [dseg]. exists (fresh_node (gen x) d). repeat split; auto.
    + destruct (r_tops _ _ R c Hc) as (N1 & D & N3). split; auto. split; auto.
      apply nr_dseg; auto. intros y Hy. eapply top_live; eauto.
  - intros p n L Hn. cbn [f_new kidsf]. apply nr_live in L. destruct L as [->|L].
    + unfold node_at in *. rewrite Hx in Hn. inversion Hn; subst n. rewrite nr_kids_x. auto.
    + apply (r_ends _ _ R p n L). now apply nr_node_old.
  - intros y My. apply new_member in My. destruct My as [->|My].
    + exists 0. apply depth_top with (c := [x]); cbn; auto.
    + destruct (r_depth _ _ R y My) as [d0 Hd]. exists d0. now apply new_depth.
  - intros i n Hn S. destruct (Nat.eq_dec i (idx x)) as [->|E].
    + unfold node_at in Hx. rewrite Hx in Hn. inversion Hn; subst n. cbn in S. lia.
    + rewrite Ho in Hn by auto. eapply (r_dead _ _ R); eauto.
Qed.
End NewRoot.

(* everything about new_node in one statement *)
Lemma new_full : forall w F v, Repr (ar w) F -> AllocOK w ->
  exists a' x, new_node false v (ar w) = (a', Ok x) /\ Repr a' (f_new x F) /\ ~ live (ar w) x /\
    ~ In x (issued w) /\ live a' x /\
    AllocOK (mkWorld a' (issued w ++ [x]) (removed w) (dropped w)).
Proof.
  intros w F v R OK. destruct (al_free _ OK) as (FL & FO).
  destruct (AllocProofs.new_node_spec w v FL OK FO) as (a' & x & E & NI & LX & HX & HO & HFL & OK').
  assert (NL : ~ live (ar w) x).
  { intros (n & Hn & S & G). apply NI. pose proof (al_live _ OK (idx x) n Hn) as H.
    rewrite S in H. destruct x as [i g]; cbn in H, G. apply H; exact G. }
  assert (Hnl : forall y, live (ar w) y -> idx y <> idx x).
  { intros y L E'. destruct FL as [|i FL'].
    - destruct HFL as (E1 & _). apply live_inr in L. unfold inr in L. lia.
    - destruct HFL as (_ & SR & _).
      assert (SR' : slot_removed (ar w) y).
      { destruct SR as (n & Hn & S). exists n. unfold node_at in *. rewrite E'. auto. }
      eapply live_not_removed; eauto. }
  assert (G : (0 <= gen x)%Z) by (destruct LX as (n & _ & _ & G); exact G).
  exists a', x. split; [exact E|]. split; [|auto].
  apply (nr_repr (ar w) a' F x (Data v)); auto.
Qed.

Theorem new_node_refines : forall w F v, Repr (ar w) F -> AllocOK w ->
  exists a' x, new_node false v (ar w) = (a', Ok x) /\ Repr a' (f_new x F) /\ ~ live (ar w) x.
Proof.
  intros w F v R OK. destruct (new_full w F v R OK) as (a' & x & E & R' & NL & _).
  exists a', x. auto.
Qed.

(* ---------- append_value ---------- *)
Lemma append_full : forall w F p v, Repr (ar w) F -> AllocOK w -> live (ar w) p ->
  exists a1 a' x, new_node false v (ar w) = (a1, Ok x) /\ append_value false p v (ar w) = (a', Ok x) /\
    Repr a1 (f_new x F) /\ Repr a' (f_append_value p x F) /\ ~ live (ar w) x /\ same_shape a1 a' /\
    live a1 p /\ live a1 x /\ p <> x /\ ~ ancF (f_new x F) p x /\
    AllocOK (mkWorld a1 (issued w ++ [x]) (removed w) (dropped w)) /\
    AllocOK (mkWorld a' (issued w ++ [x]) (removed w) (dropped w)).
Proof.
  intros w F p v R OK Lp.
  destruct (new_full w F v R OK) as (a1 & x & E1 & R1 & NL & NI & LX & OK1).
  assert (Lp1 : live a1 p).
  { apply (r_live _ _ R1). apply new_member. right. now apply (r_live _ _ R). }
  assert (NE : p <> x) by (intros ->; contradiction).
  assert (NA : ~ ancF (f_new x F) p x).
  { intros H. apply anc_owner in H. destruct H as [->|H]; [now apply NE|].
    cbn [f_new kidsf] in H. apply NL. now apply (r_owner _ _ R). }
  assert (Nx : next (nd a1 x) = None).
  { assert (H : sibs (f_new x F) None ([] ++ x :: [])) by (cbn; now left).
    destruct (sibs_mid a1 _ R1 _ _ _ _ H) as [_ N]. exact N. }
  assert (El : last (nd a1 p) = last_error (kidsf F p)).
  { destruct (ends_of a1 _ R1 p Lp1) as [_ H]. exact H. }
  set (a' := amap (iluF a1 x p) a1).
  assert (Eapp : append_value false p v (ar w) = (a', Ok x)).
  { unfold append_value. rewrite bind_rdi by (now apply live_inr).
    unfold node_is_removed, st_is_removed. rewrite (live_ltb _ _ Lp). cbv iota.
    rewrite bind_ret. erewrite bind_ok by exact E1.
    erewrite bind_ok.
    2:{ apply ilu_ok; auto.
        - now apply live_inr.
        - now apply live_inr.
        - apply (link_inr a1 _ R1 p Flast Lp1).
        - apply nid_eqb_neq. congruence. }
    reflexivity. }
  assert (R' : Repr a' (f_append_value p x F)).
  { unfold a', iluF. rewrite El.
    apply (gp_repr a1 (f_new x F) x (tops F) (Some p) (kidsf F p) [] (f_append_value p x F)); auto.
    - intros ch H I. apply NL. eapply top_live; eauto.
    - cbn [f_new kidsf]. split; [now rewrite app_nil_r | auto].
    - intros q. cbn [f_append_value kidsf onid_eqb f_new]. rewrite (nid_eqb_sym p q).
      destruct (nid_eqb q p) eqn:E; auto. apply nid_eqb_eq in E. now subst.
    - intros ch. cbn [f_append_value tops]. split.
      + intros H. right. split; auto. discriminate.
      + intros [[E _]|[H _]]; [discriminate | auto]. }
  assert (S' : same_shape a1 a') by (apply same_shape_amap, links_only_iluF).
  assert (OK' : AllocOK (mkWorld a' (issued w ++ [x]) (removed w) (dropped w))).
  { eapply AllocProofs.append_value_alloc; eauto. }
  exists a1, a', x. tauto.
Qed.

Theorem append_value_refines : forall w F p v, Repr (ar w) F -> AllocOK w -> live (ar w) p ->
  exists a' x, append_value false p v (ar w) = (a', Ok x) /\ Repr a' (f_append_value p x F) /\ ~ live (ar w) x.
Proof.
  intros w F p v R OK Lp.
  destruct (append_full w F p v R OK Lp) as (a1 & a' & x & _ & E & _ & R' & NL & _).
  exists a', x. auto.
Qed.

Theorem append_value_removed : forall w p v, AllocOK w -> slot_removed (ar w) p ->
  append_value false p v (ar w) = (ar w, Panic P_PRECOND).
Proof.
  intros w p v _ SR. unfold append_value. rewrite bind_rdi by (now apply slot_removed_inr).
  unfold node_is_removed, st_is_removed. rewrite (removed_ltb _ _ SR). reflexivity.
Qed.

(* ---------- writing a payload ---------- *)
Lemma Repr_same_links : forall a a' F, Repr a F -> length (nodes a') = length (nodes a) ->
  (forall i n, nth_error (nodes a) i = Some n ->
     exists n', nth_error (nodes a') i = Some n' /\ stamp n' = stamp n /\
       parent n' = parent n /\ prev n' = prev n /\ next n' = next n /\ first n' = first n /\ last n' = last n) ->
  Repr a' F.
Proof.
  intros a a' F R LEN H.
  assert (INV : forall i n', nth_error (nodes a') i = Some n' ->
     exists n, nth_error (nodes a) i = Some n /\ stamp n' = stamp n /\
       parent n' = parent n /\ prev n' = prev n /\ next n' = next n /\ first n' = first n /\ last n' = last n).
  { intros i n' Hn'. destruct (nth_error (nodes a) i) as [n|] eqn:E.
    - destruct (H _ _ E) as (m & Hm & P). rewrite Hm in Hn'. inversion Hn'; subst m. eauto.
    - apply nth_error_None in E. assert (nth_error (nodes a') i <> None) by congruence.
      apply nth_error_Some in H0. lia. }
  assert (LV : forall y, live a' y <-> live a y).
  { intros y. split.
    - intros (n' & Hn' & S). destruct (INV _ _ Hn') as (n & Hn & S' & _). exists n. split; auto.
      now rewrite <- S'.
    - intros (n & Hn & S). destruct (H _ _ Hn) as (n' & Hn' & S' & _). exists n'. split; auto.
      now rewrite S'. }
  assert (TR : forall o L, dseg a o None L None -> dseg a' o None L None).
  { intros o L. apply ReprRemove.dseg_transfer. intros y n _ Hn.
    destruct (H _ _ Hn) as (n' & Hn' & _ & P1 & P2 & P3 & _). exists n'. auto. }
  constructor.
  - intros y. rewrite LV. apply (r_live _ _ R).
  - intros p. destruct (r_kids _ _ R p). auto.
  - intros p Hp. apply LV. now apply (r_owner _ _ R).
  - intros c Hc. destruct (r_tops _ _ R c Hc) as (N1 & D & N3). auto.
  - intros p n' L Hn'. apply LV in L. destruct (INV _ _ Hn') as (n & Hn & _ & _ & _ & _ & F1 & F2).
    rewrite F1, F2. apply (r_ends _ _ R p n L Hn).
  - apply (r_depth _ _ R).
  - intros i n' Hn' S. destruct (INV _ _ Hn') as (n & Hn & S' & P1 & P2 & P3 & P4 & P5).
    rewrite P1, P2, P3, P4, P5. apply (r_dead _ _ R i n Hn). now rewrite <- S'.
Qed.

Lemma write_full : forall w F x v, Repr (ar w) F -> AllocOK w -> live (ar w) x ->
  exists a' old, write_payload x v (ar w) = (a', Ok old) /\ Repr a' F /\
    AllocOK (mkWorld a' (issued w) (removed w) (dropped w ++ [old])).
Proof.
  intros w F x v R OK L. destruct (al_free _ OK) as (FL & FO).
  destruct (AllocProofs.write_payload_spec w x v FL OK FO L)
    as (a' & old & n & E & Hn & _ & Hn' & HO & LEN & _ & _ & _ & OK').
  exists a', old. split; auto. split; auto.
  apply (Repr_same_links (ar w)); auto.
  intros i m Hm. destruct (Nat.eq_dec i (idx x)) as [->|NE].
  - unfold node_at in *. rewrite Hn in Hm. inversion Hm; subst m.
    exists (set_data (Data v) n). repeat split; auto.
  - exists m. rewrite HO by auto. repeat split; auto.
Qed.

Theorem write_refines : forall w F x v, Repr (ar w) F -> AllocOK w -> live (ar w) x ->
  exists a' old, write_payload x v (ar w) = (a', Ok old) /\ Repr a' F.
Proof.
  intros w F x v R OK L. destruct (write_full w F x v R OK L) as (a' & old & E & R' & _). eauto.
Qed.

(* ---------- remove, remove_subtree ---------- *)
Lemma remove_full : forall w F x, Repr (ar w) F -> AllocOK w -> live (ar w) x ->
  exists a' old, remove false x (ar w) = (a', Ok old) /\ Repr a' (f_remove x F) /\
    AllocOK (mkWorld a' (issued w) (removed w ++ [x]) (dropped w ++ olist old)).
Proof.
  intros w F x R OK L.
  destruct (ReprRemove.remove_refines (ar w) F x R L (AllocOK_lfree_ok w OK))
    as (a1 & a' & old & _ & _ & E & R').
  exists a', old. split; auto. split; auto.
  pose proof (AllocProofs.remove_alloc w x a' (Ok old) OK L E) as H. cbv beta iota in H.
  destruct H as (v & -> & _ & _ & H). exact H.
Qed.

Lemma remove_subtree_full : forall w F x, Repr (ar w) F -> AllocOK w -> live (ar w) x ->
  let D := preorderF (length (nodes (ar w))) F x in
  exists a' olds, remove_subtree false x (ar w) = (a', Ok (D, olds)) /\
    Repr a' (f_remove_subtree x D F) /\
    AllocOK (mkWorld a' (issued w) (removed w ++ D) (dropped w ++ olds)).
Proof.
  intros w F x R OK L D.
  destruct (ReprRemove.remove_subtree_refines (ar w) F x R L (AllocOK_lfree_ok w OK))
    as (a1 & a' & olds & Sh & ND & LD & _ & E & R'). fold D in ND, LD, E, R'.
  exists a', olds. split; auto. split; auto.
  assert (SIDE : forall a1' D', detach false x (ar w) = (a1', Ok tt) -> descendants x a1' = Ok D' ->
            (forall y, In y D' -> live a1' y) /\ NoDup (map idx D')).
  { intros a1' D' Ed Edesc. pose proof E as E2. unfold remove_subtree in E2.
    erewrite bind_ok in E2 by exact Ed.
    erewrite bind_ok in E2 by (unfold lift; rewrite Edesc; reflexivity).
    unfold bind in E2. destruct (free_all false D' a1') as [a2 [o|c|]]; try discriminate.
    unfold ret in E2. inversion E2; subst. split; auto.
    intros y Hy. apply AllocProofs.shape_detach in Ed.
    apply (live_same_shape (ar w) a1' y Ed). apply (live_same_shape (ar w) a1 y Sh). now apply LD. }
  pose proof (AllocProofs.remove_subtree_alloc w x a' (Ok (D, olds)) OK SIDE E) as H.
  cbv beta iota in H. apply H.
Qed.

(* ---------- every valid step keeps the invariant ---------- *)
Theorem step_WF : forall w o, WF w -> valid_op (ar w) o -> WF (fst (step false w o)).
Proof.
  intros w o [[F R] OK] V.
  destruct o as [v|p v|k chk x c|x|x|x|x v| |n]; cbn [valid_op] in V; cbn [step].
  - destruct (new_full w F v R OK) as (a' & x & E & R' & _ & _ & _ & OK'). rewrite E. cbn [fst].
    split; [exists (f_new x F); exact R' | exact OK'].
  - destruct V as [L|SR].
    + destruct (append_full w F p v R OK L) as (a1 & a' & x & _ & E & _ & R' & _ & _ & _ & _ & _ & _ & _ & OK').
      rewrite E. cbn [fst]. split; [exists (f_append_value p x F); exact R' | exact OK'].
    + rewrite (append_value_removed w p v OK SR). cbn [fail_out fst]. apply WF_eta. split; eauto.
  - destruct V as [Ux Uc].
    destruct (impossible_dec (ar w) F k x c R Ux Uc) as [I|NI]; destruct chk.
    + destruct (checked_insert_refines (ar w) F k x c R Ux Uc) as [H _].
      destruct (H I) as (e & E & _). rewrite E. cbn [fst]. apply WF_eta. split; eauto.
    + destruct (unchecked_insert_refines (ar w) F k x c R Ux Uc) as [H _].
      rewrite (H I). cbn [fail_out fst]. apply WF_eta. split; eauto.
    + destruct (checked_insert_refines (ar w) F k x c R Ux Uc) as [_ H].
      destruct (H NI) as (a' & E & R' & S'). rewrite E. cbn [fst]. eapply WF_shape; eauto.
    + destruct (unchecked_insert_refines (ar w) F k x c R Ux Uc) as [_ H].
      destruct (H NI) as (a' & E & R' & S' & _). rewrite E. cbn [fst]. eapply WF_shape; eauto.
  - destruct (detach_refines (ar w) F x R V) as (a' & E & R' & S'). rewrite E. cbn [fst].
    eapply WF_shape; eauto.
  - destruct (remove_full w F x R OK V) as (a' & old & E & R' & OK'). rewrite E. cbn [fst].
    split; [exists (f_remove x F); exact R' | exact OK'].
  - destruct (remove_subtree_full w F x R OK V) as (a' & olds & E & R' & OK'). rewrite E. cbn [fst].
    split; [eexists; exact R' | exact OK'].
  - destruct (write_full w F x v R OK V) as (a' & old & E & R' & OK'). rewrite E. cbn [fst].
    split; [exists F; exact R' | exact OK'].
  - cbn. split; [exists empty_forest; apply Repr_empty | apply AllocProofs.AllocOK_empty].
  - cbn [fst]. split; eauto.
Qed.

Theorem run_WF : forall ops w, WF w -> valid_hist false w ops -> WF (run false ops w).
Proof.
  induction ops as [|o r IH]; intros w H V; [exact H|].
  destruct V as [V1 V2]. change (run false (o :: r) w) with (run false r (fst (step false w o))).
  apply IH; auto. now apply step_WF.
Qed.

Corollary reachable_WF : forall ops, valid_hist false init ops -> WF (run false ops init).
Proof. intros. apply run_WF; auto. apply WF_init. Qed.

(* ====================================================================== *)
(* Part 2.  What every valid call returns and does                          *)
(* ====================================================================== *)

Theorem step_outcome : forall w o F, Repr (ar w) F -> AllocOK w -> valid_op (ar w) o ->
  let w' := fst (step false w o) in let out := snd (step false w o) in
  match o with
  | ONew v => exists x, out = OutId x /\ Repr (ar w') (f_new x F) /\ issued w' = issued w ++ [x]
  | OAppendValue p v =>
      (slot_removed (ar w) p -> out = OutPanic P_PRECOND /\ ar w' = ar w) /\
      (live (ar w) p -> exists x, out = OutId x /\ Repr (ar w') (f_append_value p x F) /\ issued w' = issued w ++ [x])
  | OInsert k true x c =>
      (impossible (ar w) F k x c -> exists e, out = OutErr e /\ reason_applies (ar w) F k x c e /\ ar w' = ar w) /\
      (~ impossible (ar w) F k x c -> out = OutUnit /\ Repr (ar w') (f_insert k x c F) /\ same_shape (ar w) (ar w'))
  | OInsert k false x c =>
      (impossible (ar w) F k x c -> out = OutPanic P_PRECOND /\ ar w' = ar w) /\
      (~ impossible (ar w) F k x c -> out = OutUnit /\ Repr (ar w') (f_insert k x c F) /\ same_shape (ar w) (ar w') /\
           ar w' = ar (fst (step false w (OInsert k true x c))))
  | ODetach x => out = OutUnit /\ Repr (ar w') (f_detach x F) /\ same_shape (ar w) (ar w')
  | ORemove x => out = OutUnit /\ Repr (ar w') (f_remove x F) /\ removed w' = removed w ++ [x]
  | ORemoveSubtree x =>
      let D := preorderF (length (nodes (ar w))) F x in
      out = OutUnit /\ Repr (ar w') (f_remove_subtree x D F) /\ removed w' = removed w ++ D
  | OWrite x v => out = OutUnit /\ Repr (ar w') F
  | OClear => out = OutUnit /\ ar w' = empty_arena
  | OReserve _ => out = OutUnit /\ w' = w
  end.
Proof.
  intros w o F R OK V. cbv zeta.
  destruct o as [v|p v|k chk x c|x|x|x|x v| |n]; cbn [valid_op] in V.
  - cbn [step]. destruct (new_full w F v R OK) as (a' & x & E & R' & _). rewrite E. cbn [fst snd ar issued].
    exists x. auto.
  - cbn [step]. split.
    + intros SR. rewrite (append_value_removed w p v OK SR). cbn [fail_out fst snd ar]. auto.
    + intros L. destruct (append_full w F p v R OK L) as (a1 & a' & x & _ & E & _ & R' & _).
      rewrite E. cbn [fst snd ar issued]. exists x. auto.
  - destruct V as [Ux Uc]. destruct chk.
    + cbn [step]. destruct (checked_insert_refines (ar w) F k x c R Ux Uc) as [H1 H2]. split.
      * intros I. destruct (H1 I) as (e & E & RA). rewrite E. cbn [fst snd ar]. exists e. auto.
      * intros NI. destruct (H2 NI) as (a' & E & R' & S'). rewrite E. cbn [fst snd ar]. auto.
    + cbn [step]. destruct (unchecked_insert_refines (ar w) F k x c R Ux Uc) as [H1 H2]. split.
      * intros I. rewrite (H1 I). cbn [fail_out fst snd ar]. auto.
      * intros NI. destruct (H2 NI) as (a' & E & R' & S' & Ec). rewrite E, Ec. cbn [fst snd ar]. auto.
  - cbn [step]. destruct (detach_refines (ar w) F x R V) as (a' & E & R' & S'). rewrite E. cbn [fst snd ar]. auto.
  - cbn [step]. destruct (remove_full w F x R OK V) as (a' & old & E & R' & _). rewrite E.
    cbn [fst snd ar removed]. auto.
  - cbn [step]. destruct (remove_subtree_full w F x R OK V) as (a' & olds & E & R' & _). rewrite E.
    cbn [fst snd ar removed]. auto.
  - cbn [step]. destruct (write_full w F x v R OK V) as (a' & old & E & R' & _). rewrite E. cbn [fst snd ar]. auto.
  - cbn. auto.
  - cbn. auto.
Qed.

(* no valid call diverges or hits an internal panic; the only panics are the documented refusals *)
Corollary step_total : forall w o, WF w -> valid_op (ar w) o ->
  snd (step false w o) <> OutDiverge /\
  (forall c, snd (step false w o) = OutPanic c ->
     c = P_PRECOND /\ ar (fst (step false w o)) = ar w /\
     match o with OInsert _ false _ _ | OAppendValue _ _ => True | _ => False end).
Proof.
  intros w o [[F R] OK] V. pose proof (step_outcome w o F R OK V) as H. cbv zeta in H.
  destruct o as [v|p v|k chk x c|x|x|x|x v| |n]; cbn [valid_op] in V.
  - destruct H as (x & -> & _). split; [discriminate | intros c0 E; discriminate].
  - destruct H as [H1 H2]. destruct V as [L|SR].
    + destruct (H2 L) as (x & -> & _). split; [discriminate | intros c0 E; discriminate].
    + destruct (H1 SR) as [-> E]. split; [discriminate|]. intros c0 Ec. inversion Ec. auto.
  - destruct V as [Ux Uc].
    destruct (impossible_dec (ar w) F k x c R Ux Uc) as [I|NI]; destruct chk; destruct H as [H1 H2].
    + destruct (H1 I) as (e & -> & _). split; [discriminate | intros c0 E; discriminate].
    + destruct (H1 I) as [-> E]. split; [discriminate|]. intros c0 Ec. inversion Ec. auto.
    + destruct (H2 NI) as (-> & _). split; [discriminate | intros c0 E; discriminate].
    + destruct (H2 NI) as (-> & _). split; [discriminate | intros c0 E; discriminate].
  - destruct H as (-> & _). split; [discriminate | intros c0 E; discriminate].
  - destruct H as (-> & _). split; [discriminate | intros c0 E; discriminate].
  - destruct H as (-> & _). split; [discriminate | intros c0 E; discriminate].
  - destruct H as (-> & _). split; [discriminate | intros c0 E; discriminate].
  - destruct H as (-> & _). split; [discriminate | intros c0 E; discriminate].
  - destruct H as (-> & _). split; [discriminate | intros c0 E; discriminate].
Qed.

(* ---------- append_value(v) = new_node(v) followed by append ---------- *)
Lemma append_feq : forall a F p x, Repr a F -> ~ live a x ->
  feq (f_insert KAppend p x (f_new x F)) (f_append_value p x F).
Proof.
  intros a F p x R NL.
  assert (NK : forall q, remove_id x (kidsf F q) = kidsf F q).
  { intros q. apply remove_id_notin. intros H. apply NL. eapply kid_live; eauto. }
  assert (NT : forall c, In c (tops F) -> remove_id x c = c).
  { intros c Hc. apply remove_id_notin. intros H. apply NL. eapply top_live; eauto. }
  split.
  - intros q. cbn [f_insert f_detach f_new f_append_value kidsf]. now rewrite NK.
  - intros c.
    change (In c (filter nonempty (map (remove_id x) (tops (f_new x F)))) <-> In c (tops F)).
    rewrite tops_rest. cbn [f_new tops]. split.
    + intros (ch0 & [<-|H0] & -> & NE).
      * exfalso. apply NE. unfold remove_id. cbn. now rewrite nid_eqb_refl.
      * now rewrite NT.
    + intros H. exists c. split; [now right|]. rewrite NT by auto. split; auto.
      now destruct (r_tops _ _ R c H).
Qed.

Theorem append_value_eq : forall w F p v, Repr (ar w) F -> AllocOK w -> live (ar w) p ->
  exists x, snd (step false w (OAppendValue p v)) = OutId x /\ snd (step false w (ONew v)) = OutId x /\
    ar (fst (step false w (OAppendValue p v)))
    = ar (fst (step false (fst (step false w (ONew v))) (OInsert KAppend false p x))).
Proof.
  intros w F p v R OK Lp.
  destruct (append_full w F p v R OK Lp)
    as (a1 & a' & x & E1 & E & R1 & R' & NL & S' & Lp1 & Lx1 & NE & NA & _).
  exists x. cbn [step]. rewrite E, E1. cbn [fst snd ar]. split; [reflexivity|]. split; [reflexivity|].
  destruct (unchecked_insert_refines a1 (f_new x F) KAppend p x R1 (or_introl Lp1) (or_introl Lx1)) as [_ H].
  destruct H as (a'' & E2 & R2 & S2 & _).
  { intros [I|[I|[I|I]]]; auto.
    - eapply live_not_removed; [exact Lp1 | exact I].
    - eapply live_not_removed; [exact Lx1 | exact I]. }
  rewrite E2. cbn [fst ar]. symmetry.
  apply (Repr_unique a' a'' (f_append_value p x F)); auto.
  - eapply Repr_ext; [|exact R2]. eapply append_feq; eauto.
  - eapply same_shape_trans; [apply same_shape_sym; exact S' | exact S2].
Qed.

Print Assumptions step_WF.
Print Assumptions run_WF.
Print Assumptions step_outcome.
Print Assumptions step_total.
Print Assumptions append_value_eq.
