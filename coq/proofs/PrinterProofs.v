(* PrinterProofs.v — the pretty-printer draws exactly the documented picture.

   Main theorem: [pretty_print_render].  For every rose tree [t] laid out in the arena (any shape,
   any start node, including inner nodes that have siblings and a parent of their own), every
   rendering of the payloads given as an arbitrary chunking into [write_str] calls whose
   concatenation is a good text, and both values of [dbg], the IndentWriter machine driven by the
   traverser returns [Ok (render ...)]: no panic, no fuel exhaustion, exact bytes.

   Architecture
     A. the writer:   [write_chunks] = a byte-level machine [wr] on the concatenation of the chunks
                      (so the chunking is irrelevant), then [wr] on a good text, line by line.
     B. the driver:   [node_loop]/[kids_loop] — one subtree, resp. one run of siblings, of the tour
                      is consumed by [print_loop] and appends exactly [render_sub]/[over_siblings].
     C. fuel and the top-level theorem.                                                          *)
From IT Require Import Spec.
Require Import Lia.
Local Open Scope nat_scope.

Definition payloads_ok (a : arena) (rend : rendering) (mode : nat) (pay : nid -> N) (t : rose) : Prop :=
  forall x, In x (ids t) ->
    (exists n, node_at a x n /\ data n = Data (pay x)) /\ good_text (concat (rend (pay x) mode)).

(* ====================================================================================== *)
(* A.  The writer                                                                         *)
(* ====================================================================================== *)

(* the complete indent of a line: every entry of the stack, in Vec order, with [as_str] *)
Definition full_indent (st : list istate) : bytes := concat (map as_str (rev st)).

Lemma full_indent_cons i st : full_indent (i :: st) = full_indent st ++ as_str i.
Proof.
  unfold full_indent. simpl rev. rewrite map_app, concat_app. simpl. rewrite app_nil_r. reflexivity.
Qed.

Lemma repeat_bytes_comm n b : b ++ repeat_bytes n b = repeat_bytes n b ++ b.
Proof.
  induction n; simpl.
  - rewrite app_nil_r. reflexivity.
  - rewrite <- app_assoc, <- IHn. reflexivity.
Qed.

Lemma indent_prefix_snoc l i :
  indent_prefix (l ++ [i]) = concat (map as_str l) ++ as_str_leading i.
Proof.
  induction l as [|x l IH].
  - reflexivity.
  - destruct l as [|y l].
    + simpl. rewrite app_nil_r. reflexivity.
    + change (indent_prefix ((x :: y :: l) ++ [i]))
        with (as_str x ++ indent_prefix ((y :: l) ++ [i])).
      rewrite IH. simpl. rewrite <- !app_assoc. reflexivity.
Qed.

Lemma as_str_split i : as_str_leading i ++ as_str_trailing_spaces i = as_str i.
Proof. destruct i as [[] []]; reflexivity. Qed.

Lemma count_leading_ws_le st : count_leading_ws st <= length st.
Proof.
  induction st as [|i t IH]; simpl.
  - lia.
  - destruct (is_all_whitespace i); lia.
Qed.

(* write_indent_partial followed by complete_partial_indent emits the complete indent *)
Lemma indent_complete st :
  indent_prefix (rev (skipn (count_leading_ws st) st))
  ++ (match nth_error st (count_leading_ws st) with
      | Some i => as_str_trailing_spaces i
      | None => []
      end)
  ++ repeat_bytes (count_leading_ws st) [SP; SP; SP; SP]
  = full_indent st.
Proof.
  induction st as [|i t IH].
  - reflexivity.
  - cbn [count_leading_ws]. destruct (is_all_whitespace i) eqn:E.
    + cbn [skipn nth_error repeat_bytes].
      rewrite full_indent_cons, <- IH.
      destruct i as [[] []]; try discriminate.
      change (as_str (true, false)) with [SP; SP; SP; SP].
      rewrite repeat_bytes_comm. rewrite !app_assoc. reflexivity.
    + cbn [skipn nth_error repeat_bytes]. simpl rev.
      rewrite indent_prefix_snoc, app_nil_r, full_indent_cons.
      unfold full_indent. rewrite <- app_assoc. f_equal. apply as_str_split.
Qed.

(* abstract writer states: output, "at beginning of line", stack; [pending] is 0 between segments *)
Definition ls_of (bol : bool) : lstate := if bol then BeforeIndent else Content.
Definition wstate := (bytes * bool * list istate)%type.
Definition Wt (x : wstate) : writer :=
  let '(o, bol, st) := x in mkWriter o (ls_of bol) st 0.

Definition clr (nl : bool) (st : list istate) : list istate :=
  set_top_first_line (fun fl => fl && negb nl) st.
Definition pre (o : bytes) (bol : bool) (st : list istate) : bytes :=
  if bol then o ++ full_indent st else o.

Lemma clr_false st : clr false st = st.
Proof. destruct st as [|[l f] t]; simpl; rewrite ?andb_true_r; reflexivity. Qed.

Lemma clr_idem st : clr true (clr true st) = clr true st.
Proof. destruct st as [|[l f] t]; simpl; rewrite ?andb_false_r; reflexivity. Qed.

Lemma clr_open st : set_top_first_line (fun _ => false) st = clr true st.
Proof. destruct st as [|[l f] t]; simpl; rewrite ?andb_false_r; reflexivity. Qed.

(* one segment *)
Lemma write_seg_spec dbg c nl o bol st :
  write_seg dbg (c, nl) (Wt (o, bol, st)) = Ok (Wt (pre o bol st ++ c, nl, clr nl st)).
Proof.
  destruct bol.
  - unfold write_seg, Wt, ls_of, pre.
    cbn [lst lstate_eqb write_indent_partial out indents pending].
    unfold complete_partial_indent.
    cbn [lst lstate_eqb negb out indents pending].
    rewrite andb_false_r.
    destruct (Nat.ltb (length st) (count_leading_ws st)) eqn:E.
    + apply Nat.ltb_lt in E. pose proof (count_leading_ws_le st). lia.
    + cbn [out indents pending lst].
      rewrite <- (indent_complete st).
      rewrite <- !app_assoc. destruct nl; reflexivity.
  - unfold write_seg, Wt, ls_of, pre.
    cbn [lst lstate_eqb out indents pending].
    destruct nl; reflexivity.
Qed.

(* the byte-level machine *)
Fixpoint wr (s : bytes) (x : wstate) : wstate :=
  match s with
  | [] => x
  | c :: s' =>
      let '(o, bol, st) := x in
      wr s' (pre o bol st ++ [c], N.eqb c NL, clr (N.eqb c NL) st)
  end.

Lemma wr_app s1 : forall s2 x, wr (s1 ++ s2) x = wr s2 (wr s1 x).
Proof.
  induction s1 as [|c s1 IH]; intros s2 x.
  - reflexivity.
  - destruct x as [[o bol] st]. simpl. apply IH.
Qed.

Definition nonl (p : bytes) : Prop := Forall (fun c => N.eqb c NL = false) p.

Lemma wr_nonl_mid p : nonl p -> forall o st, wr p (o, false, st) = (o ++ p, false, st).
Proof.
  induction 1 as [|c p Hc Hp IH]; intros o st.
  - simpl. rewrite app_nil_r. reflexivity.
  - cbn [wr]. rewrite Hc, clr_false. cbn [pre]. rewrite IH, <- app_assoc. reflexivity.
Qed.

Lemma wr_nonl p : nonl p -> p <> [] ->
  forall o bol st, wr p (o, bol, st) = (pre o bol st ++ p, false, st).
Proof.
  intros Hp Hne o bol st. destruct Hp as [|c p Hc Hp].
  - congruence.
  - cbn [wr]. rewrite Hc, clr_false, (wr_nonl_mid p Hp), <- app_assoc. reflexivity.
Qed.

Lemma wr_nonl_nl p : nonl p ->
  forall o bol st, wr (p ++ [NL]) (o, bol, st) = (pre o bol st ++ p ++ [NL], true, clr true st).
Proof.
  intros Hp o bol st. destruct p as [|c p].
  - reflexivity.
  - rewrite wr_app, (wr_nonl _ Hp) by discriminate.
    cbn [wr pre]. change (N.eqb NL NL) with true. rewrite <- !app_assoc. reflexivity.
Qed.

(* write_str is the byte-level machine *)
Lemma write_segs_wr dbg : forall s cur x, nonl cur ->
  write_segs dbg (segs s cur) (Wt x) = Ok (Wt (wr (rev cur ++ s) x)).
Proof.
  induction s as [|c s IH]; intros cur x Hcur.
  - rewrite app_nil_r. destruct cur as [|c cur].
    + reflexivity.
    + cbn [segs write_segs]. destruct x as [[o bol] st].
      rewrite write_seg_spec, clr_false.
      rewrite wr_nonl.
      * reflexivity.
      * apply Forall_rev. exact Hcur.
      * simpl. destruct (rev cur); discriminate.
  - cbn [segs]. destruct (N.eqb c NL) eqn:E.
    + apply N.eqb_eq in E. subst c.
      cbn [write_segs]. destruct x as [[o bol] st].
      rewrite write_seg_spec.
      rewrite (IH [] _ (Forall_nil _)).
      simpl rev. simpl app at 1.
      replace (rev cur ++ NL :: s) with ((rev cur ++ [NL]) ++ s)
        by (rewrite <- app_assoc; reflexivity).
      rewrite wr_app, wr_nonl_nl by (apply Forall_rev; exact Hcur).
      reflexivity.
    + rewrite IH by (constructor; assumption).
      simpl rev. rewrite <- app_assoc. reflexivity.
Qed.

(* ... and so the chunking of a payload's rendering is irrelevant *)
Lemma write_chunks_wr dbg : forall chunks x,
  write_chunks dbg chunks (Wt x) = Ok (Wt (wr (concat chunks) x)).
Proof.
  induction chunks as [|c t IH]; intros x.
  - reflexivity.
  - cbn [write_chunks concat]. unfold write_str.
    rewrite (write_segs_wr dbg c [] x (Forall_nil _)).
    simpl rev. simpl app at 1. rewrite IH, wr_app. reflexivity.
Qed.

(* ---- lines ---- *)
Lemma lines_acc_cur s : forall cur,
  lines_acc s cur = match lines_acc s [] with l :: r => (rev cur ++ l) :: r | [] => [] end.
Proof.
  induction s as [|c s IH]; intros cur; simpl.
  - rewrite app_nil_r. reflexivity.
  - destruct (N.eqb c NL).
    + rewrite app_nil_r. reflexivity.
    + rewrite (IH (c :: cur)), (IH [c]).
      destruct (lines_acc s []); [reflexivity|].
      simpl. rewrite <- app_assoc. reflexivity.
Qed.

Lemma lines_cons c s :
  lines (c :: s) = if N.eqb c NL then [] :: lines s
                   else match lines s with l :: r => (c :: l) :: r | [] => [] end.
Proof.
  unfold lines. simpl. destruct (N.eqb c NL); [reflexivity|].
  rewrite lines_acc_cur. reflexivity.
Qed.

Lemma lines_acc_nonnil s : forall cur, lines_acc s cur <> [].
Proof.
  induction s as [|c s IH]; intros cur; simpl.
  - discriminate.
  - destruct (N.eqb c NL); [discriminate | apply IH].
Qed.

Lemma lines_nonnil s : lines s <> [].
Proof. apply lines_acc_nonnil. Qed.

Lemma last_tail (c : N) s : List.last (c :: s) 0%N <> NL -> List.last s 0%N <> NL.
Proof. destruct s; [intros _; discriminate | exact (fun H => H)]. Qed.

(* the byte-level machine on a text that does not end in a newline, line by line *)
Lemma wr_lines : forall s o bol st l r,
  List.last s 0%N <> NL -> (bol = true -> s <> []) -> lines s = l :: r ->
  wr s (o, bol, st)
  = (pre o bol st ++ l ++ flat_map (fun x => NL :: full_indent (clr true st) ++ x) r,
     false,
     if is_nil r then st else clr true st).
Proof.
  induction s as [|c s IH]; intros o bol st l r Hlast Hne Hl.
  - destruct bol; [exfalso; apply Hne; reflexivity|].
    inversion Hl; subst. simpl. rewrite app_nil_r. reflexivity.
  - rewrite lines_cons in Hl. cbn [wr].
    destruct (lines s) as [|l' r'] eqn:EL; [exfalso; exact (lines_nonnil s EL)|].
    destruct (N.eqb c NL) eqn:E.
    + apply N.eqb_eq in E. subst c. inversion Hl; subst l r. clear Hl.
      assert (Hs : s <> []) by (intros ->; apply Hlast; reflexivity).
      rewrite (IH _ true _ l' r' (last_tail _ _ Hlast) (fun _ => Hs) eq_refl).
      rewrite clr_idem. cbn [pre flat_map is_nil app].
      f_equal; [f_equal|].
      * rewrite <- !app_assoc. reflexivity.
      * destruct r'; reflexivity.
    + inversion Hl; subst l r. clear Hl.
      rewrite clr_false.
      rewrite (IH _ false _ l' r' (last_tail _ _ Hlast) (fun H => False_ind _ (Bool.diff_false_true H)) eq_refl).
      cbn [pre]. rewrite <- !app_assoc. reflexivity.
Qed.

(* ---- joining lines ---- *)
Definition nlcat (ls : list bytes) : bytes := flat_map (fun x => NL :: x) ls.

Lemma join_nl_cons : forall r l, join_nl (l :: r) = l ++ nlcat r.
Proof.
  induction r as [|x r IH]; intros l.
  - simpl. rewrite app_nil_r. reflexivity.
  - change (join_nl (l :: x :: r)) with (l ++ NL :: join_nl (x :: r)).
    rewrite IH. reflexivity.
Qed.

Lemma nlcat_app A B : nlcat (A ++ B) = nlcat A ++ nlcat B.
Proof. apply flat_map_app. Qed.

Lemma nlcat_block p1 p2 l r :
  nlcat (block p1 p2 (l :: r)) = NL :: p1 ++ l ++ flat_map (fun x => NL :: p2 ++ x) r.
Proof.
  unfold nlcat. simpl. f_equal. rewrite <- app_assoc. do 2 f_equal.
  induction r as [|x r IH]; simpl; [reflexivity | rewrite IH; reflexivity].
Qed.

(* ====================================================================================== *)
(* B.  The driver                                                                         *)
(* ====================================================================================== *)

Lemma rose_ind' (P : rose -> Prop) :
  (forall x ks, Forall P ks -> P (T x ks)) -> forall t, P t.
Proof.
  intros H. fix IH 1. intros [x ks]. apply H.
  induction ks as [|k ks IHks]; constructor; [apply IH | exact IHks].
Qed.

Lemma node_at_fun a x n m : node_at a x n -> node_at a x m -> n = m.
Proof. unfold node_at. intros H1 H2. rewrite H1 in H2. inversion H2. reflexivity. Qed.

(* the edge that follows the parent's Start, resp. a child's End *)
Definition first_edge (ks : list rose) (x : nid) : edge :=
  match ks with [] => End_ x | k :: _ => Start (root k) end.

Lemma nid_eqb_refl x : nid_eqb x x = true.
Proof. unfold nid_eqb. rewrite Nat.eqb_refl, Z.eqb_refl. reflexivity. Qed.

Lemma nid_eqb_idx x y : idx x <> idx y -> nid_eqb x y = false.
Proof. intros H. unfold nid_eqb. apply Nat.eqb_neq in H. rewrite H. reflexivity. Qed.

Lemma next_traverse_start a x n ks :
  node_at a x n -> first n = hd_error (map root ks) ->
  next_traverse (Start x) a = Ok (Some (first_edge ks x)).
Proof.
  intros Hn Hf. unfold next_traverse, rbind, rrdi, rrd. unfold node_at in Hn. rewrite Hn, Hf.
  destruct ks; reflexivity.
Qed.

Lemma next_traverse_end a x n p ks :
  node_at a x n -> parent n = Some p -> next n = hd_error (map root ks) ->
  next_traverse (End_ x) a = Ok (Some (first_edge ks p)).
Proof.
  intros Hn Hp Hf. unfold next_traverse, rbind, rrdi, rrd. unfold node_at in Hn. rewrite Hn, Hf.
  destruct ks; simpl; [rewrite Hp|]; reflexivity.
Qed.

Lemma trav_step_start a r0 x e :
  next_traverse (Start x) a = Ok e ->
  trav_step r0 (Some (Start x)) a = Ok (Some (Start x), e).
Proof. intros H. unfold trav_step, rbind. cbn [edge_eqb]. rewrite H. reflexivity. Qed.

Lemma trav_step_end a r0 x e :
  idx x <> idx r0 -> next_traverse (End_ x) a = Ok e ->
  trav_step r0 (Some (End_ x)) a = Ok (Some (End_ x), e).
Proof.
  intros Hx H. unfold trav_step, rbind. cbn [edge_eqb]. rewrite (nid_eqb_idx _ _ Hx), H. reflexivity.
Qed.

Lemma trav_step_root a r0 : trav_step r0 (Some (End_ r0)) a = Ok (Some (End_ r0), None).
Proof. unfold trav_step, rbind. cbn [edge_eqb]. rewrite nid_eqb_refl. reflexivity. Qed.

Section Loop.
  Variables (dbg : bool) (a : arena) (rend : rendering) (mode : nat) (pay : nid -> N) (r0 : nid).

  Notation ploop := (print_loop dbg rend mode).

  Lemma pl_start f id cur' w n v w2 :
    trav_step r0 (Some (Start id)) a = Ok (Some (Start id), cur') ->
    node_at a id n -> data n = Data v ->
    write_chunks dbg (rend v mode) (open_item (negb (is_some (next n))) w) = Ok w2 ->
    ploop (S f) r0 (Some (Start id)) w a = ploop f r0 cur' w2 a.
  Proof.
    intros Ht Hn Hd Hw. cbn [print_loop]. unfold rbind at 1. rewrite Ht.
    unfold rbind at 1. unfold rrdi, rrd. unfold node_at in Hn. rewrite Hn.
    unfold rbind at 1. unfold payload_of, rbind at 1, rrdi, rrd. rewrite Hn, Hd.
    unfold rret at 1. unfold rbind at 1. unfold liftw. rewrite Hw. reflexivity.
  Qed.

  Lemma pl_end f id cur' w w' :
    trav_step r0 (Some (End_ id)) a = Ok (Some (End_ id), cur') ->
    close_item w = Some w' ->
    ploop (S f) r0 (Some (End_ id)) w a = ploop f r0 cur' w' a.
  Proof. intros Ht Hc. cbn [print_loop]. unfold rbind at 1. rewrite Ht, Hc. reflexivity. Qed.

  Lemma pl_end_root f id cur' w :
    trav_step r0 (Some (End_ id)) a = Ok (Some (End_ id), cur') ->
    close_item w = None ->
    ploop (S f) r0 (Some (End_ id)) w a = Ok w.
  Proof. intros Ht Hc. cbn [print_loop]. unfold rbind at 1. rewrite Ht, Hc. reflexivity. Qed.

  (* what the proof needs to know about every node below the start node *)
  Definition okid (y : nid) : Prop :=
    idx y <> idx r0
    /\ (exists n, node_at a y n /\ data n = Data (pay y))
    /\ good_text (text_of rend mode pay y).

  (* the guide prefix contributed by a stack (its entries all past their first line) *)
  Definition G (st : list istate) : bytes := full_indent (clr true st).

  Lemma G_clr st : G (clr true st) = G st.
  Proof. unfold G. rewrite clr_idem. reflexivity. Qed.

  Definition node_ok (k : rose) : Prop :=
    embeds a k -> (forall y, In y (ids k) -> okid y) ->
    forall n e' o st f,
      node_at a (root k) n ->
      next_traverse (End_ (root k)) a = Ok (Some e') ->
      ploop (length (euler k) + f) r0 (Some (Start (root k))) (Wt (o, false, st)) a
      = ploop f r0 (Some e')
          (Wt (o ++ nlcat (render_sub rend mode pay (G st) (negb (is_some (next n))) k),
               false, clr true st)) a.

  (* a run of siblings under x *)
  Lemma kids_loop x : forall ks,
    Forall node_ok ks -> Forall (embeds a) ks ->
    (forall y, In y (flat_map ids ks) -> okid y) ->
    forall pv, chain_from a x pv (map root ks) ->
    forall o st f,
      ploop (length (flat_map euler ks) + f) r0 (Some (first_edge ks x)) (Wt (o, false, st)) a
      = ploop f r0 (Some (End_ x))
          (Wt (o ++ nlcat (over_siblings (render_sub rend mode pay (G st)) ks),
               false, if is_nil ks then st else clr true st)) a.
  Proof.
    induction ks as [|k ks IH]; intros HP Hemb Hok pv Hch o st f.
    - cbn [flat_map length Nat.add first_edge over_siblings nlcat is_nil]. rewrite app_nil_r. reflexivity.
    - inversion HP as [|? ? HPk HPks]; subst. inversion Hemb as [|? ? Hek Heks]; subst.
      cbn [map chain_from] in Hch. destruct Hch as (n & Hn & Hp & _ & Hnx & Hch).
      cbn [flat_map first_edge is_nil over_siblings]. rewrite app_length, <- Nat.add_assoc.
      rewrite (HPk Hek (fun y Hy => Hok y (in_or_app _ _ _ (or_introl Hy)))
                 n (first_edge ks x) o st _ Hn (next_traverse_end _ _ _ _ _ Hn Hp Hnx)).
      rewrite (IH HPks Heks (fun y Hy => Hok y (in_or_app _ _ _ (or_intror Hy))) _ Hch).
      rewrite G_clr, clr_idem, nlcat_app, <- app_assoc.
      replace (negb (is_some (next n))) with (is_nil ks)
        by (rewrite Hnx; destruct ks; reflexivity).
      destruct ks; reflexivity.
  Qed.

  Lemma as_str_branch il : as_str (il, true) = branch il.
  Proof. destruct il; reflexivity. Qed.
  Lemma as_str_guide il : as_str (il, false) = guide il.
  Proof. destruct il; reflexivity. Qed.

  (* one whole subtree below the start node *)
  Lemma node_loop : forall k, node_ok k.
  Proof.
    induction k as [x ks IH] using rose_ind'.
    intros Hemb Hok n e' o st f Hn He'.
    inversion Hemb as [? ? n0 Hn0 Hfirst _ Hch Hks]; subst.
    cbn [root] in *. rewrite (node_at_fun _ _ _ _ Hn0 Hn) in *. clear Hn0 n0.
    destruct (Hok x (or_introl eq_refl)) as (Hx0 & (n1 & Hn1 & Hdata) & Hgood & Hlast).
    rewrite (node_at_fun _ _ _ _ Hn1 Hn) in *. clear Hn1 n1.
    set (il := negb (is_some (next n))).
    replace (length (euler (T x ks)) + f) with (S (length (flat_map euler ks) + S f))
      by (cbn [euler length]; rewrite app_length; cbn [length]; lia).
    destruct (lines (text_of rend mode pay x)) as [|l r] eqn:EL;
      [exfalso; exact (lines_nonnil _ EL)|].
    (* Start x: open the item and write the payload *)
    rewrite (pl_start _ x (Some (first_edge ks x)) _ n (pay x)
               (Wt (wr (text_of rend mode pay x) (o ++ [NL], true, (il, true) :: clr true st)))
               (trav_step_start _ _ _ _ (next_traverse_start _ _ _ _ Hn Hfirst)) Hn Hdata).
    2:{ fold il. unfold open_item, Wt at 1, ls_of.
        cbn [lst lstate_eqb out indents pending]. rewrite clr_open.
        exact (write_chunks_wr dbg (rend (pay x) mode) (o ++ [NL], true, (il, true) :: clr true st)). }
    rewrite (wr_lines _ _ _ _ l r Hlast (fun _ => Hgood) EL).
    (* the children *)
    rewrite (kids_loop x ks IH Hks (fun y Hy => Hok y (or_intror Hy)) None Hch).
    (* End x: close the item *)
    rewrite (pl_end _ x (Some e') _
               (Wt (o ++ nlcat (render_sub rend mode pay (G st) il (T x ks)), false, clr true st))
               (trav_step_end _ _ _ _ Hx0 He')).
    - reflexivity.
    - unfold close_item, Wt, ls_of. cbn [indents out lst pending].
      assert (HG : forall b, G ((il, b) :: clr true st) = G st ++ guide il).
      { intros b. unfold G. cbn [clr set_top_first_line]. rewrite andb_false_r.
        rewrite full_indent_cons, as_str_guide. reflexivity. }
      assert (Hout :
        (pre (o ++ [NL]) true ((il, true) :: clr true st) ++ l ++
           flat_map (fun x0 => NL :: full_indent (clr true ((il, true) :: clr true st)) ++ x0) r) ++
          nlcat (over_siblings (render_sub rend mode pay (G st ++ guide il)) ks)
        = o ++ nlcat (render_sub rend mode pay (G st) il (T x ks))).
      { cbn [render_sub]. rewrite EL, nlcat_app, nlcat_block.
        cbn [pre clr set_top_first_line andb negb].
        rewrite !full_indent_cons, as_str_branch, as_str_guide.
        fold (G st). rewrite <- !app_assoc. cbn [app]. rewrite <- !app_assoc. reflexivity. }
      destruct (is_nil r); destruct (is_nil ks); rewrite ?G_clr, HG, Hout; reflexivity.
  Qed.
End Loop.

(* ====================================================================================== *)
(* C.  Fuel, and the theorem                                                              *)
(* ====================================================================================== *)

Lemma euler_length : forall t, length (euler t) = 2 * length (ids t).
Proof.
  induction t as [x ks IH] using rose_ind'.
  cbn [euler ids length]. rewrite app_length. cbn [length].
  assert (H : length (flat_map euler ks) = 2 * length (flat_map ids ks)).
  { induction IH as [|k ks Hk _ IHks]; cbn [flat_map length].
    - reflexivity.
    - rewrite !app_length, Hk, IHks. lia. }
  lia.
Qed.

(* pigeonhole: distinct in-range slots *)
Lemma ids_bound a t :
  NoDup (map idx (ids t)) -> (forall x, In x (ids t) -> exists n, node_at a x n) ->
  length (ids t) <= length (nodes a).
Proof.
  intros Hnd Hin.
  rewrite <- (map_length idx), <- (seq_length (length (nodes a)) 0).
  apply NoDup_incl_length; [exact Hnd|].
  intros i Hi. apply in_map_iff in Hi. destruct Hi as (x & <- & Hx).
  destruct (Hin x Hx) as (n & Hn).
  apply in_seq. split; [lia|]. cbn [Nat.add]. apply nth_error_Some.
  unfold node_at in Hn. rewrite Hn. discriminate.
Qed.

Theorem pretty_print_render : forall dbg a t rend mode pay,
  tree_in a t -> payloads_ok a rend mode pay t ->
  pretty_print dbg rend mode (root t) a = Ok (render rend mode pay t).
Proof.
  intros dbg a [x ks] rend mode pay [Hemb Hnd] Hpay.
  inversion Hemb as [? ? n Hn Hfirst _ Hch Hks]; subst.
  destruct (Hpay x (or_introl eq_refl)) as ((n1 & Hn1 & Hdata) & Hgood & Hlast).
  rewrite (node_at_fun _ _ _ _ Hn1 Hn) in *. clear n1 Hn1.
  change (concat (rend (pay x) mode)) with (text_of rend mode pay x) in Hgood, Hlast.
  assert (Hok : forall y, In y (flat_map ids ks) -> okid a rend mode pay x y).
  { intros y Hy. split; [|split].
    - cbn [ids map] in Hnd. inversion Hnd as [|? ? Hnotin _]; subst.
      intros E. apply Hnotin. rewrite <- E. apply in_map. exact Hy.
    - apply (Hpay y (or_intror Hy)).
    - apply (Hpay y (or_intror Hy)). }
  assert (Hfuel : exists f, trav_fuel a = length (flat_map euler ks) + S f).
  { pose proof (euler_length (T x ks)) as HE.
    pose proof (ids_bound a (T x ks) Hnd (fun y Hy => let '(ex_intro _ m (conj Hm _)) := proj1 (Hpay y Hy) in ex_intro _ m Hm)) as HB.
    cbn [euler length] in HE. rewrite app_length in HE. cbn [length] in HE. unfold trav_fuel.
    exists (S (S (2 * length (nodes a))) - length (flat_map euler ks) - 1). lia. }
  destruct Hfuel as (f & Hf).
  destruct (lines (text_of rend mode pay x)) as [|l r] eqn:EL; [exfalso; exact (lines_nonnil _ EL)|].
  unfold pretty_print. cbn [root].
  unfold rbind at 1. rewrite (trav_step_start _ _ _ _ (next_traverse_start _ _ _ _ Hn Hfirst)).
  unfold rbind at 1. unfold payload_of, rbind at 1, rrdi, rrd.
  pose proof Hn as Hn'. unfold node_at in Hn'. rewrite Hn', Hdata. unfold rret at 1.
  unfold rbind at 1, liftw. change writer_new with (Wt ([], true, [])).
  rewrite write_chunks_wr.
  change (concat (rend (pay x) mode)) with (text_of rend mode pay x).
  rewrite (wr_lines _ _ _ _ l r Hlast (fun _ => Hgood) EL).
  cbn [snd]. rewrite Hf.
  unfold rbind at 1.
  rewrite (kids_loop dbg a rend mode pay x x ks
             (proj2 (Forall_forall _ _) (fun k _ => node_loop dbg a rend mode pay x k))
             Hks Hok None Hch).
  rewrite (pl_end_root dbg a rend mode x f x None _ (trav_step_root a x)).
  - unfold rret. unfold Wt. cbn [out]. f_equal.
    unfold render, render_lines. cbn [root kids]. rewrite EL.
    change ((l :: r) ++ over_siblings (render_sub rend mode pay []) ks)
      with (l :: (r ++ over_siblings (render_sub rend mode pay []) ks)).
    rewrite join_nl_cons, nlcat_app.
    change (pre [] true []) with (@nil N). cbn [app]. rewrite <- app_assoc.
    destruct (is_nil r); reflexivity.
  - destruct (is_nil r); destruct (is_nil ks); reflexivity.
Qed.

(* ====================================================================================== *)
(* Concrete instances: the theorem is not vacuous                                         *)
(* ====================================================================================== *)

Definition i0 := mkId 0 0.
Definition i1 := mkId 1 0.
Definition i2 := mkId 2 0.
Definition i3 := mkId 3 0.

(* (a)  i0 -> [ i1 -> [ i3 ] ; i2 ]   with i1's payload the three lines "A", "", "B" *)
Definition arenaA : arena := mkArena
  [ mkNode None None None (Some i1) (Some i2) 0 (Data 1%N);
    mkNode (Some i0) None (Some i2) (Some i3) (Some i3) 0 (Data 2%N);
    mkNode (Some i0) (Some i1) None None None 0 (Data 3%N);
    mkNode (Some i1) None None None None 0 (Data 4%N) ] None None.
Definition treeA : rose := T i0 [T i1 [T i3 []]; T i2 []].
(* (b)  the subtree at the inner node i1, which has a parent and a next sibling in the arena *)
Definition treeB : rose := T i1 [T i3 []].
Definition payA (x : nid) : N := N.of_nat (S (idx x)).
Definition rendA : rendering := fun v _ =>
  if N.eqb v 1 then [[82%N]]                                  (* "R" *)
  else if N.eqb v 2 then [[65%N; NL]; []; [NL; 66%N]]         (* "A\n" ; "" ; "\nB" *)
  else if N.eqb v 3 then [[67%N]]                             (* "C" *)
  else [[71%N]; []].                                          (* "G" ; "" *)

(*  R
    |-- A
    |   
    |   B
    |   `-- G
    `-- C          *)
Example sanity_a : forall dbg,
  pretty_print dbg rendA 0 i0 arenaA = Ok (render rendA 0 payA treeA)
  /\ render rendA 0 payA treeA =
     [82; 10; 124; 45; 45; 32; 65; 10; 124; 32; 32; 32; 10; 124; 32; 32; 32; 66; 10;
      124; 32; 32; 32; 96; 45; 45; 32; 71; 10; 96; 45; 45; 32; 67]%N.
Proof. intros []; vm_compute; split; reflexivity. Qed.

(*  A
    
    B
    `-- G          *)
Example sanity_b : forall dbg,
  pretty_print dbg rendA 0 i1 arenaA = Ok (render rendA 0 payA treeB)
  /\ render rendA 0 payA treeB = [65; 10; 10; 66; 10; 96; 45; 45; 32; 71]%N.
Proof. intros []; vm_compute; split; reflexivity. Qed.

Ltac solve_embeds :=
  repeat first
    [ reflexivity
    | exact I
    | apply Forall_nil
    | apply Forall_cons
    | eapply embeds_T
    | progress cbn [map root chain_from]
    | eexists
    | split ].

Example tree_in_a : tree_in arenaA treeA.
Proof.
  split.
  - unfold treeA, arenaA. solve_embeds.
  - vm_compute. repeat constructor; cbn [In]; intuition discriminate.
Qed.

Example tree_in_b : tree_in arenaA treeB.
Proof.
  split.
  - unfold treeB, arenaA. solve_embeds.
  - vm_compute. repeat constructor; cbn [In]; intuition discriminate.
Qed.

Example payloads_ok_a : forall mode, payloads_ok arenaA rendA mode payA treeA.
Proof.
  intros mode x Hx. cbn in Hx.
  destruct Hx as [<-|[<-|[<-|[<-|[]]]]];
    (split; [eexists; split; reflexivity | split; vm_compute; discriminate]).
Qed.

Example payloads_ok_b : forall mode, payloads_ok arenaA rendA mode payA treeB.
Proof.
  intros mode x Hx. apply payloads_ok_a. cbn in Hx |- *. tauto.
Qed.

(* the theorem applied to (a) and (b) *)
Example applied_a : forall dbg mode,
  pretty_print dbg rendA mode i0 arenaA = Ok (render rendA mode payA treeA).
Proof. intros. exact (pretty_print_render dbg _ _ _ _ _ tree_in_a (payloads_ok_a mode)). Qed.
Example applied_b : forall dbg mode,
  pretty_print dbg rendA mode i1 arenaA = Ok (render rendA mode payA treeB).
Proof. intros. exact (pretty_print_render dbg _ _ _ _ _ tree_in_b (payloads_ok_b mode)). Qed.

(* (c)  whitespace-only indents: a last child with two lines and a last grandchild with two lines
      R
      `-- X
          Y
          `-- Z
              W                                                                            *)
Definition arenaC : arena := mkArena
  [ mkNode None None None (Some i1) (Some i1) 0 (Data 1%N);
    mkNode (Some i0) None None (Some i2) (Some i2) 0 (Data 2%N);
    mkNode (Some i1) None None None None 0 (Data 3%N) ] None None.
Definition rendC : rendering := fun v _ =>
  if N.eqb v 1 then [[82%N]]
  else if N.eqb v 2 then [[88%N; NL; 89%N]]
  else [[90%N]; [NL]; [87%N]].
Example sanity_c : forall dbg,
  pretty_print dbg rendC 0 i0 arenaC = Ok (render rendC 0 payA (T i0 [T i1 [T i2 []]]))
  /\ render rendC 0 payA (T i0 [T i1 [T i2 []]]) =
     [82; 10; 96; 45; 45; 32; 88; 10; 32; 32; 32; 32; 89; 10;
      32; 32; 32; 32; 96; 45; 45; 32; 90; 10; 32; 32; 32; 32; 32; 32; 32; 32; 87]%N.
Proof. intros []; vm_compute; split; reflexivity. Qed.

Print Assumptions pretty_print_render.
