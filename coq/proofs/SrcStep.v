(* SrcStep.v — the whole step function of the model, instantiated with the REGENERATED operations, is the
   model's step: for every operation except the payload write (Node::get_mut returns a reference and is not
   translated) the arena and the outcome that World.step computes are those of the translated Rust function. *)
From IT.proofs Require Import SrcTac SrcStamp SrcRel SrcAlloc SrcOps.
From IT.gen Require Import GenStamp GenRel GenAlloc GenOps.
From IT Require Import World.
Open Scope mon_scope.

Definition g_checked (dbg : bool) (k : inskind) (a b : nid) : M nres :=
  match k with
  | KAppend => g_NodeId_checked_append dbg a b
  | KPrepend => g_NodeId_checked_prepend dbg a b
  | KAfter => g_NodeId_checked_insert_after dbg a b
  | KBefore => g_NodeId_checked_insert_before dbg a b
  end.

Definition g_unchecked (dbg : bool) (k : inskind) (a b : nid) : M unit :=
  match k with
  | KAppend => g_NodeId_append dbg a b
  | KPrepend => g_NodeId_prepend dbg a b
  | KAfter => g_NodeId_insert_after dbg a b
  | KBefore => g_NodeId_insert_before dbg a b
  end.

(* one API call, through the regenerated functions only *)
Definition g_op (dbg : bool) (o : op) : M outcome :=
  match o with
  | ONew v => x <- g_Arena_new_node dbg v ;; ret (OutId x)
  | OAppendValue p v => x <- g_NodeId_append_value dbg p v ;; ret (OutId x)
  | OInsert k true a b => r <- g_checked dbg k a b ;; ret (match r with NOk => OutUnit | NErr e => OutErr e end)
  | OInsert k false a b => g_unchecked dbg k a b ;;; ret OutUnit
  | ODetach x => g_NodeId_detach dbg x ;;; ret OutUnit
  | ORemove x => g_NodeId_remove dbg x ;;; ret OutUnit
  | ORemoveSubtree x => g_NodeId_remove_subtree dbg x ;;; ret OutUnit
  | OClear => g_Arena_clear dbg ;;; ret OutUnit
  | OReserve _ => ret OutUnit
  | OWrite x v => write_payload x v ;;; ret OutUnit
  end.

Definition as_outcome (r : res outcome) : outcome :=
  match r with Ok o => o | Panic c => OutPanic c | Diverge => OutDiverge end.

Lemma src_checked dbg k a b ar0 : g_checked dbg k a b ar0 = checked_insert dbg k a b ar0.
Proof.
  destruct k; cbn [g_checked checked_insert];
    first [apply src_checked_append | apply src_checked_prepend | apply src_checked_insert_after | apply src_checked_insert_before].
Qed.

Lemma src_unchecked dbg k a b ar0 : g_unchecked dbg k a b ar0 = unchecked_insert dbg k a b ar0.
Proof.
  destruct k; cbn [g_unchecked unchecked_insert];
    first [apply src_append | apply src_prepend | apply src_insert_after | apply src_insert_before].
Qed.

Lemma src_step dbg w o :
  let '(a', r) := g_op dbg o (ar w) in
  ar (fst (step dbg w o)) = a' /\ snd (step dbg w o) = as_outcome r.
Proof.
  destruct o as [v|p v|k [|] a b|x|x|x|x v| |n]; cbn [g_op step]; unfold bind, ret.
  - rewrite src_new_node. destruct (new_node dbg v (ar w)) as [a' [y|c|]]; cbn; auto.
  - rewrite src_append_value. destruct (append_value dbg p v (ar w)) as [a' [y|c|]]; cbn; auto.
  - rewrite src_checked. destruct (checked_insert dbg k a b (ar w)) as [a' [[|e]|c|]]; cbn; auto.
  - rewrite src_unchecked. destruct (unchecked_insert dbg k a b (ar w)) as [a' [[]|c|]]; cbn; auto.
  - rewrite src_detach. destruct (detach dbg x (ar w)) as [a' [[]|c|]]; cbn; auto.
  - rewrite src_remove. unfold then_ret. destruct (remove dbg x (ar w)) as [a' [old|c|]]; cbn; auto.
  - rewrite src_remove_subtree. unfold then_ret. destruct (remove_subtree dbg x (ar w)) as [a' [[ids olds]|c|]]; cbn; auto.
  - destruct (write_payload x v (ar w)) as [a' [old|c|]]; cbn; auto.
  - rewrite src_clear. unfold then_ret. destruct (clear (ar w)) as [a' [olds|c|]]; cbn; auto.
  - cbn. auto.
Qed.

(* ---- whole histories through the regenerated operations ---- *)
Definition g_run (dbg : bool) (ops : list op) (a : arena) : arena :=
  fold_left (fun a o => fst (g_op dbg o a)) ops a.

Lemma g_run_is_run dbg ops : forall w, g_run dbg ops (ar w) = ar (run dbg ops w).
Proof.
  induction ops as [|o ops IH]; intros w; [reflexivity|].
  cbn [g_run fold_left run]. fold (g_run dbg ops). fold (run dbg ops).
  pose proof (src_step dbg w o) as H. destruct (g_op dbg o (ar w)) as [a' r]. destruct H as [H _].
  cbn [fst]. rewrite <- H. apply IH.
Qed.
