(* ReprBase.v — basic facts about the representation relation [Repr], sibling segments [dseg],
   abstract forests and the list surgery used by the abstract operations. *)
From IT Require Import NodeOps Forest.
From IT.proofs Require Export Layer1.
Require Import Lia.
Local Open Scope nat_scope.

(* ================= list surgery ================= *)
Lemma In_remove_id : forall x y l, In y (remove_id x l) <-> In y l /\ y <> x.
Proof. intros. unfold remove_id. rewrite filter_In, negb_true_iff, nid_eqb_false. tauto. Qed.

Lemma remove_id_notin : forall x l, ~ In x l -> remove_id x l = l.
Proof.
  induction l as [|y l IH]; cbn; intros H; auto.
  rewrite nid_eqb_neq by (intros ->; apply H; now left). cbn. f_equal. apply IH. tauto.
Qed.

Lemma remove_id_app : forall x A B, remove_id x (A ++ B) = remove_id x A ++ remove_id x B.
Proof. intros. apply filter_app. Qed.

Lemma remove_id_mid : forall x A B, ~ In x A -> ~ In x B -> remove_id x (A ++ x :: B) = A ++ B.
Proof.
  intros. rewrite remove_id_app.
  assert (E : remove_id x (x :: B) = remove_id x B).
  { unfold remove_id. cbn [filter]. now rewrite nid_eqb_refl. }
  rewrite E. now rewrite !remove_id_notin.
Qed.

Lemma NoDup_mid : forall (x : nid) A B, NoDup (A ++ x :: B) -> ~ In x A /\ ~ In x B /\ NoDup (A ++ B).
Proof.
  intros x A B H. apply NoDup_remove in H. destruct H as [H1 H2]. rewrite in_app_iff in H2. tauto.
Qed.

Lemma NoDup_remove_id : forall x l, NoDup l -> NoDup (remove_id x l).
Proof. intros. now apply NoDup_filter. Qed.

Lemma ins_after_notin : forall a c l, ~ In a l -> ins_after a c l = l.
Proof.
  induction l as [|y l IH]; cbn; intros H; auto.
  rewrite nid_eqb_neq by (intros ->; apply H; now left). cbn. f_equal. apply IH. tauto.
Qed.
Lemma ins_after_app : forall a c A B, ins_after a c (A ++ B) = ins_after a c A ++ ins_after a c B.
Proof. intros. apply flat_map_app. Qed.
Lemma ins_after_mid : forall a c A B, ~ In a A -> ~ In a B -> ins_after a c (A ++ a :: B) = A ++ a :: c :: B.
Proof.
  intros. rewrite ins_after_app.
  assert (E : ins_after a c (a :: B) = a :: c :: ins_after a c B).
  { unfold ins_after. cbn [flat_map]. now rewrite nid_eqb_refl. }
  rewrite E. now rewrite !ins_after_notin.
Qed.

Lemma ins_before_notin : forall a c l, ~ In a l -> ins_before a c l = l.
Proof.
  induction l as [|y l IH]; cbn; intros H; auto.
  rewrite nid_eqb_neq by (intros ->; apply H; now left). cbn. f_equal. apply IH. tauto.
Qed.
Lemma ins_before_app : forall a c A B, ins_before a c (A ++ B) = ins_before a c A ++ ins_before a c B.
Proof. intros. apply flat_map_app. Qed.
Lemma ins_before_mid : forall a c A B, ~ In a A -> ~ In a B -> ins_before a c (A ++ a :: B) = A ++ c :: a :: B.
Proof.
  intros. rewrite ins_before_app.
  assert (E : ins_before a c (a :: B) = c :: a :: ins_before a c B).
  { unfold ins_before. cbn [flat_map]. now rewrite nid_eqb_refl. }
  rewrite E. now rewrite !ins_before_notin.
Qed.

(* heads and lasts *)
Lemma last_cons : forall {A} (r : list A) (x y : A), List.last (y :: r) x = List.last r y.
Proof. induction r as [|z r IH]; intros; auto. change (List.last (y :: z :: r) x) with (List.last (z :: r) x). rewrite !IH. reflexivity. Qed.
Lemma last_error_cons2 : forall {A} (x y : A) r, last_error (x :: y :: r) = last_error (y :: r).
Proof. intros. unfold last_error. now rewrite last_cons. Qed.
Lemma last_error_snoc : forall {A} (l : list A) x, last_error (l ++ [x]) = Some x.
Proof.
  induction l as [|y l IH]; intros; auto. destruct l; auto.
  change ((y :: a :: l) ++ [x]) with (y :: (a :: l) ++ [x]).
  change ((a :: l) ++ [x]) with (a :: l ++ [x]) at 1. rewrite last_error_cons2. apply IH.
Qed.
Lemma last_error_app : forall {A} (l l' : list A), last_error (l ++ l') = or_else (last_error l') (last_error l).
Proof.
  induction l as [|y l IH]; intros l'.
  - cbn. destruct (last_error l'); reflexivity.
  - destruct l as [|z l].
    + cbn [app]. destruct l' as [|w l']; [reflexivity|]. rewrite last_error_cons2.
      destruct (last_error (w :: l')) eqn:E; cbn; auto. discriminate.
    + specialize (IH l'). cbn [app] in *. rewrite last_error_cons2, IH.
      now rewrite last_error_cons2.
Qed.
Lemma hd_error_app : forall {A} (l l' : list A), hd_error (l ++ l') = or_else (hd_error l) (hd_error l').
Proof. intros A [|x l] l'; cbn; auto. Qed.
Lemma last_error_In : forall {A} (l : list A) x, last_error l = Some x -> In x l.
Proof.
  induction l as [|y l IH]; intros x H; [discriminate|].
  destruct l as [|z l]; [inversion H; now left|]. rewrite last_error_cons2 in H. right. now apply IH.
Qed.
Lemma hd_error_In : forall {A} (l : list A) x, hd_error l = Some x -> In x l.
Proof. intros A [|y l] x H; inversion H. now left. Qed.
Lemma last_error_None : forall {A} (l : list A), last_error l = None -> l = [].
Proof. intros A [|x l]; auto; discriminate. Qed.
Lemma hd_error_None : forall {A} (l : list A), hd_error l = None -> l = [].
Proof. intros A [|x l]; auto; discriminate. Qed.
Lemma last_error_split : forall {A} (l : list A) x, last_error l = Some x -> exists l', l = l' ++ [x].
Proof.
  intros A l x H. destruct l as [|y l]; [discriminate|].
  destruct (exists_last (l := y :: l)) as (l' & z & E); [discriminate|].
  rewrite E in H. rewrite last_error_snoc in H. inversion H; subst. eauto.
Qed.
Lemma hd_error_split : forall {A} (l : list A) x, hd_error l = Some x -> exists l', l = x :: l'.
Proof. intros A [|y l] x H; inversion H; eauto. Qed.

(* ================= live ids ================= *)
Lemma node_at_nd : forall a x n, node_at a x n <-> inr a x /\ nd a x = n.
Proof.
  intros. unfold node_at. split.
  - intros H. split; [eapply node_inr; eauto | now apply nd_at].
  - intros [I <-]. now apply at_nd.
Qed.

Lemma live_inr : forall a x, live a x -> inr a x.
Proof. intros a x (n & H & _). eapply node_inr; eauto. Qed.
Lemma live_stamp : forall a x, live a x -> stamp (nd a x) = gen x /\ (0 <= gen x)%Z.
Proof. intros a x (n & H & S & G). apply nd_at in H. now subst. Qed.
Lemma live_intro : forall a x, inr a x -> stamp (nd a x) = gen x -> (0 <= gen x)%Z -> live a x.
Proof. intros a x I S G. exists (nd a x). split; auto. now apply at_nd. Qed.

Lemma live_inj : forall a x y, live a x -> live a y -> idx x = idx y -> x = y.
Proof.
  intros a [i g] [j h] Hx Hy E. cbn in E; subst j.
  apply live_stamp in Hx, Hy. unfold nd in *. cbn in *. destruct Hx, Hy. f_equal. congruence.
Qed.

Lemma live_idx_neq : forall a x y, live a x -> live a y -> x <> y -> Nat.eqb (idx x) (idx y) = false.
Proof. intros. apply Nat.eqb_neq. intros E. eauto using live_inj. Qed.

Lemma slot_removed_inr : forall a x, slot_removed a x -> inr a x.
Proof. intros a x (n & H & _). eapply node_inr; eauto. Qed.
Lemma slot_removed_stamp : forall a x, slot_removed a x <-> inr a x /\ (stamp (nd a x) < 0)%Z.
Proof.
  intros. split.
  - intros (n & H & S). apply node_at_nd in H. destruct H as [I <-]. auto.
  - intros [I S]. exists (nd a x). split; auto. now apply at_nd.
Qed.
Lemma live_not_removed : forall a x, live a x -> ~ slot_removed a x.
Proof. intros a x L R. apply live_stamp in L. apply slot_removed_stamp in R. lia. Qed.
Lemma usable_inr : forall a x, usable a x -> inr a x.
Proof. intros a x [H|H]; [now apply live_inr | now apply slot_removed_inr]. Qed.

Lemma stamp_nd_amap : forall F a x, links_only F -> stamp (nd (amap F a) x) = stamp (nd a x).
Proof.
  intros F a x H. destruct (inr_dec a x) as [I|I].
  - rewrite nd_amap by auto. apply H.
  - rewrite !nd_out; auto. now rewrite inr_amap.
Qed.
Lemma live_amap : forall F a x, links_only F -> (live (amap F a) x <-> live a x).
Proof.
  intros F a x H. split; intros L.
  - pose proof (live_inr _ _ L) as I. apply live_stamp in L. rewrite stamp_nd_amap in L by auto.
    apply inr_amap in I. destruct L. now apply live_intro.
  - pose proof (live_inr _ _ L) as I. apply live_stamp in L. destruct L.
    apply live_intro; auto. + now apply inr_amap. + now rewrite stamp_nd_amap.
Qed.
Lemma slot_removed_amap : forall F a x, links_only F -> (slot_removed (amap F a) x <-> slot_removed a x).
Proof. intros. rewrite !slot_removed_stamp, inr_amap, stamp_nd_amap by auto. tauto. Qed.

(* ================= sibling segments ================= *)
Lemma dseg_cons : forall a o pv x r nx,
  dseg a o pv (x :: r) nx <->
  inr a x /\ parent (nd a x) = o /\ prev (nd a x) = pv /\ next (nd a x) = or_else (hd_error r) nx
  /\ dseg a o (Some x) r nx.
Proof.
  intros. cbn [dseg]. split.
  - intros (n & H & P & V & N & D). apply node_at_nd in H. destruct H as [I <-].
    repeat split; auto. destruct r; auto.
  - intros (I & P & V & N & D). exists (nd a x). repeat split; auto.
    + now apply at_nd. + destruct r; auto.
Qed.

Lemma or_else_last_cons : forall (x : nid) r, or_else (last_error r) (Some x) = last_error (x :: r).
Proof. intros x [|y r]; [reflexivity|]. now rewrite last_error_cons2. Qed.

Lemma dseg_app : forall a o A B pv nx,
  dseg a o pv (A ++ B) nx <->
  dseg a o pv A (or_else (hd_error B) nx) /\ dseg a o (or_else (last_error A) pv) B nx.
Proof.
  induction A as [|x r IH]; intros B pv nx.
  - cbn. tauto.
  - change ((x :: r) ++ B) with (x :: r ++ B). rewrite !dseg_cons, IH.
    rewrite hd_error_app. rewrite or_else_last_cons.
    assert (E : or_else (last_error (x :: r)) pv = last_error (x :: r)) by reflexivity.
    rewrite E.
    assert (E2 : or_else (or_else (hd_error r) (hd_error B)) nx = or_else (hd_error r) (or_else (hd_error B) nx)).
    { destruct (hd_error r), (hd_error B); reflexivity. }
    rewrite E2. tauto.
Qed.

Lemma dseg_inr : forall a o L pv nx y, dseg a o pv L nx -> In y L -> inr a y.
Proof.
  induction L as [|x r IH]; intros pv nx y D H; [destruct H|].
  apply dseg_cons in D. destruct D as (I & _ & _ & _ & D). destruct H as [<-|H]; eauto.
Qed.

Lemma dseg_parent : forall a o L pv nx y, dseg a o pv L nx -> In y L -> parent (nd a y) = o.
Proof.
  induction L as [|x r IH]; intros pv nx y D H; [destruct H|].
  apply dseg_cons in D. destruct D as (_ & P & _ & _ & D). destruct H as [<-|H]; eauto.
Qed.

(* the neighbours of a member *)
Lemma dseg_mid : forall a o A x B pv nx, dseg a o pv (A ++ x :: B) nx ->
  prev (nd a x) = or_else (last_error A) pv /\ next (nd a x) = or_else (hd_error B) nx.
Proof.
  intros a o A x B pv nx D. apply dseg_app in D. destruct D as [_ D].
  apply dseg_cons in D. tauto.
Qed.

(* transfer of a segment to another arena: frame, new boundary links, new parent, all in one *)
Lemma dseg_rebuild : forall a a' o o' L pv pv' nx nx',
  dseg a o pv L nx -> NoDup L -> length (nodes a') = length (nodes a) ->
  (forall y, In y L -> parent (nd a' y) = o') ->
  (forall y, In y L -> prev (nd a' y) = if onid_eqb (hd_error L) (Some y) then pv' else prev (nd a y)) ->
  (forall y, In y L -> next (nd a' y) = if onid_eqb (last_error L) (Some y) then nx' else next (nd a y)) ->
  dseg a' o' pv' L nx'.
Proof.
  intros a a' o o' L. induction L as [|x r IH]; intros pv pv' nx nx' D ND LEN HP HV HN; [exact I|].
  apply dseg_cons in D. destruct D as (Ix & P & V & N & D).
  inversion ND as [|? ? Hx ND']; subst.
  apply dseg_cons. repeat split.
  - unfold inr in *. lia.
  - apply HP. now left.
  - rewrite HV by (now left). cbn [hd_error]. now rewrite onid_eqb_refl.
  - rewrite HN by (now left). destruct r as [|y r].
    + cbn. now rewrite nid_eqb_refl.
    + rewrite last_error_cons2.
      destruct (onid_eqb (last_error (y :: r)) (Some x)) eqn:E.
      * apply onid_eqb_eq in E. apply last_error_In in E. contradiction.
      * rewrite N. reflexivity.
  - apply (IH (Some x) (Some x) nx nx'); auto.
    + intros y Hy. apply HP. now right.
    + intros y Hy. rewrite HV by (now right). cbn [hd_error onid_eqb].
      rewrite nid_eqb_neq by (intros ->; contradiction).
      destruct (onid_eqb (hd_error r) (Some y)) eqn:E; auto.
      apply onid_eqb_eq in E. destruct r as [|z r]; [discriminate|]. inversion E; subst z.
      apply dseg_cons in D. tauto.
    + intros y Hy. rewrite HN by (now right). destruct r as [|z r]; [destruct Hy|].
      now rewrite last_error_cons2.
Qed.

(* special case: nothing relevant changes *)
Lemma dseg_frame : forall a a' o L pv nx,
  dseg a o pv L nx -> length (nodes a') = length (nodes a) ->
  (forall y, In y L -> parent (nd a' y) = parent (nd a y) /\ prev (nd a' y) = prev (nd a y)
                        /\ next (nd a' y) = next (nd a y)) ->
  dseg a' o pv L nx.
Proof.
  intros a a' o L. induction L as [|x r IH]; intros pv nx D LEN H; [exact I|].
  apply dseg_cons in D. destruct D as (Ix & P & V & N & D).
  destruct (H x (or_introl eq_refl)) as (E1 & E2 & E3).
  apply dseg_cons. repeat split; try congruence.
  - unfold inr in *. lia.
  - apply IH; auto. intros y Hy. apply H. now right.
Qed.

Lemma dseg_suffix_eq : forall a o B1 B2 x pv1 pv2,
  dseg a o pv1 (x :: B1) None -> dseg a o pv2 (x :: B2) None -> B1 = B2.
Proof.
  induction B1 as [|y B1 IH]; intros B2 x pv1 pv2 D1 D2;
    apply dseg_cons in D1; apply dseg_cons in D2;
    destruct D1 as (_ & _ & _ & N1 & D1), D2 as (_ & _ & _ & N2 & D2); rewrite N1 in N2.
  - destruct B2; auto; discriminate.
  - destruct B2 as [|z B2]; [discriminate|]. cbn in N2. inversion N2; subst z. f_equal. eauto.
Qed.

Lemma dseg_prefix_eq : forall a o A1 A2 x nx1 nx2,
  dseg a o None (A1 ++ [x]) nx1 -> dseg a o None (A2 ++ [x]) nx2 -> A1 = A2.
Proof.
  induction A1 as [|y A1 IH] using rev_ind; intros A2 x nx1 nx2 D1 D2;
    pose proof (dseg_mid _ _ _ _ _ _ _ D1) as [V1 _]; pose proof (dseg_mid _ _ _ _ _ _ _ D2) as [V2 _];
    rewrite V1 in V2.
  - cbn in V2. destruct (last_error A2) eqn:E; [discriminate|]. now apply last_error_None in E.
  - rewrite last_error_snoc in V2. cbn in V2.
    destruct (last_error A2) eqn:E; [|discriminate]. cbn in V2. inversion V2; subst n.
    apply last_error_split in E. destruct E as [A2' ->]. f_equal.
    apply dseg_app in D1. apply dseg_app in D2. destruct D1 as [D1 _], D2 as [D2 _]. eauto.
Qed.

(* ================= extensionality of forests ================= *)
Definition feq (F F' : forest) : Prop :=
  (forall p, kidsf F p = kidsf F' p) /\ (forall c, In c (tops F) <-> In c (tops F')).

Lemma feq_sym : forall F F', feq F F' -> feq F' F.
Proof. intros F F' [H1 H2]. split; intros; [now rewrite H1 | now rewrite H2]. Qed.

Lemma memberF_ext : forall F F' x, feq F F' -> memberF F x -> memberF F' x.
Proof.
  intros F F' x [H1 H2] [[p H]|(c & Hc & H)].
  - left. exists p. now rewrite <- H1.
  - right. exists c. split; auto. now apply H2.
Qed.
Lemma depthF_ext : forall F F' x d, feq F F' -> depthF F x d -> depthF F' x d.
Proof.
  intros F F' x d [H1 H2]. induction 1.
  - eapply depth_top; eauto. now apply H2.
  - eapply depth_kid; eauto. now rewrite <- H1.
Qed.
Lemma ancF_ext : forall F F' x y, feq F F' -> ancF F x y -> ancF F' x y.
Proof.
  intros F F' x y [H1 H2]. induction 1; [constructor|]. eapply anc_step; eauto. now rewrite <- H1.
Qed.

Lemma Repr_ext : forall a F F', feq F F' -> Repr a F -> Repr a F'.
Proof.
  intros a F F' E R. pose proof (feq_sym _ _ E) as E'. destruct E as [H1 H2]. constructor.
  - intros x. rewrite <- (r_live _ _ R). split; apply memberF_ext; auto. split; auto.
  - intros p. rewrite <- H1. apply (r_kids _ _ R).
  - intros p. rewrite <- H1. apply (r_owner _ _ R).
  - intros c Hc. apply (r_tops _ _ R). now apply H2.
  - intros p n. rewrite <- H1. apply (r_ends _ _ R).
  - intros x Hx. destruct (r_depth _ _ R x) as [d Hd]. { eapply memberF_ext; eauto. }
    exists d. eapply depthF_ext; eauto. split; auto.
  - apply (r_dead _ _ R).
Qed.

(* ================= facts under Repr ================= *)
Definition sibs (F : forest) (o : option nid) (L : list nid) : Prop :=
  match o with Some p => kidsf F p = L | None => In L (tops F) end.

Section ReprFacts.
Variables (a : arena) (F : forest).
Hypothesis R : Repr a F.

Lemma kid_live : forall p x, In x (kidsf F p) -> live a x.
Proof. intros. apply (r_live _ _ R). left; eauto. Qed.
Lemma top_live : forall c x, In c (tops F) -> In x c -> live a x.
Proof. intros. apply (r_live _ _ R). right; eauto. Qed.
Lemma owner_live : forall p x, In x (kidsf F p) -> live a p.
Proof. intros. apply (r_owner _ _ R). intros E. rewrite E in H. destruct H. Qed.
Lemma kid_parent : forall p x, In x (kidsf F p) -> parent (nd a x) = Some p.
Proof. intros. destruct (r_kids _ _ R p) as [D _]. eapply dseg_parent; eauto. Qed.
Lemma top_parent : forall c x, In c (tops F) -> In x c -> parent (nd a x) = None.
Proof. intros. destruct (r_tops _ _ R c H) as (_ & D & _). eapply dseg_parent; eauto. Qed.
Lemma kid_unique : forall p q x, In x (kidsf F p) -> In x (kidsf F q) -> p = q.
Proof. intros p q x H1 H2. apply kid_parent in H1, H2. congruence. Qed.
Lemma kid_not_top : forall p c x, In x (kidsf F p) -> In c (tops F) -> ~ In x c.
Proof. intros p c x H1 H2 H3. apply kid_parent in H1. eapply top_parent in H3; eauto. congruence. Qed.
Lemma parent_kid : forall x p, live a x -> parent (nd a x) = Some p -> In x (kidsf F p).
Proof.
  intros x p L P. apply (r_live _ _ R) in L. destruct L as [[q H]|(c & Hc & H)].
  - pose proof (kid_parent _ _ H). replace p with q by congruence. auto.
  - pose proof (top_parent _ _ Hc H). congruence.
Qed.
Lemma parent_top : forall x, live a x -> parent (nd a x) = None -> exists c, In c (tops F) /\ In x c.
Proof.
  intros x L P. apply (r_live _ _ R) in L. destruct L as [[q H]|(c & Hc & H)]; eauto.
  pose proof (kid_parent _ _ H). congruence.
Qed.

Lemma sibs_dseg : forall o L, sibs F o L -> dseg a o None L None /\ NoDup L.
Proof.
  intros [p|] L H; cbn in H.
  - subst L. apply (r_kids _ _ R).
  - destruct (r_tops _ _ R L H) as (_ & D & N). auto.
Qed.
Lemma sibs_live : forall o L y, sibs F o L -> In y L -> live a y.
Proof. intros [p|] L y H Hy; cbn in H; [subst L; eapply kid_live | eapply top_live]; eauto. Qed.
Lemma sibs_parent : forall o L y, sibs F o L -> In y L -> parent (nd a y) = o.
Proof. intros o L y H Hy. destruct (sibs_dseg _ _ H) as [D _]. eapply dseg_parent; eauto. Qed.
Lemma sibs_of : forall x, live a x -> exists L, sibs F (parent (nd a x)) L /\ In x L.
Proof.
  intros x L. destruct (parent (nd a x)) as [p|] eqn:P.
  - exists (kidsf F p). split; [reflexivity | now apply parent_kid].
  - destruct (parent_top _ L P) as (c & Hc & H). exists c. split; auto.
Qed.
Lemma sibs_owner_live : forall p L y, sibs F (Some p) L -> In y L -> live a p.
Proof. intros p L y H Hy. cbn in H; subst L. eapply owner_live; eauto. Qed.

(* a node lies in exactly one sibling list *)
Lemma sibs_unique : forall o o' L L' y, sibs F o L -> sibs F o' L' -> In y L -> In y L' -> o = o' /\ L = L'.
Proof.
  intros o o' L L' y H H' Hy Hy'.
  assert (E : o = o').
  { rewrite <- (sibs_parent _ _ _ H Hy). apply (sibs_parent _ _ _ H' Hy'). }
  subst o'. split; auto. destruct o as [p|]; cbn in H, H'; [congruence|].
  destruct (sibs_dseg None L H) as [D _]. destruct (sibs_dseg None L' H') as [D' _].
  apply in_split in Hy, Hy'. destruct Hy as (A1 & B1 & ->), Hy' as (A2 & B2 & ->).
  assert (EB : B1 = B2).
  { apply dseg_app in D, D'. destruct D as [_ D], D' as [_ D']. eapply dseg_suffix_eq; eauto. }
  assert (EA : A1 = A2).
  { change (y :: B1) with ([y] ++ B1) in D. change (y :: B2) with ([y] ++ B2) in D'.
    rewrite app_assoc in D, D'. apply dseg_app in D, D'. destruct D as [D _], D' as [D' _].
    eapply dseg_prefix_eq; eauto. }
  congruence.
Qed.

Lemma chain_unique : forall c1 c2 x, In c1 (tops F) -> In c2 (tops F) -> In x c1 -> In x c2 -> c1 = c2.
Proof. intros c1 c2 x H1 H2 X1 X2. apply (sibs_unique None None c1 c2 x); auto. Qed.

(* neighbours in the sibling list are the prev/next fields *)
Lemma sibs_mid : forall o A x B, sibs F o (A ++ x :: B) ->
  prev (nd a x) = last_error A /\ next (nd a x) = hd_error B.
Proof.
  intros o A x B H. destruct (sibs_dseg _ _ H) as [D _]. apply dseg_mid in D.
  destruct D as [-> ->]. split; [destruct (last_error A) | destruct (hd_error B)]; reflexivity.
Qed.

Lemma sibs_NoDup_idx : forall o L, sibs F o L -> NoDup (map idx L).
Proof.
  intros o L H. destruct (sibs_dseg _ _ H) as [_ N].
  assert (LV : forall y, In y L -> live a y) by (intros; eapply sibs_live; eauto).
  clear H. induction N as [|x l Hx N IH]; cbn; constructor.
  - intros Hi. apply in_map_iff in Hi. destruct Hi as (y & E & Hy).
    assert (y = x). { eapply live_inj; eauto. - apply LV; now right. - apply LV; now left. }
    subst; contradiction.
  - apply IH. intros; apply LV; now right.
Qed.

(* every link of a live node is None or a live id *)
Lemma link_live : forall x g y, live a x -> getf g (nd a x) = Some y -> live a y.
Proof.
  intros x g y L H. destruct (sibs_of _ L) as (S & HS & Hx).
  destruct g; cbn in H.
  - rewrite H in HS. eapply sibs_owner_live; eauto.
  - apply in_split in Hx. destruct Hx as (A & B & ->). destruct (sibs_mid _ _ _ _ HS) as [V _].
    rewrite H in V. symmetry in V. apply last_error_In in V.
    eapply sibs_live; eauto. apply in_or_app. now left.
  - apply in_split in Hx. destruct Hx as (A & B & ->). destruct (sibs_mid _ _ _ _ HS) as [_ N].
    rewrite H in N. symmetry in N. apply hd_error_In in N.
    eapply sibs_live; eauto. apply in_or_app. right. now right.
  - destruct (r_ends _ _ R x (nd a x) L) as [E _]. { apply at_nd. now apply live_inr. }
    rewrite H in E. symmetry in E. apply hd_error_In in E. eapply kid_live; eauto.
  - destruct (r_ends _ _ R x (nd a x) L) as [_ E]. { apply at_nd. now apply live_inr. }
    rewrite H in E. symmetry in E. apply last_error_In in E. eapply kid_live; eauto.
Qed.

Lemma link_inr : forall x g, live a x -> oinr a (getf g (nd a x)).
Proof.
  intros x g L. destruct (getf g (nd a x)) as [y|] eqn:E; cbn; auto.
  apply live_inr. eapply link_live; eauto.
Qed.

Lemma ends_of : forall p, live a p ->
  first (nd a p) = hd_error (kidsf F p) /\ last (nd a p) = last_error (kidsf F p).
Proof. intros p L. apply (r_ends _ _ R p (nd a p) L). apply at_nd. now apply live_inr. Qed.

(* removed slots carry no links *)
Lemma dead_links : forall x g, slot_removed a x -> getf g (nd a x) = None.
Proof.
  intros x g H. apply slot_removed_stamp in H. destruct H as [I S].
  destruct (r_dead _ _ R (idx x) (nd a x)) as (E1 & E2 & E3 & E4 & E5); auto.
  - now apply at_nd.
  - destruct g; auto.
Qed.

(* ---------- depth ---------- *)
Lemma depth_fun : forall x d, depthF F x d -> forall d', depthF F x d' -> d = d'.
Proof.
  induction 1 as [x c Hc Hx | x p d Hx Hp IH]; intros d' H'; inversion H' as [? c' Hc' Hx' | ? p' e Hx' Hp']; subst; auto.
  - exfalso. eapply kid_not_top; eauto.
  - exfalso. eapply kid_not_top; eauto.
  - f_equal. apply IH. now rewrite (kid_unique _ _ _ Hx Hx').
Qed.

Lemma depth_kid_inv : forall x p d, In x (kidsf F p) -> depthF F x d -> exists d', d = S d' /\ depthF F p d'.
Proof.
  intros x p d Hx H. inversion H as [? c Hc Hx' | ? p' e Hx' Hp']; subst.
  - exfalso. eapply kid_not_top; eauto.
  - rewrite (kid_unique _ _ _ Hx Hx'). eauto.
Qed.

Lemma member_depth : forall x, live a x -> exists d, depthF F x d.
Proof. intros x L. apply (r_depth _ _ R). now apply (r_live _ _ R). Qed.

Lemma anc_depth : forall x y, ancF F x y -> forall d, depthF F x d ->
  exists e, depthF F y e /\ e <= d /\ (e = d -> x = y).
Proof.
  induction 1 as [x | x p y Hx Hp IH]; intros d Hd.
  - exists d. auto.
  - destruct (depth_kid_inv _ _ _ Hx Hd) as (d' & -> & Hd').
    destruct (IH _ Hd') as (e & He & Le & _). exists e. repeat split; auto; lia.
Qed.

Lemma anc_member : forall x y, ancF F x y -> x = y \/ live a x.
Proof. intros x y H. inversion H; subst; auto. right. eapply kid_live; eauto. Qed.

Lemma anc_antisym : forall x y, ancF F x y -> ancF F y x -> x = y.
Proof.
  intros x y H1 H2. destruct (anc_member _ _ H1) as [|L]; auto.
  destruct (member_depth _ L) as [d Hd].
  destruct (anc_depth _ _ H1 _ Hd) as (e & He & Le & Eq).
  destruct (anc_depth _ _ H2 _ He) as (d' & Hd' & Le' & _).
  rewrite (depth_fun _ _ Hd' _ Hd) in Le'. apply Eq. lia.
Qed.

Lemma kid_not_anc : forall x p, In x (kidsf F p) -> ~ ancF F p x.
Proof.
  intros x p Hx H. assert (E : x = p). { apply anc_antisym; auto. eapply anc_step; eauto. constructor. }
  subst p. destruct (member_depth x) as [d Hd]. { eapply kid_live; eauto. }
  destruct (depth_kid_inv _ _ _ Hx Hd) as (d' & -> & Hd'). pose proof (depth_fun _ _ Hd _ Hd'). lia.
Qed.

Lemma anc_step_inv : forall x p y, In x (kidsf F p) -> ancF F x y -> x = y \/ ancF F p y.
Proof.
  intros x p y Hx H. inversion H as [|? q ? Hq Hy]; subst; auto.
  right. now rewrite (kid_unique _ _ _ Hx Hq).
Qed.

Lemma anc_root_inv : forall x y, live a x -> parent (nd a x) = None -> ancF F x y -> x = y.
Proof.
  intros x y L P H. inversion H as [|? q ? Hq Hy]; subst; auto.
  apply kid_parent in Hq. congruence.
Qed.

(* the pigeonhole bound on depths *)
Lemma depth_path : forall x d, depthF F x d ->
  exists P, length P = S d /\ NoDup P /\ forall y, In y P -> live a y /\ exists e, e <= d /\ depthF F y e.
Proof.
  induction 1 as [x c Hc Hx | x p d Hx Hp IH].
  - exists [x]. repeat split; [repeat constructor; auto|..].
    + destruct H as [<-|[]]. eapply top_live; eauto.
    + destruct H as [<-|[]]. exists 0. split; auto. eapply depth_top; eauto.
  - destruct IH as (P & LP & ND & HP). exists (x :: P). repeat split.
    + cbn. lia.
    + constructor; auto. intros Hi. destruct (HP _ Hi) as (_ & e & Le & He).
      assert (depthF F x (S d)) as Hd by (eapply depth_kid; eauto).
      pose proof (depth_fun _ _ Hd _ He). lia.
    + destruct H as [<-|H]; [eapply kid_live; eauto | now apply HP].
    + destruct H as [<-|H].
      * exists (S d). split; auto. eapply depth_kid; eauto.
      * destruct (HP _ H) as (_ & e & Le & He). exists e. split; auto.
Qed.

Lemma live_NoDup_idx : forall L, NoDup L -> (forall y, In y L -> live a y) -> NoDup (map idx L).
Proof.
  induction 1 as [|x l Hx N IH]; intros LV; cbn; constructor.
  - intros Hi. apply in_map_iff in Hi. destruct Hi as (y & E & Hy).
    assert (y = x). { eapply live_inj; eauto. - apply LV; now right. - apply LV; now left. }
    subst; contradiction.
  - apply IH. intros; apply LV; now right.
Qed.

Lemma live_list_bound : forall L, NoDup L -> (forall y, In y L -> live a y) -> length L <= length (nodes a).
Proof.
  intros L N LV. rewrite <- (map_length idx L), <- (seq_length (length (nodes a)) 0).
  apply NoDup_incl_length; [now apply live_NoDup_idx|].
  intros i Hi. apply in_map_iff in Hi. destruct Hi as (y & <- & Hy).
  apply in_seq. pose proof (live_inr _ _ (LV _ Hy)). unfold inr in *. lia.
Qed.

Lemma depth_bound : forall x d, depthF F x d -> d < length (nodes a).
Proof.
  intros x d H. destruct (depth_path _ _ H) as (P & LP & ND & HP).
  assert (length P <= length (nodes a)). { apply live_list_bound; auto. intros; now apply HP. }
  lia.
Qed.

(* ---------- the executable ancestor test ---------- *)
Lemma anc_any_none : forall fuel c, anc_any fuel None c a = Ok false.
Proof. intros [|f] c; reflexivity. Qed.

Lemma anc_any_spec : forall fuel x c d, live a x -> depthF F x d -> d < fuel ->
  exists b, anc_any fuel (Some x) c a = Ok b /\ (b = true <-> ancF F x c).
Proof.
  induction fuel as [|fuel IH]; intros x c d L Hd Lt; [lia|].
  cbn [anc_any]. unfold rbind, rrdi, rrd. rewrite (at_nd _ _ (live_inr _ _ L)).
  destruct (nid_eqb c x) eqn:E.
  - apply nid_eqb_eq in E. subst c. exists true. split; auto. split; auto. intros _. constructor.
  - apply nid_eqb_false in E. destruct (parent (nd a x)) as [p|] eqn:P.
    + pose proof (parent_kid _ _ L P) as Hx.
      destruct (depth_kid_inv _ _ _ Hx Hd) as (d' & -> & Hd').
      destruct (IH p c d') as (b & Hb & Eb); [eapply owner_live; eauto | auto | lia |].
      exists b. split; auto. rewrite Eb. split.
      * intros H. eapply anc_step; eauto.
      * intros H. destruct (anc_step_inv _ _ _ Hx H); auto; congruence.
    + exists false. split; [apply anc_any_none|]. split; [discriminate|].
      intros H. apply anc_root_inv in H; auto; congruence.
Qed.

Lemma anc_any_repr : forall x c, live a x ->
  exists b, anc_any (chain_fuel a) (Some x) c a = Ok b /\ (b = true <-> ancF F x c).
Proof.
  intros x c L. destruct (member_depth _ L) as [d Hd]. eapply anc_any_spec; eauto.
  pose proof (depth_bound _ _ Hd). unfold chain_fuel. lia.
Qed.

Lemma anc_any_parent_repr : forall x c, live a x ->
  exists b, anc_any (chain_fuel a) (parent (nd a x)) c a = Ok b
            /\ (b = true <-> exists p, In x (kidsf F p) /\ ancF F p c).
Proof.
  intros x c L. destruct (parent (nd a x)) as [p|] eqn:P.
  - pose proof (parent_kid _ _ L P) as Hx.
    destruct (anc_any_repr p c) as (b & Hb & Eb); [eapply owner_live; eauto|].
    exists b. split; auto. rewrite Eb. split; [eauto|].
    intros (q & Hq & H). now rewrite (kid_unique _ _ _ Hx Hq).
  - exists false. split; [apply anc_any_none|]. split; [discriminate|].
    intros (q & Hq & _). apply kid_parent in Hq. congruence.
Qed.

End ReprFacts.

(* the monadic wrappers *)
Lemma is_ancestor_or_self_eq : forall x c a,
  is_ancestor_or_self x c a = (a, anc_any (chain_fuel a) (Some x) c a).
Proof. reflexivity. Qed.
Lemma is_strict_ancestor_eq : forall x c a, inr a x ->
  is_strict_ancestor x c a = (a, anc_any (chain_fuel a) (parent (nd a x)) c a).
Proof.
  intros. unfold is_strict_ancestor, get_arena, bind. rewrite rdi_ok by auto. reflexivity.
Qed.

(* ================= more tools ================= *)
Lemma dseg_hd : forall a o pv L nx y, dseg a o pv L nx -> hd_error L = Some y -> prev (nd a y) = pv.
Proof. intros a o pv [|z L] nx y D H; inversion H; subst. apply dseg_cons in D. tauto. Qed.

Lemma dseg_last : forall a o L pv nx y, dseg a o pv L nx -> last_error L = Some y -> next (nd a y) = nx.
Proof.
  intros a o L pv nx y D H. apply last_error_split in H. destruct H as [L' ->].
  apply dseg_mid in D. destruct D as [_ D]. exact D.
Qed.

(* [dseg_rebuild] with the case distinctions spelled out as separate premises *)
Lemma dseg_rebuild' : forall a a' o o' L pv pv' nx nx',
  dseg a o pv L nx -> NoDup L -> length (nodes a') = length (nodes a) ->
  (forall y, In y L -> parent (nd a' y) = o') ->
  (forall y, In y L -> hd_error L <> Some y -> prev (nd a' y) = prev (nd a y)) ->
  (forall y, hd_error L = Some y -> prev (nd a' y) = pv') ->
  (forall y, In y L -> last_error L <> Some y -> next (nd a' y) = next (nd a y)) ->
  (forall y, last_error L = Some y -> next (nd a' y) = nx') ->
  dseg a' o' pv' L nx'.
Proof.
  intros a a' o o' L pv pv' nx nx' D ND LEN HP HV1 HV2 HN1 HN2.
  eapply dseg_rebuild; eauto.
  - intros y Hy. destruct (onid_eqb (hd_error L) (Some y)) eqn:E.
    + apply onid_eqb_eq in E. auto.
    + apply onid_eqb_false in E. auto.
  - intros y Hy. destruct (onid_eqb (last_error L) (Some y)) eqn:E.
    + apply onid_eqb_eq in E. auto.
    + apply onid_eqb_false in E. auto.
Qed.

Lemma oat_live : forall a o y, live a y -> (forall v, o = Some v -> live a v) ->
  oat o (idx y) = onid_eqb o (Some y).
Proof.
  intros a [v|] y L H; cbn; auto. destruct (nid_eq_dec v y) as [->|N].
  - now rewrite Nat.eqb_refl, nid_eqb_refl.
  - rewrite nid_eqb_neq by auto. apply (live_idx_neq a); auto.
Qed.

Lemma oat_dead : forall a o i n, nth_error (nodes a) i = Some n -> (stamp n < 0)%Z ->
  (forall v, o = Some v -> live a v) -> oat o i = false.
Proof.
  intros a [v|] i n E S H; cbn; auto. apply Nat.eqb_neq. intros ->.
  destruct (live_stamp _ _ (H v eq_refl)) as [S1 S2].
  pose proof (nd_at a v n E). subst n. lia.
Qed.

(* slots an effect does not touch *)
Lemma fset_other : forall z f v j n, Nat.eqb j (idx z) = false -> fset z f v j n = n.
Proof. intros. unfold fset. now rewrite H. Qed.
Lemma ofset_other : forall o f v j n, oat o j = false -> ofset o f v j n = n.
Proof. intros [z|] f v j n H; cbn in *; auto using fset_other. Qed.
Lemma cnF_other : forall a par pv nx j n,
  oat par j = false -> oat pv j = false -> oat nx j = false -> cnF a par pv nx j n = n.
Proof. intros. unfold cnF, comp. now rewrite !ofset_other. Qed.
Lemma reparentF_other : forall S np j n, existsb (Nat.eqb j) (map idx S) = false -> reparentF S np j n = n.
Proof. intros. unfold reparentF. now rewrite H. Qed.

Lemma NoDup_insert_mid : forall (c : nid) A B, NoDup (A ++ B) -> ~ In c (A ++ B) -> NoDup (A ++ c :: B).
Proof.
  induction A as [|y A IH]; intros B N H; cbn in *.
  - now constructor.
  - inversion N; subst. constructor.
    + rewrite in_app_iff in *. cbn. intros [Hy|[->|Hy]]; tauto.
    + apply IH; auto.
Qed.

Lemma NoDup_app_disj : forall (A B : list nid), NoDup (A ++ B) -> forall y, In y A -> In y B -> False.
Proof.
  induction A as [|z A IH]; intros B N y HA HB; [destruct HA|].
  cbn in N. inversion N; subst. destruct HA as [->|HA].
  - apply H1. apply in_or_app. now right.
  - eapply IH; eauto.
Qed.

Lemma NoDup_app_left : forall (A B : list nid), NoDup (A ++ B) -> NoDup A.
Proof.
  induction A as [|z A IH]; intros B N; [constructor|]. cbn in N. inversion N; subst.
  constructor; eauto. intros H. apply H1. apply in_or_app. now left.
Qed.
Lemma NoDup_app_right : forall (A B : list nid), NoDup (A ++ B) -> NoDup B.
Proof. induction A as [|z A IH]; intros B N; auto. cbn in N. inversion N; subst. eauto. Qed.

(* two arenas of the same shape representing the same forest are equal *)
Lemma node_ext : forall n m : node,
  parent n = parent m -> prev n = prev m -> next n = next m -> first n = first m -> last n = last m ->
  stamp n = stamp m -> data n = data m -> n = m.
Proof. intros [] []; cbn; intros; subst; reflexivity. Qed.

Lemma Repr_links_unique : forall a a' F x, Repr a F -> Repr a' F -> live a x -> live a' x ->
  forall g, getf g (nd a x) = getf g (nd a' x).
Proof.
  intros a a' F x R R' L L' g.
  destruct (sibs_of a F R x L) as (S & HS & Hx).
  assert (P : parent (nd a' x) = parent (nd a x)).
  { rewrite (sibs_parent a' F R' _ _ _ HS Hx). symmetry. apply (sibs_parent a F R _ _ _ HS Hx). }
  destruct g; cbn.
  - auto.
  - apply in_split in Hx. destruct Hx as (A & B & ->).
    destruct (sibs_mid a F R _ _ _ _ HS) as [-> _]. destruct (sibs_mid a' F R' _ _ _ _ HS) as [-> _]. auto.
  - apply in_split in Hx. destruct Hx as (A & B & ->).
    destruct (sibs_mid a F R _ _ _ _ HS) as [_ ->]. destruct (sibs_mid a' F R' _ _ _ _ HS) as [_ ->]. auto.
  - destruct (ends_of a F R x L) as [-> _]. destruct (ends_of a' F R' x L') as [-> _]. auto.
  - destruct (ends_of a F R x L) as [_ ->]. destruct (ends_of a' F R' x L') as [_ ->]. auto.
Qed.

Lemma Repr_unique : forall a a' F, Repr a F -> Repr a' F -> same_shape a a' -> a' = a.
Proof.
  intros a a' F R R' (LEN & FF & LF & SH). apply arena_ext; auto. intros i.
  destruct (nth_error (nodes a) i) as [n|] eqn:E.
  - destruct (SH i n E) as (n' & E' & S' & D'). rewrite E'. f_equal.
    destruct (Z_lt_ge_dec (stamp n) 0) as [Neg|Pos].
    + destruct (r_dead _ _ R i n E Neg) as (P1 & P2 & P3 & P4 & P5).
      destruct (r_dead _ _ R' i n' E') as (Q1 & Q2 & Q3 & Q4 & Q5); [lia|].
      apply node_ext; congruence.
    + set (x := mkId i (stamp n)).
      assert (L : live a x). { exists n. repeat split; auto. cbn. lia. }
      assert (L' : live a' x). { exists n'. repeat split; auto. cbn. lia. }
      pose proof (Repr_links_unique a a' F x R R' L L') as G.
      rewrite (nd_at a x n E), (nd_at a' x n' E') in G.
      apply node_ext; auto; symmetry; [apply (G Fparent)|apply (G Fprev)|apply (G Fnext)|apply (G Ffirst)|apply (G Flast)].
  - apply nth_error_None in E. apply nth_error_None. lia.
Qed.

(* liveness only depends on the shape *)
Lemma same_shape_sym : forall a a', same_shape a a' -> same_shape a' a.
Proof.
  intros a a' (LEN & FF & LF & SH). unfold same_shape. repeat split; try congruence.
  intros i n' E'. destruct (nth_error (nodes a) i) as [n|] eqn:E.
  - destruct (SH i n E) as (m & Em & S & D). rewrite E' in Em. inversion Em; subst m. eauto.
  - apply nth_error_None in E. assert (nth_error (nodes a') i <> None) by congruence.
    apply nth_error_Some in H. lia.
Qed.
Lemma live_same_shape1 : forall a a' x, same_shape a a' -> live a x -> live a' x.
Proof.
  intros a a' x (_ & _ & _ & SH) (n & E & S & G). destruct (SH _ _ E) as (n' & E' & S' & _).
  exists n'. repeat split; auto. congruence.
Qed.
Lemma live_same_shape : forall a a' x, same_shape a a' -> (live a x <-> live a' x).
Proof. intros. split; apply live_same_shape1; auto using same_shape_sym. Qed.
Lemma slot_removed_same_shape1 : forall a a' x, same_shape a a' -> slot_removed a x -> slot_removed a' x.
Proof.
  intros a a' x (_ & _ & _ & SH) (n & E & S). destruct (SH _ _ E) as (n' & E' & S' & _).
  exists n'. split; auto. congruence.
Qed.
Lemma slot_removed_same_shape : forall a a' x, same_shape a a' -> (slot_removed a x <-> slot_removed a' x).
Proof. intros. split; apply slot_removed_same_shape1; auto using same_shape_sym. Qed.
