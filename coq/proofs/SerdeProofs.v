(* SerdeProofs.v — round trip of the token-level serde model: decode (encode a) = a
   for every arena whose stamps fit the Rust type i16. *)
From IT Require Import Serde.
From Coq Require Import Lia.  (* List, ZArith, ... come through Serde; re-importing List would shadow the field [last] *)
Open Scope Z_scope.

(* ---------- what the Rust types guarantee ---------- *)

Definition oid_ok (o : option nid) : Prop := match o with Some x => in_i16 (gen x) = true | None => True end.
Definition node_types_ok (n : node) : Prop :=
  in_i16 (stamp n) = true /\ oid_ok (parent n) /\ oid_ok (prev n) /\ oid_ok (next n) /\ oid_ok (first n) /\ oid_ok (last n).
Definition types_ok (a : arena) : Prop := Forall node_types_ok (nodes a).

(* ---------- helper lemmas about the decoder combinators ---------- *)

Lemma dbind_ok : forall {A B} (d : dec A) (k : A -> dec B) ts x r,
  d ts = Some (x, r) -> dbind d k ts = k x r.
Proof. intros A B d k ts x r H. unfold dbind. rewrite H. reflexivity. Qed.

Lemma dbind_expect : forall {B} (p : tok -> bool) (k : unit -> dec B) t r,
  p t = true -> dbind (expect_tok p) k (t :: r) = k tt r.
Proof. intros B p k t r H. unfold dbind, expect_tok. rewrite H. reflexivity. Qed.

Lemma fname_eqb_refl : forall f, fname_eqb f f = true.
Proof. destruct f; reflexivity. Qed.

Lemma sname_eqb_refl : forall n, sname_eqb n n = true.
Proof. destruct n; reflexivity. Qed.

Lemma is_field_refl : forall f, is_field f (TField f) = true.
Proof. intros f. cbn [is_field]. apply fname_eqb_refl. Qed.

Lemma is_struct_refl : forall n k, is_struct n k (TStruct n k) = true.
Proof. intros n k. cbn [is_struct]. rewrite sname_eqb_refl, Nat.eqb_refl. reflexivity. Qed.

Lemma dec_field_cons : forall {A} f (d : dec A) r, dec_field f d (TField f :: r) = d r.
Proof. intros A f d r. unfold dec_field. rewrite dbind_expect by apply is_field_refl. reflexivity. Qed.

Lemma app_cons_assoc : forall {A} (x : A) l r, (x :: l) ++ r = x :: (l ++ r).
Proof. reflexivity. Qed.

Ltac norm_app := repeat (progress (cbn [app]; rewrite <- ?app_assoc)).

(* ---------- per-component round trips, continuation form ---------- *)

Lemma dec_enc_stamp : forall s rest,
  in_i16 s = true -> dec_stamp (enc_stamp s ++ rest) = Some (s, rest).
Proof.
  intros s rest H. unfold dec_stamp, enc_stamp. cbn [app].
  rewrite dbind_expect by reflexivity. rewrite H. reflexivity.
Qed.

Lemma dec_enc_id : forall x rest,
  in_i16 (gen x) = true -> dec_id (enc_id x ++ rest) = Some (x, rest).
Proof.
  intros [i s] rest H. cbn [gen] in H. unfold dec_id, enc_id. cbn [idx gen]. norm_app.
  rewrite dbind_expect by reflexivity.
  rewrite dbind_expect by reflexivity.
  rewrite Nat2N.id.
  rewrite dbind_expect by reflexivity.
  rewrite (dbind_ok _ _ _ _ _ (dec_enc_stamp s _ H)).
  rewrite dbind_expect by reflexivity.
  reflexivity.
Qed.

Lemma dec_enc_oid : forall o rest,
  oid_ok o -> dec_option dec_id (enc_oid o ++ rest) = Some (o, rest).
Proof.
  intros [x|] rest H; cbn [enc_oid app dec_option]; [|reflexivity].
  rewrite (dec_enc_id x rest H). reflexivity.
Qed.

Lemma dec_enc_usize : forall k rest, dec_usize (TU (N.of_nat k) :: rest) = Some (k, rest).
Proof. intros k rest. cbn [dec_usize]. rewrite Nat2N.id. reflexivity. Qed.

Lemma dec_enc_ousize : forall o rest,
  dec_option dec_usize (enc_ousize o ++ rest) = Some (o, rest).
Proof.
  intros [k|] rest; cbn [enc_ousize app dec_option]; [|reflexivity].
  rewrite dec_enc_usize. reflexivity.
Qed.

Lemma dec_enc_data : forall d rest, dec_data (enc_data d ++ rest) = Some (d, rest).
Proof.
  intros [v|o] rest; cbn [enc_data app dec_data]; [reflexivity|].
  rewrite dec_enc_ousize. reflexivity.
Qed.

(* one field holding an Option<NodeId>, followed by anything *)
Lemma dec_field_oid : forall {B} f o (k : option nid -> dec B) rest,
  oid_ok o ->
  dbind (dec_field f (dec_option dec_id)) k (TField f :: enc_oid o ++ rest) = k o rest.
Proof.
  intros B f o k rest H. apply dbind_ok. rewrite dec_field_cons. apply dec_enc_oid, H.
Qed.

Lemma dec_field_ousize : forall {B} f o (k : option nat -> dec B) rest,
  dbind (dec_field f (dec_option dec_usize)) k (TField f :: enc_ousize o ++ rest) = k o rest.
Proof.
  intros B f o k rest. apply dbind_ok. rewrite dec_field_cons. apply dec_enc_ousize.
Qed.

Lemma dec_field_stamp : forall {B} f s (k : Z -> dec B) rest,
  in_i16 s = true ->
  dbind (dec_field f dec_stamp) k (TField f :: TNS NNodeStamp :: TI s :: rest) = k s rest.
Proof.
  intros B f s k rest H. apply dbind_ok. rewrite dec_field_cons.
  apply (dec_enc_stamp s rest H).
Qed.

Lemma dec_field_data : forall {B} f d (k : ndata -> dec B) rest,
  dbind (dec_field f dec_data) k (TField f :: enc_data d ++ rest) = k d rest.
Proof.
  intros B f d k rest. apply dbind_ok. rewrite dec_field_cons. apply dec_enc_data.
Qed.

Lemma dec_enc_node : forall n rest,
  node_types_ok n -> dec_node (enc_node n ++ rest) = Some (n, rest).
Proof.
  intros [p pv nx fc lc s d] rest (Hs & Hp & Hpv & Hnx & Hfc & Hlc).
  cbn [stamp parent prev next first last] in *.
  unfold dec_node, enc_node, enc_stamp. cbn [stamp parent prev next first last data]. norm_app.
  rewrite dbind_expect by reflexivity.
  rewrite dec_field_oid by assumption.
  rewrite dec_field_oid by assumption.
  rewrite dec_field_oid by assumption.
  rewrite dec_field_oid by assumption.
  rewrite dec_field_oid by assumption.
  rewrite dec_field_stamp by assumption.
  rewrite dec_field_data.
  cbn [app]. rewrite dbind_expect by reflexivity.
  reflexivity.
Qed.

(* the sequence, generic in the element codec *)
Lemma dec_enc_seq : forall {A} (d : dec A) (enc : A -> list tok) (P : A -> Prop),
  (forall v rest, P v -> d (enc v ++ rest) = Some (v, rest)) ->
  forall l rest, Forall P l ->
    dec_seq d (length l) (flat_map enc l ++ rest) = Some (l, rest).
Proof.
  intros A d enc P Hd l. induction l as [|v l IH]; intros rest HF.
  - reflexivity.
  - inversion HF as [|v' l' Hv Hl]; subst.
    cbn [length flat_map dec_seq]. rewrite <- app_assoc.
    rewrite (dbind_ok _ _ _ _ _ (Hd v _ Hv)).
    rewrite (dbind_ok _ _ _ _ _ (IH rest Hl)).
    reflexivity.
Qed.

Lemma dec_enc_nodes : forall ns rest,
  Forall node_types_ok ns ->
  dec_seq dec_node (length ns) (flat_map enc_node ns ++ rest) = Some (ns, rest).
Proof. intros ns rest H. apply (dec_enc_seq dec_node enc_node node_types_ok dec_enc_node), H. Qed.

(* ---------- the arena ---------- *)

Theorem decode_encode : forall (a : arena) (rest : list tok),
  types_ok a -> decode (encode a ++ rest) = Some (a, rest).
Proof.
  intros [ns ff lf] rest H. unfold types_ok in H. cbn [nodes] in H.
  unfold decode, encode. cbn [nodes ffree lfree]. norm_app.
  rewrite dbind_expect by reflexivity.
  rewrite dbind_expect by reflexivity.
  rewrite (dbind_ok _ _ _ _ _ (dec_enc_nodes ns _ H)).
  rewrite dbind_expect by reflexivity.
  rewrite dec_field_ousize.
  rewrite dec_field_ousize.
  cbn [app]. rewrite dbind_expect by reflexivity.
  reflexivity.
Qed.

Corollary encode_injective : forall a b, types_ok a -> types_ok b -> encode a = encode b -> a = b.
Proof.
  intros a b Ha Hb E.
  pose proof (decode_encode a [] Ha) as Da.
  pose proof (decode_encode b [] Hb) as Db.
  rewrite E in Da. rewrite Da in Db. inversion Db. reflexivity.
Qed.

(* the hypothesis is not vacuous and is necessary: *)
Example types_ok_example : types_ok (mkArena [mkNode None None (Some (mkId 1 3)) None None 0 (Data 7%N);
                                               mkNode None (Some (mkId 0 0)) None None None (-4) (NextFree (Some 0%nat))]
                                              (Some 1%nat) (Some 1%nat)).
Proof.
  unfold types_ok. cbn [nodes].
  repeat constructor; vm_compute; reflexivity.
Qed.

Example out_of_range_stamp_rejected :
  decode (encode (mkArena [mkNode None None None None None 40000 (Data 1%N)] None None)) = None.
Proof. vm_compute. reflexivity. Qed.

Print Assumptions decode_encode.
Print Assumptions encode_injective.
