(* ReprTree.v — in an arena that represents a forest ([Repr a F]) every live node is the root of
   a finite rose tree laid out in the arena; its pre-order is the abstract pre-order [preorderF],
   which is therefore what [descendants] returns, and it lists exactly the nodes below x. *)
From IT Require Import Forest.
From IT.proofs Require Import TraverseProofs.
From Coq Require Import Lia.
Local Open Scope nat_scope.

(* the rose tree unfolded from the abstract forest *)
Fixpoint treeF (fuel : nat) (F : forest) (x : nid) : rose :=
  match fuel with O => T x [] | S f => T x (map (treeF f F) (kidsf F x)) end.

(* ====================================================================== *)
(* Lists                                                                   *)
(* ====================================================================== *)

Lemma NoDup_flat_map : forall {A B} (f : A -> list B) l,
  NoDup l -> (forall x, In x l -> NoDup (f x)) ->
  (forall x y z, In x l -> In y l -> In z (f x) -> In z (f y) -> x = y) ->
  NoDup (flat_map f l).
Proof.
  intros A B f. induction l as [|x l IH]; intros Hl Hf Hd; cbn [flat_map]; [constructor|].
  inversion Hl as [|? ? Hx Hr]; subst.
  assert (IHl : NoDup (flat_map f l)).
  { apply IH; auto.
    - intros y Hy. apply Hf. now right.
    - intros y y' z Hy Hy'. apply Hd; now right. }
  assert (Hfx : NoDup (f x)) by (apply Hf; now left).
  revert Hfx. generalize (Hd x). intros Hdx.
  assert (Hsep : forall z, In z (f x) -> ~ In z (flat_map f l)).
  { intros z Hz Hin. apply in_flat_map in Hin. destruct Hin as (y & Hy & Hzy).
    assert (x = y) by (apply (Hdx y z); auto; [now left | now right]). subst. auto. }
  clear Hdx. induction (f x) as [|b r IHr]; intros Hn; cbn [app]; auto.
  inversion Hn; subst. constructor.
  - intros Hin. apply in_app_or in Hin. destruct Hin as [Hin|Hin]; auto.
    apply (Hsep b); auto. now left.
  - apply IHr; auto. intros z Hz. apply Hsep. now right.
Qed.

Lemma NoDup_idx_bound : forall (l : list nat) n, NoDup l -> (forall i, In i l -> i < n) -> length l <= n.
Proof.
  intros l n Hn Hb. rewrite <- (seq_length n 0).
  apply NoDup_incl_length; auto. intros i Hi. apply in_seq. specialize (Hb i Hi). lia.
Qed.

(* ====================================================================== *)
(* Live identifiers                                                        *)
(* ====================================================================== *)

Lemma live_idx_inj : forall a x y, live a x -> live a y -> idx x = idx y -> x = y.
Proof.
  intros a [i g] [j h] (n & Hn & Sn & _) (m & Hm & Sm & _) E. unfold node_at in *. cbn [idx gen] in *.
  subst j. rewrite Hn in Hm. inversion Hm; subst m. congruence.
Qed.

Lemma live_in_range : forall a x, live a x -> idx x < length (nodes a).
Proof. intros a x (n & Hn & _). apply nth_error_Some. unfold node_at in Hn. congruence. Qed.

Lemma NoDup_live_idx : forall a l, (forall y, In y l -> live a y) -> NoDup l -> NoDup (map idx l).
Proof.
  intros a. induction l as [|x l IH]; intros Hl Hn; cbn [map]; [constructor|].
  inversion Hn; subst. constructor.
  - intros Hin. apply in_map_iff in Hin. destruct Hin as (y & E & Hy).
    assert (y = x) by (apply (live_idx_inj a); auto; [apply Hl; now right | apply Hl; now left]).
    subst. auto.
  - apply IH; auto. intros y Hy. apply Hl. now right.
Qed.

(* ====================================================================== *)
(* Segments                                                                *)
(* ====================================================================== *)

Lemma dseg_in : forall a o xs pv nx x, dseg a o pv xs nx -> In x xs ->
  exists n, node_at a x n /\ parent n = o.
Proof.
  intros a o. induction xs as [|y r IH]; intros pv nx x H Hin; [contradiction|].
  cbn [dseg] in H. destruct H as (n & Hn & Hp & _ & _ & Hr).
  destruct Hin as [<-|Hin]; eauto.
Qed.

Lemma dseg_chain_from : forall a p xs pv, dseg a (Some p) pv xs None -> chain_from a p pv xs.
Proof.
  intros a p. induction xs as [|x r IH]; intros pv H; cbn [chain_from]; auto.
  cbn [dseg] in H. destruct H as (n & Hn & Hp & Hv & Hx & Hr).
  exists n. split; [auto|]. split; [auto|]. split; [auto|]. split; [|auto].
  rewrite Hx. destruct r; reflexivity.
Qed.

(* ====================================================================== *)
(* Parents, ancestors, depth in a represented forest                       *)
(* ====================================================================== *)

Section WithRepr.
Variables (a : arena) (F : forest).
Hypothesis HR : Repr a F.

Lemma kid_parent : forall x p, In x (kidsf F p) -> exists n, node_at a x n /\ parent n = Some p.
Proof. intros x p H. destruct (r_kids a F HR p) as [Hd _]. eapply dseg_in; eauto. Qed.

Lemma top_parent : forall x c, In c (tops F) -> In x c -> exists n, node_at a x n /\ parent n = None.
Proof. intros x c Hc H. destruct (r_tops a F HR c Hc) as (_ & Hd & _). eapply dseg_in; eauto. Qed.

Lemma parent_unique : forall x p q, In x (kidsf F p) -> In x (kidsf F q) -> p = q.
Proof.
  intros x p q Hp Hq. destruct (kid_parent _ _ Hp) as (n & Hn & En), (kid_parent _ _ Hq) as (m & Hm & Em).
  unfold node_at in *. congruence.
Qed.

Lemma kid_not_top : forall x p c, In x (kidsf F p) -> In c (tops F) -> In x c -> False.
Proof.
  intros x p c Hp Hc Hx. destruct (kid_parent _ _ Hp) as (n & Hn & En), (top_parent _ _ Hc Hx) as (m & Hm & Em).
  unfold node_at in *. congruence.
Qed.

Lemma kid_live : forall x p, In x (kidsf F p) -> live a x.
Proof. intros x p H. apply (r_live a F HR). left; eauto. Qed.

Lemma depthF_member : forall x d, depthF F x d -> memberF F x.
Proof. intros x d H. destruct H; [right | left]; eauto. Qed.

Lemma depthF_live : forall x d, depthF F x d -> live a x.
Proof. intros x d H. apply (r_live a F HR). eapply depthF_member; eauto. Qed.

Lemma live_depth : forall x, live a x -> exists d, depthF F x d.
Proof. intros x H. apply (r_depth a F HR). now apply (r_live a F HR). Qed.

Lemma depthF_fun : forall x d, depthF F x d -> forall e, depthF F x e -> d = e.
Proof.
  induction 1 as [x c Hc Hx | x p d Hp Hd IH]; intros e He; inversion He as [? c' Hc' Hx' | ? q e' Hq Hd']; subst; auto.
  - exfalso. eapply kid_not_top; eauto.
  - exfalso. eapply kid_not_top; eauto.
  - assert (p = q) by (eapply parent_unique; eauto). subst. f_equal. auto.
Qed.

(* pigeonhole: a node of depth d sits on a chain of d+1 distinct live nodes *)
Lemma depth_chain : forall x d, depthF F x d ->
  exists l, length l = S d /\ NoDup (map idx l) /\
            forall y, In y l -> live a y /\ exists e, e <= d /\ depthF F y e.
Proof.
  induction 1 as [x c Hc Hx | x p d Hp Hd IH].
  - exists [x]. split; [reflexivity|]. split; [repeat constructor; intros []|].
    intros y [<-|[]]. split.
    + apply (r_live a F HR). right; eauto.
    + exists 0. split; auto. econstructor; eauto.
  - destruct IH as (l & Hlen & Hnd & Hl). exists (x :: l). split; [cbn; lia|]. split.
    + cbn [map]. constructor; auto. intros Hin. apply in_map_iff in Hin. destruct Hin as (y & E & Hy).
      destruct (Hl y Hy) as (Ly & e & Hle & He).
      assert (y = x) by (apply (live_idx_inj a); auto; eapply kid_live; eauto). subst y.
      assert (e = S d) by (apply (depthF_fun x); auto; apply depth_kid with p; auto). lia.
    + intros y [<-|Hy].
      * split; [eapply kid_live; eauto|]. exists (S d). split; auto. econstructor; eauto.
      * destruct (Hl y Hy) as (Ly & e & Hle & He). split; auto. exists e. split; auto.
Qed.

Lemma depth_bound : forall x d, depthF F x d -> d < length (nodes a).
Proof.
  intros x d H. destruct (depth_chain _ _ H) as (l & Hlen & Hnd & Hl).
  assert (length (map idx l) <= length (nodes a)).
  { apply NoDup_idx_bound; auto. intros i Hi. apply in_map_iff in Hi. destruct Hi as (y & <- & Hy).
    apply live_in_range. apply Hl; auto. }
  rewrite map_length in H0. lia.
Qed.

Lemma anc_depth : forall y x, ancF F y x -> forall d, depthF F x d -> exists e, d <= e /\ depthF F y e.
Proof.
  induction 1 as [x | y p x Hp Ha IH]; intros d Hd.
  - exists d; auto.
  - destruct (IH d Hd) as (e & Hle & He). exists (S e). split; [lia|]. econstructor; eauto.
Qed.

Lemma anc_trans : forall z y x, ancF F z y -> ancF F y x -> ancF F z x.
Proof. induction 1 as [x0 | z p y Hp Ha IH]; intros H; auto. apply anc_step with p; auto. Qed.

Lemma anc_kid : forall k x, In k (kidsf F x) -> ancF F k x.
Proof. intros. econstructor; eauto. constructor. Qed.

(* view from the top: y below x is x itself or below one of x's children *)
Lemma anc_top : forall y x, ancF F y x -> y = x \/ exists k, In k (kidsf F x) /\ ancF F y k.
Proof.
  induction 1 as [x | y p x Hp Ha IH]; auto.
  right. destruct IH as [->|(k & Hk & Hak)].
  - exists y. split; auto. constructor.
  - exists k. split; auto. econstructor; eauto.
Qed.

Lemma anc_linear : forall y k1, ancF F y k1 -> forall k2, ancF F y k2 -> ancF F k1 k2 \/ ancF F k2 k1.
Proof.
  induction 1 as [x | y p k1 Hp Ha IH]; intros k2 H2; auto.
  inversion H2 as [|? q ? Hq Hb]; subst.
  - right. econstructor; eauto.
  - assert (p = q) by (eapply parent_unique; eauto). subst. auto.
Qed.

Lemma anc_same_depth : forall k1 k2 d, ancF F k1 k2 -> depthF F k1 d -> depthF F k2 d -> k1 = k2.
Proof.
  intros k1 k2 d H H1 H2. inversion H as [|? p ? Hp Ha]; subst; auto.
  destruct (anc_depth _ _ Ha _ H2) as (e & Hle & He).
  assert (d = S e) by (apply (depthF_fun k1); auto; apply depth_kid with p; auto). lia.
Qed.

Lemma anc_antisym : forall x y, live a y -> ancF F x y -> ancF F y x -> x = y.
Proof.
  intros x y Ly H1 H2. destruct (live_depth _ Ly) as (d & Hd).
  destruct (anc_depth _ _ H1 _ Hd) as (e & Hle & He).
  destruct (anc_depth _ _ H2 _ He) as (d' & Hle' & Hd').
  assert (d = d') by (eapply depthF_fun; eauto). subst d'.
  assert (e = d) by lia. subst e. eapply anc_same_depth; eauto.
Qed.

Lemma anc_live : forall y x, ancF F y x -> live a x -> live a y.
Proof. induction 1; intros; auto. eapply kid_live; eauto. Qed.

(* ====================================================================== *)
(* The abstract pre-order                                                  *)
(* ====================================================================== *)

Lemma preorderF_unfold : forall f x, preorderF (S f) F x = x :: flat_map (preorderF f F) (kidsf F x).
Proof. reflexivity. Qed.

Lemma treeF_unfold : forall f x, treeF (S f) F x = T x (map (treeF f F) (kidsf F x)).
Proof. reflexivity. Qed.

Lemma root_treeF : forall f x, root (treeF f F x) = x.
Proof. intros [|f] x; reflexivity. Qed.

Lemma roots_treeF : forall f l, map root (map (treeF f F) l) = l.
Proof.
  intros f l. rewrite map_map. rewrite <- (map_id l) at 2. apply map_ext. intros; apply root_treeF.
Qed.

Lemma flat_map_map : forall {A B C} (g : A -> B) (h : B -> list C) l,
  flat_map h (map g l) = flat_map (fun x => h (g x)) l.
Proof. intros A B C g h. induction l; cbn; auto. now rewrite IHl. Qed.

Lemma ids_treeF : forall f x, ids (treeF f F x) = preorderF f F x.
Proof.
  induction f as [|f IH]; intros x; [reflexivity|].
  rewrite treeF_unfold, preorderF_unfold, ids_unfold. f_equal.
  rewrite flat_map_map. apply flat_map_ext. intros; apply IH.
Qed.

Lemma preorder_anc : forall f x y, In y (preorderF f F x) -> ancF F y x.
Proof.
  induction f as [|f IH]; intros x y H.
  - destruct H as [<-|[]]. constructor.
  - rewrite preorderF_unfold in H. destruct H as [<-|H]; [constructor|].
    apply in_flat_map in H. destruct H as (k & Hk & Hy).
    eapply anc_trans; [apply IH; eauto | apply anc_kid; auto].
Qed.

Lemma preorder_root_in : forall f x, In x (preorderF f F x).
Proof. intros [|f] x; left; reflexivity. Qed.

Lemma anc_preorder : forall f x d y, depthF F x d -> length (nodes a) <= f + d -> ancF F y x ->
  In y (preorderF f F x).
Proof.
  induction f as [|f IH]; intros x d y Hd Hf Ha.
  - apply depth_bound in Hd. lia.
  - rewrite preorderF_unfold. destruct (anc_top _ _ Ha) as [->|(k & Hk & Hak)]; [now left|].
    right. apply in_flat_map. exists k. split; auto.
    apply (IH k (S d)); auto; [econstructor; eauto | lia].
Qed.

Lemma preorder_NoDup : forall f x d, depthF F x d -> NoDup (preorderF f F x).
Proof.
  induction f as [|f IH]; intros x d Hd.
  - repeat constructor. intros [].
  - rewrite preorderF_unfold. constructor.
    + intros Hin. apply in_flat_map in Hin. destruct Hin as (k & Hk & Hy).
      apply preorder_anc in Hy.
      assert (Hkd : depthF F k (S d)) by (econstructor; eauto).
      destruct (anc_depth _ _ Hy _ Hkd) as (e & Hle & He).
      assert (d = e) by (apply (depthF_fun x); auto). lia.
    + apply NoDup_flat_map.
      * apply (r_kids a F HR).
      * intros k Hk. apply (IH k (S d)). econstructor; eauto.
      * intros k1 k2 z H1 H2 Hz1 Hz2. apply preorder_anc in Hz1, Hz2.
        assert (D1 : depthF F k1 (S d)) by (econstructor; eauto).
        assert (D2 : depthF F k2 (S d)) by (econstructor; eauto).
        destruct (anc_linear _ _ Hz1 _ Hz2); [|symmetry]; eapply anc_same_depth; eauto.
Qed.

Lemma treeF_embeds : forall f x d, depthF F x d -> length (nodes a) <= f + d -> embeds a (treeF f F x).
Proof.
  induction f as [|f IH]; intros x d Hd Hf.
  - apply depth_bound in Hd. lia.
  - rewrite treeF_unfold.
    assert (Lx : live a x) by (eapply depthF_live; eauto).
    destruct Lx as (n & Hn & Hs & Hg).
    assert (Lx : live a x) by (exists n; auto).
    destruct (r_ends a F HR x n Lx Hn) as (Hfst & Hlst).
    econstructor; eauto; rewrite ?roots_treeF; auto.
    + apply dseg_chain_from. apply (r_kids a F HR).
    + apply Forall_forall. intros t Ht. apply in_map_iff in Ht. destruct Ht as (k & <- & Hk).
      apply (IH k (S d)); [econstructor; eauto | lia].
Qed.

End WithRepr.

(* ====================================================================== *)
(* Main theorems                                                           *)
(* ====================================================================== *)

Theorem repr_tree : forall a F x, Repr a F -> live a x ->
  let t := treeF (length (nodes a)) F x in
  tree_in a t /\ root t = x /\ ids t = preorderF (length (nodes a)) F x /\
  (forall y, In y (ids t) -> live a y /\ ancF F y x).
Proof.
  intros a F x HR Lx t. subst t.
  destruct (live_depth a F HR x Lx) as (d & Hd).
  assert (Hall : forall y, In y (ids (treeF (length (nodes a)) F x)) -> live a y /\ ancF F y x).
  { intros y Hy. rewrite ids_treeF in Hy. apply preorder_anc in Hy. split; auto.
    eapply anc_live; eauto. }
  split; [split|split; [|split]]; auto.
  - eapply treeF_embeds; eauto. lia.
  - apply (NoDup_live_idx a).
    + intros y Hy. apply Hall; auto.
    + rewrite ids_treeF. eapply preorder_NoDup; eauto.
  - apply root_treeF.
  - apply ids_treeF.
Qed.

Theorem repr_descendants : forall a F x, Repr a F -> live a x ->
  descendants x a = Ok (preorderF (length (nodes a)) F x).
Proof.
  intros a F x HR Lx. destruct (repr_tree a F x HR Lx) as (Ht & Hr & Hi & _).
  rewrite <- Hi, <- Hr at 1. rewrite Hr. rewrite <- Hr at 1. now apply descendants_preorder.
Qed.

Theorem preorder_complete : forall a F x y, Repr a F -> live a x -> live a y ->
  (In y (preorderF (length (nodes a)) F x) <-> ancF F y x).
Proof.
  intros a F x y HR Lx Ly. split.
  - apply preorder_anc.
  - intros Ha. destruct (live_depth a F HR x Lx) as (d & Hd).
    eapply anc_preorder; eauto. lia.
Qed.

Print Assumptions repr_tree.
Print Assumptions repr_descendants.
Print Assumptions preorder_complete.
