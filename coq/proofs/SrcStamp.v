(* SrcStamp.v — the regenerated definitions of gen/GenStamp.v (NodeStamp, Node helpers, id helpers,
   translated from id.rs / node.rs on every run) are exactly the hand-written model's. *)
From IT.proofs Require Import SrcTac.
From IT.gen Require Import GenStamp.
Open Scope mon_scope.

Lemma src_stamp_is_removed dbg s a : g_NodeStamp_is_removed dbg s a = (a, Ok (st_is_removed s)).
Proof. reflexivity. Qed.

Lemma src_stamp_as_removed dbg s a : g_NodeStamp_as_removed dbg s a = liftres (st_as_removed dbg s) a.
Proof. unfold g_NodeStamp_as_removed, st_as_removed, g_NodeStamp_is_removed, st_is_removed. mx. Qed.

Lemma src_stamp_reuseable dbg s a : g_NodeStamp_reuseable dbg s a = liftres (st_reuseable dbg s) a.
Proof. unfold g_NodeStamp_reuseable, st_reuseable, g_NodeStamp_is_removed, st_is_removed. mx. Qed.

Definition dup {A} (r : res A) : res (A * A) :=
  match r with Ok z => Ok (z, z) | Panic c => Panic c | Diverge => Diverge end.

Lemma src_stamp_reuse dbg s a : g_NodeStamp_reuse dbg s a = liftres (dup (st_reuse dbg s)) a.
Proof.
  unfold g_NodeStamp_reuse, st_reuse, dup, g_NodeStamp_reuseable, st_reuseable, g_NodeStamp_is_removed, st_is_removed. mx.
Qed.

Lemma src_node_is_removed dbg n a : g_Node_is_removed dbg n a = (a, Ok (node_is_removed n)).
Proof. reflexivity. Qed.

Lemma src_node_is_detached dbg n a : g_Node_is_detached dbg n a = (a, Ok (node_is_detached n)).
Proof. reflexivity. Qed.

Lemma src_node_new dbg v a : g_Node_new dbg v a = (a, Ok (fresh_node 0 (Data v))).
Proof. reflexivity. Qed.

(* Node::reuse as a function on node values (the model's node_reuse works on the slot index) *)
Definition node_reuse_val (dbg : bool) (n : node) (v : N) : res node :=
  if dbg && negb (match data n with NextFree _ => true | Data _ => false end) then Panic P_DEBUG_ASSERT
  else if dbg && negb (node_is_removed n) then Panic P_DEBUG_ASSERT
  else match st_reuse dbg (stamp n) with
       | Ok s' => Ok (fresh_node s' (Data v))
       | Panic c => Panic c
       | Diverge => Diverge
       end.

Lemma src_node_reuse dbg n v a : g_Node_reuse dbg n v a = liftres (node_reuse_val dbg n v) a.
Proof.
  unfold g_Node_reuse, node_reuse_val, node_is_removed. 
  unfold g_NodeStamp_reuse, st_reuse, g_NodeStamp_reuseable, st_reuseable, g_NodeStamp_is_removed, st_is_removed. mx.
Qed.

Lemma src_index0 dbg x a : g_NodeId_index0 dbg x a = (a, Ok (idx x)).
Proof. unfold g_NodeId_index0, ret. cbn. rewrite Nat.sub_0_r. reflexivity. Qed.

Lemma src_from_non_zero_usize dbg i s a : g_NodeId_from_non_zero_usize dbg (S i) s a = (a, Ok (mkId i s)).
Proof. reflexivity. Qed.

Lemma src_id_is_removed dbg x a : g_NodeId_is_removed dbg x a = lift (id_is_removed x) a.
Proof. unfold g_NodeId_is_removed, id_is_removed. mx. Qed.
