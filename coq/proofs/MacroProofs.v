(* MacroProofs.v — the `tree!` macro builds what the literal says.
   1. [macro_is_reference]: the flatten-and-interpret machinery of MacroModel.v (stack loop, run
      grouping, dropping the useless last run, two-register interpreter) computes exactly the
      reference semantics of MacroSpec.v (plain recursion on the literal).
   2. [reference_builds_literal]: the reference semantics never panics and builds, under the root
      and after its existing children, nodes shaped like the literal, in textual order, with the
      payloads of the literal, evaluating every expression once, and changes nothing else.
   3. [macro_builds_literal]: both together.
   Release semantics (dbg = false). *)
From IT Require Import Props MacroSpec.
From IT.proofs Require Import Layer1 ReprBase Assembly.
From IT.proofs Require AllocProofs.
Require Import Lia.
Local Open Scope nat_scope.

(* ====================================================================== *)
(* Part A.  Induction over literals; sizes                                  *)
(* ====================================================================== *)

Fixpoint lit_ind' (P : lit -> Prop) (H : forall e ks, Forall P ks -> P (L e ks)) (t : lit) : P t :=
  match t with
  | L e ks =>
      H e ks ((fix go (l : list lit) : Forall P l :=
                 match l with
                 | [] => Forall_nil P
                 | k :: r => Forall_cons k (lit_ind' P H k) (go r)
                 end) ks)
  end.

Lemma lit_size_L : forall e ks, lit_size (L e ks) = S (lits_size ks).
Proof.
  intros e ks. reflexivity. Qed.

Lemma lits_size_cons : forall t l, lits_size (t :: l) = lit_size t + lits_size l.
Proof. reflexivity. Qed.

(* ====================================================================== *)
(* Part B.  What [flatten] produces                                         *)
(* ====================================================================== *)

(* the actions a literal node stands for: append it; if it has children, step into it, emit the
   children, step back out *)
Fixpoint acts_of (t : lit) : list action :=
  match t with
  | L e ks =>
      match ks with
      | [] => [AAppend e]
      | _ :: _ => AAppend e :: ANest :: flat_map acts_of ks ++ [AParent]
      end
  end.

Definition acts_item (i : lit + unit) : list action :=
  match i with inl t => acts_of t | Datatypes.inr _ => [AParent] end.

Definition weight (i : lit + unit) : nat :=
  match i with inl t => 2 * lit_size t | Datatypes.inr _ => 1 end.

Lemma acts_of_leaf : forall e, acts_of (L e []) = [AAppend e].
Proof. reflexivity. Qed.

Lemma acts_of_node : forall e k ks,
  acts_of (L e (k :: ks)) = AAppend e :: ANest :: flat_map acts_of (k :: ks) ++ [AParent].
Proof. reflexivity. Qed.

Lemma flat_map_acts_inl : forall l, flat_map acts_item (map inl l) = flat_map acts_of l.
Proof. induction l as [|t r IH]; [reflexivity|]. cbn [map flat_map acts_item]. now rewrite IH. Qed.

Lemma list_sum_cons : forall x l, list_sum (x :: l) = x + list_sum l.
Proof. reflexivity. Qed.

Lemma weight_inl : forall l, list_sum (map weight (map inl l)) = 2 * lits_size l.
Proof.
  induction l as [|t r IH]; [reflexivity|].
  rewrite !map_cons, list_sum_cons, IH, lits_size_cons. cbn [weight]. lia.
Qed.

Lemma flatten_loop_spec : forall fuel stack acc,
  list_sum (map weight stack) <= fuel ->
  flatten_loop fuel stack acc = Some (acc ++ flat_map acts_item stack).
Proof.
  induction fuel as [|f IH]; intros [|item rest] acc H.
  - cbn. now rewrite app_nil_r.
  - exfalso. rewrite map_cons, list_sum_cons in H. destruct item as [[e ks]|u]; cbn [weight] in H.
    + rewrite lit_size_L in H. lia.
    + lia.
  - cbn. now rewrite app_nil_r.
  - rewrite map_cons, list_sum_cons in H. destruct item as [[e ks]|[]].
    + destruct ks as [|k ks].
      * cbn [flatten_loop]. rewrite IH.
        -- cbn [flat_map acts_item]. rewrite acts_of_leaf. now rewrite <- app_assoc.
        -- cbn [weight] in H. rewrite lit_size_L in H. lia.
      * cbn [flatten_loop]. rewrite IH.
        -- f_equal. cbn [flat_map acts_item]. rewrite acts_of_node.
           rewrite flat_map_app, flat_map_acts_inl. cbn [flat_map acts_item].
           cbn [app]. rewrite <- !app_assoc. cbn [app]. reflexivity.
        -- rewrite map_app, list_sum_app, weight_inl, map_cons, list_sum_cons.
           cbn [weight] in H |- *. rewrite lit_size_L in H. lia.
    + cbn [flatten_loop]. rewrite IH.
      * cbn [flat_map acts_item]. now rewrite <- app_assoc.
      * cbn [weight] in H. lia.
Qed.

(* ---------- grouping into runs and flattening again is the identity ---------- *)
Lemma concat_group_runs : forall l, concat (group_runs l) = l.
Proof.
  induction l as [|x t IH]; [reflexivity|].
  cbn [group_runs]. destruct (group_runs t) as [|[|y ys] gs].
  - cbn in *. now rewrite <- IH.
  - cbn in *. now rewrite <- IH.
  - destruct (same_kind x y); cbn in *; now rewrite <- IH.
Qed.

(* every run is non-empty and of one kind *)
Definition run_ok (g : list action) : Prop :=
  exists x r, g = x :: r /\ Forall (fun y => same_kind x y = true) r.

Lemma same_kind_trans : forall x y z, same_kind x y = true -> same_kind y z = true -> same_kind x z = true.
Proof. intros [] [] []; cbn; congruence. Qed.

Lemma group_runs_ok : forall l, Forall run_ok (group_runs l).
Proof.
  induction l as [|x t IH]; [constructor|].
  cbn [group_runs]. destruct (group_runs t) as [|[|y ys] gs].
  - constructor; auto. exists x, []. auto.
  - constructor; auto. exists x, []. auto.
  - destruct (same_kind x y) eqn:E.
    + inversion IH as [|g gs' Hg Hgs]; subst. constructor; auto.
      destruct Hg as (y' & r & Ey & Hr). inversion Ey; subst y' r.
      exists x, (y :: ys). split; auto. constructor; auto.
      eapply Forall_impl; [|exact Hr]. intros z Hz. cbv beta in *. eapply same_kind_trans; eauto.
    + constructor; auto. exists x, []. auto.
Qed.

Lemma parent_run_repeat : forall g, run_ok g -> is_parent_run g = true -> g = repeat AParent (length g).
Proof.
  intros g (x & r & -> & Hr) P. destruct x; try discriminate. clear P.
  cbn [length repeat]. f_equal. induction Hr as [|y r Hy _ IH]; [reflexivity|].
  cbn [length repeat]. destruct y; try discriminate. now f_equal.
Qed.

(* dropping the useless last run only removes trailing [AParent]s *)
Lemma drop_last_spec : forall l, exists k, l = concat (drop_useless_last (group_runs l)) ++ repeat AParent k.
Proof.
  intros l. pose proof (concat_group_runs l) as C. pose proof (group_runs_ok l) as OK.
  unfold drop_useless_last. destruct (rev (group_runs l)) as [|g r] eqn:E.
  - exists 0. cbn [repeat]. now rewrite app_nil_r.
  - destruct (is_parent_run g) eqn:P.
    + assert (G : group_runs l = rev r ++ [g]).
      { rewrite <- (rev_involutive (group_runs l)), E. reflexivity. }
      exists (length g). rewrite <- parent_run_repeat; auto.
      * rewrite <- C at 1. rewrite G, concat_app. cbn [concat]. now rewrite app_nil_r.
      * rewrite G in OK. apply Forall_app in OK. destruct OK as [_ OK]. now inversion OK.
    + exists 0. cbn [repeat]. now rewrite app_nil_r.
Qed.

Theorem flatten_spec : forall nodes, exists acts k,
  flatten nodes = Some acts /\ flat_map acts_of nodes = acts ++ repeat AParent k.
Proof.
  intros nodes. unfold flatten. rewrite flatten_loop_spec.
  - cbn [app]. rewrite flat_map_acts_inl.
    destruct (drop_last_spec (flat_map acts_of nodes)) as [k Hk].
    eexists. exists k. split; [reflexivity | exact Hk].
  - rewrite weight_inl. lia.
Qed.

(* ====================================================================== *)
(* Part C.  The interpreter                                                 *)
(* ====================================================================== *)

Lemma exec_app : forall l1 l2 s a,
  exec_actions false (l1 ++ l2) s a = bind (exec_actions false l1 s) (exec_actions false l2) a.
Proof.
  induction l1 as [|x l1 IH]; intros l2 s a; [reflexivity|].
  cbn [app exec_actions]. unfold bind at 1 3. unfold bind at 1.
  destruct (exec_action false x s a) as [a1 [s1|c|]]; auto. rewrite IH. reflexivity.
Qed.

Lemma exec_app_ok : forall l1 l2 s a a1 s1, exec_actions false l1 s a = (a1, Ok s1) ->
  exec_actions false (l1 ++ l2) s a = exec_actions false l2 s1 a1.
Proof. intros. rewrite exec_app. unfold bind. now rewrite H. Qed.

Lemma exec_app_inv : forall l1 l2 s a a' s', exec_actions false (l1 ++ l2) s a = (a', Ok s') ->
  exists a1 s1, exec_actions false l1 s a = (a1, Ok s1) /\ exec_actions false l2 s1 a1 = (a', Ok s').
Proof.
  intros l1 l2 s a a' s' H. rewrite exec_app in H. unfold bind in H.
  destruct (exec_actions false l1 s a) as [a1 [s1|c|]]; try discriminate. eauto.
Qed.

Lemma exec_append : forall e s a a' x, append_value false (m_node s) e a = (a', Ok x) ->
  exec_action false (AAppend e) s a = (a', Ok (mkMState (m_node s) (Some x) (m_log s ++ [e]) (m_new s ++ [x]))).
Proof. intros. cbn [exec_action]. erewrite bind_ok by eassumption. reflexivity. Qed.

Lemma exec_nest : forall s a l, m_last s = Some l ->
  exec_action false ANest s a = (a, Ok (mkMState l (Some l) (m_log s) (m_new s))).
Proof. intros s a l H. cbn [exec_action]. rewrite H. reflexivity. Qed.

Lemma exec_parent : forall s a n p, get a (m_node s) = Some n -> parent n = Some p ->
  exec_action false AParent s a = (a, Ok (mkMState p (m_last s) (m_log s) (m_new s))).
Proof.
  intros s a n p H1 H2. cbn [exec_action]. unfold bind, get_arena. rewrite H1, H2. reflexivity.
Qed.

(* stepping out only moves the [__node] register *)
Lemma exec_parent_inv : forall s a a' s', exec_action false AParent s a = (a', Ok s') ->
  a' = a /\ m_log s' = m_log s /\ m_new s' = m_new s.
Proof.
  intros s a a' s' H. cbn [exec_action] in H. unfold bind, get_arena in H.
  destruct (get a (m_node s)) as [n|]; [|discriminate].
  destruct (parent n); [|discriminate]. unfold ret in H. inversion H; subst. auto.
Qed.

Lemma exec_parents_inv : forall k s a a' s', exec_actions false (repeat AParent k) s a = (a', Ok s') ->
  a' = a /\ m_log s' = m_log s /\ m_new s' = m_new s.
Proof.
  induction k as [|k IH]; intros s a a' s' H.
  - cbn in H. inversion H; subst. auto.
  - cbn [repeat exec_actions] in H. unfold bind in H.
    destruct (exec_action false AParent s a) as [a1 [s1|c|]] eqn:E; try discriminate.
    apply exec_parent_inv in E. destruct E as (-> & E1 & E2).
    apply IH in H. destruct H as (-> & H1 & H2). split; auto. split; congruence.
Qed.

(* hence the dropped trailing run is not observable in the result *)
Lemma exec_drop_parents : forall acts k s a a' s',
  exec_actions false (acts ++ repeat AParent k) s a = (a', Ok s') ->
  exists s1, exec_actions false acts s a = (a', Ok s1) /\ m_log s1 = m_log s' /\ m_new s1 = m_new s'.
Proof.
  intros acts k s a a' s' H. apply exec_app_inv in H. destruct H as (a1 & s1 & H1 & H2).
  apply exec_parents_inv in H2. destruct H2 as (-> & E1 & E2). exists s1. auto.
Qed.

(* [runs acts p a a' lg nw]: from any state whose [__node] is p, in arena a, the actions run without
   panic to arena a', come back to [__node] = p, and add lg to the log and nw to the created ids *)
Definition runs (acts : list action) (p : nid) (a a' : arena) (lg : list N) (nw : list nid) : Prop :=
  forall s, m_node s = p ->
    exists s', exec_actions false acts s a = (a', Ok s') /\
      m_node s' = p /\ m_log s' = m_log s ++ lg /\ m_new s' = m_new s ++ nw.

Lemma runs_nil : forall p a, runs [] p a a [] [].
Proof. intros p a s Hs. exists s. rewrite !app_nil_r. auto. Qed.

Lemma runs_app : forall l1 l2 p a a1 a2 lg1 lg2 nw1 nw2,
  runs l1 p a a1 lg1 nw1 -> runs l2 p a1 a2 lg2 nw2 -> runs (l1 ++ l2) p a a2 (lg1 ++ lg2) (nw1 ++ nw2).
Proof.
  intros l1 l2 p a a1 a2 lg1 lg2 nw1 nw2 H1 H2 s Hs.
  destruct (H1 s Hs) as (s1 & E1 & N1 & L1 & W1).
  destruct (H2 s1 N1) as (s2 & E2 & N2 & L2 & W2).
  exists s2. erewrite exec_app_ok by exact E1. split; auto. split; auto.
  rewrite L2, L1, W2, W1, !app_assoc. auto.
Qed.

Lemma runs_leaf : forall e p a a' x, append_value false p e a = (a', Ok x) ->
  runs [AAppend e] p a a' [e] [x].
Proof.
  intros e p a a' x E s Hs. cbn [exec_actions].
  erewrite bind_ok by (apply exec_append; rewrite Hs; exact E).
  eexists. split; [reflexivity|]. cbn. auto.
Qed.

Lemma runs_node : forall e body p x a a1 a2 lg nw n,
  append_value false p e a = (a1, Ok x) ->
  runs body x a1 a2 lg nw ->
  get a2 x = Some n -> parent n = Some p ->
  runs (AAppend e :: ANest :: body ++ [AParent]) p a a2 (e :: lg) (x :: nw).
Proof.
  intros e body p x a a1 a2 lg nw n E B G P s Hs. cbn [exec_actions].
  erewrite bind_ok by (apply exec_append; rewrite Hs; exact E).
  erewrite bind_ok by (apply exec_nest; reflexivity).
  cbn [m_log m_new].
  destruct (B (mkMState x (Some x) (m_log s ++ [e]) (m_new s ++ [x])) eq_refl) as (s3 & E3 & N3 & L3 & W3).
  erewrite exec_app_ok by exact E3. cbn [exec_actions].
  erewrite bind_ok by (eapply exec_parent; [rewrite N3; exact G | exact P]).
  eexists. split; [reflexivity|]. cbn [m_node m_log m_new]. split; auto.
  rewrite L3, W3. cbn [m_log m_new]. rewrite <- !app_assoc. auto.
Qed.

(* ====================================================================== *)
(* Part D.  Payloads, growth of the arena, single allocation steps         *)
(* ====================================================================== *)

Lemma has_payload_iff : forall a x e, has_payload a x e <-> payload_of_id a x = Some e.
Proof.
  intros a x e. unfold has_payload, payload_of_id. split.
  - intros (n & -> & ->). reflexivity.
  - destruct (nth_error (nodes a) (idx x)) as [n|]; [|discriminate].
    destruct (data n) eqn:D; [|discriminate]. intros H. inversion H; subst. eauto.
Qed.

(* every live node stays live and keeps its payload *)
Definition grows (a a' : arena) : Prop :=
  forall y, live a y -> live a' y /\ payload_of_id a' y = payload_of_id a y.
(* the ids of l are created between a and a' *)
Definition fresh_ids (a a' : arena) (l : list nid) : Prop :=
  forall y, In y l -> ~ live a y /\ live a' y.

Lemma grows_refl : forall a, grows a a.
Proof. intros a y L. auto. Qed.

Lemma grows_trans : forall a b c, grows a b -> grows b c -> grows a c.
Proof.
  intros a b c H1 H2 y L. destruct (H1 y L) as [L1 E1]. destruct (H2 y L1) as [L2 E2].
  split; auto. congruence.
Qed.

Lemma payload_same_shape : forall a a' y, same_shape a a' -> payload_of_id a' y = payload_of_id a y.
Proof.
  intros a a' y (LEN & _ & _ & H). unfold payload_of_id.
  destruct (nth_error (nodes a) (idx y)) as [n|] eqn:E.
  - destruct (H _ _ E) as (n' & -> & _ & ->). reflexivity.
  - apply nth_error_None in E. rewrite <- LEN in E. apply nth_error_None in E. now rewrite E.
Qed.

Lemma same_shape_grows : forall a a', same_shape a a' -> grows a a'.
Proof.
  intros a a' S y L. split; [now apply (live_same_shape a a' y S) | now apply payload_same_shape].
Qed.

Lemma kids_not_live : forall a F x, Repr a F -> ~ live a x -> kidsf F x = [].
Proof.
  intros a F x R NL. destruct (kidsf F x) eqn:E; auto. exfalso. apply NL, (r_owner _ _ R).
  rewrite E. discriminate.
Qed.

(* new_node: everything needed to iterate, including the payload facts *)
Lemma new_step : forall w F v, Repr (ar w) F -> AllocOK w ->
  exists w' x, new_node false v (ar w) = (ar w', Ok x) /\ Repr (ar w') (f_new x F) /\ AllocOK w' /\
    ~ live (ar w) x /\ live (ar w') x /\ has_payload (ar w') x v /\ grows (ar w) (ar w').
Proof.
  intros w F v R OK.
  destruct (new_full w F v R OK) as (a' & x & E & R' & NL & _ & LX & OK').
  destruct (al_free _ OK) as (FL & FO).
  destruct (AllocProofs.new_node_spec w v FL OK FO) as (a2 & x2 & E2 & _ & _ & HX & HO & _).
  rewrite E in E2. inversion E2; subst a2 x2. clear E2.
  exists (mkWorld a' (issued w ++ [x]) (removed w) (dropped w)), x. cbn [ar].
  split; [exact E|]. split; [exact R'|]. split; [exact OK'|]. split; [exact NL|]. split; [exact LX|].
  split.
  - exists (fresh_node (gen x) (Data v)). split; auto.
  - intros y L.
    assert (L' : live a' y).
    { apply (r_live _ _ R'). apply new_member. right. now apply (r_live _ _ R). }
    split; auto. unfold payload_of_id. rewrite HO; auto.
    intros Ei. apply NL. rewrite <- (live_inj a' y x L' LX Ei). exact L.
Qed.

(* append_value: likewise *)
Lemma append_step : forall w F p v, Repr (ar w) F -> AllocOK w -> live (ar w) p ->
  exists w' x, append_value false p v (ar w) = (ar w', Ok x) /\
    Repr (ar w') (f_append_value p x F) /\ AllocOK w' /\
    ~ live (ar w) x /\ live (ar w') x /\ p <> x /\ has_payload (ar w') x v /\ grows (ar w) (ar w').
Proof.
  intros w F p v R OK Lp.
  destruct (append_full w F p v R OK Lp)
    as (a1 & a' & x & E1 & E & R1 & R' & NL & S & Lp1 & Lx1 & NE & _ & _ & OK').
  destruct (new_step w F v R OK) as (w1 & x1 & E1' & _ & _ & _ & _ & HP & G).
  rewrite E1 in E1'. inversion E1'; subst a1 x1. clear E1'.
  exists (mkWorld a' (issued w ++ [x]) (removed w) (dropped w)), x. cbn [ar].
  split; [exact E|]. split; [exact R'|]. split; [exact OK'|]. split; [exact NL|].
  split; [now apply (live_same_shape _ _ x S)|]. split; [exact NE|].
  split.
  - apply has_payload_iff. rewrite (payload_same_shape _ _ x S). now apply has_payload_iff.
  - eapply grows_trans; [exact G | now apply same_shape_grows].
Qed.

(* ====================================================================== *)
(* Part E.  Rose trees, payload matching                                    *)
(* ====================================================================== *)

Lemma subtree_root_in : forall t s, subtree_of t s -> In (root s) (ids t).
Proof.
  induction 1 as [t|x ks k s Hk _ IH].
  - destruct t. cbn. auto.
  - cbn [ids]. right. apply in_flat_map. eauto.
Qed.

Lemma pay_match_mono : forall a a' t tr,
  (forall y, In y (ids tr) -> payload_of_id a' y = payload_of_id a y) ->
  pay_match a t tr -> pay_match a' t tr.
Proof.
  intros a a' t. induction t as [e ks IH] using lit_ind'. intros tr Hy H.
  inversion H as [e' ks' x ts HP HF]; subst. constructor.
  - apply has_payload_iff. rewrite Hy by (cbn; auto). now apply has_payload_iff.
  - assert (Hy' : forall y, In y (flat_map ids ts) -> payload_of_id a' y = payload_of_id a y)
      by (intros; apply Hy; cbn; auto).
    clear Hy H HP. induction HF as [|k t' ks' ts' Hk HF IHF]; constructor.
    + inversion IH; subst. apply H1; auto. intros. apply Hy'. cbn [flat_map]. apply in_or_app; auto.
    + inversion IH; subst. apply IHF; auto. intros. apply Hy'. cbn [flat_map]. apply in_or_app; auto.
Qed.

Lemma pays_mono : forall a a' ts trs,
  (forall y, In y (flat_map ids trs) -> payload_of_id a' y = payload_of_id a y) ->
  payloads_match a ts trs -> payloads_match a' ts trs.
Proof.
  intros a a' ts trs Hy H. induction H as [|t tr ts trs Ht H IH]; constructor.
  - eapply pay_match_mono; [|exact Ht]. intros. apply Hy. cbn [flat_map]. apply in_or_app; auto.
  - apply IH. intros. apply Hy. cbn [flat_map]. apply in_or_app; auto.
Qed.

Lemma pay_match_payload : forall a e ks x ts, pay_match a (L e ks) (T x ts) -> payload_of_id a x = Some e.
Proof. intros a e ks x ts H. inversion H; subst. now apply has_payload_iff. Qed.

(* ====================================================================== *)
(* Part F.  What building a list of literals under p does                   *)
(* ====================================================================== *)

Definition built (w : world) (F : forest) (p : nid) (ts : list lit)
                 (w' : world) (trs : list rose) (F' : forest) : Prop :=
  Forall2 shaped ts trs /\ Repr (ar w') F' /\ AllocOK w' /\
  kidsf F' p = kidsf F p ++ map root trs /\
  (forall t x ts', In t trs -> subtree_of t (T x ts') -> kidsf F' x = map root ts') /\
  (forall q, q <> p -> ~ In q (flat_map ids trs) -> kidsf F' q = kidsf F q) /\
  tops F' = tops F /\
  fresh_ids (ar w) (ar w') (flat_map ids trs) /\
  grows (ar w) (ar w') /\
  payloads_match (ar w') ts trs.

Lemma built_nil : forall w F p, Repr (ar w) F -> AllocOK w -> built w F p [] w [] F.
Proof.
  intros w F p R OK. unfold built. cbn [map flat_map]. rewrite app_nil_r.
  split; [constructor|]. split; [exact R|]. split; [exact OK|]. split; [reflexivity|].
  split; [intros t x ts' []|]. split; [reflexivity|]. split; [reflexivity|].
  split; [intros y []|]. split; [apply grows_refl | constructor].
Qed.

Lemma built_app : forall w F p ts1 ts2 w1 trs1 trs2 F1 w2 F2, live (ar w) p ->
  built w F p ts1 w1 trs1 F1 -> built w1 F1 p ts2 w2 trs2 F2 ->
  built w F p (ts1 ++ ts2) w2 (trs1 ++ trs2) F2.
Proof.
  intros w F p ts1 ts2 w1 trs1 trs2 F1 w2 F2 Lp
    (S1 & R1 & OK1 & K1 & T1 & O1 & P1 & N1 & G1 & M1)
    (S2 & R2 & OK2 & K2 & T2 & O2 & P2 & N2 & G2 & M2).
  assert (D : forall x, In x (flat_map ids trs1) -> x <> p /\ ~ In x (flat_map ids trs2)).
  { intros x Hx. destruct (N1 x Hx) as [NL L1]. split.
    - intros ->. contradiction.
    - intros Hx2. destruct (N2 x Hx2) as [NL2 _]. contradiction. }
  unfold built. rewrite !flat_map_app.
  split; [now apply Forall2_app|]. split; [exact R2|]. split; [exact OK2|].
  split; [rewrite K2, K1, map_app, app_assoc; reflexivity|].
  split.
  { intros t x ts' Ht Hs. apply in_app_or in Ht. destruct Ht as [Ht|Ht].
    - assert (Hx : In x (flat_map ids trs1)).
      { apply in_flat_map. exists t. split; auto. apply (subtree_root_in t (T x ts') Hs). }
      destruct (D x Hx) as [Dp D2]. rewrite O2 by auto. eapply T1; eauto.
    - eapply T2; eauto. }
  split.
  { intros q Hq Hn. rewrite O2, O1; auto; intros H; apply Hn; apply in_or_app; auto. }
  split; [congruence|].
  split.
  { intros y Hy. apply in_app_or in Hy. destruct Hy as [Hy|Hy].
    - destruct (N1 y Hy) as [A B]. split; auto. now apply G2.
    - destruct (N2 y Hy) as [A B]. split; auto. intros L. apply A. now apply G1. }
  split; [eapply grows_trans; eauto|].
  unfold payloads_match. apply Forall2_app; auto.
  apply (pays_mono (ar w1)); auto.
  intros y Hy. destruct (N1 y Hy) as [_ L]. exact (proj2 (G2 y L)).
Qed.

Lemma built_node : forall w F p e ks w2 x w3 trs F3,
  Repr (ar w) F -> live (ar w) p -> ~ live (ar w) x -> live (ar w2) x -> p <> x ->
  has_payload (ar w2) x e -> grows (ar w) (ar w2) ->
  built w2 (f_append_value p x F) x ks w3 trs F3 ->
  built w F p [L e ks] w3 [T x trs] F3.
Proof.
  intros w F p e ks w2 x w3 trs F3 R Lp NL Lx NE HP G
    (S3 & R3 & OK3 & K3 & T3 & O3 & P3 & N3 & G3 & M3).
  assert (Kx : kidsf F x = []) by (eapply kids_not_live; eauto).
  assert (Exp : nid_eqb x p = false) by (apply nid_eqb_neq; congruence).
  assert (Np : ~ In p (flat_map ids trs)).
  { intros H. destruct (N3 p H) as [A _]. apply A. now apply G. }
  unfold built. cbn [flat_map map root ids]. rewrite !app_nil_r.
  split; [repeat constructor; exact S3|].
  split; [exact R3|]. split; [exact OK3|].
  split.
  { rewrite O3 by auto. cbn [f_append_value kidsf]. now rewrite nid_eqb_refl. }
  split.
  { intros t x' ts' [<-|[]] Hs. inversion Hs as [t0|x0 ks0 k s Hk Hks]; subst.
    - rewrite K3. cbn [f_append_value kidsf]. rewrite Exp, Kx. reflexivity.
    - eapply T3; eauto. }
  split.
  { intros q Hq Hn. rewrite O3.
    - cbn [f_append_value kidsf]. now rewrite (nid_eqb_neq q p Hq).
    - intros ->. apply Hn. now left.
    - intros H. apply Hn. now right. }
  split; [exact P3|].
  split.
  { intros y [<-|Hy].
    - split; auto. now apply G3.
    - destruct (N3 y Hy) as [A B]. split; auto. intros L. apply A. now apply G. }
  split; [eapply grows_trans; eauto|].
  constructor; [|constructor]. constructor; [|exact M3].
  apply has_payload_iff. rewrite (proj2 (G3 x Lx)). now apply has_payload_iff.
Qed.

(* ====================================================================== *)
(* Part G.  The reference semantics and the interpreter, by induction on   *)
(*          the literal                                                     *)
(* ====================================================================== *)

Definition ref_go (dbg : bool) (x : nid) : list lit -> M (list nid * list N) :=
  fix go (l : list lit) : M (list nid * list N) :=
    match l with
    | [] => ret ([], [])
    | k :: rest =>
        r1 <- ref_node dbg x k ;;
        r2 <- go rest ;;
        ret (fst r1 ++ fst r2, snd r1 ++ snd r2)
    end.

Lemma ref_go_eq : forall dbg x ks a, ref_go dbg x ks a = ref_forest dbg x ks a.
Proof.
  induction ks as [|k ks IH]; intros a; [reflexivity|].
  change (ref_go dbg x (k :: ks))
    with (r1 <- ref_node dbg x k ;; r2 <- ref_go dbg x ks ;; ret (fst r1 ++ fst r2, snd r1 ++ snd r2)).
  cbn [ref_forest]. unfold bind.
  destruct (ref_node dbg x k a) as [a1 [r1|c|]]; auto. rewrite IH. reflexivity.
Qed.

Lemma ref_node_eq : forall dbg p e ks a,
  ref_node dbg p (L e ks) a
  = (x <- append_value dbg p e ;; r <- ref_forest dbg x ks ;; ret (x :: fst r, e :: snd r)) a.
Proof.
  intros dbg p e ks a.
  change (ref_node dbg p (L e ks))
    with (x <- append_value dbg p e ;; r <- ref_go dbg x ks ;; ret (x :: fst r, e :: snd r)).
  unfold bind at 1 3. destruct (append_value dbg p e a) as [a1 [x|c|]]; auto.
  unfold bind. rewrite ref_go_eq. reflexivity.
Qed.

(* one literal node under p / a list of literal nodes under p: the reference semantics succeeds,
   builds the nodes, and the interpreter run on the corresponding actions does the same *)
Definition PN (t : lit) : Prop := forall w F p, Repr (ar w) F -> AllocOK w -> live (ar w) p ->
  exists w' tr F',
    ref_node false p t (ar w) = (ar w', Ok (ids tr, lit_preorder t)) /\
    built w F p [t] w' [tr] F' /\
    runs (acts_of t) p (ar w) (ar w') (lit_preorder t) (ids tr).

Definition PF (ts : list lit) : Prop := forall w F p, Repr (ar w) F -> AllocOK w -> live (ar w) p ->
  exists w' trs F',
    ref_forest false p ts (ar w) = (ar w', Ok (flat_map ids trs, flat_map lit_preorder ts)) /\
    built w F p ts w' trs F' /\
    runs (flat_map acts_of ts) p (ar w) (ar w') (flat_map lit_preorder ts) (flat_map ids trs).

Lemma PN_step : forall e ks, PF ks -> PN (L e ks).
Proof.
  intros e ks HF w F p R OK Lp.
  destruct (append_step w F p e R OK Lp) as (w2 & x & E & R2 & OK2 & NL & Lx & NE & HP & G).
  destruct (HF w2 _ x R2 OK2 Lx) as (w3 & trs & F3 & E3 & B3 & RN3).
  exists w3, (T x trs), F3.
  assert (B : built w F p [L e ks] w3 [T x trs] F3) by (eapply built_node; eauto).
  split; [|split; [exact B|]].
  - rewrite ref_node_eq. erewrite bind_ok by exact E. erewrite bind_ok by exact E3. reflexivity.
  - destruct ks as [|k ks].
    + cbn [ref_forest] in E3. unfold ret in E3. injection E3 as Ea Ei.
      destruct B3 as (SH & _). inversion SH; subst trs.
      rewrite acts_of_leaf. cbn [lit_preorder flat_map ids]. rewrite <- Ea. apply runs_leaf. exact E.
    + rewrite acts_of_node.
      destruct B as (_ & R3 & _ & K & _).
      assert (Hx : In x (kidsf F3 p)) by (rewrite K; apply in_or_app; right; cbn; auto).
      change (lit_preorder (L e (k :: ks))) with (e :: flat_map lit_preorder (k :: ks)).
      change (ids (T x trs)) with (x :: flat_map ids trs).
      apply runs_node with (a1 := ar w2) (n := nd (ar w3) x).
      * exact E.
      * exact RN3.
      * unfold get. apply at_nd. apply live_inr. eapply kid_live; eauto.
      * eapply kid_parent; eauto.
Qed.

Lemma PF_of_Forall : forall ts, Forall PN ts -> PF ts.
Proof.
  induction 1 as [|t rest Ht _ IH]; intros w F p R OK Lp.
  - exists w, [], F. split; [reflexivity|]. split; [apply built_nil; auto | apply runs_nil].
  - destruct (Ht w F p R OK Lp) as (w1 & tr & F1 & E1 & B1 & RN1).
    pose proof B1 as (_ & R1 & OK1 & _ & _ & _ & _ & _ & G1 & _).
    assert (Lp1 : live (ar w1) p) by (apply G1; exact Lp).
    destruct (IH w1 F1 p R1 OK1 Lp1) as (w2 & trs & F2 & E2 & B2 & RN2).
    exists w2, (tr :: trs), F2. split; [|split].
    + cbn [ref_forest]. erewrite bind_ok by exact E1. erewrite bind_ok by exact E2. reflexivity.
    + apply (built_app w F p [t] rest w1 [tr] trs F1 w2 F2); auto.
    + cbn [flat_map]. eapply runs_app; eauto.
Qed.

Theorem PN_all : forall t, PN t.
Proof. intros t. induction t as [e ks IH] using lit_ind'. apply PN_step. now apply PF_of_Forall. Qed.

Theorem PF_all : forall ts, PF ts.
Proof. intros ts. apply PF_of_Forall. apply Forall_forall. intros. apply PN_all. Qed.

(* ====================================================================== *)
(* Part H.  The theorems                                                    *)
(* ====================================================================== *)

(* the interpreter on the flattened literal, from the macro's initial registers *)
Lemma macro_run : forall nodes r log0 new0 a a' lg nw,
  runs (flat_map acts_of nodes) r a a' lg nw ->
  exists acts s, flatten nodes = Some acts /\
    exec_actions false acts (mkMState r None log0 new0) a = (a', Ok s) /\
    m_log s = log0 ++ lg /\ m_new s = new0 ++ nw.
Proof.
  intros nodes r log0 new0 a a' lg nw H.
  destruct (flatten_spec nodes) as (acts & k & EF & EA).
  destruct (H (mkMState r None log0 new0) eq_refl) as (s' & E & _ & L & W).
  rewrite EA in E. apply exec_drop_parents in E. destruct E as (s1 & E1 & L1 & W1).
  exists acts, s1. cbn [m_log m_new] in L, W. split; auto. split; auto. split; congruence.
Qed.

Definition literal_built (w : world) (F : forest) (root : rootform) (nodes : list lit)
    (a' : arena) (r : nid) (log : list N) (new : list nid) (trees : list rose) (F' : forest) : Prop :=
  (match root with
   | RootId r0 => r = r0 /\ log = flat_map lit_preorder nodes /\ new = flat_map ids trees
   | RootValue v => ~ live (ar w) r /\ log = v :: flat_map lit_preorder nodes /\ new = r :: flat_map ids trees
   end) /\
  Forall2 shaped nodes trees /\
  Repr a' F' /\
  kidsf F' r = kidsf F r ++ map Spec.root trees /\
  (forall t x ts, In t trees -> subtree_of t (T x ts) -> kidsf F' x = map Spec.root ts) /\
  (forall p, p <> r -> ~ In p (flat_map ids trees) -> kidsf F' p = kidsf F p) /\
  (forall y, In y (flat_map ids trees) -> ~ live (ar w) y /\ live a' y) /\
  (forall y, live (ar w) y -> live a' y /\ payload_of_id a' y = payload_of_id (ar w) y) /\
  payloads_match a' nodes trees.

Lemma master : forall w F root nodes, Repr (ar w) F -> AllocOK w ->
  match root with RootId r => live (ar w) r | RootValue _ => True end ->
  exists a' r log new trees F',
    tree_reference false root nodes (ar w) = (a', Ok (r, log, new)) /\
    tree_macro false root nodes (ar w) = (a', Ok (r, log, new)) /\
    literal_built w F root nodes a' r log new trees F' /\
    tops F' = match root with RootId _ => tops F | RootValue _ => [r] :: tops F end.
Proof.
  intros w F root nodes R OK Lr. destruct root as [r0|v].
  - destruct (PF_all nodes w F r0 R OK Lr) as (w' & trs & F' & E & B & RN).
    destruct (macro_run nodes r0 [] [] _ _ _ _ RN) as (acts & s & EF & ES & L & W).
    exists (ar w'), r0, (flat_map lit_preorder nodes), (flat_map ids trs), trs, F'.
    destruct B as (S' & R' & OK' & K & T' & O & P & N' & G & M).
    split; [|split; [|split]].
    + unfold tree_reference. rewrite bind_ret. cbv beta iota.
      erewrite bind_ok by exact E. reflexivity.
    + unfold tree_macro. rewrite EF. rewrite bind_ret. cbv beta iota.
      erewrite bind_ok by exact ES. unfold ret. rewrite L, W. reflexivity.
    + unfold literal_built. tauto.
    + exact P.
  - destruct (new_step w F v R OK) as (w1 & x & E1 & R1 & OK1 & NL & Lx & HP & G1).
    destruct (PF_all nodes w1 _ x R1 OK1 Lx) as (w' & trs & F' & E & B & RN).
    destruct (macro_run nodes x [v] [x] _ _ _ _ RN) as (acts & s & EF & ES & L & W).
    exists (ar w'), x, (v :: flat_map lit_preorder nodes), (x :: flat_map ids trs), trs, F'.
    destruct B as (S' & R' & OK' & K & T' & O & P & N' & G & M).
    assert (E0 : (y <- new_node false v ;; ret (y, [v], [y])) (ar w) = (ar w1, Ok (x, [v], [x]))).
    { erewrite bind_ok by exact E1. reflexivity. }
    split; [|split; [|split]].
    + unfold tree_reference. erewrite bind_ok by exact E0. cbv beta iota.
      erewrite bind_ok by exact E. reflexivity.
    + unfold tree_macro. rewrite EF. erewrite bind_ok by exact E0. cbv beta iota.
      erewrite bind_ok by exact ES. unfold ret. rewrite L, W. reflexivity.
    + unfold literal_built. cbn [f_new kidsf] in K, O.
      split; [auto|]. split; [exact S'|]. split; [exact R'|]. split; [exact K|].
      split; [exact T'|]. split; [exact O|].
      split.
      { intros y Hy. destruct (N' y Hy) as [A B]. split; auto. intros Ly. apply A. now apply G1. }
      split; [eapply grows_trans; eauto | exact M].
    + exact P.
Qed.

(* 1. the macro's flatten-and-interpret machinery computes exactly what the literal says *)
Theorem macro_is_reference : forall w root nodes, WF w ->
  match root with RootId r => live (ar w) r | RootValue _ => True end ->
  tree_macro false root nodes (ar w) = tree_reference false root nodes (ar w).
Proof.
  intros w root nodes [[F R] OK] Lr.
  destruct (master w F root nodes R OK Lr) as (a' & r & log & new & trees & F' & E1 & E2 & _).
  congruence.
Qed.

(* 2. what the literal says, with the parentless chains of the forest in addition *)
Theorem reference_builds_literal_strong : forall w F root nodes, Repr (ar w) F -> AllocOK w ->
  match root with RootId r => live (ar w) r | RootValue _ => True end ->
  exists a' r log new trees F',
    tree_reference false root nodes (ar w) = (a', Ok (r, log, new)) /\
    literal_built w F root nodes a' r log new trees F' /\
    tops F' = match root with RootId _ => tops F | RootValue _ => [r] :: tops F end.
Proof.
  intros w F root nodes R OK Lr.
  destruct (master w F root nodes R OK Lr) as (a' & r & log & new & trees & F' & E1 & _ & H).
  exists a', r, log, new, trees, F'. auto.
Qed.

Theorem reference_builds_literal : forall w F root nodes, Repr (ar w) F -> AllocOK w ->
  match root with RootId r => live (ar w) r | RootValue _ => True end ->
  exists a' r log new trees F',
    tree_reference false root nodes (ar w) = (a', Ok (r, log, new)) /\
    (match root with RootId r0 => r = r0 /\ log = flat_map lit_preorder nodes /\ new = flat_map ids trees
                   | RootValue v => ~ live (ar w) r /\ log = v :: flat_map lit_preorder nodes /\ new = r :: flat_map ids trees end) /\
    Forall2 shaped nodes trees /\
    Repr a' F' /\
    kidsf F' r = kidsf F r ++ map Spec.root trees /\
    (forall t x ts, In t trees -> subtree_of t (T x ts) -> kidsf F' x = map Spec.root ts) /\
    (forall p, p <> r -> ~ In p (flat_map ids trees) -> kidsf F' p = kidsf F p) /\
    (forall y, In y (flat_map ids trees) -> ~ live (ar w) y /\ live a' y) /\
    (forall y, live (ar w) y -> live a' y /\ payload_of_id a' y = payload_of_id (ar w) y) /\
    payloads_match a' nodes trees.
Proof.
  intros w F root nodes R OK Lr.
  destruct (master w F root nodes R OK Lr) as (a' & r & log & new & trees & F' & E1 & _ & H & _).
  exists a', r, log, new, trees, F'. split; [exact E1 | exact H].
Qed.

(* 3. hence the macro builds the literal *)
Corollary macro_builds_literal : forall w F root nodes, Repr (ar w) F -> AllocOK w ->
  match root with RootId r => live (ar w) r | RootValue _ => True end ->
  exists a' r log new trees F',
    tree_macro false root nodes (ar w) = (a', Ok (r, log, new)) /\
    (match root with RootId r0 => r = r0 /\ log = flat_map lit_preorder nodes /\ new = flat_map ids trees
                   | RootValue v => ~ live (ar w) r /\ log = v :: flat_map lit_preorder nodes /\ new = r :: flat_map ids trees end) /\
    Forall2 shaped nodes trees /\
    Repr a' F' /\
    kidsf F' r = kidsf F r ++ map Spec.root trees /\
    (forall t x ts, In t trees -> subtree_of t (T x ts) -> kidsf F' x = map Spec.root ts) /\
    (forall p, p <> r -> ~ In p (flat_map ids trees) -> kidsf F' p = kidsf F p) /\
    (forall y, In y (flat_map ids trees) -> ~ live (ar w) y /\ live a' y) /\
    (forall y, live (ar w) y -> live a' y /\ payload_of_id a' y = payload_of_id (ar w) y) /\
    payloads_match a' nodes trees.
Proof.
  intros w F root nodes R OK Lr.
  rewrite (macro_is_reference w root nodes (conj (ex_intro _ F R) OK) Lr).
  now apply reference_builds_literal.
Qed.

(* the matched payloads, in the vocabulary of Props.v *)
Corollary payloads_match_payload_of_id : forall a nodes trees, payloads_match a nodes trees ->
  Forall2 (fun t tr => match t, tr with L e _, T x _ => payload_of_id a x = Some e end) nodes trees.
Proof.
  intros a nodes trees H. induction H as [|[e ks] [x ts] l l' Hm _ IH]; constructor; auto.
  eapply pay_match_payload; eauto.
Qed.

(* the macro never panics on a well-formed world with a live (or to-be-created) root *)
Corollary macro_no_panic : forall w root nodes, WF w ->
  match root with RootId r => live (ar w) r | RootValue _ => True end ->
  exists a' res, tree_macro false root nodes (ar w) = (a', Ok res).
Proof.
  intros w root nodes [[F R] OK] Lr.
  destruct (master w F root nodes R OK Lr) as (a' & r & log & new & trees & F' & _ & E2 & _).
  eauto.
Qed.

(* ====================================================================== *)
(* Part I.  A concrete literal, both root forms                             *)
(* ====================================================================== *)

Definition ex_lit : list lit :=
  [L 1 []; L 2 [L 3 [L 4 []]; L 5 []]; L 6 []]%N.
(* an arena with a root (slot 0, payload 100) that already has one child (slot 1, payload 200) *)
Definition ex_world : world := run false [ONew 100%N; OAppendValue (mkId 0 0) 200%N] init.
Definition id_ (i : nat) : nid := mkId i 0%Z.

(* tree!(arena, root_id => { 1, 2 => { 3 => { 4 }, 5 }, 6 }) *)
Example ex_root_id :
  tree_macro false (RootId (id_ 0)) ex_lit (ar ex_world)
  = tree_reference false (RootId (id_ 0)) ex_lit (ar ex_world) /\
  snd (tree_macro false (RootId (id_ 0)) ex_lit (ar ex_world))
  = Ok (id_ 0, [1; 2; 3; 4; 5; 6]%N, [id_ 2; id_ 3; id_ 4; id_ 5; id_ 6; id_ 7]) /\
  (* slot by slot: payload and parent *)
  map (fun n => (data n, parent n)) (nodes (fst (tree_macro false (RootId (id_ 0)) ex_lit (ar ex_world))))
  = [(Data 100, None); (Data 200, Some (id_ 0));
     (Data 1, Some (id_ 0)); (Data 2, Some (id_ 0)); (Data 3, Some (id_ 3)); (Data 4, Some (id_ 4));
     (Data 5, Some (id_ 3)); (Data 6, Some (id_ 0))]%N /\
  (* the root's children: the old one first, then the literal's top-level nodes in order *)
  children (id_ 0) (fst (tree_macro false (RootId (id_ 0)) ex_lit (ar ex_world)))
  = Ok [id_ 1; id_ 2; id_ 3; id_ 7].
Proof. vm_compute. repeat split. Qed.

(* tree!(arena, 7 => { 1, 2 => { 3 => { 4 }, 5 }, 6 }) *)
Example ex_root_value :
  tree_macro false (RootValue 7%N) ex_lit (ar ex_world)
  = tree_reference false (RootValue 7%N) ex_lit (ar ex_world) /\
  snd (tree_macro false (RootValue 7%N) ex_lit (ar ex_world))
  = Ok (id_ 2, [7; 1; 2; 3; 4; 5; 6]%N, [id_ 2; id_ 3; id_ 4; id_ 5; id_ 6; id_ 7; id_ 8]) /\
  map (fun n => (data n, parent n)) (nodes (fst (tree_macro false (RootValue 7%N) ex_lit (ar ex_world))))
  = [(Data 100, None); (Data 200, Some (id_ 0)); (Data 7, None);
     (Data 1, Some (id_ 2)); (Data 2, Some (id_ 2)); (Data 3, Some (id_ 4)); (Data 4, Some (id_ 5));
     (Data 5, Some (id_ 4)); (Data 6, Some (id_ 2))]%N /\
  children (id_ 2) (fst (tree_macro false (RootValue 7%N) ex_lit (ar ex_world)))
  = Ok [id_ 3; id_ 4; id_ 8].
Proof. vm_compute. repeat split. Qed.

(* the flattened action list of the example (the trailing step-out of node 2 is kept because node 6
   follows; a literal ending in a nested node loses its trailing step-outs) *)
Example ex_flatten :
  flatten ex_lit = Some [AAppend 1; AAppend 2; ANest; AAppend 3; ANest; AAppend 4; AParent; AAppend 5;
                         AParent; AAppend 6]%N /\
  flatten [L 1 [L 2 [L 3 []]]]%N = Some [AAppend 1; ANest; AAppend 2; ANest; AAppend 3]%N.
Proof. vm_compute. auto. Qed.

Print Assumptions macro_is_reference.
Print Assumptions reference_builds_literal.
Print Assumptions macro_builds_literal.
Print Assumptions reference_builds_literal_strong.
