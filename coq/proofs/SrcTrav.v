(* SrcTrav.v — gen/GenTrav.v (NodeEdge::{next,prev}_traverse of traverse.rs, re-translated on every run)
   is the model's Traverse.v. *)
From IT.proofs Require Import SrcTac.
From IT.gen Require Import GenTrav.
Open Scope mon_scope.

Lemma src_next_traverse dbg e a : g_NodeEdge_next_traverse dbg e a = lift (next_traverse e) a.
Proof. destruct a, e; unfold g_NodeEdge_next_traverse, next_traverse; mx. Qed.

Lemma src_prev_traverse dbg e a : g_NodeEdge_prev_traverse dbg e a = lift (prev_traverse e) a.
Proof. destruct a, e; unfold g_NodeEdge_prev_traverse, prev_traverse; mx. Qed.
