(* StepMonitor.v — the STEP checker [check_step] of Monitor.v is silent on every valid step of the
   model: as long as the implementation behaves like the model, the correspondence check can
   never raise a false alarm.
   Part A: the computed forest [abs a] IS the represented forest.
   Part B: the executable impossibility test agrees with the declarative one.
   Part C: per-operation silence.   Part D: [check_step_silent]. *)
From IT Require Import Props.
From IT.proofs Require Import Layer1 ReprBase StateProps.
From IT.proofs Require ReprInsert ReprTree ReprRemove AllocProofs AllocProps Assembly MonitorSound.
From Coq Require Import Lia.
Local Open Scope nat_scope.

(* ====================================================================== *)
(* Part A.  abs a is the represented forest                                *)
(* ====================================================================== *)

(* ---------- the boolean comparisons are reflexive ---------- *)
Lemma same_list_refl : forall l, same_list l l = true.
Proof.
  intros l. unfold same_list. rewrite Nat.eqb_refl. cbn [andb].
  induction l as [|x l IH]; cbn [combine forallb fst snd]; auto.
  rewrite nid_eqb_refl. exact IH.
Qed.

Lemma chains_sub_incl : forall t1 t2, (forall c, In c t1 -> In c t2) -> chains_sub t1 t2 = true.
Proof.
  intros t1 t2 H. unfold chains_sub. apply forallb_forall. intros c Hc.
  apply existsb_exists. exists c. split; auto. apply same_list_refl.
Qed.

Lemma feq_refl : forall F, feq F F.
Proof. intros F. split; intros; tauto. Qed.

Lemma feq_trans : forall F G H, feq F G -> feq G H -> feq F H.
Proof.
  intros F G H [K1 T1] [K2 T2]. split.
  - intros p. now rewrite K1.
  - intros c. now rewrite T1.
Qed.

Lemma forest_eqb_feq : forall dom F G, feq F G -> forest_eqb dom F G = true.
Proof.
  intros dom F G [HK HT]. unfold forest_eqb.
  rewrite !andb_true_iff. split; [split|].
  - apply forallb_forall. intros p _. rewrite HK. apply same_list_refl.
  - apply chains_sub_incl. intros c. apply HT.
  - apply chains_sub_incl. intros c. apply HT.
Qed.

(* ---------- children lists ---------- *)
Lemma not_live_b : forall a x, ~ live a x -> live_b a x = false.
Proof.
  intros a x H. destruct (live_b a x) eqn:E; auto.
  apply MonitorSound.ms_live_b in E. contradiction.
Qed.

Lemma kids_of_repr : forall a F p, Repr a F -> live a p -> kids_of a p = kidsf F p.
Proof.
  intros a F p R L. unfold kids_of. rewrite node_of_nd by (now apply live_inr).
  rewrite (walk_kids a F R p L). reflexivity.
Qed.

Theorem abs_kids_eq : forall a F, Repr a F -> forall p, kidsf (abs a) p = kidsf F p.
Proof.
  intros a F R p. unfold abs. cbn [kidsf]. destruct (AllocProofs.live_dec a p) as [L|NL].
  - rewrite (live_b_true _ _ L). now apply kids_of_repr.
  - rewrite (not_live_b _ _ NL). destruct (kidsf F p) eqn:E; auto.
    exfalso. apply NL. apply (r_owner _ _ R). rewrite E. discriminate.
Qed.

(* ---------- top chains ---------- *)
Lemma top_chain_walk : forall a F c, Repr a F -> In c (tops F) ->
  exists x B, c = x :: B /\ live a x /\ parent (nd a x) = None /\ prev (nd a x) = None /\
    walk_b next (S (length (nodes a))) a (Some x) = Some c.
Proof.
  intros a F c R Hc. destruct (r_tops _ _ R c Hc) as (NE & D & N).
  destruct c as [|x B]; [congruence|]. exists x, B. split; auto.
  assert (L : live a x) by (eapply top_live; eauto; now left).
  pose proof D as D'. apply dseg_cons in D'. destruct D' as (_ & P & V & _).
  repeat split; auto.
  apply is_path_walk; [eapply dseg_next_path; eauto|].
  assert (length (x :: B) <= length (nodes a)); [|lia].
  apply (live_list_bound a); auto. intros y Hy. eapply top_live; eauto.
Qed.

Lemma root_head_chain : forall a F x, Repr a F -> live a x ->
  parent (nd a x) = None -> prev (nd a x) = None ->
  exists c, In c (tops F) /\ hd_error c = Some x.
Proof.
  intros a F x R L P V. destruct (parent_top a F R x L P) as (c & Hc & Hx).
  exists c. split; auto. apply in_split in Hx. destruct Hx as (A & B & ->).
  assert (HS : sibs F None (A ++ x :: B)) by exact Hc.
  destruct (sibs_mid a F R _ _ _ _ HS) as [V' _]. rewrite V in V'. symmetry in V'.
  apply last_error_None in V'. subst A. reflexivity.
Qed.

Lemma in_tops_of : forall a c, In c (tops_of a) <->
  exists x n, In (x, n) (live_slots a) /\ parent n = None /\ prev n = None /\
              walk_b next (S (length (nodes a))) a (Some x) = Some c.
Proof.
  intros a c. unfold tops_of. rewrite in_flat_map. split.
  - intros ([x n] & H & Hc). exists x, n. split; auto.
    destruct (parent n); [destruct (prev n); destruct Hc|].
    destruct (prev n); [destruct Hc|].
    destruct (walk_b next (S (length (nodes a))) a (Some x)) as [l|]; [|destruct Hc].
    destruct Hc as [<-|[]]. auto.
  - intros (x & n & H & P & V & W). exists (x, n). split; auto. rewrite P, V, W. now left.
Qed.

Lemma abs_tops_iff : forall a F, Repr a F -> forall c, In c (tops (abs a)) <-> In c (tops F).
Proof.
  intros a F R c. unfold abs. cbn [tops]. rewrite in_tops_of. split.
  - intros (x & n & H & P & V & W). destruct (live_slot_live _ _ _ H) as [L <-].
    destruct (root_head_chain a F x R L P V) as (c' & Hc' & Hh).
    destruct (top_chain_walk a F c' R Hc') as (x' & B & -> & _ & _ & _ & W').
    cbn in Hh. inversion Hh; subst x'. rewrite W in W'. inversion W'; subst. exact Hc'.
  - intros Hc. destruct (top_chain_walk a F c R Hc) as (x & B & -> & L & P & V & W).
    exists x, (nd a x). split; [|auto]. apply in_live_slots.
    destruct (live_stamp _ _ L) as [S G].
    split; [apply at_nd; now apply live_inr|]. auto.
Qed.

Theorem abs_feq : forall a F, Repr a F -> feq (abs a) F.
Proof. intros a F R. split; [apply (abs_kids_eq a F R) | apply (abs_tops_iff a F R)]. Qed.

(* the computed forest IS the represented forest (as far as forest_eqb can tell) *)
Theorem abs_repr : forall a F dom, Repr a F ->
  (forall p, In p dom -> same_list (kidsf (abs a) p) (kidsf F p) = true) /\
  chains_sub (tops (abs a)) (tops F) = true /\ chains_sub (tops F) (tops (abs a)) = true.
Proof.
  intros a F dom R. split; [|split].
  - intros p _. rewrite (abs_kids_eq a F R). apply same_list_refl.
  - apply chains_sub_incl. intros c. apply (abs_tops_iff a F R).
  - apply chains_sub_incl. intros c. apply (abs_tops_iff a F R).
Qed.

Corollary abs_forest_eqb : forall a F G dom, Repr a F ->
  (forall p, kidsf F p = kidsf G p) -> (forall c, In c (tops F) <-> In c (tops G)) ->
  forest_eqb dom G (abs a) = true.
Proof.
  intros a F G dom R HK HT. apply forest_eqb_feq.
  apply feq_trans with F; [apply feq_sym; split; auto | apply feq_sym, abs_feq; auto].
Qed.

(* ====================================================================== *)
(* Part B.  impossible_b / reason_applies_b                                *)
(* ====================================================================== *)

Lemma slot_removed_b_spec : forall a x, slot_removed_b a x = true <-> slot_removed a x.
Proof.
  intros a x. unfold slot_removed_b, node_of, slot_removed, node_at. split.
  - destruct (nth_error (nodes a) (idx x)) as [n|]; [|discriminate].
    intros H. apply Z.ltb_lt in H. eauto.
  - intros (n & -> & H). now apply Z.ltb_lt.
Qed.

Lemma anc_list_live : forall a F x, Repr a F -> live a x ->
  exists l, anc_list a x = Some l /\ is_path a parent x l /\ (forall y, In y l <-> ancF F x y).
Proof.
  intros a F x R L. destruct (member_depth a F R x L) as [d Hd].
  destruct (anc_path a F R x d Hd) as (l & P & N & A & LV).
  exists l. split; [|auto]. unfold anc_list. apply is_path_walk; auto.
  pose proof (live_list_bound a l N LV). lia.
Qed.

Lemma would_cycle_b_live : forall a F k x c, Repr a F -> live a x ->
  (would_cycle_b a k x c = true <-> would_cycle F k x c).
Proof.
  intros a F k x c R L. unfold would_cycle_b.
  destruct (anc_list_live a F x R L) as (l & E & P & A). rewrite E.
  assert (TL : nid_in c (tl l) = true <-> exists p, In x (kidsf F p) /\ ancF F p c).
  { rewrite nid_in_true. apply is_path_inv in P. destruct P as (r & -> & _ & P). cbn [tl].
    destruct r as [|z r'].
    - split; [intros []|]. intros (p & Hp & _).
      rewrite (kid_parent a F R p x Hp) in P. discriminate.
    - destruct P as [Pz P]. pose proof (parent_kid a F R x z L Pz) as Hx.
      pose proof (owner_live a F R z x Hx) as Lz.
      destruct (anc_list_live a F z R Lz) as (l' & _ & P' & A').
      rewrite (is_path_fun _ _ _ _ _ P P'). rewrite A'. split.
      + intros H. eauto.
      + intros (p & Hp & Ha). now rewrite (kid_unique a F R z p x Hx Hp). }
  destruct k; cbn [would_cycle]; auto; rewrite nid_in_true; apply A.
Qed.

Lemma would_cycle_b_removed : forall a F k x c, Repr a F -> slot_removed a x ->
  would_cycle F k x c -> would_cycle_b a k x c = true.
Proof.
  intros a F k x c R SR W.
  assert (NK : forall p, ~ In x (kidsf F p)).
  { intros p H. eapply live_not_removed; [eapply kid_live; eauto | exact SR]. }
  assert (E : anc_list a x = Some [x]).
  { unfold anc_list. apply is_path_walk; [|cbn; lia].
    apply is_path_one; [now apply slot_removed_inr|].
    apply (dead_links a F R x Fparent SR). }
  unfold would_cycle_b. rewrite E. destruct k; cbn [would_cycle] in W.
  1,2: inversion W; subst; [cbn; now rewrite nid_eqb_refl | exfalso; eapply NK; eauto].
  1,2: destruct W as (p & Hp & _); exfalso; eapply NK; eauto.
Qed.

(* the executable impossibility test agrees with the declarative one *)
Theorem impossible_b_spec : forall a F k x c, Repr a F -> usable a x -> usable a c ->
  (impossible_b a k x c = true <-> impossible a F k x c).
Proof.
  intros a F k x c R Ux Uc. unfold impossible_b, impossible.
  rewrite !orb_true_iff, !slot_removed_b_spec, nid_eqb_eq.
  destruct Ux as [Lx|Sx].
  - rewrite (would_cycle_b_live a F k x c R Lx). tauto.
  - tauto.
Qed.

Lemma nodeerror_eqb_refl : forall e, nodeerror_eqb e e = true.
Proof. intros []; reflexivity. Qed.

Theorem reason_applies_b_spec : forall a F k x c e, Repr a F -> usable a x -> usable a c ->
  reason_applies a F k x c e -> reason_applies_b a k x c e = true.
Proof.
  intros a F k x c e R Ux Uc H. unfold reason_applies_b.
  rewrite !orb_true_iff, !andb_true_iff.
  destruct H as [[-> ->]|[[-> H]|[-> H]]].
  - left. left. split; [apply nodeerror_eqb_refl | apply nid_eqb_refl].
  - left. right. split; [reflexivity|]. rewrite orb_true_iff, !slot_removed_b_spec. exact H.
  - right. split; [apply nodeerror_eqb_refl|]. destruct Ux as [Lx|Sx].
    + now apply (would_cycle_b_live a F k x c R Lx).
    + eapply would_cycle_b_removed; eauto.
Qed.

(* ====================================================================== *)
(* Part C.  per-operation silence                                          *)
(* ====================================================================== *)

(* ---------- reflexivity of the arena comparisons ---------- *)
Lemma ondata_eqb_refl : forall d, ondata_eqb d d = true.
Proof. intros [v|[i|]]; cbn [ondata_eqb]; auto using N.eqb_refl, Nat.eqb_refl. Qed.

Lemma node_eqb_refl : forall n, node_eqb n n = true.
Proof. intros n. unfold node_eqb. now rewrite !onid_eqb_refl, Z.eqb_refl, ondata_eqb_refl. Qed.

Lemma nodes_eqb_refl : forall l, nodes_eqb l l = true.
Proof. induction l as [|n l IH]; cbn [nodes_eqb]; auto. now rewrite node_eqb_refl. Qed.

Lemma onat_eqb_refl : forall o, onat_eqb o o = true.
Proof. intros [i|]; cbn [onat_eqb]; auto using Nat.eqb_refl. Qed.

Lemma arena_eqb_refl : forall a, arena_eqb a a = true.
Proof. intros a. unfold arena_eqb. now rewrite nodes_eqb_refl, !onat_eqb_refl. Qed.

(* ---------- both views of every children list agree ---------- *)
Lemma kids_rev_of_repr : forall a F p, Repr a F -> live a p -> kids_rev_of a p = kidsf F p.
Proof.
  intros a F p R L. unfold kids_rev_of. rewrite node_of_nd by (now apply live_inr).
  destruct (ends_of a F R p L) as [_ E]. rewrite E.
  destruct (r_kids _ _ R p) as [D N]. pose proof (kids_bound a F R p) as B.
  destruct (last_error (kidsf F p)) as [y|] eqn:EL.
  - apply last_error_split in EL. destruct EL as [A EA]. rewrite EA in D, B |- *.
    pose proof (dseg_prev_path _ _ _ _ _ D) as P.
    rewrite (is_path_walk a prev _ y _ P) by (rewrite rev_length; lia).
    now rewrite rev_involutive.
  - apply last_error_None in EL. rewrite EL. reflexivity.
Qed.

Lemma repr_both_views : forall a F, Repr a F -> both_views_agree a = true.
Proof.
  intros a F R. unfold both_views_agree. apply forallb_forall. intros [x n] H. cbn [fst].
  destruct (live_slot_live _ _ _ H) as [L _].
  rewrite (kids_of_repr a F x R L), (kids_rev_of_repr a F x R L). apply same_list_refl.
Qed.

(* ---------- the abstract operations respect feq ---------- *)
Lemma in_filter_map_ext : forall (g : list nid -> list nid) (pr : list nid -> bool) T T',
  (forall c, In c T <-> In c T') ->
  forall c, In c (filter pr (map g T)) <-> In c (filter pr (map g T')).
Proof.
  intros g pr T T' H c. rewrite !filter_In, !in_map_iff.
  split; intros [(e & <- & He) E]; (split; [exists e; split; auto; now apply H | auto]).
Qed.

Lemma in_map_ext_set : forall (f : list nid -> list nid) T T',
  (forall c, In c T <-> In c T') -> forall c, In c (map f T) <-> In c (map f T').
Proof.
  intros f T T' H c. rewrite !in_map_iff.
  split; intros (e & <- & He); exists e; split; auto; now apply H.
Qed.

Lemma feq_detach : forall x F G, feq F G -> feq (f_detach x F) (f_detach x G).
Proof.
  intros x F G [HK HT]. split.
  - intros p. cbn [f_detach kidsf]. now rewrite HK.
  - intros c. cbn [f_detach tops In].
    rewrite (in_filter_map_ext (remove_id x) nonempty _ _ HT c). tauto.
Qed.

Lemma feq_insert : forall k x c F G, feq F G -> feq (f_insert k x c F) (f_insert k x c G).
Proof.
  intros k x c F G [HK HT].
  assert (HR : forall ch, In ch (tl (tops (f_detach c F))) <-> In ch (tl (tops (f_detach c G)))).
  { intros ch. cbn [f_detach tops tl]. now apply in_filter_map_ext. }
  assert (HK1 : forall p, kidsf (f_detach c F) p = kidsf (f_detach c G) p).
  { intros p. cbn [f_detach kidsf]. now rewrite HK. }
  unfold f_insert. cbv zeta. destruct k; split; cbn [kidsf tops]; intros; rewrite ?HK1; auto.
  - now apply in_map_ext_set.
  - now apply in_map_ext_set.
Qed.

Lemma feq_remove : forall x F G, feq F G -> feq (f_remove x F) (f_remove x G).
Proof.
  intros x F G [HK HT]. split.
  - intros p. cbn [f_remove kidsf]. now rewrite !HK.
  - intros c. cbn [f_remove tops]. rewrite (HK x). now apply in_filter_map_ext.
Qed.

Lemma feq_remove_subtree : forall x D F G, feq F G -> feq (f_remove_subtree x D F) (f_remove_subtree x D G).
Proof.
  intros x D F G [HK HT]. split.
  - intros p. cbn [f_remove_subtree kidsf]. now rewrite HK.
  - intros c. cbn [f_remove_subtree tops]. now apply in_filter_map_ext.
Qed.

Lemma feq_new : forall x F G, feq F G -> feq (f_new x F) (f_new x G).
Proof.
  intros x F G [HK HT]. split.
  - intros p. cbn [f_new kidsf]. apply HK.
  - intros c. cbn [f_new tops In]. rewrite (HT c). tauto.
Qed.

Lemma feq_append_value : forall p x F G, feq F G -> feq (f_append_value p x F) (f_append_value p x G).
Proof.
  intros p x F G [HK HT]. split.
  - intros q. cbn [f_append_value kidsf]. now rewrite HK.
  - intros c. cbn [f_append_value tops]. apply HT.
Qed.

Lemma preorderF_ext : forall F G, (forall p, kidsf F p = kidsf G p) ->
  forall f x, preorderF f F x = preorderF f G x.
Proof.
  intros F G H. induction f as [|f IH]; intros x; cbn [preorderF]; auto.
  rewrite H. f_equal. apply flat_map_ext. intros y. apply IH.
Qed.

(* clause 20: the forest computed after the call is the documented one *)
Lemma forest_clause : forall a' F' G dom, Repr a' F' -> feq G F' -> forest_eqb dom G (abs a') = true.
Proof.
  intros a' F' G dom R' H. apply forest_eqb_feq.
  apply feq_trans with F'; [exact H | apply feq_sym, abs_feq; exact R'].
Qed.

(* ---------- frames ---------- *)
Lemma forallb_combine_nth : forall {A} (P : A -> A -> bool) l l',
  (forall i n n', nth_error l i = Some n -> nth_error l' i = Some n' -> P n n' = true) ->
  forallb (fun p => P (fst p) (snd p)) (combine l l') = true.
Proof.
  intros A P. induction l as [|n l IH]; intros [|n' l'] H; cbn [combine forallb]; auto.
  cbn [fst snd]. rewrite (H 0 n n') by reflexivity. cbn [andb]. apply IH.
  intros i m m' H1 H2. apply (H (S i)); auto.
Qed.

Lemma shape_same_b_true : forall a a', same_shape a a' -> shape_same_b a a' = true.
Proof.
  intros a a' (LEN & _ & _ & H). unfold shape_same_b. rewrite LEN, Nat.eqb_refl. cbn [andb].
  apply (forallb_combine_nth (fun n m => Z.eqb (stamp n) (stamp m) && ondata_eqb (data n) (data m))).
  intros i n n' H1 H2. destruct (H i n H1) as (m & Hm & S & D).
  rewrite H2 in Hm. inversion Hm; subst m. now rewrite S, D, Z.eqb_refl, ondata_eqb_refl.
Qed.

Lemma others_same_b_true : forall except a a',
  (forall y n, live a y -> node_at a y n -> ~ In (idx y) except -> node_at a' y n) ->
  others_same_b except a a' = true.
Proof.
  intros except a a' H. unfold others_same_b. apply forallb_forall. intros [y n] Hy.
  destruct (existsb (Nat.eqb (idx y)) except) eqn:E; cbn [orb]; auto.
  apply in_live_slots in Hy. destruct Hy as (Hn & S & G).
  assert (NI : ~ In (idx y) except).
  { intros HI. assert (existsb (Nat.eqb (idx y)) except = true); [|congruence].
    apply existsb_exists. exists (idx y). split; auto. apply Nat.eqb_refl. }
  assert (L : live a y) by (exists n; auto).
  pose proof (H y n L Hn NI) as H'. unfold node_at in H'. unfold node_of. rewrite H'.
  apply node_eqb_refl.
Qed.

Lemma reusable_exists_b_spec : forall a, reusable_exists_b a = true <-> exists i, reusable_slot a i.
Proof.
  intros a. unfold reusable_exists_b, reusable_slot. rewrite existsb_exists. split.
  - intros (n & Hn & E). apply In_nth_error in Hn. destruct Hn as [i Hi]. exists i, n. split; auto.
    apply andb_true_iff in E. destruct E as [E1 E2]. apply Z.ltb_lt in E1, E2. lia.
  - intros (i & n & Hi & E). exists n. split; [eapply nth_error_In; eauto|].
    apply andb_true_iff. split; apply Z.ltb_lt; lia.
Qed.

(* clause 32: the count grows exactly when no reusable slot exists *)
Lemma count_rule : forall a a' FL, FreeOK a FL ->
  length (nodes a') = match FL with [] => S (length (nodes a)) | _ :: _ => length (nodes a) end ->
  Nat.eqb (length (nodes a')) (if reusable_exists_b a then length (nodes a) else S (length (nodes a))) = true.
Proof.
  intros a a' FL (_ & _ & _ & HR) LEN. rewrite LEN. destruct FL as [|i FL'].
  - destruct (reusable_exists_b a) eqn:E; [|apply Nat.eqb_refl].
    apply reusable_exists_b_spec in E. destruct E as [i Hi]. apply HR in Hi. destruct Hi.
  - rewrite (proj2 (reusable_exists_b_spec a)); [apply Nat.eqb_refl|]. exists i. apply HR. now left.
Qed.

(* a live node whose slot keeps its stamp and payload survives with its payload *)
Lemma survivor : forall a a1 a' y m, same_shape a a1 -> live a y -> node_at a y m ->
  (forall n, nth_error (nodes a1) (idx y) = Some n ->
     exists n', nth_error (nodes a') (idx y) = Some n' /\ stamp n' = stamp n /\
                ((0 <= stamp n)%Z -> data n' = data n)) ->
  live a' y /\ exists m', node_of a' y = Some m' /\ ondata_eqb (data m) (data m') = true.
Proof.
  intros a a1 a' y m (_ & _ & _ & SS) (m0 & Hm0 & S & G) Hm H.
  unfold node_at in *. rewrite Hm in Hm0. inversion Hm0; subst m0.
  destruct (SS _ _ Hm) as (n1 & Hn1 & S1 & D1).
  destruct (H _ Hn1) as (n' & Hn' & S' & D').
  assert (D2 : data n' = data m). { rewrite D' by lia. exact D1. }
  split.
  - exists n'. split; [exact Hn'|]. split; [lia | exact G].
  - exists n'. split; [exact Hn'|]. rewrite D2. apply ondata_eqb_refl.
Qed.

Ltac forallb_true :=
  match goal with |- context [forallb ?f ?l] =>
    let E := fresh "E" in
    assert (E : forallb f l = true); [apply forallb_forall | rewrite E; clear E]
  end.

(* ---------- the checks, stated on arbitrary before/after arenas ---------- *)
Lemma insert_check : forall a F k chk x c out a' F',
  Repr a F -> usable a x -> usable a c -> Repr a' F' ->
  (impossible a F k x c ->
     a' = a /\ if chk : bool then exists e, out = OutErr e /\ reason_applies a F k x c e
               else out = OutPanic P_PRECOND) ->
  (~ impossible a F k x c -> out = OutUnit /\ Repr a' (f_insert k x c F) /\ same_shape a a') ->
  check_step a (OInsert k chk x c) out a' = [].
Proof.
  intros a F k chk x c out a' F' R Ux Uc R' HI HN.
  pose proof (impossible_b_spec a F k x c R Ux Uc) as IS.
  unfold check_step. cbv zeta. rewrite (repr_both_views _ _ R'). cbn [app].
  destruct (impossible_b a k x c) eqn:EI.
  - assert (I : impossible a F k x c) by (now apply IS).
    destruct (HI I) as [-> HO]. rewrite arena_eqb_refl. destruct chk.
    + destruct HO as (e & -> & RA).
      rewrite (reason_applies_b_spec _ _ _ _ _ _ R Ux Uc RA). reflexivity.
    + rewrite HO. reflexivity.
  - assert (NI : ~ impossible a F k x c) by (intros I; apply IS in I; congruence).
    destruct (HN NI) as (-> & R2 & S2).
    rewrite (forest_clause _ _ _ _ R2), (shape_same_b_true _ _ S2); [reflexivity|].
    apply feq_insert, abs_feq; exact R.
Qed.

Lemma detach_check : forall a F x a', Repr a F -> Repr a' (f_detach x F) -> same_shape a a' ->
  check_step a (ODetach x) OutUnit a' = [].
Proof.
  intros a F x a' R R' SS. unfold check_step. cbv zeta. rewrite (repr_both_views _ _ R'). cbn [app].
  rewrite (forest_clause _ _ _ _ R'), (shape_same_b_true _ _ SS); [reflexivity|].
  apply feq_detach, abs_feq; exact R.
Qed.

Lemma remove_check : forall a F x a1 a', Repr a F -> Repr a' (f_remove x F) -> same_shape a a1 ->
  live a x -> slot_removed a' x ->
  (forall j n, nth_error (nodes a1) j = Some n ->
     exists n', nth_error (nodes a') j = Some n' /\
       (j <> idx x -> stamp n' = stamp n /\ ((0 <= stamp n)%Z -> data n' = data n))) ->
  check_step a (ORemove x) OutUnit a' = [].
Proof.
  intros a F x a1 a' R R' SS Lx SR FR.
  assert (SV : forall y m, In (y, m) (live_slots a) -> y <> x ->
     live a' y /\ exists m', node_of a' y = Some m' /\ ondata_eqb (data m) (data m') = true).
  { intros y m Hy NE. apply in_live_slots in Hy. destruct Hy as (Hm & S & G).
    assert (Ly : live a y) by (exists m; auto).
    apply (survivor a a1 a' y m SS); auto.
    intros n Hn. destruct (FR _ _ Hn) as (n' & Hn' & K). exists n'. split; auto. apply K.
    intros E. apply NE. apply (live_inj a); auto. }
  unfold check_step. cbv zeta. rewrite (repr_both_views _ _ R'). cbn [app].
  rewrite (forest_clause _ _ _ _ R') by (apply feq_remove, abs_feq; exact R).
  rewrite (proj2 (slot_removed_b_spec a' x) SR).
  do 2 (forallb_true;
    [ intros [y m] Hy; cbn [fst]; destruct (nid_eqb y x) eqn:E; cbn [orb]; auto;
      apply nid_eqb_false in E; destruct (SV y m Hy E) as [L' (m' & Hm' & E')];
      first [ now apply live_b_true | rewrite Hm'; exact E' ] |]).
  reflexivity.
Qed.

Lemma remove_subtree_check : forall a F x a1 a', Repr a F ->
  let D := preorderF (length (nodes a)) F x in
  Repr a' (f_remove_subtree x D F) -> same_shape a a1 ->
  (forall y, In y D -> live a1 y) ->
  (forall y, In y D -> slot_removed a' y) ->
  (forall j n, ~ In j (map idx D) -> nth_error (nodes a1) j = Some n ->
     exists n', nth_error (nodes a') j = Some n' /\ stamp n' = stamp n /\
                ((0 <= stamp n)%Z -> data n' = data n)) ->
  check_step a (ORemoveSubtree x) OutUnit a' = [].
Proof.
  intros a F x a1 a' R D R' SS LD HD HK.
  assert (ED : preorderF (length (nodes a)) (abs a) x = D)
    by (apply preorderF_ext, abs_kids_eq; exact R).
  assert (SV : forall y m, In (y, m) (live_slots a) -> ~ In y D ->
     live a' y /\ exists m', node_of a' y = Some m' /\ ondata_eqb (data m) (data m') = true).
  { intros y m Hy NI. apply in_live_slots in Hy. destruct Hy as (Hm & S & G).
    assert (Ly : live a y) by (exists m; auto).
    apply (survivor a a1 a' y m SS); auto.
    intros n Hn. apply HK; auto. intros HI. apply in_map_iff in HI. destruct HI as (d & E & Hd).
    apply NI. replace y with d; auto. apply (live_inj a1); auto.
    now apply (live_same_shape a a1 y SS). }
  unfold check_step. cbv zeta. rewrite (repr_both_views _ _ R'). cbn [app]. rewrite ED.
  rewrite (forest_clause _ _ _ _ R') by (apply feq_remove_subtree, abs_feq; exact R).
  do 2 (forallb_true;
    [ intros [y m] Hy; cbn [fst]; destruct (nid_in y D) eqn:E;
      [ apply nid_in_true in E;
        first [ reflexivity
              | rewrite (not_live_b a' y)
                  by (intros L'; eapply live_not_removed; [exact L' | apply HD; exact E]);
                reflexivity ]
      | assert (NI : ~ In y D) by (intros HI; apply nid_in_true in HI; congruence);
        destruct (SV y m Hy NI) as [L' (m' & Hm' & E')];
        first [ rewrite (live_b_true _ _ L'); reflexivity | cbn [orb]; rewrite Hm'; exact E' ] ] |]).
  reflexivity.
Qed.

Lemma new_check : forall a F v a' x FL, Repr a F -> Repr a' (f_new x F) -> FreeOK a FL ->
  ~ live a x -> live a' x -> node_at a' x (fresh_node (gen x) (Data v)) ->
  (forall y, live a y -> idx y <> idx x) ->
  (forall j, j <> idx x -> nth_error (nodes a') j = nth_error (nodes a) j) ->
  length (nodes a') = match FL with [] => S (length (nodes a)) | _ :: _ => length (nodes a) end ->
  check_step a (ONew v) (OutId x) a' = [].
Proof.
  intros a F v a' x FL R R' FO NL LX HX Hnl HO LEN.
  unfold check_step. cbv zeta. rewrite (repr_both_views _ _ R'). cbn [app].
  rewrite (not_live_b _ _ NL), (live_b_true _ _ LX). cbn [orb negb].
  rewrite (others_same_b_true [] a a').
  2:{ intros y n Ly Hn _. unfold node_at in *. rewrite HO; auto. }
  rewrite (count_rule a a' FL FO LEN).
  unfold node_at in HX. unfold node_of. rewrite HX, node_eqb_refl.
  rewrite (forest_clause _ _ _ _ R') by (apply feq_new, abs_feq; exact R).
  reflexivity.
Qed.

Lemma append_check : forall a F p v a1 a' x FL, Repr a F -> live a p -> FreeOK a FL ->
  Repr a' (f_append_value p x F) -> ~ live a x -> live a' x ->
  (forall y, live a y -> idx y <> idx x) ->
  (forall j, j <> idx x -> nth_error (nodes a1) j = nth_error (nodes a) j) ->
  length (nodes a1) = match FL with [] => S (length (nodes a)) | _ :: _ => length (nodes a) end ->
  a' = amap (iluF a1 x p) a1 ->
  check_step a (OAppendValue p v) (OutId x) a' = [].
Proof.
  intros a F p v a1 a' x FL R Lp FO R' NL LX Hnl HO LEN EA.
  assert (NR : slot_removed_b a p = false).
  { destruct (slot_removed_b a p) eqn:E; auto. apply slot_removed_b_spec in E.
    exfalso. eapply live_not_removed; [exact Lp | exact E]. }
  assert (Ep : nd a1 p = nd a p).
  { apply nd_at. rewrite HO by (now apply Hnl). apply at_nd. now apply live_inr. }
  unfold check_step. cbv zeta. rewrite (repr_both_views _ _ R'). cbn [app]. rewrite NR.
  rewrite (not_live_b _ _ NL), (live_b_true _ _ LX). cbn [orb negb].
  rewrite (others_same_b_true _ a a').
  2:{ intros y n Ly Hn NI. rewrite node_of_nd in NI by (now apply live_inr).
      pose proof (Hnl y Ly) as Nx.
      subst a'. unfold node_at in *. rewrite nth_amap, HO, Hn by exact Nx. cbn [option_map]. f_equal.
      unfold iluF. apply ReprInsert.transplantF_other.
      - now apply Nat.eqb_neq.
      - cbn [oat]. apply Nat.eqb_neq. intros E. apply NI. left. now symmetry.
      - rewrite Ep. destruct (last (nd a p)) as [l|]; cbn [oat]; auto.
        apply Nat.eqb_neq. intros E. apply NI. right. left. now symmetry.
      - reflexivity. }
  assert (LEN' : length (nodes a') = length (nodes a1)) by (subst a'; apply length_amap).
  rewrite <- LEN' in LEN. rewrite (count_rule a a' FL FO LEN).
  rewrite (forest_clause _ _ _ _ R') by (apply feq_append_value, abs_feq; exact R).
  reflexivity.
Qed.

Lemma write_check : forall a F x v a' n, Repr a F -> Repr a' F ->
  node_at a' x (set_data (Data v) n) ->
  (forall j, j <> idx x -> nth_error (nodes a') j = nth_error (nodes a) j) ->
  check_step a (OWrite x v) OutUnit a' = [].
Proof.
  intros a F x v a' n R R' HX HO.
  unfold check_step. cbv zeta. rewrite (repr_both_views _ _ R'). cbn [app].
  rewrite (others_same_b_true [idx x] a a').
  2:{ intros y m Ly Hm NI. unfold node_at in *. rewrite HO; auto. intros E. apply NI. now left. }
  rewrite (forest_clause _ _ _ _ R') by (apply abs_feq; exact R).
  unfold node_at in HX. unfold node_of. rewrite HX. cbn [set_data data ondata_eqb].
  rewrite N.eqb_refl. reflexivity.
Qed.

Lemma failed_check_unchanged : forall a F, Repr a F -> both_views_agree a = true /\ arena_eqb a a = true.
Proof. intros a F R. split; [eapply repr_both_views; eauto | apply arena_eqb_refl]. Qed.

(* ---------- the model's steps ---------- *)
Definition silent (w : world) (o : op) : Prop :=
  check_step (ar w) o (snd (step false w o)) (ar (fst (step false w o))) = [].

Lemma insert_silent : forall w k chk x c, WF w -> valid_op (ar w) (OInsert k chk x c) ->
  silent w (OInsert k chk x c).
Proof.
  intros w k chk x c H V. unfold silent.
  pose proof (Assembly.step_WF w _ H V) as [[F' R'] _].
  destruct H as [[F R] OK].
  pose proof (Assembly.step_outcome w _ F R OK V) as SO.
  destruct V as [Ux Uc].
  destruct chk; cbv beta iota zeta in SO; destruct SO as [S1 S2];
    apply (insert_check (ar w) F k _ x c _ _ F' R Ux Uc R'); cbv beta iota.
  - intros I. destruct (S1 I) as (e & E & RA & EA). split; [exact EA | exists e; split; assumption].
  - intros NI. exact (S2 NI).
  - intros I. destruct (S1 I) as [E EA]. split; assumption.
  - intros NI. destruct (S2 NI) as (E & R2 & SS & _). auto.
Qed.

Lemma detach_silent : forall w x, WF w -> valid_op (ar w) (ODetach x) -> silent w (ODetach x).
Proof.
  intros w x H L. unfold silent. destruct H as [[F R] OK].
  pose proof (Assembly.step_outcome w (ODetach x) F R OK L) as SO. cbv beta iota zeta in SO.
  destruct SO as (-> & R2 & SS). eapply detach_check; eauto.
Qed.

Lemma remove_silent : forall w x, WF w -> valid_op (ar w) (ORemove x) -> silent w (ORemove x).
Proof.
  intros w x H L. unfold silent. cbn [valid_op] in L.
  destruct (AllocProps.remove_run w x H L) as (a1 & a' & v & FL1 & SS & OK1 & FO1 & L1 & Efree & Erem).
  destruct H as [[F R] OK].
  pose proof (Assembly.step_outcome w (ORemove x) F R OK L) as SO. cbv beta iota zeta in SO.
  destruct (AllocProofs.free_node_spec _ x FL1 OK1 FO1 L1) as (a2 & v2 & E2 & _ & _ & SR & _ & _ & FR & _).
  cbn [ar] in E2, SR, FR. rewrite Efree in E2. inversion E2; subst a2 v2.
  revert SO. cbn [step]. rewrite Erem. cbn [fst snd ar]. intros (_ & R2 & _).
  apply (remove_check (ar w) F x a1 a'); auto.
  intros j n Hn. destruct (FR j n Hn) as (n' & Hn' & _ & _ & _ & _ & _ & K). exists n'. auto.
Qed.

Lemma remove_subtree_silent : forall w x, WF w -> valid_op (ar w) (ORemoveSubtree x) ->
  silent w (ORemoveSubtree x).
Proof.
  intros w x H L. unfold silent. cbn [valid_op] in L. destruct H as [[F R] OK].
  pose proof (ReprRemove.remove_subtree_refines (ar w) F x R L (Assembly.AllocOK_lfree_ok w OK)) as HH.
  cbv zeta in HH. destruct HH as (a1 & a' & olds & SS & ND & LD & Efa & Ers & R2).
  assert (OK1 : AllocOK (mkWorld a1 (issued w) (removed w) (dropped w)))
    by (now apply AllocProofs.AllocOK_same_shape).
  destruct (al_free _ OK1) as (FL1 & FO1).
  destruct (AllocProofs.free_all_spec _ _ FL1 OK1 FO1 LD ND)
    as (a2 & olds2 & E2 & _ & _ & _ & HD & HK & _).
  cbn [ar] in E2, HD, HK. rewrite Efa in E2. inversion E2; subst a2 olds2.
  cbn [step]. rewrite Ers. cbn [fst snd ar].
  apply (remove_subtree_check (ar w) F x a1 a'); auto.
  - intros y Hy. apply HD; auto.
  - intros j n NI Hn. destruct (HK j n NI Hn) as (n' & Hn' & _ & S & D). eauto.
Qed.

(* what new_node does, in the form the checks need *)
Lemma new_node_facts : forall w v, AllocOK w ->
  exists a' x FL, new_node false v (ar w) = (a', Ok x) /\ FreeOK (ar w) FL /\
    ~ live (ar w) x /\ live a' x /\ node_at a' x (fresh_node (gen x) (Data v)) /\
    (forall y, live (ar w) y -> idx y <> idx x) /\
    (forall j, j <> idx x -> nth_error (nodes a') j = nth_error (nodes (ar w)) j) /\
    length (nodes a') = match FL with [] => S (length (nodes (ar w))) | _ :: _ => length (nodes (ar w)) end.
Proof.
  intros w v OK. destruct (al_free _ OK) as (FL & FO).
  destruct (AllocProofs.new_node_spec w v FL OK FO) as (a' & x & E & NI & LX & HX & HO & HFL & OK').
  exists a', x, FL. split; [exact E|]. split; [exact FO|].
  assert (NL : ~ live (ar w) x).
  { intros (n & Hn & S & G). apply NI. pose proof (al_live _ OK (idx x) n Hn) as H.
    rewrite S in H. destruct x as [i g]; cbn in H, G. apply H; exact G. }
  assert (Hnl : forall y, live (ar w) y -> idx y <> idx x).
  { intros y L E'. destruct FL as [|i FL'].
    - destruct HFL as (E1 & _). apply live_inr in L. unfold inr in L. lia.
    - destruct HFL as (_ & SR & _).
      assert (SR' : slot_removed (ar w) y).
      { destruct SR as (n & Hn & S). exists n. unfold node_at in *. rewrite E'. auto. }
      eapply live_not_removed; eauto. }
  repeat (split; [assumption|]).
  destruct FL; [destruct HFL as (_ & _ & H & _) | destruct HFL as (_ & _ & H & _)]; exact H.
Qed.

Lemma new_silent : forall w v, WF w -> silent w (ONew v).
Proof.
  intros w v H. unfold silent. destruct H as [[F R] OK].
  pose proof (Assembly.step_outcome w (ONew v) F R OK Logic.I) as SO. cbv beta iota zeta in SO.
  destruct (new_node_facts w v OK) as (a' & x & FL & E & FO & NL & LX & HX & Hnl & HO & LEN).
  revert SO. cbn [step]. rewrite E. cbn [fst snd ar]. intros (x0 & Ex & R2 & _).
  inversion Ex; subst x0.
  apply (new_check (ar w) F v a' x FL); auto.
Qed.

Lemma append_value_silent : forall w p v, WF w -> valid_op (ar w) (OAppendValue p v) ->
  silent w (OAppendValue p v).
Proof.
  intros w p v H V. unfold silent. cbn [valid_op] in V. destruct H as [[F R] OK]. destruct V as [L|SR].
  - destruct (Assembly.append_full w F p v R OK L)
      as (a1 & a' & x & E1 & E & R1 & R' & NL & S' & Lp1 & Lx1 & NE & _).
    destruct (new_node_facts w v OK) as (a1' & x' & FL & E1' & FO & _ & _ & HX & Hnl & HO & LEN).
    rewrite E1 in E1'. inversion E1'; subst a1' x'.
    assert (Eapp : append_value false p v (ar w) = (amap (iluF a1 x p) a1, Ok x)).
    { unfold append_value. rewrite bind_rdi by (now apply live_inr).
      unfold node_is_removed, st_is_removed. rewrite (ReprInsert.live_ltb _ _ L). cbv iota.
      rewrite bind_ret. erewrite bind_ok by exact E1.
      erewrite bind_ok.
      2:{ apply ilu_ok.
          - now apply live_inr.
          - now apply live_inr.
          - apply (link_inr a1 _ R1 p Flast Lp1).
          - rewrite (nd_at _ _ _ HX). reflexivity.
          - apply nid_eqb_neq. congruence. }
      reflexivity. }
    assert (EA : a' = amap (iluF a1 x p) a1) by congruence.
    cbn [step]. rewrite E. cbn [fst snd ar].
    apply (append_check (ar w) F p v a1 a' x FL); auto.
    apply (live_same_shape a1 a' x S'). exact Lx1.
  - pose proof (Assembly.step_outcome w (OAppendValue p v) F R OK (or_intror SR)) as SO.
    cbv beta iota zeta in SO. destruct SO as [S1 _]. destruct (S1 SR) as [-> ->].
    unfold check_step. cbv zeta. rewrite (repr_both_views _ _ R), arena_eqb_refl.
    rewrite (proj2 (slot_removed_b_spec _ _) SR). reflexivity.
Qed.

Lemma write_silent : forall w x v, WF w -> valid_op (ar w) (OWrite x v) -> silent w (OWrite x v).
Proof.
  intros w x v H L. unfold silent. cbn [valid_op] in L.
  destruct H as [[F R] OK]. destruct (al_free _ OK) as (FL & FO).
  destruct (AllocProofs.write_payload_spec w x v FL OK FO L) as (a' & old & n & E & Hn & Hd & Hn' & HO & _).
  pose proof (Assembly.step_outcome w (OWrite x v) F R OK L) as SO. cbv beta iota zeta in SO.
  revert SO. cbn [step]. rewrite E. cbn [fst snd ar]. intros (_ & R2).
  apply (write_check (ar w) F x v a' n); auto.
Qed.

Lemma clear_silent : forall w, WF w -> silent w OClear.
Proof.
  intros w H. unfold silent. destruct H as [[F R] OK].
  pose proof (Assembly.step_outcome w OClear F R OK Logic.I) as SO. cbv beta iota zeta in SO.
  destruct SO as [-> ->]. unfold check_step. cbv zeta.
  rewrite (repr_both_views _ _ Assembly.Repr_empty), arena_eqb_refl. reflexivity.
Qed.

Lemma reserve_silent : forall w n, WF w -> silent w (OReserve n).
Proof.
  intros w n H. unfold silent. destruct H as [[F R] OK].
  pose proof (Assembly.step_outcome w (OReserve n) F R OK Logic.I) as SO. cbv beta iota zeta in SO.
  destruct SO as [-> ->]. unfold check_step. cbv zeta.
  rewrite (repr_both_views _ _ R), arena_eqb_refl. reflexivity.
Qed.

(* ====================================================================== *)
(* Part D.  no false alarm on any valid step of the model                  *)
(* ====================================================================== *)

Theorem check_step_silent : forall w o, WF w -> valid_op (ar w) o ->
  check_step (ar w) o (snd (step false w o)) (ar (fst (step false w o))) = [].
Proof.
  intros w o H V. destruct o as [v|p v|k chk x c|x|x|x|x v| |n].
  - now apply new_silent.
  - now apply append_value_silent.
  - now apply insert_silent.
  - now apply detach_silent.
  - now apply remove_silent.
  - now apply remove_subtree_silent.
  - now apply write_silent.
  - now apply clear_silent.
  - now apply reserve_silent.
Qed.

Print Assumptions abs_repr.
Print Assumptions abs_kids_eq.
Print Assumptions abs_forest_eqb.
Print Assumptions impossible_b_spec.
Print Assumptions reason_applies_b_spec.
Print Assumptions check_step_silent.
