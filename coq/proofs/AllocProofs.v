(* AllocProofs.v — identity, generations and slot reuse (C06, C07, C08 building blocks):
   stamp arithmetic over the whole i16 range, structural operations never touch stamps / payloads /
   the free list, specifications of new_node / free_node / write_payload / clear / free_all against
   the allocation invariant [AllocOK], and the ghost bookkeeping theorems.
   Release semantics (dbg = false) unless a statement says [forall dbg]. *)
From IT Require Import Alloc.
Require Import Lia Permutation.
Open Scope mon_scope.

(* ====================================================================== *)
(* A. Stamp arithmetic                                                     *)
(* ====================================================================== *)

Lemma arith16_in : forall dbg z, i16_min <= z <= i16_max -> arith16 dbg z = Ok z.
Proof.
  intros dbg z H. unfold arith16, in_i16.
  destruct (Z.leb_spec i16_min z); [|lia].
  destruct (Z.leb_spec z i16_max); [|lia]. reflexivity.
Qed.

Lemma as_removed_live : forall dbg s, 0 <= s <= i16_max ->
  st_as_removed dbg s = Ok (if s <? i16_max then - s - 1 else i16_min).
Proof.
  intros dbg s H. unfold st_as_removed, st_is_removed.
  destruct (Z.ltb_spec s 0); [lia|]. rewrite andb_false_r.
  destruct (Z.ltb_spec s i16_max); [|reflexivity].
  rewrite arith16_in by (unfold i16_min, i16_max in *; lia).
  apply arith16_in. unfold i16_min, i16_max in *; lia.
Qed.

Lemma reuseable_removed : forall dbg s, i16_min <= s < 0 -> st_reuseable dbg s = Ok (i16_min <? s).
Proof.
  intros dbg s H. unfold st_reuseable, st_is_removed.
  destruct (Z.ltb_spec s 0); [|lia]. cbn [negb]. rewrite andb_false_r. reflexivity.
Qed.

Lemma reuse_removed : forall dbg s, i16_min < s < 0 -> st_reuse dbg s = Ok (- s).
Proof.
  intros dbg s H. unfold st_reuse.
  assert (G : arith16 dbg (- s) = Ok (- s)) by (apply arith16_in; unfold i16_min, i16_max in *; lia).
  destruct dbg; [|exact G].
  rewrite reuseable_removed by lia. destruct (Z.ltb_spec i16_min s); [exact G|lia].
Qed.

Lemma cycle_increases : forall dbg s s' s'', 0 <= s <= i16_max ->
  st_as_removed dbg s = Ok s' -> st_reuseable dbg s' = Ok true -> st_reuse dbg s' = Ok s'' ->
  s'' = s + 1 /\ s'' <= i16_max.
Proof.
  intros dbg s s' s'' H H1 H2 H3. rewrite as_removed_live in H1 by assumption.
  injection H1 as <-. destruct (Z.ltb_spec s i16_max).
  - rewrite reuse_removed in H3 by (unfold i16_min, i16_max in *; lia). injection H3 as <-. lia.
  - rewrite reuseable_removed in H2 by (unfold i16_min; lia).
    rewrite Z.ltb_irrefl in H2. discriminate.
Qed.

Lemma exhausted_retired : forall dbg,
  st_as_removed dbg i16_max = Ok i16_min /\ st_reuseable dbg i16_min = Ok false.
Proof.
  intros dbg. split.
  - rewrite as_removed_live by (unfold i16_max; lia). now rewrite Z.ltb_irrefl.
  - rewrite reuseable_removed by (unfold i16_min; lia). now rewrite Z.ltb_irrefl.
Qed.

(* ====================================================================== *)
(* generic list / arena facts                                              *)
(* ====================================================================== *)

Lemma length_list_set : forall A (l : list A) i v, length (list_set i v l) = length l.
Proof. induction l; intros [|i] v; cbn; auto. Qed.

Lemma nth_list_set_eq : forall A (l : list A) i n v, nth_error l i = Some n ->
  nth_error (list_set i v l) i = Some v.
Proof. induction l; intros [|i] n v H; cbn in *; try discriminate; eauto. Qed.

Lemma nth_list_set_neq : forall A (l : list A) i v j, j <> i ->
  nth_error (list_set i v l) j = nth_error l j.
Proof.
  induction l; intros [|i] v [|j] H; cbn; auto; try congruence; try (apply IHl; congruence).
Qed.

Lemma list_set_twice : forall A (l : list A) i v w, list_set i w (list_set i v l) = list_set i w l.
Proof. induction l; intros [|i] v w; cbn; auto. now rewrite IHl. Qed.

Lemma nth_error_lt : forall A (l : list A) i, (i < length l)%nat -> exists n, nth_error l i = Some n.
Proof.
  intros A l i H. destruct (nth_error l i) eqn:E; eauto.
  apply nth_error_None in E. lia.
Qed.

Lemma nth_error_some_lt : forall A (l : list A) i n, nth_error l i = Some n -> (i < length l)%nat.
Proof. intros A l i n H. apply nth_error_Some. congruence. Qed.

(* ====================================================================== *)
(* B. Structural operations preserve the shape                             *)
(* ====================================================================== *)

Lemma same_shape_refl : forall a, same_shape a a.
Proof. intros a. repeat split; auto. intros i n H. eauto. Qed.

Lemma same_shape_trans : forall a b c, same_shape a b -> same_shape b c -> same_shape a c.
Proof.
  intros a b c (L1 & F1 & E1 & N1) (L2 & F2 & E2 & N2). repeat split; try congruence.
  intros i n H. destruct (N1 _ _ H) as (n1 & H1 & S1 & D1).
  destruct (N2 _ _ H1) as (n2 & H2 & S2 & D2). exists n2. repeat split; congruence.
Qed.

(* the converse direction of the pointwise clause follows from the equal lengths *)
Lemma same_shape_inv : forall a a' i n', same_shape a a' -> nth_error (nodes a') i = Some n' ->
  exists n, nth_error (nodes a) i = Some n /\ stamp n' = stamp n /\ data n' = data n.
Proof.
  intros a a' i n' (L & _ & _ & N) H.
  destruct (nth_error_lt _ (nodes a) i) as (n & Hn).
  { rewrite <- L. eapply nth_error_some_lt; eauto. }
  destruct (N _ _ Hn) as (n2 & H2 & S2 & D2). exists n. rewrite H in H2. injection H2 as <-. auto.
Qed.

Lemma same_shape_sym : forall a a', same_shape a a' -> same_shape a' a.
Proof.
  intros a a' H. pose proof H as (L & F & E & N). repeat split; try congruence.
  intros i n' Hn'. destruct (same_shape_inv _ _ _ _ H Hn') as (n & Hn & S & D).
  exists n. repeat split; congruence.
Qed.

Definition shape_pres {A} (m : M A) : Prop := forall a a' r, m a = (a', r) -> same_shape a a'.

Lemma shape_ret : forall A (x : A), shape_pres (ret x).
Proof. intros A x a a' r H. injection H as <- _. apply same_shape_refl. Qed.
Lemma shape_panic : forall A c, shape_pres (@panic A c).
Proof. intros A c a a' r H. injection H as <- _. apply same_shape_refl. Qed.
Lemma shape_diverge : forall A, shape_pres (@diverge A).
Proof. intros A a a' r H. injection H as <- _. apply same_shape_refl. Qed.
Lemma shape_get_arena : shape_pres get_arena.
Proof. intros a a' r H. injection H as <- _. apply same_shape_refl. Qed.
Lemma shape_lift : forall A (r : R A), shape_pres (lift r).
Proof. intros A r a a' r' H. injection H as <- _. apply same_shape_refl. Qed.
Lemma shape_liftres : forall A (r : res A), shape_pres (liftres r).
Proof. intros A r a a' r' H. injection H as <- _. apply same_shape_refl. Qed.
Lemma shape_rd : forall i, shape_pres (rd i).
Proof.
  intros i a a' r H. unfold rd in H.
  destruct (nth_error (nodes a) i); injection H as <- _; apply same_shape_refl.
Qed.
Lemma shape_rdi : forall x, shape_pres (rdi x).
Proof. intros x. apply shape_rd. Qed.

Lemma shape_bind : forall A B (m : M A) (k : A -> M B),
  shape_pres m -> (forall x, shape_pres (k x)) -> shape_pres (bind m k).
Proof.
  intros A B m k Hm Hk a a' r H. unfold bind in H.
  destruct (m a) as [a1 [x|c|]] eqn:E.
  - eapply same_shape_trans; [eapply Hm; eauto | eapply Hk; eauto].
  - injection H as <- _. eapply Hm; eauto.
  - injection H as <- _. eapply Hm; eauto.
Qed.

Lemma shape_dassert : forall dbg b, shape_pres (dassert dbg b).
Proof. intros [|] [|]; cbn; first [apply shape_ret | apply shape_panic]. Qed.
Lemma shape_when_dbg : forall dbg m, shape_pres m -> shape_pres (when_dbg dbg m).
Proof. intros [|] m H; cbn; auto. apply shape_ret. Qed.

Lemma shape_upd : forall i g, (forall n, stamp (g n) = stamp n /\ data (g n) = data n) ->
  shape_pres (upd i g).
Proof.
  intros i g Hg a a' r H. unfold upd in H.
  destruct (nth_error (nodes a) i) as [n|] eqn:E; injection H as <- _; [|apply same_shape_refl].
  unfold same_shape, set_nodes; cbn. rewrite length_list_set. repeat split; auto.
  intros j m Hm. destruct (Nat.eq_dec j i) as [->|Hji].
  - rewrite (nth_list_set_eq _ _ _ _ _ E). exists (g n). rewrite E in Hm. injection Hm as <-.
    destruct (Hg n); auto.
  - rewrite nth_list_set_neq by assumption. eauto.
Qed.

Lemma shape_updi_setf : forall x f v, shape_pres (updi x (setf f v)).
Proof. intros x f v. apply shape_upd. intros n; destruct f; auto. Qed.
Lemma shape_updi_clear_links : forall x, shape_pres (updi x clear_links).
Proof. intros x. apply shape_upd. intros n; auto. Qed.
Lemma shape_updi_ends : forall p f l, shape_pres (updi p (fun n => setf Flast l (setf Ffirst f n))).
Proof. intros p f l. apply shape_upd. intros n; auto. Qed.

Ltac shp :=
  repeat first
    [ match goal with H : context [shape_pres] |- shape_pres _ => simple apply H end
    | simple apply shape_ret | simple apply shape_panic | simple apply shape_diverge
    | simple apply shape_get_arena
    | simple apply shape_lift | simple apply shape_liftres | simple apply shape_rdi
    | simple apply shape_rd
    | simple apply shape_dassert | simple apply shape_updi_setf
    | simple apply shape_updi_clear_links
    | simple apply shape_updi_ends
    | simple apply shape_when_dbg
    | simple apply shape_bind; [|intros]
    | match goal with
      | |- shape_pres (match ?x with _ => _ end) => destruct x
      end ].

Lemma shape_assert_eq_onid : forall x y, shape_pres (assert_eq_onid x y).
Proof. intros. unfold assert_eq_onid. shp. Qed.

Lemma shape_assert_triangle_nodes : forall par pv nx, shape_pres (assert_triangle_nodes par pv nx).
Proof. intros. unfold assert_triangle_nodes. pose proof shape_assert_eq_onid. shp; auto. Qed.

Lemma shape_dtriangle : forall dbg par pv nx, shape_pres (dtriangle dbg par pv nx).
Proof. intros. unfold dtriangle. apply shape_when_dbg, shape_assert_triangle_nodes. Qed.

Lemma shape_dparent_ends_agree : forall par, shape_pres (dparent_ends_agree par).
Proof. intros. unfold dparent_ends_agree. shp. Qed.

Lemma shape_dnot_removed : forall o, shape_pres (dnot_removed o).
Proof. intros. unfold dnot_removed. shp. Qed.

Lemma shape_expect : forall r, shape_pres (expect r).
Proof. intros. unfold expect. shp. Qed.

Lemma shape_expect_n : forall r, shape_pres (expect_n r).
Proof. intros. unfold expect_n. shp. Qed.

Ltac shp2 :=
  repeat first
    [ simple apply shape_assert_eq_onid | simple apply shape_assert_triangle_nodes
    | simple apply shape_dtriangle
    | simple apply shape_dparent_ends_agree | simple apply shape_dnot_removed
    | simple apply shape_expect
    | simple apply shape_expect_n | progress shp ].

Lemma shape_connect_neighbors : forall dbg par pv nx, shape_pres (connect_neighbors dbg par pv nx).
Proof. intros. unfold connect_neighbors. shp2. Qed.

Lemma shape_detach_from_siblings : forall dbg f l, shape_pres (detach_from_siblings dbg f l).
Proof.
  intros. unfold detach_from_siblings. pose proof shape_connect_neighbors. shp2; auto.
Qed.

Lemma shape_rewrite_parents_loop : forall fuel c np, shape_pres (rewrite_parents_loop fuel c np).
Proof.
  induction fuel; intros [c|] np; cbn [rewrite_parents_loop]; shp2; auto.
Qed.

Lemma shape_rewrite_parents : forall f np, shape_pres (rewrite_parents f np).
Proof. intros. unfold rewrite_parents. shp2. apply shape_rewrite_parents_loop. Qed.

Lemma shape_transplant : forall dbg f l par pv nx, shape_pres (transplant dbg f l par pv nx).
Proof.
  intros. unfold transplant. pose proof shape_connect_neighbors. pose proof shape_rewrite_parents.
  shp2; auto.
Qed.

Lemma shape_detach : forall dbg x, shape_pres (detach dbg x).
Proof.
  intros. unfold detach. pose proof shape_detach_from_siblings. pose proof shape_rewrite_parents.
  shp2; auto.
Qed.

Lemma shape_insert_with_neighbors : forall dbg new par pv nx,
  shape_pres (insert_with_neighbors dbg new par pv nx).
Proof.
  intros. unfold insert_with_neighbors.
  pose proof shape_detach_from_siblings. pose proof shape_transplant.
  shp2; auto.
Qed.

Lemma shape_insert_last_unchecked : forall dbg c p, shape_pres (insert_last_unchecked dbg c p).
Proof. intros. unfold insert_last_unchecked. pose proof shape_transplant. shp2; auto. Qed.

Lemma shape_either_removed : forall x y, shape_pres (either_removed x y).
Proof. intros. unfold either_removed. shp2. Qed.
Lemma shape_is_ancestor_or_self : forall x y, shape_pres (is_ancestor_or_self x y).
Proof. intros. unfold is_ancestor_or_self. shp2. Qed.
Lemma shape_is_strict_ancestor : forall x y, shape_pres (is_strict_ancestor x y).
Proof. intros. unfold is_strict_ancestor. shp2. Qed.

Lemma shape_checked_insert : forall dbg k x c, shape_pres (checked_insert dbg k x c).
Proof.
  intros.
  pose proof shape_either_removed. pose proof shape_is_ancestor_or_self.
  pose proof shape_is_strict_ancestor. pose proof shape_detach.
  pose proof shape_insert_with_neighbors.
  destruct k; cbn [checked_insert];
    unfold checked_append, checked_prepend, checked_insert_after, checked_insert_before;
    shp2; auto.
Qed.

Lemma shape_unchecked_insert : forall dbg k x c, shape_pres (unchecked_insert dbg k x c).
Proof.
  intros. pose proof (shape_checked_insert dbg).
  destruct k; cbn [unchecked_insert]; unfold append, prepend, insert_after, insert_before.
  - apply shape_bind; [apply (H KAppend)|intros; apply shape_expect_n].
  - apply shape_bind; [apply (H KPrepend)|intros; apply shape_expect_n].
  - apply shape_bind; [apply (H KAfter)|intros; apply shape_expect_n].
  - apply shape_bind; [apply (H KBefore)|intros; apply shape_expect_n].
Qed.

(* ====================================================================== *)
(* running the monad                                                       *)
(* ====================================================================== *)

Lemma bind_ok : forall A B (m : M A) (k : A -> M B) a a' x,
  m a = (a', Ok x) -> bind m k a = k x a'.
Proof. intros. unfold bind. now rewrite H. Qed.

Lemma rd_ok : forall a i n, nth_error (nodes a) i = Some n -> rd i a = (a, Ok n).
Proof. intros. unfold rd. now rewrite H. Qed.

Lemma upd_ok : forall a i n f, nth_error (nodes a) i = Some n ->
  upd i f a = (set_nodes (list_set i (f n) (nodes a)) a, Ok tt).
Proof. intros. unfold upd. now rewrite H. Qed.

Lemma last_cons : forall A (r : list A) k d, List.last (k :: r) d = List.last r k.
Proof. induction r as [|k2 r IH]; intros k d; [reflexivity|]. cbn [List.last] in *. destruct r; auto. Qed.

Lemma last_error_cons : forall A (i k : A) r, last_error (i :: k :: r) = last_error (k :: r).
Proof. intros. unfold last_error. f_equal. apply last_cons. Qed.

Lemma last_error_snoc : forall A (l : list A) k, last_error (l ++ [k]) = Some k.
Proof.
  induction l as [|i l IH]; intros k; [reflexivity|].
  destruct l as [|j l]; [reflexivity|].
  change ((i :: j :: l) ++ [k]) with (i :: j :: (l ++ [k])). rewrite last_error_cons. apply (IH k).
Qed.

Lemma last_error_in : forall A (l : list A) k, last_error l = Some k -> In k l.
Proof.
  induction l as [|i l IH]; intros k H; [discriminate|].
  destruct l as [|j l]; [injection H as <-; now left|].
  rewrite last_error_cons in H. right. auto.
Qed.

Lemma NoDup_snoc : forall A (l : list A) x, NoDup l -> ~ In x l -> NoDup (l ++ [x]).
Proof.
  induction l as [|y l IH]; intros x ND NI; cbn.
  - constructor; auto; constructor.
  - inversion ND; subst. constructor.
    + rewrite in_app_iff. cbn. intros [H|[H|[]]]; [auto|]. subst. apply NI. now left.
    + apply IH; auto. intro. apply NI. now right.
Qed.

(* ====================================================================== *)
(* liveness in terms of the stamp of the slot                              *)
(* ====================================================================== *)

Lemma live_iff : forall a x, live a x <-> stamp_at a (idx x) = Some (gen x) /\ 0 <= gen x.
Proof.
  intros a x. unfold live, node_at, stamp_at. split.
  - intros (n & H & S & G). rewrite H. cbn. split; congruence.
  - intros (H & G). destruct (nth_error (nodes a) (idx x)) as [n|]; [|discriminate].
    cbn in H. exists n. repeat split; congruence.
Qed.

Lemma live_stamp_at_eq : forall a a' x, stamp_at a' (idx x) = stamp_at a (idx x) ->
  (live a x <-> live a' x).
Proof. intros. rewrite !live_iff. now rewrite H. Qed.

Lemma live_dec : forall a x, live a x \/ ~ live a x.
Proof.
  intros a x. rewrite live_iff.
  destruct (stamp_at a (idx x)) as [s|].
  - destruct (Z.eq_dec s (gen x)); [|right; intros [H _]; congruence].
    destruct (Z_le_gt_dec 0 (gen x)); [left; split; congruence|right; intros [_ H]; lia].
  - right. intros [H _]. discriminate.
Qed.

Lemma live_not_removed : forall a x, live a x -> ~ slot_removed a x.
Proof.
  intros a x (n & H & S & G) (m & H' & L). unfold node_at in *. rewrite H in H'.
  injection H' as <-. lia.
Qed.

(* ====================================================================== *)
(* the free list as a ghost sequence                                       *)
(* ====================================================================== *)

Lemma flseg_frame : forall a a' l cur, flseg a cur l ->
  (forall j n, In j l -> nth_error (nodes a) j = Some n ->
     exists n', nth_error (nodes a') j = Some n' /\ data n' = data n) ->
  flseg a' cur l.
Proof.
  intros a a'. induction l as [|i r IH]; intros cur H Hf; cbn in *; auto.
  destruct H as (-> & n & nf & Hn & Hd & Hr). split; auto.
  destruct (Hf i n) as (n' & Hn' & Hd'); auto.
  exists n', nf. repeat split; auto; try congruence.
Qed.

Lemma flseg_frame_eq : forall a a' l cur, flseg a cur l ->
  (forall j, In j l -> nth_error (nodes a') j = nth_error (nodes a) j) -> flseg a' cur l.
Proof.
  intros a a' l cur H Hf. eapply flseg_frame; eauto.
  intros j n Hj Hn. exists n. rewrite Hf; auto.
Qed.

Lemma flseg_fun : forall a l1 l2 cur, flseg a cur l1 -> flseg a cur l2 -> l1 = l2.
Proof.
  intros a. induction l1 as [|i r IH]; intros [|j s] cur H1 H2; cbn in *; auto.
  - destruct H2 as (H2 & _). congruence.
  - destruct H1 as (H1 & _). congruence.
  - destruct H1 as (-> & n & nf & Hn & Hd & Hr). destruct H2 as (E & n' & nf' & Hn' & Hd' & Hr').
    injection E as <-. rewrite Hn in Hn'. injection Hn' as <-. rewrite Hd in Hd'. injection Hd' as <-.
    f_equal. eauto.
Qed.

(* appending one slot at the end *)
Lemma flseg_snoc : forall a a' k l cur lastl,
  flseg a cur l -> NoDup l -> ~ In k l -> last_error l = Some lastl ->
  (forall j, j <> k -> j <> lastl -> nth_error (nodes a') j = nth_error (nodes a) j) ->
  (exists nk, nth_error (nodes a') k = Some nk /\ data nk = NextFree None) ->
  (forall n, nth_error (nodes a) lastl = Some n ->
     exists n', nth_error (nodes a') lastl = Some n' /\ data n' = NextFree (Some k)) ->
  flseg a' cur (l ++ [k]).
Proof.
  intros a a' k. induction l as [|i r IH]; intros cur lastl H ND NI HL Hf Hk Hl; [discriminate|].
  cbn [flseg] in H. destruct H as (-> & n & nf & Hn & Hd & Hr).
  destruct r as [|i2 r].
  - cbn in HL. injection HL as <-. cbn in Hr. subst nf.
    destruct (Hl _ Hn) as (n' & Hn' & Hd'). cbn. split; auto.
    exists n', (Some k). repeat split; auto.
    destruct Hk as (nk & Hnk & Hdk). exists nk, None. auto.
  - rewrite last_error_cons in HL. inversion ND; subst.
    assert (i <> lastl). { intros ->. apply H1. now apply last_error_in. }
    assert (i <> k). { intros ->. apply NI. now left. }
    change ((i :: i2 :: r) ++ [k]) with (i :: ((i2 :: r) ++ [k])). cbn [flseg]. split; auto.
    exists n, nf. rewrite Hf by auto. split; [auto|split; [auto|]].
    eapply IH; eauto. intro. apply NI. now right.
Qed.

Lemma flseg_in_range : forall a l cur i, flseg a cur l -> In i l -> exists n, nth_error (nodes a) i = Some n.
Proof.
  intros a. induction l as [|j r IH]; intros cur i H Hi; [destruct Hi|].
  cbn in H. destruct H as (-> & n & nf & Hn & Hd & Hr). destruct Hi as [<-|Hi]; eauto.
Qed.

Lemma free_walk_flseg : forall a l fuel cur, flseg a cur l -> (length l <= fuel)%nat ->
  free_walk fuel a cur = l.
Proof.
  intros a. induction l as [|i r IH]; intros fuel cur H L; cbn in H.
  - subst. destruct fuel; reflexivity.
  - destruct H as (-> & n & nf & Hn & Hd & Hr). destruct fuel; cbn in L; [lia|].
    cbn [free_walk]. rewrite Hn, Hd. f_equal. apply IH; auto. lia.
Qed.

(* the ghost list is the observable free list *)
Lemma free_list_correct : forall a FL, FreeOK a FL -> free_list a = FL.
Proof.
  intros a FL (Hseg & _ & ND & _). unfold free_list. apply free_walk_flseg; auto.
  rewrite <- (seq_length (length (nodes a)) 0). apply NoDup_incl_length; auto.
  intros i Hi. destruct (flseg_in_range _ _ _ _ Hseg Hi) as (n & Hn).
  apply in_seq. apply nth_error_some_lt in Hn. lia.
Qed.

Lemma FreeOK_fun : forall a FL1 FL2, FreeOK a FL1 -> FreeOK a FL2 -> FL1 = FL2.
Proof. intros a FL1 FL2 H1 H2. rewrite <- (free_list_correct _ _ H1). now apply free_list_correct. Qed.

(* ====================================================================== *)
(* C. Allocation                                                           *)
(* ====================================================================== *)

Lemma pop_front_none : forall a, ffree a = None ->
  pop_front_free_node a = (set_ffree None a, Ok None).
Proof. intros a H. unfold pop_front_free_node, bind, get_arena, put_arena. now rewrite H. Qed.

Lemma pop_front_some : forall a i n nf, ffree a = Some i -> nth_error (nodes a) i = Some n ->
  data n = NextFree nf ->
  pop_front_free_node a = (mkArena (nodes a) nf (if is_some nf then lfree a else None), Ok (Some i)).
Proof.
  intros a i n nf H Hn Hd. unfold pop_front_free_node, bind, get_arena, put_arena, rd. rewrite H.
  cbn. rewrite Hn, Hd. destruct nf; reflexivity.
Qed.

Lemma node_reuse_ok : forall a i n v s', nth_error (nodes a) i = Some n ->
  st_reuse false (stamp n) = Ok s' ->
  node_reuse false i v a = (set_nodes (list_set i (fresh_node s' (Data v)) (nodes a)) a, Ok s').
Proof.
  intros a i n v s' Hn Hs. unfold node_reuse, bind, rd, dassert, ret, liftres, upd.
  rewrite Hn, Hs, Hn. reflexivity.
Qed.

Lemma nth_snoc_neq : forall A (l : list A) x j, j <> length l -> nth_error (l ++ [x]) j = nth_error l j.
Proof.
  intros A l x j H. destruct (Nat.lt_ge_cases j (length l)).
  - now apply nth_error_app1.
  - assert (nth_error l j = None) as -> by (apply nth_error_None; lia).
    apply nth_error_None. rewrite app_length. cbn. lia.
Qed.

Lemma nth_snoc_eq : forall A (l : list A) x, nth_error (l ++ [x]) (length l) = Some x.
Proof. intros. rewrite nth_error_app2 by lia. now rewrite Nat.sub_diag. Qed.

Ltac sn := cbn [nodes ffree lfree set_nodes set_ffree set_lfree ar issued removed dropped idx gen] in *.

Theorem new_node_spec : forall w v FL, AllocOK w -> FreeOK (ar w) FL ->
  exists a' x, new_node false v (ar w) = (a', Ok x) /\
    ~ In x (issued w) /\ live a' x /\
    node_at a' x (fresh_node (gen x) (Data v)) /\
    (forall j, j <> idx x -> nth_error (nodes a') j = nth_error (nodes (ar w)) j) /\
    match FL with
    | i :: FL' => idx x = i /\ slot_removed (ar w) x /\ length (nodes a') = length (nodes (ar w)) /\ FreeOK a' FL'
    | [] => idx x = length (nodes (ar w)) /\ gen x = 0 /\ length (nodes a') = S (length (nodes (ar w))) /\ FreeOK a' []
    end /\
    AllocOK (mkWorld a' (issued w ++ [x]) (removed w) (dropped w)).
Proof.
  intros [a iss rem drp] v FL OK FO. cbn [ar issued removed dropped] in *.
  destruct OK as [Hrange Hdata Hnodup Hissued Hlive Hremoved _]. cbn [ar issued removed dropped] in *.
  destruct FO as (Hseg & Hlast & HND & Hreus).
  destruct FL as [|i FL'].
  - (* the free list is empty: push *)
    cbn in Hseg, Hlast.
    set (f := fresh_node 0 (Data v)).
    exists (set_nodes (nodes a ++ [f]) (set_ffree None a)), (mkId (length (nodes a)) 0).
    assert (N1 : forall j, j <> length (nodes a) -> nth_error (nodes a ++ [f]) j = nth_error (nodes a) j)
      by (intros; now apply nth_snoc_neq).
    assert (N2 : nth_error (nodes a ++ [f]) (length (nodes a)) = Some f) by apply nth_snoc_eq.
    assert (NX : ~ In (mkId (length (nodes a)) 0) iss).
    { intro Hin. destruct (Hissued _ Hin) as (n & Hn & _). unfold node_at in Hn; cbn in Hn.
      apply nth_error_some_lt in Hn. lia. }
    assert (LX : live (set_nodes (nodes a ++ [f]) (set_ffree None a)) (mkId (length (nodes a)) 0)).
    { exists f. unfold node_at; cbn. repeat split; auto. lia. }
    assert (FO' : FreeOK (set_nodes (nodes a ++ [f]) (set_ffree None a)) []).
    { unfold FreeOK; cbn. repeat split; auto; try constructor; try tauto.
      intros (n & Hn & Hs). sn. destruct (Nat.eq_dec i (length (nodes a))) as [->|Hi].
      - rewrite N2 in Hn. injection Hn as <-. cbn in Hs. lia.
      - rewrite N1 in Hn by auto. apply (Hreus i). exists n; auto. }
    split; [|split; [|split; [|split; [|split; [|split]]]]]; auto.
    + unfold new_node. erewrite bind_ok by (apply pop_front_none; assumption). reflexivity.
    + cbn [idx gen nodes set_nodes]. split; [reflexivity|split; [reflexivity|split; [|exact FO']]].
      rewrite app_length. cbn. lia.
    + constructor; cbn [ar issued removed dropped nodes set_nodes].
      * intros j n Hn. destruct (Nat.eq_dec j (length (nodes a))) as [->|Hj].
        -- rewrite N2 in Hn. injection Hn as <-. cbn. unfold i16_min, i16_max. lia.
        -- rewrite N1 in Hn by auto. eauto.
      * intros j n Hn. destruct (Nat.eq_dec j (length (nodes a))) as [->|Hj].
        -- rewrite N2 in Hn. injection Hn as <-. cbn. split; [eauto|lia].
        -- rewrite N1 in Hn by auto. eauto.
      * apply NoDup_snoc; auto.
      * intros y Hy. apply in_app_or in Hy. destruct Hy as [Hy|[<-|[]]].
        -- destruct (Hissued _ Hy) as (n & Hn & G). exists n. split; auto.
           unfold node_at in *. cbn. rewrite N1; auto. apply nth_error_some_lt in Hn. lia.
        -- exists f. unfold node_at. cbn. repeat split; auto; lia.
      * intros j n Hn Hs. apply in_or_app. destruct (Nat.eq_dec j (length (nodes a))) as [->|Hj].
        -- rewrite N2 in Hn. injection Hn as <-. right. now left.
        -- rewrite N1 in Hn by auto. left. eauto.
      * intros y. rewrite Hremoved, in_app_iff. split.
        -- intros (Hy & NL). split; auto. intro L. apply NL.
           destruct (Hissued _ Hy) as (n & Hn & _). apply nth_error_some_lt in Hn.
           eapply live_stamp_at_eq; [|exact L]. unfold stamp_at. cbn. rewrite N1; auto. lia.
        -- intros ([Hy|[<-|[]]] & NL); [|contradiction]. split; auto. intro L. apply NL.
           destruct (Hissued _ Hy) as (n & Hn & _). apply nth_error_some_lt in Hn.
           eapply live_stamp_at_eq; [|exact L]. unfold stamp_at. cbn. rewrite N1; auto. lia.
      * exists []. exact FO'.
  - (* recycle the head of the free list *)
    cbn [flseg] in Hseg. destruct Hseg as (Hff & n & nf & Hn & Hd & Hseg).
    assert (Hs : i16_min < stamp n < 0).
    { destruct (proj1 (Hreus i) (or_introl eq_refl)) as (n0 & Hn0 & Hs). congruence. }
    set (s := stamp n) in *.
    set (f := fresh_node (- s) (Data v)).
    set (a1 := mkArena (nodes a) nf (if is_some nf then lfree a else None)).
    exists (set_nodes (list_set i f (nodes a)) a1), (mkId i (- s)).
    assert (N1 : forall j, j <> i -> nth_error (list_set i f (nodes a)) j = nth_error (nodes a) j)
      by (intros; now apply nth_list_set_neq).
    assert (N2 : nth_error (list_set i f (nodes a)) i = Some f) by (eapply nth_list_set_eq; eauto).
    inversion HND as [|? ? NI ND']; subst.
    assert (NX : ~ In (mkId i (- s)) iss).
    { intro Hin. destruct (Hissued _ Hin) as (n' & Hn' & _ & _ & G). unfold node_at in Hn'; cbn in Hn'.
      rewrite Hn in Hn'. injection Hn' as <-. cbn in G. fold s in G. lia. }
    assert (LX : live (set_nodes (list_set i f (nodes a)) a1) (mkId i (- s))).
    { exists f. unfold node_at; cbn. repeat split; auto. lia. }
    assert (FO' : FreeOK (set_nodes (list_set i f (nodes a)) a1) FL').
    { unfold FreeOK; cbn [nodes ffree lfree set_nodes a1].
      split; [|split; [|split; [exact ND'|intros j; split]]].
      - eapply flseg_frame_eq; eauto. intros j Hj. cbn. apply N1. intros ->. auto.
      - destruct FL' as [|k r].
        + cbn in Hseg. subst nf. reflexivity.
        + cbn [flseg] in Hseg. destruct Hseg as (-> & _). cbn [is_some].
          rewrite Hlast. apply last_error_cons.
      - intros Hj. assert (j <> i) by (intros ->; auto).
        destruct (proj1 (Hreus j) (or_intror Hj)) as (m & Hm & G). exists m. rewrite N1; auto.
      - intros (m & Hm & G). sn. destruct (Nat.eq_dec j i) as [->|Hj].
        + rewrite N2 in Hm. injection Hm as <-. cbn in G. lia.
        + rewrite N1 in Hm by auto. destruct (proj2 (Hreus j)) as [E|E]; auto.
          * exists m; auto. * congruence. }
    split; [|split; [|split; [|split; [|split; [|split]]]]]; auto.
    + unfold new_node. erewrite bind_ok by (eapply pop_front_some; eauto). cbn beta iota.
      erewrite bind_ok.
      2:{ apply (node_reuse_ok a1 i n v (- s)); auto. apply reuse_removed. exact Hs. }
      reflexivity.
    + cbn [idx gen nodes set_nodes]. split; [reflexivity|split; [|split; [|exact FO']]].
      * exists n. split; auto. lia.
      * apply length_list_set.
    + constructor; cbn [ar issued removed dropped nodes set_nodes].
      * intros j m Hm. destruct (Nat.eq_dec j i) as [->|Hj].
        -- rewrite N2 in Hm. injection Hm as <-. cbn. unfold i16_min, i16_max in *. lia.
        -- rewrite N1 in Hm by auto. eauto.
      * intros j m Hm. destruct (Nat.eq_dec j i) as [->|Hj].
        -- rewrite N2 in Hm. injection Hm as <-. cbn. split; [eauto|lia].
        -- rewrite N1 in Hm by auto. eauto.
      * apply NoDup_snoc; auto.
      * intros y Hy. apply in_app_or in Hy. destruct Hy as [Hy|[<-|[]]].
        -- destruct (Hissued _ Hy) as (m & Hm & G0 & G1 & G2). unfold node_at in *. cbn.
           destruct (Nat.eq_dec (idx y) i) as [E|E].
           ++ rewrite E in *. rewrite N2. exists f. rewrite Hn in Hm. injection Hm as <-.
              fold s in G1, G2. cbn. repeat split; auto; lia.
           ++ rewrite N1 by auto. exists m. auto.
        -- exists f. unfold node_at. cbn. repeat split; auto; lia.
      * intros j m Hm Hsm. apply in_or_app. destruct (Nat.eq_dec j i) as [->|Hj].
        -- rewrite N2 in Hm. injection Hm as <-. right. now left.
        -- rewrite N1 in Hm by auto. left. eauto.
      * assert (Hy : forall y, In y iss -> (live a y <-> live (set_nodes (list_set i f (nodes a)) a1) y)).
        { intros y Hy. destruct (Nat.eq_dec (idx y) i) as [E|E].
          - destruct (Hissued _ Hy) as (m & Hm & G0 & G1 & G2). unfold node_at in Hm.
            rewrite E, Hn in Hm. injection Hm as <-. fold s in G1, G2.
            rewrite !live_iff. unfold stamp_at. cbn. rewrite E, N2, Hn. cbn. fold s.
            split; intros (H1 & H2); injection H1 as H1; lia.
          - apply live_stamp_at_eq. unfold stamp_at. cbn. now rewrite N1. }
        intros y. rewrite Hremoved, in_app_iff. split.
        -- intros (Hi & NL). split; auto. rewrite <- Hy; auto.
        -- intros ([Hi|[<-|[]]] & NL); [|contradiction]. split; auto. rewrite Hy; auto.
      * exists FL'. exact FO'.
Qed.

(* ---------- free_node ---------- *)

Definition same_links (n n' : node) : Prop :=
  parent n' = parent n /\ prev n' = prev n /\ next n' = next n /\ first n' = first n /\ last n' = last n.

Lemma same_links_refl : forall n, same_links n n.
Proof. intros n. repeat split. Qed.

Lemma free_node_run : forall a x n v s',
  nth_error (nodes a) (idx x) = Some n -> data n = Data v ->
  st_as_removed false (stamp n) = Ok s' -> i16_min <= s' < 0 ->
  (forall l, lfree a = Some l -> l <> idx x /\ exists nl, nth_error (nodes a) l = Some nl) ->
  exists a', free_node false x a = (a', Ok (Some v)) /\
    length (nodes a') = length (nodes a) /\
    nth_error (nodes a') (idx x) = Some (set_stamp s' (set_data (NextFree None) n)) /\
    (if i16_min <? s' then
       match lfree a with
       | Some l => ffree a' = ffree a /\ lfree a' = Some (idx x) /\
                   (forall nl, nth_error (nodes a) l = Some nl ->
                      nth_error (nodes a') l = Some (set_data (NextFree (Some (idx x))) nl)) /\
                   (forall j, j <> idx x -> j <> l -> nth_error (nodes a') j = nth_error (nodes a) j)
       | None => ffree a' = Some (idx x) /\ lfree a' = Some (idx x) /\
                 (forall j, j <> idx x -> nth_error (nodes a') j = nth_error (nodes a) j)
       end
     else ffree a' = ffree a /\ lfree a' = lfree a /\
          (forall j, j <> idx x -> nth_error (nodes a') j = nth_error (nodes a) j)).
Proof.
  intros a x n v s' Hn Hd Hs Hr Hl.
  unfold free_node, rdi, updi.
  erewrite bind_ok by (apply rd_ok; eassumption).
  erewrite bind_ok by (apply upd_ok; eassumption).
  unfold liftres at 1. erewrite bind_ok by (rewrite Hs; reflexivity).
  erewrite bind_ok.
  2:{ apply upd_ok. cbn [nodes set_nodes]. eapply nth_list_set_eq; eauto. }
  cbn [nodes set_nodes]. rewrite list_set_twice.
  unfold liftres at 1. erewrite bind_ok by (rewrite reuseable_removed by assumption; reflexivity).
  set (n1 := set_stamp s' (set_data (NextFree None) n)).
  set (a2 := set_nodes (list_set (idx x) n1 (nodes a)) (set_nodes (list_set (idx x) (set_data (NextFree None) n) (nodes a)) a)).
  assert (X2 : nth_error (nodes a2) (idx x) = Some n1) by (cbn; eapply nth_list_set_eq; eauto).
  assert (O2 : forall j, j <> idx x -> nth_error (nodes a2) j = nth_error (nodes a) j)
    by (intros; cbn; now apply nth_list_set_neq).
  assert (L2 : length (nodes a2) = length (nodes a)) by (cbn; apply length_list_set).
  rewrite Hd.
  destruct (Z.ltb_spec i16_min s') as [Hlt|Hge].
  - unfold bind, get_arena. cbn beta. change (lfree a2) with (lfree a).
    destruct (lfree a) as [l|] eqn:El.
    + destruct (Hl l eq_refl) as (Hlx & nl & Hnl).
      assert (Hnl2 : nth_error (nodes a2) l = Some nl) by (rewrite O2; auto).
      rewrite (upd_ok _ _ _ _ Hnl2). unfold put_arena, ret.
      eexists. split; [reflexivity|]. cbn [nodes set_nodes set_lfree ffree lfree].
      split; [rewrite length_list_set; exact L2|]. split.
      { rewrite nth_list_set_neq by auto. exact X2. }
      split; [reflexivity|]. split; [reflexivity|]. split.
      * intros nl' Hnl'. rewrite Hnl in Hnl'. injection Hnl' as <-. eapply nth_list_set_eq; eauto.
      * intros j Hj Hjl. rewrite nth_list_set_neq by auto. auto.
    + unfold dassert, ret, put_arena.
      eexists. split; [reflexivity|]. cbn [nodes set_nodes set_lfree set_ffree ffree lfree].
      repeat split; auto.
  - unfold bind, ret. eexists. split; [reflexivity|]. repeat split; auto.
Qed.

(* a pointwise description of "slot j is unaffected, up to links of the free list" *)
Definition slot_kept (m m' : node) : Prop :=
  same_links m m' /\ stamp m' = stamp m /\
  (data m' = data m \/ (stamp m < 0 /\ exists o, data m' = NextFree o)).

Theorem free_node_spec : forall w x FL, AllocOK w -> FreeOK (ar w) FL -> live (ar w) x ->
  exists a' v, free_node false x (ar w) = (a', Ok (Some v)) /\
    (exists n, node_at (ar w) x n /\ data n = Data v) /\
    (exists n', node_at a' x n' /\ stamp n' = (if gen x <? i16_max then - gen x - 1 else i16_min)) /\
    slot_removed a' x /\ ~ live a' x /\
    length (nodes a') = length (nodes (ar w)) /\
    (forall j n, nth_error (nodes (ar w)) j = Some n ->
       exists n', nth_error (nodes a') j = Some n' /\
         parent n' = parent n /\ prev n' = prev n /\ next n' = next n /\
         first n' = first n /\ last n' = last n /\
         (j <> idx x -> stamp n' = stamp n /\ (0 <= stamp n -> data n' = data n))) /\
    FreeOK a' (FL ++ (if gen x <? i16_max then [idx x] else [])) /\
    AllocOK (mkWorld a' (issued w) (removed w ++ [x]) (dropped w ++ [v])).
Proof.
  intros [a iss rem drp] x FL OK FO LV. sn.
  destruct OK as [Hrange Hdata Hnodup Hissued Hlive Hremoved _]. sn.
  destruct FO as (Hseg & Hlast & HND & Hreus).
  destruct LV as (n & Hn & Hsn & Hg). unfold node_at in Hn.
  destruct (proj1 (Hdata _ _ Hn)) as (v & Hd); [lia|].
  pose proof (Hrange _ _ Hn) as Hrn.
  set (s' := if gen x <? i16_max then - gen x - 1 else i16_min).
  assert (Hs' : st_as_removed false (stamp n) = Ok s').
  { rewrite as_removed_live by lia. rewrite Hsn. reflexivity. }
  assert (Hs'r : i16_min <= s' < 0).
  { subst s'. destruct (Z.ltb_spec (gen x) i16_max); unfold i16_min, i16_max in *; lia. }
  assert (Hreu : (i16_min <? s') = (gen x <? i16_max)).
  { subst s'. destruct (Z.ltb_spec (gen x) i16_max).
    - apply Z.ltb_lt. unfold i16_min, i16_max in *; lia.
    - apply Z.ltb_irrefl. }
  assert (NXFL : ~ In (idx x) FL).
  { intro H. apply Hreus in H. destruct H as (n0 & Hn0 & G). rewrite Hn in Hn0. injection Hn0 as <-. lia. }
  assert (Hl : forall l, lfree a = Some l -> l <> idx x /\ exists nl, nth_error (nodes a) l = Some nl).
  { intros l El. rewrite Hlast in El. apply last_error_in in El. split.
    - intros ->. auto.
    - apply Hreus in El. destruct El as (nl & Hnl & _). eauto. }
  destruct (free_node_run a x n v s' Hn Hd Hs' Hs'r Hl) as (a' & Hrun & L & X & Hcase).
  set (n1 := set_stamp s' (set_data (NextFree None) n)) in *.
  exists a', v. split; [exact Hrun|].
  (* the uniform pointwise description of the other slots, and the free list *)
  assert (OF : (forall j m, j <> idx x -> nth_error (nodes a) j = Some m ->
                  exists m', nth_error (nodes a') j = Some m' /\ slot_kept m m') /\
               FreeOK a' (FL ++ (if gen x <? i16_max then [idx x] else []))).
  { rewrite Hreu in Hcase. destruct (gen x <? i16_max) eqn:Egx.
    - (* the slot joins the free list *)
      assert (Hs'2 : i16_min < s' < 0) by (apply Z.ltb_lt in Hreu; lia).
      assert (RX : reusable_slot a' (idx x)) by (exists n1; split; auto).
      destruct (lfree a) as [l|] eqn:El.
      + destruct Hcase as (Hff & Hlf & Hln & Ho).
        destruct (Hl l eq_refl) as (Hlx & nl & Hnl).
        assert (Hlin : In l FL) by (apply last_error_in; congruence).
        destruct (proj1 (Hreus l) Hlin) as (nl' & Hnl' & Gl). rewrite Hnl in Hnl'. injection Hnl' as <-.
        assert (O : forall j m, j <> idx x -> nth_error (nodes a) j = Some m ->
                  exists m', nth_error (nodes a') j = Some m' /\ slot_kept m m').
        { intros j m Hj Hm. destruct (Nat.eq_dec j l) as [->|Hjl].
          - rewrite Hnl in Hm. injection Hm as <-. eexists. split; [apply Hln; exact Hnl|].
            split; [repeat split|]. split; [reflexivity|]. right. split; [lia|]. cbn. eauto.
          - exists m. rewrite Ho by auto. split; auto. split; [apply same_links_refl|]. auto. }
        split; [exact O|]. unfold FreeOK. split; [|split; [|split]].
        * rewrite Hff. eapply flseg_snoc with (lastl := l); eauto; try congruence.
        * rewrite Hlf. symmetry. apply last_error_snoc.
        * apply NoDup_snoc; auto.
        * intros j. rewrite in_app_iff. cbn [In]. destruct (Nat.eq_dec j (idx x)) as [->|Hj].
          -- split; auto.
          -- rewrite Hreus. split.
             ++ intros [(m & Hm & G)|[E|[]]]; [|congruence].
                destruct (O _ _ Hj Hm) as (m' & Hm' & _ & E & _). exists m'. split; auto. lia.
             ++ intros (m' & Hm' & G). left.
                destruct (nth_error_lt _ (nodes a) j) as (m & Hm).
                { rewrite <- L. eapply nth_error_some_lt; eauto. }
                destruct (O _ _ Hj Hm) as (m'' & Hm'' & _ & E & _). rewrite Hm' in Hm''.
                injection Hm'' as <-. exists m. split; auto. lia.
      + destruct Hcase as (Hff & Hlf & Ho).
        assert (FL = []) as -> by (destruct FL; [reflexivity|rewrite Hlast in El; discriminate]).
        assert (O : forall j m, j <> idx x -> nth_error (nodes a) j = Some m ->
                  exists m', nth_error (nodes a') j = Some m' /\ slot_kept m m').
        { intros j m Hj Hm. exists m. rewrite Ho by auto. split; auto.
          split; [apply same_links_refl|]. auto. }
        split; [exact O|]. unfold FreeOK. cbn [app]. split; [|split; [|split]].
        * rewrite Hff. cbn. split; auto. exists n1, None. auto.
        * rewrite Hlf. reflexivity.
        * constructor; [intros []|constructor].
        * intros j. cbn [In]. destruct (Nat.eq_dec j (idx x)) as [->|Hj].
          -- split; auto.
          -- split; [intros [E|[]]; congruence|].
             intros (m' & Hm' & G). rewrite Ho in Hm' by auto.
             destruct (proj2 (Hreus j)) as []. exists m'; auto.
    - (* the generation counter is exhausted: the slot is retired *)
      destruct Hcase as (Hff & Hlf & Ho). rewrite app_nil_r.
      assert (O : forall j m, j <> idx x -> nth_error (nodes a) j = Some m ->
                exists m', nth_error (nodes a') j = Some m' /\ slot_kept m m').
      { intros j m Hj Hm. exists m. rewrite Ho by auto. split; auto.
        split; [apply same_links_refl|]. auto. }
      split; [exact O|]. unfold FreeOK. split; [|split; [|split]]; auto; try congruence.
      * rewrite Hff. eapply flseg_frame_eq; eauto. intros j Hj. apply Ho. intros ->. auto.
      * intros j. rewrite Hreus. destruct (Nat.eq_dec j (idx x)) as [->|Hj].
        -- split; intros (m & Hm & G).
           ++ rewrite Hn in Hm. injection Hm as <-. lia.
           ++ rewrite X in Hm. injection Hm as <-. cbn in G.
              subst s'. lia.
        -- unfold reusable_slot. rewrite Ho by auto. tauto. }
  destruct OF as (O & FO').
  (* the converse description of a' *)
  assert (O' : forall j m', nth_error (nodes a') j = Some m' ->
            (j = idx x /\ m' = n1) \/
            (j <> idx x /\ exists m, nth_error (nodes a) j = Some m /\ slot_kept m m')).
  { intros j m' Hm'. destruct (Nat.eq_dec j (idx x)) as [->|Hj].
    - left. split; auto. congruence.
    - right. split; auto. destruct (nth_error_lt _ (nodes a) j) as (m & Hm).
      { rewrite <- L. eapply nth_error_some_lt; eauto. }
      destruct (O _ _ Hj Hm) as (m'' & Hm'' & K). exists m. split; auto. congruence. }
  assert (SA : forall j, j <> idx x -> stamp_at a' j = stamp_at a j).
  { intros j Hj. unfold stamp_at. destruct (nth_error (nodes a) j) as [m|] eqn:Hm.
    - destruct (O _ _ Hj Hm) as (m' & Hm' & _ & E & _). rewrite Hm'. cbn. congruence.
    - destruct (nth_error (nodes a') j) as [m'|] eqn:Hm'; auto.
      apply nth_error_some_lt in Hm'. apply nth_error_None in Hm. lia. }
  assert (NL : ~ live a' x).
  { intros (m & Hm & E & G). unfold node_at in Hm. rewrite X in Hm. injection Hm as <-.
    cbn in E. lia. }
  assert (XI : In x iss).
  { pose proof (Hlive _ _ Hn) as H. rewrite Hsn in H. destruct x as [xi xg]. apply H. exact Hg. }
  split; [exists n; auto|].
  split; [exists n1; split; [exact X|reflexivity]|].
  split; [exists n1; split; [exact X|cbn; lia]|].
  split; [exact NL|]. split; [exact L|]. split; [|split; [exact FO'|]].
  - intros j m Hm. destruct (Nat.eq_dec j (idx x)) as [->|Hj].
    + exists n1. rewrite Hn in Hm. injection Hm as <-. split; [exact X|]. cbn. repeat split; auto; congruence.
    + destruct (O _ _ Hj Hm) as (m' & Hm' & (P1 & P2 & P3 & P4 & P5) & E & Dd). exists m'.
      repeat split; auto. intros Hm0. destruct Dd as [Dd|(Dd & _)]; [auto|lia].
  - constructor; sn.
    + intros j m' Hm'. destruct (O' _ _ Hm') as [(-> & ->)|(Hj & m & Hm & _ & E & _)].
      * cbn. unfold i16_min, i16_max in *. lia.
      * rewrite E. eauto.
    + intros j m' Hm'. destruct (O' _ _ Hm') as [(-> & ->)|(Hj & m & Hm & _ & E & Dd)].
      * cbn. split; [lia|intros (? & ?); discriminate].
      * rewrite E. destruct Dd as [Dd|(Dd & o & Dd')].
        -- rewrite Dd. eauto.
        -- rewrite Dd'. split; [lia|intros (? & ?); discriminate].
    + exact Hnodup.
    + intros y Hy. destruct (Hissued _ Hy) as (m & Hm & G0 & G1 & G2). unfold node_at in *.
      destruct (Nat.eq_dec (idx y) (idx x)) as [E|E].
      * rewrite E in *. rewrite Hn in Hm. injection Hm as <-. exists n1. split; [exact X|].
        cbn. split; auto. split; [lia|]. intros _. subst s'.
        destruct (Z.ltb_spec (gen x) i16_max); unfold i16_min, i16_max in *; lia.
      * destruct (O _ _ E Hm) as (m' & Hm' & _ & Es & _). exists m'. rewrite Es. auto.
    + intros j m' Hm' Hsm. destruct (O' _ _ Hm') as [(-> & ->)|(Hj & m & Hm & _ & E & _)].
      * cbn in Hsm. lia.
      * rewrite E in *. eauto.
    + intros y. rewrite in_app_iff, Hremoved. cbn [In]. split.
      * intros [(Hy & NLy)|[<-|[]]]; [|auto]. split; auto.
        destruct (Nat.eq_dec (idx y) (idx x)) as [E|E].
        -- intros (m & Hm & Es & G). unfold node_at in Hm. rewrite E, X in Hm. injection Hm as <-.
           cbn in Es. lia.
        -- rewrite <- (live_stamp_at_eq a a' y); auto.
      * intros (Hy & NLy). destruct (Nat.eq_dec (idx y) (idx x)) as [E|E].
        -- destruct (Z.eq_dec (gen y) (gen x)) as [E2|E2].
           ++ right. left. destruct x, y; cbn in *; congruence.
           ++ left. split; auto. intros (m & Hm & Es & G). unfold node_at in Hm.
              rewrite E, Hn in Hm. injection Hm as <-. congruence.
        -- left. split; auto. rewrite (live_stamp_at_eq a a' y); auto.
    + eexists. exact FO'.
Qed.

(* ---------- transfer of the invariant along steps that keep every stamp ---------- *)

(* every slot keeps its stamp and the kind of its data *)
Definition stamps_kept (a a' : arena) : Prop :=
  length (nodes a') = length (nodes a) /\
  forall i n, nth_error (nodes a) i = Some n ->
    exists n', nth_error (nodes a') i = Some n' /\ stamp n' = stamp n /\
      (0 <= stamp n -> exists v, data n' = Data v) /\ (stamp n < 0 -> exists o, data n' = NextFree o).

Lemma stamps_kept_inv : forall a a' i n', stamps_kept a a' -> nth_error (nodes a') i = Some n' ->
  exists n, nth_error (nodes a) i = Some n /\ stamp n' = stamp n /\
    (0 <= stamp n -> exists v, data n' = Data v) /\ (stamp n < 0 -> exists o, data n' = NextFree o).
Proof.
  intros a a' i n' (L & K) H. destruct (nth_error_lt _ (nodes a) i) as (n & Hn).
  { rewrite <- L. eapply nth_error_some_lt; eauto. }
  destruct (K _ _ Hn) as (n2 & H2 & G). rewrite H in H2. injection H2 as <-. eauto.
Qed.

Lemma stamps_kept_stamp_at : forall a a' i, stamps_kept a a' -> stamp_at a' i = stamp_at a i.
Proof.
  intros a a' i K. unfold stamp_at. destruct (nth_error (nodes a) i) as [n|] eqn:Hn.
  - destruct (proj2 K _ _ Hn) as (n' & Hn' & E & _). rewrite Hn'. cbn. congruence.
  - destruct (nth_error (nodes a') i) as [n'|] eqn:Hn'; auto.
    destruct (stamps_kept_inv _ _ _ _ K Hn') as (n & Hn2 & _). congruence.
Qed.

Lemma stamps_kept_live : forall a a' x, stamps_kept a a' -> (live a x <-> live a' x).
Proof. intros. apply live_stamp_at_eq. now apply stamps_kept_stamp_at. Qed.

Lemma AllocOK_stamps_kept : forall w a' drp', AllocOK w -> stamps_kept (ar w) a' ->
  (exists FL, FreeOK a' FL) -> AllocOK (mkWorld a' (issued w) (removed w) drp').
Proof.
  intros [a iss rem drp] a' drp' [Hrange Hdata Hnodup Hissued Hlive Hremoved _] K HF. sn.
  constructor; sn; auto.
  - intros i n' Hn'. destruct (stamps_kept_inv _ _ _ _ K Hn') as (n & Hn & E & _). rewrite E. eauto.
  - intros i n' Hn'. destruct (stamps_kept_inv _ _ _ _ K Hn') as (n & Hn & E & D1 & D2). rewrite E.
    split; auto. intros (v & Hv). destruct (Z_le_gt_dec 0 (stamp n)); auto.
    destruct D2 as (o & Ho); [lia|]. congruence.
  - intros x Hx. destruct (Hissued _ Hx) as (n & Hn & G). destruct (proj2 K _ _ Hn) as (n' & Hn' & E & _).
    exists n'. rewrite E. auto.
  - intros i n' Hn' Hs. destruct (stamps_kept_inv _ _ _ _ K Hn') as (n & Hn & E & _).
    rewrite E in *. eauto.
  - intros x. rewrite Hremoved. now rewrite (stamps_kept_live a a' x K).
Qed.

Lemma FreeOK_data_kept : forall a a' FL, FreeOK a FL ->
  length (nodes a') = length (nodes a) -> ffree a' = ffree a -> lfree a' = lfree a ->
  (forall i n, nth_error (nodes a) i = Some n -> stamp n < 0 ->
     exists n', nth_error (nodes a') i = Some n' /\ stamp n' = stamp n /\ data n' = data n) ->
  (forall i, stamp_at a' i = stamp_at a i) ->
  FreeOK a' FL.
Proof.
  intros a a' FL (Hseg & Hlast & ND & Hreus) L Hf Hl K SA. unfold FreeOK.
  split; [|split; [|split]]; auto; try congruence.
  - rewrite Hf. eapply flseg_frame; eauto. intros j n Hj Hn.
    apply Hreus in Hj. destruct Hj as (n0 & Hn0 & G). rewrite Hn in Hn0. injection Hn0 as <-.
    destruct (K _ _ Hn) as (n' & Hn' & _ & D); [lia|]. eauto.
  - intros i. rewrite Hreus. unfold reusable_slot. specialize (SA i). unfold stamp_at in SA.
    split; intros (n & Hn & G).
    + rewrite Hn in SA. destruct (nth_error (nodes a') i) as [n'|]; [|discriminate].
      cbn in SA. injection SA as E. exists n'. split; auto. lia.
    + rewrite Hn in SA. destruct (nth_error (nodes a) i) as [n'|]; [|discriminate].
      cbn in SA. injection SA as E. exists n'. split; auto. lia.
Qed.

(* ---------- write_payload ---------- *)

Theorem write_payload_slot_spec : forall w x v FL, AllocOK w -> FreeOK (ar w) FL ->
  (exists n, node_at (ar w) x n /\ 0 <= stamp n) ->
  exists a' old n, write_payload x v (ar w) = (a', Ok old) /\
    node_at (ar w) x n /\ data n = Data old /\ node_at a' x (set_data (Data v) n) /\
    (forall j, j <> idx x -> nth_error (nodes a') j = nth_error (nodes (ar w)) j) /\
    length (nodes a') = length (nodes (ar w)) /\ ffree a' = ffree (ar w) /\ lfree a' = lfree (ar w) /\
    FreeOK a' FL /\
    AllocOK (mkWorld a' (issued w) (removed w) (dropped w ++ [old])).
Proof.
  intros w x v FL OK FO (n & Hn & Hs). unfold node_at in *.
  destruct (proj1 (al_data _ OK _ _ Hn) Hs) as (old & Hd).
  set (a := ar w) in *.
  exists (set_nodes (list_set (idx x) (set_data (Data v) n) (nodes a)) a), old, n.
  assert (X : nth_error (list_set (idx x) (set_data (Data v) n) (nodes a)) (idx x) = Some (set_data (Data v) n))
    by (eapply nth_list_set_eq; eauto).
  assert (O : forall j, j <> idx x ->
            nth_error (list_set (idx x) (set_data (Data v) n) (nodes a)) j = nth_error (nodes a) j)
    by (intros; now apply nth_list_set_neq).
  assert (K : stamps_kept a (set_nodes (list_set (idx x) (set_data (Data v) n) (nodes a)) a)).
  { split; sn; [apply length_list_set|]. intros i m Hm. destruct (Nat.eq_dec i (idx x)) as [->|Hi].
    - rewrite X. rewrite Hn in Hm. injection Hm as <-. eexists. split; [reflexivity|]. cbn.
      split; auto. split; [eauto|lia].
    - rewrite O by auto. exists m. split; auto. split; auto.
      split; intros G.
      + apply (al_data _ OK _ _ Hm); auto.
      + destruct (data m) as [u|o] eqn:E; eauto.
        assert (0 <= stamp m) by (apply (al_data _ OK _ _ Hm); eauto). lia. }
  assert (FO' : FreeOK (set_nodes (list_set (idx x) (set_data (Data v) n) (nodes a)) a) FL).
  { eapply FreeOK_data_kept; eauto.
    - apply (proj1 K).
    - sn. intros i m Hm G. assert (i <> idx x) by (intros ->; rewrite Hn in Hm; injection Hm as <-; lia).
      exists m. rewrite O; auto.
    - intros i. now apply stamps_kept_stamp_at. }
  split; [|split; [|split; [|split; [|split; [|split; [|split; [|split; [|split]]]]]]]]; auto.
  - unfold write_payload, rdi, updi. erewrite bind_ok by (apply rd_ok; eassumption).
    rewrite Hd. erewrite bind_ok by (apply upd_ok; eassumption). reflexivity.
  - apply (proj1 K).
  - apply AllocOK_stamps_kept; eauto.
Qed.

Theorem write_payload_spec : forall w x v FL, AllocOK w -> FreeOK (ar w) FL -> live (ar w) x ->
  exists a' old n, write_payload x v (ar w) = (a', Ok old) /\
    node_at (ar w) x n /\ data n = Data old /\ node_at a' x (set_data (Data v) n) /\
    (forall j, j <> idx x -> nth_error (nodes a') j = nth_error (nodes (ar w)) j) /\
    length (nodes a') = length (nodes (ar w)) /\ ffree a' = ffree (ar w) /\ lfree a' = lfree (ar w) /\
    FreeOK a' FL /\
    AllocOK (mkWorld a' (issued w) (removed w) (dropped w ++ [old])).
Proof.
  intros w x v FL OK FO (n & Hn & Hs & Hg). apply write_payload_slot_spec; auto.
  exists n. split; auto. lia.
Qed.

(* ---------- clear, and the initial world ---------- *)

Lemma FreeOK_empty : FreeOK empty_arena [].
Proof.
  unfold FreeOK. cbn. repeat split; auto; try constructor; try tauto.
  intros (n & Hn & _). destruct i; discriminate.
Qed.

Lemma AllocOK_empty : forall drp, AllocOK (mkWorld empty_arena [] [] drp).
Proof.
  intros drp. constructor; sn; cbn [empty_arena nodes].
  - intros [|i] n H; discriminate.
  - intros [|i] n H; discriminate.
  - constructor.
  - intros x [].
  - intros [|i] n H; discriminate.
  - intros x. cbn. tauto.
  - exists []. apply FreeOK_empty.
Qed.

Theorem AllocOK_init : AllocOK init.
Proof. apply AllocOK_empty. Qed.

Theorem clear_spec : forall w,
  clear (ar w) = (empty_arena, Ok (stored (ar w))) /\
  AllocOK (mkWorld empty_arena [] [] (dropped w ++ stored (ar w))).
Proof. intros w. split; [reflexivity|apply AllocOK_empty]. Qed.

(* ====================================================================== *)
(* D. Transfer along shape-preserving steps and lists of frees             *)
(* ====================================================================== *)

Lemma same_shape_stamps_kept : forall w a', AllocOK w -> same_shape (ar w) a' -> stamps_kept (ar w) a'.
Proof.
  intros w a' OK (L & _ & _ & N). split; auto. intros i n Hn.
  destruct (N _ _ Hn) as (n' & Hn' & E & D). exists n'. split; auto. split; auto. rewrite D.
  split; intros G.
  - apply (al_data _ OK _ _ Hn); auto.
  - destruct (data n) as [u|o] eqn:Ed; eauto.
    assert (0 <= stamp n) by (apply (al_data _ OK _ _ Hn); eauto). lia.
Qed.

Lemma same_shape_stamp_at : forall a a' i, same_shape a a' -> stamp_at a' i = stamp_at a i.
Proof.
  intros a a' i H. unfold stamp_at. destruct (nth_error (nodes a) i) as [n|] eqn:Hn.
  - destruct H as (_ & _ & _ & N). destruct (N _ _ Hn) as (n' & Hn' & E & _). rewrite Hn'. cbn. congruence.
  - destruct (nth_error (nodes a') i) as [n'|] eqn:Hn'; auto.
    destruct (same_shape_inv _ _ _ _ H Hn') as (n & Hn2 & _). congruence.
Qed.

Lemma live_same_shape : forall a a' x, same_shape a a' -> (live a x <-> live a' x).
Proof. intros. apply live_stamp_at_eq. now apply same_shape_stamp_at. Qed.

Lemma slot_removed_same_shape : forall a a' x, same_shape a a' -> (slot_removed a x <-> slot_removed a' x).
Proof.
  intros a a' x H. unfold slot_removed, node_at. split; intros (n & Hn & G).
  - destruct H as (_ & _ & _ & N). destruct (N _ _ Hn) as (n' & Hn' & E & _). exists n'. split; auto. lia.
  - destruct (same_shape_inv _ _ _ _ H Hn) as (n' & Hn' & E & _). exists n'. split; auto. lia.
Qed.

Lemma usable_same_shape : forall a a' x, same_shape a a' -> (usable a x <-> usable a' x).
Proof.
  intros. unfold usable. now rewrite (live_same_shape a a' x), (slot_removed_same_shape a a' x).
Qed.

Lemma FreeOK_same_shape : forall a a' FL, FreeOK a FL -> same_shape a a' -> FreeOK a' FL.
Proof.
  intros a a' FL FO H. pose proof H as (L & F & E & N).
  eapply FreeOK_data_kept; eauto.
  intros i. now apply same_shape_stamp_at.
Qed.

Lemma AllocOK_same_shape : forall w a', AllocOK w -> same_shape (ar w) a' ->
  AllocOK (mkWorld a' (issued w) (removed w) (dropped w)).
Proof.
  intros w a' OK H. apply AllocOK_stamps_kept; auto.
  - now apply same_shape_stamps_kept.
  - destruct (al_free _ OK) as (FL & FO). exists FL. eapply FreeOK_same_shape; eauto.
Qed.

(* ---------- the stored payloads, slot by slot ---------- *)

Definition pl (n : node) : list N := match data n with Data v => [v] | NextFree _ => [] end.

Lemma payloads_cons : forall n l, payloads (n :: l) = pl n ++ payloads l.
Proof. reflexivity. Qed.

Lemma payloads_same : forall l l', length l' = length l ->
  (forall j m m', nth_error l j = Some m -> nth_error l' j = Some m' -> pl m' = pl m) ->
  payloads l' = payloads l.
Proof.
  induction l as [|n l IH]; intros [|n' l'] L H; try discriminate; auto.
  rewrite !payloads_cons. f_equal.
  - apply (H 0%nat); reflexivity.
  - apply IH; [cbn in L; lia|]. intros j m m' Hm Hm'. apply (H (S j)); auto.
Qed.

Lemma payloads_diff1 : forall l l' i n n', length l' = length l ->
  nth_error l i = Some n -> nth_error l' i = Some n' ->
  (forall j m m', j <> i -> nth_error l j = Some m -> nth_error l' j = Some m' -> pl m' = pl m) ->
  exists p q, payloads l = p ++ pl n ++ q /\ payloads l' = p ++ pl n' ++ q.
Proof.
  induction l as [|a l IH]; intros [|a' l'] i n n' L Hn Hn' H; try discriminate.
  - destruct i; discriminate.
  - destruct i as [|i]; cbn in Hn, Hn'.
    + injection Hn as <-. injection Hn' as <-. exists [], (payloads l). rewrite !payloads_cons.
      split; auto. cbn [app]. f_equal. apply payloads_same; [cbn in L; lia|].
      intros j m m' Hm Hm'. apply (H (S j)); auto.
    + destruct (IH l' i n n') as (p & q & E1 & E2); auto.
      { intros j m m' Hj Hm Hm'. apply (H (S j)); auto. }
      exists (pl a ++ p), q. rewrite !payloads_cons, E1, E2, <- !app_assoc.
      split; auto. f_equal. apply (H 0%nat); auto.
Qed.

Lemma payloads_snoc : forall l n, payloads (l ++ [n]) = payloads l ++ pl n.
Proof. intros. unfold payloads. rewrite flat_map_app. cbn. now rewrite app_nil_r. Qed.

Lemma list_ext_nth : forall A (l l' : list A), (forall j, nth_error l j = nth_error l' j) -> l = l'.
Proof.
  induction l as [|x r IH]; intros [|y s] H; auto.
  - specialize (H 0%nat); discriminate.
  - specialize (H 0%nat); discriminate.
  - f_equal. + specialize (H 0%nat). now inversion H. + apply IH. intros j. apply (H (S j)).
Qed.

Lemma pl_removed : forall w j m, AllocOK w -> nth_error (nodes (ar w)) j = Some m -> stamp m < 0 -> pl m = [].
Proof.
  intros w j m OK Hm G. unfold pl. destruct (data m) as [u|o] eqn:E; auto.
  assert (0 <= stamp m) by (apply (al_data _ OK _ _ Hm); eauto). lia.
Qed.

Lemma stored_same_shape : forall a a', same_shape a a' -> stored a' = stored a.
Proof.
  intros a a' H. unfold stored. apply payloads_same; [apply H|].
  intros j m m' Hm Hm'. destruct H as (_ & _ & _ & N). destruct (N _ _ Hm) as (m2 & Hm2 & _ & D).
  rewrite Hm' in Hm2. injection Hm2 as <-. unfold pl. now rewrite D.
Qed.

(* new_node adds exactly the new payload to the stored ones (in slot order) *)
Lemma new_node_stored : forall w v a' x, AllocOK w -> new_node false v (ar w) = (a', Ok x) ->
  exists p q, stored (ar w) = p ++ q /\ stored a' = p ++ v :: q.
Proof.
  intros w v a' x OK Hrun. destruct (al_free _ OK) as (FL & FO).
  destruct (new_node_spec w v FL OK FO) as (a2 & x2 & Hrun2 & _ & _ & X & O & C & OK').
  rewrite Hrun in Hrun2. injection Hrun2 as <- <-. unfold node_at in X. unfold stored.
  destruct FL as [|i FL'].
  - destruct C as (Ei & _ & L & _). exists (payloads (nodes (ar w))), [].
    rewrite app_nil_r. split; auto.
    assert (nodes a' = nodes (ar w) ++ [fresh_node (gen x) (Data v)]) as ->.
    { apply list_ext_nth. intros j. destruct (Nat.eq_dec j (idx x)) as [->|Hj].
      - rewrite X, Ei. symmetry. apply nth_snoc_eq.
      - rewrite O by auto. symmetry. apply nth_snoc_neq. congruence. }
    apply payloads_snoc.
  - destruct C as (Ei & (n & Hn & G) & L & _). unfold node_at in Hn.
    destruct (payloads_diff1 (nodes (ar w)) (nodes a') (idx x) _ _ L Hn X) as (p & q & E1 & E2).
    { intros j m m' Hj Hm Hm'. rewrite O in Hm' by auto. congruence. }
    rewrite (pl_removed w _ _ OK Hn G) in E1. exists p, q. auto.
Qed.

(* free_node removes exactly the freed payload from the stored ones *)
Lemma free_node_stored : forall w x FL a' v, AllocOK w -> FreeOK (ar w) FL -> live (ar w) x ->
  free_node false x (ar w) = (a', Ok (Some v)) ->
  exists p q, stored (ar w) = p ++ v :: q /\ stored a' = p ++ q.
Proof.
  intros w x FL a' v OK FO LV Hrun.
  destruct (free_node_spec w x FL OK FO LV) as (a2 & v2 & Hrun2 & (n & Hn & Hd) & _ & (n' & Hn' & G') & _ & L & P & _ & OK').
  rewrite Hrun in Hrun2. injection Hrun2 as <- <-. unfold node_at in *. unfold stored.
  destruct (payloads_diff1 (nodes (ar w)) (nodes a') (idx x) _ _ L Hn Hn') as (p & q & E1 & E2).
  { intros j m m' Hj Hm Hm'. destruct (P _ _ Hm) as (m2 & Hm2 & _ & _ & _ & _ & _ & K).
    rewrite Hm' in Hm2. injection Hm2 as <-. destruct (K Hj) as (Es & Ed).
    destruct (Z_le_gt_dec 0 (stamp m)).
    - unfold pl. now rewrite Ed.
    - rewrite (pl_removed w _ _ OK Hm) by lia.
      apply (pl_removed _ j m' OK'); sn; auto. lia. }
  exists p, q. rewrite E1, E2. unfold pl at 1. rewrite Hd.
  rewrite (pl_removed _ _ _ OK' Hn' G'). auto.
Qed.

Lemma write_payload_stored : forall w x v a' old, AllocOK w -> live (ar w) x ->
  write_payload x v (ar w) = (a', Ok old) ->
  exists p q, stored (ar w) = p ++ old :: q /\ stored a' = p ++ v :: q.
Proof.
  intros w x v a' old OK LV Hrun. destruct (al_free _ OK) as (FL & FO).
  destruct (write_payload_spec w x v FL OK FO LV) as (a2 & old2 & n & Hrun2 & Hn & Hd & Hn' & O & L & _).
  rewrite Hrun in Hrun2. injection Hrun2 as <- <-. unfold node_at in *. unfold stored.
  destruct (payloads_diff1 (nodes (ar w)) (nodes a') (idx x) _ _ L Hn Hn') as (p & q & E1 & E2).
  { intros j m m' Hj Hm Hm'. rewrite O in Hm' by auto. congruence. }
  exists p, q. rewrite E1, E2. unfold pl. cbn [data set_data]. rewrite Hd. auto.
Qed.

(* ---------- free_all ---------- *)

Definition nd_links_none (a : arena) (y : nid) : Prop :=
  exists n, node_at a y n /\
    parent n = None /\ prev n = None /\ next n = None /\ first n = None /\ last n = None.

Lemma Forall2_length' : forall A B (R : A -> B -> Prop) l1 l2, Forall2 R l1 l2 -> length l1 = length l2.
Proof. induction 1; cbn; auto. Qed.

Lemma Forall2_mono : forall A B (R1 R2 : A -> B -> Prop), (forall a b, R1 a b -> R2 a b) ->
  forall l1 l2, Forall2 R1 l1 l2 -> Forall2 R2 l1 l2.
Proof. induction 2; constructor; auto. Qed.

Lemma same_links_trans : forall n1 n2 n3, same_links n1 n2 -> same_links n2 n3 -> same_links n1 n3.
Proof.
  intros n1 n2 n3 (A1 & A2 & A3 & A4 & A5) (B1 & B2 & B3 & B4 & B5). repeat split; congruence.
Qed.

Theorem free_all_spec : forall D w FL, AllocOK w -> FreeOK (ar w) FL ->
  (forall y, In y D -> live (ar w) y) -> NoDup (map idx D) ->
  exists a' olds, free_all false D (ar w) = (a', Ok olds) /\
    length olds = length D /\
    FreeOK a' (FL ++ map idx (filter (fun y => gen y <? i16_max) D)) /\
    AllocOK (mkWorld a' (issued w) (removed w ++ D) (dropped w ++ olds)) /\
    (forall y, In y D -> slot_removed a' y /\ nd_links_none a' y) /\
    (forall j n, ~ In j (map idx D) -> nth_error (nodes (ar w)) j = Some n ->
       exists n', nth_error (nodes a') j = Some n' /\ same_links n n' /\
                  stamp n' = stamp n /\ (0 <= stamp n -> data n' = data n)) /\
    (* further: the dropped payloads are those of D, in order; the length is kept;
       nothing is lost or duplicated *)
    Forall2 (fun y v => exists n, node_at (ar w) y n /\ data n = Data v) D olds /\
    length (nodes a') = length (nodes (ar w)) /\
    Permutation (olds ++ stored a') (stored (ar w)).
Proof.
  induction D as [|y D IH]; intros w FL OK FO HL ND.
  - exists (ar w), []. cbn [free_all map filter length]. rewrite !app_nil_r.
    split; [reflexivity|]. split; [reflexivity|]. split; [exact FO|]. split; [destruct w; exact OK|].
    split; [intros y []|]. split.
    { intros j n _ Hn. exists n. split; auto. split; [apply same_links_refl|]. auto. }
    split; [constructor|]. split; [reflexivity|]. apply Permutation_refl.
  - cbn [map] in ND. inversion ND as [|? ? NIy ND']; subst.
    assert (LVy : live (ar w) y) by (apply HL; now left).
    destruct (free_node_spec w y FL OK FO LVy)
      as (a1 & v & Hrun & (n & Hn & Hd) & (n1 & Hn1 & Hs1) & SR & NL & L1 & P1 & FO1 & OK1).
    destruct (free_node_stored w y FL a1 v OK FO LVy Hrun) as (p & q & Ep & Eq).
    unfold node_at in Hn, Hn1.
    set (a2 := set_nodes (list_set (idx y) (clear_links n1) (nodes a1)) a1).
    assert (Hupd : updi y clear_links a1 = (a2, Ok tt)) by (apply upd_ok; exact Hn1).
    assert (SS : same_shape a1 a2) by (eapply shape_updi_clear_links; eauto).
    set (FL1 := FL ++ (if gen y <? i16_max then [idx y] else [])) in *.
    set (w1 := mkWorld a1 (issued w) (removed w ++ [y]) (dropped w ++ [v])) in *.
    set (w2 := mkWorld a2 (issued w) (removed w ++ [y]) (dropped w ++ [v])).
    assert (OK2 : AllocOK w2) by (apply (AllocOK_same_shape w1 a2 OK1 SS)).
    assert (FO2 : FreeOK (ar w2) FL1) by (apply (FreeOK_same_shape a1 a2 FL1 FO1 SS)).
    assert (X2 : nth_error (nodes a2) (idx y) = Some (clear_links n1))
      by (cbn; eapply nth_list_set_eq; eauto).
    assert (O2 : forall j, j <> idx y -> nth_error (nodes a2) j = nth_error (nodes a1) j)
      by (intros; cbn; now apply nth_list_set_neq).
    assert (HL2 : forall z, In z D -> live (ar w2) z).
    { intros z Hz. cbn [ar w2]. apply (live_same_shape a1 a2 z SS).
      destruct (HL z (or_intror Hz)) as (m & Hm & Es & G). unfold node_at in Hm.
      destruct (P1 _ _ Hm) as (m' & Hm' & _ & _ & _ & _ & _ & K).
      assert (idx z <> idx y) by (intros E; apply NIy; rewrite <- E; now apply in_map).
      exists m'. split; auto. destruct (K H) as (E1 & _). split; [congruence|auto]. }
    destruct (IH w2 FL1 OK2 FO2 HL2 ND') as (a' & olds & Hrun' & Hlen & FO' & OK' & R' & K' & F2 & L' & Perm').
    cbn [ar issued removed dropped w2] in *.
    exists a', (v :: olds).
    split; [|split; [|split; [|split; [|split; [|split; [|split; [|split]]]]]]].
    + cbn [free_all]. erewrite bind_ok by exact Hrun. erewrite bind_ok by exact Hupd.
      erewrite bind_ok by exact Hrun'. reflexivity.
    + cbn. congruence.
    + subst FL1. rewrite <- app_assoc in FO'. cbn [filter]. destruct (gen y <? i16_max); exact FO'.
    + rewrite <- !app_assoc in OK'. exact OK'.
    + intros z [<-|Hz]; [|apply R'; auto].
      destruct (K' (idx y) _ NIy X2) as (n' & Hn' & (A1 & A2 & A3 & A4 & A5) & Es & _).
      split; exists n'; (split; [exact Hn'|]).
      * rewrite Es. cbn [stamp clear_links]. destruct SR as (m & Hm & G). unfold node_at in Hm.
        rewrite Hn1 in Hm. injection Hm as <-. exact G.
      * repeat split; auto.
    + intros j m Hj Hm. cbn [map In] in Hj.
      assert (Hjy : j <> idx y) by (intros ->; apply Hj; now left).
      assert (HjD : ~ In j (map idx D)) by (intros H; apply Hj; now right).
      destruct (P1 _ _ Hm) as (m1 & Hm1 & B1 & B2 & B3 & B4 & B5 & K).
      destruct (K Hjy) as (Es1 & Ed1).
      rewrite <- O2 in Hm1 by auto.
      destruct (K' _ _ HjD Hm1) as (m' & Hm' & SL & Es & Ed). exists m'. split; auto.
      split; [eapply same_links_trans; [|exact SL]; repeat split; auto|].
      split; [congruence|]. intros G. rewrite Ed by lia. auto.
    + constructor; [exists n; auto|].
      eapply Forall2_mono; [|exact F2]. cbn beta. intros z u (m2 & Hm2 & Hd2). unfold node_at in *.
      destruct (Nat.eq_dec (idx z) (idx y)) as [E|E].
      { rewrite E, X2 in Hm2. injection Hm2 as <-. cbn in Hd2.
        assert (Hx : pl n1 = []).
        { apply (pl_removed w1 _ _ OK1 Hn1). destruct SR as (m & Hm & G). unfold node_at in Hm.
          rewrite Hn1 in Hm. injection Hm as <-. exact G. }
        unfold pl in Hx. rewrite Hd2 in Hx. discriminate. }
      rewrite O2 in Hm2 by auto.
      destruct (nth_error_lt _ (nodes (ar w)) (idx z)) as (m & Hm).
      { rewrite <- L1. eapply nth_error_some_lt; eauto. }
      destruct (P1 _ _ Hm) as (m1 & Hm1 & _ & _ & _ & _ & _ & K). rewrite Hm2 in Hm1. injection Hm1 as <-.
      destruct (K E) as (Es & Ed). exists m. split; auto. rewrite <- Ed; auto.
      rewrite <- Es. apply (al_data _ OK1 _ _ Hm2). eauto.
    + rewrite L'. cbn. rewrite length_list_set. exact L1.
    + rewrite (stored_same_shape a1 a2 SS), Eq in Perm'. rewrite Ep.
      cbn [app]. apply Permutation_cons_app. exact Perm'.
Qed.

(* ====================================================================== *)
(* E. The ghost bookkeeping theorems                                       *)
(* ====================================================================== *)

Lemma nid_eq_dec : forall x y : nid, {x = y} + {x <> y}.
Proof. decide equality; [apply Z.eq_dec|apply Nat.eq_dec]. Defined.

Theorem is_removed_correct : forall w x, AllocOK w -> In x (issued w) ->
  id_is_removed x (ar w) = Ok (if in_dec nid_eq_dec x (removed w) then true else false).
Proof.
  intros w x OK Hx. destruct (al_issued _ OK _ Hx) as (n & Hn & G0 & _). unfold node_at in Hn.
  unfold id_is_removed. rewrite Hn. f_equal.
  destruct (in_dec nid_eq_dec x (removed w)) as [Hr|Hr].
  - apply (al_removed _ OK) in Hr. destruct Hr as (_ & NL).
    destruct (Z.eqb_spec (stamp n) (gen x)) as [E|E]; auto.
    exfalso. apply NL. exists n. auto.
  - destruct (Z.eqb_spec (stamp n) (gen x)) as [E|E]; auto.
    exfalso. apply Hr. apply (al_removed _ OK). split; auto.
    intros (m & Hm & Es & _). unfold node_at in Hm. congruence.
Qed.

Theorem issued_live_or_removed : forall w x, AllocOK w -> In x (issued w) ->
  live (ar w) x \/ In x (removed w).
Proof.
  intros w x OK Hx. destruct (live_dec (ar w) x) as [L|NL]; auto.
  right. apply (al_removed _ OK). auto.
Qed.

(* a removed id never comes back, an id is never both *)
Theorem removed_not_live : forall w x, AllocOK w -> In x (removed w) -> ~ live (ar w) x.
Proof. intros w x OK Hx. apply (al_removed _ OK) in Hx. tauto. Qed.

Theorem live_issued : forall w x, AllocOK w -> live (ar w) x -> In x (issued w).
Proof.
  intros w x OK (n & Hn & Es & G). pose proof (al_live _ OK _ _ Hn) as H.
  rewrite Es in H. destruct x. apply H. exact G.
Qed.

Theorem removed_monotone : forall w o, o <> OClear -> incl (removed w) (removed (fst (step false w o))).
Proof.
  intros w o Ho. destruct o; cbn [step]; try congruence.
  - destruct (new_node false v (ar w)) as [a' [x|c|]]; cbn; apply incl_refl.
  - destruct (append_value false p v (ar w)) as [a' [x|c|]]; cbn; apply incl_refl.
  - destruct checked.
    + destruct (checked_insert false k a b (ar w)) as [a' [[|e]|c|]]; cbn; apply incl_refl.
    + destruct (unchecked_insert false k a b (ar w)) as [a' [[]|c|]]; cbn; apply incl_refl.
  - destruct (detach false x (ar w)) as [a' [[]|c|]]; cbn; apply incl_refl.
  - destruct (remove false x (ar w)) as [a' [old|c|]]; cbn; try apply incl_refl. apply incl_appl, incl_refl.
  - destruct (remove_subtree false x (ar w)) as [a' [[ids olds]|c|]]; cbn; try apply incl_refl.
    apply incl_appl, incl_refl.
  - destruct (write_payload x v (ar w)) as [a' [old|c|]]; cbn; apply incl_refl.
  - cbn. apply incl_refl.
Qed.

Theorem issued_monotone : forall w o, o <> OClear -> incl (issued w) (issued (fst (step false w o))).
Proof.
  intros w o Ho. destruct o; cbn [step]; try congruence.
  - destruct (new_node false v (ar w)) as [a' [x|c|]]; cbn; try apply incl_refl. apply incl_appl, incl_refl.
  - destruct (append_value false p v (ar w)) as [a' [x|c|]]; cbn; try apply incl_refl.
    apply incl_appl, incl_refl.
  - destruct checked.
    + destruct (checked_insert false k a b (ar w)) as [a' [[|e]|c|]]; cbn; apply incl_refl.
    + destruct (unchecked_insert false k a b (ar w)) as [a' [[]|c|]]; cbn; apply incl_refl.
  - destruct (detach false x (ar w)) as [a' [[]|c|]]; cbn; apply incl_refl.
  - destruct (remove false x (ar w)) as [a' [old|c|]]; cbn; apply incl_refl.
  - destruct (remove_subtree false x (ar w)) as [a' [[ids olds]|c|]]; cbn; apply incl_refl.
  - destruct (write_payload x v (ar w)) as [a' [old|c|]]; cbn; apply incl_refl.
  - cbn. apply incl_refl.
Qed.

(* ---------- payload accounting: nothing is dropped twice and nothing live is dropped ---------- *)

Definition PayOK (w : world) (ever : list N) : Prop := Permutation ever (dropped w ++ stored (ar w)).

Lemma PayOK_init : PayOK init [].
Proof. unfold PayOK. cbn. constructor. Qed.

Lemma PayOK_new_node : forall w ever v a' x, AllocOK w -> PayOK w ever ->
  new_node false v (ar w) = (a', Ok x) ->
  PayOK (mkWorld a' (issued w ++ [x]) (removed w) (dropped w)) (v :: ever).
Proof.
  intros w ever v a' x OK P Hrun. unfold PayOK in *. sn.
  destruct (new_node_stored w v a' x OK Hrun) as (p & q & E1 & E2). rewrite E1 in P. rewrite E2.
  rewrite app_assoc. apply Permutation_cons_app. now rewrite <- app_assoc.
Qed.

Lemma PayOK_free_node : forall w ever x a' v FL, AllocOK w -> FreeOK (ar w) FL -> live (ar w) x ->
  PayOK w ever -> free_node false x (ar w) = (a', Ok (Some v)) ->
  PayOK (mkWorld a' (issued w) (removed w ++ [x]) (dropped w ++ [v])) ever.
Proof.
  intros w ever x a' v FL OK FO LV P Hrun. unfold PayOK in *. sn.
  destruct (free_node_stored w x FL a' v OK FO LV Hrun) as (p & q & E1 & E2). rewrite E1 in P. rewrite E2.
  eapply Permutation_trans; [exact P|]. rewrite <- app_assoc. apply Permutation_app_head.
  cbn [app]. symmetry. apply Permutation_middle.
Qed.

Lemma PayOK_write_payload : forall w ever x v a' old, AllocOK w -> live (ar w) x ->
  PayOK w ever -> write_payload x v (ar w) = (a', Ok old) ->
  PayOK (mkWorld a' (issued w) (removed w) (dropped w ++ [old])) (v :: ever).
Proof.
  intros w ever x v a' old OK LV P Hrun. unfold PayOK in *. sn.
  destruct (write_payload_stored w x v a' old OK LV Hrun) as (p & q & E1 & E2). rewrite E1 in P. rewrite E2.
  rewrite <- app_assoc. cbn [app].
  replace (dropped w ++ old :: p ++ v :: q) with ((dropped w ++ old :: p) ++ v :: q)
    by (rewrite <- app_assoc; reflexivity).
  apply Permutation_cons_app. eapply Permutation_trans; [exact P|].
  rewrite <- app_assoc. apply Permutation_app_head. cbn [app]. symmetry. apply Permutation_middle.
Qed.

Lemma PayOK_clear : forall w ever, PayOK w ever ->
  PayOK (mkWorld empty_arena [] [] (dropped w ++ stored (ar w))) ever.
Proof. intros w ever P. unfold PayOK in *. sn. cbn. now rewrite app_nil_r. Qed.

Lemma PayOK_same_shape : forall w ever a', PayOK w ever -> same_shape (ar w) a' ->
  PayOK (mkWorld a' (issued w) (removed w) (dropped w)) ever.
Proof. intros w ever a' P H. unfold PayOK in *. sn. now rewrite (stored_same_shape _ _ H). Qed.

Lemma PayOK_free_all : forall D w ever FL a' olds, AllocOK w -> FreeOK (ar w) FL ->
  (forall y, In y D -> live (ar w) y) -> NoDup (map idx D) -> PayOK w ever ->
  free_all false D (ar w) = (a', Ok olds) ->
  PayOK (mkWorld a' (issued w) (removed w ++ D) (dropped w ++ olds)) ever.
Proof.
  intros D w ever FL a' olds OK FO HL ND P Hrun. unfold PayOK in *. sn.
  destruct (free_all_spec D w FL OK FO HL ND) as (a2 & olds2 & Hrun2 & _ & _ & _ & _ & _ & _ & _ & Perm).
  rewrite Hrun in Hrun2. injection Hrun2 as <- <-.
  eapply Permutation_trans; [exact P|]. rewrite <- app_assoc. apply Permutation_app_head.
  symmetry. exact Perm.
Qed.

(* ====================================================================== *)
(* F. Composition: the invariant along whole API calls                     *)
(* ====================================================================== *)

Lemma world_eta : forall w, mkWorld (ar w) (issued w) (removed w) (dropped w) = w.
Proof. now intros []. Qed.

Lemma bind_ok_inv : forall A B (m : M A) (k : A -> M B) a a' y,
  bind m k a = (a', Ok y) -> exists a1 x, m a = (a1, Ok x) /\ k x a1 = (a', Ok y).
Proof. intros A B m k a a' y H. unfold bind in H. destruct (m a) as [a1 [x|c|]]; try discriminate. eauto. Qed.

Lemma rd_inv : forall i a a' n, rd i a = (a', Ok n) -> a' = a /\ nth_error (nodes a) i = Some n.
Proof.
  intros i a a' n H. unfold rd in H. destruct (nth_error (nodes a) i); [|discriminate].
  injection H as <- <-. auto.
Qed.

(* running a shape-preserving prefix: failures leave a same-shaped arena behind *)
Lemma bind_shape_cases : forall A B (m : M A) (k : A -> M B) a0 a a' r (Q : arena -> res B -> Prop),
  shape_pres m -> same_shape a0 a ->
  (forall a1 c, same_shape a0 a1 -> Q a1 (Panic c)) ->
  (forall a1, same_shape a0 a1 -> Q a1 Diverge) ->
  (forall a1 x, same_shape a0 a1 -> m a = (a1, Ok x) -> k x a1 = (a', r) -> Q a' r) ->
  bind m k a = (a', r) -> Q a' r.
Proof.
  intros A B m k a0 a a' r Q SP SS F1 F2 K H. unfold bind in H.
  destruct (m a) as [a1 [x|c|]] eqn:E.
  - eapply K; [eapply same_shape_trans; [exact SS|eapply SP; exact E]|reflexivity|exact H].
  - injection H as <- <-. apply F1. eapply same_shape_trans; eauto.
  - injection H as <- <-. apply F2. eapply same_shape_trans; eauto.
Qed.

(* remove: whatever happens the invariant is kept; on success exactly x is removed and its payload dropped *)
Lemma remove_alloc : forall w x a' r, AllocOK w -> live (ar w) x -> remove false x (ar w) = (a', r) ->
  match r with
  | Ok old => exists v, old = Some v /\ (exists n, node_at (ar w) x n /\ data n = Data v) /\
                slot_removed a' x /\
                AllocOK (mkWorld a' (issued w) (removed w ++ [x]) (dropped w ++ [v]))
  | _ => AllocOK (mkWorld a' (issued w) (removed w) (dropped w))
  end.
Proof.
  intros w x a' r OK LV H.
  pose (Q := fun (a' : arena) (r : res (option N)) =>
    match r with
    | Ok old => exists v, old = Some v /\ (exists n, node_at (ar w) x n /\ data n = Data v) /\
                  slot_removed a' x /\
                  AllocOK (mkWorld a' (issued w) (removed w ++ [x]) (dropped w ++ [v]))
    | _ => AllocOK (mkWorld a' (issued w) (removed w) (dropped w))
    end).
  change (Q a' r).
  assert (F1 : forall a1 c, same_shape (ar w) a1 -> Q a1 (Panic c))
    by (intros; cbn; now apply AllocOK_same_shape).
  assert (F2 : forall a1, same_shape (ar w) a1 -> Q a1 Diverge)
    by (intros; cbn; now apply AllocOK_same_shape).
  pose proof (same_shape_refl (ar w)) as SS0.
  unfold remove in H. revert H.
  apply bind_shape_cases with (a0 := ar w); auto. { cbn. apply shape_ret. }
  intros a1 [] SS1 _. cbn beta.
  apply bind_shape_cases with (a0 := ar w); auto. { apply shape_rdi. }
  intros a2 n SS2 _. cbn beta zeta.
  apply bind_shape_cases with (a0 := ar w); auto.
  { destruct (Bool.eqb (is_some (first n)) (is_some (last n))); [apply shape_ret|apply shape_panic]. }
  intros a3 [] SS3 _. cbn beta.
  apply bind_shape_cases with (a0 := ar w); auto. { apply shape_detach. }
  intros a4 [] SS4 _. cbn beta.
  apply bind_shape_cases with (a0 := ar w); auto.
  { destruct (first n); [destruct (last n)|]; try apply shape_ret.
    apply shape_bind; [apply shape_detach_from_siblings|intros].
    apply shape_bind; [apply shape_transplant|intros; apply shape_expect]. }
  intros a5 [] SS5 _. cbn beta. intros H.
  set (w5 := mkWorld a5 (issued w) (removed w) (dropped w)).
  assert (OK5 : AllocOK w5) by (now apply AllocOK_same_shape).
  destruct (al_free _ OK5) as (FL & FO).
  assert (LV5 : live (ar w5) x) by (apply (live_same_shape (ar w) a5 x SS5); exact LV).
  destruct (free_node_spec w5 x FL OK5 FO LV5)
    as (a6 & v & Hrun & (n5 & Hn5 & Hd5) & _ & SR & _ & _ & _ & _ & OK6).
  cbn [ar issued removed dropped w5] in *.
  erewrite bind_ok in H by exact Hrun.
  pose proof SR as (m & Hm & _). unfold rdi in H. erewrite bind_ok in H by (apply rd_ok; exact Hm).
  cbn in H. injection H as <- <-.
  cbn. exists v. split; auto. split; [|split; auto].
  destruct (same_shape_inv _ _ _ _ SS5 Hn5) as (n0 & Hn0 & _ & Dd). exists n0. split; auto. congruence.
Qed.

(* remove_subtree, given that the collected subtree consists of live nodes in distinct slots
   (a fact about the forest structure, established elsewhere) *)
Lemma remove_subtree_alloc : forall w x a' r, AllocOK w ->
  (forall a1 D, detach false x (ar w) = (a1, Ok tt) -> descendants x a1 = Ok D ->
     (forall y, In y D -> live a1 y) /\ NoDup (map idx D)) ->
  remove_subtree false x (ar w) = (a', r) ->
  match r with
  | Ok (ids, olds) => length olds = length ids /\
      (forall y, In y ids -> slot_removed a' y /\ nd_links_none a' y) /\
      AllocOK (mkWorld a' (issued w) (removed w ++ ids) (dropped w ++ olds))
  | _ => AllocOK (mkWorld a' (issued w) (removed w) (dropped w))
  end.
Proof.
  intros w x a' r OK HD H.
  pose (Q := fun (a' : arena) (r : res (list nid * list N)) =>
    match r with
    | Ok (ids, olds) => length olds = length ids /\
        (forall y, In y ids -> slot_removed a' y /\ nd_links_none a' y) /\
        AllocOK (mkWorld a' (issued w) (removed w ++ ids) (dropped w ++ olds))
    | _ => AllocOK (mkWorld a' (issued w) (removed w) (dropped w))
    end).
  change (Q a' r).
  assert (F1 : forall a1 c, same_shape (ar w) a1 -> Q a1 (Panic c))
    by (intros; cbn; now apply AllocOK_same_shape).
  assert (F2 : forall a1, same_shape (ar w) a1 -> Q a1 Diverge)
    by (intros; cbn; now apply AllocOK_same_shape).
  pose proof (same_shape_refl (ar w)) as SS0.
  unfold remove_subtree in H. revert H.
  apply bind_shape_cases with (a0 := ar w); auto. { apply shape_detach. }
  intros a1 [] SS1 Hdet. cbn beta.
  apply bind_shape_cases with (a0 := ar w); auto. { apply shape_lift. }
  intros a2 D SS2 Hdesc. cbn beta. intros H.
  unfold lift in Hdesc. injection Hdesc as <- Hdesc.
  destruct (HD _ _ Hdet Hdesc) as (HL & ND).
  set (w1 := mkWorld a1 (issued w) (removed w) (dropped w)).
  assert (OK1 : AllocOK w1) by (now apply AllocOK_same_shape).
  destruct (al_free _ OK1) as (FL & FO).
  destruct (free_all_spec D w1 FL OK1 FO HL ND) as (a3 & olds & Hrun & Hlen & _ & OK3 & R & _).
  cbn [ar issued removed dropped w1] in *.
  erewrite bind_ok in H by exact Hrun. cbn in H. injection H as <- <-.
  cbn. auto.
Qed.

(* append_value on success: a fresh id, the invariant with that id issued *)
Lemma append_value_alloc : forall w p v a' x, AllocOK w ->
  append_value false p v (ar w) = (a', Ok x) ->
  ~ In x (issued w) /\ live a' x /\
  AllocOK (mkWorld a' (issued w ++ [x]) (removed w) (dropped w)).
Proof.
  intros w p v a' x OK H. unfold append_value in H.
  apply bind_ok_inv in H. destruct H as (a1 & np & H1 & H). unfold rdi in H1.
  apply rd_inv in H1. destruct H1 as (-> & _).
  apply bind_ok_inv in H. destruct H as (a2 & [] & H2 & H).
  assert (a2 = ar w) as ->.
  { destruct (node_is_removed np); [discriminate|]. unfold ret in H2. now injection H2 as <-. }
  apply bind_ok_inv in H. destruct H as (a3 & y & H3 & H).
  apply bind_ok_inv in H. destruct H as (a4 & [] & H4 & H).
  unfold ret in H. injection H as <- <-.
  destruct (al_free _ OK) as (FL & FO).
  destruct (new_node_spec w v FL OK FO) as (a3' & y' & Hrun & NI & LV & _ & _ & _ & OK3).
  rewrite H3 in Hrun. injection Hrun as <- <-.
  apply shape_insert_last_unchecked in H4.
  split; auto. split; [now apply (live_same_shape a3 a4 y H4)|].
  apply (AllocOK_same_shape _ a4 OK3 H4).
Qed.

(* side conditions of a step that are facts about the forest structure (not about allocation):
   append_value returns normally; remove_subtree collects live nodes in distinct slots *)
Definition step_side_ok (w : world) (o : op) : Prop :=
  match o with
  | OAppendValue p v => exists a' x, append_value false p v (ar w) = (a', Ok x)
  | ORemoveSubtree x =>
      forall a1 D, detach false x (ar w) = (a1, Ok tt) -> descendants x a1 = Ok D ->
        (forall y, In y D -> live a1 y) /\ NoDup (map idx D)
  | _ => True
  end.

Theorem AllocOK_step : forall w o, AllocOK w -> valid_op (ar w) o -> step_side_ok w o ->
  AllocOK (fst (step false w o)).
Proof.
  intros w o OK V S. destruct o; cbn [step valid_op step_side_ok] in *.
  - destruct (al_free _ OK) as (FL & FO).
    destruct (new_node_spec w v FL OK FO) as (a' & x & Hrun & _ & _ & _ & _ & _ & OK').
    rewrite Hrun. exact OK'.
  - destruct S as (a' & x & E). rewrite E. cbn. eapply append_value_alloc; eauto.
  - destruct checked.
    + destruct (checked_insert false k a b (ar w)) as [a' r] eqn:E.
      apply shape_checked_insert in E. destruct r as [[|e]|c|]; cbn; now apply AllocOK_same_shape.
    + destruct (unchecked_insert false k a b (ar w)) as [a' r] eqn:E.
      apply shape_unchecked_insert in E. destruct r as [[]|c|]; cbn; now apply AllocOK_same_shape.
  - destruct (detach false x (ar w)) as [a' r] eqn:E.
    apply shape_detach in E. destruct r as [[]|c|]; cbn; now apply AllocOK_same_shape.
  - destruct (remove false x (ar w)) as [a' r] eqn:E.
    pose proof (remove_alloc w x a' r OK V E) as H. destruct r as [old|c|]; cbn; auto.
    destruct H as (v & -> & _ & _ & H). exact H.
  - destruct (remove_subtree false x (ar w)) as [a' r] eqn:E.
    pose proof (remove_subtree_alloc w x a' r OK S E) as H. destruct r as [[ids olds]|c|]; cbn; auto.
    apply H.
  - destruct (al_free _ OK) as (FL & FO).
    destruct (write_payload_spec w x v FL OK FO V) as (a' & old & n & Hrun & _ & _ & _ & _ & _ & _ & _ & _ & OK').
    rewrite Hrun. exact OK'.
  - cbn. apply AllocOK_empty.
  - cbn. exact OK.
Qed.

(* whole histories *)
Fixpoint side_hist (w : world) (ops : list op) : Prop :=
  match ops with
  | [] => True
  | o :: r => step_side_ok w o /\ side_hist (fst (step false w o)) r
  end.

Theorem AllocOK_run : forall ops w, AllocOK w -> valid_hist false w ops -> side_hist w ops ->
  AllocOK (run false ops w).
Proof.
  induction ops as [|o r IH]; intros w OK V S; cbn in *; auto.
  destruct V as (V1 & V2). destruct S as (S1 & S2). apply IH; auto. now apply AllocOK_step.
Qed.

Print Assumptions new_node_spec.
Print Assumptions free_node_spec.
Print Assumptions free_all_spec.
Print Assumptions is_removed_correct.
Print Assumptions AllocOK_step.
