(* Reach2.v — state-level theorems (StateProps.v, AllocProps.v) over reachable worlds. *)
From IT Require Import Props.
From IT.proofs Require Import Assembly AllocProps StateProps Reach.
From IT.proofs Require ReprTree.

Section R.
  Variable ops : list op.
  Hypothesis H : valid_hist false init ops.
  Let a := ar (reach ops).

  Lemma reach_links_ok : LinksOK a.
  Proof. destruct (reach_repr ops H) as [F HF]. exact (repr_links_ok _ F HF). Qed.
  Lemma reach_c01_silent : c01_check a = [].
  Proof. destruct (reach_repr ops H) as [F HF]. exact (repr_c01_silent _ F HF). Qed.
  Lemma reach_c02_silent : c02_check a = [].
  Proof. destruct (reach_repr ops H) as [F HF]. exact (repr_c02_silent _ F HF). Qed.
  Lemma reach_c12_silent : c12_state a = [].
  Proof. destruct (reach_repr ops H) as [F HF]. exact (repr_c12_silent _ F HF). Qed.

  Lemma reach_ancestors : forall x, live a x ->
    exists l, ancestors x a = Ok l /\ is_path a parent x l /\ NoDup l /\ (length l <= length (live_ids a))%nat.
  Proof.
    intros x Hx. destruct (reach_repr ops H) as [F HF].
    destruct (repr_ancestors _ F x HF Hx) as (l & A & B & C & D & _). eauto.
  Qed.
  Lemma reach_following : forall x, live a x ->
    exists l, following_siblings x a = Ok l /\ is_path a next x l /\ NoDup l /\ (length l <= length (live_ids a))%nat.
  Proof. intros x Hx. destruct (reach_repr ops H) as [F HF]. exact (repr_following _ F x HF Hx). Qed.
  Lemma reach_preceding : forall x, live a x ->
    exists l, preceding_siblings x a = Ok l /\ is_path a prev x l /\ NoDup l /\ (length l <= length (live_ids a))%nat.
  Proof. intros x Hx. destruct (reach_repr ops H) as [F HF]. exact (repr_preceding _ F x HF Hx). Qed.
  Lemma reach_predecessors : forall x, live a x ->
    exists l, predecessors x a = Ok l /\ is_path a pred_link x l /\ NoDup l.
  Proof. intros x Hx. destruct (reach_repr ops H) as [F HF]. exact (repr_predecessors _ F x HF Hx). Qed.

  Lemma reach_subtree_iterators : forall F x, Repr a F -> live a x ->
    let t := ReprTree.treeF (length (nodes a)) F x in
    tree_in a t /\ root t = x /\
    traverse x a = Ok (euler t) /\ reverse_traverse x a = Ok (rev (euler t)) /\
    descendants x a = Ok (ids t) /\ children x a = Ok (kidsf F x) /\ reverse_children x a = Ok (rev (kidsf F x)) /\
    NoDup (euler t) /\ NoDup (ids t).
  Proof. intros F x HF Hx. exact (repr_subtree_iterators _ F x HF Hx). Qed.

  Lemma reach_steps_inverse : forall e e',
    (match e with Start x | End_ x => live a x end) -> (match e' with Start x | End_ x => live a x end) ->
    (next_traverse e a = Ok (Some e') <-> prev_traverse e' a = Ok (Some e)).
  Proof. intros e e' He He'. destruct (reach_repr ops H) as [F HF]. exact (repr_steps_inverse _ F e e' HF He He'). Qed.

  Lemma reach_de_children : forall F x pulls, Repr a F -> live a x ->
    de_run DChildren x pulls a = Ok (de_spec (kidsf F x) pulls).
  Proof. intros F x pulls HF Hx. exact (repr_de_children _ F x pulls HF Hx). Qed.
  Lemma reach_de_following : forall x pulls l, live a x -> is_path a next x l ->
    de_run DFollowing x pulls a = Ok (de_spec l pulls).
  Proof. intros x pulls l Hx Hl. destruct (reach_repr ops H) as [F HF]. exact (repr_de_following _ F x pulls l HF Hx Hl). Qed.
  Lemma reach_de_preceding : forall x pulls l, live a x -> is_path a prev x l ->
    de_run DPreceding x pulls a = Ok (de_spec l pulls).
  Proof. intros x pulls l Hx Hl. destruct (reach_repr ops H) as [F HF]. exact (repr_de_preceding _ F x pulls l HF Hx Hl). Qed.

  Lemma reach_print : forall dbg F x rend mode, Repr a F -> live a x ->
    (forall y, In y (preorderF (length (nodes a)) F x) ->
       good_text (concat (rend (payload_at a y) mode)) /\ exists n v, node_at a y n /\ data n = Data v) ->
    pretty_print dbg rend mode x a = Ok (render rend mode (payload_at a) (ReprTree.treeF (length (nodes a)) F x)).
  Proof. intros dbg F x rend mode HF Hx Hp. exact (repr_print dbg _ F x rend mode HF Hx Hp). Qed.

  (* C12: no live node names a removed node in any link *)
  Lemma reach_links_live : forall x n f z, live a x -> node_at a x n -> getf f n = Some z -> live a z.
  Proof. intros x n f z Hx Hn Hz. destruct (reach_links_ok x n Hx Hn) as (L & _). exact (L f z Hz). Qed.
End R.

(* ---------- C06 / C07 / C08 over reachable worlds ---------- *)
Lemma reach_is_removed : forall ops x, valid_hist false init ops -> In x (issued (reach ops)) ->
  id_is_removed x (ar (reach ops)) = Ok true /\ In x (removed (reach ops)) \/
  id_is_removed x (ar (reach ops)) = Ok false /\ ~ In x (removed (reach ops)) /\ live (ar (reach ops)) x.
Proof. intros ops x H Hx. exact (wf_is_removed _ x (reach_WF ops H) Hx). Qed.

Lemma reach_stamps_in_range : forall ops i n, valid_hist false init ops ->
  nth_error (nodes (ar (reach ops))) i = Some n -> (i16_min <= stamp n <= i16_max)%Z.
Proof. intros ops i n H Hn. exact (wf_stamps_in_range _ i n (reach_WF ops H) Hn). Qed.

Lemma reach_free_list : forall ops, valid_hist false init ops ->
  NoDup (free_list (ar (reach ops))) /\ (forall i, In i (free_list (ar (reach ops))) <-> reusable_slot (ar (reach ops)) i) /\
  ffree (ar (reach ops)) = hd_error (free_list (ar (reach ops))).
Proof. intros ops H. exact (wf_free_list _ (reach_WF ops H)). Qed.

Lemma reach_new_node : forall ops v, valid_hist false init ops -> let w := reach ops in
  exists a' x, new_node false v (ar w) = (a', Ok x) /\ ~ In x (issued w) /\ ~ live (ar w) x /\ live a' x /\
    node_at a' x (fresh_node (gen x) (Data v)) /\
    (forall j, j <> idx x -> nth_error (nodes a') j = nth_error (nodes (ar w)) j) /\
    match free_list (ar w) with
    | i :: rest => idx x = i /\ length (nodes a') = length (nodes (ar w)) /\ free_list a' = rest
    | [] => idx x = length (nodes (ar w)) /\ length (nodes a') = S (length (nodes (ar w))) /\ free_list a' = []
    end.
Proof. intros ops v H. exact (wf_new_node _ v (reach_WF ops H)). Qed.

Lemma reach_free_node : forall ops x, valid_hist false init ops -> let w := reach ops in live (ar w) x ->
  exists a' v, free_node false x (ar w) = (a', Ok (Some v)) /\ payload_of_id (ar w) x = Some v /\
    free_list a' = free_list (ar w) ++ (if (gen x <? i16_max)%Z then [idx x] else []).
Proof. intros ops x H w Hx. exact (wf_free_node _ x (reach_WF ops H) Hx). Qed.

Lemma reach_payload_stable : forall ops o x, valid_hist false init ops -> let w := reach ops in
  valid_op (ar w) o -> live (ar w) x -> live (ar (fst (step false w o))) x ->
  (match o with OWrite y _ => y <> x | _ => True end) ->
  payload_of_id (ar (fst (step false w o))) x = payload_of_id (ar w) x.
Proof. intros ops o x H w. exact (step_payload_stable w o x (reach_WF ops H)). Qed.

Lemma reach_write : forall ops x v, valid_hist false init ops -> let w := reach ops in live (ar w) x ->
  payload_of_id (ar (fst (step false w (OWrite x v)))) x = Some v.
Proof. intros ops x v H w. exact (step_write w x v (reach_WF ops H)). Qed.
