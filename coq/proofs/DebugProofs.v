(* DebugProofs.v — the debug build (dbg = true: debug assertions, triangle checks, overflow checks)
   behaves exactly like the release build (dbg = false) on every valid call in a well-formed world:
   no debug assertion ever fires.

   Contents
     1. read-only checks; connect_neighbors / detach_from_siblings / transplant / detach /
        insert_with_neighbors / insert_last_unchecked under dbg = true, from purely local
        preconditions (the "triangle" facts [tri], [nrm], [ends_agree], [opar])
     2. allocation: new_node, free_node, free_all
     3. the triangle facts hold in every arena that represents a forest ([Repr])
     4. detach                      5. the four inserts (checked / unchecked), append_value
     6. the intermediate arenas of remove / remove_subtree (replay of the ReprRemove proofs)
     7. the splice of remove        8. remove, remove_subtree
     9. [debug_agrees], [debug_run_agrees], [debug_reachable], [debug_no_assert] *)
From IT Require Import Props.
From IT.proofs Require Import Layer1 ReprBase ReprInsert.
From IT.proofs Require AllocProofs TraverseProofs ReprTree ReprRemove Assembly.
Require Import Lia.
Open Scope mon_scope.
Local Open Scope nat_scope.


(* ====================================================================== *)
(* Part 1.  Read-only checks and the link primitives under dbg = true      *)
(* ====================================================================== *)

(* ---------- a check that passes is a no-op ---------- *)
Lemma bind_dassert : forall dbg b B (k : unit -> M B) a, b = true -> bind (dassert dbg b) k a = k tt a.
Proof. intros dbg b B k a ->. destruct dbg; reflexivity. Qed.

Lemma dassert_ok : forall dbg b a, b = true -> dassert dbg b a = (a, Ok tt).
Proof. intros dbg b a ->. destruct dbg; reflexivity. Qed.

Lemma bind_chk : forall B (c : M unit) (k : unit -> M B) a, c a = (a, Ok tt) -> bind c k a = k tt a.
Proof. intros B c k a H. unfold bind. now rewrite H. Qed.

(* the general principle: a passing read-only check under when_dbg changes nothing *)
Lemma when_dbg_agree : forall B (c : M unit) (k : unit -> M B) a, c a = (a, Ok tt) ->
  bind (when_dbg true c) k a = bind (when_dbg false c) k a.
Proof. intros B c k a H. cbn [when_dbg]. rewrite (bind_chk _ _ _ _ H). reflexivity. Qed.

(* ---------- the local "triangle" facts ---------- *)
Definition tri (a : arena) (par pv nx : option nid) : Prop :=
  match pv with Some p => inr a p /\ parent (nd a p) = par /\ next (nd a p) = nx | None => True end /\
  match nx with Some x => inr a x /\ parent (nd a x) = par /\ prev (nd a x) = pv | None => True end.

Definition nrm (a : arena) (o : option nid) : Prop :=
  match o with Some x => inr a x /\ (0 <= stamp (nd a x))%Z | None => True end.
Definition ends_agree (a : arena) (par : option nid) : Prop :=
  match par with Some p => is_some (first (nd a p)) = is_some (last (nd a p)) | None => True end.
Definition opar (a : arena) (o par : option nid) : Prop :=
  match o with Some x => parent (nd a x) = par | None => True end.

Lemma nrm_oinr : forall a o, nrm a o -> oinr a o.
Proof. intros a [x|] H; cbn in *; tauto. Qed.

Lemma nrm_amap : forall F a o, links_only F -> (nrm (amap F a) o <-> nrm a o).
Proof.
  intros F a [x|] H; cbn [nrm]; [|tauto]. rewrite inr_amap, stamp_nd_amap by auto. tauto.
Qed.

Lemma ends_agree_amap : forall F a par,
  (forall j n, first (F j n) = first n) -> (forall j n, last (F j n) = last n) ->
  (ends_agree (amap F a) par <-> ends_agree a par).
Proof.
  intros F a [p|] H1 H2; cbn [ends_agree]; [|tauto]. rewrite first_nd_keep, last_nd_keep by auto. tauto.
Qed.

Lemma opar_amap : forall F a o par, (forall j n, parent (F j n) = parent n) ->
  (opar (amap F a) o par <-> opar a o par).
Proof. intros F a [x|] par H; cbn [opar]; [|tauto]. rewrite parent_nd_keep by auto. tauto. Qed.

Lemma tri_keep : forall a a' par pv nx, length (nodes a') = length (nodes a) ->
  (forall y, inr a y -> parent (nd a' y) = parent (nd a y) /\ prev (nd a' y) = prev (nd a y)
                        /\ next (nd a' y) = next (nd a y)) ->
  tri a par pv nx -> tri a' par pv nx.
Proof.
  intros a a' par pv nx LEN H [H1 H2]. split.
  - destruct pv as [p|]; auto. destruct H1 as (I & P & N). destruct (H p I) as (E1 & _ & E3).
    split; [unfold inr in *; lia|]. split; congruence.
  - destruct nx as [x|]; auto. destruct H2 as (I & P & V). destruct (H x I) as (E1 & E2 & _).
    split; [unfold inr in *; lia|]. split; congruence.
Qed.

(* ---------- the checks ---------- *)
Lemma atn_ok : forall a par pv nx, tri a par pv nx -> assert_triangle_nodes par pv nx a = (a, Ok tt).
Proof.
  intros a par pv nx [H1 H2]. unfold assert_triangle_nodes.
  rewrite bind_chk.
  - destruct nx as [x|]; [|reflexivity]. destruct H2 as (I & P & V).
    rewrite bind_rdi by auto. rewrite P, V. unfold assert_eq_onid. rewrite !onid_eqb_refl. reflexivity.
  - destruct pv as [p|]; [|reflexivity]. destruct H1 as (I & P & N).
    rewrite bind_rdi by auto. rewrite P, N. unfold assert_eq_onid. rewrite !onid_eqb_refl. reflexivity.
Qed.

Lemma dtriangle_ok : forall dbg a par pv nx, tri a par pv nx -> dtriangle dbg par pv nx a = (a, Ok tt).
Proof. intros [|] a par pv nx H; cbn [dtriangle when_dbg]; [now apply atn_ok | reflexivity]. Qed.

Lemma dpea_ok : forall a par, oinr a par -> ends_agree a par -> dparent_ends_agree par a = (a, Ok tt).
Proof.
  intros a [p|] I H; cbn in *; [|reflexivity]. rewrite bind_rdi by auto. rewrite H.
  now rewrite Bool.eqb_reflx.
Qed.

Lemma dnr_ok : forall a o, nrm a o -> dnot_removed o a = (a, Ok tt).
Proof.
  intros a [x|] H; cbn in *; [|reflexivity]. destruct H as [I S]. rewrite bind_rdi by auto.
  unfold node_is_removed, st_is_removed. destruct (Z.ltb_spec (stamp (nd a x)) 0); [lia|reflexivity].
Qed.

Lemma cn_pre_ok : forall a par pv nx, nrm a par -> nrm a pv -> nrm a nx -> ends_agree a par ->
  (dparent_ends_agree par ;;; dnot_removed par ;;; dnot_removed pv ;;; dnot_removed nx) a = (a, Ok tt).
Proof.
  intros a par pv nx Np Nv Nn EA.
  rewrite bind_chk by (apply dpea_ok; auto using nrm_oinr).
  rewrite bind_chk by (now apply dnr_ok).
  rewrite bind_chk by (now apply dnr_ok).
  now apply dnr_ok.
Qed.

(* ---------- connect_neighbors ---------- *)
Lemma cnF_keep_parent : forall a par pv nx j n, parent (cnF a par pv nx j n) = parent n.
Proof.
  intros. change (getf Fparent (cnF a par pv nx j n) = getf Fparent n). rewrite getf_cnF.
  cbn [fld_eqb]. now rewrite !andb_false_r.
Qed.

Lemma tri_cn : forall a par pv nx, oinr a pv -> oinr a nx -> opar a pv par -> opar a nx par ->
  tri (amap (cnF a par pv nx) a) par pv nx.
Proof.
  intros a par pv nx Iv In_ Ov On. split.
  - destruct pv as [p|]; auto. cbn in Iv, Ov. split; [now apply inr_amap|]. split.
    + rewrite parent_nd_keep by (intros; apply cnF_keep_parent). exact Ov.
    + change (getf Fnext (nd (amap (cnF a par (Some p) nx) a) p) = nx).
      rewrite getf_nd_amap by auto. rewrite getf_cnF. cbn [fld_eqb oat].
      rewrite Nat.eqb_refl, !andb_false_r. reflexivity.
  - destruct nx as [x|]; auto. cbn in In_, On. split; [now apply inr_amap|]. split.
    + rewrite parent_nd_keep by (intros; apply cnF_keep_parent). exact On.
    + change (getf Fprev (nd (amap (cnF a par pv (Some x)) a) x) = pv).
      rewrite getf_nd_amap by auto. rewrite getf_cnF. cbn [fld_eqb oat].
      rewrite Nat.eqb_refl, !andb_false_r. reflexivity.
Qed.

Ltac dstep1 :=
  first
    [ rewrite bind_assoc
    | rewrite bind_ret
    | rewrite bind_rdi by inr_tac
    | rewrite bind_updi by inr_tac
    | rewrite bind_updi2 by inr_tac ];
  cbv beta.
Ltac dsteps := repeat dstep1.

Lemma cn_dbg : forall a par pv nx, nrm a par -> nrm a pv -> nrm a nx -> ends_agree a par ->
  opar a pv par -> opar a nx par ->
  connect_neighbors true par pv nx a = (amap (cnF a par pv nx) a, Ok tt).
Proof.
  intros a par pv nx Np Nv Nn EA Ov On.
  assert (T : tri (amap (cnF a par pv nx) a) par pv nx) by (apply tri_cn; auto using nrm_oinr).
  unfold connect_neighbors. cbn [when_dbg].
  rewrite bind_chk by (now apply cn_pre_ok).
  revert T. unfold cnF, cn_first, cn_last.
  destruct par as [p|], pv as [v|], nx as [x|]; cbn [nrm ofset] in *; intros T;
    repeat match goal with H : _ /\ _ |- _ => destruct H end;
    dsteps; cbv beta iota zeta; dsteps;
    try (rewrite bind_dassert by (destruct (first (nd a p)), (last (nd a p)); reflexivity));
    dsteps; cbn [dtriangle when_dbg];
    rewrite ?amap_amap in *.
  all: try (rewrite atn_ok by exact T; reflexivity).
  rewrite amap_id' by reflexivity. reflexivity.
Qed.

(* ---------- detach_from_siblings ---------- *)
Lemma dfsF_keep_parent : forall a f l j n, parent (dfsF a f l j n) = parent n.
Proof.
  intros. change (getf Fparent (dfsF a f l j n) = getf Fparent n). rewrite getf_dfsF. cbv zeta.
  cbn [fld_eqb]. now rewrite !andb_false_r.
Qed.

Lemma tri_dfs : forall a f l,
  let par := parent (nd a f) in let pv := prev (nd a f) in let nx := next (nd a l) in
  oinr a pv -> oinr a nx -> opar a pv par -> opar a nx par ->
  tri (amap (dfsF a f l) a) par pv nx.
Proof.
  intros a f l par pv nx Iv In_ Ov On. split.
  - destruct pv as [p|] eqn:Ep; auto. cbn in Iv, Ov. split; [now apply inr_amap|]. split.
    + rewrite parent_nd_keep by (intros; apply dfsF_keep_parent). exact Ov.
    + change (getf Fnext (nd (amap (dfsF a f l) a) p) = nx).
      rewrite getf_nd_amap by auto. rewrite getf_dfsF. cbv zeta. fold pv. rewrite Ep. cbn [fld_eqb oat].
      rewrite Nat.eqb_refl, !andb_false_r. reflexivity.
  - destruct nx as [x|] eqn:En; auto. cbn in In_, On. split; [now apply inr_amap|]. split.
    + rewrite parent_nd_keep by (intros; apply dfsF_keep_parent). exact On.
    + change (getf Fprev (nd (amap (dfsF a f l) a) x) = pv).
      rewrite getf_nd_amap by auto. rewrite getf_dfsF. cbv zeta. fold nx. rewrite En. cbn [fld_eqb oat].
      rewrite Nat.eqb_refl, !andb_false_r. reflexivity.
Qed.

Lemma cn_ends_agree : forall a par pv nx,
  Bool.eqb (is_some (cn_first a par pv nx)) (is_some (cn_last a par pv nx)) = true.
Proof.
  intros a par pv nx. unfold cn_first, cn_last.
  destruct pv, nx, par as [q|]; try reflexivity;
    destruct (first (nd a q)), (last (nd a q)); reflexivity.
Qed.

Lemma dfs_dbg : forall a f l, inr a f -> inr a l ->
  nrm a (parent (nd a f)) -> nrm a (prev (nd a f)) -> nrm a (next (nd a l)) ->
  ends_agree a (parent (nd a f)) ->
  opar a (prev (nd a f)) (parent (nd a f)) -> opar a (next (nd a l)) (parent (nd a f)) ->
  oat (next (nd a l)) (idx f) = false -> oat (prev (nd a f)) (idx l) = false ->
  (forall q, parent (nd a f) = Some q ->
     tri (amap (dfsF a f l) a) (Some q) None (first (nd (amap (dfsF a f l) a) q)) /\
     tri (amap (dfsF a f l) a) (Some q) (last (nd (amap (dfsF a f l) a) q)) None) ->
  detach_from_siblings true f l a = (amap (dfsF a f l) a, Ok tt).
Proof.
  intros a f l If Il Np Nv Nn EA Ov On Of Ol HP.
  pose proof (tri_dfs a f l (nrm_oinr _ _ Nv) (nrm_oinr _ _ Nn) Ov On) as T. cbv zeta in T.
  unfold detach_from_siblings. dsteps.
  assert (E : next (nd (amap (fset f Fprev None) a) l) = next (nd a l)).
  { apply (getf_nd_amap_keep _ Fnext). fset_keep_tac. }
  rewrite E. rewrite amap_amap.
  set (G := fset l Fnext None ∘∘ fset f Fprev None).
  assert (LG : links_only G) by (apply links_only_comp; apply links_only_fset).
  assert (GP : forall j n, parent (G j n) = parent n).
  { intros. unfold G, comp, fset. destruct (Nat.eqb j (idx l)), (Nat.eqb j (idx f)); reflexivity. }
  assert (GF : forall j n, first (G j n) = first n).
  { intros. unfold G, comp, fset. destruct (Nat.eqb j (idx l)), (Nat.eqb j (idx f)); reflexivity. }
  assert (GL : forall j n, last (G j n) = last n).
  { intros. unfold G, comp, fset. destruct (Nat.eqb j (idx l)), (Nat.eqb j (idx f)); reflexivity. }
  erewrite bind_ok.
  2:{ apply cn_dbg.
      - now apply nrm_amap. - now apply nrm_amap. - now apply nrm_amap.
      - now apply ends_agree_amap.
      - now apply opar_amap. - now apply opar_amap. }
  rewrite cnF_amap_keep by assumption. rewrite amap_amap.
  change (cnF a (parent (nd a f)) (prev (nd a f)) (next (nd a l)) ∘∘ G) with (dfsF a f l).
  set (a2 := amap (dfsF a f l) a) in *.
  assert (I2f : inr a2 f) by (now apply inr_amap).
  assert (I2l : inr a2 l) by (now apply inr_amap).
  assert (Pf : prev (nd a2 f) = None).
  { change (getf Fprev (nd a2 f) = None). unfold a2. rewrite getf_nd_amap by auto.
    rewrite getf_dfsF. cbv zeta. cbn [fld_eqb]. rewrite Of, Nat.eqb_refl, !andb_false_r. reflexivity. }
  assert (Nl : next (nd a2 l) = None).
  { change (getf Fnext (nd a2 l) = None). unfold a2. rewrite getf_nd_amap by auto.
    rewrite getf_dfsF. cbv zeta. cbn [fld_eqb]. rewrite Ol, Nat.eqb_refl, !andb_false_r. reflexivity. }
  cbn [when_dbg]. dsteps.
  rewrite bind_dassert by (now rewrite Pf). dsteps.
  rewrite bind_dassert by (now rewrite Nl).
  rewrite bind_chk by (now apply atn_ok).
  destruct (parent (nd a f)) as [q|] eqn:Ep; [|reflexivity].
  assert (I2q : inr a2 q) by (apply inr_amap; apply Np).
  destruct (HP q eq_refl) as [T1 T2].
  dsteps.
  rewrite bind_dassert.
  2:{ change (first (nd a2 q)) with (getf Ffirst (nd a2 q)). change (last (nd a2 q)) with (getf Flast (nd a2 q)).
      unfold a2. rewrite !getf_nd_amap by apply Np. rewrite !getf_dfsF. cbv zeta. rewrite Ep.
      cbn [fld_eqb oat]. rewrite Nat.eqb_refl. cbn [andb]. apply cn_ends_agree. }
  rewrite bind_chk by (now apply atn_ok).
  rewrite atn_ok by assumption. reflexivity.
Qed.

(* ---------- transplant ---------- *)
Definition tp_post (a3 : arena) (f l : nid) (par pv nx : option nid) : Prop :=
  tri a3 par pv (Some f) /\ tri a3 par (Some l) nx /\
  match par with
  | Some p => is_some (first (nd a3 p)) && is_some (last (nd a3 p)) = true /\
              tri a3 par None (first (nd a3 p)) /\ tri a3 par (last (nd a3 p)) None
  | None => True
  end.

Lemma existsb_idx_in : forall x S, In x S -> existsb (Nat.eqb (idx x)) (map idx S) = true.
Proof.
  intros x S H. apply existsb_exists. exists (idx x). split; [now apply in_map | apply Nat.eqb_refl].
Qed.

Lemma opar_reparent : forall a S o par, oinr a o -> opar a o par -> opar (amap (reparentF S par) a) o par.
Proof.
  intros a S [x|] par I H; cbn in *; auto.
  change (getf Fparent (nd (amap (reparentF S par) a) x) = par).
  rewrite getf_nd_amap by auto. rewrite getf_reparentF. cbn [fld_eqb getf].
  destruct (existsb _ _); cbn [andb]; auto.
Qed.

Lemma opar_reparent_in : forall a S x par, inr a x -> In x S -> opar (amap (reparentF S par) a) (Some x) par.
Proof.
  intros a S x par I H. cbn.
  change (getf Fparent (nd (amap (reparentF S par) a) x) = par).
  rewrite getf_nd_amap by auto. rewrite getf_reparentF. cbn [fld_eqb getf].
  now rewrite existsb_idx_in.
Qed.

Lemma tp_pre_ok : forall a par pv nx, oinr a par -> opar a pv par -> opar a nx par -> tri a par pv nx ->
  ends_agree a par ->
  ((match pv with
    | Some p => n <- rdi p ;; dassert true (onid_eqb (parent n) par)
    | None => ret tt end) ;;;
   (match nx with
    | Some x => n <- rdi x ;; dassert true (onid_eqb (parent n) par)
    | None => ret tt end) ;;;
   assert_triangle_nodes par pv nx ;;;
   dparent_ends_agree par) a = (a, Ok tt).
Proof.
  intros a par pv nx Ip Ov On T EA.
  rewrite bind_chk.
  2:{ destruct pv as [p|]; [|reflexivity]. cbn in Ov. destruct T as [(I & _) _].
      rewrite bind_rdi by auto. apply dassert_ok. rewrite Ov. apply onid_eqb_refl. }
  rewrite bind_chk.
  2:{ destruct nx as [x|]; [|reflexivity]. cbn in On. destruct T as [_ (I & _)].
      rewrite bind_rdi by auto. apply dassert_ok. rewrite On. apply onid_eqb_refl. }
  rewrite bind_chk by (now apply atn_ok).
  now apply dpea_ok.
Qed.

Lemma transplant_dbg : forall a S f l par pv nx,
  next_path a (Some f) S -> Forall (inr a) S -> length S <= chain_fuel a ->
  (forall s, In s S -> onid_eqb (Some s) par = false) ->
  In l S ->
  nrm a par -> nrm a pv -> nrm a nx -> nrm a (Some f) -> nrm a (Some l) ->
  opar a pv par -> opar a nx par -> tri a par pv nx -> ends_agree a par ->
  tp_post (amap (transplantF a S f l par pv nx) a) f l par pv nx ->
  transplant true f l par pv nx a = (amap (transplantF a S f l par pv nx) a, Ok COk).
Proof.
  intros a S f l par pv nx HP HI HL HN Hl Np Nv Nn Nf Nl Ov On T EA POST.
  assert (Hf : In f S). { destruct (next_path_head _ _ _ HP) as [r ->]. now left. }
  unfold transplant. cbn [when_dbg].
  rewrite bind_chk by (apply tp_pre_ok; auto using nrm_oinr).
  erewrite bind_ok by (eapply rewrite_parents_ok; eauto).
  cbv beta iota.
  set (ar_ := amap (reparentF S par) a).
  assert (LR : links_only (reparentF S par)) by apply links_only_reparentF.
  erewrite bind_ok.
  2:{ apply cn_dbg; unfold ar_.
      - now apply nrm_amap. - now apply nrm_amap. - now apply nrm_amap.
      - apply ends_agree_amap; auto using reparentF_keep_first, reparentF_keep_last.
      - apply opar_reparent; auto using nrm_oinr.
      - apply opar_reparent_in; auto. apply Nf. }
  set (a1 := amap (cnF ar_ par pv (Some f)) ar_).
  assert (LC : links_only (cnF ar_ par pv (Some f))) by apply links_only_cnF.
  erewrite bind_ok.
  2:{ apply cn_dbg; unfold a1.
      - apply nrm_amap; auto. now apply nrm_amap.
      - apply nrm_amap; auto. now apply nrm_amap.
      - apply nrm_amap; auto. now apply nrm_amap.
      - destruct par as [p|]; [|exact I]. cbn [ends_agree].
        change (first (nd (amap (cnF ar_ (Some p) pv (Some f)) ar_) p))
          with (getf Ffirst (nd (amap (cnF ar_ (Some p) pv (Some f)) ar_) p)).
        change (last (nd (amap (cnF ar_ (Some p) pv (Some f)) ar_) p))
          with (getf Flast (nd (amap (cnF ar_ (Some p) pv (Some f)) ar_) p)).
        assert (Ip : inr ar_ p) by (apply inr_amap; apply Np).
        rewrite !getf_nd_amap by exact Ip. rewrite !getf_cnF. cbn [fld_eqb oat]. rewrite Nat.eqb_refl. cbn [andb].
        apply Bool.eqb_prop. apply cn_ends_agree.
      - apply opar_amap; [intros; apply cnF_keep_parent|]. apply opar_reparent_in; auto. apply Nl.
      - apply opar_amap; [intros; apply cnF_keep_parent|]. apply opar_reparent; auto using nrm_oinr. }
  assert (EQ : amap (cnF a1 par (Some l) nx) a1 = amap (transplantF a S f l par pv nx) a).
  { unfold transplantF, a1, ar_.
    rewrite (cnF_amap_keep (reparentF S par) a) by (intros; first [apply reparentF_keep_first | apply reparentF_keep_last]).
    now rewrite !amap_amap. }
  rewrite EQ. set (a3 := amap (transplantF a S f l par pv nx) a) in *.
  destruct POST as (T1 & T2 & T3).
  rewrite bind_chk; [reflexivity|].
  rewrite bind_chk by (now apply atn_ok).
  rewrite bind_chk by (now apply atn_ok).
  destruct par as [p|]; [|reflexivity].
  destruct T3 as (B & T3 & T4).
  assert (I3 : inr a3 p) by (apply inr_amap; apply Np).
  dsteps. rewrite bind_dassert by exact B.
  rewrite bind_chk by (now apply atn_ok).
  now apply atn_ok.
Qed.

(* ---------- detach ---------- *)
Lemma detach_dbg : forall a x, inr a x ->
  nrm a (parent (nd a x)) -> nrm a (prev (nd a x)) -> nrm a (next (nd a x)) ->
  ends_agree a (parent (nd a x)) ->
  opar a (prev (nd a x)) (parent (nd a x)) -> opar a (next (nd a x)) (parent (nd a x)) ->
  oat (next (nd a x)) (idx x) = false -> oat (prev (nd a x)) (idx x) = false ->
  (forall q, parent (nd a x) = Some q ->
     tri (amap (dfsF a x x) a) (Some q) None (first (nd (amap (dfsF a x x) a) q)) /\
     tri (amap (dfsF a x x) a) (Some q) (last (nd (amap (dfsF a x x) a) q)) None) ->
  node_is_detached (nd (amap (detachF a x) a) x) = true ->
  detach true x a = (amap (detachF a x) a, Ok tt).
Proof.
  intros a x I Np Nv Nn EA Ov On Of Ol HP HD. unfold detach, detachF.
  erewrite bind_ok by (apply dfs_dbg; assumption).
  erewrite bind_ok.
  2:{ apply (rewrite_parents_ok [x]).
      - cbn [next_path]. split; auto. now apply dfs_next_clear.
      - constructor; [now apply inr_amap | constructor].
      - unfold chain_fuel. cbn. lia.
      - reflexivity. }
  cbn [expect]. rewrite bind_ret.
  rewrite reparentF_single, amap_amap.
  change (fset x Fparent None ∘∘ dfsF a x x) with (detachF a x).
  rewrite bind_rdi by (now apply inr_amap).
  now apply dassert_ok.
Qed.

(* ---------- insert_with_neighbors of a lone root, insert_last_unchecked ---------- *)
Lemma iwn_detached_dbg : forall a c par pv nx, inr a c ->
  parent (nd a c) = None -> prev (nd a c) = None -> next (nd a c) = None ->
  onid_eqb pv (Some c) = false -> onid_eqb nx (Some c) = false -> onid_eqb par (Some c) = false ->
  nrm a par -> nrm a pv -> nrm a nx -> nrm a (Some c) ->
  opar a pv par -> opar a nx par -> tri a par pv nx -> ends_agree a par ->
  tp_post (amap (transplantF a [c] c c par pv nx) a) c c par pv nx ->
  insert_with_neighbors true c par pv nx a = (amap (transplantF a [c] c c par pv nx) a, Ok COk).
Proof.
  intros a c par pv nx I Hp Hv Hn E1 E2 E3 Np Nv Nn Nc Ov On T EA POST.
  unfold insert_with_neighbors.
  rewrite bind_chk by (now apply dtriangle_ok).
  rewrite E1, E2, E3. cbn [orb].
  erewrite bind_ok.
  2:{ apply dfs_dbg; auto; rewrite ?Hp, ?Hv, ?Hn; try exact Logic.I; try reflexivity.
      intros q Eq. discriminate. }
  rewrite dfsF_detached by auto.
  erewrite bind_ok.
  2:{ apply (transplant_dbg a [c]); auto.
      - cbn [next_path]. auto.
      - unfold chain_fuel. cbn. lia.
      - intros s [<-|[]]. now rewrite onid_eqb_sym.
      - now left. }
  cbn [expect]. rewrite bind_ret.
  destruct POST as (T1 & T2 & _).
  rewrite bind_chk by (now apply dtriangle_ok).
  rewrite bind_chk by (now apply dtriangle_ok).
  reflexivity.
Qed.

Lemma ilu_dbg : forall a c p, inr a c -> inr a p -> next (nd a c) = None -> nid_eqb c p = false ->
  nrm a (Some p) -> nrm a (last (nd a p)) -> nrm a (Some c) ->
  opar a (last (nd a p)) (Some p) -> tri a (Some p) (last (nd a p)) None -> ends_agree a (Some p) ->
  tp_post (amap (iluF a c p) a) c c (Some p) (last (nd a p)) None ->
  insert_last_unchecked true c p a = (amap (iluF a c p) a, Ok tt).
Proof.
  intros a c p Ic Ip Hn E Np Nv Nc Ov T EA POST. unfold insert_last_unchecked, iluF in *.
  rewrite bind_rdi by auto.
  erewrite bind_ok.
  2:{ apply (transplant_dbg a [c]); auto.
      - cbn [next_path]. auto.
      - unfold chain_fuel. cbn. lia.
      - intros s [<-|[]]. exact E.
      - now left.
      - exact Logic.I.
      - exact Logic.I. }
  cbn [expect]. rewrite bind_ret.
  destruct POST as (T1 & _).
  now apply dtriangle_ok.
Qed.


(* ====================================================================== *)
(* Part 2.  Allocation: new_node, free_node, free_all                      *)
(* ====================================================================== *)

Lemma node_reuse_dbg : forall a i n v, nth_error (nodes a) i = Some n ->
  (exists nf, data n = NextFree nf) -> (i16_min < stamp n < 0)%Z ->
  node_reuse true i v a = node_reuse false i v a.
Proof.
  intros a i n v Hn [nf Hd] Hs. unfold node_reuse.
  rewrite !(bind_ok _ _ _ _ _ _ _ (rd_ok _ _ _ Hn)).
  rewrite Hd. rewrite bind_dassert by reflexivity.
  rewrite bind_dassert.
  2:{ unfold node_is_removed, st_is_removed. apply Z.ltb_lt. lia. }
  cbn [dassert]. rewrite !bind_ret.
  rewrite !AllocProofs.reuse_removed by assumption. reflexivity.
Qed.

Lemma new_node_dbg : forall w v, AllocOK w -> new_node true v (ar w) = new_node false v (ar w).
Proof.
  intros w v OK. destruct (al_free _ OK) as (FL & Hseg & Hlast & HND & Hreus).
  unfold new_node. destruct FL as [|i FL'].
  - cbn in Hseg. rewrite !(bind_ok _ _ _ _ _ _ _ (AllocProofs.pop_front_none _ Hseg)). reflexivity.
  - cbn [flseg] in Hseg. destruct Hseg as (Hff & n & nf & Hn & Hd & Hseg).
    assert (Hs : (i16_min < stamp n < 0)%Z).
    { destruct (proj1 (Hreus i) (or_introl eq_refl)) as (n0 & Hn0 & Hs). congruence. }
    rewrite !(bind_ok _ _ _ _ _ _ _ (AllocProofs.pop_front_some _ _ _ _ Hff Hn Hd)).
    cbv beta iota. unfold bind.
    rewrite (node_reuse_dbg _ i n v); eauto.
Qed.

(* ---------- free_node ---------- *)
Lemma get_arena_bind : forall A (k : arena -> M A) a, bind get_arena k a = k a a.
Proof. reflexivity. Qed.

Lemma free_node_dbg : forall b x n, nth_error (nodes b) (idx x) = Some n ->
  (0 <= stamp n <= i16_max)%Z -> (lfree b = None -> ffree b = None) ->
  free_node true x b = free_node false x b.
Proof.
  intros b x n Hn Hs HL. unfold free_node.
  rewrite !(bind_ok _ _ _ _ _ _ _ (rd_ok _ _ _ Hn : rdi x b = _)).
  set (G1 := fun j m => if Nat.eqb j (idx x) then set_data (NextFree None) m else m).
  assert (U1 : updi x (set_data (NextFree None)) b = (amap G1 b, Ok tt)) by (unfold updi; eapply upd_ok; eauto).
  rewrite !(bind_ok _ _ _ _ _ _ _ U1).
  set (s' := (if stamp n <? i16_max then - stamp n - 1 else i16_min)%Z).
  assert (Hs' : (i16_min <= s' < 0)%Z).
  { unfold s', i16_min, i16_max in *. destruct (Z.ltb_spec (stamp n) 32767); lia. }
  assert (A1 : forall dbg, liftres (st_as_removed dbg (stamp n)) (amap G1 b) = (amap G1 b, Ok s')).
  { intros dbg. unfold liftres. now rewrite AllocProofs.as_removed_live. }
  rewrite !(bind_ok _ _ _ _ _ _ _ (A1 _)).
  assert (Hn1 : nth_error (nodes (amap G1 b)) (idx x) = Some (set_data (NextFree None) n)).
  { rewrite nth_amap, Hn. unfold G1. cbn. now rewrite Nat.eqb_refl. }
  set (G2 := fun j m => if Nat.eqb j (idx x) then set_stamp s' m else m).
  assert (U2 : updi x (set_stamp s') (amap G1 b) = (amap G2 (amap G1 b), Ok tt)) by (unfold updi; eapply upd_ok; eauto).
  rewrite !(bind_ok _ _ _ _ _ _ _ U2).
  set (b2 := amap G2 (amap G1 b)).
  assert (A2 : forall dbg, liftres (st_reuseable dbg s') b2 = (b2, Ok (i16_min <? s')%Z)).
  { intros dbg. unfold liftres. now rewrite AllocProofs.reuseable_removed. }
  rewrite !(bind_ok _ _ _ _ _ _ _ (A2 _)).
  destruct (i16_min <? s')%Z; [|reflexivity].
  rewrite !bind_assoc, !get_arena_bind.
  change (lfree b2) with (lfree b). change (ffree b2) with (ffree b).
  destruct (lfree b) as [i|]; [reflexivity|].
  rewrite (HL eq_refl). cbn [is_some negb].
  rewrite !bind_assoc. rewrite !bind_dassert by reflexivity. reflexivity.
Qed.

Lemma free_node_inv : forall b x n b' r, nth_error (nodes b) (idx x) = Some n ->
  (0 <= stamp n <= i16_max)%Z -> free_node false x b = (b', r) ->
  (lfree b = None -> ffree b = None) -> lfree b' = None -> ffree b' = None.
Proof.
  intros b x n b' r Hn Hs H HL. unfold free_node in H.
  rewrite !(bind_ok _ _ _ _ _ _ _ (rd_ok _ _ _ Hn : rdi x b = _)) in H.
  set (G1 := fun j m => if Nat.eqb j (idx x) then set_data (NextFree None) m else m) in *.
  assert (U1 : updi x (set_data (NextFree None)) b = (amap G1 b, Ok tt)) by (unfold updi; eapply upd_ok; eauto).
  rewrite !(bind_ok _ _ _ _ _ _ _ U1) in H.
  set (s' := (if stamp n <? i16_max then - stamp n - 1 else i16_min)%Z) in *.
  assert (Hs' : (i16_min <= s' < 0)%Z).
  { unfold s', i16_min, i16_max in *. destruct (Z.ltb_spec (stamp n) 32767); lia. }
  assert (A1 : liftres (st_as_removed false (stamp n)) (amap G1 b) = (amap G1 b, Ok s')).
  { unfold liftres. now rewrite AllocProofs.as_removed_live. }
  rewrite !(bind_ok _ _ _ _ _ _ _ A1) in H.
  assert (Hn1 : nth_error (nodes (amap G1 b)) (idx x) = Some (set_data (NextFree None) n)).
  { rewrite nth_amap, Hn. unfold G1. cbn. now rewrite Nat.eqb_refl. }
  set (G2 := fun j m => if Nat.eqb j (idx x) then set_stamp s' m else m) in *.
  assert (U2 : updi x (set_stamp s') (amap G1 b) = (amap G2 (amap G1 b), Ok tt)) by (unfold updi; eapply upd_ok; eauto).
  rewrite !(bind_ok _ _ _ _ _ _ _ U2) in H.
  set (b2 := amap G2 (amap G1 b)) in *.
  assert (A2 : liftres (st_reuseable false s') b2 = (b2, Ok (i16_min <? s')%Z)).
  { unfold liftres. now rewrite AllocProofs.reuseable_removed. }
  rewrite !(bind_ok _ _ _ _ _ _ _ A2) in H.
  destruct (i16_min <? s')%Z.
  - rewrite !bind_assoc, !get_arena_bind in H. change (lfree b2) with (lfree b) in H.
    destruct (lfree b) as [i|] eqn:El.
    + unfold bind, upd in H. destruct (nth_error (nodes b2) i); cbn in H; inversion H; subst; cbn.
      * discriminate.
      * change (lfree b2) with (lfree b). rewrite El. discriminate.
    + cbv [bind dassert ret get_arena put_arena] in H. inversion H; subst. cbn. discriminate.
  - cbv [bind ret] in H. inversion H; subst. exact HL.
Qed.

Lemma free_all_dbg : forall D b, NoDup (map idx D) ->
  (forall y, In y D -> exists n, nth_error (nodes b) (idx y) = Some n /\ (0 <= stamp n <= i16_max)%Z) ->
  (lfree b = None -> ffree b = None) -> ReprRemove.lfree_ok b ->
  free_all true D b = free_all false D b.
Proof.
  induction D as [|y D IH]; intros b ND HD HL LO; [reflexivity|].
  cbn [free_all].
  destruct (HD y (or_introl eq_refl)) as (n & Hn & Hs).
  destruct (ReprRemove.free_node_exec b y n Hn LO) as (b1 & old & E1 & L1 & [Len1 S1]).
  pose proof (free_node_dbg b y n Hn Hs HL) as E0. rewrite E1 in E0.
  rewrite (bind_ok _ _ _ _ _ _ _ E0), (bind_ok _ _ _ _ _ _ _ E1).
  destruct (S1 _ _ Hn) as (n1 & Hn1 & _).
  set (G := fun j m => if Nat.eqb j (idx y) then clear_links m else m).
  assert (U : updi y clear_links b1 = (amap G b1, Ok tt)) by (unfold updi; eapply upd_ok; eauto).
  rewrite !(bind_ok _ _ _ _ _ _ _ U).
  inversion ND as [|? ? Hny ND']; subst.
  unfold bind. rewrite (IH (amap G b1)); auto.
  - intros z Hz. destruct (HD z (or_intror Hz)) as (m & Hm & Hsm).
    destruct (S1 _ _ Hm) as (m1 & Hm1 & _ & St).
    assert (NE : Nat.eqb (idx z) (idx y) = false).
    { apply Nat.eqb_neq. intros E. apply Hny. rewrite <- E. now apply in_map. }
    rewrite NE in St. exists (G (idx z) m1). split.
    + rewrite nth_amap, Hm1. reflexivity.
    + unfold G. rewrite NE. now rewrite St.
  - change (lfree (amap G b1)) with (lfree b1). change (ffree (amap G b1)) with (ffree b1).
    apply (free_node_inv b y n b1 (Ok old) Hn Hs E1 HL).
  - unfold ReprRemove.lfree_ok in *. change (lfree (amap G b1)) with (lfree b1). now rewrite length_amap.
Qed.


(* ====================================================================== *)
(* Part 3.  The triangle facts hold in every arena that represents a forest *)
(* ====================================================================== *)
Section ReprTri.
Variables (a : arena) (F : forest).
Hypothesis R : Repr a F.

Lemma repr_tri_adj : forall o A B, sibs F o (A ++ B) -> tri a o (last_error A) (hd_error B).
Proof.
  intros o A B HS. destruct (sibs_dseg a F R _ _ HS) as [D _].
  apply dseg_app in D. destruct D as [DA DB]. split.
  - destruct (last_error A) as [p|] eqn:E; auto.
    pose proof (last_error_In _ _ E) as Ip.
    split; [apply (dseg_inr _ _ _ _ _ _ DA Ip)|]. split; [apply (dseg_parent _ _ _ _ _ _ DA Ip)|].
    rewrite (dseg_last _ _ _ _ _ _ DA E). destruct (hd_error B); reflexivity.
  - destruct (hd_error B) as [x|] eqn:E; auto.
    pose proof (hd_error_In _ _ E) as Ix.
    split; [apply (dseg_inr _ _ _ _ _ _ DB Ix)|]. split; [apply (dseg_parent _ _ _ _ _ _ DB Ix)|].
    rewrite (dseg_hd _ _ _ _ _ _ DB E). destruct (last_error A); reflexivity.
Qed.

Lemma repr_tri_prev : forall x, live a x -> tri a (parent (nd a x)) (prev (nd a x)) (Some x).
Proof.
  intros x L. destruct (sibs_of a F R x L) as (S & HS & Hx).
  apply in_split in Hx. destruct Hx as (A & B & ->).
  destruct (sibs_mid a F R _ _ _ _ HS) as [-> _]. apply (repr_tri_adj _ A (x :: B) HS).
Qed.

Lemma repr_tri_next : forall x, live a x -> tri a (parent (nd a x)) (Some x) (next (nd a x)).
Proof.
  intros x L. destruct (sibs_of a F R x L) as (S & HS & Hx).
  apply in_split in Hx. destruct Hx as (A & B & ->).
  destruct (sibs_mid a F R _ _ _ _ HS) as [_ ->].
  assert (HS' : sibs F (parent (nd a x)) ((A ++ [x]) ++ B)) by (now rewrite <- app_assoc).
  pose proof (repr_tri_adj _ _ _ HS') as T. now rewrite last_error_snoc in T.
Qed.

Lemma repr_tri_first : forall x, live a x -> tri a (Some x) None (first (nd a x)).
Proof.
  intros x L. destruct (ends_of a F R x L) as [-> _].
  apply (repr_tri_adj (Some x) [] (kidsf F x)). reflexivity.
Qed.

Lemma repr_tri_last : forall x, live a x -> tri a (Some x) (last (nd a x)) None.
Proof.
  intros x L. destruct (ends_of a F R x L) as [_ ->].
  apply (repr_tri_adj (Some x) (kidsf F x) []). cbn. now rewrite app_nil_r.
Qed.

Lemma repr_ends_agree : forall o, (forall p, o = Some p -> live a p) -> ends_agree a o.
Proof.
  intros [p|] H; cbn; auto. destruct (ends_of a F R p (H p eq_refl)) as [-> ->].
  destruct (kidsf F p); reflexivity.
Qed.

Lemma repr_nrm : forall o, (forall p, o = Some p -> live a p) -> nrm a o.
Proof.
  intros [p|] H; cbn; auto. pose proof (H p eq_refl) as L. split; [now apply live_inr|].
  destruct (live_stamp _ _ L). lia.
Qed.

Lemma repr_nrm_link : forall x g, live a x -> nrm a (getf g (nd a x)).
Proof. intros x g L. apply repr_nrm. intros p E. eapply link_live; eauto. Qed.

Lemma tri_opar_pv : forall par pv nx, tri a par pv nx -> opar a pv par.
Proof. intros par [p|] nx [H _]; cbn; auto. tauto. Qed.
Lemma tri_opar_nx : forall par pv nx, tri a par pv nx -> opar a nx par.
Proof. intros par pv [x|] [_ H]; cbn; auto. tauto. Qed.
End ReprTri.

(* a triangle whose corners avoid slot x does not see x's parent field *)
Lemma tri_unparent : forall a2 x par pv nx,
  oat pv (idx x) = false -> oat nx (idx x) = false ->
  tri (amap (fset x Fparent None) a2) par pv nx -> tri a2 par pv nx.
Proof.
  intros a2 x par pv nx Ev En [H1 H2].
  assert (K : forall y, inr a2 y -> Nat.eqb (idx x) (idx y) = false ->
                nd (amap (fset x Fparent None) a2) y = nd a2 y).
  { intros y I E. rewrite nd_amap by auto. apply fset_other. now rewrite Nat.eqb_sym. }
  split.
  - destruct pv as [p|]; auto. destruct H1 as (I & P & N). apply inr_amap in I.
    cbn in Ev. rewrite K in P, N by auto. auto.
  - destruct nx as [y|]; auto. destruct H2 as (I & P & V). apply inr_amap in I.
    cbn in En. rewrite K in P, V by auto. auto.
Qed.

(* ====================================================================== *)
(* Part 4.  detach                                                          *)
(* ====================================================================== *)
Section DetachD.
Variables (a : arena) (F : forest) (x : nid) (o : option nid) (A B : list nid).
Hypothesis R : Repr a F.
Hypothesis Lx : live a x.
Hypothesis HS : sibs F o (A ++ x :: B).

Lemma dtd_exec : detach true x a = (amap (detachF a x) a, Ok tt).
Proof.
  pose proof (dt_repr a F x o A B R Lx HS) as R'.
  pose proof (dt_nodup a F x o A B R HS) as (NA & NB & _).
  assert (LO : links_only (detachF a x)) by apply links_only_detachF.
  apply detach_dbg.
  - now apply live_inr.
  - apply (repr_nrm_link a F R x Fparent Lx).
  - apply (repr_nrm_link a F R x Fprev Lx).
  - apply (repr_nrm_link a F R x Fnext Lx).
  - apply (repr_ends_agree a F R). intros p E. apply (link_live a F R x Fparent p Lx E).
  - eapply tri_opar_pv. apply (repr_tri_prev a F R x Lx).
  - eapply tri_opar_nx. apply (repr_tri_next a F R x Lx).
  - rewrite (dt_next a F x o A B R HS). rewrite (oat_live a _ x Lx (dt_live_nx a F x o A B R HS)).
    apply onid_eqb_false. intros E. apply hd_error_In in E. contradiction.
  - rewrite (dt_prev a F x o A B R HS). rewrite (oat_live a _ x Lx (dt_live_pv a F x o A B R HS)).
    apply onid_eqb_false. intros E. apply last_error_In in E. contradiction.
  - intros q Eq.
    assert (Lq : live a q) by (apply (link_live a F R x Fparent q Lx Eq)).
    assert (Lq' : live (amap (detachF a x) a) q) by (now apply live_amap).
    assert (Lx' : live (amap (detachF a x) a) x) by (now apply live_amap).
    assert (EA : amap (detachF a x) a = amap (fset x Fparent None) (amap (dfsF a x x) a)).
    { unfold detachF. now rewrite amap_amap. }
    assert (XT : In [x] (tops (f_detach x F))) by (cbn; now left).
    assert (NK : forall z, In z (kidsf (f_detach x F) q) -> z <> x).
    { intros z Hz ->. eapply (kid_not_top _ _ R' q [x] x); eauto. now left. }
    assert (OA : forall u, (forall z, u = Some z -> In z (kidsf (f_detach x F) q)) -> oat u (idx x) = false).
    { intros u Hu. rewrite (oat_live (amap (detachF a x) a) u x Lx').
      - apply onid_eqb_false. intros E. apply (NK x); auto.
      - intros v Ev. eapply kid_live; eauto. }
    destruct (ends_of _ _ R' q Lq') as [E1 E2].
    split.
    + apply (tri_unparent _ x).
      * reflexivity.
      * rewrite <- (first_nd_keep (fset x Fparent None)) by fset_keep_tac. rewrite <- EA.
        apply OA. intros z Ez. rewrite E1 in Ez. now apply hd_error_In.
      * rewrite <- (first_nd_keep (fset x Fparent None) (amap (dfsF a x x) a)) by fset_keep_tac.
        rewrite <- EA. apply (repr_tri_first _ _ R' q Lq').
    + apply (tri_unparent _ x).
      * rewrite <- (last_nd_keep (fset x Fparent None)) by fset_keep_tac. rewrite <- EA.
        apply OA. intros z Ez. rewrite E2 in Ez. now apply last_error_In.
      * reflexivity.
      * rewrite <- (last_nd_keep (fset x Fparent None) (amap (dfsF a x x) a)) by fset_keep_tac.
        rewrite <- EA. apply (repr_tri_last _ _ R' q Lq').
  - unfold node_is_detached. destruct (dt_fields a F x o A B R Lx HS x Lx) as (-> & -> & -> & _).
    rewrite nid_eqb_refl. rewrite !(proj2 (onid_eqb_false _ _)).
    + reflexivity.
    + intros E. apply last_error_In in E. contradiction.
    + intros E. apply hd_error_In in E. contradiction.
Qed.
End DetachD.

Theorem detach_agree : forall a F x, Repr a F -> live a x -> detach true x a = detach false x a.
Proof.
  intros a F x R Lx. destruct (sibs_of a F R x Lx) as (L & HS & Hx).
  apply in_split in Hx. destruct Hx as (A & B & ->).
  rewrite (dtd_exec a F x _ A B R Lx HS). symmetry. apply (dt_exec a F x _ A B R Lx HS).
Qed.


(* ====================================================================== *)
(* Part 5.  Inserting a lone root into a gap (inserts, append_value)       *)
(* ====================================================================== *)
Section GapD.
Variables (a : arena) (F : forest) (c : nid) (rest : list (list nid)) (par : option nid) (A B : list nid).
Variable F2 : forest.
Hypothesis R : Repr a F.
Hypothesis HT : tops F = [c] :: rest.
Hypothesis Hrest : forall ch, In ch rest -> ~ In c ch.
Hypothesis HG : match par with
                | Some p => kidsf F p = A ++ B /\ ~ ancF F p c /\ live a p
                | None => In (A ++ B) rest
                end.
Hypothesis HK : forall q, kidsf F2 q = if onid_eqb par (Some q) then A ++ c :: B else kidsf F q.
Hypothesis HT2 : forall ch, In ch (tops F2) <->
  (par = None /\ ch = A ++ c :: B) \/ (In ch rest /\ (par = None -> ch <> A ++ B)).

Let pv := last_error A.
Let nx := hd_error B.
Let a2 := amap (transplantF a [c] c c par pv nx) a.

Lemma gpd_repr2 : Repr a2 F2.
Proof. eapply (gp_repr a F c rest par A B F2); eauto. Qed.

Lemma gpd_sibs : sibs F par (A ++ B).
Proof. eapply (gp_sibs a F c rest par A B F2); eauto. Qed.

Lemma gpd_sibs2 : sibs F2 par (A ++ c :: B).
Proof.
  destruct par as [p|] eqn:Ep; cbn.
  - rewrite HK. cbn. now rewrite nid_eqb_refl.
  - apply HT2. left. auto.
Qed.

Lemma gpd_live_par : forall p, par = Some p -> live a p.
Proof. eapply (gp_live_par a F c rest par A B); eauto. Qed.
Lemma gpd_live_pv : forall v, pv = Some v -> live a v.
Proof. eapply (gp_live_pv a F c rest par A B F2); eauto. Qed.
Lemma gpd_live_nx : forall v, nx = Some v -> live a v.
Proof. eapply (gp_live_nx a F c rest par A B F2); eauto. Qed.
Lemma gpd_c_live : live a c.
Proof. eapply (gp_c_live a F c rest); eauto. Qed.

Lemma gpd_tri : tri a par pv nx.
Proof. apply (repr_tri_adj a F R par A B gpd_sibs). Qed.

Lemma gpd_post : tp_post a2 c c par pv nx.
Proof.
  pose proof gpd_repr2 as R2. pose proof gpd_sibs2 as S2. pose proof gpd_live_par as LP.
  split; [|split].
  - apply (repr_tri_adj a2 F2 R2 par A (c :: B) S2).
  - assert (S2' : sibs F2 par ((A ++ [c]) ++ B)) by (now rewrite <- app_assoc).
    pose proof (repr_tri_adj a2 F2 R2 par _ _ S2') as T. now rewrite last_error_snoc in T.
  - destruct par as [p|] eqn:Ep; auto.
    assert (Lp : live a2 p).
    { unfold a2. apply live_amap; [apply links_only_transplantF|]. now apply LP. }
    destruct (ends_of a2 F2 R2 p Lp) as [E1 E2]. cbn in S2. rewrite S2 in E1, E2.
    split; [|split].
    + rewrite E1, E2. rewrite last_error_app. destruct A; reflexivity.
    + apply (repr_tri_first a2 F2 R2 p Lp).
    + apply (repr_tri_last a2 F2 R2 p Lp).
Qed.

Lemma gpd_transplant :
  transplant true c c par pv nx a = (a2, Ok COk).
Proof.
  destruct (gp_c_fields a F c rest R HT) as (P & V & N).
  apply (transplant_dbg a [c]).
  - cbn [next_path]. auto.
  - constructor; [apply live_inr, gpd_c_live | constructor].
  - unfold chain_fuel. cbn. lia.
  - intros s [<-|[]]. apply onid_eqb_false. intros E. symmetry in E. revert E.
    eapply (gp_par_neq a F c rest par A B); eauto.
  - now left.
  - apply repr_nrm. apply gpd_live_par.
  - apply repr_nrm. apply gpd_live_pv.
  - apply repr_nrm. apply gpd_live_nx.
  - apply repr_nrm. intros p [= <-]. apply gpd_c_live.
  - apply repr_nrm. intros p [= <-]. apply gpd_c_live.
  - eapply tri_opar_pv. apply gpd_tri.
  - eapply tri_opar_nx. apply gpd_tri.
  - apply gpd_tri.
  - apply (repr_ends_agree a F R). apply gpd_live_par.
  - apply gpd_post.
Qed.

Lemma gpd_exec : insert_with_neighbors true c par pv nx a = (a2, Ok COk).
Proof.
  destruct (gp_c_fields a F c rest R HT) as (P & V & N).
  apply iwn_detached_dbg; auto.
  - apply live_inr, gpd_c_live.
  - apply onid_eqb_false. eapply (gp_pv_neq a F c rest par A B F2); eauto.
  - apply onid_eqb_false. eapply (gp_nx_neq a F c rest par A B F2); eauto.
  - apply onid_eqb_false. eapply (gp_par_neq a F c rest par A B); eauto.
  - apply repr_nrm. apply gpd_live_par.
  - apply repr_nrm. apply gpd_live_pv.
  - apply repr_nrm. apply gpd_live_nx.
  - apply repr_nrm. intros p [= <-]. apply gpd_c_live.
  - eapply tri_opar_pv. apply gpd_tri.
  - eapply tri_opar_nx. apply gpd_tri.
  - apply gpd_tri.
  - apply (repr_ends_agree a F R). apply gpd_live_par.
  - apply gpd_post.
Qed.
End GapD.

(* ---------- the four checked inserts and their unchecked forms ---------- *)
Definition ins_tail_d (dbg : bool) (k : inskind) (x c : nid) : M nres :=
  detach dbg c ;;;
  n <- rdi x ;;
  r <- insert_with_neighbors dbg c (fst (fst (gap_of k x n))) (snd (fst (gap_of k x n))) (snd (gap_of k x n)) ;;
  expect r ;;; ret NOk.

Lemma checked_insert_eq_d : forall dbg k x c,
  checked_insert dbg k x c =
  if nid_eqb c x then ret (NErr (ins_self k)) else
  rm <- either_removed x c ;;
  if rm : bool then ret (NErr Removed) else
  anc <- ins_anc k x c ;;
  if anc : bool then ret (NErr (ins_ancestor k)) else ins_tail_d dbg k x c.
Proof. intros dbg [] x c; reflexivity. Qed.

Lemma ins_tail_agree : forall a F k x c,
  Repr a F -> live a x -> live a c -> x <> c -> ~ would_cycle F k x c ->
  ins_tail_d true k x c a = ins_tail_d false k x c a.
Proof.
  intros a F k x c R Lx Lc NE NC.
  destruct (sibs_of a F R c Lc) as (L0 & HS0 & Hc0).
  apply in_split in Hc0. destruct Hc0 as (A0 & B0 & ->).
  pose proof (dtd_exec a F c _ A0 B0 R Lc HS0) as E1t.
  pose proof (dt_exec a F c _ A0 B0 R Lc HS0) as E1.
  pose proof (dt_repr a F c _ A0 B0 R Lc HS0) as R1.
  set (a1 := amap (detachF a c) a) in *.
  assert (L1 : live a1 x) by (apply live_amap; [apply links_only_detachF | exact Lx]).
  assert (NC1 : ~ would_cycle (f_detach c F) k x c) by (intros H; apply NC; eapply would_cycle_detach; eauto).
  destruct (gap_for_kind a1 F k x c R1 L1 NE NC1) as (par & A & B & EG & HG & HK & HT2).
  set (rest := tl (tops (f_detach c F))) in *.
  assert (Hrest : forall ch, In ch rest -> ~ In c ch).
  { unfold rest. cbn [f_detach tops tl]. intros ch H. apply filter_In in H. destruct H as [H _].
    apply in_map_iff in H. destruct H as (c0 & <- & _). intros I. apply In_remove_id in I. tauto. }
  assert (HT : tops (f_detach c F) = [c] :: rest) by reflexivity.
  unfold ins_tail_d.
  rewrite (bind_ok _ _ _ _ _ _ _ E1t), (bind_ok _ _ _ _ _ _ _ E1).
  rewrite !bind_rdi by (now apply live_inr).
  rewrite EG. cbn [fst snd].
  rewrite (bind_ok _ _ _ _ _ _ _ (gpd_exec a1 (f_detach c F) c rest par A B (f_insert k x c F) R1 HT Hrest HG HK HT2)).
  rewrite (bind_ok _ _ _ _ _ _ _ (gp_exec a1 (f_detach c F) c rest par A B (f_insert k x c F) R1 HT Hrest HG HK HT2)).
  reflexivity.
Qed.

Theorem checked_insert_agree : forall a F k x c, Repr a F -> usable a x -> usable a c ->
  checked_insert true k x c a = checked_insert false k x c a.
Proof.
  intros a F k x c R Ux Uc. rewrite !checked_insert_eq_d.
  destruct (nid_eq_dec x c) as [E|NE].
  { subst c. now rewrite nid_eqb_refl. }
  rewrite nid_eqb_neq by congruence.
  rewrite !(bind_ok _ _ _ _ _ _ _ (either_removed_ok a x c (usable_inr _ _ Ux) (usable_inr _ _ Uc))).
  destruct Ux as [Lx|Rx].
  2:{ rewrite (removed_ltb _ _ Rx). reflexivity. }
  rewrite (live_ltb _ _ Lx). cbn [orb].
  destruct Uc as [Lc|Rc].
  2:{ rewrite (removed_ltb _ _ Rc). reflexivity. }
  rewrite (live_ltb _ _ Lc).
  destruct (ins_anc_ok a F k x c R Lx) as (b & Eb & Hb).
  rewrite !(bind_ok _ _ _ _ _ _ _ Eb). destruct b; [reflexivity|].
  apply (ins_tail_agree a F); auto. intros W. apply Hb in W. discriminate.
Qed.

Lemma unchecked_insert_eq_d : forall dbg k x c,
  unchecked_insert dbg k x c = (r <- checked_insert dbg k x c ;; expect_n r).
Proof. intros dbg [] x c; reflexivity. Qed.

Theorem unchecked_insert_agree : forall a F k x c, Repr a F -> usable a x -> usable a c ->
  unchecked_insert true k x c a = unchecked_insert false k x c a.
Proof.
  intros a F k x c R Ux Uc. rewrite !unchecked_insert_eq_d. unfold bind.
  now rewrite (checked_insert_agree a F k x c R Ux Uc).
Qed.

(* ---------- append_value ---------- *)
Theorem append_value_agree : forall w F p v, Repr (ar w) F -> AllocOK w -> usable (ar w) p ->
  append_value true p v (ar w) = append_value false p v (ar w).
Proof.
  intros w F p v R OK [Lp|SR].
  2:{ unfold append_value. rewrite !bind_rdi by (now apply slot_removed_inr).
      unfold node_is_removed, st_is_removed. rewrite (removed_ltb _ _ SR). reflexivity. }
  destruct (Assembly.new_full w F v R OK) as (a1 & x & E1 & R1 & NL & NI & LX & OK1).
  pose proof (new_node_dbg w v OK) as E1t. rewrite E1 in E1t.
  assert (Lp1 : live a1 p).
  { apply (r_live _ _ R1). apply Assembly.new_member. right. now apply (r_live _ _ R). }
  assert (NE : p <> x) by (intros ->; contradiction).
  assert (NA : ~ ancF (f_new x F) p x).
  { intros H. apply Assembly.anc_owner in H. destruct H as [->|H]; [now apply NE|].
    cbn [f_new kidsf] in H. apply NL. now apply (r_owner _ _ R). }
  assert (Nx : next (nd a1 x) = None).
  { assert (H : sibs (f_new x F) None ([] ++ x :: [])) by (cbn; now left).
    destruct (sibs_mid a1 _ R1 _ _ _ _ H) as [_ N]. exact N. }
  assert (El : last (nd a1 p) = last_error (kidsf F p)).
  { destruct (ends_of a1 _ R1 p Lp1) as [_ H]. exact H. }
  (* the gap: x goes after the last child of p *)
  assert (HT : tops (f_new x F) = [x] :: tops F) by reflexivity.
  assert (Hrest : forall ch, In ch (tops F) -> ~ In x ch).
  { intros ch H I. apply NL. eapply top_live; eauto. }
  assert (HG : kidsf (f_new x F) p = kidsf F p ++ [] /\ ~ ancF (f_new x F) p x /\ live a1 p).
  { cbn [f_new kidsf]. split; [now rewrite app_nil_r | auto]. }
  assert (HK : forall q, kidsf (f_append_value p x F) q =
                 if onid_eqb (Some p) (Some q) then kidsf F p ++ x :: [] else kidsf (f_new x F) q).
  { intros q. cbn [f_append_value kidsf onid_eqb f_new]. rewrite (nid_eqb_sym p q).
    destruct (nid_eqb q p) eqn:E; auto. apply nid_eqb_eq in E. now subst. }
  assert (HT2 : forall ch, In ch (tops (f_append_value p x F)) <->
            (Some p = None /\ ch = kidsf F p ++ x :: []) \/ (In ch (tops F) /\ (Some p = None -> ch <> kidsf F p ++ []))).
  { intros ch. cbn [f_append_value tops]. split.
    - intros H. right. split; auto. discriminate.
    - intros [[E _]|[H _]]; [discriminate | auto]. }
  pose proof (gpd_transplant a1 (f_new x F) x (tops F) (Some p) (kidsf F p) [] (f_append_value p x F)
                R1 HT Hrest HG HK HT2) as TP.
  pose proof (gpd_post a1 (f_new x F) x (tops F) (Some p) (kidsf F p) [] (f_append_value p x F)
                R1 HT Hrest HG HK HT2) as (T1 & _).
  cbn [hd_error] in TP, T1. rewrite <- El in TP, T1.
  assert (ILt : insert_last_unchecked true x p a1 = (amap (iluF a1 x p) a1, Ok tt)).
  { unfold insert_last_unchecked, iluF. rewrite bind_rdi by (now apply live_inr).
    rewrite (bind_ok _ _ _ _ _ _ _ TP). cbn [expect]. rewrite bind_ret. now apply dtriangle_ok. }
  assert (ILf : insert_last_unchecked false x p a1 = (amap (iluF a1 x p) a1, Ok tt)).
  { apply ilu_ok; auto.
    - now apply live_inr.
    - now apply live_inr.
    - apply (link_inr a1 _ R1 p Flast Lp1).
    - apply nid_eqb_neq. congruence. }
  unfold append_value. rewrite !bind_rdi by (now apply live_inr).
  unfold node_is_removed, st_is_removed. rewrite (live_ltb _ _ Lp). cbv iota.
  rewrite !bind_ret.
  rewrite (bind_ok _ _ _ _ _ _ _ E1t), (bind_ok _ _ _ _ _ _ _ E1).
  rewrite (bind_ok _ _ _ _ _ _ _ ILt), (bind_ok _ _ _ _ _ _ _ ILf).
  reflexivity.
Qed.


(* ====================================================================== *)
(* Part 6.  The intermediate arenas of remove / remove_subtree              *)
(* ====================================================================== *)
(* [ReprRemove.remove_refines] and [ReprRemove.remove_subtree_refines] hide the arenas between
   the stages of the two operations; the statements below replay their proofs and keep them. *)
Module Stages.
Import TraverseProofs ReprTree ReprRemove.

Theorem remove_stages : forall a F x, Repr a F -> live a x ->
  exists n A B a1,
    node_at a x n /\ prev n = last_error A /\ next n = hd_error B /\
    first n = hd_error (kidsf F x) /\ last n = last_error (kidsf F x) /\
    detach false x a = (a1, Ok tt) /\ Repr a1 (f_detach x F) /\ same_shape a a1 /\
    match kidsf F x with
    | [] => True
    | f :: Ks' =>
        let Ks := f :: Ks' in let l := List.last Ks' f in
        kidsf (f_detach x F) x = Ks /\ ~ In x (A ++ B) /\
        match parent n with
        | Some p => kidsf (f_detach x F) p = A ++ B /\ live a1 p /\ ~ ancF (f_detach x F) p x
        | None => A ++ B = [] \/ In (A ++ B) (tops (f_detach x F))
        end /\
        exists a3 G',
          (detach_from_siblings false f l ;;;
           (r <- transplant false f l (parent n) (last_error A) (hd_error B) ;; expect r))%mon a1 = (a3, Ok tt) /\
          same_shape a1 a3 /\ Repr a3 G' /\ In [x] (tops G') /\
          match parent n with
          | Some p => kidsf G' p = A ++ Ks ++ B
          | None => In (A ++ Ks ++ B) (tops G')
          end
    end.
Proof.
  intros a F x HR Lx.
  destruct (Lx) as (n & Hn & Sn & Gn).
  destruct (position a F x n HR Lx Hn) as (A & B & HA & HB & Hnd & Pv & Px & Ppos).
  destruct (r_ends _ _ HR x n Lx Hn) as [Pf Pl].
  destruct (detach_refines_own a F x HR Lx) as (a1 & E1 & R1 & Sh1).
  assert (HxAB : ~ In x (A ++ B)) by (intros H; apply in_app_or in H; tauto).
  assert (Hxk : ~ In x (kidsf F x)).
  { intros H. eapply (anc_kid_irrefl a F x x); eauto. constructor. }
  exists n, A, B, a1. repeat (split; [assumption|]).
  destruct (kidsf F x) as [|f Ks'] eqn:EK; [exact I|].
  cbv zeta.
  set (Ks := f :: Ks'). set (l := List.last Ks' f).
  assert (HKx : kidsf (f_detach x F) x = Ks).
  { cbn [kidsf f_detach]. rewrite EK. apply remove_id_notin. exact Hxk. }
  assert (Hpos : match parent n with
                 | Some p => kidsf (f_detach x F) p = A ++ B /\ live a1 p /\ ~ ancF (f_detach x F) p x
                 | None => A ++ B = [] \/ In (A ++ B) (tops (f_detach x F))
                 end).
  { destruct (parent n) as [p|].
    - split; [cbn [kidsf f_detach]; rewrite Ppos; now apply remove_id_split|]. split.
      + apply (same_shape_live a); auto. apply (r_owner _ _ HR). rewrite Ppos. destruct A; discriminate.
      + intros Ha. apply anc_detach_sub in Ha. eapply (anc_kid_irrefl a F x p); eauto.
        rewrite Ppos. apply in_or_app. right. now left.
    - destruct (A ++ B) as [|z r] eqn:EAB; [now left|]. right. rewrite <- EAB.
      cbn [tops f_detach]. right. apply in_filter_nonempty. split; [|rewrite EAB; discriminate].
      apply in_map_iff. exists (A ++ x :: B). split; auto. now apply remove_id_split. }
  split; [exact HKx|]. split; [exact HxAB|]. split; [exact Hpos|].
  destruct (splice_exec a1 (f_detach x F) x f Ks' (parent n) A B R1 (or_introl eq_refl) HKx HxAB Hpos)
    as (a3 & E3 & Sh3 & Hlive3 & Hdead3).
  fold l in E3.
  set (G' := mkForest (kidsf (f_remove x F)) ([x] :: tops (f_remove x F))).
  assert (R3 : Repr a3 G').
  { apply (splice_repr a1 (f_detach x F) x f Ks' (parent n) A B R1 (or_introl eq_refl) HKx HxAB Hpos a3 G');
      auto.
    - (* kidsf *)
      intros q. cbn [kidsf G' f_remove f_detach]. rewrite EK. fold Ks.
      destruct (nid_eqb q x) eqn:Eqx; auto.
      destruct (onid_eqb (Some q) (parent n)) eqn:Eqo.
      + apply onid_eqb_eq in Eqo. rewrite <- Eqo in Ppos. rewrite Ppos. now apply subst_id_split.
      + assert (Hnx : ~ In x (kidsf F q)).
        { intros H. destruct (kid_parent a F HR x q H) as (m & Hm & Pm).
          rewrite (node_at_fun _ _ _ _ Hn Hm) in Eqo. rewrite Pm in Eqo.
          rewrite (proj2 (onid_eqb_eq _ _) eq_refl) in Eqo. discriminate. }
        rewrite subst_id_notin by auto. now rewrite remove_id_notin.
    - (* tops *)
      assert (Fa : parent n = None -> In (A ++ x :: B) (tops F)).
      { intros E. now rewrite E in Ppos. }
      assert (Fb : forall c0, In c0 (tops F) -> In x c0 -> parent n = None /\ c0 = A ++ x :: B).
      { intros c0 Hc0 Hx0. destruct (top_parent a F HR x c0 Hc0 Hx0) as (m & Hm & Pm).
        rewrite <- (node_at_fun _ _ _ _ Hn Hm) in Pm. split; auto.
        destruct (r_tops _ _ HR c0 Hc0) as (_ & D0 & _).
        destruct (r_tops _ _ HR _ (Fa Pm)) as (_ & D1 & _).
        eapply dseg_unique; eauto. apply in_or_app. right. now left. }
      intros c. cbn [tops G' f_remove f_detach]. rewrite EK. fold Ks. split.
      + intros [Hc|Hc]; [left; auto|].
        apply in_filter_nonempty in Hc. destruct Hc as [Hc Hne].
        apply in_map_iff in Hc. destruct Hc as (c0 & Ec & Hc0).
        destruct (in_dec nid_dec x c0) as [Hx0|Hx0].
        * destruct (Fb c0 Hc0 Hx0) as [Eo ->]. right. left. split; auto.
          rewrite <- Ec. now apply subst_id_split.
        * rewrite subst_id_notin in Ec by auto. subst c0. right. right. split; [|split].
          -- right. apply in_filter_nonempty. split; auto. apply in_map_iff. exists c. split; auto.
             now apply remove_id_notin.
          -- intros ->. apply Hx0. now left.
          -- intros Eo Ecab. destruct c as [|z r]; [congruence|].
             destruct (r_tops _ _ HR _ Hc0) as (_ & D0 & _).
             destruct (r_tops _ _ HR _ (Fa Eo)) as (_ & D1 & _).
             assert (z :: r = A ++ x :: B).
             { apply (dseg_unique a None None _ _ z D0 D1); [now left|].
               assert (Hz : In z (A ++ B)) by (rewrite <- Ecab; now left).
               apply in_app_or in Hz. apply in_or_app. destruct Hz; [now left | right; now right]. }
             apply Hx0. rewrite H. apply in_or_app. right. now left.
      + intros [->|[(Eo & ->)|(Hc & Hne & Hab)]]; [now left| |].
        * right. apply in_filter_nonempty. split; [|unfold Ks; destruct A; discriminate].
          apply in_map_iff. exists (A ++ x :: B). split; [now apply subst_id_split | auto].
        * destruct Hc as [Hc|Hc]; [congruence|].
          apply in_filter_nonempty in Hc. destruct Hc as [Hc Hne2].
          apply in_map_iff in Hc. destruct Hc as (c0 & Ec & Hc0).
          destruct (in_dec nid_dec x c0) as [Hx0|Hx0].
          -- destruct (Fb c0 Hc0 Hx0) as [Eo ->]. exfalso. apply (Hab Eo).
             rewrite <- Ec. now apply remove_id_split.
          -- rewrite remove_id_notin in Ec by auto. subst c0. right.
             apply in_filter_nonempty. split; auto. apply in_map_iff. exists c. split; auto.
             now apply subst_id_notin. }
  exists a3, G'. split; [exact E3|]. split; [exact Sh3|]. split; [exact R3|]. split; [now left|].
  destruct (parent n) as [p|] eqn:Epar.
  - cbn [kidsf G' f_remove]. rewrite EK. fold Ks.
    destruct Hpos as (_ & _ & Hna).
    rewrite nid_eqb_neq by (intros ->; apply Hna; constructor).
    rewrite Ppos. now apply subst_id_split.
  - cbn [tops G' f_remove]. rewrite EK. fold Ks. right.
    apply in_filter_nonempty. split; [|unfold Ks; destruct A; discriminate].
    apply in_map_iff. exists (A ++ x :: B). split; [now apply subst_id_split | auto].
Qed.

Theorem remove_subtree_stages : forall a F x, Repr a F -> live a x -> lfree_ok a ->
  let D := preorderF (length (nodes a)) F x in
  exists a1, detach false x a = (a1, Ok tt) /\ same_shape a a1 /\ descendants x a1 = Ok D /\
             NoDup (map idx D) /\ (forall y, In y D -> live a1 y).
Proof.
  intros a F x HR Lx Hl D.
  destruct (detach_refines_own a F x HR Lx) as (a1 & E1 & R1 & Sh).
  assert (Len : length (nodes a1) = length (nodes a)) by apply Sh.
  assert (Lx1 : live a1 x) by (eapply live_detached; eauto).
  assert (ED : preorderF (length (nodes a1)) (f_detach x F) x = D).
  { rewrite Len. apply (preorder_detach a F x HR Lx). constructor. }
  destruct (repr_tree a1 _ x R1 Lx1) as ((_ & Hnd) & _ & Hids & Hall).
  rewrite Hids, ED in Hnd. rewrite Hids, ED in Hall.
  exists a1. split; auto. split; auto. split; [|split; auto].
  - rewrite (repr_descendants a1 _ x R1 Lx1), ED. reflexivity.
  - intros y Hy. now apply Hall.
Qed.
End Stages.

(* ====================================================================== *)
(* Part 7.  Splicing the children of a detached node into its old place    *)
(* ====================================================================== *)
Lemma nd_idx_eq : forall a y z, idx y = idx z -> nd a y = nd a z.
Proof. intros a y z E. unfold nd. now rewrite E. Qed.

Section SpliceD.
Variables (a1 : arena) (G : forest) (x f : nid) (Ks' : list nid) (o : option nid) (A B : list nid).
Variables (a3 : arena) (G3 : forest).
Let Ks := f :: Ks'.
Let l := List.last Ks' f.
Let pv := last_error A.
Let nx := hd_error B.

Hypothesis HR : Repr a1 G.
Hypothesis HxT : In [x] (tops G).
Hypothesis HKx : kidsf G x = Ks.
Hypothesis Hpos : match o with
                  | Some p => kidsf G p = A ++ B /\ live a1 p /\ ~ ancF G p x
                  | None => A ++ B = [] \/ In (A ++ B) (tops G)
                  end.
Hypothesis E3 : (detach_from_siblings false f l ;;; (r <- transplant false f l o pv nx ;; expect r)) a1 = (a3, Ok tt).
Hypothesis R3 : Repr a3 G3.
Hypothesis S3 : sibs G3 o (A ++ Ks ++ B).

Let Lx : live a1 x.
Proof. eapply top_live; eauto. now left. Qed.
Let LKs : forall s, In s Ks -> live a1 s.
Proof. intros s H. rewrite <- HKx in H. eapply kid_live; eauto. Qed.
Let dKs : dseg a1 (Some x) None Ks None /\ NoDup Ks.
Proof. rewrite <- HKx. apply (r_kids _ _ HR). Qed.
Let fKs : In f Ks. Proof. now left. Qed.
Let lKs : In l Ks. Proof. apply last_error_In. reflexivity. Qed.
Let Ef1 : parent (nd a1 f) = Some x.
Proof. apply (kid_parent a1 G HR). now rewrite HKx. Qed.
Let Ef2 : prev (nd a1 f) = None.
Proof. destruct dKs as [D _]. eapply dseg_hd; [exact D | reflexivity]. Qed.
Let Ef3 : next (nd a1 l) = None.
Proof. destruct dKs as [D _]. eapply dseg_last; [exact D | reflexivity]. Qed.

Let LAB : forall y, In y (A ++ B) -> live a1 y.
Proof.
  intros y H. destruct o as [p|].
  - destruct Hpos as (E & _). rewrite <- E in H. eapply kid_live; eauto.
  - destruct Hpos as [E|Hc]; [rewrite E in H; contradiction|]. eapply top_live; eauto.
Qed.
Let Lo : forall z, o = Some z -> live a1 z.
Proof. intros z E. rewrite E in Hpos. apply Hpos. Qed.
Let Lpv : forall z, pv = Some z -> live a1 z.
Proof. intros z E. apply last_error_In in E. apply LAB. apply in_or_app. now left. Qed.
Let Lnx : forall z, nx = Some z -> live a1 z.
Proof. intros z E. apply hd_error_In in E. apply LAB. apply in_or_app. now right. Qed.

Let T1 : tri a1 o pv nx.
Proof.
  assert (C : A ++ B = [] \/ sibs G o (A ++ B)).
  { destruct o as [p|]; cbn; [right; apply Hpos | exact Hpos]. }
  destruct C as [E|HS].
  - apply app_eq_nil in E. destruct E as [EA EB]. unfold pv, nx. rewrite EA, EB. split; exact I.
  - apply (repr_tri_adj a1 G HR o A B HS).
Qed.

Let o_ne_x : forall p, o = Some p -> p <> x.
Proof. intros p E ->. rewrite E in Hpos. destruct Hpos as (_ & _ & H). apply H. constructor. Qed.

Let a2 := amap (dfsF a1 f l) a1.

Let a2_field : forall g y, inr a1 y -> getf g (nd a2 y) =
  if Nat.eqb (idx y) (idx x) && (fld_eqb Flast g || fld_eqb Ffirst g) then None else getf g (nd a1 y).
Proof.
  intros g y I. unfold a2. rewrite getf_nd_amap by auto. rewrite getf_dfsF. cbv zeta.
  rewrite Ef1, Ef2, Ef3. cbn [oat andb].
  assert (Kf : Nat.eqb (idx y) (idx f) = true -> prev (nd a1 y) = None).
  { intros E. apply Nat.eqb_eq in E. rewrite (nd_idx_eq a1 y f E). exact Ef2. }
  assert (Kl : Nat.eqb (idx y) (idx l) = true -> next (nd a1 y) = None).
  { intros E. apply Nat.eqb_eq in E. rewrite (nd_idx_eq a1 y l E). exact Ef3. }
  destruct (Nat.eqb (idx y) (idx x)), g; cbn [fld_eqb orb getf andb]; rewrite ?andb_false_r, ?andb_true_r;
    try reflexivity;
    try (destruct (Nat.eqb (idx y) (idx f)); [now rewrite Kf | reflexivity]);
    try (destruct (Nat.eqb (idx y) (idx l)); [now rewrite Kl | reflexivity]).
Qed.

Let a2_links : forall y, inr a1 y -> parent (nd a2 y) = parent (nd a1 y) /\ prev (nd a2 y) = prev (nd a1 y)
                                      /\ next (nd a2 y) = next (nd a1 y).
Proof.
  intros y I. pose proof (a2_field Fparent y I) as H1. pose proof (a2_field Fprev y I) as H2.
  pose proof (a2_field Fnext y I) as H3. cbn [fld_eqb orb getf] in *. rewrite andb_false_r in *. auto.
Qed.

Lemma spd_dfs : detach_from_siblings true f l a1 = (a2, Ok tt).
Proof.
  apply dfs_dbg; rewrite ?Ef1, ?Ef2, ?Ef3; try exact I; try reflexivity.
  - apply live_inr; auto.
  - apply live_inr; auto.
  - apply repr_nrm. intros p [= <-]. exact Lx.
  - apply (repr_ends_agree a1 G HR). intros p [= <-]. exact Lx.
  - intros q [= <-]. fold a2.
    pose proof (a2_field Ffirst x (live_inr _ _ Lx)) as H1.
    pose proof (a2_field Flast x (live_inr _ _ Lx)) as H2.
    cbn [fld_eqb orb getf] in H1, H2. rewrite Nat.eqb_refl in H1, H2. cbn [andb] in H1, H2.
    rewrite H1, H2. split; split; exact I.
Qed.

Let dfs_f : detach_from_siblings false f l a1 = (a2, Ok tt).
Proof.
  apply dfs_ok; rewrite ?Ef1, ?Ef2, ?Ef3; cbn [oinr]; auto; apply live_inr; auto.
Qed.

Let np2 : next_path a2 (Some f) Ks.
Proof.
  apply (ReprRemove.next_path_transfer a1).
  - intros s Hs. apply a2_links. apply live_inr; auto.
  - destruct dKs as [D _]. exact (ReprRemove.dseg_next_path _ _ _ _ D).
Qed.
Let inr2 : Forall (inr a2) Ks.
Proof. apply Forall_forall. intros s Hs. unfold a2. apply inr_amap. apply live_inr; auto. Qed.
Let len2 : length Ks <= chain_fuel a2.
Proof.
  unfold chain_fuel, a2. rewrite length_amap.
  pose proof (live_list_bound a1 Ks (proj2 dKs) LKs). lia.
Qed.
Let Ks_ne_o : forall s, In s Ks -> onid_eqb (Some s) o = false.
Proof.
  intros s Hs. apply onid_eqb_false. intros E. symmetry in E. rewrite E in Hpos.
  destruct Hpos as (_ & _ & Hna). apply Hna. eapply anc_step; [|constructor]. now rewrite HKx.
Qed.
Let oinr_live : forall u, (forall z, u = Some z -> live a1 z) -> oinr a2 u.
Proof. intros [z|] H; cbn; auto. unfold a2. apply inr_amap. apply live_inr; auto. Qed.

Let tp_f : transplant false f l o pv nx a2 = (amap (transplantF a2 Ks f l o pv nx) a2, Ok COk).
Proof.
  apply transplant_ok; auto.
  unfold a2. apply inr_amap. apply live_inr; auto.
Qed.

Let a3_eq : a3 = amap (transplantF a2 Ks f l o pv nx) a2.
Proof.
  pose proof E3 as H. rewrite (bind_ok _ _ _ _ _ _ _ dfs_f) in H.
  rewrite (bind_ok _ _ _ _ _ _ _ tp_f) in H. cbn in H. now inversion H.
Qed.

Lemma spd_post : tp_post a3 f l o pv nx.
Proof.
  split; [|split].
  - apply (repr_tri_adj a3 G3 R3 o A (Ks ++ B) S3).
  - assert (S3' : sibs G3 o ((A ++ Ks) ++ B)) by (now rewrite <- app_assoc).
    pose proof (repr_tri_adj a3 G3 R3 o _ _ S3') as T. rewrite last_error_app in T. exact T.
  - pose proof S3 as S3'. pose proof Lo as Lo'. destruct o as [p|] eqn:Eo; auto.
    assert (Lp : live a3 p).
    { rewrite a3_eq. apply live_amap; [apply links_only_transplantF|].
      unfold a2. apply live_amap; [apply links_only_dfsF|]. now apply Lo'. }
    destruct (ends_of a3 G3 R3 p Lp) as [F1 F2]. cbn in S3'. rewrite S3' in F1, F2.
    split; [|split].
    + rewrite F1, F2. rewrite !last_error_app. unfold Ks. destruct A, (last_error B); reflexivity.
    + apply (repr_tri_first a3 G3 R3 p Lp).
    + apply (repr_tri_last a3 G3 R3 p Lp).
Qed.

Lemma spd_transplant : transplant true f l o pv nx a2 = (a3, Ok COk).
Proof.
  assert (LD : links_only (dfsF a1 f l)) by apply links_only_dfsF.
  rewrite a3_eq. apply transplant_dbg; auto.
  - unfold a2. apply nrm_amap; auto. now apply repr_nrm.
  - unfold a2. apply nrm_amap; auto. now apply repr_nrm.
  - unfold a2. apply nrm_amap; auto. now apply repr_nrm.
  - unfold a2. apply nrm_amap; auto. apply repr_nrm. intros p [= <-]. auto.
  - unfold a2. apply nrm_amap; auto. apply repr_nrm. intros p [= <-]. auto.
  - unfold a2. apply opar_amap; [intros; apply dfsF_keep_parent|]. eapply tri_opar_pv. exact T1.
  - unfold a2. apply opar_amap; [intros; apply dfsF_keep_parent|]. eapply tri_opar_nx. exact T1.
  - apply (tri_keep a1); [apply length_amap | exact a2_links | exact T1].
  - pose proof Lo as Lo'. pose proof o_ne_x as ONX. destruct o as [p|] eqn:Eo; [|exact I]. cbn [ends_agree].
    pose proof (Lo' p eq_refl) as Lp.
    pose proof (a2_field Ffirst p (live_inr _ _ Lp)) as H1.
    pose proof (a2_field Flast p (live_inr _ _ Lp)) as H2.
    rewrite (live_idx_neq a1 p x Lp Lx (ONX p eq_refl)) in H1, H2. cbn [andb getf] in H1, H2.
    rewrite H1, H2. apply (repr_ends_agree a1 G HR (Some p)). intros q [= <-]. exact Lp.
  - rewrite <- a3_eq. apply spd_post.
Qed.

Lemma spd_exec :
  (detach_from_siblings true f l ;;; (r <- transplant true f l o pv nx ;; expect r)) a1 = (a3, Ok tt).
Proof.
  rewrite (bind_ok _ _ _ _ _ _ _ spd_dfs). rewrite (bind_ok _ _ _ _ _ _ _ spd_transplant). reflexivity.
Qed.
End SpliceD.

(* ====================================================================== *)
(* Part 8.  remove, remove_subtree                                          *)
(* ====================================================================== *)
Lemma alloc_free_inv : forall w, AllocOK w -> lfree (ar w) = None -> ffree (ar w) = None.
Proof.
  intros w OK H. destruct (al_free _ OK) as (FL & Hseg & Hlast & _).
  rewrite H in Hlast. symmetry in Hlast. apply last_error_None in Hlast. subst FL. exact Hseg.
Qed.

Lemma shape_slot : forall w b x, AllocOK w -> same_shape (ar w) b -> live (ar w) x ->
  exists m, nth_error (nodes b) (idx x) = Some m /\ (0 <= stamp m <= i16_max)%Z /\
    (lfree b = None -> ffree b = None) /\ ReprRemove.lfree_ok b.
Proof.
  intros w b x OK Sh (n & Hn & S & G). pose proof Sh as (LEN & FF & LF & SH).
  destruct (SH _ _ Hn) as (m & Hm & Sm & _). exists m. split; auto. split; [|split].
  - rewrite Sm. pose proof (al_range _ OK _ _ Hn). lia.
  - rewrite FF, LF. now apply alloc_free_inv.
  - eapply ReprRemove.same_shape_lfree_ok; eauto. now apply Assembly.AllocOK_lfree_ok.
Qed.

Lemma lone_top_detached : forall a F x, Repr a F -> In [x] (tops F) -> node_is_detached (nd a x) = true.
Proof.
  intros a F x R H. unfold node_is_detached.
  assert (HS : sibs F None ([] ++ x :: [])) by exact H.
  destruct (sibs_mid a F R _ _ _ _ HS) as [-> ->].
  rewrite (top_parent a F R [x] x H) by (now left). reflexivity.
Qed.

Lemma remove_tail_agree : forall b x m, nth_error (nodes b) (idx x) = Some m ->
  (0 <= stamp m <= i16_max)%Z -> (lfree b = None -> ffree b = None) -> ReprRemove.lfree_ok b ->
  node_is_detached m = true ->
  (old <- free_node true x ;; n' <- rdi x ;; dassert true (node_is_detached n') ;;; ret old) b =
  (old <- free_node false x ;; n' <- rdi x ;; dassert false (node_is_detached n') ;;; ret old) b.
Proof.
  intros b x m Hm Hs HL LO HD.
  destruct (ReprRemove.free_node_exec b x m Hm LO) as (b' & old & E & _ & [Len S]).
  pose proof (free_node_dbg b x m Hm Hs HL) as Et. rewrite E in Et.
  rewrite (bind_ok _ _ _ _ _ _ _ Et), (bind_ok _ _ _ _ _ _ _ E).
  destruct (S _ _ Hm) as (m' & Hm' & [SL _]).
  rewrite !(bind_ok _ _ _ _ _ _ _ (rd_ok _ _ _ Hm' : rdi x b' = _)).
  assert (HD' : node_is_detached m' = true).
  { unfold node_is_detached in *. destruct SL as (-> & -> & -> & _). exact HD. }
  rewrite !bind_dassert by exact HD'. reflexivity.
Qed.

Theorem remove_agree : forall w F x, Repr (ar w) F -> AllocOK w -> live (ar w) x ->
  remove true x (ar w) = remove false x (ar w).
Proof.
  intros w F x R OK Lx.
  destruct (Stages.remove_stages (ar w) F x R Lx)
    as (n & A & B & a1 & Hn & Pv & Px & Pf & Pl & E1 & R1 & Sh1 & REST).
  assert (En : nd (ar w) x = n) by (now apply nd_at).
  assert (Ix : inr (ar w) x) by (now apply live_inr).
  unfold remove. cbn [when_dbg].
  rewrite bind_chk.
  2:{ rewrite bind_rdi by auto.
      rewrite bind_chk by (apply atn_ok; apply (repr_tri_prev _ F R x Lx)).
      rewrite bind_chk by (apply atn_ok; apply (repr_tri_next _ F R x Lx)).
      rewrite bind_chk by (apply atn_ok; apply (repr_tri_first _ F R x Lx)).
      apply atn_ok; apply (repr_tri_last _ F R x Lx). }
  rewrite bind_ret. rewrite !bind_rdi by auto. cbv beta. rewrite En.
  assert (Eb : Bool.eqb (is_some (first n)) (is_some (last n)) = true).
  { rewrite Pf, Pl. destruct (kidsf F x); reflexivity. }
  rewrite Eb. rewrite !bind_ret.
  pose proof (detach_agree _ F x R Lx) as E1t. rewrite E1 in E1t.
  rewrite (bind_ok _ _ _ _ _ _ _ E1t), (bind_ok _ _ _ _ _ _ _ E1).
  rewrite Pf, Pl.
  destruct (kidsf F x) as [|f Ks'] eqn:EK; cbn [hd_error last_error].
  - rewrite !bind_ret.
    destruct (shape_slot w a1 x OK Sh1 Lx) as (m & Hm & Hs & HL & LO).
    apply (remove_tail_agree a1 x m); auto.
    rewrite <- (nd_at _ _ _ Hm). apply (lone_top_detached a1 (f_detach x F) x R1). cbn. now left.
  - cbv zeta in REST. destruct REST as (HKx & HxAB & Hpos & a3 & G' & E3 & Sh3 & R3 & XT & S3).
    rewrite Pv, Px.
    rewrite (bind_ok _ _ _ _ _ _ _
               (spd_exec a1 (f_detach x F) x f Ks' (parent n) A B a3 G' R1 (or_introl eq_refl) HKx Hpos E3 R3 S3)).
    rewrite (bind_ok _ _ _ _ _ _ _ E3).
    destruct (shape_slot w a3 x OK (same_shape_trans _ _ _ Sh1 Sh3) Lx) as (m & Hm & Hs & HL & LO).
    apply (remove_tail_agree a3 x m); auto.
    rewrite <- (nd_at _ _ _ Hm). apply (lone_top_detached a3 G' x R3 XT).
Qed.

Theorem remove_subtree_agree : forall w F x, Repr (ar w) F -> AllocOK w -> live (ar w) x ->
  remove_subtree true x (ar w) = remove_subtree false x (ar w).
Proof.
  intros w F x R OK Lx.
  destruct (Stages.remove_subtree_stages (ar w) F x R Lx (Assembly.AllocOK_lfree_ok w OK))
    as (a1 & E1 & Sh & ED & ND & LD).
  set (D := preorderF (length (nodes (ar w))) F x) in *.
  pose proof (detach_agree _ F x R Lx) as E1t. rewrite E1 in E1t.
  unfold remove_subtree. rewrite (bind_ok _ _ _ _ _ _ _ E1t), (bind_ok _ _ _ _ _ _ _ E1).
  assert (EL : lift (descendants x) a1 = (a1, Ok D)) by (unfold lift; now rewrite ED).
  rewrite !(bind_ok _ _ _ _ _ _ _ EL). unfold bind.
  destruct (shape_slot w a1 x OK Sh Lx) as (_ & _ & _ & HL & LO).
  rewrite (free_all_dbg D a1); auto.
  intros y Hy. assert (Ly : live (ar w) y) by (apply (live_same_shape _ a1 y Sh); auto).
  destruct (shape_slot w a1 y OK Sh Ly) as (m & Hm & Hs & _). eauto.
Qed.


(* ====================================================================== *)
(* Part 9.  The debug build agrees with the release build                  *)
(* ====================================================================== *)
Theorem debug_agrees : forall w o, WF w -> valid_op (ar w) o -> step true w o = step false w o.
Proof.
  intros w o [[F R] OK] V.
  destruct o as [v|p v|k chk x c|x|x|x|x v| |n]; cbn [valid_op] in V.
  - cbn [step]. now rewrite (new_node_dbg w v OK).
  - cbn [step]. now rewrite (append_value_agree w F p v R OK V).
  - destruct V as [Ux Uc]. destruct chk; cbn [step].
    + now rewrite (checked_insert_agree _ F k x c R Ux Uc).
    + now rewrite (unchecked_insert_agree _ F k x c R Ux Uc).
  - cbn [step]. now rewrite (detach_agree _ F x R V).
  - cbn [step]. now rewrite (remove_agree w F x R OK V).
  - cbn [step]. now rewrite (remove_subtree_agree w F x R OK V).
  - reflexivity.
  - reflexivity.
  - reflexivity.
Qed.

Corollary debug_run_agrees : forall ops w, WF w -> valid_hist false w ops ->
  run true ops w = run false ops w /\ valid_hist true w ops.
Proof.
  induction ops as [|o r IH]; intros w H V; [split; [reflexivity | exact I]|].
  destruct V as [V1 V2].
  change (run true (o :: r) w) with (run true r (fst (step true w o))).
  change (run false (o :: r) w) with (run false r (fst (step false w o))).
  cbn [valid_hist]. rewrite (debug_agrees w o H V1).
  destruct (IH _ (Assembly.step_WF w o H V1) V2) as [E1 E2]. auto.
Qed.

Lemma debug_hist_agrees : forall ops w, WF w -> valid_hist true w ops ->
  valid_hist false w ops /\ run true ops w = run false ops w.
Proof.
  induction ops as [|o r IH]; intros w H V; [split; [exact I | reflexivity]|].
  destruct V as [V1 V2].
  change (run true (o :: r) w) with (run true r (fst (step true w o))).
  change (run false (o :: r) w) with (run false r (fst (step false w o))).
  cbn [valid_hist]. rewrite (debug_agrees w o H V1) in *.
  destruct (IH _ (Assembly.step_WF w o H V1) V2) as [E1 E2]. auto.
Qed.

Corollary debug_reachable : forall ops, valid_hist true init ops ->
  valid_hist false init ops /\ run true ops init = run false ops init.
Proof. intros ops V. apply debug_hist_agrees; auto. apply Assembly.WF_init. Qed.

(* in particular no debug assertion, triangle check or overflow check ever fires on a valid call *)
Corollary debug_no_assert : forall w o, WF w -> valid_op (ar w) o ->
  snd (step true w o) <> OutPanic P_DEBUG_ASSERT /\ snd (step true w o) <> OutPanic P_TRIANGLE /\
  snd (step true w o) <> OutPanic P_OVERFLOW.
Proof.
  intros w o H V. rewrite (debug_agrees w o H V).
  destruct (Assembly.step_total w o H V) as [_ P].
  repeat split; intros E; destruct (P _ E) as (C & _); discriminate.
Qed.

Print Assumptions debug_agrees.
Print Assumptions debug_run_agrees.
Print Assumptions debug_reachable.
Print Assumptions debug_no_assert.
