(* ReprInsert.v — detach and the eight insert entry points refine the abstract forest operations
   [f_detach] and [f_insert] (release semantics). *)
From IT Require Import NodeOps Forest.
From IT.proofs Require Import Layer1 ReprBase.
Require Import Lia.
Local Open Scope nat_scope.

(* ================= abstract facts about f_detach (no arena) ================= *)
Lemma tops_detach : forall x F ch, In ch (tops (f_detach x F)) <->
  ch = [x] \/ (ch <> [] /\ exists c0, In c0 (tops F) /\ ch = remove_id x c0).
Proof.
  intros. unfold f_detach. cbn [tops In]. rewrite filter_In, in_map_iff. split.
  - intros [<-|[(c0 & <- & H0) NE]]; auto. right. split; eauto. intros E; rewrite E in NE; try discriminate.
  - intros [->|(NE & c0 & H0 & ->)]; auto. right. split; eauto. destruct (remove_id x c0); auto; congruence.
Qed.

Lemma member_detach : forall x F y, memberF F x -> (memberF (f_detach x F) y <-> memberF F y).
Proof.
  intros x F y Mx. split.
  - intros [[p H]|(ch & Hc & H)].
    + cbn in H. apply In_remove_id in H. left. exists p. tauto.
    + apply tops_detach in Hc. destruct Hc as [->|(_ & c0 & H0 & ->)].
      * destruct H as [<-|[]]. auto.
      * apply In_remove_id in H. right. exists c0. tauto.
  - intros M. destruct (nid_eq_dec y x) as [->|N].
    + right. exists [x]. split; [apply tops_detach|]; cbn; auto.
    + destruct M as [[p H]|(ch & Hc & H)].
      * left. exists p. cbn. apply In_remove_id. auto.
      * right. exists (remove_id x ch). assert (In y (remove_id x ch)) by (apply In_remove_id; auto).
        split; auto. apply tops_detach. right. split; eauto. intros E. rewrite E in H0. destruct H0.
Qed.

Lemma depth_detach : forall x F y d, depthF F y d -> exists d', depthF (f_detach x F) y d'.
Proof.
  intros x F y d H. induction H as [y ch Hc Hy | y p d Hy Hp IH];
    (destruct (nid_eq_dec y x) as [->|N];
     [exists 0; apply depth_top with (c := [x]); [apply tops_detach|]; cbn; auto|]).
  - exists 0. assert (In y (remove_id x ch)) by (apply In_remove_id; auto).
    apply depth_top with (c := remove_id x ch); auto.
    apply tops_detach. right. split; eauto. intros E. rewrite E in H. destruct H.
  - destruct IH as [d' IH]. exists (S d'). eapply depth_kid; eauto. cbn. apply In_remove_id. auto.
Qed.

Lemma anc_detach : forall x F y z, ancF (f_detach x F) y z -> ancF F y z.
Proof.
  intros x F y z H. induction H; [constructor|]. eapply anc_step; eauto.
  cbn in H. apply In_remove_id in H. tauto.
Qed.

(* ================= detach ================= *)
Lemma detach_fields : forall a x y, inr a y ->
  let a' := amap (detachF a x) a in
  let o := parent (nd a x) in let pv := prev (nd a x) in let nx := next (nd a x) in
  parent (nd a' y) = (if Nat.eqb (idx y) (idx x) then None else parent (nd a y)) /\
  prev (nd a' y) = (if oat nx (idx y) then pv else if Nat.eqb (idx y) (idx x) then None else prev (nd a y)) /\
  next (nd a' y) = (if oat pv (idx y) then nx else if Nat.eqb (idx y) (idx x) then None else next (nd a y)) /\
  first (nd a' y) = (if oat o (idx y) then cn_first a o pv nx else first (nd a y)) /\
  last (nd a' y) = (if oat o (idx y) then cn_last a o pv nx else last (nd a y)).
Proof.
  intros a x y I. cbv zeta.
  repeat split;
    [ change (parent (nd (amap (detachF a x) a) y)) with (getf Fparent (nd (amap (detachF a x) a) y))
    | change (prev (nd (amap (detachF a x) a) y)) with (getf Fprev (nd (amap (detachF a x) a) y))
    | change (next (nd (amap (detachF a x) a) y)) with (getf Fnext (nd (amap (detachF a x) a) y))
    | change (first (nd (amap (detachF a x) a) y)) with (getf Ffirst (nd (amap (detachF a x) a) y))
    | change (last (nd (amap (detachF a x) a) y)) with (getf Flast (nd (amap (detachF a x) a) y)) ];
    rewrite getf_nd_amap by auto; unfold detachF; rewrite getf_comp, getf_fset, getf_dfsF; cbv zeta;
    cbn [fld_eqb getf]; rewrite ?andb_false_r, ?andb_true_r; reflexivity.
Qed.

Lemma detachF_other : forall a x j n,
  Nat.eqb j (idx x) = false -> oat (parent (nd a x)) j = false ->
  oat (prev (nd a x)) j = false -> oat (next (nd a x)) j = false -> detachF a x j n = n.
Proof.
  intros. unfold detachF, dfsF, comp. rewrite !fset_other by assumption. now rewrite cnF_other by assumption.
Qed.

Section Detach.
Variables (a : arena) (F : forest) (x : nid) (o : option nid) (A B : list nid).
Hypothesis R : Repr a F.
Hypothesis Lx : live a x.
Hypothesis HS : sibs F o (A ++ x :: B).

Let a' := amap (detachF a x) a.

Lemma dt_parent : parent (nd a x) = o.
Proof. eapply sibs_parent; eauto. apply in_or_app. right. now left. Qed.
Lemma dt_prev : prev (nd a x) = last_error A.
Proof. now destruct (sibs_mid a F R _ _ _ _ HS). Qed.
Lemma dt_next : next (nd a x) = hd_error B.
Proof. now destruct (sibs_mid a F R _ _ _ _ HS). Qed.
Lemma dt_nodup : ~ In x A /\ ~ In x B /\ NoDup (A ++ B).
Proof. destruct (sibs_dseg a F R _ _ HS) as [_ N]. now apply NoDup_mid. Qed.
Lemma dt_live : forall y, In y (A ++ x :: B) -> live a y.
Proof. intros. eapply sibs_live; eauto. Qed.
Lemma dt_live_A : forall y, In y A -> live a y.
Proof. intros. apply dt_live. apply in_or_app. now left. Qed.
Lemma dt_live_B : forall y, In y B -> live a y.
Proof. intros. apply dt_live. apply in_or_app. right. now right. Qed.
Lemma dt_live_o : forall p, o = Some p -> live a p.
Proof. intros p ->. eapply sibs_owner_live; eauto. apply in_or_app. right. now left. Qed.
Lemma dt_live_pv : forall v, last_error A = Some v -> live a v.
Proof. intros v H. apply dt_live_A. now apply last_error_In. Qed.
Lemma dt_live_nx : forall v, hd_error B = Some v -> live a v.
Proof. intros v H. apply dt_live_B. now apply hd_error_In. Qed.

(* the fields of a live node after the detach, by ids *)
Lemma dt_fields : forall y, live a y ->
  parent (nd a' y) = (if nid_eqb y x then None else parent (nd a y)) /\
  prev (nd a' y) = (if onid_eqb (hd_error B) (Some y) then last_error A
                    else if nid_eqb y x then None else prev (nd a y)) /\
  next (nd a' y) = (if onid_eqb (last_error A) (Some y) then hd_error B
                    else if nid_eqb y x then None else next (nd a y)) /\
  first (nd a' y) = (if onid_eqb o (Some y) then cn_first a o (last_error A) (hd_error B) else first (nd a y)) /\
  last (nd a' y) = (if onid_eqb o (Some y) then cn_last a o (last_error A) (hd_error B) else last (nd a y)).
Proof.
  intros y L. pose proof (detach_fields a x y (live_inr _ _ L)) as H. cbv zeta in H.
  rewrite dt_parent, dt_prev, dt_next in H.
  rewrite (oat_live a _ y L dt_live_pv), (oat_live a _ y L dt_live_nx), (oat_live a _ y L dt_live_o) in H.
  assert (E : Nat.eqb (idx y) (idx x) = nid_eqb y x).
  { destruct (nid_eq_dec y x) as [->|N]; [now rewrite Nat.eqb_refl, nid_eqb_refl|].
    rewrite nid_eqb_neq by auto. now apply (live_idx_neq a). }
  rewrite E in H. exact H.
Qed.

Lemma dt_exec : detach false x a = (a', Ok tt).
Proof.
  apply detach_ok.
  - now apply live_inr.
  - apply (link_inr a F R x Fparent Lx).
  - apply (link_inr a F R x Fprev Lx).
  - apply (link_inr a F R x Fnext Lx).
  - rewrite dt_prev. rewrite (oat_live a _ x Lx dt_live_pv).
    apply onid_eqb_false. intros E. apply last_error_In in E. now apply dt_nodup in E.
Qed.

Lemma dt_len : length (nodes a') = length (nodes a).
Proof. apply length_amap. Qed.

(* the list x is taken out of *)
Lemma dt_list_same : dseg a' o None (A ++ B) None.
Proof.
  destruct (sibs_dseg a F R _ _ HS) as [D N]. destruct dt_nodup as (NA & NB & NAB).
  apply dseg_app in D. destruct D as [DA DB]. cbn [hd_error or_else] in DA.
  apply dseg_cons in DB. destruct DB as (_ & _ & _ & _ & DB).
  pose proof (NoDup_app_left _ _ NAB) as NDA. pose proof (NoDup_app_right _ _ NAB) as NDB.
  apply dseg_app. split.
  - eapply dseg_rebuild'; try exact DA; auto using dt_len.
    + intros y Hy. destruct (dt_fields y (dt_live_A _ Hy)) as (-> & _).
      rewrite nid_eqb_neq by (intros ->; contradiction). eapply dseg_parent; [exact DA|auto].
    + intros y Hy NH. destruct (dt_fields y (dt_live_A _ Hy)) as (_ & -> & _).
      rewrite (proj2 (onid_eqb_false _ _)).
      * now rewrite nid_eqb_neq by (intros ->; contradiction).
      * intros E. apply hd_error_In in E. apply (NoDup_app_disj _ _ NAB y); auto.
    + intros y Hy. pose proof (hd_error_In _ _ Hy) as Iy.
      destruct (dt_fields y (dt_live_A _ Iy)) as (_ & -> & _).
      rewrite (proj2 (onid_eqb_false _ _)).
      * rewrite nid_eqb_neq by (intros ->; contradiction). eapply dseg_hd; [exact DA|auto].
      * intros E. apply hd_error_In in E. apply (NoDup_app_disj _ _ NAB y); auto.
    + intros y Hy NL. destruct (dt_fields y (dt_live_A _ Hy)) as (_ & _ & -> & _).
      rewrite (proj2 (onid_eqb_false _ _)) by auto.
      now rewrite nid_eqb_neq by (intros ->; contradiction).
    + intros y Hy. pose proof (last_error_In _ _ Hy) as Iy.
      destruct (dt_fields y (dt_live_A _ Iy)) as (_ & _ & -> & _).
      rewrite Hy, onid_eqb_refl. now destruct (hd_error B).
  - eapply dseg_rebuild'; try exact DB; auto using dt_len.
    + intros y Hy. destruct (dt_fields y (dt_live_B _ Hy)) as (-> & _).
      rewrite nid_eqb_neq by (intros ->; contradiction). eapply dseg_parent; [exact DB|auto].
    + intros y Hy NH. destruct (dt_fields y (dt_live_B _ Hy)) as (_ & -> & _).
      rewrite (proj2 (onid_eqb_false _ _)) by auto.
      now rewrite nid_eqb_neq by (intros ->; contradiction).
    + intros y Hy. pose proof (hd_error_In _ _ Hy) as Iy.
      destruct (dt_fields y (dt_live_B _ Iy)) as (_ & -> & _).
      rewrite Hy, onid_eqb_refl. now destruct (last_error A).
    + intros y Hy NL. destruct (dt_fields y (dt_live_B _ Hy)) as (_ & _ & -> & _).
      rewrite (proj2 (onid_eqb_false _ _)).
      * now rewrite nid_eqb_neq by (intros ->; contradiction).
      * intros E. apply last_error_In in E. apply (NoDup_app_disj _ _ NAB y); auto.
    + intros y Hy. pose proof (last_error_In _ _ Hy) as Iy.
      destruct (dt_fields y (dt_live_B _ Iy)) as (_ & _ & -> & _).
      rewrite (proj2 (onid_eqb_false _ _)).
      * rewrite nid_eqb_neq by (intros ->; contradiction). eapply dseg_last; [exact DB|auto].
      * intros E. apply last_error_In in E. apply (NoDup_app_disj _ _ NAB y); auto.
Qed.

Lemma dt_disj : forall o' L' y, sibs F o' L' -> ~ In x L' -> In y L' -> ~ In y (A ++ x :: B).
Proof.
  intros o' L' y H NX Hy Hy'. destruct (sibs_unique a F R _ _ _ _ _ H HS Hy Hy') as [_ ->].
  apply NX. apply in_or_app. right. now left.
Qed.

Lemma dt_list_other : forall o' L', sibs F o' L' -> ~ In x L' -> dseg a' o' None L' None.
Proof.
  intros o' L' H NX. destruct (sibs_dseg a F R _ _ H) as [D _].
  eapply dseg_frame; [exact D | apply dt_len |].
  intros y Hy. pose proof (sibs_live a F R _ _ _ H Hy) as Ly.
  pose proof (dt_disj _ _ _ H NX Hy) as Ny.
  destruct (dt_fields y Ly) as (-> & -> & -> & _).
  assert (E1 : nid_eqb y x = false). { apply nid_eqb_neq. intros ->. contradiction. }
  assert (E2 : onid_eqb (hd_error B) (Some y) = false).
  { apply onid_eqb_false. intros E. apply hd_error_In in E. apply Ny. apply in_or_app. right. now right. }
  assert (E3 : onid_eqb (last_error A) (Some y) = false).
  { apply onid_eqb_false. intros E. apply last_error_In in E. apply Ny. apply in_or_app. now left. }
  now rewrite E1, E2, E3.
Qed.

Lemma dt_list : forall o' L', sibs F o' L' -> dseg a' o' None (remove_id x L') None.
Proof.
  intros o' L' H. destruct (in_dec nid_eq_dec x L') as [I|NI].
  - assert (Ix : In x (A ++ x :: B)) by (apply in_or_app; right; now left).
    destruct (sibs_unique a F R _ _ _ _ _ H HS I Ix) as [-> ->].
    destruct dt_nodup as (NA & NB & _). rewrite remove_id_mid by auto. apply dt_list_same.
  - rewrite remove_id_notin by auto. now apply dt_list_other.
Qed.

Lemma dt_ends : forall p, live a p ->
  first (nd a' p) = hd_error (remove_id x (kidsf F p)) /\ last (nd a' p) = last_error (remove_id x (kidsf F p)).
Proof.
  intros p Lp. destruct (dt_fields p Lp) as (_ & _ & _ & -> & ->).
  destruct (ends_of a F R p Lp) as [E1 E2].
  destruct (onid_eqb o (Some p)) eqn:E.
  - apply onid_eqb_eq in E. pose proof HS as HS'. rewrite E in HS' |- *. cbn in HS'.
    rewrite HS' in E1, E2 |- *.
    destruct dt_nodup as (NA & NB & _). rewrite remove_id_mid by auto.
    unfold cn_first, cn_last. rewrite E1, E2. split.
    + destruct A as [|z A']; [reflexivity|].
      assert (exists v, last_error (z :: A') = Some v) as [v ->] by (unfold last_error; eauto).
      reflexivity.
    + destruct B as [|w B'].
      * cbn [hd_error]. now rewrite app_nil_r.
      * cbn [hd_error]. rewrite !last_error_app, last_error_cons2.
        assert (exists v, last_error (w :: B') = Some v) as [v ->] by (unfold last_error; eauto).
        reflexivity.
  - apply onid_eqb_false in E. rewrite remove_id_notin; auto.
    intros I. apply E. assert (Ix : In x (A ++ x :: B)) by (apply in_or_app; right; now left).
    assert (H : sibs F (Some p) (kidsf F p)) by reflexivity.
    now destruct (sibs_unique a F R _ _ _ _ _ HS H Ix I).
Qed.

Lemma dt_dead : forall i n', nth_error (nodes a') i = Some n' -> (stamp n' < 0)%Z ->
  parent n' = None /\ prev n' = None /\ next n' = None /\ first n' = None /\ last n' = None.
Proof.
  intros i n' E S. unfold a' in E. rewrite nth_amap in E.
  destruct (nth_error (nodes a) i) as [n|] eqn:En; [|discriminate]. cbn in E. inversion E; subst n'.
  destruct (links_only_detachF a x i n) as [St _]. rewrite St in S.
  rewrite detachF_other.
  - eapply (r_dead _ _ R); eauto.
  - apply (oat_dead a (Some x) i n En S). intros v Ev. inversion Ev; subst. exact Lx.
  - rewrite dt_parent. apply (oat_dead a _ i n En S dt_live_o).
  - rewrite dt_prev. apply (oat_dead a _ i n En S dt_live_pv).
  - rewrite dt_next. apply (oat_dead a _ i n En S dt_live_nx).
Qed.

Lemma dt_repr : Repr a' (f_detach x F).
Proof.
  assert (LO : links_only (detachF a x)) by apply links_only_detachF.
  assert (Mx : memberF F x) by (now apply (r_live _ _ R)).
  constructor.
  - intros y. rewrite member_detach by auto. rewrite (r_live _ _ R). unfold a'. now rewrite live_amap.
  - intros p. split.
    + apply (dt_list (Some p) (kidsf F p)). reflexivity.
    + apply NoDup_remove_id. apply (r_kids _ _ R).
  - intros p H. unfold a'. rewrite live_amap by auto. apply (r_owner _ _ R).
    intros E. apply H. cbn. now rewrite E.
  - intros ch H. apply tops_detach in H. destruct H as [->|(NE & c0 & H0 & ->)].
    + split; [discriminate|]. split; [|repeat constructor; auto].
      apply dseg_cons. destruct (dt_fields x Lx) as (-> & -> & -> & _).
      rewrite nid_eqb_refl. destruct dt_nodup as (NA & NB & _).
      rewrite !(proj2 (onid_eqb_false _ _)).
      * repeat split; auto. unfold a'. apply inr_amap. now apply live_inr.
      * intros E. apply last_error_In in E. contradiction.
      * intros E. apply hd_error_In in E. contradiction.
    + split; auto. split.
      * apply (dt_list None c0). exact H0.
      * apply NoDup_remove_id. now destruct (r_tops _ _ R c0 H0) as (_ & _ & N).
  - intros p n Lp Hn. unfold a' in Lp. rewrite live_amap in Lp by auto.
    apply node_at_nd in Hn. destruct Hn as [_ <-]. now apply dt_ends.
  - intros y My. apply member_detach in My; auto. destruct (r_depth _ _ R y My) as [d Hd].
    eapply depth_detach; eauto.
  - exact dt_dead.
Qed.
End Detach.

Theorem detach_refines : forall a F x, Repr a F -> live a x ->
  exists a', detach false x a = (a', Ok tt) /\ Repr a' (f_detach x F) /\ same_shape a a'.
Proof.
  intros a F x R Lx. destruct (sibs_of a F R x Lx) as (L & HS & Hx).
  apply in_split in Hx. destruct Hx as (A & B & ->).
  exists (amap (detachF a x) a). split; [|split].
  - eapply dt_exec; eauto.
  - eapply dt_repr; eauto.
  - apply same_shape_amap. apply links_only_detachF.
Qed.

(* ================= inserting a lone root into a gap ================= *)
Lemma tp1_fields : forall a c par pv nx y, inr a y ->
  let a1 := amap (cnF a par pv (Some c) ∘∘ reparentF [c] par) a in
  let a2 := amap (transplantF a [c] c c par pv nx) a in
  parent (nd a2 y) = (if Nat.eqb (idx y) (idx c) then par else parent (nd a y)) /\
  prev (nd a2 y) = (if oat nx (idx y) then Some c else if Nat.eqb (idx y) (idx c) then pv else prev (nd a y)) /\
  next (nd a2 y) = (if Nat.eqb (idx y) (idx c) then nx else if oat pv (idx y) then Some c else next (nd a y)) /\
  first (nd a2 y) = (if oat par (idx y) then cn_first a1 par (Some c) nx else first (nd a y)) /\
  last (nd a2 y) = (if oat par (idx y) then cn_last a1 par (Some c) nx else last (nd a y)).
Proof.
  intros a c par pv nx y I. cbv zeta.
  repeat split;
    [ change (parent (nd (amap (transplantF a [c] c c par pv nx) a) y)) with (getf Fparent (nd (amap (transplantF a [c] c c par pv nx) a) y))
    | change (prev (nd (amap (transplantF a [c] c c par pv nx) a) y)) with (getf Fprev (nd (amap (transplantF a [c] c c par pv nx) a) y))
    | change (next (nd (amap (transplantF a [c] c c par pv nx) a) y)) with (getf Fnext (nd (amap (transplantF a [c] c c par pv nx) a) y))
    | change (first (nd (amap (transplantF a [c] c c par pv nx) a) y)) with (getf Ffirst (nd (amap (transplantF a [c] c c par pv nx) a) y))
    | change (last (nd (amap (transplantF a [c] c c par pv nx) a) y)) with (getf Flast (nd (amap (transplantF a [c] c c par pv nx) a) y)) ];
    rewrite getf_nd_amap by auto; unfold transplantF; cbv zeta;
    rewrite getf_comp, getf_cnF, getf_comp, getf_cnF, getf_reparentF;
    cbn [fld_eqb getf oat map existsb]; rewrite ?andb_false_r, ?andb_true_r, ?orb_false_r;
    destruct (oat par (idx y)), (oat nx (idx y)), (oat pv (idx y)), (Nat.eqb (idx y) (idx c)); reflexivity.
Qed.

Lemma tp1_par_ends : forall a c p pv, inr a p ->
  let a1 := amap (cnF a (Some p) pv (Some c) ∘∘ reparentF [c] (Some p)) a in
  first (nd a1 p) = cn_first a (Some p) pv (Some c) /\ last (nd a1 p) = cn_last a (Some p) pv (Some c).
Proof.
  intros a c p pv I. cbv zeta. split.
  - change (first ?n) with (getf Ffirst n) at 1. rewrite getf_nd_amap by auto.
    rewrite getf_comp, getf_cnF. cbn [oat fld_eqb]. now rewrite Nat.eqb_refl.
  - change (last ?n) with (getf Flast n) at 1. rewrite getf_nd_amap by auto.
    rewrite getf_comp, getf_cnF. cbn [oat fld_eqb]. now rewrite Nat.eqb_refl.
Qed.

Lemma transplantF_other : forall a c par pv nx j n,
  Nat.eqb j (idx c) = false -> oat par j = false -> oat pv j = false -> oat nx j = false ->
  transplantF a [c] c c par pv nx j n = n.
Proof.
  intros. unfold transplantF, comp. cbv zeta.
  rewrite reparentF_other by (cbn; now rewrite H).
  rewrite !cnF_other; auto.
Qed.

Section Gap.
Variables (a : arena) (F : forest) (c : nid) (rest : list (list nid)) (par : option nid) (A B : list nid).
Variable F2 : forest.
Hypothesis R : Repr a F.
Hypothesis HT : tops F = [c] :: rest.
Hypothesis Hrest : forall ch, In ch rest -> ~ In c ch.
Hypothesis HG : match par with
                | Some p => kidsf F p = A ++ B /\ ~ ancF F p c /\ live a p
                | None => In (A ++ B) rest
                end.
Hypothesis HK : forall q, kidsf F2 q = if onid_eqb par (Some q) then A ++ c :: B else kidsf F q.
Hypothesis HT2 : forall ch, In ch (tops F2) <->
  (par = None /\ ch = A ++ c :: B) \/ (In ch rest /\ (par = None -> ch <> A ++ B)).

Let pv := last_error A.
Let nx := hd_error B.
Let a2 := amap (transplantF a [c] c c par pv nx) a.

Lemma gp_c_top : In [c] (tops F).
Proof. rewrite HT. now left. Qed.
Lemma gp_rest_top : forall ch, In ch rest -> In ch (tops F).
Proof. intros. rewrite HT. now right. Qed.
Lemma gp_c_live : live a c.
Proof. eapply top_live; eauto using gp_c_top. now left. Qed.
Lemma gp_c_fields : parent (nd a c) = None /\ prev (nd a c) = None /\ next (nd a c) = None.
Proof.
  assert (H : sibs F None ([] ++ c :: [])) by apply gp_c_top.
  split; [|apply (sibs_mid a F R _ _ _ _ H)].
  eapply sibs_parent; eauto. now left.
Qed.
Lemma gp_sibs : sibs F par (A ++ B).
Proof. destruct par as [p|]; cbn; [tauto | now apply gp_rest_top]. Qed.
Lemma gp_c_notin : ~ In c (A ++ B).
Proof.
  destruct par as [p|].
  - destruct HG as (E & _). rewrite <- E. intros H. eapply kid_not_top; eauto using gp_c_top. now left.
  - now apply Hrest.
Qed.
Lemma gp_nodup : NoDup (A ++ B).
Proof. apply (sibs_dseg a F R _ _ gp_sibs). Qed.
Lemma gp_live_AB : forall y, In y (A ++ B) -> live a y.
Proof. intros. eapply sibs_live; eauto using gp_sibs. Qed.
Lemma gp_live_par : forall p, par = Some p -> live a p.
Proof. intros p E. rewrite E in HG. tauto. Qed.
Lemma gp_live_pv : forall v, pv = Some v -> live a v.
Proof. intros v H. apply gp_live_AB. apply in_or_app. left. now apply last_error_In. Qed.
Lemma gp_live_nx : forall v, nx = Some v -> live a v.
Proof. intros v H. apply gp_live_AB. apply in_or_app. right. now apply hd_error_In. Qed.
Lemma gp_par_neq : par <> Some c.
Proof. intros E. rewrite E in HG. destruct HG as (_ & H & _). apply H. constructor. Qed.
Lemma gp_pv_neq : pv <> Some c.
Proof. intros E. apply last_error_In in E. apply gp_c_notin. apply in_or_app. now left. Qed.
Lemma gp_nx_neq : nx <> Some c.
Proof. intros E. apply hd_error_In in E. apply gp_c_notin. apply in_or_app. now right. Qed.

Lemma gp_oinr : forall o, (forall v, o = Some v -> live a v) -> oinr a o.
Proof. intros [v|] H; cbn; auto. apply live_inr. auto. Qed.

Lemma gp_exec : insert_with_neighbors false c par pv nx a = (a2, Ok COk).
Proof.
  destruct gp_c_fields as (P & V & N).
  apply iwn_detached_ok; auto.
  - apply live_inr, gp_c_live.
  - apply gp_oinr, gp_live_par.
  - apply gp_oinr, gp_live_pv.
  - apply gp_oinr, gp_live_nx.
  - apply onid_eqb_false, gp_pv_neq.
  - apply onid_eqb_false, gp_nx_neq.
  - apply onid_eqb_false, gp_par_neq.
Qed.

Lemma gp_par_first : forall p, par = Some p ->
  cn_first (amap (cnF a par pv (Some c) ∘∘ reparentF [c] par) a) par (Some c) nx = hd_error (A ++ c :: B) /\
  cn_last (amap (cnF a par pv (Some c) ∘∘ reparentF [c] par) a) par (Some c) nx = last_error (A ++ c :: B).
Proof.
  intros p E. pose proof (gp_live_par p E) as Lp. pose proof HG as HG'. rewrite E in HG' |- *.
  destruct HG' as (EK & _).
  destruct (ends_of a F R p Lp) as [E1 E2]. rewrite EK in E1, E2.
  destruct (tp1_par_ends a c p pv (live_inr _ _ Lp)) as [F1 F2']. cbv zeta in F1, F2'.
  unfold cn_first at 1. unfold cn_last at 1. rewrite F1, F2'. unfold cn_first, cn_last. rewrite E1, E2.
  unfold pv, nx. split.
  - destruct A as [|z A']; [reflexivity|].
    assert (exists v, last_error (z :: A') = Some v) as [v ->] by (unfold last_error; eauto). reflexivity.
  - rewrite !last_error_app. destruct B as [|w B']; [reflexivity|].
    rewrite last_error_cons2.
    assert (exists v, last_error (w :: B') = Some v) as [v ->] by (unfold last_error; eauto). reflexivity.
Qed.

Lemma gp_fields : forall y, live a y ->
  parent (nd a2 y) = (if nid_eqb y c then par else parent (nd a y)) /\
  prev (nd a2 y) = (if onid_eqb nx (Some y) then Some c else if nid_eqb y c then pv else prev (nd a y)) /\
  next (nd a2 y) = (if nid_eqb y c then nx else if onid_eqb pv (Some y) then Some c else next (nd a y)) /\
  first (nd a2 y) = (if onid_eqb par (Some y) then hd_error (A ++ c :: B) else first (nd a y)) /\
  last (nd a2 y) = (if onid_eqb par (Some y) then last_error (A ++ c :: B) else last (nd a y)).
Proof.
  intros y L. pose proof (tp1_fields a c par pv nx y (live_inr _ _ L)) as H. cbv zeta in H.
  rewrite (oat_live a _ y L gp_live_pv), (oat_live a _ y L gp_live_nx), (oat_live a _ y L gp_live_par) in H.
  assert (E : Nat.eqb (idx y) (idx c) = nid_eqb y c).
  { destruct (nid_eq_dec y c) as [->|N]; [now rewrite Nat.eqb_refl, nid_eqb_refl|].
    rewrite nid_eqb_neq by auto. apply (live_idx_neq a); auto using gp_c_live. }
  rewrite E in H. destruct H as (H1 & H2 & H3 & H4 & H5). repeat split; auto.
  - unfold a2. rewrite H4. destruct (onid_eqb par (Some y)) eqn:Ep; auto.
    apply onid_eqb_eq in Ep. now destruct (gp_par_first y Ep).
  - unfold a2. rewrite H5. destruct (onid_eqb par (Some y)) eqn:Ep; auto.
    apply onid_eqb_eq in Ep. now destruct (gp_par_first y Ep).
Qed.

Lemma gp_len : length (nodes a2) = length (nodes a).
Proof. apply length_amap. Qed.

Lemma gp_neq_c : forall y, In y (A ++ B) -> nid_eqb y c = false.
Proof. intros y H. apply nid_eqb_neq. intros ->. now apply gp_c_notin. Qed.

Lemma gp_list_same : dseg a2 par None (A ++ c :: B) None.
Proof.
  destruct (sibs_dseg a F R _ _ gp_sibs) as [D N].
  apply dseg_app in D. destruct D as [DA DB].
  pose proof (NoDup_app_left _ _ N) as NDA. pose proof (NoDup_app_right _ _ N) as NDB.
  assert (IA : forall y, In y A -> In y (A ++ B)) by (intros; apply in_or_app; now left).
  assert (IB : forall y, In y B -> In y (A ++ B)) by (intros; apply in_or_app; now right).
  apply dseg_app. split.
  - cbn [hd_error or_else]. eapply dseg_rebuild'; try exact DA; auto using gp_len.
    + intros y Hy. destruct (gp_fields y (gp_live_AB _ (IA _ Hy))) as (-> & _).
      rewrite gp_neq_c by auto. eapply dseg_parent; [exact DA|auto].
    + intros y Hy NH. destruct (gp_fields y (gp_live_AB _ (IA _ Hy))) as (_ & -> & _).
      rewrite gp_neq_c by auto. rewrite (proj2 (onid_eqb_false _ _)); auto.
      intros E. apply hd_error_In in E. apply (NoDup_app_disj _ _ N y); auto.
    + intros y Hy. pose proof (hd_error_In _ _ Hy) as Iy.
      destruct (gp_fields y (gp_live_AB _ (IA _ Iy))) as (_ & -> & _).
      rewrite gp_neq_c by auto. rewrite (proj2 (onid_eqb_false _ _)).
      * eapply dseg_hd; [exact DA|auto].
      * intros E. apply hd_error_In in E. apply (NoDup_app_disj _ _ N y); auto.
    + intros y Hy NL. destruct (gp_fields y (gp_live_AB _ (IA _ Hy))) as (_ & _ & -> & _).
      rewrite gp_neq_c by auto. now rewrite (proj2 (onid_eqb_false _ _)) by auto.
    + intros y Hy. pose proof (last_error_In _ _ Hy) as Iy.
      destruct (gp_fields y (gp_live_AB _ (IA _ Iy))) as (_ & _ & -> & _).
      rewrite gp_neq_c by auto. unfold pv. now rewrite Hy, onid_eqb_refl.
  - apply dseg_cons. destruct (gp_fields c gp_c_live) as (-> & -> & -> & _).
    rewrite nid_eqb_refl. rewrite (proj2 (onid_eqb_false _ _)) by apply gp_nx_neq.
    repeat split.
    + unfold a2. apply inr_amap. apply live_inr, gp_c_live.
    + unfold pv. now destruct (last_error A).
    + unfold nx. now destruct (hd_error B).
    + eapply dseg_rebuild'; try exact DB; auto using gp_len.
      * intros y Hy. destruct (gp_fields y (gp_live_AB _ (IB _ Hy))) as (-> & _).
        rewrite gp_neq_c by auto. eapply dseg_parent; [exact DB|auto].
      * intros y Hy NH. destruct (gp_fields y (gp_live_AB _ (IB _ Hy))) as (_ & -> & _).
        rewrite gp_neq_c by auto. now rewrite (proj2 (onid_eqb_false _ _)) by auto.
      * intros y Hy. pose proof (hd_error_In _ _ Hy) as Iy.
        destruct (gp_fields y (gp_live_AB _ (IB _ Iy))) as (_ & -> & _).
        unfold nx. now rewrite Hy, onid_eqb_refl.
      * intros y Hy NL. destruct (gp_fields y (gp_live_AB _ (IB _ Hy))) as (_ & _ & -> & _).
        rewrite gp_neq_c by auto. rewrite (proj2 (onid_eqb_false _ _)); auto.
        intros E. apply last_error_In in E. apply (NoDup_app_disj _ _ N y); auto.
      * intros y Hy. pose proof (last_error_In _ _ Hy) as Iy.
        destruct (gp_fields y (gp_live_AB _ (IB _ Iy))) as (_ & _ & -> & _).
        rewrite gp_neq_c by auto. rewrite (proj2 (onid_eqb_false _ _)).
        -- eapply dseg_last; [exact DB|auto].
        -- intros E. apply last_error_In in E. apply (NoDup_app_disj _ _ N y); auto.
Qed.

Lemma gp_list_other : forall o' L', sibs F o' L' -> ~ In c L' ->
  (forall y, In y L' -> ~ In y (A ++ B)) -> dseg a2 o' None L' None.
Proof.
  intros o' L' H NC DJ. destruct (sibs_dseg a F R _ _ H) as [D _].
  eapply dseg_frame; [exact D | apply gp_len |].
  intros y Hy. pose proof (sibs_live a F R _ _ _ H Hy) as Ly.
  destruct (gp_fields y Ly) as (-> & -> & -> & _).
  assert (E1 : nid_eqb y c = false). { apply nid_eqb_neq. intros ->. contradiction. }
  assert (E2 : onid_eqb nx (Some y) = false).
  { apply onid_eqb_false. intros E. apply hd_error_In in E. apply (DJ y Hy). apply in_or_app. now right. }
  assert (E3 : onid_eqb pv (Some y) = false).
  { apply onid_eqb_false. intros E. apply last_error_In in E. apply (DJ y Hy). apply in_or_app. now left. }
  now rewrite E1, E2, E3.
Qed.

Lemma gp_disj : forall o' L', sibs F o' L' -> (o' <> par \/ L' <> A ++ B) ->
  forall y, In y L' -> ~ In y (A ++ B).
Proof.
  intros o' L' H NE y Hy Hy'. destruct (sibs_unique a F R _ _ _ _ _ H gp_sibs Hy Hy'). tauto.
Qed.

Lemma gp_ends : forall p, live a p ->
  first (nd a2 p) = hd_error (kidsf F2 p) /\ last (nd a2 p) = last_error (kidsf F2 p).
Proof.
  intros p Lp. destruct (gp_fields p Lp) as (_ & _ & _ & -> & ->). rewrite HK.
  destruct (onid_eqb par (Some p)); auto. now apply ends_of.
Qed.

Lemma gp_dead : forall i n', nth_error (nodes a2) i = Some n' -> (stamp n' < 0)%Z ->
  parent n' = None /\ prev n' = None /\ next n' = None /\ first n' = None /\ last n' = None.
Proof.
  intros i n' E S. unfold a2 in E. rewrite nth_amap in E.
  destruct (nth_error (nodes a) i) as [n|] eqn:En; [|discriminate]. cbn in E. inversion E; subst n'.
  destruct (links_only_transplantF a [c] c c par pv nx i n) as [St _]. rewrite St in S.
  rewrite transplantF_other.
  - eapply (r_dead _ _ R); eauto.
  - apply (oat_dead a (Some c) i n En S). intros v Ev. inversion Ev as [Ec]. rewrite <- Ec. exact gp_c_live.
  - apply (oat_dead a _ i n En S gp_live_par).
  - apply (oat_dead a _ i n En S gp_live_pv).
  - apply (oat_dead a _ i n En S gp_live_nx).
Qed.

(* membership and depth in the new forest *)
Lemma gp_kid_mono : forall q y, In y (kidsf F q) -> In y (kidsf F2 q).
Proof.
  intros q y H. rewrite HK. destruct (onid_eqb par (Some q)) eqn:E; auto.
  apply onid_eqb_eq in E. pose proof HG as HG'. rewrite E in HG'. destruct HG' as (EK & _).
  rewrite EK in H. apply in_app_or in H. apply in_or_app. destruct H; [now left | right; now right].
Qed.

Lemma gp_top_mono : forall ch y, In ch rest -> In y ch -> exists ch2, In ch2 (tops F2) /\ In y ch2.
Proof.
  intros ch y Hc Hy. destruct par as [p|] eqn:Ep.
  - exists ch. split; auto. apply HT2. right. split; auto. discriminate.
  - destruct (list_eq_dec nid_eq_dec ch (A ++ B)) as [->|NE].
    + exists (A ++ c :: B). split; [apply HT2; now left|].
      apply in_app_or in Hy. apply in_or_app. destruct Hy; [now left | right; now right].
    + exists ch. split; auto. apply HT2. right. split; auto.
Qed.

Lemma gp_c_member2 : (exists p, par = Some p /\ In c (kidsf F2 p)) \/ (par = None /\ In (A ++ c :: B) (tops F2)).
Proof.
  destruct par as [p|] eqn:Ep.
  - left. exists p. split; auto. rewrite HK. cbn. rewrite nid_eqb_refl. apply in_or_app. right. now left.
  - right. split; auto. apply HT2. now left.
Qed.

Lemma gp_member : forall y, memberF F2 y <-> memberF F y.
Proof.
  intros y. split.
  - intros [[q H]|(ch & Hc & H)].
    + rewrite HK in H. destruct (onid_eqb par (Some q)) eqn:E.
      * apply onid_eqb_eq in E. pose proof HG as HG'. rewrite E in HG'. destruct HG' as (EK & _).
        apply in_app_or in H. destruct H as [H|[<-|H]].
        -- left. exists q. rewrite EK. apply in_or_app. now left.
        -- right. exists [c]. split; [apply gp_c_top | now left].
        -- left. exists q. rewrite EK. apply in_or_app. now right.
      * left. eauto.
    + apply HT2 in Hc. destruct Hc as [(Ep & ->)|(Hc & _)].
      * apply in_app_or in H. pose proof HG as HG'. rewrite Ep in HG'.
        destruct H as [H|[<-|H]].
        -- right. exists (A ++ B). split; [now apply gp_rest_top | apply in_or_app; now left].
        -- right. exists [c]. split; [apply gp_c_top | now left].
        -- right. exists (A ++ B). split; [now apply gp_rest_top | apply in_or_app; now right].
      * right. exists ch. split; auto. now apply gp_rest_top.
  - intros [[q H]|(ch & Hc & H)].
    + left. exists q. now apply gp_kid_mono.
    + rewrite HT in Hc. destruct Hc as [<-|Hc].
      * destruct H as [<-|[]]. destruct gp_c_member2 as [(p & _ & H)|(_ & H)].
        -- left. eauto.
        -- right. exists (A ++ c :: B). split; auto. apply in_or_app. right. now left.
      * right. eapply gp_top_mono; eauto.
Qed.

Lemma gp_depth_avoid : forall y d, depthF F y d -> ~ ancF F y c -> depthF F2 y d.
Proof.
  induction 1 as [y ch Hc Hy | y q d Hy Hq IH]; intros NA.
  - rewrite HT in Hc. destruct Hc as [<-|Hc].
    + destruct Hy as [<-|[]]. exfalso. apply NA. constructor.
    + destruct (gp_top_mono _ _ Hc Hy) as (ch2 & H2 & Hy2). eapply depth_top; eauto.
  - apply depth_kid with (p := q); [now apply gp_kid_mono|]. apply IH. intros H. apply NA. eapply anc_step; eauto.
Qed.

Lemma gp_depth_c : exists dc, depthF F2 c dc.
Proof.
  destruct gp_c_member2 as [(p & Ep & H)|(_ & H)].
  - pose proof HG as HG'. rewrite Ep in HG'. destruct HG' as (_ & NA & Lp).
    destruct (member_depth a F R p Lp) as [d Hd].
    exists (S d). eapply depth_kid; eauto. now apply gp_depth_avoid.
  - exists 0. eapply depth_top; eauto. apply in_or_app. right. now left.
Qed.

Lemma gp_depth : forall y d, depthF F y d -> exists d', depthF F2 y d'.
Proof.
  induction 1 as [y ch Hc Hy | y q d Hy Hq IH].
  - rewrite HT in Hc. destruct Hc as [<-|Hc].
    + destruct Hy as [<-|[]]. apply gp_depth_c.
    + destruct (gp_top_mono _ _ Hc Hy) as (ch2 & H2 & Hy2). exists 0. eapply depth_top; eauto.
  - destruct IH as [d' IH]. exists (S d'). apply depth_kid with (p := q); auto. now apply gp_kid_mono.
Qed.

Lemma gp_repr : Repr a2 F2.
Proof.
  assert (LO : links_only (transplantF a [c] c c par pv nx)) by apply links_only_transplantF.
  pose proof gp_nodup as ND. pose proof gp_c_notin as NC.
  constructor.
  - intros y. rewrite gp_member, (r_live _ _ R). unfold a2. now rewrite live_amap.
  - intros q. rewrite HK. destruct (onid_eqb par (Some q)) eqn:E.
    + apply onid_eqb_eq in E. split; [|now apply NoDup_insert_mid].
      rewrite <- E. apply gp_list_same.
    + apply onid_eqb_false in E. split; [|apply (r_kids _ _ R)].
      apply (gp_list_other (Some q) (kidsf F q)); [reflexivity | | ].
      * intros H. eapply kid_not_top; eauto using gp_c_top. now left.
      * apply (gp_disj (Some q)); [reflexivity|]. left. congruence.
  - intros q H. unfold a2. rewrite live_amap by auto. rewrite HK in H.
    destruct (onid_eqb par (Some q)) eqn:E.
    + apply onid_eqb_eq in E. now apply gp_live_par.
    + now apply (r_owner _ _ R).
  - intros ch H. apply HT2 in H. destruct H as [(Ep & ->)|(Hc & NE)].
    + split; [destruct A; discriminate|]. split; [|now apply NoDup_insert_mid].
      pose proof gp_list_same as G. rewrite Ep in G. exact G.
    + pose proof (gp_rest_top _ Hc) as Hc'. destruct (r_tops _ _ R ch Hc') as (N1 & _ & N3).
      split; auto. split; auto.
      apply (gp_list_other None ch); auto.
      apply (gp_disj None); auto. destruct par; [left; discriminate | right; auto].
  - intros p n Lp Hn. unfold a2 in Lp. rewrite live_amap in Lp by auto.
    apply node_at_nd in Hn. destruct Hn as [_ <-]. now apply gp_ends.
  - intros y My. apply gp_member in My. destruct (r_depth _ _ R y My) as [d Hd].
    eapply gp_depth; eauto.
  - exact gp_dead.
Qed.
End Gap.

(* ================= the four insertion kinds ================= *)
Definition gap_of (k : inskind) (x : nid) (n : node) : option nid * option nid * option nid :=
  match k with
  | KAppend => (Some x, last n, None)
  | KPrepend => (Some x, None, first n)
  | KAfter => (parent n, Some x, next n)
  | KBefore => (parent n, prev n, Some x)
  end.

Definition ins_tail (k : inskind) (x c : nid) : M nres :=
  detach false c ;;;
  n <- rdi x ;;
  r <- insert_with_neighbors false c (fst (fst (gap_of k x n))) (snd (fst (gap_of k x n))) (snd (gap_of k x n)) ;;
  expect r ;;; ret NOk.

Definition ins_anc (k : inskind) (x c : nid) : M bool :=
  match k with
  | KAppend | KPrepend => is_ancestor_or_self x c
  | KAfter | KBefore => is_strict_ancestor x c
  end.

Lemma checked_insert_eq : forall k x c,
  checked_insert false k x c =
  if nid_eqb c x then ret (NErr (ins_self k)) else
  rm <- either_removed x c ;;
  if rm : bool then ret (NErr Removed) else
  anc <- ins_anc k x c ;;
  if anc : bool then ret (NErr (ins_ancestor k)) else ins_tail k x c.
Proof. intros [] x c; reflexivity. Qed.

Definition gap_ok (a : arena) (F1 : forest) (c : nid) (rest : list (list nid))
                  (par : option nid) (A B : list nid) (F2 : forest) : Prop :=
  match par with
  | Some p => kidsf F1 p = A ++ B /\ ~ ancF F1 p c /\ live a p
  | None => In (A ++ B) rest
  end
  /\ (forall q, kidsf F2 q = if onid_eqb par (Some q) then A ++ c :: B else kidsf F1 q)
  /\ (forall ch, In ch (tops F2) <->
        (par = None /\ ch = A ++ c :: B) \/ (In ch rest /\ (par = None -> ch <> A ++ B))).

Lemma gap_child : forall a1 F1 c rest x A B F2,
  live a1 x -> ~ ancF F1 x c -> kidsf F1 x = A ++ B ->
  (forall q, kidsf F2 q = if nid_eqb q x then A ++ c :: B else kidsf F1 q) -> tops F2 = rest ->
  gap_ok a1 F1 c rest (Some x) A B F2.
Proof.
  intros a1 F1 c rest x A B F2 L NA EK HK HT. unfold gap_ok. split; [auto|split].
  - intros q. rewrite HK. cbn [onid_eqb]. now rewrite (nid_eqb_sym x q).
  - intros ch. rewrite HT. split.
    + intros H. right. split; auto. discriminate.
    + intros [[E _]|[H _]]; [discriminate|auto].
Qed.

Lemma gap_sibling : forall a1 F1 c rest x par A B F2 (f : list nid -> list nid),
  Repr a1 F1 -> tops F1 = [c] :: rest -> x <> c ->
  sibs F1 par (A ++ B) -> In x (A ++ B) ->
  (forall p, par = Some p -> ~ ancF F1 p c) ->
  (forall l, ~ In x l -> f l = l) -> f (A ++ B) = A ++ c :: B ->
  (forall q, kidsf F2 q = f (kidsf F1 q)) -> tops F2 = map f rest ->
  gap_ok a1 F1 c rest par A B F2.
Proof.
  intros a1 F1 c rest x par A B F2 f R HT NE HS Hx NA Fn Fm HK HT2.
  assert (InRest : par = None -> In (A ++ B) rest).
  { intros ->. cbn in HS. rewrite HT in HS. destruct HS as [E|HS]; auto.
    exfalso. rewrite <- E in Hx. destruct Hx as [->|[]]. congruence. }
  unfold gap_ok. split; [|split].
  - destruct par as [p|] eqn:Ep; [|auto]. cbn in HS.
    split; auto. split; [now apply NA|]. eapply owner_live; eauto. rewrite HS. exact Hx.
  - intros q. rewrite HK. destruct (onid_eqb par (Some q)) eqn:E.
    + apply onid_eqb_eq in E. rewrite E in HS. cbn in HS. rewrite HS. exact Fm.
    + apply Fn. intros Hq. apply onid_eqb_false in E. apply E.
      assert (S0 : sibs F1 (Some q) (kidsf F1 q)) by reflexivity.
      destruct (sibs_unique a1 F1 R _ _ _ _ _ S0 HS Hq Hx). congruence.
  - intros ch. rewrite HT2, in_map_iff. split.
    + intros (ch0 & <- & H0). destruct (in_dec nid_eq_dec x ch0) as [I|NI].
      * assert (S0 : sibs F1 None ch0) by (cbn; rewrite HT; now right).
        destruct (sibs_unique a1 F1 R _ _ _ _ _ S0 HS I Hx) as [<- ->]. left. auto.
      * right. rewrite Fn by auto. split; auto. intros _ E. apply NI. now rewrite E.
    + intros [(Ep & ->)|(H0 & NE')].
      * exists (A ++ B). split; auto.
      * exists ch. split; auto. apply Fn. intros I.
        assert (S0 : sibs F1 None ch) by (cbn; rewrite HT; now right).
        destruct (sibs_unique a1 F1 R _ _ _ _ _ S0 HS I Hx) as [<- ->]. now apply NE'.
Qed.

Lemma would_cycle_detach : forall c F k x y, would_cycle (f_detach c F) k x y -> would_cycle F k x y.
Proof.
  intros c F k x y H. destruct k; cbn in *; try (eapply anc_detach; eauto).
  - destruct H as (p & Hp & H). apply In_remove_id in Hp. exists p. split; [tauto|]. eapply anc_detach; eauto.
  - destruct H as (p & Hp & H). apply In_remove_id in Hp. exists p. split; [tauto|]. eapply anc_detach; eauto.
Qed.

Lemma gap_for_kind : forall a1 F k x c,
  Repr a1 (f_detach c F) -> live a1 x -> x <> c -> ~ would_cycle (f_detach c F) k x c ->
  exists par A B,
    gap_of k x (nd a1 x) = (par, last_error A, hd_error B) /\
    gap_ok a1 (f_detach c F) c (tl (tops (f_detach c F))) par A B (f_insert k x c F).
Proof.
  intros a1 F k x c R L NE NC.
  set (F1 := f_detach c F) in *.
  assert (HT : tops F1 = [c] :: tl (tops F1)) by reflexivity.
  destruct k.
  - (* append *)
    exists (Some x), (kidsf F1 x), []. split.
    + cbn [gap_of]. now destruct (ends_of a1 F1 R x L) as [_ ->].
    + apply gap_child; auto.
      * now rewrite app_nil_r.
      * intros q. cbn. fold F1. destruct (nid_eqb q x) eqn:E; auto. apply nid_eqb_eq in E. now subst q.
  - (* prepend *)
    exists (Some x), [], (kidsf F1 x). split.
    + cbn [gap_of]. now destruct (ends_of a1 F1 R x L) as [-> _].
    + apply gap_child; auto.
      intros q. cbn. fold F1. destruct (nid_eqb q x) eqn:E; auto. apply nid_eqb_eq in E. now subst q.
  - (* insert_after *)
    destruct (sibs_of a1 F1 R x L) as (S & HS & Hx).
    apply in_split in Hx. destruct Hx as (A0 & B0 & ->).
    destruct (sibs_mid a1 F1 R _ _ _ _ HS) as [_ Nx].
    destruct (sibs_dseg a1 F1 R _ _ HS) as [_ ND]. apply NoDup_mid in ND. destruct ND as (NA & NB & _).
    assert (EL : (A0 ++ [x]) ++ B0 = A0 ++ x :: B0) by (now rewrite <- app_assoc).
    exists (parent (nd a1 x)), (A0 ++ [x]), B0. split.
    + cbn [gap_of]. now rewrite last_error_snoc, Nx.
    + apply (gap_sibling a1 F1 c _ x _ _ _ _ (ins_after x c)); auto.
      * now rewrite EL.
      * rewrite EL. apply in_or_app. right. now left.
      * intros p Ep H. apply NC. cbn. exists p. split; auto. rewrite Ep in HS. cbn in HS. rewrite HS.
        apply in_or_app. right. now left.
      * intros l Hl. now apply ins_after_notin.
      * rewrite EL. rewrite ins_after_mid by auto. now rewrite <- app_assoc.
  - (* insert_before *)
    destruct (sibs_of a1 F1 R x L) as (S & HS & Hx).
    apply in_split in Hx. destruct Hx as (A0 & B0 & ->).
    destruct (sibs_mid a1 F1 R _ _ _ _ HS) as [Pv _].
    destruct (sibs_dseg a1 F1 R _ _ HS) as [_ ND]. apply NoDup_mid in ND. destruct ND as (NA & NB & _).
    exists (parent (nd a1 x)), A0, (x :: B0). split.
    + cbn [gap_of hd_error]. now rewrite Pv.
    + apply (gap_sibling a1 F1 c _ x _ _ _ _ (ins_before x c)); auto.
      * apply in_or_app. right. now left.
      * intros p Ep H. apply NC. cbn. exists p. split; auto. rewrite Ep in HS. cbn in HS. rewrite HS.
        apply in_or_app. right. now left.
      * intros l Hl. now apply ins_before_notin.
      * now apply ins_before_mid.
Qed.

Lemma ins_tail_refines : forall a F k x c,
  Repr a F -> live a x -> live a c -> x <> c -> ~ would_cycle F k x c ->
  exists a', ins_tail k x c a = (a', Ok NOk) /\ Repr a' (f_insert k x c F) /\ same_shape a a'.
Proof.
  intros a F k x c R Lx Lc NE NC.
  destruct (detach_refines a F c R Lc) as (a1 & E1 & R1 & S1).
  assert (L1 : live a1 x) by (now apply (live_same_shape a a1)).
  assert (NC1 : ~ would_cycle (f_detach c F) k x c) by (intros H; apply NC; eapply would_cycle_detach; eauto).
  destruct (gap_for_kind a1 F k x c R1 L1 NE NC1) as (par & A & B & EG & HG & HK & HT2).
  set (rest := tl (tops (f_detach c F))) in *.
  assert (Hrest : forall ch, In ch rest -> ~ In c ch).
  { unfold rest. cbn [f_detach tops tl]. intros ch H. apply filter_In in H. destruct H as [H _].
    apply in_map_iff in H. destruct H as (c0 & <- & _). intros I. apply In_remove_id in I. tauto. }
  assert (HT : tops (f_detach c F) = [c] :: rest) by reflexivity.
  exists (amap (transplantF a1 [c] c c par (last_error A) (hd_error B)) a1). split; [|split].
  - unfold ins_tail. erewrite bind_ok by exact E1. rewrite bind_rdi by (now apply live_inr).
    rewrite EG. cbn [fst snd].
    erewrite bind_ok by (eapply (gp_exec a1 (f_detach c F) c rest par A B); eauto).
    reflexivity.
  - eapply (gp_repr a1 (f_detach c F) c rest par A B); eauto.
  - eapply same_shape_trans; [exact S1|]. apply same_shape_amap, links_only_transplantF.
Qed.

(* ================= the checks ================= *)
Lemma either_removed_ok : forall a x c, inr a x -> inr a c ->
  either_removed x c a = (a, Ok ((stamp (nd a x) <? 0)%Z || (stamp (nd a c) <? 0)%Z)).
Proof.
  intros a x c Ix Ic. unfold either_removed. rewrite bind_rdi by auto.
  unfold node_is_removed, st_is_removed. destruct (stamp (nd a x) <? 0)%Z; [reflexivity|].
  rewrite bind_rdi by auto. reflexivity.
Qed.

Lemma live_ltb : forall a x, live a x -> (stamp (nd a x) <? 0)%Z = false.
Proof. intros a x L. apply live_stamp in L. apply Z.ltb_ge. lia. Qed.
Lemma removed_ltb : forall a x, slot_removed a x -> (stamp (nd a x) <? 0)%Z = true.
Proof. intros a x H. apply slot_removed_stamp in H. apply Z.ltb_lt. tauto. Qed.

Lemma ins_anc_ok : forall a F k x c, Repr a F -> live a x ->
  exists b, ins_anc k x c a = (a, Ok b) /\ (b = true <-> would_cycle F k x c).
Proof.
  intros a F k x c R L. destruct k; cbn [ins_anc would_cycle].
  - rewrite is_ancestor_or_self_eq. destruct (anc_any_repr a F R x c L) as (b & -> & H). eauto.
  - rewrite is_ancestor_or_self_eq. destruct (anc_any_repr a F R x c L) as (b & -> & H). eauto.
  - rewrite is_strict_ancestor_eq by (now apply live_inr).
    destruct (anc_any_parent_repr a F R x c L) as (b & -> & H). eauto.
  - rewrite is_strict_ancestor_eq by (now apply live_inr).
    destruct (anc_any_parent_repr a F R x c L) as (b & -> & H). eauto.
Qed.

Lemma would_cycle_dec : forall a F k x c, Repr a F -> live a x ->
  would_cycle F k x c \/ ~ would_cycle F k x c.
Proof.
  intros a F k x c R L. destruct (ins_anc_ok a F k x c R L) as ([|] & _ & H).
  - left. now apply H.
  - right. intros W. apply H in W. discriminate.
Qed.

Theorem impossible_dec : forall a F k x c, Repr a F -> usable a x -> usable a c ->
  impossible a F k x c \/ ~ impossible a F k x c.
Proof.
  intros a F k x c R Ux Uc. unfold impossible.
  destruct (nid_eq_dec x c) as [E|NE]; [now left; left|].
  destruct Ux as [Lx|Rx]; [|now left; right; left].
  destruct Uc as [Lc|Rc]; [|now left; right; right; left].
  destruct (would_cycle_dec a F k x c R Lx) as [W|NW]; [now left; right; right; right|].
  right. intros [H|[H|[H|H]]]; auto.
  - now apply (live_not_removed a x).
  - now apply (live_not_removed a c).
Qed.

Theorem checked_insert_refines : forall a F k x c, Repr a F -> usable a x -> usable a c ->
  (impossible a F k x c ->
     exists e, checked_insert false k x c a = (a, Ok (NErr e)) /\ reason_applies a F k x c e) /\
  (~ impossible a F k x c ->
     exists a', checked_insert false k x c a = (a', Ok NOk) /\ Repr a' (f_insert k x c F) /\ same_shape a a').
Proof.
  intros a F k x c R Ux Uc. rewrite checked_insert_eq.
  destruct (nid_eq_dec x c) as [E|NE].
  { subst c. rewrite nid_eqb_refl. split.
    - intros _. exists (ins_self k). split; [reflexivity|]. left. auto.
    - intros NI. exfalso. apply NI. now left. }
  rewrite nid_eqb_neq by congruence.
  erewrite bind_ok by (apply either_removed_ok; now apply usable_inr).
  destruct Ux as [Lx|Rx].
  2:{ rewrite (removed_ltb _ _ Rx). cbn [orb]. split.
      - intros _. exists Removed. split; [reflexivity|]. right. left. auto.
      - intros NI. exfalso. apply NI. right. now left. }
  rewrite (live_ltb _ _ Lx). cbn [orb].
  destruct Uc as [Lc|Rc].
  2:{ rewrite (removed_ltb _ _ Rc). split.
      - intros _. exists Removed. split; [reflexivity|]. right. left. auto.
      - intros NI. exfalso. apply NI. right. right. now left. }
  rewrite (live_ltb _ _ Lc).
  destruct (ins_anc_ok a F k x c R Lx) as (b & Eb & Hb).
  erewrite bind_ok by exact Eb. destruct b.
  - assert (W : would_cycle F k x c) by (now apply Hb). split.
    + intros _. exists (ins_ancestor k). split; [reflexivity|]. right. right. auto.
    + intros NI. exfalso. apply NI. right. right. now right.
  - assert (NW : ~ would_cycle F k x c) by (intros W; apply Hb in W; discriminate). split.
    + intros [H|[H|[H|H]]]; exfalso; auto.
      * now apply (live_not_removed a x).
      * now apply (live_not_removed a c).
    + intros _. now apply ins_tail_refines.
Qed.

Lemma unchecked_insert_eq : forall k x c,
  unchecked_insert false k x c = (r <- checked_insert false k x c ;; expect_n r).
Proof. intros [] x c; reflexivity. Qed.

Corollary unchecked_insert_refines : forall a F k x c, Repr a F -> usable a x -> usable a c ->
  (impossible a F k x c -> unchecked_insert false k x c a = (a, Panic P_PRECOND)) /\
  (~ impossible a F k x c ->
     exists a', unchecked_insert false k x c a = (a', Ok tt) /\ Repr a' (f_insert k x c F) /\ same_shape a a'
                /\ checked_insert false k x c a = (a', Ok NOk)).
Proof.
  intros a F k x c R Ux Uc. destruct (checked_insert_refines a F k x c R Ux Uc) as [H1 H2].
  rewrite unchecked_insert_eq. split.
  - intros I. destruct (H1 I) as (e & E & _). unfold bind. now rewrite E.
  - intros NI. destruct (H2 NI) as (a' & E & R' & S'). exists a'. unfold bind. rewrite E. auto.
Qed.

(* ================= re-inserting a node where it already is ================= *)
Lemma tops_rest : forall c F ch1, In ch1 (filter nonempty (map (remove_id c) (tops F))) <->
  exists ch0, In ch0 (tops F) /\ ch1 = remove_id c ch0 /\ ch1 <> [].
Proof.
  intros. rewrite filter_In, in_map_iff. split.
  - intros [(ch0 & <- & H0) NE]. exists ch0. repeat split; auto. intros E; rewrite E in NE; try discriminate.
  - intros (ch0 & H0 & -> & NE). split; eauto. destruct (remove_id c ch0); auto; congruence.
Qed.

Lemma reinsert_feq_sib : forall a F F2 o L x c (f : list nid -> list nid),
  Repr a F -> sibs F o L -> In c L -> In x L -> x <> c ->
  f (remove_id c L) = L -> (forall l, ~ In x l -> f l = l) ->
  (forall q, kidsf F2 q = f (remove_id c (kidsf F q))) ->
  tops F2 = map f (filter nonempty (map (remove_id c) (tops F))) ->
  feq F2 F.
Proof.
  intros a F F2 o L x c f R HS Hc Hx NE FL Fn HK HT.
  assert (OTHER : forall o' L', sibs F o' L' -> ~ In c L' -> f (remove_id c L') = L').
  { intros o' L' HS' NC. rewrite remove_id_notin by auto. apply Fn. intros Hx'.
    destruct (sibs_unique a F R _ _ _ _ _ HS' HS Hx' Hx) as [_ ->]. contradiction. }
  assert (SAME : forall o' L', sibs F o' L' -> In c L' -> L' = L).
  { intros o' L' HS' Hc'. now destruct (sibs_unique a F R _ _ _ _ _ HS' HS Hc' Hc). }
  assert (ALL : forall o' L', sibs F o' L' -> f (remove_id c L') = L').
  { intros o' L' HS'. destruct (in_dec nid_eq_dec c L') as [I|NI]; [|eauto].
    rewrite (SAME _ _ HS' I). exact FL. }
  split.
  - intros q. rewrite HK. apply (ALL (Some q)). reflexivity.
  - intros ch. rewrite HT, in_map_iff. split.
    + intros (ch1 & <- & H1). apply tops_rest in H1. destruct H1 as (ch0 & H0 & -> & _).
      now rewrite (ALL None ch0 H0).
    + intros H. exists (remove_id c ch). split; [apply (ALL None ch H)|].
      apply tops_rest. exists ch. repeat split; auto.
      destruct (in_dec nid_eq_dec c ch) as [I|NI].
      * rewrite (SAME None ch H I). intros E.
        assert (In x (remove_id c L)) by (apply In_remove_id; auto). rewrite E in H0. destruct H0.
      * rewrite remove_id_notin by auto. now destruct (r_tops _ _ R ch H).
Qed.

Lemma reinsert_feq_child : forall a F F2 x c (g : list nid -> list nid),
  Repr a F -> In c (kidsf F x) -> g (remove_id c (kidsf F x)) = kidsf F x ->
  (forall q, kidsf F2 q = if nid_eqb q x then g (remove_id c (kidsf F q)) else remove_id c (kidsf F q)) ->
  tops F2 = filter nonempty (map (remove_id c) (tops F)) ->
  feq F2 F.
Proof.
  intros a F F2 x c g R Hc G HK HT. split.
  - intros q. rewrite HK. destruct (nid_eqb q x) eqn:E.
    + apply nid_eqb_eq in E. now subst q.
    + apply nid_eqb_false in E. apply remove_id_notin. intros Hq. apply E.
      eapply kid_unique; eauto.
  - intros ch. rewrite HT, tops_rest. split.
    + intros (ch0 & H0 & -> & _). rewrite remove_id_notin; auto. eapply kid_not_top; eauto.
    + intros H. exists ch. split; auto.
      rewrite remove_id_notin by (eapply kid_not_top; eauto). split; auto. now destruct (r_tops _ _ R ch H).
Qed.

Lemma reinsert_feq : forall a F k x c, Repr a F -> live a x -> live a c -> x <> c ->
  match k with KAppend => last (nd a x) = Some c | KPrepend => first (nd a x) = Some c
             | KAfter => next (nd a x) = Some c | KBefore => prev (nd a x) = Some c end ->
  feq (f_insert k x c F) F /\ ~ would_cycle F k x c.
Proof.
  intros a F k x c R Lx Lc NE H. destruct k.
  - destruct (ends_of a F R x Lx) as [_ E]. rewrite H in E. symmetry in E.
    pose proof (last_error_In _ _ E) as Hc. split; [|now apply (kid_not_anc a F R)].
    apply last_error_split in E. destruct E as [A E].
    destruct (r_kids _ _ R x) as [_ ND]. rewrite E in ND. apply NoDup_mid in ND. destruct ND as (NA & _ & _).
    apply (reinsert_feq_child a F _ x c (fun l => l ++ [c])); auto.
    rewrite E, remove_id_mid by auto. now rewrite app_nil_r.
  - destruct (ends_of a F R x Lx) as [E _]. rewrite H in E. symmetry in E.
    pose proof (hd_error_In _ _ E) as Hc. split; [|now apply (kid_not_anc a F R)].
    apply hd_error_split in E. destruct E as [B E].
    destruct (r_kids _ _ R x) as [_ ND]. rewrite E in ND. apply (NoDup_mid c []) in ND. destruct ND as (_ & NB & _).
    apply (reinsert_feq_child a F _ x c (cons c)); auto.
    rewrite E. f_equal. apply (remove_id_mid c [] B); auto.
  - destruct (sibs_of a F R x Lx) as (L & HS & Hx).
    apply in_split in Hx. destruct Hx as (A & B' & ->).
    destruct (sibs_mid a F R _ _ _ _ HS) as [_ Nx]. rewrite H in Nx. symmetry in Nx.
    apply hd_error_split in Nx. destruct Nx as [B ->].
    destruct (sibs_dseg a F R _ _ HS) as [_ ND].
    assert (EL : A ++ x :: c :: B = (A ++ [x]) ++ c :: B) by (now rewrite <- app_assoc).
    pose proof ND as ND'. apply NoDup_mid in ND'. destruct ND' as (NxA & NxB & _).
    rewrite EL in ND. apply NoDup_mid in ND. destruct ND as (NcA & NcB & _).
    assert (Ic : In c (A ++ x :: c :: B)) by (apply in_or_app; right; right; now left).
    assert (Ix : In x (A ++ x :: c :: B)) by (apply in_or_app; right; now left).
    split.
    + apply (reinsert_feq_sib a F _ _ _ x c (ins_after x c) R HS Ic Ix NE); auto.
      * assert (ER : remove_id c (A ++ x :: c :: B) = A ++ x :: B).
        { rewrite EL, remove_id_mid by auto. now rewrite <- app_assoc. }
        rewrite ER. apply ins_after_mid; auto. intros I. apply NxB. now right.
      * intros l Hl. now apply ins_after_notin.
    + intros (p & Hp & HA). assert (S0 : sibs F (Some p) (kidsf F p)) by reflexivity.
      destruct (sibs_unique a F R _ _ _ _ _ S0 HS Hp Ix) as [_ EK].
      apply (kid_not_anc a F R c p); auto. now rewrite EK.
  - destruct (sibs_of a F R x Lx) as (L & HS & Hx).
    apply in_split in Hx. destruct Hx as (A' & B & ->).
    destruct (sibs_mid a F R _ _ _ _ HS) as [Pv _]. rewrite H in Pv. symmetry in Pv.
    apply last_error_split in Pv. destruct Pv as [A ->].
    destruct (sibs_dseg a F R _ _ HS) as [_ ND].
    assert (EL : (A ++ [c]) ++ x :: B = A ++ c :: x :: B) by (now rewrite <- app_assoc).
    rewrite EL in HS, ND.
    pose proof ND as ND'. apply NoDup_mid in ND'. destruct ND' as (NcA & NcB & ND2).
    apply NoDup_mid in ND2. destruct ND2 as (NxA & NxB & _).
    assert (Ic : In c (A ++ c :: x :: B)) by (apply in_or_app; right; now left).
    assert (Ix : In x (A ++ c :: x :: B)) by (apply in_or_app; right; right; now left).
    split.
    + apply (reinsert_feq_sib a F _ _ _ x c (ins_before x c) R HS Ic Ix NE); auto.
      * rewrite remove_id_mid by auto. now apply ins_before_mid.
      * intros l Hl. now apply ins_before_notin.
    + intros (p & Hp & HA). assert (S0 : sibs F (Some p) (kidsf F p)) by reflexivity.
      destruct (sibs_unique a F R _ _ _ _ _ S0 HS Hp Ix) as [_ EK].
      apply (kid_not_anc a F R c p); auto. now rewrite EK.
Qed.

Theorem reinsert_noop : forall a F k x c nx, Repr a F -> live a x -> live a c -> x <> c -> node_at a x nx ->
  match k with KAppend => last nx = Some c | KPrepend => first nx = Some c
             | KAfter => next nx = Some c | KBefore => prev nx = Some c end ->
  checked_insert false k x c a = (a, Ok NOk).
Proof.
  intros a F k x c nx R Lx Lc NE Hn Hk. apply node_at_nd in Hn. destruct Hn as [_ <-].
  destruct (reinsert_feq a F k x c R Lx Lc NE Hk) as [FE NW].
  destruct (checked_insert_refines a F k x c R (or_introl Lx) (or_introl Lc)) as [_ H].
  destruct H as (a' & E & R' & S').
  { intros [I|[I|[I|I]]]; auto.
    - now apply (live_not_removed a x).
    - now apply (live_not_removed a c). }
  rewrite E. f_equal. eapply Repr_unique; eauto. eapply Repr_ext; eauto.
Qed.

Print Assumptions detach_refines.
Print Assumptions impossible_dec.
Print Assumptions checked_insert_refines.
Print Assumptions unchecked_insert_refines.
Print Assumptions reinsert_noop.
