(* SrcTac.v — symbolic execution of two monadic terms side by side (used by the Src*.v bridging proofs). *)
From IT Require Export SrcSupport.
Open Scope mon_scope.

Lemma list_set_same {A} i (x y : A) l : list_set i y (list_set i x l) = list_set i y l.
Proof. revert i; induction l as [|h t IH]; intros [|i]; cbn; try reflexivity. now rewrite IH. Qed.

Lemma nth_error_list_set_eq {A} i (x : A) l :
  nth_error (list_set i x l) i = match nth_error l i with Some _ => Some x | None => None end.
Proof. revert i; induction l as [|h t IH]; intros [|i]; cbn; try reflexivity. apply IH. Qed.

(* run m, discard its value, return v (ghost results of the model are dropped this way) *)
Definition then_ret {A B} (m : M A) (v : B) : M B :=
  fun a => match m a with
           | (a', Ok _) => (a', Ok v)
           | (a', Panic c) => (a', Panic c)
           | (a', Diverge) => (a', Diverge)
           end.

(* reduce the monad plumbing only: arithmetic and comparisons stay folded *)
Ltac mred :=
  cbv beta iota zeta delta [then_ret bind ret panic diverge when_dbg dassert liftres lift rbind rret rrd rrdi
                            rd upd rdi updi get_arena put_arena negb andb orb fst snd
                            set_nodes set_ffree set_lfree nodes ffree lfree
                            expect expect_n assert_eq_onid dtriangle Bool.eqb is_some or_else option_map].

Lemma stamp_set_data d n : stamp (set_data d n) = stamp n. Proof. reflexivity. Qed.
Lemma stamp_set_stamp s n : stamp (set_stamp s n) = s. Proof. reflexivity. Qed.
Lemma stamp_setf f v n : stamp (setf f v n) = stamp n. Proof. destruct f; reflexivity. Qed.
Lemma data_set_data d n : data (set_data d n) = d. Proof. reflexivity. Qed.
Lemma data_set_stamp s n : data (set_stamp s n) = data n. Proof. reflexivity. Qed.
Lemma data_setf f v n : data (setf f v n) = data n. Proof. destruct f; reflexivity. Qed.

Ltac use_reads :=
  repeat match goal with
         | H : nth_error ?l ?i = _ |- context [nth_error ?l ?i] => rewrite H
         end.

Ltac mnorm := use_reads; repeat (rewrite ?list_set_same, ?nth_error_list_set_eq, ?stamp_set_data, ?stamp_set_stamp, ?stamp_setf,
                               ?data_set_data, ?data_set_stamp, ?data_setf); use_reads.

(* destruct the scrutinee that blocks evaluation: the outermost match, followed down its scrutinee spine *)
Ltac spine x :=
  lazymatch x with
  | match ?y with _ => _ end => spine y
  | (match ?y with _ => _ end) _ => spine y
  | (match ?y with _ => _ end) _ _ => spine y
  | _ => destruct x eqn:?
  end.

Ltac hd t := match t with context [match ?x with _ => _ end] => spine x end.

Ltac head_destruct :=
  match goal with
  | |- ?L = ?R => first [ hd L | hd R ]
  | |- ?G => hd G
  end.

Ltac clean :=
  repeat match goal with
         | a : arena |- _ => destruct a
         | H : context [list_set ?i _ (list_set ?i _ _)] |- _ => rewrite list_set_same in H
         | H : context [nth_error (list_set ?i _ _) ?i] |- _ => rewrite nth_error_list_set_eq in H
         | H1 : nth_error ?l ?i = Some _, H2 : context [nth_error ?l ?i] |- _ =>
             lazymatch H2 with H1 => fail | _ => rewrite H1 in H2 end
         | H : mkArena _ _ _ = mkArena _ _ _ |- _ => injection H; clear H; intros; try subst
         | H : Some _ = Some _ |- _ => injection H as H; try subst
         | H : (_, _) = (_, _) |- _ => injection H; clear H; intros; try subst
         | H : Ok _ = Ok _ |- _ => injection H as H; try subst
         | u : unit |- _ => destruct u
         end;
  try discriminate; try congruence.

Ltac mx := repeat (mred; mnorm; try reflexivity; head_destruct; clean); mred; mnorm; try reflexivity.

Tactic Notation "mx_rw" tactic(rw) :=
  repeat (mred; mnorm; rw; mred; mnorm; try reflexivity; head_destruct; clean); mred; mnorm; rw; mred; try reflexivity.
