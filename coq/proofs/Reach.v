(* Reach.v — the per-operation theorems of Assembly.v / AllocProps.v restated over REACHABLE worlds
   (any valid history from the empty arena), one lemma per property clause. *)
From IT Require Import Props.
From IT.proofs Require Import Assembly AllocProps.
From IT.proofs Require ReprInsert ReprBase.

Definition reach (ops : list op) : world := run false ops init.

Lemma reach_WF : forall ops, valid_hist false init ops -> WF (reach ops).
Proof. exact reachable_WF. Qed.

Lemma reach_repr : forall ops, valid_hist false init ops -> exists F, Repr (ar (reach ops)) F.
Proof. intros ops H. destruct (reach_WF ops H) as [[F HF] _]. eauto. Qed.

Lemma reach_alloc : forall ops, valid_hist false init ops -> AllocOK (reach ops).
Proof. intros ops H. apply (reach_WF ops H). Qed.

(* ---------- C03 ---------- *)
Lemma reach_insert : forall ops k chk x c F, valid_hist false init ops -> let w := reach ops in
  Repr (ar w) F -> usable (ar w) x -> usable (ar w) c -> ~ impossible (ar w) F k x c ->
  let w' := fst (step false w (OInsert k chk x c)) in
  snd (step false w (OInsert k chk x c)) = OutUnit /\ Repr (ar w') (f_insert k x c F) /\ same_shape (ar w) (ar w').
Proof.
  intros ops k chk x c F H w HF Hx Hc Hn.
  pose proof (step_outcome w (OInsert k chk x c) F HF (reach_alloc ops H) (conj Hx Hc)) as S.
  destruct chk; cbn zeta in S; destruct S as [_ S]; destruct (S Hn) as (A & B & C & _) || destruct (S Hn) as (A & B & C); auto.
Qed.

Lemma reach_detach : forall ops x F, valid_hist false init ops -> let w := reach ops in
  Repr (ar w) F -> live (ar w) x ->
  let w' := fst (step false w (ODetach x)) in
  snd (step false w (ODetach x)) = OutUnit /\ Repr (ar w') (f_detach x F) /\ same_shape (ar w) (ar w').
Proof. intros ops x F H w HF Hx. exact (step_outcome w (ODetach x) F HF (reach_alloc ops H) Hx). Qed.

Lemma reach_append_value : forall ops p v F, valid_hist false init ops -> let w := reach ops in
  Repr (ar w) F -> live (ar w) p ->
  let w' := fst (step false w (OAppendValue p v)) in
  exists x, snd (step false w (OAppendValue p v)) = OutId x /\ Repr (ar w') (f_append_value p x F) /\
            ~ live (ar w) x /\ issued w' = issued w ++ [x].
Proof.
  intros ops p v F H w HF Hp.
  pose proof (step_outcome w (OAppendValue p v) F HF (reach_alloc ops H) (or_introl Hp)) as [_ S].
  destruct (S Hp) as (x & A & B & C). exists x.
  split; [exact A|]. split; [exact B|]. split; [|exact C].
  destruct (append_value_refines w F p v HF (reach_alloc ops H) Hp) as (a' & y & E & _ & NL).
  cbn [step] in A. rewrite E in A. cbn in A. inversion A; subst. exact NL.
Qed.

Lemma reach_append_value_eq : forall ops p v F, valid_hist false init ops -> let w := reach ops in
  Repr (ar w) F -> live (ar w) p ->
  exists x, snd (step false w (OAppendValue p v)) = OutId x /\ snd (step false w (ONew v)) = OutId x /\
    ar (fst (step false w (OAppendValue p v)))
    = ar (fst (step false (fst (step false w (ONew v))) (OInsert KAppend false p x))).
Proof. intros ops p v F H w HF Hp. exact (append_value_eq w F p v HF (reach_alloc ops H) Hp). Qed.

Lemma reach_reinsert_noop : forall ops k x c nx F, valid_hist false init ops -> let w := reach ops in
  Repr (ar w) F -> live (ar w) x -> live (ar w) c -> x <> c -> node_at (ar w) x nx ->
  match k with KAppend => last nx = Some c | KPrepend => first nx = Some c
             | KAfter => next nx = Some c | KBefore => prev nx = Some c end ->
  snd (step false w (OInsert k true x c)) = OutUnit /\ ar (fst (step false w (OInsert k true x c))) = ar w.
Proof.
  intros ops k x c nx F H w HF Hx Hc Hne Hn Hpos.
  pose proof (ReprInsert.reinsert_noop (ar w) F k x c nx HF Hx Hc Hne Hn Hpos) as E.
  cbn [step]. rewrite E. cbn. auto.
Qed.

(* ---------- C04 ---------- *)
Lemma reach_remove : forall ops x F, valid_hist false init ops -> let w := reach ops in
  Repr (ar w) F -> live (ar w) x ->
  let w' := fst (step false w (ORemove x)) in
  snd (step false w (ORemove x)) = OutUnit /\ Repr (ar w') (f_remove x F) /\ removed w' = removed w ++ [x].
Proof. intros ops x F H w HF Hx. exact (step_outcome w (ORemove x) F HF (reach_alloc ops H) Hx). Qed.

Lemma reach_remove_subtree : forall ops x F, valid_hist false init ops -> let w := reach ops in
  Repr (ar w) F -> live (ar w) x ->
  let w' := fst (step false w (ORemoveSubtree x)) in
  let D := preorderF (length (nodes (ar w))) F x in
  snd (step false w (ORemoveSubtree x)) = OutUnit /\ Repr (ar w') (f_remove_subtree x D F) /\ removed w' = removed w ++ D.
Proof. intros ops x F H w HF Hx. exact (step_outcome w (ORemoveSubtree x) F HF (reach_alloc ops H) Hx). Qed.

(* ---------- C05 ---------- *)
Lemma reach_checked : forall ops k x c F, valid_hist false init ops -> let w := reach ops in
  Repr (ar w) F -> usable (ar w) x -> usable (ar w) c ->
  let out := snd (step false w (OInsert k true x c)) in
  let w' := fst (step false w (OInsert k true x c)) in
  (impossible (ar w) F k x c -> exists e, out = OutErr e /\ reason_applies (ar w) F k x c e /\ ar w' = ar w) /\
  (~ impossible (ar w) F k x c -> out = OutUnit).
Proof.
  intros ops k x c F H w HF Hx Hc.
  pose proof (step_outcome w (OInsert k true x c) F HF (reach_alloc ops H) (conj Hx Hc)) as [A B].
  split; auto. intros Hn. apply (B Hn).
Qed.

Lemma reach_unchecked : forall ops k x c F, valid_hist false init ops -> let w := reach ops in
  Repr (ar w) F -> usable (ar w) x -> usable (ar w) c ->
  let out := snd (step false w (OInsert k false x c)) in
  let w' := fst (step false w (OInsert k false x c)) in
  (impossible (ar w) F k x c -> out = OutPanic P_PRECOND /\ ar w' = ar w) /\
  (~ impossible (ar w) F k x c -> out = OutUnit /\ ar w' = ar (fst (step false w (OInsert k true x c)))).
Proof.
  intros ops k x c F H w HF Hx Hc.
  pose proof (step_outcome w (OInsert k false x c) F HF (reach_alloc ops H) (conj Hx Hc)) as [A B].
  split; auto. intros Hn. destruct (B Hn) as (P & _ & _ & Q). auto.
Qed.

Lemma reach_impossible_dec : forall ops k x c F, valid_hist false init ops -> let w := reach ops in
  Repr (ar w) F -> usable (ar w) x -> usable (ar w) c -> impossible (ar w) F k x c \/ ~ impossible (ar w) F k x c.
Proof. intros. eapply ReprInsert.impossible_dec; eauto. Qed.

Lemma reach_total : forall ops o, valid_hist false init ops -> let w := reach ops in valid_op (ar w) o ->
  snd (step false w o) <> OutDiverge /\
  (forall c, snd (step false w o) = OutPanic c ->
     c = P_PRECOND /\ ar (fst (step false w o)) = ar w /\
     match o with OInsert _ false _ _ | OAppendValue _ _ => True | _ => False end).
Proof. intros ops o H w Hv. exact (step_total w o (reach_WF ops H) Hv). Qed.

(* ---------- C12 ---------- *)
Lemma reach_dead_no_links : forall ops i n, valid_hist false init ops -> let w := reach ops in
  nth_error (nodes (ar w)) i = Some n -> stamp n < 0 ->
  parent n = None /\ prev n = None /\ next n = None /\ first n = None /\ last n = None.
Proof. intros ops i n H w Hn Hs. destruct (reach_repr ops H) as [F HF]. exact (r_dead _ _ HF i n Hn Hs). Qed.

Lemma removed_impossible : forall a F k x c, slot_removed a x \/ slot_removed a c -> impossible a F k x c.
Proof. intros a F k x c [H|H]; unfold impossible; auto. Qed.

Lemma reach_append_value_removed : forall ops p v, valid_hist false init ops -> let w := reach ops in
  slot_removed (ar w) p ->
  snd (step false w (OAppendValue p v)) = OutPanic P_PRECOND /\ ar (fst (step false w (OAppendValue p v))) = ar w.
Proof.
  intros ops p v H w Hp. destruct (reach_repr ops H) as [F HF].
  pose proof (step_outcome w (OAppendValue p v) F HF (reach_alloc ops H) (or_intror Hp)) as [A _]. exact (A Hp).
Qed.
