(* TraverseProofs.v — the iterators of Traverse.v against the rose-tree specification of Spec.v:
   Euler tours (traverse / reverse_traverse / next_traverse / prev_traverse), pre-order
   (descendants), sibling runs (children / reverse_children) and the DoubleEndedIterator laws of
   the double-ended state machine. *)
From IT Require Import Spec.
From Coq Require Import Lia.   (* List comes through Spec; re-importing it would shadow the field [last] *)
Local Open Scope nat_scope.

(* ====================================================================== *)
(* Non-vacuity: a concrete arena, its rose tree, and the statements on it  *)
(* ====================================================================== *)

(* slot 0 is a root with children 1, 2, 3; slot 2 has the single child 4 *)
Definition a0 : arena := mkArena
  [ mkNode None None None (Some (mkId 1 0%Z)) (Some (mkId 3 0%Z)) 0%Z (Data 10%N);
    mkNode (Some (mkId 0 0%Z)) None (Some (mkId 2 0%Z)) None None 0%Z (Data 11%N);
    mkNode (Some (mkId 0 0%Z)) (Some (mkId 1 0%Z)) (Some (mkId 3 0%Z))
           (Some (mkId 4 0%Z)) (Some (mkId 4 0%Z)) 0%Z (Data 12%N);
    mkNode (Some (mkId 0 0%Z)) (Some (mkId 2 0%Z)) None None None 0%Z (Data 13%N);
    mkNode (Some (mkId 2 0%Z)) None None None None 0%Z (Data 14%N) ]
  None None.

Definition t0 : rose :=
  T (mkId 0 0%Z) [ T (mkId 1 0%Z) []; T (mkId 2 0%Z) [ T (mkId 4 0%Z) [] ]; T (mkId 3 0%Z) [] ].

Example tree_in_a0 : tree_in a0 t0.
Proof.
  split.
  - unfold t0. repeat (econstructor; cbn; try reflexivity).
  - cbn. repeat constructor; cbn; intuition lia.
Qed.

Example traverse_a0 : traverse (root t0) a0 = Ok (euler t0).
Proof. vm_compute; reflexivity. Qed.
Example reverse_traverse_a0 : reverse_traverse (root t0) a0 = Ok (rev (euler t0)).
Proof. vm_compute; reflexivity. Qed.
Example descendants_a0 : descendants (root t0) a0 = Ok (ids t0).
Proof. vm_compute; reflexivity. Qed.
Example children_a0 : children (root t0) a0 = Ok (map root (kids t0)).
Proof. vm_compute; reflexivity. Qed.
Example reverse_children_a0 : reverse_children (root t0) a0 = Ok (rev (map root (kids t0))).
Proof. vm_compute; reflexivity. Qed.
Example children_pulls_a0 :
  de_run DChildren (root t0) [true; false; false; true; true] a0
  = Ok (de_spec (map root (kids t0)) [true; false; false; true; true]).
Proof. vm_compute; reflexivity. Qed.

(* ====================================================================== *)
(* Identifiers and edges                                                   *)
(* ====================================================================== *)

Lemma nid_eqb_eq : forall x y, nid_eqb x y = true <-> x = y.
Proof.
  intros [i g] [j h]. unfold nid_eqb. cbn [idx gen].
  rewrite andb_true_iff, Nat.eqb_eq, Z.eqb_eq. split.
  - intros [-> ->]. reflexivity.
  - intros H. inversion H. auto.
Qed.

Lemma nid_eqb_refl : forall x, nid_eqb x x = true.
Proof. intros x. apply nid_eqb_eq. reflexivity. Qed.

Lemma nid_eqb_neq : forall x y, x <> y -> nid_eqb x y = false.
Proof.
  intros x y H. destruct (nid_eqb x y) eqn:E; auto.
  apply nid_eqb_eq in E. contradiction.
Qed.

Lemma nid_eqb_idx_neq : forall x y, idx x <> idx y -> nid_eqb x y = false.
Proof. intros x y H. apply nid_eqb_neq. intros ->. auto. Qed.

Lemma edge_eqb_refl : forall e, edge_eqb e e = true.
Proof. intros [x|x]; cbn; apply nid_eqb_refl. Qed.

Lemma edge_eqb_neq : forall e e', e <> e' -> edge_eqb e e' = false.
Proof.
  intros [x|x] [y|y] H; cbn; auto; apply nid_eqb_neq; congruence.
Qed.

(* ====================================================================== *)
(* Lists: last_error, snoc views, NoDup                                    *)
(* ====================================================================== *)

Lemma last_cons : forall {A} (r : list A) (x y : A), List.last (y :: r) x = List.last r y.
Proof.
  intros A. induction r as [|z r IH]; intros x y; [reflexivity|].
  change (List.last (y :: z :: r) x) with (List.last (z :: r) x).
  rewrite (IH x z), (IH y z). reflexivity.
Qed.

Lemma last_error_cons : forall {A} (x y : A) r, last_error (x :: y :: r) = last_error (y :: r).
Proof. intros. unfold last_error. f_equal. apply last_cons. Qed.

Lemma last_error_snoc : forall {A} (l : list A) x, last_error (l ++ [x]) = Some x.
Proof.
  intros A [|y l] x; [reflexivity|].
  cbn [app last_error]. f_equal. apply last_last.
Qed.

Lemma last_error_rev : forall {A} (l : list A), last_error (rev l) = hd_error l.
Proof. intros A [|x l]; [reflexivity|]. cbn [rev hd_error]. apply last_error_snoc. Qed.

Lemma hd_error_rev : forall {A} (l : list A), hd_error (rev l) = last_error l.
Proof.
  intros A l. rewrite <- (rev_involutive l) at 2. rewrite last_error_rev. reflexivity.
Qed.

Lemma snoc_case : forall {A} (l : list A), l = [] \/ exists s z, l = s ++ [z].
Proof.
  intros A l. destruct l as [|x r]; [left; reflexivity|right].
  destruct (@exists_last _ (x :: r)) as (s & z & E); [discriminate|]. eauto.
Qed.

Lemma last_in : forall {A} (r : list A) (y d : A), In (List.last (y :: r) d) (y :: r).
Proof.
  intros A. induction r as [|z r IH]; intros y d; [left; reflexivity|].
  right. change (List.last (y :: z :: r) d) with (List.last (z :: r) d). apply IH.
Qed.

Lemma NoDup_app_inv : forall {A} (l l' : list A),
  NoDup (l ++ l') -> NoDup l /\ NoDup l' /\ (forall x, In x l -> ~ In x l').
Proof.
  intros A. induction l as [|x l IH]; intros l' H; cbn [app] in H.
  - split; [constructor|]. split; auto.
  - inversion H as [|? ? Hx Hr]; subst. destruct (IH _ Hr) as (H1 & H2 & H3).
    split; [|split; auto].
    + constructor; auto. intros Hi. apply Hx. apply in_or_app. auto.
    + intros y [<-|Hy]; auto. intros Hi. apply Hx. apply in_or_app. auto.
Qed.

Lemma Forall_mp : forall {A} (P Q : A -> Prop) l,
  Forall (fun x => P x -> Q x) l -> Forall P l -> Forall Q l.
Proof.
  intros A P Q l H. induction H; intros HP; inversion HP; subst; constructor; auto.
Qed.

(* ====================================================================== *)
(* Rose trees                                                              *)
(* ====================================================================== *)

Section RoseInd.
  Variable P : rose -> Prop.
  Hypothesis HT : forall x ks, Forall P ks -> P (T x ks).
  Fixpoint rose_ind' (t : rose) : P t :=
    match t with
    | T x ks =>
        HT x ks ((fix go (l : list rose) : Forall P l :=
                    match l with
                    | [] => @Forall_nil _ P
                    | k :: r => @Forall_cons _ P k r (rose_ind' k) (go r)
                    end) ks)
    end.
End RoseInd.

Definition eid (e : edge) : nid := match e with Start y => y | End_ y => y end.

Lemma euler_unfold : forall x ks, euler (T x ks) = Start x :: flat_map euler ks ++ [End_ x].
Proof. reflexivity. Qed.

Lemma ids_unfold : forall x ks, ids (T x ks) = x :: flat_map ids ks.
Proof. reflexivity. Qed.

Lemma euler_hd : forall t, hd_error (euler t) = Some (Start (root t)).
Proof. intros [x ks]. reflexivity. Qed.

Lemma euler_last : forall t, last_error (euler t) = Some (End_ (root t)).
Proof.
  intros [x ks]. rewrite euler_unfold.
  change (Start x :: flat_map euler ks ++ [End_ x]) with ((Start x :: flat_map euler ks) ++ [End_ x]).
  apply last_error_snoc.
Qed.

Lemma root_in_ids : forall t, In (root t) (ids t).
Proof. intros [x ks]. left. reflexivity. Qed.

Lemma in_euler_ids : forall t e, In e (euler t) -> In (eid e) (ids t).
Proof.
  induction t as [x ks IH] using rose_ind'. intros e H.
  rewrite euler_unfold in H. rewrite ids_unfold.
  destruct H as [<-|H]; [left; reflexivity|].
  apply in_app_or in H. destruct H as [H|[<-|[]]]; [|left; reflexivity].
  right. apply in_flat_map in H. destruct H as (k & Hk & He).
  apply in_flat_map. exists k. split; auto.
  rewrite Forall_forall in IH. apply IH; auto.
Qed.

Lemma in_forest_euler_ids : forall ks e, In e (flat_map euler ks) -> In (eid e) (flat_map ids ks).
Proof.
  intros ks e H. apply in_flat_map in H. destruct H as (k & Hk & He).
  apply in_flat_map. exists k. split; auto. apply in_euler_ids; auto.
Qed.

Lemma euler_length : forall t, length (euler t) = 2 * length (ids t).
Proof.
  induction t as [x ks IH] using rose_ind'.
  rewrite euler_unfold, ids_unfold. cbn [length]. rewrite app_length. cbn [length].
  assert (E : length (flat_map euler ks) = 2 * length (flat_map ids ks)).
  { induction IH as [|k r Hk _ IHr]; [reflexivity|].
    cbn [flat_map]. rewrite !app_length, Hk, IHr. lia. }
  rewrite E. lia.
Qed.

Lemma starts_euler : forall t, starts (euler t) = ids t.
Proof.
  induction t as [x ks IH] using rose_ind'.
  rewrite euler_unfold, ids_unfold. unfold starts in *. cbn [flat_map app].
  rewrite flat_map_app. cbn [flat_map app]. rewrite app_nil_r. f_equal.
  induction IH as [|k r Hk _ IHr]; [reflexivity|].
  cbn [flat_map]. rewrite flat_map_app, Hk, IHr. reflexivity.
Qed.

Lemma length_kids_le : forall ks : list rose, length ks <= length (flat_map ids ks).
Proof.
  induction ks as [|[c kc] r IH]; [reflexivity|].
  cbn [flat_map]. rewrite app_length, ids_unfold. cbn [length]. lia.
Qed.

Lemma in_roots_ids : forall ks y, In y (map root ks) -> In y (flat_map ids ks).
Proof.
  intros ks y H. apply in_map_iff in H. destruct H as (k & <- & Hk).
  apply in_flat_map. exists k. split; auto. apply root_in_ids.
Qed.

Lemma NoDup_roots : forall ks, NoDup (map idx (flat_map ids ks)) -> NoDup (map idx (map root ks)).
Proof.
  induction ks as [|[c kc] r IH]; intros H; [constructor|].
  cbn [flat_map] in H. rewrite ids_unfold in H. rewrite map_app in H.
  cbn [map] in H. cbn [app] in H. inversion H as [|? ? Hc Hr]; subst.
  apply NoDup_app_inv in Hr. destruct Hr as (_ & Hr & _).
  cbn [map root]. constructor; auto.
  intros Hi. apply Hc. apply in_or_app. right.
  apply in_map_iff in Hi. destruct Hi as (y & Ey & Hy).
  apply in_map_iff. exists y. split; auto. apply in_roots_ids; auto.
Qed.

(* ====================================================================== *)
(* Trees laid out in an arena                                              *)
(* ====================================================================== *)

Lemma embeds_node_at : forall a t, embeds a t -> forall y, In y (ids t) -> exists n, node_at a y n.
Proof.
  intros a. induction t as [x ks IH] using rose_ind'. intros E y Hy.
  inversion E as [x' ks' n Hn Hf Hl Hc Hks]; subst.
  rewrite ids_unfold in Hy. destruct Hy as [<-|Hy]; [eauto|].
  apply in_flat_map in Hy. destruct Hy as (k & Hk & Hy).
  rewrite Forall_forall in IH, Hks. apply (IH k); auto.
Qed.

(* pigeonhole on distinct in-range indices *)
Lemma tree_in_bound : forall a t, tree_in a t -> length (ids t) <= length (nodes a).
Proof.
  intros a t [E ND].
  rewrite <- (map_length idx (ids t)), <- (seq_length (length (nodes a)) 0).
  apply NoDup_incl_length; auto.
  intros i Hi. apply in_map_iff in Hi. destruct Hi as (y & <- & Hy).
  destruct (embeds_node_at a t E y Hy) as (n & Hn). unfold node_at in Hn.
  apply in_seq. split; [lia|]. cbn. apply nth_error_Some. congruence.
Qed.

Lemma chain_from_linked : forall a p pv xs, chain_from a p pv xs -> linked a xs.
Proof.
  intros a p pv xs. revert pv. induction xs as [|x r IH]; intros pv H; [exact I|].
  destruct H as (n & Hn & Hp & Hpv & Hnx & Hc).
  destruct r as [|y r'].
  - exists n. exact Hn.
  - pose proof (IH _ Hc) as Hl.
    destruct Hc as (m & Hm & Hpm & Hpvm & _).
    exists n, m. repeat split; auto.
Qed.

(* the last element of a complete sibling chain has no next sibling *)
Lemma chain_from_last : forall a p xs pv c, chain_from a p pv xs -> last_error xs = Some c ->
  exists m, node_at a c m /\ parent m = Some p /\ next m = None.
Proof.
  intros a p. induction xs as [|x r IH]; intros pv c H Hl; [discriminate|].
  destruct H as (n & Hn & Hp & Hpv & Hnx & Hc).
  destruct r as [|y r'].
  - inversion Hl; subst. exists n. auto.
  - rewrite last_error_cons in Hl. eapply IH; eauto.
Qed.

(* the [prev] links of a chain alone (unlike [chain_from], closed under taking prefixes) *)
Fixpoint pchain (a : arena) (pv : option nid) (xs : list nid) : Prop :=
  match xs with
  | [] => True
  | x :: r => exists n, node_at a x n /\ prev n = pv /\ pchain a (Some x) r
  end.

Lemma chain_from_pchain : forall a p xs pv, chain_from a p pv xs -> pchain a pv xs.
Proof.
  intros a p. induction xs as [|x r IH]; intros pv H; [exact I|].
  destruct H as (n & Hn & Hp & Hpv & Hnx & Hc). exists n. auto.
Qed.

Lemma pchain_snoc_inv : forall a xs pv z, pchain a pv (xs ++ [z]) ->
  pchain a pv xs /\ exists m, node_at a z m /\ prev m = or_else (last_error xs) pv.
Proof.
  intros a. induction xs as [|x r IH]; intros pv z H.
  - destruct H as (n & Hn & Hpv & Hc). split; [exact I|].
    exists n. split; [exact Hn|]. rewrite Hpv. reflexivity.
  - cbn [app] in H. destruct H as (n & Hn & Hpv & Hc).
    destruct (IH _ _ Hc) as (Hc' & m & Hm & Hpm). split.
    + exists n. auto.
    + exists m. split; auto. rewrite Hpm. destruct r as [|y r']; [reflexivity|].
      rewrite last_error_cons. reflexivity.
Qed.

(* ====================================================================== *)
(* next_traverse / prev_traverse on a known slot                           *)
(* ====================================================================== *)

Lemma nt_start : forall a x n, node_at a x n ->
  next_traverse (Start x) a
  = Ok (match first n with Some c => Some (Start c) | None => Some (End_ x) end).
Proof.
  unfold node_at. intros a x n H. unfold next_traverse, rbind, rrdi, rrd. rewrite H.
  destruct (first n); reflexivity.
Qed.

Lemma nt_end : forall a x n, node_at a x n ->
  next_traverse (End_ x) a
  = Ok (match next n with Some s => Some (Start s) | None => option_map End_ (parent n) end).
Proof.
  unfold node_at. intros a x n H. unfold next_traverse, rbind, rrdi, rrd. rewrite H.
  destruct (next n); reflexivity.
Qed.

Lemma pt_end : forall a x n, node_at a x n ->
  prev_traverse (End_ x) a
  = Ok (match last n with Some c => Some (End_ c) | None => Some (Start x) end).
Proof.
  unfold node_at. intros a x n H. unfold prev_traverse, rbind, rrdi, rrd. rewrite H.
  destruct (last n); reflexivity.
Qed.

Lemma pt_start : forall a x n, node_at a x n ->
  prev_traverse (Start x) a
  = Ok (match prev n with Some s => Some (End_ s) | None => option_map Start (parent n) end).
Proof.
  unfold node_at. intros a x n H. unfold prev_traverse, rbind, rrdi, rrd. rewrite H.
  destruct (prev n); reflexivity.
Qed.

(* ====================================================================== *)
(* Paths: lists whose consecutive elements are related                     *)
(* ====================================================================== *)

Fixpoint path (R : edge -> edge -> Prop) (l : list edge) : Prop :=
  match l with
  | [] => True
  | e :: r => match r with [] => True | e' :: _ => R e e' end /\ path R r
  end.

Lemma path_app : forall R l1 l2, path R l1 -> path R l2 ->
  (forall e e', last_error l1 = Some e -> hd_error l2 = Some e' -> R e e') ->
  path R (l1 ++ l2).
Proof.
  intros R. induction l1 as [|x r IH]; intros l2 H1 H2 J; [exact H2|].
  destruct H1 as [Hx Hr]. cbn [app path]. split.
  - destruct r as [|y r']; cbn [app].
    + destruct l2 as [|e' l2']; [exact I|]. apply J; reflexivity.
    + exact Hx.
  - apply IH; auto. intros e e' He He'. apply J; auto.
    destruct r as [|y r']; [discriminate|]. rewrite last_error_cons. exact He.
Qed.

Lemma path_impl : forall (R R' : edge -> edge -> Prop) l,
  (forall e e', R e e' -> R' e e') -> path R l -> path R' l.
Proof.
  intros R R' l H. induction l as [|x r IH]; intros Hp; [exact I|].
  destruct Hp as [Hx Hr]. split; auto. destruct r; auto.
Qed.

Lemma path_rev : forall R l, path R l -> path (fun e e' => R e' e) (rev l).
Proof.
  intros R. induction l as [|x r IH]; intros H; [exact I|].
  destruct H as [Hx Hr]. cbn [rev]. apply path_app; auto.
  - cbn. auto.
  - intros e e' He He'. rewrite last_error_rev in He. inversion He'; subst e'.
    destruct r as [|y r']; [discriminate|]. inversion He; subst e. exact Hx.
Qed.

Lemma path_nth : forall R l i e e', path R l ->
  nth_error l i = Some e -> nth_error l (S i) = Some e' -> R e e'.
Proof.
  intros R. induction l as [|x r IH]; intros i e e' H H1 H2.
  - destruct i; discriminate.
  - destruct H as [Hx Hr]. destruct i as [|i].
    + cbn in H1. inversion H1; subst x. destruct r as [|y r']; [discriminate|].
      cbn in H2. inversion H2; subst y. exact Hx.
    + cbn [nth_error] in H1. change (nth_error (x :: r) (S (S i))) with (nth_error r (S i)) in H2.
      eapply IH; eauto.
Qed.

(* ====================================================================== *)
(* The Euler tour is a path of next_traverse / prev_traverse steps         *)
(* ====================================================================== *)

Definition step (a : arena) (e e' : edge) : Prop :=
  next_traverse e a = Ok (Some e') /\ prev_traverse e' a = Ok (Some e).

(* the tours of a sibling chain under x, followed by End x *)
Lemma forest_path : forall a x ks pv,
  chain_from a x pv (map root ks) ->
  Forall (fun k => path (step a) (euler k)) ks ->
  (forall c, last_error (map root ks) = Some c -> step a (End_ c) (End_ x)) ->
  path (step a) (flat_map euler ks ++ [End_ x]).
Proof.
  intros a x. induction ks as [|k1 r IH]; intros pv Hc HF Hend.
  - cbn. auto.
  - cbn [flat_map]. rewrite <- app_assoc.
    cbn [map] in Hc. destruct Hc as (n1 & Hn1 & Hp1 & Hpv1 & Hnx1 & Hc').
    inversion HF as [|? ? Hk1 Hr]; subst.
    apply path_app; auto.
    + apply IH with (pv := Some (root k1)); auto.
      intros c Hc0. apply Hend. destruct r as [|k2 r']; [discriminate|].
      cbn [map] in *. rewrite last_error_cons. exact Hc0.
    + intros e e' He He'. rewrite euler_last in He. inversion He; subst e.
      destruct r as [|[c2 ks2] r'].
      * cbn in He'. inversion He'; subst e'. apply Hend. reflexivity.
      * cbn in He'. inversion He'; subst e'.
        cbn [map root chain_from] in Hc'. destruct Hc' as (n2 & Hn2 & Hp2 & Hpv2 & _).
        cbn [map root hd_error] in Hnx1.
        split.
        -- rewrite (nt_end _ _ _ Hn1), Hnx1. reflexivity.
        -- rewrite (pt_start _ _ _ Hn2), Hpv2. reflexivity.
Qed.

Lemma euler_path : forall a t, embeds a t -> path (step a) (euler t).
Proof.
  intros a. induction t as [x ks IH] using rose_ind'. intros E.
  inversion E as [x' ks' n Hn Hf Hl Hc Hks]; subst.
  pose proof (Forall_mp _ _ _ IH Hks) as HF.
  rewrite euler_unfold. cbn [path]. split.
  - destruct ks as [|[c1 ks1] r].
    + cbn. cbn in Hf, Hl. split.
      * rewrite (nt_start _ _ _ Hn), Hf. reflexivity.
      * rewrite (pt_end _ _ _ Hn), Hl. reflexivity.
    + cbn [flat_map]. rewrite euler_unfold. cbn [app].
      cbn [map root hd_error] in Hf.
      cbn [map root chain_from] in Hc. destruct Hc as (n1 & Hn1 & Hp1 & Hpv1 & _).
      split.
      * rewrite (nt_start _ _ _ Hn), Hf. reflexivity.
      * rewrite (pt_start _ _ _ Hn1), Hpv1, Hp1. reflexivity.
  - apply forest_path with (pv := None); auto.
    intros c Hlc. destruct (chain_from_last _ _ _ _ _ Hc Hlc) as (m & Hm & Hpm & Hnm).
    split.
    + rewrite (nt_end _ _ _ Hm), Hnm, Hpm. reflexivity.
    + rewrite (pt_end _ _ _ Hn), Hl, Hlc. reflexivity.
Qed.

(* consecutive edges of the Euler tour are exactly one next_traverse / prev_traverse step apart *)
Theorem euler_steps : forall a t i e e', tree_in a t ->
  nth_error (euler t) i = Some e -> nth_error (euler t) (S i) = Some e' ->
  next_traverse e a = Ok (Some e') /\ prev_traverse e' a = Ok (Some e).
Proof.
  intros a t i e e' [E _] H1 H2.
  exact (path_nth (step a) (euler t) i e e' (euler_path a t E) H1 H2).
Qed.

(* ====================================================================== *)
(* Following a path with the fuelled loops                                 *)
(* ====================================================================== *)

Lemma traverse_loop_none : forall f r a, traverse_loop f r None a = Ok [].
Proof. intros [|f] r a; reflexivity. Qed.

Lemma rtraverse_loop_none : forall f r a, rtraverse_loop f r None a = Ok [].
Proof. intros [|f] r a; reflexivity. Qed.

Lemma snoc_is_cons : forall {A} (l : list A) z, exists e q, l ++ [z] = e :: q.
Proof. intros A [|x l] z; cbn; eauto. Qed.

Lemma trav_follow : forall a rt l fuel,
  path (fun e e' => next_traverse e a = Ok (Some e')) (l ++ [End_ rt]) ->
  ~ In (End_ rt) l -> length l < fuel ->
  traverse_loop fuel rt (hd_error (l ++ [End_ rt])) a = Ok (l ++ [End_ rt]).
Proof.
  intros a rt. induction l as [|e l IH]; intros fuel Hp Hn Hlen.
  - destruct fuel as [|f]; [inversion Hlen|].
    cbn [app hd_error traverse_loop]. unfold rbind. rewrite edge_eqb_refl.
    unfold rret. rewrite traverse_loop_none. reflexivity.
  - destruct fuel as [|f]; [inversion Hlen|].
    cbn [length] in Hlen.
    assert (Hne : edge_eqb e (End_ rt) = false).
    { apply edge_eqb_neq. intros ->. apply Hn. left. reflexivity. }
    assert (IH' := IH f).
    cbn [app] in Hp. destruct (snoc_is_cons l (End_ rt)) as (e2 & q & Eq).
    rewrite Eq in Hp, IH'. destruct Hp as [Hs Hp].
    cbn [app hd_error traverse_loop]. unfold rbind at 1. rewrite Hne, Hs.
    unfold rbind. rewrite Eq. cbn [hd_error] in IH'. rewrite IH'; auto.
    + intros Hi. apply Hn. right. exact Hi.
    + lia.
Qed.

Lemma rtrav_follow : forall a rt l fuel,
  path (fun e e' => prev_traverse e a = Ok (Some e')) (l ++ [Start rt]) ->
  ~ In (Start rt) l -> length l < fuel ->
  rtraverse_loop fuel rt (hd_error (l ++ [Start rt])) a = Ok (l ++ [Start rt]).
Proof.
  intros a rt. induction l as [|e l IH]; intros fuel Hp Hn Hlen.
  - destruct fuel as [|f]; [inversion Hlen|].
    cbn [app hd_error rtraverse_loop]. unfold rbind. rewrite edge_eqb_refl.
    unfold rret. rewrite rtraverse_loop_none. reflexivity.
  - destruct fuel as [|f]; [inversion Hlen|].
    cbn [length] in Hlen.
    assert (Hne : edge_eqb e (Start rt) = false).
    { apply edge_eqb_neq. intros ->. apply Hn. left. reflexivity. }
    assert (IH' := IH f).
    cbn [app] in Hp. destruct (snoc_is_cons l (Start rt)) as (e2 & q & Eq).
    rewrite Eq in Hp, IH'. destruct Hp as [Hs Hp].
    cbn [app hd_error rtraverse_loop]. unfold rbind at 1. rewrite Hne, Hs.
    unfold rbind. rewrite Eq. cbn [hd_error] in IH'. rewrite IH'; auto.
    + intros Hi. apply Hn. right. exact Hi.
    + lia.
Qed.

Lemma root_not_in_forest : forall x ks, NoDup (map idx (ids (T x ks))) -> ~ In x (flat_map ids ks).
Proof.
  intros x ks H Hi. rewrite ids_unfold in H. cbn [map] in H.
  inversion H as [|? ? Hx _]; subst. apply Hx. apply in_map. exact Hi.
Qed.

Lemma trav_fuel_enough : forall a t, tree_in a t -> length (euler t) < trav_fuel a.
Proof.
  intros a t H. pose proof (tree_in_bound a t H). rewrite euler_length.
  unfold trav_fuel. lia.
Qed.

Theorem traverse_euler : forall a t, tree_in a t -> traverse (root t) a = Ok (euler t).
Proof.
  intros a t H. pose proof (trav_fuel_enough a t H) as Hfuel.
  destruct H as [E ND]. pose proof (euler_path a t E) as Hp.
  destruct t as [x ks]. unfold traverse. cbn [root].
  remember (trav_fuel a) as fuel eqn:Ef. clear Ef.
  rewrite euler_unfold in *.
  change (Start x :: flat_map euler ks ++ [End_ x])
    with ((Start x :: flat_map euler ks) ++ [End_ x]) in *.
  change (Some (Start x)) with (hd_error ((Start x :: flat_map euler ks) ++ [End_ x])).
  apply trav_follow.
  - eapply path_impl; [|exact Hp]. intros e e' [Hs _]. exact Hs.
  - intros [Hi|Hi]; [discriminate|].
    apply in_forest_euler_ids in Hi. exact (root_not_in_forest x ks ND Hi).
  - rewrite app_length in Hfuel. cbn [length] in *. lia.
Qed.

Lemma rev_euler : forall x ks,
  rev (euler (T x ks)) = (End_ x :: rev (flat_map euler ks)) ++ [Start x].
Proof.
  intros x ks. rewrite euler_unfold. cbn [rev]. rewrite rev_unit. reflexivity.
Qed.

Theorem reverse_traverse_euler : forall a t, tree_in a t ->
  reverse_traverse (root t) a = Ok (rev (euler t)).
Proof.
  intros a t H. pose proof (trav_fuel_enough a t H) as Hfuel.
  destruct H as [E ND]. pose proof (path_rev _ _ (euler_path a t E)) as Hp.
  rewrite <- rev_length in Hfuel.
  destruct t as [x ks]. unfold reverse_traverse. cbn [root].
  remember (trav_fuel a) as fuel eqn:Ef. clear Ef.
  rewrite rev_euler in *.
  change (Some (End_ x)) with (hd_error ((End_ x :: rev (flat_map euler ks)) ++ [Start x])).
  apply rtrav_follow.
  - eapply path_impl; [|exact Hp]. intros e e' [_ Hs]. exact Hs.
  - intros [Hi|Hi]; [discriminate|].
    apply in_rev in Hi. apply in_forest_euler_ids in Hi. exact (root_not_in_forest x ks ND Hi).
  - rewrite app_length in Hfuel. cbn [length] in *. lia.
Qed.

Theorem descendants_preorder : forall a t, tree_in a t -> descendants (root t) a = Ok (ids t).
Proof.
  intros a t H. unfold descendants, rbind. rewrite (traverse_euler a t H).
  unfold rret. rewrite starts_euler. reflexivity.
Qed.

(* ====================================================================== *)
(* Runs of siblings, generically in the two link fields                    *)
(* ====================================================================== *)

Inductive glinked (f g : node -> option nid) (a : arena) : list nid -> Prop :=
  | gl_nil : glinked f g a []
  | gl_one : forall x n, node_at a x n -> glinked f g a [x]
  | gl_cons : forall x y r n m, node_at a x n -> node_at a y m -> f n = Some y -> g m = Some x ->
      glinked f g a (y :: r) -> glinked f g a (x :: y :: r).

(* what adding y behind a run whose last element is o requires *)
Definition junc (f g : node -> option nid) (a : arena) (o : option nid) (y : nid) : Prop :=
  match o with
  | None => exists n, node_at a y n
  | Some x => exists n m, node_at a x n /\ node_at a y m /\ f n = Some y /\ g m = Some x
  end.

Lemma linked_glinked : forall a xs, linked a xs -> glinked next prev a xs.
Proof.
  intros a. induction xs as [|x r IH]; intros H; [constructor|].
  destruct r as [|y r'].
  - destruct H as (n & Hn). econstructor; eauto.
  - destruct H as (n & m & Hn & Hm & Hnx & Hpv & Hl). econstructor; eauto.
Qed.

Lemma glinked_tail : forall f g a x r, glinked f g a (x :: r) -> glinked f g a r.
Proof. intros f g a x r H. inversion H; subst; auto. constructor. Qed.

Lemma glinked_snoc : forall f g a xs y, glinked f g a xs -> junc f g a (last_error xs) y ->
  glinked f g a (xs ++ [y]).
Proof.
  intros f g a xs y H. induction H as [|x n Hn|x y0 r n m Hn Hm Hf Hg Hr IH]; intros J.
  - destruct J as (n & Hn). econstructor; eauto.
  - destruct J as (n' & m & Hn' & Hm & Hf & Hg). cbn [app].
    eapply gl_cons; eauto. econstructor; eauto.
  - rewrite last_error_cons in J. cbn [app]. eapply gl_cons; eauto.
Qed.

Lemma glinked_snoc_inv : forall f g a xs y, glinked f g a (xs ++ [y]) ->
  glinked f g a xs /\ junc f g a (last_error xs) y.
Proof.
  intros f g a. induction xs as [|x r IH]; intros y H.
  - cbn [app] in H. inversion H; subst. split; [constructor|]. cbn. eauto.
  - destruct r as [|x2 r'].
    + cbn [app] in H. inversion H; subst. split; [econstructor; eauto|].
      cbn. eauto 10.
    + cbn [app] in H. inversion H as [| |? ? ? n m Hn Hm Hf Hg Hr]; subst.
      destruct (IH y Hr) as (Hr' & J). split.
      * eapply gl_cons; eauto.
      * rewrite last_error_cons. exact J.
Qed.

Lemma glinked_rev : forall f g a xs, glinked f g a xs -> glinked g f a (rev xs).
Proof.
  intros f g a xs H. induction H as [|x n Hn|x y r n m Hn Hm Hf Hg Hr IH].
  - constructor.
  - econstructor; eauto.
  - change (rev (x :: y :: r)) with (rev (y :: r) ++ [x]).
    apply glinked_snoc; auto. rewrite last_error_rev. cbn. eauto 10.
Qed.

Lemma de_spec_back : forall s z ps, de_spec (s ++ [z]) (false :: ps) = Some z :: de_spec s ps.
Proof.
  intros [|x r] z ps; [reflexivity|].
  cbn [app de_spec]. rewrite last_last.
  change (x :: r ++ [z]) with ((x :: r) ++ [z]). rewrite removelast_last. reflexivity.
Qed.

Lemma de_pulls_gen : forall k a pulls xs,
  glinked (de_fwd k) (de_bwd k) a xs -> NoDup (map idx xs) ->
  de_pulls k pulls (hd_error xs, last_error xs) a = Ok (de_spec xs pulls).
Proof.
  intros k a. induction pulls as [|b ps IH]; intros xs HL ND; [reflexivity|].
  destruct b.
  - (* next() *)
    destruct xs as [|x r].
    + cbn [de_pulls hd_error last_error de_next]. unfold rbind, rret. cbn [snd fst].
      pose proof (IH [] HL ND) as IH0. cbn [hd_error last_error] in IH0. rewrite IH0. reflexivity.
    + destruct r as [|y r'].
      * cbn [de_pulls hd_error last_error de_next List.last]. rewrite nid_eqb_refl.
        unfold rbind, rret. cbn [snd fst].
        pose proof (IH [] (gl_nil _ _ _) (NoDup_nil _)) as IH0. cbn [hd_error last_error] in IH0. rewrite IH0. reflexivity.
      * inversion HL as [| |? ? ? n m Hn Hm Hf Hg Hr]; subst.
        cbn [map] in ND. inversion ND as [|? ? Hx ND']; subst.
        assert (Hne : nid_eqb x (List.last (y :: r') x) = false).
        { apply nid_eqb_idx_neq. intros Eq. apply Hx. rewrite Eq.
          change (idx y :: map idx r') with (map idx (y :: r')). apply in_map. apply last_in. }
        cbn [de_pulls hd_error last_error de_next]. rewrite Hne.
        unfold node_at in Hn. unfold rbind, rret, rrdi, rrd. rewrite Hn. cbn [snd fst]. rewrite Hf.
        rewrite last_cons.
        pose proof (IH (y :: r') Hr ND') as IH'. cbn [hd_error last_error] in IH'.
        unfold rbind, rret in IH'. rewrite IH'. reflexivity.
  - (* next_back() *)
    destruct (snoc_case xs) as [->|(s & z & ->)].
    + cbn [de_pulls hd_error last_error de_next_back]. unfold rbind, rret. cbn [snd fst].
      pose proof (IH [] HL ND) as IH0. cbn [hd_error last_error] in IH0. rewrite IH0. reflexivity.
    + rewrite de_spec_back, last_error_snoc.
      destruct (glinked_snoc_inv _ _ _ _ _ HL) as (HL' & J).
      rewrite map_app in ND. apply NoDup_app_inv in ND. destruct ND as (ND' & _ & Hdis).
      destruct s as [|x r].
      * cbn [app de_pulls hd_error de_next_back]. rewrite nid_eqb_refl.
        unfold rbind, rret. cbn [snd fst].
        pose proof (IH [] HL' ND') as IH0. cbn [hd_error last_error] in IH0. rewrite IH0. reflexivity.
      * assert (Hne : nid_eqb x z = false).
        { apply nid_eqb_idx_neq. intros Eq. apply (Hdis (idx x)).
          - left. reflexivity.
          - left. symmetry. exact Eq. }
        cbn [last_error junc] in J. destruct J as (n & m & Hn & Hm & Hf & Hg).
        cbn [app de_pulls hd_error de_next_back]. rewrite Hne.
        unfold node_at in Hm. unfold rbind, rret, rrdi, rrd. rewrite Hm. cbn [snd fst]. rewrite Hg.
        pose proof (IH (x :: r) HL' ND') as IH'. cbn [hd_error last_error] in IH'.
        unfold rbind, rret in IH'. rewrite IH'. reflexivity.
Qed.

Lemma de_collect_gen : forall k a xs fuel,
  glinked (de_fwd k) (de_bwd k) a xs -> NoDup (map idx xs) -> length xs < fuel ->
  de_collect k fuel (hd_error xs, last_error xs) a = Ok xs.
Proof.
  intros k a. induction xs as [|x r IH]; intros fuel HL ND Hlen.
  - destruct fuel as [|f]; [inversion Hlen|]. reflexivity.
  - destruct fuel as [|f]; [inversion Hlen|]. cbn [length] in Hlen.
    destruct r as [|y r'].
    + cbn [de_collect hd_error last_error de_next List.last]. rewrite nid_eqb_refl.
      unfold rbind, rret.
      pose proof (IH f (gl_nil _ _ _) (NoDup_nil _)) as IH'. cbn [hd_error last_error] in IH'.
      rewrite IH'; [reflexivity|cbn [length] in *; lia].
    + inversion HL as [| |? ? ? n m Hn Hm Hf Hg Hr]; subst.
      cbn [map] in ND. inversion ND as [|? ? Hx ND']; subst.
      assert (Hne : nid_eqb x (List.last (y :: r') x) = false).
      { apply nid_eqb_idx_neq. intros Eq. apply Hx. rewrite Eq.
        change (idx y :: map idx r') with (map idx (y :: r')). apply in_map. apply last_in. }
      cbn [de_collect hd_error last_error de_next]. rewrite Hne.
      unfold node_at in Hn. unfold rbind, rret, rrdi, rrd. rewrite Hn. rewrite Hf.
      rewrite last_cons.
      pose proof (IH f Hr ND') as IH'. cbn [hd_error last_error] in IH'.
      unfold rbind, rret in IH'. rewrite IH'; [reflexivity|lia].
Qed.

(* the double-ended state machine obeys the DoubleEndedIterator laws on any linked run *)
Theorem de_pulls_fwd : forall a xs pulls, linked a xs -> NoDup (map idx xs) ->
  de_pulls DChildren pulls (hd_error xs, last_error xs) a = Ok (de_spec xs pulls)
  /\ de_pulls DFollowing pulls (hd_error xs, last_error xs) a = Ok (de_spec xs pulls).
Proof.
  intros a xs pulls HL ND. apply linked_glinked in HL.
  split; apply de_pulls_gen; auto.
Qed.

Lemma NoDup_idx_rev : forall xs : list nid, NoDup (map idx xs) -> NoDup (map idx (rev xs)).
Proof. intros xs H. rewrite map_rev. apply NoDup_rev. exact H. Qed.

Theorem de_pulls_bwd : forall a xs pulls, linked a xs -> NoDup (map idx xs) ->
  de_pulls DPreceding pulls (last_error xs, hd_error xs) a = Ok (de_spec (rev xs) pulls).
Proof.
  intros a xs pulls HL ND. apply linked_glinked in HL. apply glinked_rev in HL.
  replace (last_error xs, hd_error xs) with (hd_error (rev xs), last_error (rev xs))
    by (rewrite hd_error_rev, last_error_rev; reflexivity).
  apply de_pulls_gen; auto. apply NoDup_idx_rev; auto.
Qed.

Theorem de_collect_fwd : forall a xs fuel, linked a xs -> NoDup (map idx xs) -> length xs < fuel ->
  de_collect DChildren fuel (hd_error xs, last_error xs) a = Ok xs
  /\ de_collect DFollowing fuel (hd_error xs, last_error xs) a = Ok xs.
Proof.
  intros a xs fuel HL ND Hlen. apply linked_glinked in HL.
  split; apply de_collect_gen; auto.
Qed.

Theorem de_collect_bwd : forall a xs fuel, linked a xs -> NoDup (map idx xs) -> length xs < fuel ->
  de_collect DPreceding fuel (last_error xs, hd_error xs) a = Ok (rev xs).
Proof.
  intros a xs fuel HL ND Hlen. apply linked_glinked in HL. apply glinked_rev in HL.
  replace (last_error xs, hd_error xs) with (hd_error (rev xs), last_error (rev xs))
    by (rewrite hd_error_rev, last_error_rev; reflexivity).
  apply de_collect_gen; auto.
  - apply NoDup_idx_rev; auto.
  - rewrite rev_length. exact Hlen.
Qed.

(* ====================================================================== *)
(* children / reverse_children                                             *)
(* ====================================================================== *)

Lemma kids_facts : forall a x ks, tree_in a (T x ks) ->
  exists n, node_at a x n /\ first n = hd_error (map root ks) /\ last n = last_error (map root ks)
            /\ chain_from a x None (map root ks)
            /\ NoDup (map idx (map root ks))
            /\ S (length (map root ks)) <= length (nodes a).
Proof.
  intros a x ks H. pose proof (tree_in_bound _ _ H) as Hb. destruct H as [E ND].
  inversion E as [x' ks' n Hn Hf Hl Hc Hks]; subst.
  exists n. repeat split; auto.
  - rewrite ids_unfold in ND. cbn [map] in ND. inversion ND; subst. apply NoDup_roots; auto.
  - rewrite ids_unfold in Hb. cbn [length] in Hb. rewrite map_length.
    pose proof (length_kids_le ks). lia.
Qed.

Theorem children_kids : forall a t, tree_in a t -> children (root t) a = Ok (map root (kids t)).
Proof.
  intros a [x ks] H. destruct (kids_facts a x ks H) as (n & Hn & Hf & Hl & Hc & ND & Hlen).
  cbn [root kids]. unfold children, de_iter, de_new. unfold node_at in Hn.
  unfold rbind at 1. unfold rbind at 1. unfold rrdi, rrd. rewrite Hn. unfold rret at 1.
  rewrite Hf, Hl.
  apply (de_collect_fwd a (map root ks)); auto.
  - eapply chain_from_linked; eauto.
  - unfold chain_fuel. lia.
Qed.

Theorem children_pulls : forall a t pulls, tree_in a t ->
  de_run DChildren (root t) pulls a = Ok (de_spec (map root (kids t)) pulls).
Proof.
  intros a [x ks] pulls H. destruct (kids_facts a x ks H) as (n & Hn & Hf & Hl & Hc & ND & Hlen).
  cbn [root kids]. unfold de_run, de_new. unfold node_at in Hn.
  unfold rbind at 1. unfold rbind at 1. unfold rrdi, rrd. rewrite Hn. unfold rret at 1.
  rewrite Hf, Hl.
  apply (de_pulls_fwd a (map root ks)); auto.
  eapply chain_from_linked; eauto.
Qed.

Lemma iter_collect_none : forall nf fuel a, iter_collect nf fuel None a = Ok [].
Proof. intros nf [|f] a; reflexivity. Qed.

Lemma iter_prev_chain : forall a xs fuel, pchain a None xs -> length xs <= fuel ->
  iter_collect prev fuel (last_error xs) a = Ok (rev xs).
Proof.
  intros a xs. induction xs as [|z s IH] using rev_ind; intros fuel Hc Hlen.
  - apply iter_collect_none.
  - rewrite app_length in Hlen. cbn [length] in Hlen.
    destruct fuel as [|f]; [lia|].
    apply pchain_snoc_inv in Hc. destruct Hc as (Hc & m & Hm & Hpm).
    rewrite last_error_snoc, rev_unit. cbn [iter_collect].
    unfold node_at in Hm. unfold rbind at 1. unfold rrdi, rrd. rewrite Hm.
    unfold rbind, rret. rewrite Hpm.
    replace (or_else (last_error s) None) with (last_error s) by (destruct (last_error s); reflexivity).
    rewrite IH; auto. lia.
Qed.

Theorem reverse_children_kids : forall a t, tree_in a t ->
  reverse_children (root t) a = Ok (rev (map root (kids t))).
Proof.
  intros a [x ks] H. destruct (kids_facts a x ks H) as (n & Hn & Hf & Hl & Hc & ND & Hlen).
  cbn [root kids]. unfold reverse_children. unfold node_at in Hn.
  unfold rbind, rrdi, rrd. rewrite Hn. rewrite Hl.
  apply iter_prev_chain; [eapply chain_from_pchain; eauto|]. unfold chain_fuel. lia.
Qed.

(* ====================================================================== *)

Print Assumptions euler_steps.
Print Assumptions traverse_euler.
Print Assumptions reverse_traverse_euler.
Print Assumptions descendants_preorder.
Print Assumptions children_kids.
Print Assumptions reverse_children_kids.
Print Assumptions de_pulls_fwd.
Print Assumptions de_pulls_bwd.
Print Assumptions de_collect_fwd.
Print Assumptions de_collect_bwd.
Print Assumptions children_pulls.
Print Assumptions euler_length.
Print Assumptions tree_in_bound.
Print Assumptions chain_from_linked.
Print Assumptions tree_in_a0.
Print Assumptions traverse_a0.
