(* StateProps.v — the state-level properties (C01, C02, C09, C10, C12 state part, C14) of every arena
   that represents some forest: [Repr a F] alone implies that the links are well formed, that the
   executable checkers of Monitor.v are silent, and that every iterator started at a live node
   returns its documented sequence.  No operation of the crate is involved. *)
From IT Require Import Props.
From IT.proofs Require Import TraverseProofs PrinterProofs ReprTree ReprBase.
From Coq Require Import Lia.
Local Open Scope nat_scope.

(* ====================================================================== *)
(* Lists                                                                   *)
(* ====================================================================== *)

Lemma NoDup_app_intro : forall {A} (l l' : list A),
  NoDup l -> NoDup l' -> (forall x, In x l -> In x l' -> False) -> NoDup (l ++ l').
Proof.
  intros A. induction l as [|x l IH]; intros l' H1 H2 HD; cbn [app]; auto.
  inversion H1 as [|? ? Hx Hl]; subst. constructor.
  - intros Hi. apply in_app_or in Hi. destruct Hi as [Hi|Hi]; auto.
    apply (HD x); auto. now left.
  - apply IH; auto. intros y Hy. apply HD. now right.
Qed.

Lemma flat_map_nil : forall {A B} (f : A -> list B) l, (forall x, In x l -> f x = []) -> flat_map f l = [].
Proof.
  intros A B f. induction l as [|x l IH]; intros H; cbn [flat_map]; auto.
  rewrite (H x) by (now left). rewrite IH; auto. intros y Hy. apply H. now right.
Qed.

Lemma nid_in_true : forall x l, nid_in x l = true <-> In x l.
Proof.
  intros x l. unfold nid_in. rewrite existsb_exists. split.
  - intros (y & Hy & E). apply nid_eqb_eq in E. now subst.
  - intros H. exists x. split; auto. apply nid_eqb_refl.
Qed.

Lemma nid_in_false : forall x l, ~ In x l -> nid_in x l = false.
Proof.
  intros x l H. destruct (nid_in x l) eqn:E; auto. apply nid_in_true in E. contradiction.
Qed.

Lemma nodup_b_true : forall l, NoDup l -> nodup_b l = true.
Proof.
  induction 1 as [|x l Hx Hl IH]; cbn [nodup_b]; auto.
  rewrite nid_in_false by auto. cbn. exact IH.
Qed.

Lemma last_opt_eq : forall l, last_opt l = last_error l.
Proof. intros [|x r]; reflexivity. Qed.

Lemma hd_last_none : forall {A} (l : list A), hd_error l = None <-> last_error l = None.
Proof. intros A [|x r]; cbn; split; auto; discriminate. Qed.

Lemma last_error_app_cons : forall {A} (l : list A) x r, last_error (l ++ x :: r) = last_error (x :: r).
Proof. intros. rewrite ReprBase.last_error_app. reflexivity. Qed.

Lemma hd_error_app_snoc : forall {A} (l : list A) x r, hd_error ((l ++ [x]) ++ r) = hd_error (l ++ [x]).
Proof. intros A [|y l] x r; reflexivity. Qed.

(* ====================================================================== *)
(* Slots                                                                   *)
(* ====================================================================== *)

Lemma in_slots_from : forall l k x n,
  In (x, n) (slots_from k l) <-> exists i, nth_error l i = Some n /\ x = mkId (k + i) (stamp n).
Proof.
  induction l as [|n0 r IH]; intros k x n; cbn [slots_from In].
  - split; [intros [] | intros ([|i] & H & _); discriminate].
  - rewrite IH. split.
    + intros [E|(i & Hi & ->)].
      * inversion E; subst. exists 0. split; auto. f_equal. lia.
      * exists (S i). split; auto. f_equal. lia.
    + intros ([|i] & Hi & ->).
      * cbn in Hi. inversion Hi; subst. left. f_equal. f_equal. lia.
      * right. exists i. split; auto. f_equal. lia.
Qed.

Lemma in_slots : forall a x n, In (x, n) (slots a) <-> node_at a x n /\ gen x = stamp n.
Proof.
  intros a x n. unfold slots. rewrite in_slots_from. unfold node_at. split.
  - intros (i & Hi & ->). cbn. auto.
  - intros [H G]. exists (idx x). split; auto. destruct x as [i g]. cbn in *. now subst.
Qed.

Lemma in_live_slots : forall a x n,
  In (x, n) (live_slots a) <-> node_at a x n /\ stamp n = gen x /\ (0 <= gen x)%Z.
Proof.
  intros a x n. unfold live_slots. rewrite filter_In, in_slots. cbn [snd].
  rewrite Z.leb_le. split.
  - intros [[H G] S]. repeat split; auto. lia.
  - intros (H & G & S). repeat split; auto. lia.
Qed.

Lemma live_slot_live : forall a x n, In (x, n) (live_slots a) -> live a x /\ nd a x = n.
Proof.
  intros a x n H. apply in_live_slots in H. destruct H as (H & G & S). split.
  - exists n. auto.
  - now apply nd_at.
Qed.

Lemma live_in_ids : forall a x, live a x -> In x (live_ids a).
Proof.
  intros a x (n & H & G & S). unfold live_ids. apply in_map_iff. exists (x, n). split; auto.
  apply in_live_slots. auto.
Qed.

Lemma live_ids_bound : forall a L, NoDup L -> (forall y, In y L -> live a y) ->
  length L <= length (live_ids a).
Proof.
  intros a L N LV. apply NoDup_incl_length; auto. intros y Hy. apply live_in_ids. auto.
Qed.

Lemma node_of_nd : forall a x, inr a x -> node_of a x = Some (nd a x).
Proof. intros. unfold node_of. now apply at_nd. Qed.

Lemma live_b_true : forall a x, live a x -> live_b a x = true.
Proof.
  intros a x L. unfold live_b. rewrite node_of_nd by (now apply live_inr).
  destruct (live_stamp _ _ L) as [S G]. rewrite S, Z.eqb_refl. cbn. apply Z.leb_le. exact G.
Qed.

(* ====================================================================== *)
(* Paths                                                                   *)
(* ====================================================================== *)

Lemma is_path_one : forall a link x, inr a x -> link (nd a x) = None -> is_path a link x [x].
Proof. intros a link x I H. split; auto. exists (nd a x). split; auto. now apply at_nd. Qed.

Lemma is_path_more : forall a link x z r, inr a x -> link (nd a x) = Some z ->
  is_path a link z r -> is_path a link x (x :: r).
Proof.
  intros a link x z r I H P. destruct r as [|z' r']; [destruct P|].
  assert (z' = z) by (destruct P; auto). subst z'.
  split; auto. exists (nd a x). split; [now apply at_nd|]. split; auto.
Qed.

Lemma is_path_inv : forall a link x l, is_path a link x l ->
  exists r, l = x :: r /\ inr a x /\
    match r with [] => link (nd a x) = None | z :: _ => link (nd a x) = Some z /\ is_path a link z r end.
Proof.
  intros a link x [|y r] H; [destruct H|]. destruct H as (-> & n & Hn & H).
  exists r. split; auto. split; [eapply node_inr; eauto|]. apply nd_at in Hn. now subst n.
Qed.

Lemma is_path_fun : forall a link l x l', is_path a link x l -> is_path a link x l' -> l = l'.
Proof.
  intros a link. induction l as [|y r IH]; intros x l' H H'; [destruct H|].
  apply is_path_inv in H, H'. destruct H as (r1 & E1 & _ & H1), H' as (r2 & -> & _ & H2).
  inversion E1; subst. f_equal.
  destruct r1 as [|z1 r1], r2 as [|z2 r2]; auto.
  - destruct H2. congruence.
  - destruct H1. congruence.
  - destruct H1 as [E1' P1], H2 as [E2' P2]. assert (z1 = z2) by congruence. subst. eapply IH; eauto.
Qed.

Lemma is_path_iter : forall a link l x fuel, is_path a link x l -> length l <= fuel ->
  iter_collect link fuel (Some x) a = Ok l.
Proof.
  intros a link. induction l as [|y r IH]; intros x fuel H Hlen; [destruct H|].
  apply is_path_inv in H. destruct H as (r1 & E & I & H). inversion E; subst y r1. clear E.
  cbn [length] in Hlen. destruct fuel as [|f]; [lia|].
  cbn [iter_collect]. unfold rbind at 1. unfold rrdi, rrd. rewrite (at_nd _ _ I).
  destruct r as [|z r'].
  - rewrite H. unfold rbind. rewrite iter_collect_none. reflexivity.
  - destruct H as [E P]. rewrite E. unfold rbind. rewrite (IH z f P) by (cbn [length] in *; lia).
    reflexivity.
Qed.

Lemma is_path_walk : forall a link l x fuel, is_path a link x l -> length l <= fuel ->
  walk_b link fuel a (Some x) = Some l.
Proof.
  intros a link. induction l as [|y r IH]; intros x fuel H Hlen; [destruct H|].
  apply is_path_inv in H. destruct H as (r1 & E & I & H). inversion E; subst y r1. clear E.
  cbn [length] in Hlen. destruct fuel as [|f]; [lia|].
  cbn [walk_b]. rewrite (node_of_nd _ _ I).
  destruct r as [|z r'].
  - rewrite H. destruct f; reflexivity.
  - destruct H as [E P]. rewrite E. rewrite (IH z f P) by (cbn [length] in *; lia). reflexivity.
Qed.

Lemma is_path_walk_end : forall a link l x fuel e, is_path a link x l -> length l <= fuel ->
  last_error l = Some e -> walk_end link fuel x a = Ok e.
Proof.
  intros a link. induction l as [|y r IH]; intros x fuel e H Hlen HL; [destruct H|].
  apply is_path_inv in H. destruct H as (r1 & E & I & H). inversion E; subst y r1. clear E.
  cbn [length] in Hlen. destruct fuel as [|f]; [lia|].
  cbn [walk_end]. unfold rbind, rrdi, rrd. rewrite (at_nd _ _ I).
  destruct r as [|z r'].
  - rewrite H. cbn in HL. inversion HL; subst. reflexivity.
  - destruct H as [E P]. rewrite E. rewrite TraverseProofs.last_error_cons in HL.
    apply (IH z f e P); auto. cbn [length] in *. lia.
Qed.

Lemma is_path_in_hd : forall a link x l, is_path a link x l -> hd_error l = Some x.
Proof. intros a link x l H. apply is_path_inv in H. destruct H as (r & -> & _). reflexivity. Qed.

(* ====================================================================== *)
(* Segments as paths and linked runs                                       *)
(* ====================================================================== *)

Lemma dseg_linked : forall a o xs pv nx, dseg a o pv xs nx -> linked a xs.
Proof.
  intros a o. induction xs as [|x r IH]; intros pv nx D; [exact I|].
  cbn [dseg] in D. destruct D as (n & Hn & _ & _ & Hx & D).
  destruct r as [|y r'].
  - exists n. exact Hn.
  - pose proof (IH _ _ D) as HL. cbn [dseg] in D. destruct D as (m & Hm & _ & Hv & _).
    exists n, m. repeat split; auto.
Qed.

Lemma dseg_next_path : forall a o B x pv, dseg a o pv (x :: B) None -> is_path a next x (x :: B).
Proof.
  intros a o. induction B as [|y B IH]; intros x pv D; apply dseg_cons in D;
    destruct D as (I & _ & _ & N & D); cbn in N.
  - now apply is_path_one.
  - eapply is_path_more; eauto.
Qed.

(* walking backwards from the last element of a segment whose first element has no prev: along any
   link that follows [prev] when there is one, continuing with [tailp] at the first element *)
Lemma dseg_back_path : forall a link tailp o A x nx,
  dseg a o None (A ++ [x]) nx ->
  (forall y z, prev (nd a y) = Some z -> link (nd a y) = Some z) ->
  (forall y, In y (A ++ [x]) -> prev (nd a y) = None ->
     match tailp with [] => link (nd a y) = None | p :: _ => link (nd a y) = Some p /\ is_path a link p tailp end) ->
  is_path a link x (rev (A ++ [x]) ++ tailp).
Proof.
  intros a link tailp o. induction A as [|y A IH] using rev_ind; intros x nx D HP HT.
  - cbn [app rev]. cbn [app] in D. apply dseg_cons in D. destruct D as (I & _ & V & _).
    specialize (HT x (or_introl eq_refl) V). destruct tailp as [|p t].
    + now apply is_path_one.
    + destruct HT as [E P]. eapply is_path_more; eauto.
  - pose proof (dseg_mid _ _ _ _ _ _ _ D) as [V _]. rewrite ReprBase.last_error_snoc in V. cbn in V.
    assert (I : inr a x). { eapply dseg_inr; eauto. apply in_or_app. right. now left. }
    apply dseg_app in D. destruct D as [D _].
    rewrite rev_unit. cbn [app]. eapply is_path_more; eauto.
    eapply IH; eauto. intros z Hz. apply HT. apply in_or_app. now left.
Qed.

Lemma dseg_prev_path : forall a o A x nx, dseg a o None (A ++ [x]) nx ->
  is_path a prev x (rev (A ++ [x])).
Proof.
  intros a o A x nx D. rewrite <- (app_nil_r (rev (A ++ [x]))).
  eapply dseg_back_path; eauto.
Qed.

(* ====================================================================== *)
(* Facts under Repr                                                        *)
(* ====================================================================== *)

Section Facts.
Variables (a : arena) (F : forest).
Hypothesis R : Repr a F.

(* the sibling list of a live node, split around it *)
Lemma sibs_split : forall x, live a x -> exists A B, sibs F (parent (nd a x)) (A ++ x :: B).
Proof.
  intros x L. destruct (sibs_of a F R x L) as (S & HS & Hx).
  apply in_split in Hx. destruct Hx as (A & B & ->). eauto.
Qed.

Lemma sibs_parts : forall o A x B, sibs F o (A ++ x :: B) ->
  dseg a o None (A ++ [x]) (hd_error B) /\ dseg a o (last_error A) (x :: B) None /\
  NoDup (A ++ [x]) /\ NoDup (x :: B) /\
  (forall y, In y (A ++ x :: B) -> live a y).
Proof.
  intros o A x B H. destruct (sibs_dseg a F R _ _ H) as [D N].
  assert (D2 := D). apply dseg_app in D2. destruct D2 as [_ D2].
  replace (or_else (last_error A) None) with (last_error A) in D2 by (destruct (last_error A); reflexivity).
  change (x :: B) with ([x] ++ B) in D, N. rewrite app_assoc in D, N.
  apply dseg_app in D. destruct D as [D _].
  replace (or_else (hd_error B) None) with (hd_error B) in D by (destruct (hd_error B); reflexivity).
  repeat split; auto.
  - eapply NoDup_app_left; eauto.
  - rewrite <- app_assoc in N. eapply NoDup_app_right; eauto.
  - intros y Hy. eapply sibs_live; eauto.
Qed.

Lemma next_back : forall x y, live a x -> next (nd a x) = Some y ->
  live a y /\ prev (nd a y) = Some x /\ parent (nd a y) = parent (nd a x).
Proof.
  intros x y L N. destruct (sibs_split x L) as (A & B & HS).
  destruct (sibs_mid a F R _ _ _ _ HS) as [_ N']. rewrite N in N'.
  destruct B as [|y' B]; [discriminate|]. cbn in N'. inversion N'; subst y'.
  assert (Hy : In y (A ++ x :: y :: B)) by (apply in_or_app; right; right; now left).
  split; [eapply sibs_live; eauto|]. split; [|eapply sibs_parent; eauto].
  change (x :: y :: B) with ([x] ++ y :: B) in HS. rewrite app_assoc in HS.
  destruct (sibs_mid a F R _ _ _ _ HS) as [V _]. rewrite V. apply ReprBase.last_error_snoc.
Qed.

Lemma prev_fwd : forall x y, live a x -> prev (nd a x) = Some y ->
  live a y /\ next (nd a y) = Some x /\ parent (nd a y) = parent (nd a x).
Proof.
  intros x y L V. destruct (sibs_split x L) as (A & B & HS).
  destruct (sibs_mid a F R _ _ _ _ HS) as [V' _]. rewrite V in V'. symmetry in V'.
  apply ReprBase.last_error_split in V'. destruct V' as [A' ->].
  assert (Hy : In y ((A' ++ [y]) ++ x :: B)) by (apply in_or_app; left; apply in_or_app; right; now left).
  split; [eapply sibs_live; eauto|]. split; [|eapply sibs_parent; eauto].
  rewrite <- app_assoc in HS. cbn [app] in HS.
  destruct (sibs_mid a F R _ _ _ _ HS) as [_ N]. exact N.
Qed.

Lemma first_iff : forall x c, live a x -> live a c ->
  (first (nd a x) = Some c <-> parent (nd a c) = Some x /\ prev (nd a c) = None).
Proof.
  intros x c Lx Lc. destruct (ends_of a F R x Lx) as [E _]. rewrite E. split.
  - intros H. apply ReprBase.hd_error_split in H. destruct H as [l' K].
    split; [apply (ReprBase.kid_parent a F R); rewrite K; now left|].
    assert (HS : sibs F (Some x) ([] ++ c :: l')) by exact K.
    destruct (sibs_mid a F R _ _ _ _ HS) as [V _]. exact V.
  - intros [P V]. pose proof (parent_kid a F R c x Lc P) as Hc.
    apply in_split in Hc. destruct Hc as (A & B & K).
    assert (HS : sibs F (Some x) (A ++ c :: B)) by exact K.
    destruct (sibs_mid a F R _ _ _ _ HS) as [V' _]. rewrite V in V'. symmetry in V'.
    apply ReprBase.last_error_None in V'. subst A. rewrite K. reflexivity.
Qed.

Lemma last_iff : forall p x, live a p -> live a x ->
  (last (nd a p) = Some x <-> parent (nd a x) = Some p /\ next (nd a x) = None).
Proof.
  intros p x Lp Lx. destruct (ends_of a F R p Lp) as [_ E]. rewrite E. split.
  - intros H. apply ReprBase.last_error_split in H. destruct H as [l' K].
    split; [apply (ReprBase.kid_parent a F R); rewrite K; apply in_or_app; right; now left|].
    assert (HS : sibs F (Some p) (l' ++ x :: [])) by exact K.
    destruct (sibs_mid a F R _ _ _ _ HS) as [_ N]. exact N.
  - intros [P N]. pose proof (parent_kid a F R x p Lx P) as Hx.
    apply in_split in Hx. destruct Hx as (A & B & K).
    assert (HS : sibs F (Some p) (A ++ x :: B)) by exact K.
    destruct (sibs_mid a F R _ _ _ _ HS) as [_ N']. rewrite N in N'. symmetry in N'.
    apply ReprBase.hd_error_None in N'. subst B. rewrite K. apply ReprBase.last_error_snoc.
Qed.

Lemma kids_path : forall x c r, kidsf F x = c :: r -> is_path a next c (c :: r).
Proof.
  intros x c r K. destruct (r_kids _ _ R x) as [D _]. rewrite K in D.
  eapply dseg_next_path; eauto.
Qed.

Lemma kids_bound : forall x, length (kidsf F x) <= length (nodes a).
Proof.
  intros x. apply (live_list_bound a).
  - apply (r_kids _ _ R).
  - intros y Hy. eapply (ReprBase.kid_live a F R); eauto.
Qed.

Lemma walk_kids : forall x, live a x ->
  walk_b next (S (length (nodes a))) a (first (nd a x)) = Some (kidsf F x).
Proof.
  intros x L. destruct (ends_of a F R x L) as [E _]. rewrite E.
  pose proof (kids_bound x) as B.
  destruct (kidsf F x) as [|c r] eqn:K; [reflexivity|].
  cbn [hd_error]. apply is_path_walk; [eapply kids_path; eauto | lia].
Qed.

End Facts.

Lemma in_snoc_mid : forall (A : list nid) x B y, In y (A ++ [x]) -> In y (A ++ x :: B).
Proof.
  intros A x B y H. apply in_app_or in H. apply in_or_app. destruct H as [H|[<-|[]]]; auto.
  right. now left.
Qed.

Lemma in_tail_mid : forall (A : list nid) x B y, In y (x :: B) -> In y (A ++ x :: B).
Proof. intros. apply in_or_app. now right. Qed.

(* ====================================================================== *)
(* C01                                                                     *)
(* ====================================================================== *)

Theorem repr_links_ok : forall a F, Repr a F -> LinksOK a.
Proof.
  intros a F R x n L Hn. apply nd_at in Hn. subst n.
  split; [|split; [|split; [|split]]].
  - intros f z H. eapply link_live; eauto.
  - intros y H. destruct (next_back a F R x y L H) as (Ly & V & P).
    exists (nd a y). split; [apply at_nd; now apply live_inr|]. auto.
  - intros y H. destruct (prev_fwd a F R x y L H) as (Ly & N & P).
    exists (nd a y). split; [apply at_nd; now apply live_inr|]. auto.
  - destruct (ends_of a F R x L) as [-> ->]. apply hd_last_none.
  - exists (kidsf F x). destruct (r_kids _ _ R x) as [D N]. destruct (ends_of a F R x L) as [E1 E2].
    split; [exact D|]. split; [exact N|]. split; [exact E1|]. split; [exact E2|].
    intros c. split.
    + intros Hc. split; [eapply ReprBase.kid_live; eauto|].
      exists (nd a c). split.
      * apply at_nd, live_inr. eapply ReprBase.kid_live; eauto.
      * eapply ReprBase.kid_parent; eauto.
    + intros (Lc & m & Hm & P). apply nd_at in Hm. subst m. eapply parent_kid; eauto.
Qed.

Section C01.
Variables (a : arena) (F : forest).
Hypothesis R : Repr a F.

Lemma olink_live_ok : forall x g, live a x -> olink_live a (getf g (nd a x)) = true.
Proof.
  intros x g L. destruct (getf g (nd a x)) eqn:E; cbn; auto.
  apply live_b_true. eapply link_live; eauto.
Qed.

Lemma c01_next_ok : forall x y, live a x -> next (nd a x) = Some y ->
  node_of a y = Some (nd a y) /\ onid_eqb (prev (nd a y)) (Some x) = true
  /\ onid_eqb (parent (nd a y)) (parent (nd a x)) = true.
Proof.
  intros x y L H. destruct (next_back a F R x y L H) as (Ly & V & P).
  split; [apply node_of_nd; now apply live_inr|]. rewrite V, P. split; apply onid_eqb_refl.
Qed.

Lemma c01_prev_ok : forall x y, live a x -> prev (nd a x) = Some y ->
  node_of a y = Some (nd a y) /\ onid_eqb (next (nd a y)) (Some x) = true
  /\ onid_eqb (parent (nd a y)) (parent (nd a x)) = true.
Proof.
  intros x y L H. destruct (prev_fwd a F R x y L H) as (Ly & V & P).
  split; [apply node_of_nd; now apply live_inr|]. rewrite V, P. split; apply onid_eqb_refl.
Qed.

Lemma c01_ends_ok : forall l : list nid, Bool.eqb (is_some (hd_error l)) (is_some (last_error l)) = true.
Proof. intros [|x r]; reflexivity. Qed.

Lemma c01_kids_parent : forall x,
  forallb (fun c => match node_of a c with Some m => onid_eqb (parent m) (Some x) | None => false end)
          (kidsf F x) = true.
Proof.
  intros x. apply forallb_forall. intros c Hc.
  rewrite node_of_nd by (apply live_inr; eapply ReprBase.kid_live; eauto).
  rewrite (ReprBase.kid_parent a F R x c Hc). apply onid_eqb_refl.
Qed.

Lemma c01_kids_head : forall x,
  match kidsf F x with
  | c :: _ => match node_of a c with Some m => negb (is_some (prev m)) | None => false end
  | [] => true
  end = true.
Proof.
  intros x. destruct (r_kids _ _ R x) as [D _]. destruct (kidsf F x) as [|c r]; auto.
  apply dseg_cons in D. destruct D as (I & _ & V & _). rewrite node_of_nd by auto. now rewrite V.
Qed.

Lemma c01_all_kids : forall x,
  forallb (fun ym : nid * node => negb (onid_eqb (parent (snd ym)) (Some x)) || nid_in (fst ym) (kidsf F x))
          (live_slots a) = true.
Proof.
  intros x. apply forallb_forall. intros [y m] H. cbn [fst snd].
  destruct (live_slot_live _ _ _ H) as [Ly <-].
  destruct (onid_eqb (parent (nd a y)) (Some x)) eqn:E; cbn; auto.
  apply onid_eqb_eq in E. apply nid_in_true. eapply parent_kid; eauto.
Qed.

Lemma c01_node_silent : forall x, live a x -> c01_node a (x, nd a x) = [].
Proof.
  intros x L. unfold c01_node.
  pose proof (olink_live_ok x Fparent L) as P1. pose proof (olink_live_ok x Fprev L) as P2.
  pose proof (olink_live_ok x Fnext L) as P3. pose proof (olink_live_ok x Ffirst L) as P4.
  pose proof (olink_live_ok x Flast L) as P5. cbn [getf] in P1, P2, P3, P4, P5.
  cbn [forallb]. rewrite P1, P2, P3, P4, P5. clear P1 P2 P3 P4 P5.
  rewrite (walk_kids a F R x L). cbv beta iota.
  rewrite (nodup_b_true (kidsf F x)) by apply (r_kids _ _ R).
  rewrite c01_kids_parent, c01_kids_head, c01_all_kids.
  destruct (ends_of a F R x L) as [E1 E2]. rewrite E1, E2.
  rewrite c01_ends_ok, last_opt_eq, onid_eqb_refl.
  destruct (next (nd a x)) as [y|] eqn:EN.
  - destruct (c01_next_ok x y L EN) as (Q1 & Q2 & Q3). rewrite Q1, Q2, Q3.
    destruct (prev (nd a x)) as [z|] eqn:EP; [|reflexivity].
    destruct (c01_prev_ok x z L EP) as (S1 & S2 & S3). rewrite S1, S2, S3. reflexivity.
  - destruct (prev (nd a x)) as [z|] eqn:EP; [|reflexivity].
    destruct (c01_prev_ok x z L EP) as (S1 & S2 & S3). rewrite S1, S2, S3. reflexivity.
Qed.

End C01.

Theorem repr_c01_silent : forall a F, Repr a F -> c01_check a = [].
Proof.
  intros a F R. unfold c01_check. apply flat_map_nil. intros [x n] H.
  destruct (live_slot_live _ _ _ H) as [L <-]. eapply c01_node_silent; eauto.
Qed.

(* ====================================================================== *)
(* C12 (state part)                                                        *)
(* ====================================================================== *)

Theorem repr_c12_silent : forall a F, Repr a F -> c12_state a = [].
Proof.
  intros a F R. unfold c12_state. apply flat_map_nil. intros [x n] H. cbn [snd].
  apply in_slots in H. destruct H as [Hn _].
  destruct (stamp n <? 0)%Z eqn:E; [|reflexivity].
  apply Z.ltb_lt in E. destruct (r_dead _ _ R _ _ Hn E) as (-> & -> & -> & -> & ->). reflexivity.
Qed.

(* ====================================================================== *)
(* C02 / C09: the four link-following iterators                            *)
(* ====================================================================== *)

Lemma anc_path : forall a F, Repr a F -> forall x d, depthF F x d ->
  exists l, is_path a parent x l /\ NoDup l /\ (forall y, In y l <-> ancF F x y)
            /\ (forall y, In y l -> live a y).
Proof.
  intros a F R. induction 1 as [x c Hc Hx | x p d Hx Hp IH].
  - pose proof (top_live a F R _ _ Hc Hx) as L. pose proof (ReprBase.top_parent a F R _ _ Hc Hx) as P.
    exists [x]. split; [apply is_path_one; auto using live_inr|].
    split; [repeat constructor; intros []|]. split.
    + intros y. split.
      * intros [<-|[]]. constructor.
      * intros H. left. eapply anc_root_inv; eauto.
    + intros y [<-|[]]. auto.
  - destruct IH as (l & P & N & A & LV). pose proof (ReprBase.kid_live a F R _ _ Hx) as L.
    exists (x :: l). split; [|split; [|split]].
    + eapply is_path_more; eauto using live_inr. eapply ReprBase.kid_parent; eauto.
    + constructor; auto. intros Hi. apply A in Hi. eapply kid_not_anc; eauto.
    + intros y. split.
      * intros [<-|Hy]; [constructor|]. eapply anc_step; eauto. now apply A.
      * intros H. destruct (anc_step_inv a F R _ _ _ Hx H) as [->|H']; [now left|]. right. now apply A.
    + intros y [<-|Hy]; auto.
Qed.

Theorem repr_ancestors : forall a F x, Repr a F -> live a x ->
  exists l, ancestors x a = Ok l /\ is_path a parent x l /\ NoDup l /\ (length l <= length (live_ids a))%nat /\ (forall y, In y l <-> ancF F x y).
Proof.
  intros a F x R L. destruct (member_depth a F R x L) as [d Hd].
  destruct (anc_path a F R x d Hd) as (l & P & N & A & LV).
  pose proof (live_list_bound a l N LV) as B.
  exists l. split; [|split; [|split; [|split]]]; auto.
  - unfold ancestors. apply is_path_iter; auto. unfold chain_fuel. lia.
  - apply live_ids_bound; auto.
Qed.

(* the run of siblings from x to the end of its chain, and the iterator state built for it *)
Lemma following_run : forall a F x, Repr a F -> live a x -> exists B,
  is_path a next x (x :: B) /\ linked a (x :: B) /\ NoDup (x :: B) /\
  (forall y, In y (x :: B) -> live a y) /\
  de_new DFollowing x a = Ok (Some x, last_error (x :: B)).
Proof.
  intros a F x R L. destruct (sibs_split a F R x L) as (A & B & HS).
  destruct (sibs_parts a F R _ _ _ _ HS) as (_ & D2 & _ & N2 & LV).
  assert (LV2 : forall y, In y (x :: B) -> live a y) by (intros; apply LV, in_tail_mid; auto).
  pose proof (dseg_next_path _ _ _ _ _ D2) as P.
  exists B. split; [exact P|]. split; [eapply dseg_linked; eauto|]. split; [exact N2|]. split; [exact LV2|].
  unfold de_new, rget_unwrap, rbind, get. rewrite (at_nd _ _ (live_inr _ _ L)).
  destruct (parent (nd a x)) as [p|] eqn:EP.
  - assert (Lp : live a p) by (eapply sibs_owner_live; eauto; apply in_tail_mid; now left).
    rewrite (at_nd _ _ (live_inr _ _ Lp)). destruct (ends_of a F R p Lp) as [_ ->].
    cbn [sibs] in HS. rewrite HS, last_error_app_cons. reflexivity.
  - pose proof (live_list_bound a _ N2 LV2) as Bd.
    rewrite (is_path_walk_end a next (x :: B) x (chain_fuel a) (List.last B x) P); auto.
    unfold chain_fuel. lia.
Qed.

Lemma preceding_run : forall a F x, Repr a F -> live a x -> exists A,
  is_path a prev x (rev (A ++ [x])) /\ linked a (A ++ [x]) /\ NoDup (A ++ [x]) /\
  (forall y, In y (A ++ [x]) -> live a y) /\
  de_new DPreceding x a = Ok (Some x, hd_error (A ++ [x])).
Proof.
  intros a F x R L. destruct (sibs_split a F R x L) as (A & B & HS).
  destruct (sibs_parts a F R _ _ _ _ HS) as (D1 & _ & N1 & _ & LV).
  assert (LV1 : forall y, In y (A ++ [x]) -> live a y) by (intros; apply LV, in_snoc_mid; auto).
  pose proof (dseg_prev_path _ _ _ _ _ D1) as P.
  exists A. split; [exact P|]. split; [eapply dseg_linked; eauto|]. split; [exact N1|]. split; [exact LV1|].
  unfold de_new, rget_unwrap, rbind, get. rewrite (at_nd _ _ (live_inr _ _ L)).
  destruct (parent (nd a x)) as [p|] eqn:EP.
  - assert (Lp : live a p) by (eapply sibs_owner_live; eauto; apply in_tail_mid; now left).
    rewrite (at_nd _ _ (live_inr _ _ Lp)). destruct (ends_of a F R p Lp) as [-> _].
    cbn [sibs] in HS. rewrite HS. change (x :: B) with ([x] ++ B). rewrite app_assoc, hd_error_app_snoc.
    reflexivity.
  - pose proof (live_list_bound a _ N1 LV1) as Bd.
    assert (HE : exists e, hd_error (A ++ [x]) = Some e) by (destruct A; cbn; eauto).
    destruct HE as [e HE]. rewrite HE.
    rewrite (is_path_walk_end a prev (rev (A ++ [x])) x (chain_fuel a) e P); auto.
    + rewrite rev_length. unfold chain_fuel. lia.
    + rewrite last_error_rev. exact HE.
Qed.

Theorem repr_following : forall a F x, Repr a F -> live a x ->
  exists l, following_siblings x a = Ok l /\ is_path a next x l /\ NoDup l /\ (length l <= length (live_ids a))%nat.
Proof.
  intros a F x R L. destruct (following_run a F x R L) as (B & P & LK & N & LV & DN).
  pose proof (live_list_bound a _ N LV) as Bd.
  exists (x :: B). split; [|split; [|split]]; auto.
  - unfold following_siblings, de_iter, rbind. rewrite DN.
    refine (proj2 (de_collect_fwd a (x :: B) _ LK _ _)).
    + apply (live_NoDup_idx a); auto.
    + unfold chain_fuel. lia.
  - apply live_ids_bound; auto.
Qed.

Theorem repr_preceding : forall a F x, Repr a F -> live a x ->
  exists l, preceding_siblings x a = Ok l /\ is_path a prev x l /\ NoDup l /\ (length l <= length (live_ids a))%nat.
Proof.
  intros a F x R L. destruct (preceding_run a F x R L) as (A & P & LK & N & LV & DN).
  pose proof (live_list_bound a _ N LV) as Bd.
  assert (NR : NoDup (rev (A ++ [x]))) by (apply NoDup_rev; auto).
  exists (rev (A ++ [x])). split; [|split; [|split]]; auto.
  - unfold preceding_siblings, de_iter, rbind. rewrite DN.
    assert (H : de_collect DPreceding (S (chain_fuel a)) (last_error (A ++ [x]), hd_error (A ++ [x])) a
                = Ok (rev (A ++ [x]))).
    { apply de_collect_bwd; auto.
      - apply (live_NoDup_idx a); auto.
      - unfold chain_fuel. lia. }
    rewrite ReprBase.last_error_snoc in H. exact H.
  - apply live_ids_bound; auto. intros y Hy. apply LV. now apply in_rev.
Qed.

(* predecessors: previous siblings, then the parent, and so on *)
Lemma pred_path : forall a F, Repr a F -> forall x d, depthF F x d ->
  exists l, is_path a pred_link x l /\ NoDup l /\
            (forall y, In y l -> live a y /\ exists e, e <= d /\ depthF F y e).
Proof.
  intros a F R. induction 1 as [x c Hc Hx | x p d Hx Hp IH].
  - pose proof Hx as Hx'. apply in_split in Hx'. destruct Hx' as (A & B & ->).
    assert (HS : sibs F None (A ++ x :: B)) by exact Hc.
    destruct (sibs_parts a F R _ _ _ _ HS) as (D1 & _ & N1 & _ & LV).
    exists (rev (A ++ [x])). split; [|split].
    + rewrite <- (app_nil_r (rev (A ++ [x]))). eapply dseg_back_path; eauto.
      * intros y z V. unfold pred_link. now rewrite V.
      * intros y Hy V. unfold pred_link. rewrite V. cbn [or_else]. eapply dseg_parent; eauto.
    + apply NoDup_rev; auto.
    + intros y Hy. rewrite <- in_rev in Hy. apply (in_snoc_mid A x B) in Hy. split; [apply LV; auto|].
      exists 0. split; auto. eapply depth_top; eauto.
  - destruct IH as (lp & P & N & LV).
    pose proof Hx as Hx'. apply in_split in Hx'. destruct Hx' as (A & B & K).
    assert (HS : sibs F (Some p) (A ++ x :: B)) by exact K.
    destruct (sibs_parts a F R _ _ _ _ HS) as (D1 & _ & N1 & _ & LVs).
    destruct (is_path_inv _ _ _ _ P) as (t & -> & _).
    assert (DK : forall y, In y (A ++ [x]) -> depthF F y (S d)).
    { intros y Hy. eapply depth_kid; [|eauto]. rewrite K. apply in_snoc_mid; auto. }
    exists (rev (A ++ [x]) ++ p :: t). split; [|split].
    + eapply dseg_back_path; eauto.
      * intros y z V. unfold pred_link. now rewrite V.
      * intros y Hy V. unfold pred_link. rewrite V. cbn [or_else].
        rewrite (dseg_parent _ _ _ _ _ _ D1 Hy). auto.
    + apply NoDup_app_intro; [apply NoDup_rev; auto | auto |].
      intros y H1 H2. rewrite <- in_rev in H1. destruct (LV y H2) as (_ & e & Le & He).
      pose proof (depth_fun a F R _ _ (DK y H1) _ He). lia.
    + intros y Hy. apply in_app_or in Hy. destruct Hy as [Hy|Hy].
      * rewrite <- in_rev in Hy. split; [apply LVs, in_snoc_mid; auto|]. exists (S d). split; auto.
      * destruct (LV y Hy) as (Ly & e & Le & He). split; auto. exists e. split; auto.
Qed.

Theorem repr_predecessors : forall a F x, Repr a F -> live a x ->
  exists l, predecessors x a = Ok l /\ is_path a pred_link x l /\ NoDup l.
Proof.
  intros a F x R L. destruct (member_depth a F R x L) as [d Hd].
  destruct (pred_path a F R x d Hd) as (l & P & N & LV).
  exists l. split; [|split]; auto.
  unfold predecessors. apply (is_path_iter a pred_link); auto.
  pose proof (live_list_bound a l N (fun y Hy => proj1 (LV y Hy))). unfold trav_fuel. lia.
Qed.

Lemma c02_node_silent : forall a F x n, Repr a F -> live a x -> c02_node a (x, n) = [].
Proof.
  intros a F x n R L. unfold c02_node. cbv zeta.
  destruct (member_depth a F R x L) as [d Hd].
  destruct (anc_path a F R x d Hd) as (l1 & P1 & N1 & _ & LV1).
  destruct (following_run a F x R L) as (B & P2 & _ & N2 & LV2 & _).
  destruct (preceding_run a F x R L) as (A & P3 & _ & N3 & LV3 & _).
  rewrite (is_path_walk a parent l1 x _ P1) by (apply (live_list_bound a); auto).
  rewrite (is_path_walk a next (x :: B) x _ P2) by (apply (live_list_bound a); auto).
  rewrite (is_path_walk a prev (rev (A ++ [x])) x _ P3)
    by (rewrite rev_length; apply (live_list_bound a); auto).
  reflexivity.
Qed.

Theorem repr_c02_silent : forall a F, Repr a F -> c02_check a = [].
Proof.
  intros a F R. unfold c02_check. apply flat_map_nil. intros [x n] H.
  destruct (live_slot_live _ _ _ H) as [L _]. eapply c02_node_silent; eauto.
Qed.

(* ====================================================================== *)
(* C09: the subtree iterators                                              *)
(* ====================================================================== *)

Lemma NoDup_forest_euler : forall ks,
  Forall (fun t => NoDup (ids t) -> NoDup (euler t)) ks ->
  NoDup (flat_map ids ks) -> NoDup (flat_map euler ks).
Proof.
  induction 1 as [|k r Hk _ IH]; intros N; cbn [flat_map] in *; [constructor|].
  apply NoDup_app_inv in N. destruct N as (N1 & N2 & HD).
  apply NoDup_app_intro; auto.
  intros e H1 H2. apply in_euler_ids in H1. apply in_forest_euler_ids in H2. exact (HD _ H1 H2).
Qed.

Lemma NoDup_euler : forall t, NoDup (ids t) -> NoDup (euler t).
Proof.
  induction t as [x ks IH] using rose_ind'. intros N.
  rewrite ids_unfold in N. rewrite euler_unfold. inversion N as [|? ? Hx Nf]; subst.
  pose proof (NoDup_forest_euler ks IH Nf) as NE.
  constructor.
  - intros Hi. apply in_app_or in Hi. destruct Hi as [Hi|[Hi|[]]]; [|discriminate].
    apply in_forest_euler_ids in Hi. exact (Hx Hi).
  - apply NoDup_app_intro; auto.
    + repeat constructor. intros [].
    + intros e H1 [<-|[]]. apply in_forest_euler_ids in H1. exact (Hx H1).
Qed.

Lemma kids_treeF : forall a F x, live a x ->
  map root (kids (treeF (length (nodes a)) F x)) = kidsf F x.
Proof.
  intros a F x L. pose proof (live_inr _ _ L) as I. unfold inr in I. revert I.
  destruct (length (nodes a)) as [|f]; intros I; [lia|].
  rewrite treeF_unfold. cbn [kids]. apply roots_treeF.
Qed.

Theorem repr_subtree_iterators : forall a F x, Repr a F -> live a x ->
  let t := treeF (length (nodes a)) F x in
  tree_in a t /\ root t = x /\
  traverse x a = Ok (euler t) /\ reverse_traverse x a = Ok (rev (euler t)) /\
  descendants x a = Ok (ids t) /\ children x a = Ok (kidsf F x) /\ reverse_children x a = Ok (rev (kidsf F x)) /\
  NoDup (euler t) /\ NoDup (ids t).
Proof.
  intros a F x R L. cbv zeta. set (t := treeF (length (nodes a)) F x).
  pose proof (repr_tree a F x R L) as H. cbv zeta in H. fold t in H.
  destruct H as (TI & RT & IDS & _).
  assert (NI : NoDup (ids t)).
  { rewrite IDS. destruct (member_depth a F R x L) as [d Hd]. eapply (preorder_NoDup a F R); eauto. }
  pose proof (kids_treeF a F x L) as K. fold t in K.
  split; [exact TI|]. split; [exact RT|].
  split; [rewrite <- RT at 1; now apply traverse_euler|].
  split; [rewrite <- RT at 1; now apply reverse_traverse_euler|].
  split; [rewrite <- RT at 1; now apply descendants_preorder|].
  split; [rewrite <- RT at 1; rewrite <- K; now apply children_kids|].
  split; [rewrite <- RT at 1; rewrite <- K; now apply reverse_children_kids|].
  split; [now apply NoDup_euler | exact NI].
Qed.

(* ====================================================================== *)
(* next_traverse / prev_traverse                                           *)
(* ====================================================================== *)

Ltac iff_cases :=
  split; intros H;
  [ inversion H; subst; auto
  | repeat match type of H with _ /\ _ => let H' := fresh in destruct H as [H H'] end;
    subst; try discriminate; try congruence ].

Lemma nt_start_iff : forall a x e', inr a x ->
  (next_traverse (Start x) a = Ok (Some e') <->
   match e' with
   | Start c => first (nd a x) = Some c
   | End_ z => first (nd a x) = None /\ z = x
   end).
Proof.
  intros a x e' I. rewrite (nt_start a x _ (at_nd _ _ I)).
  destruct e' as [c|z], (first (nd a x)) as [c'|]; iff_cases.
Qed.

Lemma nt_end_iff : forall a x e', inr a x ->
  (next_traverse (End_ x) a = Ok (Some e') <->
   match e' with
   | Start s => next (nd a x) = Some s
   | End_ p => next (nd a x) = None /\ parent (nd a x) = Some p
   end).
Proof.
  intros a x e' I. rewrite (nt_end a x _ (at_nd _ _ I)).
  destruct e' as [c|z], (next (nd a x)) as [c'|], (parent (nd a x)) as [q|]; cbn [option_map];
    iff_cases.
Qed.

Lemma pt_end_iff : forall a x e, inr a x ->
  (prev_traverse (End_ x) a = Ok (Some e) <->
   match e with
   | End_ c => last (nd a x) = Some c
   | Start z => last (nd a x) = None /\ z = x
   end).
Proof.
  intros a x e I. rewrite (pt_end a x _ (at_nd _ _ I)).
  destruct e as [c|z], (last (nd a x)) as [c'|]; iff_cases.
Qed.

Lemma pt_start_iff : forall a x e, inr a x ->
  (prev_traverse (Start x) a = Ok (Some e) <->
   match e with
   | End_ s => prev (nd a x) = Some s
   | Start p => prev (nd a x) = None /\ parent (nd a x) = Some p
   end).
Proof.
  intros a x e I. rewrite (pt_start a x _ (at_nd _ _ I)).
  destruct e as [c|z], (prev (nd a x)) as [c'|], (parent (nd a x)) as [q|]; cbn [option_map];
    iff_cases.
Qed.

Theorem repr_steps_inverse : forall a F e e', Repr a F ->
  (match e with Start x | End_ x => live a x end) -> (match e' with Start x | End_ x => live a x end) ->
  (next_traverse e a = Ok (Some e') <-> prev_traverse e' a = Ok (Some e)).
Proof.
  intros a F e e' R Le Le'. destruct e as [x|x], e' as [y|y].
  - rewrite nt_start_iff, pt_start_iff by (now apply live_inr).
    rewrite (first_iff a F R x y Le Le'). tauto.
  - rewrite nt_start_iff, pt_end_iff by (now apply live_inr). split.
    + intros [H ->]. split; auto. destruct (ends_of a F R x Le) as [E1 E2].
      rewrite E2. apply hd_last_none. now rewrite <- E1.
    + intros [H ->]. split; auto. destruct (ends_of a F R y Le') as [E1 E2].
      rewrite E1. apply hd_last_none. now rewrite <- E2.
  - rewrite nt_end_iff, pt_start_iff by (now apply live_inr). split.
    + intros H. now destruct (next_back a F R x y Le H) as (_ & V & _).
    + intros H. now destruct (prev_fwd a F R y x Le' H) as (_ & N & _).
  - rewrite nt_end_iff, pt_end_iff by (now apply live_inr).
    rewrite (last_iff a F R y x Le' Le). tauto.
Qed.

(* ====================================================================== *)
(* C10: arbitrary pull sequences on the double-ended iterators             *)
(* ====================================================================== *)

Theorem repr_de_children : forall a F x pulls, Repr a F -> live a x ->
  de_run DChildren x pulls a = Ok (de_spec (kidsf F x) pulls).
Proof.
  intros a F x pulls R L.
  pose proof (repr_tree a F x R L) as H. cbv zeta in H. destruct H as (TI & RT & _).
  rewrite <- RT at 1. rewrite <- (kids_treeF a F x L). now apply children_pulls.
Qed.

Theorem repr_de_following : forall a F x pulls l, Repr a F -> live a x -> is_path a next x l ->
  de_run DFollowing x pulls a = Ok (de_spec l pulls).
Proof.
  intros a F x pulls l R L P. destruct (following_run a F x R L) as (B & P' & LK & N & LV & DN).
  rewrite (is_path_fun _ _ _ _ _ P P'). unfold de_run, rbind. rewrite DN.
  refine (proj2 (de_pulls_fwd a (x :: B) pulls LK _)). apply (live_NoDup_idx a); auto.
Qed.

Theorem repr_de_preceding : forall a F x pulls l, Repr a F -> live a x -> is_path a prev x l ->
  de_run DPreceding x pulls a = Ok (de_spec l pulls).
Proof.
  intros a F x pulls l R L P. destruct (preceding_run a F x R L) as (A & P' & LK & N & LV & DN).
  rewrite (is_path_fun _ _ _ _ _ P P'). unfold de_run, rbind. rewrite DN.
  assert (H : de_pulls DPreceding pulls (last_error (A ++ [x]), hd_error (A ++ [x])) a
              = Ok (de_spec (rev (A ++ [x])) pulls)).
  { apply de_pulls_bwd; auto. apply (live_NoDup_idx a); auto. }
  rewrite ReprBase.last_error_snoc in H. exact H.
Qed.

(* ====================================================================== *)
(* C14                                                                     *)
(* ====================================================================== *)

Theorem repr_print : forall dbg a F x rend mode, Repr a F -> live a x ->
  (forall y, In y (preorderF (length (nodes a)) F x) -> good_text (concat (rend (payload_at a y) mode)) /\ exists n v, node_at a y n /\ data n = Data v) ->
  pretty_print dbg rend mode x a = Ok (render rend mode (payload_at a) (treeF (length (nodes a)) F x)).
Proof.
  intros dbg a F x rend mode R L H.
  pose proof (repr_tree a F x R L) as HT. cbv zeta in HT. destruct HT as (TI & RT & IDS & _).
  rewrite <- RT at 1. apply pretty_print_render; auto.
  intros y Hy. rewrite IDS in Hy. destruct (H y Hy) as (G & n & v & Hn & Dn). split; auto.
  exists n. split; auto. unfold payload_at, node_of. unfold node_at in Hn. rewrite Hn, Dn. reflexivity.
Qed.

(* ====================================================================== *)

Print Assumptions repr_links_ok.
Print Assumptions repr_c01_silent.
Print Assumptions repr_c12_silent.
Print Assumptions repr_ancestors.
Print Assumptions repr_following.
Print Assumptions repr_preceding.
Print Assumptions repr_predecessors.
Print Assumptions repr_c02_silent.
Print Assumptions repr_subtree_iterators.
Print Assumptions repr_steps_inverse.
Print Assumptions repr_de_children.
Print Assumptions repr_de_following.
Print Assumptions repr_de_preceding.
Print Assumptions repr_print.
