(* every reader observes, under any interleaving, exactly what it observes when running alone *)
From IT Require Import Concurrency.
Require Import Lia.

Section P.
  Variable St Obs : Type.

  Lemma nth_error_list_set_same : forall A (l : list A) i x y, nth_error l i = Some y -> nth_error (list_set i x l) i = Some x.
  Proof. induction l as [|h t IH]; intros [|i] x y H; cbn in *; try discriminate; eauto. Qed.
  Lemma nth_error_list_set_other : forall A (l : list A) i j x, i <> j -> nth_error (list_set i x l) j = nth_error l j.
  Proof.
    induction l as [|h t IH]; intros i j x H; destruct i, j; cbn; auto; try congruence.
  Qed.

  Lemma schedule_independent_gen : forall (a : arena) (steps : list (rstep St Obs)) sched sts i f s,
    nth_error steps i = Some f -> nth_error sts i = Some s ->
    project Obs i (run_sched St Obs a steps sts sched)
    = run_alone St Obs a f s (length (project Obs i (run_sched St Obs a steps sts sched))).
  Proof.
    intros a steps sched. induction sched as [|j rest IH]; intros sts i f s Hf Hs; cbn [run_sched].
    - reflexivity.
    - destruct (nth_error steps j) as [g|] eqn:Eg; [destruct (nth_error sts j) as [t|] eqn:Et|].
      + destruct (g a t) as [t' o] eqn:Egt.
        unfold project at 1 2. cbn [filter fst map snd].
        destruct (Nat.eqb j i) eqn:Eji.
        * apply Nat.eqb_eq in Eji; subst j.
          rewrite Hf in Eg; inversion Eg; subst g. rewrite Hs in Et; inversion Et; subst t.
          cbn [map snd length run_alone]. rewrite Egt. f_equal.
          apply (IH (list_set i t' sts) i f t' Hf).
          eapply nth_error_list_set_same; eauto.
        * apply Nat.eqb_neq in Eji.
          apply (IH (list_set j t' sts) i f s Hf).
          rewrite nth_error_list_set_other; auto.
      + apply IH; auto.
      + apply IH; auto.
  Qed.
End P.
