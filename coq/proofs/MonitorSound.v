(* MonitorSound.v — soundness of the executable checkers of Monitor.v on ARBITRARY arenas:
   whenever a checker is silent on an arena, the declarative property of Props.v holds of it.
   No representation invariant is assumed.  (The converse on invariant-satisfying arenas is in
   StateProps.v.)  Self-contained: depends on the theories only. *)
From IT Require Import Props.
From Coq Require Import Lia.
Local Open Scope nat_scope.

(* ====================================================================== *)
(* Reflection of the boolean helpers                                       *)
(* ====================================================================== *)

Lemma ms_nid_eqb_eq : forall x y, nid_eqb x y = true -> x = y.
Proof.
  intros [i g] [j h]. unfold nid_eqb. cbn [idx gen]. intros H.
  apply andb_true_iff in H. destruct H as [H1 H2].
  apply Nat.eqb_eq in H1. apply Z.eqb_eq in H2. now subst.
Qed.

Lemma ms_nid_eqb_refl : forall x, nid_eqb x x = true.
Proof. intros x. unfold nid_eqb. now rewrite Nat.eqb_refl, Z.eqb_refl. Qed.

Lemma ms_onid_eqb_eq : forall x y, onid_eqb x y = true -> x = y.
Proof.
  intros [x|] [y|]; cbn [onid_eqb]; intros H; try discriminate; auto.
  f_equal. now apply ms_nid_eqb_eq.
Qed.

Lemma ms_onid_eqb_refl : forall x, onid_eqb x x = true.
Proof. intros [x|]; cbn [onid_eqb]; auto. apply ms_nid_eqb_refl. Qed.

Lemma ms_nid_in_In : forall x l, nid_in x l = true <-> In x l.
Proof.
  intros x l. unfold nid_in. rewrite existsb_exists. split.
  - intros (y & Hy & E). apply ms_nid_eqb_eq in E. now subst.
  - intros H. exists x. split; auto. apply ms_nid_eqb_refl.
Qed.

Lemma ms_nodup_b_NoDup : forall l, nodup_b l = true -> NoDup l.
Proof.
  induction l as [|x l IH]; cbn [nodup_b]; intros H; [constructor|].
  apply andb_true_iff in H. destruct H as [H1 H2]. constructor; auto.
  intros Hin. apply ms_nid_in_In in Hin. rewrite Hin in H1. discriminate.
Qed.

Lemma ms_last_opt_eq : forall l, last_opt l = last_error l.
Proof. intros [|x r]; reflexivity. Qed.

Lemma ms_flat_map_nil : forall {A B} (f : A -> list B) l,
  flat_map f l = [] -> forall x, In x l -> f x = [].
Proof.
  intros A B f. induction l as [|y l IH]; cbn [flat_map In]; intros H x Hx; [destruct Hx|].
  apply app_eq_nil in H. destruct H as [H1 H2]. destruct Hx as [<-|Hx]; auto.
Qed.

Lemma ms_ite_nil : forall (b : bool) (c : N), (if b then [] else [c]) = [] -> b = true.
Proof. intros [|] c H; [reflexivity|discriminate]. Qed.

(* ====================================================================== *)
(* Slots: the bridge between [live] and [live_slots]                       *)
(* ====================================================================== *)

Lemma ms_in_slots_from : forall l k x n,
  In (x, n) (slots_from k l) <-> exists i, nth_error l i = Some n /\ x = mkId (k + i) (stamp n).
Proof.
  induction l as [|n0 r IH]; intros k x n; cbn [slots_from In].
  - split; [intros [] | intros ([|i] & H & _); discriminate].
  - rewrite IH. split.
    + intros [E|(i & Hi & ->)].
      * inversion E; subst. exists 0. split; auto. f_equal. lia.
      * exists (S i). split; auto. f_equal. lia.
    + intros ([|i] & Hi & ->).
      * cbn in Hi. inversion Hi; subst. left. f_equal. f_equal. lia.
      * right. exists i. split; auto. f_equal. lia.
Qed.

Lemma ms_in_slots : forall a x n, In (x, n) (slots a) <-> node_at a x n /\ gen x = stamp n.
Proof.
  intros a x n. unfold slots. rewrite ms_in_slots_from. unfold node_at. split.
  - intros (i & Hi & ->). cbn. auto.
  - intros [H G]. exists (idx x). split; auto. destruct x as [i g]. cbn in *. now subst.
Qed.

Lemma ms_in_live_slots : forall a x n,
  In (x, n) (live_slots a) <-> node_at a x n /\ stamp n = gen x /\ (0 <= gen x)%Z.
Proof.
  intros a x n. unfold live_slots. rewrite filter_In, ms_in_slots. cbn [snd].
  rewrite Z.leb_le. split.
  - intros [[H G] S]. repeat split; auto. lia.
  - intros (H & G & S). repeat split; auto. lia.
Qed.

Lemma ms_node_at_fun : forall a x n m, node_at a x n -> node_at a x m -> n = m.
Proof. unfold node_at. intros. congruence. Qed.

(* x is live and its slot holds n  iff  (x, n) is enumerated by live_slots *)
Lemma ms_live_slot : forall a x n, live a x -> node_at a x n -> In (x, n) (live_slots a).
Proof.
  intros a x n (n' & Hn' & S & G) Hn. rewrite (ms_node_at_fun _ _ _ _ Hn Hn').
  apply ms_in_live_slots. auto.
Qed.

Lemma ms_slot_live : forall a x n, In (x, n) (live_slots a) -> live a x /\ node_at a x n.
Proof.
  intros a x n H. apply ms_in_live_slots in H. destruct H as (H & S & G). split; auto.
  exists n. auto.
Qed.

Lemma ms_live_b : forall a x, live_b a x = true -> live a x.
Proof.
  intros a x. unfold live_b, node_of, live, node_at.
  destruct (nth_error (nodes a) (idx x)) as [n|]; intros H; [|discriminate].
  apply andb_true_iff in H. destruct H as [H1 H2].
  apply Z.eqb_eq in H1. apply Z.leb_le in H2. exists n. repeat split; auto. lia.
Qed.

Lemma ms_olink_live : forall a o z, olink_live a o = true -> o = Some z -> live a z.
Proof. intros a o z H ->. cbn [olink_live] in H. now apply ms_live_b. Qed.

(* ====================================================================== *)
(* walk_b                                                                  *)
(* ====================================================================== *)

Lemma ms_walk_none : forall link fuel a, walk_b link fuel a None = Some [].
Proof. intros link [|f] a; reflexivity. Qed.

Lemma ms_walk_some_inv : forall link fuel a x l, walk_b link fuel a (Some x) = Some l ->
  exists f n r, fuel = S f /\ node_at a x n /\ walk_b link f a (link n) = Some r /\ l = x :: r.
Proof.
  intros link [|f] a x l H; cbn [walk_b] in H; [discriminate|].
  unfold node_of in H. destruct (nth_error (nodes a) (idx x)) as [n|] eqn:En; [|discriminate].
  destruct (walk_b link f a (link n)) as [r|] eqn:W; cbn [option_map] in H; [|discriminate].
  inversion H; subst. exists f, n, r. auto.
Qed.

Lemma ms_walk_path : forall link a fuel x l, walk_b link fuel a (Some x) = Some l ->
  is_path a link x l /\ length l <= fuel.
Proof.
  intros link a. induction fuel as [|f IH]; intros x l H.
  - apply ms_walk_some_inv in H. destruct H as (f & n & r & E & _). discriminate.
  - apply ms_walk_some_inv in H. destruct H as (f' & n & r & E & Hn & W & ->).
    inversion E; subst f'. clear E.
    destruct (link n) as [z|] eqn:El.
    + apply IH in W. destruct W as [P Len]. split; [|cbn [length]; lia].
      destruct r as [|z' r']; [destruct P|].
      assert (z' = z) by (destruct P; auto). subst z'.
      cbn [is_path]. split; auto. exists n. split; auto.
    + rewrite ms_walk_none in W. inversion W; subst r. split; [|cbn [length]; lia].
      cbn [is_path]. split; auto. exists n. split; auto.
Qed.

(* ====================================================================== *)
(* C02                                                                     *)
(* ====================================================================== *)

Lemma ms_opt_nil : forall {A} (o : option A) (c : N),
  (match o with Some _ => [] | None => [c] end) = [] -> exists v, o = Some v.
Proof. intros A [v|] c H; [eauto|discriminate]. Qed.

Theorem c02_check_sound : forall a, c02_check a = [] -> forall x, live a x ->
  (exists l, is_path a parent x l /\ (length l <= length (nodes a))%nat) /\
  (exists l, is_path a next x l /\ (length l <= length (nodes a))%nat) /\
  (exists l, is_path a prev x l /\ (length l <= length (nodes a))%nat).
Proof.
  intros a H x L. destruct L as (n & Hn & S & G).
  assert (Hin : In (x, n) (live_slots a)) by (apply ms_in_live_slots; auto).
  pose proof (ms_flat_map_nil _ _ H _ Hin) as Hc. cbn [c02_node] in Hc.
  apply app_eq_nil in Hc. destruct Hc as [H1 Hc].
  apply app_eq_nil in Hc. destruct Hc as [H2 H3].
  apply ms_opt_nil in H1, H2, H3.
  destruct H1 as [l1 H1], H2 as [l2 H2], H3 as [l3 H3].
  apply ms_walk_path in H1, H2, H3.
  split; [|split]; eauto.
Qed.

(* ====================================================================== *)
(* C12 (state part)                                                        *)
(* ====================================================================== *)

Lemma ms_is_some_false : forall {A} (o : option A), is_some o = false -> o = None.
Proof. intros A [v|] H; [discriminate|reflexivity]. Qed.

Theorem c12_state_sound : forall a, c12_state a = [] ->
  forall i n, nth_error (nodes a) i = Some n -> (stamp n < 0)%Z ->
    parent n = None /\ prev n = None /\ next n = None /\ first n = None /\ last n = None.
Proof.
  intros a H i n Hn Hs.
  assert (Hin : In (mkId i (stamp n), n) (slots a)).
  { apply ms_in_slots. unfold node_at. cbn [idx gen]. auto. }
  pose proof (ms_flat_map_nil _ _ H _ Hin) as Hc. cbn [snd] in Hc.
  apply Z.ltb_lt in Hs. rewrite Hs in Hc. cbn [andb] in Hc.
  destruct (is_some (parent n)) eqn:E1; [discriminate|].
  destruct (is_some (prev n)) eqn:E2; [discriminate|].
  destruct (is_some (next n)) eqn:E3; [discriminate|].
  destruct (is_some (first n)) eqn:E4; [discriminate|].
  destruct (is_some (last n)) eqn:E5; [discriminate|].
  repeat split; now apply ms_is_some_false.
Qed.

(* ====================================================================== *)
(* C01: what a silent c01_node says                                        *)
(* ====================================================================== *)

Definition ms_names_parent (a : arena) (x : nid) (c : nid) : bool :=
  match node_of a c with Some m => onid_eqb (parent m) (Some x) | None => false end.
Definition ms_head_no_prev (a : arena) (ch : list nid) : bool :=
  match ch with
  | c :: _ => match node_of a c with Some m => negb (is_some (prev m)) | None => false end
  | [] => true
  end.
Definition ms_all_on_chain (x : nid) (ch : list nid) (ym : nid * node) : bool :=
  negb (onid_eqb (parent (snd ym)) (Some x)) || nid_in (fst ym) ch.

Lemma ms_link_clause : forall a (x : nid) (pn : option nid) (o : option nid) (back : node -> option nid),
  (match o with
   | Some y => match node_of a y with
               | Some m => (if onid_eqb (back m) (Some x) then [] else [2%N]) ++
                           (if onid_eqb (parent m) pn then [] else [3%N])
               | None => [1%N] end
   | None => [] end) = [] ->
  forall y, o = Some y -> exists m, node_at a y m /\ back m = Some x /\ parent m = pn.
Proof.
  intros a x pn o back H y ->. unfold node_of in H. unfold node_at.
  destruct (nth_error (nodes a) (idx y)) as [m|]; [|discriminate].
  apply app_eq_nil in H. destruct H as [H1 H2].
  apply ms_ite_nil in H1, H2. apply ms_onid_eqb_eq in H1, H2. eauto.
Qed.

Lemma ms_c01_node_inv : forall a x n, c01_node a (x, n) = [] ->
  forallb (olink_live a) [parent n; prev n; next n; first n; last n] = true /\
  (forall y, next n = Some y -> exists m, node_at a y m /\ prev m = Some x /\ parent m = parent n) /\
  (forall y, prev n = Some y -> exists m, node_at a y m /\ next m = Some x /\ parent m = parent n) /\
  Bool.eqb (is_some (first n)) (is_some (last n)) = true /\
  exists ch, walk_b next (S (length (nodes a))) a (first n) = Some ch /\
    nodup_b ch = true /\
    onid_eqb (last_opt ch) (last n) = true /\
    forallb (ms_names_parent a x) ch = true /\
    ms_head_no_prev a ch = true /\
    forallb (ms_all_on_chain x ch) (live_slots a) = true.
Proof.
  intros a x n H. cbn [c01_node] in H.
  apply app_eq_nil in H. destruct H as [H1 H].
  apply app_eq_nil in H. destruct H as [H2 H].
  apply app_eq_nil in H. destruct H as [H3 H].
  apply app_eq_nil in H. destruct H as [H4 H].
  apply ms_ite_nil in H1, H4.
  split; [exact H1|].
  split; [exact (ms_link_clause a x (parent n) (next n) prev H2)|].
  split; [exact (ms_link_clause a x (parent n) (prev n) next H3)|].
  split; [exact H4|].
  destruct (walk_b next (S (length (nodes a))) a (first n)) as [ch|]; [|discriminate].
  exists ch. split; [reflexivity|].
  apply app_eq_nil in H. destruct H as [H5 H].
  apply app_eq_nil in H. destruct H as [H6 H].
  apply app_eq_nil in H. destruct H as [H7 H8].
  apply ms_ite_nil in H5, H6, H7, H8.
  apply andb_true_iff in H7. destruct H7 as [H7 H7'].
  repeat split; assumption.
Qed.

(* ====================================================================== *)
(* C01: the children chain                                                 *)
(* ====================================================================== *)

Section Chain.
Variable a : arena.
(* links of live nodes are live (clause 1) and next/prev are mutual (clause 2) *)
Hypothesis Hnext_live : forall c m z, live a c -> node_at a c m -> next m = Some z -> live a z.
Hypothesis Hnext_back : forall c m z, live a c -> node_at a c m -> next m = Some z ->
  exists m', node_at a z m' /\ prev m' = Some c.

Lemma ms_walk_dseg : forall fuel o l pv p,
  walk_b next fuel a o = Some l ->
  (forall c, o = Some c -> live a c /\ exists m, node_at a c m /\ prev m = pv) ->
  (forall c, In c l -> exists m, node_at a c m /\ parent m = p) ->
  dseg a p pv l None /\ (forall c, In c l -> live a c) /\ o = hd_error l.
Proof.
  induction fuel as [|f IH]; intros o l pv p W Ho Hp.
  - destruct o as [c|].
    + apply ms_walk_some_inv in W. destruct W as (f & n & r & E & _). discriminate.
    + rewrite ms_walk_none in W. inversion W; subst l. cbn. repeat split; auto. intros c [].
  - destruct o as [c|].
    + apply ms_walk_some_inv in W. destruct W as (f' & n & r & E & Hn & W & ->).
      inversion E; subst f'. clear E.
      destruct (Ho c eq_refl) as (Lc & m & Hm & Hpv).
      rewrite (ms_node_at_fun _ _ _ _ Hm Hn) in Hpv. clear m Hm.
      destruct (Hp c (or_introl eq_refl)) as (m & Hm & Hpar).
      rewrite (ms_node_at_fun _ _ _ _ Hm Hn) in Hpar. clear m Hm.
      destruct (IH (next n) r (Some c) p W) as (D & Lr & Hd).
      * intros z Ez. split; [eapply Hnext_live; eauto|]. eapply Hnext_back; eauto.
      * intros z Hz. apply Hp. now right.
      * split; [|split].
        -- cbn [dseg]. exists n. repeat split; auto.
        -- intros z [<-|Hz]; auto.
        -- reflexivity.
    + rewrite ms_walk_none in W. inversion W; subst l. cbn. repeat split; auto. intros c [].
Qed.
End Chain.

(* ====================================================================== *)
(* C01                                                                     *)
(* ====================================================================== *)

Section C01.
Variable a : arena.
Hypothesis Hsilent : c01_check a = [].

Lemma ms_c01_at : forall x n, live a x -> node_at a x n -> c01_node a (x, n) = [].
Proof.
  intros x n L Hn. unfold c01_check in Hsilent.
  apply (ms_flat_map_nil _ _ Hsilent). now apply ms_live_slot.
Qed.

Lemma ms_c01_links_live : forall x n f z, live a x -> node_at a x n -> getf f n = Some z -> live a z.
Proof.
  intros x n f z L Hn E. destruct (ms_c01_node_inv _ _ _ (ms_c01_at x n L Hn)) as (H1 & _).
  cbn [forallb] in H1.
  apply andb_true_iff in H1. destruct H1 as [Hp H1].
  apply andb_true_iff in H1. destruct H1 as [Hv H1].
  apply andb_true_iff in H1. destruct H1 as [Hx H1].
  apply andb_true_iff in H1. destruct H1 as [Hf H1].
  apply andb_true_iff in H1. destruct H1 as [Hl _].
  destruct f; cbn [getf] in E; refine (ms_olink_live _ _ _ _ E); assumption.
Qed.

Lemma ms_c01_next_back : forall c m z, live a c -> node_at a c m -> next m = Some z ->
  exists m', node_at a z m' /\ prev m' = Some c.
Proof.
  intros c m z L Hm E. destruct (ms_c01_node_inv _ _ _ (ms_c01_at c m L Hm)) as (_ & H2 & _).
  destruct (H2 z E) as (m' & Hm' & Hp & _). eauto.
Qed.

Lemma ms_names_parent_spec : forall x c, ms_names_parent a x c = true ->
  exists m, node_at a c m /\ parent m = Some x.
Proof.
  intros x c. unfold ms_names_parent, node_of, node_at.
  destruct (nth_error (nodes a) (idx c)) as [m|]; intros H; [|discriminate].
  apply ms_onid_eqb_eq in H. eauto.
Qed.

Theorem ms_c01_links_ok : LinksOK a.
Proof.
  intros x n L Hn.
  destruct (ms_c01_node_inv _ _ _ (ms_c01_at x n L Hn))
    as (_ & H2 & H3 & H4 & ch & W & Hnd & Hlast & Hpar & Hhead & Hall).
  split; [intros f z E; eapply ms_c01_links_live; eauto|].
  split; [exact H2|]. split; [exact H3|].
  split.
  { destruct (first n), (last n); cbn in H4; try discriminate; split; auto; discriminate. }
  exists ch.
  assert (Hp : forall c, In c ch -> exists m, node_at a c m /\ parent m = Some x).
  { intros c Hc. apply ms_names_parent_spec. rewrite forallb_forall in Hpar. now apply Hpar. }
  assert (Ho : forall c, first n = Some c -> live a c /\ exists m, node_at a c m /\ prev m = None).
  { intros c E. split; [apply (ms_c01_links_live x n Ffirst c L Hn E)|].
    rewrite E in W. apply ms_walk_some_inv in W. destruct W as (f & m & r & _ & Hm & _ & ->).
    cbn [ms_head_no_prev] in Hhead. unfold node_of in Hhead. unfold node_at in Hm.
    rewrite Hm in Hhead. exists m. split; [exact Hm|].
    destruct (prev m); [discriminate|reflexivity]. }
  destruct (ms_walk_dseg a (fun c m z Lc Hm E => ms_c01_links_live c m Fnext z Lc Hm E)
              ms_c01_next_back _ _ _ None (Some x) W Ho Hp) as (D & Lch & Hd).
  split; [exact D|].
  split; [now apply ms_nodup_b_NoDup|].
  split; [exact Hd|].
  split.
  { apply ms_onid_eqb_eq in Hlast. rewrite <- Hlast. apply ms_last_opt_eq. }
  intros c. split.
  - intros Hc. split; auto.
  - intros (Lc & m & Hm & E).
    rewrite forallb_forall in Hall. pose proof (Hall _ (ms_live_slot _ _ _ Lc Hm)) as Hb.
    unfold ms_all_on_chain in Hb. cbn [fst snd] in Hb.
    rewrite E, ms_onid_eqb_refl in Hb. cbn in Hb. now apply ms_nid_in_In.
Qed.
End C01.

Theorem c01_check_sound : forall a, c01_check a = [] -> LinksOK a.
Proof. exact ms_c01_links_ok. Qed.

Print Assumptions c01_check_sound.
Print Assumptions c12_state_sound.
Print Assumptions c02_check_sound.
