(* ValueProofs.v — C11 (lookup agreement on index/stamp logic) and C13 (clear means fresh,
   behaviour is a function of the arena alone, capacity guarantees). *)
From IT Require Import Value Forest.
Require Import Lia.

(* ---------- C11 ---------- *)
Lemma get_index_agree : forall a x n, get a x = Some n <-> nth_error (nodes a) (idx x) = Some n.
Proof. intros; unfold get; tauto. Qed.

Lemma get_none_out_of_range : forall a x, (length (nodes a) <= idx x)%nat -> get a x = None.
Proof. intros. unfold get. now apply nth_error_None. Qed.

Lemma get_node_id_of_live : forall a x, live a x -> get_node_id a (ref_of a x) = Some x.
Proof.
  intros a x (n & Hn & Hs & _). unfold node_at in Hn. unfold ref_of, get. rewrite Hn. cbn. rewrite Hn.
  destruct x as [i g]; cbn in *. now subst.
Qed.

Lemma get_node_id_at_of_live : forall a x, live a x -> get_node_id_at a (usize_of x) = Some x.
Proof.
  intros a x (n & Hn & Hs & Hg). unfold node_at in Hn. unfold usize_of, get_node_id_at. rewrite Hn.
  unfold node_is_removed, st_is_removed. destruct (Z.ltb_spec (stamp n) 0); [lia|].
  destruct x as [i g]; cbn in *. now subst.
Qed.

Lemma get_node_id_at_removed : forall a i n, nth_error (nodes a) i = Some n -> stamp n < 0 ->
  get_node_id_at a (S i) = None.
Proof.
  intros. cbn. rewrite H. unfold node_is_removed, st_is_removed. destruct (Z.ltb_spec (stamp n) 0); [reflexivity|lia].
Qed.

Lemma get_node_id_at_out_of_range : forall a k, (length (nodes a) < k)%nat -> get_node_id_at a k = None.
Proof.
  intros a [|k] H; cbn; auto. destruct (nth_error (nodes a) k) eqn:E; auto.
  assert (k < length (nodes a))%nat by (apply nth_error_Some; congruence). lia.
Qed.

Lemma get_node_id_elsewhere : forall a, get_node_id a Elsewhere = None.
Proof. reflexivity. Qed.

Lemma is_empty_count : forall a, is_empty a = true <-> count a = 0%nat.
Proof. intros. unfold is_empty. apply Nat.eqb_eq. Qed.

Lemma position_of_id : forall a x, live a x -> (1 <= usize_of x <= count a)%nat.
Proof.
  intros a x (n & Hn & _). unfold usize_of, count. unfold node_at in Hn.
  assert (idx x < length (nodes a))%nat by (apply nth_error_Some; congruence). lia.
Qed.

(* ---------- C13 ---------- *)
(* the ghost fields never influence what a call does *)
Lemma step_ar_only : forall dbg w1 w2 o, ar w1 = ar w2 ->
  ar (fst (step dbg w1 o)) = ar (fst (step dbg w2 o)) /\ snd (step dbg w1 o) = snd (step dbg w2 o).
Proof.
  intros dbg w1 w2 o E. destruct w1 as [a1 i1 r1 d1], w2 as [a2 i2 r2 d2]; cbn in E; subst a2.
  destruct o as [v|p v|k ch x c|x|x|x|x v| |k]; cbn [step ar].
  - destruct (new_node dbg v a1) as [a' [y|cd|]]; cbn; auto.
  - destruct (append_value dbg p v a1) as [a' [y|cd|]]; cbn; auto.
  - destruct ch.
    + destruct (checked_insert dbg k x c a1) as [a' [[|e]|cd|]]; cbn; auto.
    + destruct (unchecked_insert dbg k x c a1) as [a' [[]|cd|]]; cbn; auto.
  - destruct (detach dbg x a1) as [a' [[]|cd|]]; cbn; auto.
  - destruct (remove dbg x a1) as [a' [old|cd|]]; cbn; auto.
  - destruct (remove_subtree dbg x a1) as [a' [[ids olds]|cd|]]; cbn; auto.
  - destruct (write_payload x v a1) as [a' [old|cd|]]; cbn; auto.
  - destruct (clear a1) as [a' [olds|cd|]]; cbn; auto.
  - auto.
Qed.

Lemma run_ar_only : forall dbg ops w1 w2, ar w1 = ar w2 -> ar (run dbg ops w1) = ar (run dbg ops w2).
Proof.
  intros dbg ops. induction ops as [|o r IH]; intros w1 w2 E; cbn; auto.
  apply IH. apply (step_ar_only dbg w1 w2 o E).
Qed.

Fixpoint outcomes (dbg : bool) (ops : list op) (w : world) : list outcome :=
  match ops with [] => [] | o :: r => snd (step dbg w o) :: outcomes dbg r (fst (step dbg w o)) end.

Lemma outcomes_ar_only : forall dbg ops w1 w2, ar w1 = ar w2 -> outcomes dbg ops w1 = outcomes dbg ops w2.
Proof.
  intros dbg ops. induction ops as [|o r IH]; intros w1 w2 E; cbn; auto.
  destruct (step_ar_only dbg w1 w2 o E) as [Ea Eo]. rewrite Eo. f_equal. apply IH, Ea.
Qed.

Lemma clear_is_fresh_arena : forall dbg w, ar (fst (step dbg w OClear)) = ar init.
Proof. intros. reflexivity. Qed.

Lemma clear_is_fresh : forall dbg w ops,
  ar (run dbg ops (fst (step dbg w OClear))) = ar (run dbg ops init) /\
  outcomes dbg ops (fst (step dbg w OClear)) = outcomes dbg ops init.
Proof. intros. split; [apply run_ar_only | apply outcomes_ar_only]; reflexivity. Qed.

Lemma reserve_changes_nothing : forall dbg w k, fst (step dbg w (OReserve k)) = w /\ snd (step dbg w (OReserve k)) = OutUnit.
Proof. intros; split; reflexivity. Qed.

Section Cap.
  Variable grow : nat -> nat -> nat.
  Hypothesis grow_ge : forall c n, (n <= grow c n)%nat.

  Definition cap_ok (v : varena) : Prop := (length (nodes (va v)) <= cap v)%nat.

  Lemma with_capacity_ok : forall n, (n <= cap (v_with_capacity grow n))%nat /\ va (v_with_capacity grow n) = empty_arena.
  Proof. intros. split; cbn; auto. Qed.

  Lemma reserve_ok : forall k v, cap_ok v ->
    (length (nodes (va v)) + k <= cap (v_reserve grow k v))%nat /\ va (v_reserve grow k v) = va v /\ (cap v <= cap (v_reserve grow k v))%nat.
  Proof.
    intros k v H. unfold v_reserve; cbn. destruct (Nat.leb_spec (length (nodes (va v)) + k) (cap v)); repeat split; auto.
    - pose proof (grow_ge (cap v) (length (nodes (va v)) + k)). lia.
  Qed.

  Lemma clear_keeps_capacity : forall v, cap (v_clear v) = cap v /\ va (v_clear v) = empty_arena.
  Proof. intros; split; reflexivity. Qed.

  Lemma step_cap_ok : forall dbg v w o, va v = ar w -> cap_ok v -> cap_ok (v_step grow dbg v w o) /\ (cap v <= cap (v_step grow dbg v w o))%nat.
  Proof.
    intros dbg v w o E H. destruct v as [a0 c0]. cbn [va cap] in *. subst a0.
    unfold cap_ok in *; cbn [va cap] in *.
    destruct o; unfold v_step; cbn [va cap];
      try (match goal with |- context [Nat.leb ?n c0] => destruct (Nat.leb_spec n c0); split; auto;
             match goal with |- context [grow ?c ?m] => pose proof (grow_ge c m); lia end end).
    (* OReserve *)
    unfold v_reserve; cbn [cap va step fst ar].
    destruct (Nat.leb_spec (length (nodes (ar w)) + k) c0); split; try lia;
      pose proof (grow_ge c0 (length (nodes (ar w)) + k)); lia.
  Qed.
End Cap.
