(* AllocProps.v — identity, generations, slot reuse and payload accounting (C06, C07, C08) as
   consequences of the global invariant [WF], at a state (Part A) and along histories (Part B).
   Release semantics (dbg = false). *)
From IT Require Import Props.
From IT.proofs Require Import AllocProofs.
From IT.proofs Require Assembly ReprRemove.
Require Import Lia Permutation.
Open Scope Z_scope.
Open Scope mon_scope.

(* ====================================================================== *)
(* Part A — state-level consequences of the invariant                      *)
(* ====================================================================== *)

Lemma WF_alloc : forall w, WF w -> AllocOK w.
Proof. intros w H. apply H. Qed.

(* ---------- C06 ---------- *)

Theorem wf_issued_nodup : forall w, WF w -> NoDup (issued w).
Proof. intros w H. apply (al_nodup _ (WF_alloc _ H)). Qed.

Theorem wf_is_removed : forall w x, WF w -> In x (issued w) ->
  id_is_removed x (ar w) = Ok true /\ In x (removed w) \/
  id_is_removed x (ar w) = Ok false /\ ~ In x (removed w) /\ live (ar w) x.
Proof.
  intros w x H Hx. pose proof (WF_alloc _ H) as OK.
  pose proof (is_removed_correct w x OK Hx) as E.
  destruct (in_dec nid_eq_dec x (removed w)) as [Hr|Hr].
  - left. auto.
  - right. split; auto. split; auto.
    destruct (issued_live_or_removed w x OK Hx); tauto.
Qed.

Theorem wf_stamps_in_range : forall w i n, WF w -> nth_error (nodes (ar w)) i = Some n ->
  i16_min <= stamp n <= i16_max.
Proof. intros w i n H. apply (al_range _ (WF_alloc _ H)). Qed.

(* ---------- C07 ---------- *)

Lemma FreeOK_hd : forall a FL, FreeOK a FL -> ffree a = hd_error FL.
Proof.
  intros a FL (Hseg & _). destruct FL as [|i r]; cbn in *; auto. apply Hseg.
Qed.

Theorem wf_free_list : forall w, WF w ->
  NoDup (free_list (ar w)) /\ (forall i, In i (free_list (ar w)) <-> reusable_slot (ar w) i) /\
  ffree (ar w) = hd_error (free_list (ar w)).
Proof.
  intros w H. destruct (al_free _ (WF_alloc _ H)) as (FL & FO).
  rewrite (free_list_correct _ _ FO).
  split; [apply FO|]. split; [apply FO|]. now apply FreeOK_hd.
Qed.

Lemma not_in_range_not_live : forall a x, idx x = length (nodes a) -> ~ live a x.
Proof.
  intros a x E (n & Hn & _). unfold node_at in Hn. apply nth_error_some_lt in Hn. lia.
Qed.

Theorem wf_new_node : forall w v, WF w ->
  exists a' x, new_node false v (ar w) = (a', Ok x) /\ ~ In x (issued w) /\ ~ live (ar w) x /\ live a' x /\
    node_at a' x (fresh_node (gen x) (Data v)) /\
    (forall j, j <> idx x -> nth_error (nodes a') j = nth_error (nodes (ar w)) j) /\
    match free_list (ar w) with
    | i :: rest => idx x = i /\ length (nodes a') = length (nodes (ar w)) /\ free_list a' = rest
    | [] => idx x = length (nodes (ar w)) /\ length (nodes a') = S (length (nodes (ar w))) /\ free_list a' = []
    end.
Proof.
  intros w v H. pose proof (WF_alloc _ H) as OK. destruct (al_free _ OK) as (FL & FO).
  destruct (new_node_spec w v FL OK FO) as (a' & x & Hrun & NI & LV & X & O & C & _).
  exists a', x. rewrite (free_list_correct _ _ FO).
  split; auto. split; auto.
  assert (NL : ~ live (ar w) x).
  { destruct FL as [|i FL'].
    - destruct C as (Ei & _). now apply not_in_range_not_live.
    - destruct C as (_ & SR & _). intros L. now apply (live_not_removed _ _ L). }
  split; auto. split; auto. split; auto. split; auto.
  destruct FL as [|i FL'].
  - destruct C as (Ei & _ & L & FO'). split; auto. split; auto. now apply free_list_correct.
  - destruct C as (Ei & _ & L & FO'). split; auto. split; auto. now apply free_list_correct.
Qed.

Theorem wf_free_node : forall w x, WF w -> live (ar w) x ->
  exists a' v, free_node false x (ar w) = (a', Ok (Some v)) /\ payload_of_id (ar w) x = Some v /\
    free_list a' = free_list (ar w) ++ (if gen x <? i16_max then [idx x] else []).
Proof.
  intros w x H LV. pose proof (WF_alloc _ H) as OK. destruct (al_free _ OK) as (FL & FO).
  destruct (free_node_spec w x FL OK FO LV) as (a' & v & Hrun & (n & Hn & Hd) & _ & _ & _ & _ & _ & FO' & _).
  exists a', v. split; auto. split.
  - unfold payload_of_id. unfold node_at in Hn. now rewrite Hn, Hd.
  - rewrite (free_list_correct _ _ FO). now apply free_list_correct.
Qed.

(* ====================================================================== *)
(* Part B — along histories                                                *)
(* ====================================================================== *)

(* ---------- runs ---------- *)

Lemma run_cons : forall o r w, run false (o :: r) w = run false r (fst (step false w o)).
Proof. reflexivity. Qed.

Lemma run_app : forall ops1 ops2 w, run false (ops1 ++ ops2) w = run false ops2 (run false ops1 w).
Proof. intros. unfold run. apply fold_left_app. Qed.

Lemma valid_hist_app : forall ops1 ops2 w, valid_hist false w (ops1 ++ ops2) ->
  valid_hist false w ops1 /\ valid_hist false (run false ops1 w) ops2.
Proof.
  induction ops1 as [|o r IH]; intros ops2 w V.
  - split; [exact I|exact V].
  - destruct V as (V1 & V2). rewrite run_cons. destruct (IH _ _ V2) as (A & B).
    split; [split; assumption|assumption].
Qed.

(* ---------- C06 along histories ---------- *)

Theorem hist_issued_nodup : forall ops, valid_hist false init ops -> NoDup (issued (run false ops init)).
Proof. intros ops V. apply wf_issued_nodup. apply Assembly.run_WF; [apply Assembly.WF_init|exact V]. Qed.

Theorem hist_is_removed_exact : forall ops x, valid_hist false init ops ->
  let w := run false ops init in In x (issued w) ->
  (id_is_removed x (ar w) = Ok true <-> In x (removed w)) /\ (id_is_removed x (ar w) = Ok false <-> ~ In x (removed w)).
Proof.
  intros ops x V w Hx.
  assert (H : WF w) by (apply Assembly.run_WF; [apply Assembly.WF_init|exact V]).
  destruct (wf_is_removed w x H Hx) as [(E & Hr)|(E & Hr & _)]; rewrite E;
    (split; split; intros G; auto; try discriminate; try contradiction).
Qed.

Lemma removed_forever_gen : forall ops w x, ~ In OClear ops -> In x (removed w) ->
  In x (removed (run false ops w)).
Proof.
  induction ops as [|o r IH]; intros w x NC Hx; [exact Hx|].
  rewrite run_cons. apply IH.
  - intros G. apply NC. now right.
  - apply removed_monotone; auto. intros ->. apply NC. now left.
Qed.

Theorem hist_removed_forever : forall ops1 ops2 x, valid_hist false init (ops1 ++ ops2) ->
  ~ In OClear ops2 -> In x (removed (run false ops1 init)) ->
  In x (removed (run false (ops1 ++ ops2) init)) /\ In x (issued (run false (ops1 ++ ops2) init)).
Proof.
  intros ops1 ops2 x V NC Hx.
  assert (H : WF (run false (ops1 ++ ops2) init)) by (apply Assembly.run_WF; [apply Assembly.WF_init|exact V]).
  assert (Hr : In x (removed (run false (ops1 ++ ops2) init))).
  { rewrite run_app. now apply removed_forever_gen. }
  split; auto. apply (al_removed _ (WF_alloc _ H)) in Hr. apply Hr.
Qed.

(* ---------- C08: payload frames of the primitive operations ---------- *)

Lemma payload_node : forall a x n, node_at a x n ->
  payload_of_id a x = match data n with Data v => Some v | NextFree _ => None end.
Proof. unfold node_at, payload_of_id. intros a x n ->. reflexivity. Qed.

Lemma payload_slot_eq : forall a a' x, nth_error (nodes a') (idx x) = nth_error (nodes a) (idx x) ->
  payload_of_id a' x = payload_of_id a x.
Proof. unfold payload_of_id. intros a a' x ->. reflexivity. Qed.

Lemma payload_data_eq : forall a a' x n n', nth_error (nodes a) (idx x) = Some n ->
  nth_error (nodes a') (idx x) = Some n' -> data n' = data n -> payload_of_id a' x = payload_of_id a x.
Proof. unfold payload_of_id. intros a a' x n n' -> -> ->. reflexivity. Qed.

Lemma payload_same_shape : forall a a' x, same_shape a a' -> payload_of_id a' x = payload_of_id a x.
Proof.
  intros a a' x SS. unfold payload_of_id.
  destruct (nth_error (nodes a) (idx x)) as [n|] eqn:E.
  - destruct SS as (_ & _ & _ & K). destruct (K _ _ E) as (n' & -> & _ & ->). reflexivity.
  - destruct (nth_error (nodes a') (idx x)) as [n'|] eqn:E'; auto.
    destruct (same_shape_inv _ _ _ _ SS E') as (n & Hn & _). congruence.
Qed.

Lemma live_same_idx : forall a x y, live a x -> live a y -> idx x = idx y -> x = y.
Proof.
  intros a [i g] [j h] (n & Hn & Es & _) (m & Hm & Em & _) E. unfold node_at in *. cbn in *. subst j.
  rewrite Hn in Hm. injection Hm as <-. congruence.
Qed.

Lemma payload_new_node : forall w v a' r x, AllocOK w -> new_node false v (ar w) = (a', r) ->
  live (ar w) x -> payload_of_id a' x = payload_of_id (ar w) x.
Proof.
  intros w v a' r x OK Hrun Lx. destruct (al_free _ OK) as (FL & FO).
  destruct (new_node_spec w v FL OK FO) as (a2 & y & Hrun2 & _ & _ & _ & O & C & _).
  rewrite Hrun in Hrun2. injection Hrun2 as <- _.
  apply payload_slot_eq, O. intros E. destruct Lx as (n & Hn & Es & G). unfold node_at in Hn.
  destruct FL as [|i FL'].
  - destruct C as (Ei & _). apply nth_error_some_lt in Hn. lia.
  - destruct C as (_ & (m & Hm & Sm) & _). unfold node_at in Hm. rewrite <- E, Hn in Hm.
    injection Hm as <-. lia.
Qed.

Lemma payload_free_node : forall w y a' r x, AllocOK w -> live (ar w) y ->
  free_node false y (ar w) = (a', r) -> live (ar w) x -> live a' x ->
  payload_of_id a' x = payload_of_id (ar w) x.
Proof.
  intros w y a' r x OK Ly Hrun Lx Lx'. destruct (al_free _ OK) as (FL & FO).
  destruct (free_node_spec w y FL OK FO Ly) as (a2 & v & Hrun2 & _ & _ & _ & NL & _ & P & _).
  rewrite Hrun in Hrun2. injection Hrun2 as <- _.
  assert (NE : idx x <> idx y).
  { intros E. apply NL. now rewrite <- (live_same_idx _ _ _ Lx Ly E). }
  destruct Lx as (n & Hn & Es & G). unfold node_at in Hn.
  destruct (P _ _ Hn) as (n' & Hn' & _ & _ & _ & _ & _ & K). destruct (K NE) as (_ & Ed).
  eapply payload_data_eq; eauto. apply Ed. lia.
Qed.

Lemma payload_free_all : forall D w a' r x, AllocOK w ->
  (forall y, In y D -> live (ar w) y) -> NoDup (map idx D) ->
  free_all false D (ar w) = (a', r) -> live (ar w) x -> live a' x ->
  payload_of_id a' x = payload_of_id (ar w) x.
Proof.
  intros D w a' r x OK HL ND Hrun Lx Lx'. destruct (al_free _ OK) as (FL & FO).
  destruct (free_all_spec D w FL OK FO HL ND) as (a2 & olds & Hrun2 & _ & _ & _ & SRs & Fr & _).
  rewrite Hrun in Hrun2. injection Hrun2 as <- _.
  assert (NI : ~ In (idx x) (map idx D)).
  { intros Hin. apply in_map_iff in Hin. destruct Hin as (y & Ey & Hy).
    assert (x = y) as -> by (apply (live_same_idx (ar w)); auto).
    destruct (SRs _ Hy) as (SR & _). now apply (live_not_removed _ _ Lx'). }
  destruct Lx as (n & Hn & Es & G). unfold node_at in Hn.
  destruct (Fr _ _ NI Hn) as (n' & Hn' & _ & _ & Ed).
  eapply payload_data_eq; eauto. apply Ed. lia.
Qed.

Lemma payload_write : forall w y v a' r x, AllocOK w -> live (ar w) y ->
  write_payload y v (ar w) = (a', r) -> live (ar w) x -> y <> x ->
  payload_of_id a' x = payload_of_id (ar w) x.
Proof.
  intros w y v a' r x OK Ly Hrun Lx NE. destruct (al_free _ OK) as (FL & FO).
  destruct (write_payload_spec w y v FL OK FO Ly) as (a2 & old & n & Hrun2 & _ & _ & _ & O & _).
  rewrite Hrun in Hrun2. injection Hrun2 as <- _.
  apply payload_slot_eq, O. intros E. apply NE. symmetry. now apply (live_same_idx (ar w)).
Qed.

(* ---------- the arena after a step ---------- *)

Lemma step_ar : forall w o, ar (fst (step false w o)) =
  match o with
  | ONew v => fst (new_node false v (ar w))
  | OAppendValue p v => fst (append_value false p v (ar w))
  | OInsert k true a b => fst (checked_insert false k a b (ar w))
  | OInsert k false a b => fst (unchecked_insert false k a b (ar w))
  | ODetach x => fst (detach false x (ar w))
  | ORemove x => fst (remove false x (ar w))
  | ORemoveSubtree x => fst (remove_subtree false x (ar w))
  | OWrite x v => fst (write_payload x v (ar w))
  | OClear => empty_arena
  | OReserve _ => ar w
  end.
Proof.
  intros w o. destruct o as [v|p v|k chk a b|y|y|y|y v| |k]; cbn [step]; try reflexivity.
  - destruct (new_node false v (ar w)) as [a' [x|c|]]; reflexivity.
  - destruct (append_value false p v (ar w)) as [a' [x|c|]]; reflexivity.
  - destruct chk.
    + destruct (checked_insert false k a b (ar w)) as [a' [[|e]|c|]]; reflexivity.
    + destruct (unchecked_insert false k a b (ar w)) as [a' [[]|c|]]; reflexivity.
  - destruct (detach false y (ar w)) as [a' [[]|c|]]; reflexivity.
  - destruct (remove false y (ar w)) as [a' [old|c|]]; reflexivity.
  - destruct (remove_subtree false y (ar w)) as [a' [[ids olds]|c|]]; reflexivity.
  - destruct (write_payload y v (ar w)) as [a' [old|c|]]; reflexivity.
Qed.

Lemma bind_inv : forall A B (m : M A) (k : A -> M B) a a' r, bind m k a = (a', r) ->
  (exists a1 x, m a = (a1, Ok x) /\ k x a1 = (a', r)) \/
  (exists c, m a = (a', Panic c) /\ r = Panic c) \/ (m a = (a', Diverge) /\ r = Diverge).
Proof.
  intros A B m k a a' r H. unfold bind in H. destruct (m a) as [a1 [x|c|]].
  - left. eauto.
  - right. left. injection H as <- <-. eauto.
  - right. right. injection H as <- <-. eauto.
Qed.

Lemma rd_arena : forall i a a' r, rd i a = (a', r) -> a' = a.
Proof. intros i a a' r H. unfold rd in H. destruct (nth_error (nodes a) i); now injection H as <- _. Qed.

(* append_value either fails before allocating (arena untouched) or allocates exactly like new_node
   and then only relinks *)
Lemma append_value_arena : forall w p v a' r, AllocOK w -> append_value false p v (ar w) = (a', r) ->
  (a' = ar w /\ match r with Ok _ => False | _ => True end) \/
  exists a1 y, new_node false v (ar w) = (a1, Ok y) /\ same_shape a1 a' /\
               match r with Ok z => z = y | _ => True end.
Proof.
  intros w p v a' r OK H. destruct (al_free _ OK) as (FL & FO).
  destruct (new_node_spec w v FL OK FO) as (a1 & y & Hrun & _).
  unfold append_value in H. apply bind_inv in H.
  destruct H as [(a0 & np & H0 & H)|[(c & H0 & ->)|(H0 & ->)]];
    try (left; split; [eapply rd_arena; exact H0|exact I]).
  apply rd_arena in H0. subst a0. apply bind_inv in H.
  destruct H as [(a0 & [] & H1 & H)|[(c & H1 & ->)|(H1 & ->)]].
  - assert (a0 = ar w) as -> by (destruct (node_is_removed np); [discriminate|now injection H1 as <-]).
    apply bind_inv in H. rewrite Hrun in H.
    destruct H as [(a1' & y' & H2 & H)|[(c & H2 & _)|(H2 & _)]]; try discriminate.
    injection H2 as <- <-. right. exists a1, y. split; auto.
    apply bind_inv in H. destruct H as [(a2 & [] & H3 & H)|[(c & H3 & ->)|(H3 & ->)]].
    + unfold ret in H. injection H as <- <-. split; auto. eapply shape_insert_last_unchecked; eauto.
    + split; auto. eapply shape_insert_last_unchecked; eauto.
    + split; auto. eapply shape_insert_last_unchecked; eauto.
  - left. split; auto. destruct (node_is_removed np); unfold panic, ret in H1; now injection H1.
  - left. split; auto. destruct (node_is_removed np); unfold panic, ret in H1; now injection H1.
Qed.

Lemma AllocOK_lfree : forall w, AllocOK w -> ReprRemove.lfree_ok (ar w).
Proof.
  intros w OK. destruct (al_free _ OK) as (FL & _ & HL & _ & HR). unfold ReprRemove.lfree_ok. rewrite HL.
  destruct (last_error FL) as [i|] eqn:E; auto.
  apply last_error_in in E. apply HR in E. destruct E as (n & Hn & _).
  eapply nth_error_some_lt; eauto.
Qed.

(* remove = relinking, then free_node *)
Lemma remove_run : forall w x, WF w -> live (ar w) x ->
  exists a1 a' v FL1, same_shape (ar w) a1 /\
    AllocOK (mkWorld a1 (issued w) (removed w) (dropped w)) /\ FreeOK a1 FL1 /\ live a1 x /\
    free_node false x a1 = (a', Ok (Some v)) /\ remove false x (ar w) = (a', Ok (Some v)).
Proof.
  intros w x H L. pose proof (WF_alloc _ H) as OK. destruct H as ((F & R) & _).
  destruct (ReprRemove.remove_refines (ar w) F x R L (AllocOK_lfree w OK))
    as (a1 & a' & old & SS & Hfree & Hrem & _).
  assert (OK1 : AllocOK (mkWorld a1 (issued w) (removed w) (dropped w))) by (now apply AllocOK_same_shape).
  destruct (al_free _ OK1) as (FL1 & FO1).
  assert (L1 : live a1 x) by (now apply (live_same_shape (ar w) a1 x SS)).
  destruct (free_node_spec _ x FL1 OK1 FO1 L1) as (a2 & v & Hrun2 & _). sn.
  rewrite Hfree in Hrun2. injection Hrun2 as <- ->.
  exists a1, a', v, FL1. auto 10.
Qed.

(* remove_subtree = relinking, then free_all of live nodes in distinct slots *)
Lemma remove_subtree_run : forall w x, WF w -> live (ar w) x ->
  exists a1 a' D olds FL1, same_shape (ar w) a1 /\
    AllocOK (mkWorld a1 (issued w) (removed w) (dropped w)) /\ FreeOK a1 FL1 /\
    NoDup (map idx D) /\ (forall y, In y D -> live a1 y) /\
    free_all false D a1 = (a', Ok olds) /\ remove_subtree false x (ar w) = (a', Ok (D, olds)).
Proof.
  intros w x H L. pose proof (WF_alloc _ H) as OK. destruct H as ((F & R) & _).
  pose proof (ReprRemove.remove_subtree_refines (ar w) F x R L (AllocOK_lfree w OK)) as HH.
  cbv zeta in HH. destruct HH as (a1 & a' & olds & SS & ND & LD & Hfa & Hrs & _).
  assert (OK1 : AllocOK (mkWorld a1 (issued w) (removed w) (dropped w))) by (now apply AllocOK_same_shape).
  destruct (al_free _ OK1) as (FL1 & FO1).
  exists a1, a', (preorderF (length (nodes (ar w))) F x), olds, FL1. auto 10.
Qed.

(* ---------- C08: a live node keeps its payload unless it is itself written or removed ---------- *)

Theorem step_payload_stable : forall w o x, WF w -> valid_op (ar w) o -> live (ar w) x ->
  live (ar (fst (step false w o))) x ->
  (match o with OWrite y _ => y <> x | _ => True end) ->
  payload_of_id (ar (fst (step false w o))) x = payload_of_id (ar w) x.
Proof.
  intros w o x H V Lx Lx' Hy. pose proof (WF_alloc _ H) as OK.
  rewrite step_ar in *.
  destruct o as [v|p v|k chk a b|y|y|y|y v| |k]; cbn [valid_op] in V; cbn beta iota in Hy.
  - destruct (new_node false v (ar w)) as [a' r] eqn:E. cbn [fst] in *.
    eapply payload_new_node; eauto.
  - destruct (append_value false p v (ar w)) as [a' r] eqn:E. cbn [fst] in *.
    destruct (append_value_arena w p v a' r OK E) as [(-> & _)|(a1 & z & E1 & SS & _)]; [reflexivity|].
    rewrite (payload_same_shape a1 a' x SS). eapply payload_new_node; eauto.
  - destruct chk.
    + destruct (checked_insert false k a b (ar w)) as [a' r] eqn:E. cbn [fst] in *.
      apply shape_checked_insert in E. now apply payload_same_shape.
    + destruct (unchecked_insert false k a b (ar w)) as [a' r] eqn:E. cbn [fst] in *.
      apply shape_unchecked_insert in E. now apply payload_same_shape.
  - destruct (detach false y (ar w)) as [a' r] eqn:E. cbn [fst] in *.
    apply shape_detach in E. now apply payload_same_shape.
  - destruct (remove_run w y H V) as (a1 & a' & v & FL1 & SS & OK1 & _ & L1 & Hfree & Hrem).
    rewrite Hrem in *. cbn [fst] in *.
    rewrite <- (payload_same_shape (ar w) a1 x SS).
    apply (payload_free_node _ y a' (Ok (Some v)) x OK1); sn; auto.
    now apply (live_same_shape (ar w) a1 x SS).
  - destruct (remove_subtree_run w y H V) as (a1 & a' & D & olds & FL1 & SS & OK1 & _ & ND & LD & Hfa & Hrs).
    rewrite Hrs in *. cbn [fst] in *.
    rewrite <- (payload_same_shape (ar w) a1 x SS).
    apply (payload_free_all D _ a' (Ok olds) x OK1); sn; auto.
    now apply (live_same_shape (ar w) a1 x SS).
  - destruct (write_payload y v (ar w)) as [a' r] eqn:E. cbn [fst] in *.
    apply (payload_write w y v a' r x OK V E Lx Hy).
  - destruct Lx' as (n & Hn & _). unfold node_at in Hn. cbn in Hn. destruct (idx x); discriminate.
  - reflexivity.
Qed.

Theorem step_write : forall w x v, WF w -> live (ar w) x ->
  payload_of_id (ar (fst (step false w (OWrite x v)))) x = Some v.
Proof.
  intros w x v H L. pose proof (WF_alloc _ H) as OK. destruct (al_free _ OK) as (FL & FO).
  destruct (write_payload_spec w x v FL OK FO L) as (a' & old & n & Hrun & _ & _ & Hn' & _).
  rewrite step_ar, Hrun. cbn [fst]. rewrite (payload_node _ _ _ Hn'). reflexivity.
Qed.

(* ---------- C08: payload accounting ---------- *)

Definition intro1 (o : op) (out : outcome) : list N :=
  match o, out with
  | ONew v, OutId _ => [v]
  | OAppendValue _ v, OutId _ => [v]
  | OWrite _ v, OutUnit => [v]
  | _, _ => []
  end.

Lemma introduced_cons : forall o r w, introduced false (o :: r) w =
  intro1 o (snd (step false w o)) ++ introduced false r (fst (step false w o)).
Proof. reflexivity. Qed.

Lemma PayOK_ext : forall w w' ever, ar w' = ar w -> dropped w' = dropped w -> PayOK w ever -> PayOK w' ever.
Proof. unfold PayOK. intros w w' ever -> ->. auto. Qed.

Lemma step_accounting : forall w o ever, WF w -> valid_op (ar w) o -> PayOK w ever ->
  PayOK (fst (step false w o)) (intro1 o (snd (step false w o)) ++ ever).
Proof.
  intros w o ever H V P. pose proof (WF_alloc _ H) as OK. pose proof H as ((F & R) & _).
  destruct (al_free _ OK) as (FL & FO).
  destruct o as [v|p v|k chk a b|y|y|y|y v| |k].
  - cbn [step]. destruct (new_node_spec w v FL OK FO) as (a' & x & Hrun & _). rewrite Hrun.
    cbn [fst snd intro1 app]. eapply PayOK_new_node; eauto.
  - pose proof (Assembly.step_outcome w (OAppendValue p v) F R OK V) as SO. cbv zeta in SO.
    cbn [step] in *. destruct (append_value false p v (ar w)) as [a' r] eqn:E.
    destruct SO as (SO1 & SO2). cbn [valid_op] in V. destruct V as [L|SR].
    + destruct (SO2 L) as (x & Eo & _).
      destruct r as [z|c|]; cbn [fst snd fail_out] in *; try discriminate.
      destruct (append_value_arena w p v a' (Ok z) OK E) as [(_ & [])|(a1 & y & E1 & SS & ->)].
      cbn [intro1 app].
      pose proof (PayOK_new_node w ever v a1 y OK P E1) as P1.
      apply (PayOK_same_shape _ _ a' P1 SS).
    + destruct (SO1 SR) as (Eo & Ea).
      destruct r as [z|c|]; cbn [fst snd fail_out ar] in *; try discriminate;
        cbn [intro1 app]; (eapply PayOK_ext; [| |exact P]; sn; auto).
  - cbn [step]. destruct chk.
    + destruct (checked_insert false k a b (ar w)) as [a' r] eqn:E. apply shape_checked_insert in E.
      destruct r as [[|e]|c|]; cbn [fst snd intro1 app fail_out]; apply (PayOK_same_shape w ever a' P E).
    + destruct (unchecked_insert false k a b (ar w)) as [a' r] eqn:E. apply shape_unchecked_insert in E.
      destruct r as [[]|c|]; cbn [fst snd intro1 app fail_out]; apply (PayOK_same_shape w ever a' P E).
  - cbn [step]. destruct (detach false y (ar w)) as [a' r] eqn:E. apply shape_detach in E.
    destruct r as [[]|c|]; cbn [fst snd intro1 app fail_out]; apply (PayOK_same_shape w ever a' P E).
  - cbn [step valid_op] in *.
    destruct (remove_run w y H V) as (a1 & a' & v & FL1 & SS & OK1 & FO1 & L1 & Hfree & Hrem).
    rewrite Hrem. cbn [fst snd intro1 app olist].
    pose proof (PayOK_same_shape w ever a1 P SS) as P1.
    apply (PayOK_free_node _ ever y a' v FL1 OK1 FO1 L1 P1 Hfree).
  - cbn [step valid_op] in *.
    destruct (remove_subtree_run w y H V) as (a1 & a' & D & olds & FL1 & SS & OK1 & FO1 & ND & LD & Hfa & Hrs).
    rewrite Hrs. cbn [fst snd intro1 app].
    pose proof (PayOK_same_shape w ever a1 P SS) as P1.
    apply (PayOK_free_all D _ ever FL1 a' olds OK1 FO1 LD ND P1 Hfa).
  - cbn [step valid_op] in *.
    destruct (write_payload_spec w y v FL OK FO V) as (a' & old & n & Hrun & _). rewrite Hrun.
    cbn [fst snd intro1 app]. eapply PayOK_write_payload; eauto.
  - cbn. apply (PayOK_clear w ever P).
  - cbn. exact P.
Qed.

Lemma hist_accounting_ever : forall ops w ever, WF w -> valid_hist false w ops -> PayOK w ever ->
  PayOK (run false ops w) (introduced false ops w ++ ever).
Proof.
  induction ops as [|o r IH]; intros w ever H V P; [exact P|].
  destruct V as (V1 & V2). rewrite introduced_cons, run_cons.
  pose proof (IH _ _ (Assembly.step_WF w o H V1) V2 (step_accounting w o ever H V1 P)) as Q.
  unfold PayOK in *. eapply Permutation_trans; [|exact Q].
  rewrite <- app_assoc. rewrite !app_assoc. apply Permutation_app_tail. apply Permutation_app_comm.
Qed.

(* the accounting from an arbitrary well-formed world *)
Theorem hist_payload_accounting_gen : forall ops w, WF w -> valid_hist false w ops ->
  Permutation (introduced false ops w ++ dropped w ++ stored (ar w))
              (dropped (run false ops w) ++ stored (ar (run false ops w))).
Proof.
  intros ops w H V. apply (hist_accounting_ever ops w (dropped w ++ stored (ar w)) H V).
  apply Permutation_refl.
Qed.

Theorem hist_payload_accounting : forall ops, valid_hist false init ops ->
  Permutation (introduced false ops init) (dropped (run false ops init) ++ stored (ar (run false ops init))).
Proof.
  intros ops V. pose proof (hist_payload_accounting_gen ops init Assembly.WF_init V) as Q.
  cbn [init dropped ar app] in Q. change (stored empty_arena) with (@nil N) in Q.
  now rewrite app_nil_r in Q.
Qed.

Lemma NoDup_app_disj : forall A (l1 l2 : list A) v, NoDup (l1 ++ l2) -> In v l1 -> ~ In v l2.
Proof.
  induction l1 as [|h t IH]; intros l2 v ND Hin; [destruct Hin|].
  cbn in ND. inversion ND as [|? ? Hnh ND']; subst. destruct Hin as [->|Hin].
  - intros G. apply Hnh. apply in_or_app. now right.
  - now apply IH.
Qed.

Lemma NoDup_app_left : forall A (l1 l2 : list A), NoDup (l1 ++ l2) -> NoDup l1.
Proof.
  induction l1 as [|h t IH]; intros l2 ND; [constructor|].
  cbn in ND. inversion ND as [|? ? Hnh ND']; subst. constructor.
  - intros G. apply Hnh. apply in_or_app. now left.
  - eapply IH; eauto.
Qed.

Corollary hist_drop_once : forall ops, valid_hist false init ops -> NoDup (introduced false ops init) ->
  NoDup (dropped (run false ops init)) /\
  (forall v, In v (dropped (run false ops init)) -> ~ In v (stored (ar (run false ops init)))).
Proof.
  intros ops V ND. pose proof (hist_payload_accounting ops V) as Q.
  pose proof (Permutation_NoDup Q ND) as ND'. split.
  - eapply NoDup_app_left; eauto.
  - intros v. now apply NoDup_app_disj.
Qed.

Print Assumptions wf_issued_nodup.
Print Assumptions wf_is_removed.
Print Assumptions wf_stamps_in_range.
Print Assumptions wf_free_list.
Print Assumptions wf_new_node.
Print Assumptions wf_free_node.
Print Assumptions hist_issued_nodup.
Print Assumptions hist_is_removed_exact.
Print Assumptions hist_removed_forever.
Print Assumptions step_payload_stable.
Print Assumptions step_write.
Print Assumptions hist_payload_accounting_gen.
Print Assumptions hist_payload_accounting.
Print Assumptions hist_drop_once.
