(* SrcPrint.v — gen/GenPrint.v (the IndentWriter state machine of debug_pretty_print.rs, re-translated from the
   Rust text on every run) refines the model's Printer.v.  The regenerated writer keeps `indents` in the Vec's own
   order; the model keeps it reversed (a stack): [absw] is the abstraction function. *)
From IT.proofs Require Import SrcTac.
From IT.gen Require Import GenPrint.
Require Import Lia.
Open Scope mon_scope.

Definition absw (g : gwriter) : writer := mkWriter (g_out g) (g_lst g) (rev (g_ind g)) (g_pend g).

Definition map_res {A B} (f : A -> B) (r : res A) : res B :=
  match r with Ok x => Ok (f x) | Panic c => Panic c | Diverge => Diverge end.

(* the only state in which `pending` is read is PartialIndent, right after write_indent_partial computed it *)
Definition gw_ok (g : gwriter) : Prop := (g_pend g <= length (g_ind g))%nat.

(* ---- statements to prove (do not change them) ---- *)

Lemma src_as_str i : g_IndentedBlockState_as_str i = as_str i.
Proof. destruct i as [[|] [|]]; reflexivity. Qed.
Lemma src_as_str_leading i : g_IndentedBlockState_as_str_leading i = as_str_leading i.
Proof. destruct i as [[|] [|]]; reflexivity. Qed.
Lemma src_as_str_trailing_spaces i : g_IndentedBlockState_as_str_trailing_spaces i = as_str_trailing_spaces i.
Proof. destruct i as [[|] [|]]; reflexivity. Qed.
Lemma src_is_all_whitespace i : g_IndentedBlockState_is_all_whitespace i = is_all_whitespace i.
Proof. reflexivity. Qed.

(* ---- list facts relating the Vec order to the stack order ---- *)

Lemma rev_upd_last {A} (f : A -> A) l :
  rev (upd_last f l) = match rev l with x :: t => f x :: t | [] => [] end.
Proof.
  unfold upd_last. destruct (rev l); [reflexivity|].
  rewrite rev_app_distr, rev_involutive. reflexivity.
Qed.

Lemma length_upd_last {A} (f : A -> A) l : length (upd_last f l) = length l.
Proof.
  rewrite <- (rev_length (upd_last f l)), rev_upd_last, <- (rev_length l).
  destruct (rev l); reflexivity.
Qed.

Lemma rev_removelast {A} (l : list A) : rev (removelast l) = tl (rev l).
Proof.
  destruct l using rev_ind; [reflexivity|].
  rewrite removelast_last, rev_app_distr. reflexivity.
Qed.

Lemma src_open_item g b : absw (g_IndentWriter_open_item g b) = open_item b (absw g).
Proof.
  destruct g as [o l i p]. unfold g_IndentWriter_open_item, open_item, absw.
  destruct l; cbn; rewrite rev_app_distr, rev_upd_last; cbn;
    destruct (rev i) as [|[x y] t]; reflexivity.
Qed.

Lemma src_close_item g :
  close_item (absw g) = (let '(g', ok) := g_IndentWriter_close_item g in if ok then Some (absw g') else None).
Proof.
  destruct g as [o l i p]. unfold g_IndentWriter_close_item, close_item, absw, last_opt, set_g_ind.
  cbn [g_ind g_out g_lst g_pend indents out lst pending].
  pose proof (rev_removelast i) as E. destruct (rev i); cbn [g_ind g_out g_lst g_pend]; [reflexivity|].
  rewrite E. reflexivity.
Qed.

(* ---- write_indent_partial ---- *)

Lemma count_while_ws l :
  count_while (fun x_1 => let v_i_2 := x_1 in g_IndentedBlockState_is_all_whitespace v_i_2) l = count_leading_ws l.
Proof.
  induction l as [|x t IH]; [reflexivity|]. cbn [count_while count_leading_ws]. cbv zeta in *.
  rewrite IH. reflexivity.
Qed.

Lemma count_while_le {A} (p : A -> bool) l : (count_while p l <= length l)%nat.
Proof. induction l as [|x t IH]; cbn; [lia|]. destruct (p x); cbn; lia. Qed.

Lemma firstn_rev_skipn {A} (l : list A) p : firstn (length l - p) l = rev (skipn p (rev l)).
Proof. rewrite skipn_rev, rev_involutive. reflexivity. Qed.

Lemma fold_out_as_str tp g :
  fold_left (fun s_7 v_indent_8 =>
               let v_self_9 := set_g_out (g_out s_7 ++ g_IndentedBlockState_as_str v_indent_8)%list s_7 in v_self_9) tp g
  = set_g_out (g_out g ++ flat_map as_str tp) g.
Proof.
  revert g; induction tp as [|x t IH]; intro g.
  - destruct g; unfold set_g_out; cbn. rewrite app_nil_r. reflexivity.
  - cbn [fold_left flat_map]. rewrite IH, src_as_str. destruct g; unfold set_g_out; cbn.
    rewrite <- app_assoc. reflexivity.
Qed.

Lemma indent_prefix_last l x : indent_prefix (l ++ [x]) = flat_map as_str l ++ as_str_leading x.
Proof.
  induction l as [|y t IH]; [reflexivity|].
  cbn [app flat_map]. rewrite <- app_assoc, <- IH.
  destruct t; reflexivity.
Qed.

Lemma src_write_indent_partial g :
  absw (g_IndentWriter_write_indent_partial g) = write_indent_partial (absw g).
Proof.
  destruct g as [o l i p].
  unfold g_IndentWriter_write_indent_partial, write_indent_partial, absw, count_trailing.
  cbn [set_g_pend g_ind g_out g_lst g_pend indents out lst pending].
  rewrite count_while_ws, firstn_rev_skipn.
  set (tp := rev (skipn (count_leading_ws (rev i)) (rev i))).
  destruct tp as [|x t _] using rev_ind.
  - cbn. rewrite app_nil_r. reflexivity.
  - unfold last_opt. rewrite rev_app_distr. cbn [rev app].
    rewrite fold_out_as_str, app_length. cbn [length].
    replace (length t + 1 - 1)%nat with (length t + 0)%nat by lia.
    rewrite firstn_app_2. cbn [firstn]. rewrite app_nil_r, src_as_str_leading, indent_prefix_last.
    unfold set_g_out; cbn. rewrite <- app_assoc. reflexivity.
Qed.

Lemma wip_ind g : g_ind (g_IndentWriter_write_indent_partial g) = g_ind g.
Proof.
  destruct g as [o l i p]. unfold g_IndentWriter_write_indent_partial.
  cbn [set_g_pend g_ind g_out g_lst g_pend].
  destruct (last_opt _); [|reflexivity].
  rewrite fold_out_as_str. reflexivity.
Qed.

Lemma wip_pend g : g_pend (g_IndentWriter_write_indent_partial g)
                   = count_trailing (fun x_1 => let v_i_2 := x_1 in g_IndentedBlockState_is_all_whitespace v_i_2) (g_ind g).
Proof.
  destruct g as [o l i p]. unfold g_IndentWriter_write_indent_partial.
  cbn [set_g_pend g_ind g_out g_lst g_pend].
  destruct (last_opt _); [|reflexivity].
  rewrite fold_out_as_str. reflexivity.
Qed.

Lemma wip_lst g : g_lst (g_IndentWriter_write_indent_partial g) = g_lst g.
Proof.
  destruct g as [o l i p]. unfold g_IndentWriter_write_indent_partial.
  cbn [set_g_pend g_ind g_out g_lst g_pend].
  destruct (last_opt _); [|reflexivity].
  rewrite fold_out_as_str. reflexivity.
Qed.

Lemma src_write_indent_partial_ok g : gw_ok (g_IndentWriter_write_indent_partial g).
Proof.
  unfold gw_ok. rewrite wip_ind, wip_pend. unfold count_trailing.
  rewrite <- (rev_length (g_ind g)). apply count_while_le.
Qed.

(* ---- complete_partial_indent ---- *)

Lemma fold_out_spaces n k g :
  fold_left (fun s_5 (_ : nat) =>
               let v_self_6 := set_g_out (g_out s_5 ++ [32%N; 32%N; 32%N; 32%N])%list s_5 in v_self_6) (seq k n) g
  = set_g_out (g_out g ++ repeat_bytes n [SP; SP; SP; SP]) g.
Proof.
  revert k g; induction n as [|n IH]; intros k g.
  - destruct g; unfold set_g_out; cbn. rewrite app_nil_r. reflexivity.
  - cbn [seq fold_left repeat_bytes]. rewrite IH. destruct g; unfold set_g_out; cbn.
    rewrite <- app_assoc. reflexivity.
Qed.

Lemma nth_error_rev {A} (l : list A) p : (p < length l)%nat ->
  nth_error (rev l) p = nth_error l (length l - S p).
Proof.
  intro H. destruct l as [|d l']; [cbn in H; lia|]. set (l := d :: l') in *.
  rewrite (nth_error_nth' (rev l) d) by (rewrite rev_length; exact H).
  rewrite (nth_error_nth' l d) by lia.
  rewrite rev_nth by exact H. reflexivity.
Qed.

(* the generated function never touches the arena: its result as a pure value *)
Definition cpi_fin (g : gwriter) : gwriter :=
  set_g_pend 0%nat (set_g_out (g_out g ++ repeat_bytes (g_pend g) [SP; SP; SP; SP]) g).

Definition cpi_res (dbg : bool) (g : gwriter) : res gwriter :=
  if dbg && negb (lstate_eqb (g_lst g) PartialIndent) then Panic P_DEBUG_ASSERT
  else match (length (g_ind g) - g_pend g)%nat with
       | O => Ok (cpi_fin g)
       | S k => match nth_error (g_ind g) k with
                | Some x => Ok (cpi_fin (set_g_out (g_out g ++ as_str_trailing_spaces x) g))
                | None => Panic P_INDEX
                end
       end.

Lemma cpi_eq dbg g a : g_IndentWriter_complete_partial_indent dbg g a = (a, cpi_res dbg g).
Proof.
  unfold g_IndentWriter_complete_partial_indent, cpi_res, cpi_fin.
  unfold bind, ret, panic, when_dbg, dassert.
  destruct dbg; cbn [andb]; [destruct (lstate_eqb (g_lst g) PartialIndent); cbn [negb]; [|reflexivity]|];
    (destruct (length (g_ind g) - g_pend g)%nat as [|k];
     [ rewrite fold_out_spaces; reflexivity
     | destruct (nth_error (g_ind g) k) as [x|]; [|reflexivity];
       rewrite fold_out_spaces, src_as_str_trailing_spaces; reflexivity ]).
Qed.

Lemma cpi_abs dbg g : gw_ok g ->
  map_res absw (cpi_res dbg g) = complete_partial_indent dbg (absw g) /\
  (forall g', cpi_res dbg g = Ok g' -> gw_ok g' /\ g_ind g' = g_ind g).
Proof.
  destruct g as [o l i p]. unfold gw_ok, cpi_res, complete_partial_indent, absw, cpi_fin.
  cbn [g_ind g_out g_lst g_pend indents out lst pending set_g_out set_g_pend]. intro H.
  destruct (dbg && negb (lstate_eqb l PartialIndent)); [split; [reflexivity|discriminate]|].
  rewrite rev_length.
  replace (Nat.ltb (length i) p) with false by (symmetry; apply Nat.ltb_ge; exact H).
  destruct (length i - p)%nat as [|k] eqn:E.
  - assert (nth_error (rev i) p = None) as ->
        by (apply nth_error_None; rewrite rev_length; lia).
    split.
    + cbn. reflexivity.
    + intros g' [= <-]. cbn. split; [lia|reflexivity].
  - rewrite nth_error_rev by lia.
    replace (length i - S p)%nat with k by lia.
    destruct (nth_error i k) as [x|] eqn:En.
    + split.
      * cbn. rewrite <- app_assoc. reflexivity.
      * intros g' [= <-]. cbn. split; [lia|reflexivity].
    + apply nth_error_None in En. lia.
Qed.

Lemma src_complete_partial_indent dbg g a : gw_ok g ->
  exists r, g_IndentWriter_complete_partial_indent dbg g a = (a, r) /\
            map_res absw r = complete_partial_indent dbg (absw g) /\
            (forall g', r = Ok g' -> gw_ok g' /\ g_ind g' = g_ind g).
Proof.
  intro H. exists (cpi_res dbg g). split; [apply cpi_eq|]. apply cpi_abs; exact H.
Qed.

(* ---- write_str ---- *)

Lemma segs_find_nl s cur :
  segs s cur = match find_nl s with
               | Some pos => (rev cur ++ firstn (pos + 1) s, true) :: segs (skipn (pos + 1) s) []
               | None => match rev cur ++ s with [] => [] | l => [(l, false)] end
               end.
Proof.
  revert cur; induction s as [|c s IH]; intro cur.
  - cbn [segs find_nl]. rewrite app_nil_r. destruct cur as [|x t]; [reflexivity|].
    destruct (rev (x :: t)) eqn:E; [|reflexivity].
    apply (f_equal (@length _)) in E. rewrite rev_length in E. discriminate.
  - cbn [segs find_nl]. change (c =? 10)%N with (c =? NL)%N. destruct (c =? NL)%N.
    + cbn. reflexivity.
    + rewrite IH. destruct (find_nl s) as [pos|]; cbn [option_map].
      * cbn [rev]. rewrite <- app_assoc. replace (S pos + 1)%nat with (S (pos + 1)) by lia. reflexivity.
      * cbn [rev]. rewrite <- app_assoc. reflexivity.
Qed.

(* one iteration of the generated loop as a pure value *)
Definition gstep_res (dbg : bool) (g : gwriter) (content : list N) (nl : bool) : res gwriter :=
  let g3 := if lstate_eqb (g_lst g) BeforeIndent
            then set_g_lst PartialIndent (g_IndentWriter_write_indent_partial g) else g in
  match (if lstate_eqb (g_lst g3) PartialIndent then cpi_res dbg g3 else Ok g3) with
  | Ok g11 =>
      Ok (set_g_lst (if nl then BeforeIndent else Content)
            (set_g_out (g_out g11 ++ content)
               (set_g_ind (upd_last (fun e_12 => (fst e_12, (snd e_12) && (negb nl))) (g_ind g11)) g11)))
  | Panic c => Panic c
  | Diverge => Diverge
  end.

Lemma gstep_abs dbg g content nl : gw_ok g ->
  map_res absw (gstep_res dbg g content nl) = write_seg dbg (content, nl) (absw g) /\
  (forall g', gstep_res dbg g content nl = Ok g' -> gw_ok g').
Proof.
  intro H. unfold gstep_res, write_seg.
  change (lst (absw g)) with (g_lst g).
  set (g3 := if lstate_eqb (g_lst g) BeforeIndent then _ else g).
  set (w1 := if lstate_eqb (g_lst g) BeforeIndent then _ else absw g).
  assert (Hw : w1 = absw g3).
  { subst w1 g3. destruct (lstate_eqb (g_lst g) BeforeIndent); [|reflexivity].
    rewrite <- src_write_indent_partial. reflexivity. }
  assert (H3 : gw_ok g3).
  { subst g3. destruct (lstate_eqb (g_lst g) BeforeIndent); [|exact H].
    exact (src_write_indent_partial_ok g). }
  rewrite Hw. clearbody g3. clear w1 Hw H g.
  change (lst (absw g3)) with (g_lst g3).
  assert (K : forall g11, gw_ok g11 ->
     absw (set_g_lst (if nl then BeforeIndent else Content)
            (set_g_out (g_out g11 ++ content)
               (set_g_ind (upd_last (fun e_12 => (fst e_12, (snd e_12) && (negb nl))) (g_ind g11)) g11)))
     = mkWriter (out (absw g11) ++ content) (if nl then BeforeIndent else Content)
                (set_top_first_line (fun fl => fl && negb nl) (indents (absw g11))) (pending (absw g11))
     /\ gw_ok (set_g_lst (if nl then BeforeIndent else Content)
            (set_g_out (g_out g11 ++ content)
               (set_g_ind (upd_last (fun e_12 => (fst e_12, (snd e_12) && (negb nl))) (g_ind g11)) g11)))).
  { intros [o l i p] Hk. unfold gw_ok, absw in *.
    cbn [g_ind g_out g_lst g_pend indents out lst pending set_g_out set_g_pend set_g_ind set_g_lst] in *.
    rewrite length_upd_last, rev_upd_last. split; [|exact Hk].
    destruct (rev i) as [|[x y] t]; reflexivity. }
  destruct (lstate_eqb (g_lst g3) PartialIndent).
  - destruct (cpi_abs dbg g3 H3) as [E1 E2]. rewrite <- E1.
    destruct (cpi_res dbg g3) as [g11| |]; cbn [map_res]; [|split; [reflexivity|discriminate]..].
    destruct (E2 g11 eq_refl) as [Hk _]. destruct (K g11 Hk) as [K1 K2].
    split; [rewrite K1; reflexivity|]. intros g' [= <-]. exact K2.
  - cbn [map_res]. destruct (K g3 H3) as [K1 K2].
    split; [rewrite K1; reflexivity|]. intros g' [= <-]. exact K2.
Qed.

Lemma loop_step dbg f c s' g a le nl :
  (le, nl) = match find_nl (c :: s') with
             | Some pos => ((pos + 1)%nat, true)
             | None => (length (c :: s'), false)
             end ->
  g_IndentWriter_write_str_loop1 dbg (S f) (c :: s') g a =
  match gstep_res dbg g (firstn le (c :: s')) nl with
  | Ok g' => g_IndentWriter_write_str_loop1 dbg f (skipn le (c :: s')) g' a
  | Panic e => (a, Panic e)
  | Diverge => (a, Diverge)
  end.
Proof.
  intro E.
  assert (exists le', le = S le') as [le' ->].
  { destruct (find_nl (c :: s')) as [pos|]; injection E as -> _; [exists pos; lia|exists (length s'); reflexivity]. }
  cbn [g_IndentWriter_write_str_loop1 negb].
  unfold gstep_res.
  set (g3 := if lstate_eqb (g_lst g) BeforeIndent
             then set_g_lst PartialIndent (g_IndentWriter_write_indent_partial g) else g).
  assert (H3 : lstate_eqb (g_lst g3) BeforeIndent = false).
  { subst g3. destruct (lstate_eqb (g_lst g) BeforeIndent) eqn:Eb; [reflexivity|exact Eb]. }
  unfold bind at 1.
  replace ((if lstate_eqb (g_lst g) BeforeIndent
            then ret (set_g_lst PartialIndent (g_IndentWriter_write_indent_partial g))
            else ret g) a) with (a, Ok g3)
    by (subst g3; destruct (lstate_eqb (g_lst g) BeforeIndent); reflexivity).
  clearbody g3.
  unfold bind at 1.
  replace ((match find_nl (c :: s') with
            | Some v_pos_4 => ret ((v_pos_4 + 1)%nat, true)
            | None => ret (length (c :: s'), false)
            end) a) with (a, Ok (S le', nl))
    by (rewrite E; destruct (find_nl (c :: s')); reflexivity).
  cbn [firstn negb]. rewrite H3.
  destruct (lstate_eqb (g_lst g3) PartialIndent).
  - destruct dbg; unfold when_dbg, dassert, bind, ret; cbv beta iota; cbn [negb]; cbv beta iota;
      rewrite cpi_eq; (destruct (cpi_res _ g3) as [g11| |]; [|reflexivity..]);
      destruct nl; reflexivity.
  - destruct dbg; destruct nl; reflexivity.
Qed.

Lemma src_write_str_loop dbg fuel : forall s g a, (length s < fuel)%nat -> gw_ok g ->
  exists r, g_IndentWriter_write_str_loop1 dbg fuel s g a = (a, r) /\
            map_res absw r = write_segs dbg (segs s []) (absw g) /\
            (forall g', r = Ok g' -> gw_ok g').
Proof.
  induction fuel as [|f IH]; intros s g a Hl Hg; [lia|].
  destruct s as [|c s'].
  - exists (Ok g). split; [reflexivity|]. split; [reflexivity|]. intros g' [= <-]. exact Hg.
  - destruct (match find_nl (c :: s') with
              | Some pos => ((pos + 1)%nat, true)
              | None => (length (c :: s'), false)
              end) as [le nl] eqn:E. symmetry in E.
    rewrite (loop_step dbg f c s' g a le nl E).
    destruct (gstep_abs dbg g (firstn le (c :: s')) nl Hg) as [A1 A2].
    assert (Hs : segs (c :: s') [] = (firstn le (c :: s'), nl) :: segs (skipn le (c :: s')) []).
    { rewrite segs_find_nl. cbn [rev app].
      destruct (find_nl (c :: s')) as [pos|]; injection E as -> ->; [reflexivity|].
      change (S (length s')) with (length (c :: s')). rewrite firstn_all, skipn_all. reflexivity. }
    assert (Hk : (length (skipn le (c :: s')) < f)%nat).
    { rewrite skipn_length.
      destruct (find_nl (c :: s')) as [pos|]; injection E as -> _; cbn [length] in *; lia. }
    rewrite Hs. cbn [write_segs]. rewrite <- A1.
    destruct (gstep_res dbg g (firstn le (c :: s')) nl) as [g1|e|].
    + cbn [map_res]. apply IH; [exact Hk|]. apply A2. reflexivity.
    + exists (Panic e). split; [reflexivity|]. split; [reflexivity|]. discriminate.
    + exists Diverge. split; [reflexivity|]. split; [reflexivity|]. discriminate.
Qed.

Lemma src_write_str dbg g s a : gw_ok g ->
  exists r, g_IndentWriter_write_str dbg g s a = (a, r) /\
            map_res absw r = write_str dbg s (absw g) /\
            (forall g', r = Ok g' -> gw_ok g').
Proof.
  intro H. unfold g_IndentWriter_write_str, write_str.
  apply src_write_str_loop; [lia|exact H].
Qed.

(* ---- the weaker invariant: `pending` only matters in PartialIndent ---- *)

Definition gw_inv (g : gwriter) : Prop := g_lst g = PartialIndent -> (g_pend g <= length (g_ind g))%nat.

Lemma gw_inv_new : gw_inv (mkGW [] BeforeIndent [] 0).
Proof. intro H. discriminate. Qed.

Lemma open_item_lst g b : g_lst (g_IndentWriter_open_item g b) = BeforeIndent.
Proof. destruct g as [o l i p]. destruct l; reflexivity. Qed.

Lemma gw_inv_open_item g b : gw_inv g -> gw_inv (g_IndentWriter_open_item g b).
Proof. intros _ H. rewrite open_item_lst in H. discriminate. Qed.

Lemma close_item_lst g : g_lst (fst (g_IndentWriter_close_item g)) = g_lst g.
Proof. unfold g_IndentWriter_close_item. destruct (last_opt (g_ind g)); reflexivity. Qed.

Lemma gw_inv_close_item g : gw_inv g -> g_lst g <> PartialIndent -> gw_inv (fst (g_IndentWriter_close_item g)).
Proof. intros _ Hn H. rewrite close_item_lst in H. contradiction. Qed.

Lemma lstate_eqb_eq x y : lstate_eqb x y = true <-> x = y.
Proof. destruct x, y; cbn; split; congruence. Qed.

Lemma gstep_abs_inv dbg g content nl : gw_inv g ->
  map_res absw (gstep_res dbg g content nl) = write_seg dbg (content, nl) (absw g) /\
  (forall g', gstep_res dbg g content nl = Ok g' -> g_lst g' <> PartialIndent).
Proof.
  intro H. unfold gstep_res, write_seg.
  change (lst (absw g)) with (g_lst g).
  set (g3 := if lstate_eqb (g_lst g) BeforeIndent then _ else g).
  set (w1 := if lstate_eqb (g_lst g) BeforeIndent then _ else absw g).
  assert (Hw : w1 = absw g3).
  { subst w1 g3. destruct (lstate_eqb (g_lst g) BeforeIndent); [|reflexivity].
    rewrite <- src_write_indent_partial. reflexivity. }
  assert (H3 : lstate_eqb (g_lst g3) PartialIndent = true -> gw_ok g3).
  { subst g3. destruct (lstate_eqb (g_lst g) BeforeIndent).
    - intros _. exact (src_write_indent_partial_ok g).
    - intro E. apply lstate_eqb_eq in E. exact (H E). }
  rewrite Hw. clearbody g3. clear w1 Hw H g.
  change (lst (absw g3)) with (g_lst g3).
  assert (K : forall g11,
     absw (set_g_lst (if nl then BeforeIndent else Content)
            (set_g_out (g_out g11 ++ content)
               (set_g_ind (upd_last (fun e_12 => (fst e_12, (snd e_12) && (negb nl))) (g_ind g11)) g11)))
     = mkWriter (out (absw g11) ++ content) (if nl then BeforeIndent else Content)
                (set_top_first_line (fun fl => fl && negb nl) (indents (absw g11))) (pending (absw g11))).
  { intros [o l i p]. unfold absw.
    cbn [g_ind g_out g_lst g_pend indents out lst pending set_g_out set_g_pend set_g_ind set_g_lst].
    rewrite rev_upd_last. destruct (rev i) as [|[x y] t]; reflexivity. }
  destruct (lstate_eqb (g_lst g3) PartialIndent).
  - destruct (cpi_abs dbg g3 (H3 eq_refl)) as [E1 _]. rewrite <- E1.
    destruct (cpi_res dbg g3) as [g11| |]; cbn [map_res]; [|split; [reflexivity|discriminate]..].
    split; [rewrite K; reflexivity|]. intros g' [= <-]. destruct nl; discriminate.
  - cbn [map_res]. split; [rewrite K; reflexivity|]. intros g' [= <-]. destruct nl; discriminate.
Qed.

Lemma src_write_str_loop_inv dbg fuel : forall s g a, (length s < fuel)%nat -> gw_inv g ->
  exists r, g_IndentWriter_write_str_loop1 dbg fuel s g a = (a, r) /\
            map_res absw r = write_segs dbg (segs s []) (absw g) /\
            (forall g', r = Ok g' ->
               gw_inv g' /\ (g_lst g <> PartialIndent \/ s <> [] -> g_lst g' <> PartialIndent)).
Proof.
  induction fuel as [|f IH]; intros s g a Hl Hg; [lia|].
  destruct s as [|c s'].
  - exists (Ok g). split; [reflexivity|]. split; [reflexivity|]. intros g' [= <-].
    split; [exact Hg|]. intros [Hn|Hn]; [exact Hn|congruence].
  - destruct (match find_nl (c :: s') with
              | Some pos => ((pos + 1)%nat, true)
              | None => (length (c :: s'), false)
              end) as [le nl] eqn:E. symmetry in E.
    rewrite (loop_step dbg f c s' g a le nl E).
    destruct (gstep_abs_inv dbg g (firstn le (c :: s')) nl Hg) as [A1 A2].
    assert (Hs : segs (c :: s') [] = (firstn le (c :: s'), nl) :: segs (skipn le (c :: s')) []).
    { rewrite segs_find_nl. cbn [rev app].
      destruct (find_nl (c :: s')) as [pos|]; injection E as -> ->; [reflexivity|].
      change (S (length s')) with (length (c :: s')). rewrite firstn_all, skipn_all. reflexivity. }
    assert (Hk : (length (skipn le (c :: s')) < f)%nat).
    { rewrite skipn_length.
      destruct (find_nl (c :: s')) as [pos|]; injection E as -> _; cbn [length] in *; lia. }
    rewrite Hs. cbn [write_segs]. rewrite <- A1.
    destruct (gstep_res dbg g (firstn le (c :: s')) nl) as [g1|e|].
    + cbn [map_res]. pose proof (A2 g1 eq_refl) as Hn1.
      assert (Hi1 : gw_inv g1) by (intro Hp; contradiction).
      destruct (IH (skipn le (c :: s')) g1 a Hk Hi1) as [r [R1 [R2 R3]]].
      exists r. split; [exact R1|]. split; [exact R2|]. intros g' Hr.
      destruct (R3 g' Hr) as [Q1 Q2]. split; [exact Q1|]. intros _. apply Q2. left. exact Hn1.
    + exists (Panic e). split; [reflexivity|]. split; [reflexivity|]. discriminate.
    + exists Diverge. split; [reflexivity|]. split; [reflexivity|]. discriminate.
Qed.

Lemma src_write_str_inv dbg g s a : gw_inv g ->
  exists r, g_IndentWriter_write_str dbg g s a = (a, r) /\
            map_res absw r = write_str dbg s (absw g) /\
            (forall g', r = Ok g' -> gw_inv g' /\ (s <> [] -> g_lst g' <> PartialIndent)).
Proof.
  intro H. unfold g_IndentWriter_write_str, write_str.
  destruct (src_write_str_loop_inv dbg (S (length s)) s g a) as [r [R1 [R2 R3]]]; [lia|exact H|].
  exists r. split; [exact R1|]. split; [exact R2|]. intros g' Hr.
  destruct (R3 g' Hr) as [Q1 Q2]. split; [exact Q1|]. intro Hs. apply Q2. right. exact Hs.
Qed.

(* ---- a payload's fmt impl = the sequence of write_str calls it makes: the regenerated write_str, iterated over
   any chunking, refines the model's write_chunks ---- *)
Fixpoint g_write_chunks (dbg : bool) (chunks : list (list N)) (g : gwriter) : M gwriter :=
  match chunks with
  | [] => ret g
  | c :: t => g' <- g_IndentWriter_write_str dbg g c ;; g_write_chunks dbg t g'
  end.

Lemma src_write_chunks dbg chunks : forall g a, gw_inv g ->
  exists r, g_write_chunks dbg chunks g a = (a, r) /\
            map_res absw r = write_chunks dbg chunks (absw g) /\
            (forall g', r = Ok g' -> gw_inv g').
Proof.
  induction chunks as [|c t IH]; intros g a Hinv.
  - exists (Ok g). repeat split; auto. intros g' H. injection H as <-. exact Hinv.
  - destruct (src_write_str_inv dbg g c a Hinv) as [r [Hr [Habs Hpost]]].
    cbn [g_write_chunks write_chunks]. unfold bind. rewrite Hr.
    destruct r as [g1|code|]; cbn [map_res] in Habs; rewrite <- Habs.
    + destruct (Hpost g1 eq_refl) as [Hinv1 _].
      destruct (IH g1 a Hinv1) as [r2 [Hr2 [Habs2 Hpost2]]].
      exists r2. repeat split; auto.
    + exists (Panic code). repeat split; auto. intros g' H; discriminate H.
    + exists Diverge. repeat split; auto. intros g' H; discriminate H.
Qed.

(* ---- the print driver over the regenerated writer ---- *)

Definition pr_inv (g : gwriter) : Prop := gw_inv g /\ g_lst g <> PartialIndent.

Lemma pr_inv_new : pr_inv (mkGW [] BeforeIndent [] 0).
Proof. split; [exact gw_inv_new|discriminate]. Qed.

Lemma pr_inv_open_item g b : pr_inv (g_IndentWriter_open_item g b).
Proof.
  split; [intro H; rewrite open_item_lst in H; discriminate|].
  rewrite open_item_lst. discriminate.
Qed.

Lemma pr_inv_close_item g : pr_inv g -> pr_inv (fst (g_IndentWriter_close_item g)).
Proof.
  intros [H1 H2]. split; [apply gw_inv_close_item; assumption|].
  rewrite close_item_lst. exact H2.
Qed.

Lemma src_write_str_pr dbg g s a : pr_inv g ->
  exists r, g_IndentWriter_write_str dbg g s a = (a, r) /\
            map_res absw r = write_str dbg s (absw g) /\
            (forall g', r = Ok g' -> pr_inv g').
Proof.
  intros [H1 H2]. unfold g_IndentWriter_write_str, write_str.
  destruct (src_write_str_loop_inv dbg (S (length s)) s g a) as [r [R1 [R2 R3]]]; [lia|exact H1|].
  exists r. split; [exact R1|]. split; [exact R2|]. intros g' Hr.
  destruct (R3 g' Hr) as [Q1 Q2]. split; [exact Q1|]. apply Q2. left. exact H2.
Qed.

Lemma src_write_chunks_pr dbg chunks : forall g a, pr_inv g ->
  exists r, g_write_chunks dbg chunks g a = (a, r) /\
            map_res absw r = write_chunks dbg chunks (absw g) /\
            (forall g', r = Ok g' -> pr_inv g').
Proof.
  induction chunks as [|c t IH]; intros g a Hinv.
  - exists (Ok g). split; [reflexivity|]. split; [reflexivity|]. intros g' [= <-]. exact Hinv.
  - destruct (src_write_str_pr dbg g c a Hinv) as [r [Hr [Habs Hpost]]].
    cbn [g_write_chunks write_chunks]. unfold bind. rewrite Hr.
    destruct r as [g1|code|]; cbn [map_res] in Habs; rewrite <- Habs.
    + apply IH. apply Hpost. reflexivity.
    + exists (Panic code). split; [reflexivity|]. split; [reflexivity|]. discriminate.
    + exists Diverge. split; [reflexivity|]. split; [reflexivity|]. discriminate.
Qed.

(* the driver of debug_pretty_print.rs over the regenerated IndentWriter *)
Fixpoint g_print_loop (dbg : bool) (rend : rendering) (mode : nat) (fuel : nat) (root : nid)
         (cur : option edge) (g : gwriter) : M gwriter :=
  match fuel with
  | O => diverge
  | S f =>
      r <- lift (trav_step root cur) ;;
      match r with
      | (None, _) => ret g
      | (Some (End_ _), cur') =>
          let '(g', ok) := g_IndentWriter_close_item g in
          if ok then g_print_loop dbg rend mode f root cur' g' else ret g
      | (Some (Start id), cur') =>
          n <- rdi id ;;
          let g1 := g_IndentWriter_open_item g (negb (is_some (next n))) in
          v <- lift (payload_of id) ;;
          g2 <- g_write_chunks dbg (rend v mode) g1 ;;
          g_print_loop dbg rend mode f root cur' g2
      end
  end.

Definition g_pretty_print (dbg : bool) (rend : rendering) (mode : nat) (x : nid) : M (list N) :=
  a <- get_arena ;;
  r <- lift (trav_step x (Some (Start x))) ;;
  v <- lift (payload_of x) ;;
  g1 <- g_write_chunks dbg (rend v mode) (mkGW [] BeforeIndent [] 0) ;;
  g <- g_print_loop dbg rend mode (trav_fuel a) x (snd r) g1 ;;
  ret (g_out g).

Lemma src_print_loop dbg rend mode fuel : forall root cur g a, pr_inv g ->
  exists r, g_print_loop dbg rend mode fuel root cur g a = (a, r) /\
            map_res absw r = print_loop dbg rend mode fuel root cur (absw g) a.
Proof.
  induction fuel as [|f IH]; intros root cur g a Hg.
  - exists Diverge. split; reflexivity.
  - cbn [g_print_loop print_loop]. unfold bind at 1. unfold rbind at 1. unfold lift at 1.
    destruct (trav_step root cur a) as [[o cur']|c|];
      [|exists (Panic c); split; reflexivity|exists Diverge; split; reflexivity].
    destruct o as [[id|id]|].
    + unfold bind at 1. unfold rbind at 1. unfold rdi, rd, rrdi, rrd.
      destruct (nth_error (nodes a) (idx id)) as [n|]; [|exists (Panic P_INDEX); split; reflexivity].
      unfold bind at 1. unfold rbind at 1. unfold lift at 1.
      destruct (payload_of id a) as [v|c|];
        [|exists (Panic c); split; reflexivity|exists Diverge; split; reflexivity].
      unfold bind at 1. unfold rbind at 1. unfold liftw.
      destruct (src_write_chunks_pr dbg (rend v mode) (g_IndentWriter_open_item g (negb (is_some (next n)))) a
                  (pr_inv_open_item g _)) as [r [Hr [Habs Hpost]]].
      rewrite Hr. rewrite <- src_open_item, <- Habs.
      destruct r as [g2|c|]; cbn [map_res];
        [|exists (Panic c); split; reflexivity|exists Diverge; split; reflexivity].
      apply IH. apply Hpost. reflexivity.
    + rewrite src_close_item. pose proof (pr_inv_close_item g Hg) as Hc.
      destruct (g_IndentWriter_close_item g) as [g' ok]. cbn [fst] in Hc.
      destruct ok; [apply IH; exact Hc|]. exists (Ok g). split; reflexivity.
    + exists (Ok g). split; reflexivity.
Qed.

Theorem src_pretty_print dbg rend mode x a :
  g_pretty_print dbg rend mode x a = (a, pretty_print dbg rend mode x a).
Proof.
  unfold g_pretty_print, pretty_print.
  unfold bind at 1. unfold get_arena. unfold bind at 1. unfold rbind at 1. unfold lift at 1.
  destruct (trav_step x (Some (Start x)) a) as [[o cur']|c|]; [|reflexivity..].
  unfold bind at 1. unfold rbind at 1. unfold lift at 1.
  destruct (payload_of x a) as [v|c|]; [|reflexivity..].
  unfold bind at 1. unfold rbind at 1. unfold liftw.
  destruct (src_write_chunks_pr dbg (rend v mode) (mkGW [] BeforeIndent [] 0) a pr_inv_new)
    as [r [Hr [Habs Hpost]]].
  rewrite Hr. change writer_new with (absw (mkGW [] BeforeIndent [] 0)). rewrite <- Habs.
  destruct r as [g1|c|]; cbn [map_res]; [|reflexivity..].
  unfold bind at 1. unfold rbind at 1. cbn [snd].
  destruct (src_print_loop dbg rend mode (trav_fuel a) x cur' g1 a (Hpost g1 eq_refl)) as [r [Hr2 Habs2]].
  rewrite Hr2, <- Habs2.
  destruct r as [g2|c|]; reflexivity.
Qed.
