(* SrcAlloc.v — gen/GenAlloc.v (arena.rs: allocation, free list, lookups; re-translated on every run) is the
   model's ArenaM.v.  The model's ghost results (dropped payloads) are discarded with then_ret. *)
From IT.proofs Require Import SrcTac SrcStamp.
From IT.gen Require Import GenStamp GenAlloc.
Open Scope mon_scope.

Lemma src_pop_front_free_node dbg a : g_Arena_pop_front_free_node dbg a = pop_front_free_node a.
Proof. destruct a. unfold g_Arena_pop_front_free_node, pop_front_free_node. mx. Qed.

Lemma src_new_node dbg v a : g_Arena_new_node dbg v a = new_node dbg v a.
Proof.
  destruct a. unfold g_Arena_new_node, new_node, node_reuse.
  mx_rw (rewrite ?src_pop_front_free_node, ?src_node_reuse, ?src_node_new, ?src_from_non_zero_usize; unfold node_reuse_val, node_is_removed).
Qed.

Lemma src_free_node dbg x a : g_Arena_free_node dbg x a = then_ret (free_node dbg x) tt a.
Proof.
  destruct a. unfold g_Arena_free_node, free_node.
  mx_rw (rewrite ?src_stamp_as_removed, ?src_stamp_reuseable, ?src_index0).
Qed.

Lemma src_clear dbg a : g_Arena_clear dbg a = then_ret clear tt a.
Proof. destruct a. reflexivity. Qed.

Lemma src_count dbg a : g_Arena_count dbg a = (a, Ok (ArenaM.count a)).
Proof. reflexivity. Qed.

Lemma src_is_empty dbg a : g_Arena_is_empty dbg a = (a, Ok (ArenaM.is_empty a)).
Proof. reflexivity. Qed.

Lemma src_get dbg x a : g_Arena_get dbg x a = (a, Ok (ArenaM.get a x)).
Proof. unfold g_Arena_get, ArenaM.get. mx_rw (rewrite ?src_index0). Qed.

(* NonZeroUsize is never 0 *)
Lemma src_get_node_id_at dbg i a : g_Arena_get_node_id_at dbg (S i) a = (a, Ok (get_node_id_at a (S i))).
Proof.
  destruct a. unfold g_Arena_get_node_id_at, get_node_id_at, g_Node_is_removed, g_NodeStamp_is_removed, node_is_removed, st_is_removed.
  cbn [Nat.sub]. rewrite Nat.sub_0_r.
  mx_rw (rewrite ?src_from_non_zero_usize).
Qed.

(* ---- Arena::get_node_id: the pointer arithmetic.  The Vec's buffer is [len] slots of [size] bytes starting at
   address [base] (memory layout parameters); a `&Node<T>` is looked at as an address only. ---- *)
From IT Require Import Value.
Require Import Lia.

Lemma src_get_node_id_inside dbg base size p a :
  (0 < size)%Z -> (base <= p)%Z -> (p < base + Z.of_nat (length (nodes a)) * size)%Z ->
  g_Arena_get_node_id dbg base size p a = (a, Ok (get_node_id a (InBuffer (Z.to_nat ((p - base) / size))))).
Proof.
  intros Hs Hlo Hhi. destruct a as [l ff lf]. cbn [nodes] in Hhi.
  unfold g_Arena_get_node_id, get_node_id, usub. mred.
  assert (Z.leb base p = true) as -> by (apply Z.leb_le; lia).
  assert (Z.ltb p (base + Z.of_nat (length l) * size) = true) as -> by (apply Z.ltb_lt; lia).
  mred.
  assert ((Z.to_nat ((p - base) / size) < length l)%nat) as Hk.
  { apply Nat2Z.inj_lt. rewrite Z2Nat.id by (apply Z.div_pos; lia).
    apply Z.div_lt_upper_bound; lia. }
  destruct (nth_error l (Z.to_nat ((p - base) / size))) as [n|] eqn:E.
  - reflexivity.
  - apply nth_error_None in E. lia.
Qed.

(* the address of slot k is resolved to slot k *)
Lemma src_get_node_id_slot dbg base size k a :
  (0 < size)%Z -> (k < length (nodes a))%nat ->
  g_Arena_get_node_id dbg base size (base + Z.of_nat k * size) a = (a, Ok (get_node_id a (InBuffer k))).
Proof.
  intros Hs Hk. rewrite src_get_node_id_inside; try lia.
  - replace (base + Z.of_nat k * size - base)%Z with (Z.of_nat k * size)%Z by lia.
    rewrite Z.div_mul by lia. rewrite Nat2Z.id. reflexivity.
  - apply Z.add_lt_mono_l. apply Z.mul_lt_mono_pos_r; lia.
Qed.

(* an address outside the buffer (another arena's buffer, a clone, the stack) is refused *)
Lemma src_get_node_id_outside dbg base size p a :
  (p < base \/ base + Z.of_nat (length (nodes a)) * size <= p)%Z ->
  g_Arena_get_node_id dbg base size p a = (a, Ok (get_node_id a Elsewhere)).
Proof.
  intros H. destruct a as [l ff lf]. cbn [nodes] in H. unfold g_Arena_get_node_id, get_node_id. mred.
  destruct H as [H|H].
  - assert (Z.leb base p = false) as -> by (apply Z.leb_gt; lia). reflexivity.
  - assert (Z.ltb p (base + Z.of_nat (length l) * size) = false) as -> by (apply Z.ltb_ge; lia).
    destruct (Z.leb base p); reflexivity.
Qed.
