(* SrcAlloc.v — gen/GenAlloc.v (arena.rs: allocation, free list, lookups; re-translated on every run) is the
   model's ArenaM.v.  The model's ghost results (dropped payloads) are discarded with then_ret. *)
From IT.proofs Require Import SrcTac SrcStamp.
From IT.gen Require Import GenStamp GenAlloc.
Open Scope mon_scope.

Lemma src_pop_front_free_node dbg a : g_Arena_pop_front_free_node dbg a = pop_front_free_node a.
Proof. destruct a. unfold g_Arena_pop_front_free_node, pop_front_free_node. mx. Qed.

Lemma src_new_node dbg v a : g_Arena_new_node dbg v a = new_node dbg v a.
Proof.
  destruct a. unfold g_Arena_new_node, new_node, node_reuse.
  mx_rw (rewrite ?src_pop_front_free_node, ?src_node_reuse, ?src_node_new, ?src_from_non_zero_usize; unfold node_reuse_val, node_is_removed).
Qed.

Lemma src_free_node dbg x a : g_Arena_free_node dbg x a = then_ret (free_node dbg x) tt a.
Proof.
  destruct a. unfold g_Arena_free_node, free_node.
  mx_rw (rewrite ?src_stamp_as_removed, ?src_stamp_reuseable, ?src_index0).
Qed.

Lemma src_clear dbg a : g_Arena_clear dbg a = then_ret clear tt a.
Proof. destruct a. reflexivity. Qed.

Lemma src_count dbg a : g_Arena_count dbg a = (a, Ok (ArenaM.count a)).
Proof. reflexivity. Qed.

Lemma src_is_empty dbg a : g_Arena_is_empty dbg a = (a, Ok (ArenaM.is_empty a)).
Proof. reflexivity. Qed.

Lemma src_get dbg x a : g_Arena_get dbg x a = (a, Ok (ArenaM.get a x)).
Proof. unfold g_Arena_get, ArenaM.get. mx_rw (rewrite ?src_index0). Qed.

(* NonZeroUsize is never 0 *)
Lemma src_get_node_id_at dbg i a : g_Arena_get_node_id_at dbg (S i) a = (a, Ok (get_node_id_at a (S i))).
Proof.
  destruct a. unfold g_Arena_get_node_id_at, get_node_id_at, g_Node_is_removed, g_NodeStamp_is_removed, node_is_removed, st_is_removed.
  cbn [Nat.sub]. rewrite Nat.sub_0_r.
  mx_rw (rewrite ?src_from_non_zero_usize).
Qed.
