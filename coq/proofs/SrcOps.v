(* SrcOps.v — gen/GenOps.v (id.rs: detach, the eight inserts, append_value, remove, remove_subtree;
   re-translated on every run) is the model's NodeOps.v.  Ghost results (dropped payloads, removed ids)
   of the model are discarded with then_ret. *)
From IT.proofs Require Import SrcTac SrcStamp SrcRel SrcAlloc AllocProofs.
From IT.gen Require Import GenStamp GenRel GenAlloc GenOps.
Open Scope mon_scope.

(* assert_triangle_nodes only reads *)
Lemma tri_pure p pv nx a a' r : assert_triangle_nodes p pv nx a = (a', r) -> a' = a.
Proof.
  destruct a. unfold assert_triangle_nodes. intros H. revert H.
  repeat (mred; try (intros H; injection H as <- _; reflexivity); head_destruct; clean).
  all: mred; intros H; injection H as <- _; reflexivity.
Qed.

Ltac tri_inv :=
  repeat match goal with
         | H : assert_triangle_nodes _ _ _ ?a = (?b, _) |- _ =>
             let E := fresh "E" in pose proof (tri_pure _ _ _ _ _ _ H) as E; try subst b; clear H
         end.

Lemma len_in_range a a' i :
  length (nodes a') = length (nodes a) -> nth_error (nodes a) i <> None -> nth_error (nodes a') i <> None.
Proof. intros L H. apply nth_error_Some. rewrite L. apply nth_error_Some. exact H. Qed.

Lemma dfs_in_range dbg x l a a1 r :
  detach_from_siblings dbg x l a = (a1, Ok r) -> nth_error (nodes a) (idx x) <> None.
Proof.
  unfold detach_from_siblings. unfold bind at 1. unfold rdi, rd.
  destruct (nth_error (nodes a) (idx x)); [congruence|discriminate].
Qed.

Lemma detach_tail_release x a a1 a2 r1 :
  detach_from_siblings false x x a = (a1, Ok r1) ->
  rewrite_parents x None a1 = (a2, Ok COk) ->
  exists n, nth_error (nodes a2) (idx x) = Some n.
Proof.
  intros H1 H2.
  pose proof (dfs_in_range _ _ _ _ _ _ H1) as R.
  pose proof (shape_detach_from_siblings false x x _ _ _ H1) as [L1 _].
  pose proof (shape_rewrite_parents x None _ _ _ H2) as [L2 _].
  assert (nth_error (nodes a2) (idx x) <> None) as N.
  { eapply len_in_range; [|eapply len_in_range; [|exact R]; exact L1]. exact L2. }
  destruct (nth_error (nodes a2) (idx x)) as [n|]; [eauto|congruence].
Qed.

Lemma src_detach dbg x a : g_NodeId_detach dbg x a = detach dbg x a.
Proof.
  destruct dbg.
  - destruct a. unfold g_NodeId_detach, detach.
    mx_rw (rewrite ?src_range_new, ?src_detach_from_siblings, ?src_rewrite_parents, ?src_node_is_detached).
  - unfold g_NodeId_detach, detach. mred. rewrite src_range_new. mred. rewrite src_detach_from_siblings. mred.
    destruct (detach_from_siblings false x x a) as [a1 [r1| |]] eqn:E1; mred; try reflexivity.
    rewrite src_rewrite_parents.
    destruct (rewrite_parents x None a1) as [a2 [[|e]| |]] eqn:E2; mred; try reflexivity.
    destruct (detach_tail_release _ _ _ _ _ E1 E2) as [n Hn]. destruct a2 as [l2 ff2 lf2]; cbn [Base.nodes] in Hn. mred. rewrite Hn. reflexivity.
Qed.

Ltac ops_rw :=
  rewrite ?src_node_is_removed, ?src_detach, ?src_insert_with_neighbors, ?src_insert_last_unchecked,
          ?src_new_node, ?src_free_node, ?src_range_new, ?src_detach_from_siblings, ?src_transplant,
          ?src_assert_triangle_nodes, ?src_node_is_detached.

Lemma src_checked_append dbg x c a : g_NodeId_checked_append dbg x c a = checked_append dbg x c a.
Proof. destruct a. unfold g_NodeId_checked_append, checked_append, either_removed, is_ancestor_or_self. mx_rw ops_rw. Qed.

Lemma src_checked_prepend dbg x c a : g_NodeId_checked_prepend dbg x c a = checked_prepend dbg x c a.
Proof. destruct a. unfold g_NodeId_checked_prepend, checked_prepend, either_removed, is_ancestor_or_self. mx_rw ops_rw. Qed.

Lemma src_checked_insert_after dbg x c a : g_NodeId_checked_insert_after dbg x c a = checked_insert_after dbg x c a.
Proof. destruct a. unfold g_NodeId_checked_insert_after, checked_insert_after, either_removed, is_strict_ancestor. mx_rw ops_rw. Qed.

Lemma src_checked_insert_before dbg x c a : g_NodeId_checked_insert_before dbg x c a = checked_insert_before dbg x c a.
Proof. destruct a. unfold g_NodeId_checked_insert_before, checked_insert_before, either_removed, is_strict_ancestor. mx_rw ops_rw. Qed.

Lemma src_append dbg x c a : g_NodeId_append dbg x c a = append dbg x c a.
Proof. unfold g_NodeId_append, append. mx_rw (rewrite ?src_checked_append). Qed.
Lemma src_prepend dbg x c a : g_NodeId_prepend dbg x c a = prepend dbg x c a.
Proof. unfold g_NodeId_prepend, prepend. mx_rw (rewrite ?src_checked_prepend). Qed.
Lemma src_insert_after dbg x c a : g_NodeId_insert_after dbg x c a = insert_after dbg x c a.
Proof. unfold g_NodeId_insert_after, insert_after. mx_rw (rewrite ?src_checked_insert_after). Qed.
Lemma src_insert_before dbg x c a : g_NodeId_insert_before dbg x c a = insert_before dbg x c a.
Proof. unfold g_NodeId_insert_before, insert_before. mx_rw (rewrite ?src_checked_insert_before). Qed.

Lemma src_append_value dbg x v a : g_NodeId_append_value dbg x v a = append_value dbg x v a.
Proof.
  destruct a. unfold g_NodeId_append_value, g_NodeId_append_new_node_unchecked, append_value.
  mx_rw ops_rw.
Qed.

Lemma ls_len {A} i (x : A) l : length (list_set i x l) = length l.
Proof. revert i; induction l as [|h t IH]; intros [|i]; cbn; try reflexivity. now rewrite IH. Qed.

Lemma ls_some {A} i j (y : A) l :
  (exists n, nth_error l i = Some n) -> exists n, nth_error (list_set j y l) i = Some n.
Proof.
  intros [n Hn]. assert (nth_error (list_set j y l) i <> None) as N.
  { apply nth_error_Some. rewrite ls_len. apply nth_error_Some. congruence. }
  destruct (nth_error (list_set j y l) i); [eauto|congruence].
Qed.

Lemma free_node_in_range dbg x a a' r :
  free_node dbg x a = (a', Ok r) -> exists n, nth_error (nodes a') (idx x) = Some n.
Proof.
  destruct a as [l ff lf]. unfold free_node. intros H. revert H.
  repeat (mred; mnorm; try (intros H; discriminate H); head_destruct; clean).
  all: mred; mnorm; intros H; try discriminate H; injection H as <- _; cbn [Base.nodes]; mnorm.
  all: repeat (apply ls_some); mnorm;
       try solve [repeat match goal with H : nth_error _ _ = Some _ |- _ => rewrite H; clear H end; eauto].
Qed.

Lemma src_remove dbg x a : g_NodeId_remove dbg x a = then_ret (remove dbg x) tt a.
Proof.
  destruct dbg.
  - destruct a. unfold g_NodeId_remove, remove.
    mx_rw (ops_rw; tri_inv).
  - unfold g_NodeId_remove, remove.
    mx_rw (ops_rw; tri_inv).
    all: exfalso; match goal with H : free_node _ _ _ = (_, Ok _) |- _ =>
           apply free_node_in_range in H; destruct H as [? H]; cbn [Base.nodes] in *; congruence end.
Qed.

Lemma clear_links_setf n :
  setf Flast None (setf Ffirst None (setf Fnext None (setf Fprev None (setf Fparent None n)))) = clear_links n.
Proof. destruct n; reflexivity. Qed.

Definition free_and_clear (dbg : bool) (id : nid) : M unit :=
  (g_Arena_free_node dbg id) ;;;
  (upd (idx id) (setf Fparent None)) ;;;
  (upd (idx id) (setf Fprev None)) ;;;
  (upd (idx id) (setf Fnext None)) ;;;
  (upd (idx id) (setf Ffirst None)) ;;;
  (upd (idx id) (setf Flast None)) ;;;
  ret tt.

Lemma src_mfor_free dbg ids (F : nid -> M unit) a :
  (forall id a', F id a' = free_and_clear dbg id a') ->
  mfor ids F a = then_ret (free_all dbg ids) tt a.
Proof.
  intros HF. revert a. induction ids as [|id rest IH]; intros a; [reflexivity|].
  cbn [mfor free_all]. unfold bind at 1. rewrite HF. unfold free_and_clear. destruct a.
  mx_rw (rewrite ?src_free_node, ?IH, ?clear_links_setf).
  all: repeat match goal with
              | H : context [list_set _ ?v _], H1 : nth_error _ _ = Some ?n |- _ =>
                  progress change v with (clear_links n) in H
              end; clean.
Qed.

Lemma bind_cong {A B} (m m' : M A) (k k' : A -> M B) a :
  m a = m' a -> (forall x a', k x a' = k' x a') -> bind m k a = bind m' k' a.
Proof. intros Hm Hk. unfold bind. rewrite Hm. destruct (m' a) as [a' [x| |]]; auto. Qed.

Lemma then_ret_bind {A B C} (m : M A) (k : A -> M B) (v : C) a :
  then_ret (bind m k) v a = bind m (fun x => then_ret (k x) v) a.
Proof. unfold then_ret, bind. destruct (m a) as [a' [x| |]]; reflexivity. Qed.

Lemma src_remove_subtree dbg x a : g_NodeId_remove_subtree dbg x a = then_ret (remove_subtree dbg x) tt a.
Proof.
  unfold g_NodeId_remove_subtree, remove_subtree.
  rewrite then_ret_bind. apply bind_cong; [apply src_detach|]. intros _ a1.
  rewrite then_ret_bind. apply bind_cong; [reflexivity|]. intros l a2. cbv zeta.
  rewrite then_ret_bind. unfold bind. rewrite (src_mfor_free dbg) by (intros; reflexivity). unfold then_ret.
  destruct (free_all dbg l a2) as [a3 [olds| |]]; reflexivity.
Qed.
