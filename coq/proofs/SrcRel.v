(* SrcRel.v — gen/GenRel.v (relations.rs and siblings_range.rs, re-translated on every run) is the model's
   Relations.v, function by function. *)
From IT.proofs Require Import SrcTac SrcStamp.
From IT.gen Require Import GenStamp GenRel.
Open Scope mon_scope.

Lemma src_assert_triangle_nodes dbg p pv nx a :
  g_assert_triangle_nodes dbg p pv nx a = assert_triangle_nodes p pv nx a.
Proof. destruct a. unfold g_assert_triangle_nodes, assert_triangle_nodes. mx. Qed.

Lemma src_connect_neighbors dbg p pv nx a :
  g_connect_neighbors dbg p pv nx a = connect_neighbors dbg p pv nx a.
Proof.
  destruct a.
  unfold g_connect_neighbors, connect_neighbors, dparent_ends_agree, dnot_removed, g_Node_is_removed, g_NodeStamp_is_removed, node_is_removed, st_is_removed.
  mx_rw (rewrite ?src_assert_triangle_nodes).
Qed.

Lemma src_range_new dbg f l a : g_SiblingsRange_new dbg f l a = (a, Ok (f, l)).
Proof. reflexivity. Qed.
Lemma src_drange_new dbg f l a : g_DetachedSiblingsRange_new dbg f l a = (a, Ok (f, l)).
Proof. reflexivity. Qed.

Lemma src_detach_from_siblings dbg f l a :
  g_SiblingsRange_detach_from_siblings dbg (f, l) a = then_ret (detach_from_siblings dbg f l) (f, l) a.
Proof.
  destruct a.
  unfold g_SiblingsRange_detach_from_siblings, detach_from_siblings.
  mx_rw (rewrite ?src_assert_triangle_nodes, ?src_connect_neighbors).
Qed.

Lemma src_rewrite_parents_loop dbg fuel co p self a :
  g_DetachedSiblingsRange_rewrite_parents_loop1 dbg fuel co p self a = rewrite_parents_loop fuel co p a.
Proof.
  revert co a. induction fuel as [|fuel IH]; intros co a; destruct a; destruct co as [c|]; cbn [g_DetachedSiblingsRange_rewrite_parents_loop1 rewrite_parents_loop]; try reflexivity.
  mx_rw (rewrite ?IH).
Qed.

Lemma src_rewrite_parents dbg f l p a :
  g_DetachedSiblingsRange_rewrite_parents dbg (f, l) p a = rewrite_parents f p a.
Proof.
  unfold g_DetachedSiblingsRange_rewrite_parents, rewrite_parents. mred. apply src_rewrite_parents_loop.
Qed.

Lemma src_transplant dbg f l p pv nx a :
  g_DetachedSiblingsRange_transplant dbg (f, l) p pv nx a = transplant dbg f l p pv nx a.
Proof.
  destruct a.
  unfold g_DetachedSiblingsRange_transplant, transplant, dparent_ends_agree.
  mx_rw (rewrite ?src_assert_triangle_nodes, ?src_connect_neighbors, ?src_rewrite_parents).
Qed.

Lemma src_insert_with_neighbors dbg new p pv nx a :
  g_insert_with_neighbors dbg new p pv nx a = insert_with_neighbors dbg new p pv nx a.
Proof.
  destruct a.
  unfold g_insert_with_neighbors, insert_with_neighbors.
  mx_rw (rewrite ?src_assert_triangle_nodes, ?src_range_new, ?src_detach_from_siblings, ?src_transplant).
Qed.

Lemma src_insert_last_unchecked dbg new par a :
  g_insert_last_unchecked dbg new par a = insert_last_unchecked dbg new par a.
Proof.
  destruct a.
  unfold g_insert_last_unchecked, insert_last_unchecked.
  mx_rw (rewrite ?src_assert_triangle_nodes, ?src_drange_new, ?src_transplant).
Qed.
