(* ForestFacts.v — what the abstract forest operations of Forest.v say in plain list terms
   (readable corollaries used by the C03/C04 property files). *)
From IT Require Import Forest.
From IT.proofs Require Import Layer1.

Lemma f_detach_kids : forall x F p, kidsf (f_detach x F) p = remove_id x (kidsf F p).
Proof. reflexivity. Qed.
Lemma f_detach_root : forall x F, In [x] (tops (f_detach x F)).
Proof. intros; cbn; auto. Qed.

(* append: c becomes the LAST child of x; every other child list only loses c *)
Lemma f_insert_append_target : forall x c F, kidsf (f_insert KAppend x c F) x = remove_id c (kidsf F x) ++ [c].
Proof. intros. cbn. now rewrite nid_eqb_refl. Qed.
Lemma f_insert_append_other : forall x c F p, p <> x -> kidsf (f_insert KAppend x c F) p = remove_id c (kidsf F p).
Proof. intros. cbn. destruct (nid_eqb p x) eqn:E; auto. apply nid_eqb_eq in E. contradiction. Qed.
(* prepend: c becomes the FIRST child of x *)
Lemma f_insert_prepend_target : forall x c F, kidsf (f_insert KPrepend x c F) x = c :: remove_id c (kidsf F x).
Proof. intros. cbn. now rewrite nid_eqb_refl. Qed.
Lemma f_insert_prepend_other : forall x c F p, p <> x -> kidsf (f_insert KPrepend x c F) p = remove_id c (kidsf F p).
Proof. intros. cbn. destruct (nid_eqb p x) eqn:E; auto. apply nid_eqb_eq in E. contradiction. Qed.
(* insert_after / insert_before: c is placed immediately after / before x in whichever list holds x *)
Lemma f_insert_after_kids : forall x c F p, kidsf (f_insert KAfter x c F) p = ins_after x c (remove_id c (kidsf F p)).
Proof. reflexivity. Qed.
Lemma f_insert_before_kids : forall x c F p, kidsf (f_insert KBefore x c F) p = ins_before x c (remove_id c (kidsf F p)).
Proof. reflexivity. Qed.
Lemma ins_after_spec : forall x c A B, ~ In x A -> ins_after x c (A ++ x :: B) = A ++ x :: c :: ins_after x c B.
Proof.
  intros x c A B H. unfold ins_after. rewrite flat_map_app. cbn. rewrite nid_eqb_refl. cbn. f_equal.
  induction A as [|y r IH]; cbn; auto.
  destruct (nid_eqb y x) eqn:E.
  - apply nid_eqb_eq in E. subst. exfalso. apply H. now left.
  - cbn. f_equal. apply IH. intro; apply H; now right.
Qed.
Lemma ins_before_spec : forall x c A B, ~ In x A -> ins_before x c (A ++ x :: B) = A ++ c :: x :: ins_before x c B.
Proof.
  intros x c A B H. unfold ins_before. rewrite flat_map_app. cbn. rewrite nid_eqb_refl. cbn. f_equal.
  induction A as [|y r IH]; cbn; auto.
  destruct (nid_eqb y x) eqn:E.
  - apply nid_eqb_eq in E. subst. exfalso. apply H. now left.
  - cbn. f_equal. apply IH. intro; apply H; now right.
Qed.

Lemma ins_after_id : forall x c B, ~ In x B -> ins_after x c B = B.
Proof.
  intros x c B. unfold ins_after. induction B as [|y r IH]; cbn; auto. intros H.
  destruct (nid_eqb y x) eqn:E.
  - apply nid_eqb_eq in E. subst. exfalso. apply H. now left.
  - cbn. f_equal. apply IH. intro; apply H; now right.
Qed.
Lemma ins_before_id : forall x c B, ~ In x B -> ins_before x c B = B.
Proof.
  intros x c B. unfold ins_before. induction B as [|y r IH]; cbn; auto. intros H.
  destruct (nid_eqb y x) eqn:E.
  - apply nid_eqb_eq in E. subst. exfalso. apply H. now left.
  - cbn. f_equal. apply IH. intro; apply H; now right.
Qed.

(* remove: the children of x take x's place; x itself has no children any more *)
Lemma f_remove_kids : forall x F p, p <> x -> kidsf (f_remove x F) p = subst_id x (kidsf F x) (kidsf F p).
Proof. intros. cbn. destruct (nid_eqb p x) eqn:E; auto. apply nid_eqb_eq in E. contradiction. Qed.
Lemma f_remove_self : forall x F, kidsf (f_remove x F) x = [].
Proof. intros. cbn. now rewrite nid_eqb_refl. Qed.
Lemma subst_id_spec : forall x S A B, ~ In x A -> ~ In x B -> subst_id x S (A ++ x :: B) = A ++ S ++ B.
Proof.
  intros x S A B HA HB. unfold subst_id. rewrite flat_map_app. cbn. rewrite nid_eqb_refl.
  assert (G : forall L, ~ In x L -> flat_map (fun y => if nid_eqb y x then S else [y]) L = L).
  { induction L as [|y r IH]; cbn; auto. intros H. destruct (nid_eqb y x) eqn:E.
    - apply nid_eqb_eq in E. subst. exfalso. apply H. now left.
    - cbn. f_equal. apply IH. intro; apply H; now right. }
  now rewrite (G A HA), (G B HB).
Qed.

(* remove_subtree: nodes of D lose their children lists; x disappears from its list *)
Lemma f_remove_subtree_kids : forall x D F p, nid_in p D = false -> kidsf (f_remove_subtree x D F) p = remove_id x (kidsf F p).
Proof. intros. cbn. now rewrite H. Qed.
Lemma f_remove_subtree_gone : forall x D F p, nid_in p D = true -> kidsf (f_remove_subtree x D F) p = [].
Proof. intros. cbn. now rewrite H. Qed.
