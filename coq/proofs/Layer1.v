(* Layer1.v — equational ("symbolic execution") specifications of the link-manipulating
   primitives: under in-range preconditions each of them returns normally and its effect on the
   arena is [amap F], a slot-wise map of per-field updates.  Release semantics (dbg = false). *)
From IT Require Import NodeOps Forest.
Require Import Lia.
Open Scope mon_scope.
Local Open Scope nat_scope.

(* ---------- slot-wise maps ---------- *)
Fixpoint mapi_from {A B} (k : nat) (F : nat -> A -> B) (l : list A) : list B :=
  match l with [] => [] | x :: r => F k x :: mapi_from (S k) F r end.
Definition mapi {A B} (F : nat -> A -> B) (l : list A) : list B := mapi_from 0 F l.

Definition nodefun := nat -> node -> node.
Definition amap (F : nodefun) (a : arena) : arena := set_nodes (mapi F (nodes a)) a.
Definition idF : nodefun := fun _ n => n.
Definition comp (G F : nodefun) : nodefun := fun j n => G j (F j n).     (* first F, then G *)
Infix "∘∘" := comp (at level 40, left associativity).

Lemma nth_error_mapi_from : forall A B (F : nat -> A -> B) l k j,
  nth_error (mapi_from k F l) j = option_map (F (k + j)%nat) (nth_error l j).
Proof.
  induction l as [|x r IH]; intros k j; destruct j; cbn; auto.
  - now rewrite Nat.add_0_r.
  - rewrite IH. now replace (S k + j)%nat with (k + S j)%nat by lia.
Qed.

Lemma nth_error_mapi : forall A B (F : nat -> A -> B) l j,
  nth_error (mapi F l) j = option_map (F j) (nth_error l j).
Proof. intros. unfold mapi. now rewrite nth_error_mapi_from. Qed.

Lemma length_mapi_from : forall A B (F : nat -> A -> B) l k, length (mapi_from k F l) = length l.
Proof. induction l; intros; cbn; auto. Qed.
Lemma length_mapi : forall A B (F : nat -> A -> B) l, length (mapi F l) = length l.
Proof. intros; apply length_mapi_from. Qed.

Lemma list_ext_nth : forall A (l l' : list A), (forall j, nth_error l j = nth_error l' j) -> l = l'.
Proof.
  induction l as [|x r IH]; intros [|y s] H; auto.
  - specialize (H 0%nat); discriminate.
  - specialize (H 0%nat); discriminate.
  - f_equal. + specialize (H 0%nat). now inversion H. + apply IH. intros j. apply (H (S j)).
Qed.

Lemma nth_amap : forall F a j, nth_error (nodes (amap F a)) j = option_map (F j) (nth_error (nodes a) j).
Proof. intros. unfold amap, set_nodes; cbn. apply nth_error_mapi. Qed.

Lemma length_amap : forall F a, length (nodes (amap F a)) = length (nodes a).
Proof. intros. unfold amap, set_nodes; cbn. apply length_mapi. Qed.
Lemma ffree_amap : forall F a, ffree (amap F a) = ffree a. Proof. reflexivity. Qed.
Lemma lfree_amap : forall F a, lfree (amap F a) = lfree a. Proof. reflexivity. Qed.

Lemma arena_ext : forall a b,
  (forall j, nth_error (nodes a) j = nth_error (nodes b) j) -> ffree a = ffree b -> lfree a = lfree b -> a = b.
Proof. intros [na fa la] [nb fb lb] H; cbn in *; intros -> ->. f_equal. now apply list_ext_nth. Qed.

Lemma amap_ext : forall F G a,
  (forall j n, nth_error (nodes a) j = Some n -> F j n = G j n) -> amap F a = amap G a.
Proof.
  intros. apply arena_ext; auto. intros j. rewrite !nth_amap.
  destruct (nth_error (nodes a) j) eqn:E; cbn; auto. f_equal; auto.
Qed.

Lemma amap_amap : forall G F a, amap G (amap F a) = amap (G ∘∘ F) a.
Proof.
  intros. apply arena_ext; auto. intros j. rewrite !nth_amap.
  destruct (nth_error (nodes a) j); reflexivity.
Qed.

Lemma amap_id : forall a, amap idF a = a.
Proof.
  intros. apply arena_ext; auto. intros j. rewrite nth_amap. destruct (nth_error (nodes a) j); reflexivity.
Qed.

(* ---------- single-field updates ---------- *)
Definition fset (x : nid) (f : fld) (v : option nid) : nodefun :=
  fun j n => if Nat.eqb j (idx x) then setf f v n else n.
Definition ofset (o : option nid) (f : fld) (v : option nid) : nodefun :=
  match o with Some x => fset x f v | None => idF end.

Definition fld_eqb (f g : fld) : bool :=
  match f, g with
  | Fparent, Fparent | Fprev, Fprev | Fnext, Fnext | Ffirst, Ffirst | Flast, Flast => true
  | _, _ => false
  end.

Lemma getf_setf : forall f g v n, getf g (setf f v n) = if fld_eqb f g then v else getf g n.
Proof. intros [] [] v n; reflexivity. Qed.
Lemma stamp_setf : forall f v n, stamp (setf f v n) = stamp n. Proof. intros []; reflexivity. Qed.
Lemma data_setf : forall f v n, data (setf f v n) = data n. Proof. intros []; reflexivity. Qed.

Lemma getf_fset : forall x f v g j n,
  getf g (fset x f v j n) = if Nat.eqb j (idx x) && fld_eqb f g then v else getf g n.
Proof. intros. unfold fset. destruct (Nat.eqb j (idx x)); cbn; auto. apply getf_setf. Qed.

(* a node function that only rewrites link fields *)
Definition links_only (F : nodefun) : Prop := forall j n, stamp (F j n) = stamp n /\ data (F j n) = data n.
Lemma links_only_id : links_only idF. Proof. split; reflexivity. Qed.
Lemma links_only_fset : forall x f v, links_only (fset x f v).
Proof. intros x f v j n. unfold fset. destruct (Nat.eqb j (idx x)); auto using stamp_setf, data_setf. Qed.
Lemma links_only_ofset : forall o f v, links_only (ofset o f v).
Proof. intros [x|] f v; cbn; auto using links_only_fset, links_only_id. Qed.
Lemma links_only_comp : forall G F, links_only G -> links_only F -> links_only (G ∘∘ F).
Proof. intros G F HG HF j n. unfold comp. destruct (HG j (F j n)), (HF j n). split; congruence. Qed.

(* ---------- primitive steps on mapped arenas ---------- *)
Lemma rd_ok : forall a i n, nth_error (nodes a) i = Some n -> rd i a = (a, Ok n).
Proof. intros. unfold rd. now rewrite H. Qed.

Lemma nth_list_set : forall A (l : list A) i n v j, nth_error l i = Some n ->
  nth_error (list_set i v l) j = if Nat.eqb j i then Some v else nth_error l j.
Proof.
  induction l as [|x r IH]; intros i n v j H.
  - destruct i; discriminate.
  - destruct i as [|i], j as [|j]; cbn in *; auto. eapply IH; eauto.
Qed.

Lemma upd_ok : forall a i n f, nth_error (nodes a) i = Some n ->
  upd i f a = (amap (fun j m => if Nat.eqb j i then f m else m) a, Ok tt).
Proof.
  intros. unfold upd. rewrite H. f_equal. apply arena_ext; auto. intros j.
  rewrite nth_amap. unfold set_nodes; cbn [nodes].
  rewrite (nth_list_set _ _ _ _ _ _ H).
  destruct (Nat.eqb j i) eqn:E.
  - apply Nat.eqb_eq in E; subst. now rewrite H.
  - destruct (nth_error (nodes a) j); reflexivity.
Qed.

Lemma updi_setf_ok : forall a x n f v, nth_error (nodes a) (idx x) = Some n ->
  updi x (setf f v) a = (amap (fset x f v) a, Ok tt).
Proof. intros. unfold updi. erewrite upd_ok by eauto. reflexivity. Qed.

Lemma bind_ok : forall A B (m : M A) (k : A -> M B) a a' x,
  m a = (a', Ok x) -> bind m k a = k x a'.
Proof. intros. unfold bind. now rewrite H. Qed.

(* lookups through a map *)
Definition inr (a : arena) (x : nid) : Prop := (idx x < length (nodes a))%nat.
Definition oinr (a : arena) (o : option nid) : Prop := match o with Some x => inr a x | None => True end.

Lemma inr_node : forall a x, inr a x -> exists n, nth_error (nodes a) (idx x) = Some n.
Proof.
  intros a x H. destruct (nth_error (nodes a) (idx x)) eqn:E; eauto.
  apply nth_error_None in E. unfold inr in H. lia.
Qed.
Lemma node_inr : forall a x n, nth_error (nodes a) (idx x) = Some n -> inr a x.
Proof. intros. unfold inr. apply nth_error_Some. congruence. Qed.
Lemma inr_amap : forall F a x, inr (amap F a) x <-> inr a x.
Proof. intros. unfold inr. now rewrite length_amap. Qed.
Lemma oinr_amap : forall F a o, oinr (amap F a) o <-> oinr a o.
Proof. intros F a [x|]; cbn; [apply inr_amap | tauto]. Qed.

(* the node stored at x (default: a blank node; only used in range) *)
Definition blank : node := fresh_node 0 (NextFree None).
Definition nd (a : arena) (x : nid) : node := nth (idx x) (nodes a) blank.
Lemma nd_at : forall a x n, nth_error (nodes a) (idx x) = Some n -> nd a x = n.
Proof. intros. unfold nd. now apply nth_error_nth. Qed.
Lemma at_nd : forall a x, inr a x -> nth_error (nodes a) (idx x) = Some (nd a x).
Proof. intros a x H. destruct (inr_node _ _ H) as [n E]. now rewrite (nd_at _ _ _ E). Qed.
Lemma nd_amap : forall F a x, inr a x -> nd (amap F a) x = F (idx x) (nd a x).
Proof.
  intros. apply nd_at. rewrite nth_amap, (at_nd _ _ H). reflexivity.
Qed.

Lemma rdi_ok : forall a x, inr a x -> rdi x a = (a, Ok (nd a x)).
Proof. intros. unfold rdi. apply rd_ok. now apply at_nd. Qed.
Lemma updi_ok : forall a x f v, inr a x -> updi x (setf f v) a = (amap (fset x f v) a, Ok tt).
Proof. intros. eapply updi_setf_ok. now apply at_nd. Qed.

(* ---------- connect_neighbors ---------- *)
Definition cn_first (a : arena) (par pv nx : option nid) : option nid :=
  match pv with
  | Some p => or_else (match par with Some q => first (nd a q) | None => None end) (Some p)
  | None => nx
  end.
Definition cn_last (a : arena) (par pv nx : option nid) : option nid :=
  match nx with
  | Some x => or_else (match par with Some q => last (nd a q) | None => None end) (Some x)
  | None => pv
  end.
Definition cnF (a : arena) (par pv nx : option nid) : nodefun :=
  ofset par Flast (cn_last a par pv nx) ∘∘ ofset par Ffirst (cn_first a par pv nx)
  ∘∘ ofset nx Fprev pv ∘∘ ofset pv Fnext nx.

Lemma links_only_cnF : forall a par pv nx, links_only (cnF a par pv nx).
Proof. intros. unfold cnF. apply links_only_comp; [apply links_only_comp; [apply links_only_comp|]|]; apply links_only_ofset. Qed.

Ltac mstep :=
  first
    [ erewrite bind_ok by (first [ apply rdi_ok | apply updi_ok | reflexivity ];
                           rewrite ?inr_amap; eassumption)
    | progress cbn [when_dbg dassert dtriangle ret] ].


(* ---------- identifiers ---------- *)
Lemma nid_eqb_eq : forall x y, nid_eqb x y = true <-> x = y.
Proof.
  intros [i g] [j h]; unfold nid_eqb; cbn. rewrite andb_true_iff, Nat.eqb_eq, Z.eqb_eq.
  split; [intros [-> ->]; reflexivity | intros E; inversion E; auto].
Qed.
Lemma nid_eqb_refl : forall x, nid_eqb x x = true.
Proof. intros; now apply nid_eqb_eq. Qed.
Lemma nid_eqb_neq : forall x y, x <> y -> nid_eqb x y = false.
Proof. intros x y H. destruct (nid_eqb x y) eqn:E; auto. apply nid_eqb_eq in E; contradiction. Qed.
Lemma nid_eqb_false : forall x y, nid_eqb x y = false <-> x <> y.
Proof.
  intros; split; [intros E H; subst; rewrite nid_eqb_refl in E; discriminate | apply nid_eqb_neq].
Qed.
Lemma nid_eqb_sym : forall x y, nid_eqb x y = nid_eqb y x.
Proof. intros. unfold nid_eqb. now rewrite Nat.eqb_sym, Z.eqb_sym. Qed.
Lemma nid_eq_dec : forall x y : nid, {x = y} + {x <> y}.
Proof. intros. destruct (nid_eqb x y) eqn:E; [left; now apply nid_eqb_eq | right; now apply nid_eqb_false]. Qed.
Lemma onid_eqb_eq : forall x y, onid_eqb x y = true <-> x = y.
Proof.
  intros [x|] [y|]; cbn; try (split; congruence).
  rewrite nid_eqb_eq. split; congruence.
Qed.
Lemma onid_eqb_refl : forall x, onid_eqb x x = true.
Proof. intros; now apply onid_eqb_eq. Qed.
Lemma onid_eqb_false : forall x y, onid_eqb x y = false <-> x <> y.
Proof.
  intros. destruct (onid_eqb x y) eqn:E.
  - apply onid_eqb_eq in E. split; [discriminate | contradiction].
  - split; auto. intros _ H. apply onid_eqb_eq in H. congruence.
Qed.
Lemma onid_eqb_sym : forall x y, onid_eqb x y = onid_eqb y x.
Proof. intros [x|] [y|]; cbn; auto using nid_eqb_sym. Qed.

(* ---------- the monad, one step at a time ---------- *)
Lemma bind_assoc : forall A B C (m : M A) (k : A -> M B) (k' : B -> M C) a,
  bind (bind m k) k' a = bind m (fun x => bind (k x) k') a.
Proof. intros. unfold bind. destruct (m a) as [a' [x|c|]]; reflexivity. Qed.
Lemma bind_ret : forall A B (x : A) (k : A -> M B) a, bind (ret x) k a = k x a.
Proof. reflexivity. Qed.
Lemma bind_rdi : forall B a x (k : node -> M B), inr a x -> bind (rdi x) k a = k (nd a x) a.
Proof. intros. erewrite bind_ok; [reflexivity | now apply rdi_ok]. Qed.
Lemma bind_updi : forall B a x f v (k : unit -> M B), inr a x ->
  bind (updi x (setf f v)) k a = k tt (amap (fset x f v) a).
Proof. intros. erewrite bind_ok; [reflexivity | now apply updi_ok]. Qed.

Lemma updi2_ok : forall a x f v g w, inr a x ->
  updi x (fun n => setf g w (setf f v n)) a = (amap (fset x g w ∘∘ fset x f v) a, Ok tt).
Proof.
  intros. unfold updi. erewrite upd_ok by (apply at_nd; eassumption). f_equal.
  apply amap_ext. intros j n _. unfold comp, fset. destruct (Nat.eqb j (idx x)); reflexivity.
Qed.
Lemma bind_updi2 : forall B a x f v g w (k : unit -> M B), inr a x ->
  bind (updi x (fun n => setf g w (setf f v n))) k a = k tt (amap (fset x g w ∘∘ fset x f v) a).
Proof. intros. erewrite bind_ok; [reflexivity | now apply updi2_ok]. Qed.

Ltac inr_tac := rewrite ?inr_amap; first [assumption | eassumption].
Ltac mstep1 :=
  first
    [ rewrite bind_assoc
    | rewrite bind_ret
    | rewrite bind_rdi by inr_tac
    | rewrite bind_updi by inr_tac
    | rewrite bind_updi2 by inr_tac ];
  cbv beta.
Ltac msteps := cbn [when_dbg dassert dtriangle expect]; repeat (mstep1; cbn [when_dbg dassert dtriangle expect]).

(* field lookups through a map that leaves the field alone (no range condition needed) *)
Lemma nd_out : forall a x, ~ inr a x -> nd a x = blank.
Proof. intros. unfold nd. apply nth_overflow. unfold inr in H. lia. Qed.
Lemma inr_dec : forall a x, inr a x \/ ~ inr a x.
Proof. intros. unfold inr. lia. Qed.
Lemma getf_nd_amap_keep : forall F g a x,
  (forall j n, getf g (F j n) = getf g n) -> getf g (nd (amap F a) x) = getf g (nd a x).
Proof.
  intros. destruct (inr_dec a x) as [I|I].
  - rewrite nd_amap by auto. apply H.
  - rewrite !nd_out; auto. now rewrite inr_amap.
Qed.
Lemma getf_nd_amap : forall F g a x, inr a x ->
  getf g (nd (amap F a) x) = getf g (F (idx x) (nd a x)).
Proof. intros. now rewrite nd_amap. Qed.

Lemma next_nd_keep : forall F a x, (forall j n, next (F j n) = next n) -> next (nd (amap F a) x) = next (nd a x).
Proof. intros F a x. exact (getf_nd_amap_keep F Fnext a x). Qed.
Lemma prev_nd_keep : forall F a x, (forall j n, prev (F j n) = prev n) -> prev (nd (amap F a) x) = prev (nd a x).
Proof. intros F a x. exact (getf_nd_amap_keep F Fprev a x). Qed.
Lemma parent_nd_keep : forall F a x, (forall j n, parent (F j n) = parent n) -> parent (nd (amap F a) x) = parent (nd a x).
Proof. intros F a x. exact (getf_nd_amap_keep F Fparent a x). Qed.
Lemma first_nd_keep : forall F a x, (forall j n, first (F j n) = first n) -> first (nd (amap F a) x) = first (nd a x).
Proof. intros F a x. exact (getf_nd_amap_keep F Ffirst a x). Qed.
Lemma last_nd_keep : forall F a x, (forall j n, last (F j n) = last n) -> last (nd (amap F a) x) = last (nd a x).
Proof. intros F a x. exact (getf_nd_amap_keep F Flast a x). Qed.

Definition oat (o : option nid) (j : nat) : bool :=
  match o with Some x => Nat.eqb j (idx x) | None => false end.
Lemma getf_ofset : forall o f v g j n,
  getf g (ofset o f v j n) = if oat o j && fld_eqb f g then v else getf g n.
Proof. intros [x|] f v g j n; cbn; [apply getf_fset | reflexivity]. Qed.
Lemma getf_comp : forall G F g j n, getf g ((G ∘∘ F) j n) = getf g (G j (F j n)).
Proof. reflexivity. Qed.

Lemma getf_cnF : forall a par pv nx g j n,
  getf g (cnF a par pv nx j n) =
    if oat par j && fld_eqb Flast g then cn_last a par pv nx
    else if oat par j && fld_eqb Ffirst g then cn_first a par pv nx
    else if oat nx j && fld_eqb Fprev g then pv
    else if oat pv j && fld_eqb Fnext g then nx
    else getf g n.
Proof. intros. unfold cnF, comp. now rewrite !getf_ofset. Qed.

(* ---------- connect_neighbors ---------- *)
Lemma amap_id' : forall F a, (forall j n, F j n = n) -> amap F a = a.
Proof. intros. rewrite <- (amap_id a) at 2. apply amap_ext. intros; apply H. Qed.

Lemma cn_ok : forall a par pv nx, oinr a par -> oinr a pv -> oinr a nx ->
  connect_neighbors false par pv nx a = (amap (cnF a par pv nx) a, Ok tt).
Proof.
  intros a par pv nx Hp Hv Hn. unfold connect_neighbors, cnF, cn_first, cn_last.
  destruct par as [p|], pv as [v|], nx as [x|]; cbn [oinr ofset] in *;
    msteps; cbv beta iota zeta; msteps; unfold ret; f_equal;
    rewrite ?amap_amap; try reflexivity; symmetry; apply amap_id'; reflexivity.
Qed.

(* cnF only looks at the first/last field of the parent slot *)
Lemma cnF_amap_keep : forall F a par pv nx,
  (forall j n, first (F j n) = first n) -> (forall j n, last (F j n) = last n) ->
  cnF (amap F a) par pv nx = cnF a par pv nx.
Proof.
  intros F a par pv nx H1 H2. unfold cnF, cn_first, cn_last.
  destruct par as [q|]; auto.
  rewrite (getf_nd_amap_keep F Ffirst a q H1 : first _ = first _).
  rewrite (getf_nd_amap_keep F Flast a q H2 : last _ = last _). reflexivity.
Qed.

Lemma fset_keep : forall x f v g j n, fld_eqb f g = false -> getf g (fset x f v j n) = getf g n.
Proof. intros. rewrite getf_fset, H. now rewrite andb_false_r. Qed.

Ltac fset_keep_tac := intros; unfold fset; destruct (Nat.eqb _ _); reflexivity.

(* ---------- detach_from_siblings ---------- *)
Definition dfsF (a : arena) (f l : nid) : nodefun :=
  cnF a (parent (nd a f)) (prev (nd a f)) (next (nd a l))
  ∘∘ fset l Fnext None ∘∘ fset f Fprev None.

Lemma links_only_dfsF : forall a f l, links_only (dfsF a f l).
Proof.
  intros. unfold dfsF. apply links_only_comp; [apply links_only_comp|]; auto using links_only_cnF, links_only_fset.
Qed.

Lemma dfs_ok : forall a f l, inr a f -> inr a l ->
  oinr a (parent (nd a f)) -> oinr a (prev (nd a f)) -> oinr a (next (nd a l)) ->
  detach_from_siblings false f l a = (amap (dfsF a f l) a, Ok tt).
Proof.
  intros a f l Hf Hl Hp Hv Hn. unfold detach_from_siblings, dfsF. msteps.
  assert (E : next (nd (amap (fset f Fprev None) a) l) = next (nd a l)).
  { apply (getf_nd_amap_keep _ Fnext). fset_keep_tac. }
  rewrite E.
  erewrite bind_ok by (apply cn_ok; rewrite ?oinr_amap; assumption).
  cbn [when_dbg]. unfold ret. f_equal.
  rewrite !cnF_amap_keep by fset_keep_tac.
  now rewrite !amap_amap.
Qed.

(* field values after detach_from_siblings *)
Lemma getf_dfsF : forall a f l g j n,
  getf g (dfsF a f l j n) =
    let par := parent (nd a f) in let pv := prev (nd a f) in let nx := next (nd a l) in
    if oat par j && fld_eqb Flast g then cn_last a par pv nx
    else if oat par j && fld_eqb Ffirst g then cn_first a par pv nx
    else if oat nx j && fld_eqb Fprev g then pv
    else if oat pv j && fld_eqb Fnext g then nx
    else if Nat.eqb j (idx l) && fld_eqb Fnext g then None
    else if Nat.eqb j (idx f) && fld_eqb Fprev g then None
    else getf g n.
Proof. intros. unfold dfsF. rewrite !getf_comp, getf_cnF, !getf_fset. reflexivity. Qed.

(* on a node without parent and siblings detach_from_siblings changes no field value *)
Lemma dfsF_detached : forall a c, inr a c ->
  parent (nd a c) = None -> prev (nd a c) = None -> next (nd a c) = None ->
  amap (dfsF a c c) a = a.
Proof.
  intros a c I Hp Hv Hn. unfold dfsF. rewrite Hp, Hv, Hn. unfold cnF. cbn [ofset].
  apply arena_ext; auto. intros j. rewrite nth_amap.
  destruct (nth_error (nodes a) j) as [n|] eqn:E; cbn; auto. f_equal.
  unfold comp, idF, fset. destruct (Nat.eqb j (idx c)) eqn:J; auto.
  apply Nat.eqb_eq in J; subst j. rewrite (at_nd _ _ I) in E. inversion E; subst n.
  destruct (nd a c); cbn in *; subst; reflexivity.
Qed.

(* ---------- rewrite_parents ---------- *)
Fixpoint next_path (a : arena) (o : option nid) (S : list nid) : Prop :=
  match S with
  | [] => o = None
  | x :: r => o = Some x /\ next_path a (next (nd a x)) r
  end.

Definition reparentF (S : list nid) (np : option nid) : nodefun :=
  fun j n => if existsb (Nat.eqb j) (map idx S) then setf Fparent np n else n.

Lemma links_only_reparentF : forall S np, links_only (reparentF S np).
Proof. intros S np j n. unfold reparentF. destruct (existsb _ _); auto using stamp_setf, data_setf. Qed.

Lemma getf_reparentF : forall S np g j n,
  getf g (reparentF S np j n) = if existsb (Nat.eqb j) (map idx S) && fld_eqb Fparent g then np else getf g n.
Proof. intros. unfold reparentF. destruct (existsb _ _); cbn [andb]; auto. apply getf_setf. Qed.

Lemma next_path_amap_keep : forall F a S o, (forall j n, next (F j n) = next n) ->
  next_path (amap F a) o S <-> next_path a o S.
Proof.
  intros F a S. induction S as [|x r IH]; intros o H; cbn [next_path]; [tauto|].
  rewrite (getf_nd_amap_keep F Fnext a x H : next _ = next _). now rewrite IH.
Qed.

Lemma reparentF_cons : forall x r np a,
  amap (reparentF r np) (amap (fset x Fparent np) a) = amap (reparentF (x :: r) np) a.
Proof.
  intros. rewrite amap_amap. apply amap_ext. intros j n _. unfold comp, reparentF, fset. cbn [map existsb].
  destruct (Nat.eqb j (idx x)), (existsb (Nat.eqb j) (map idx r)); cbn; auto; destruct n; reflexivity.
Qed.

Lemma reparentF_nil : forall np a, amap (reparentF [] np) a = a.
Proof. intros. apply amap_id'. reflexivity. Qed.

Lemma reparentF_single : forall x np a, amap (reparentF [x] np) a = amap (fset x Fparent np) a.
Proof. intros. rewrite <- reparentF_cons. apply reparentF_nil. Qed.

Lemma rpl_ok : forall S fuel a o np,
  next_path a o S -> Forall (inr a) S -> length S <= fuel ->
  (forall s, In s S -> onid_eqb (Some s) np = false) ->
  rewrite_parents_loop fuel o np a = (amap (reparentF S np) a, Ok COk).
Proof.
  induction S as [|x r IH]; intros fuel a o np HP HI HL HN.
  - cbn in HP; subst o. destruct fuel; cbn; now rewrite reparentF_nil.
  - destruct HP as [-> HP]. destruct fuel as [|fuel]; [cbn in HL; lia|].
    cbn [rewrite_parents_loop]. rewrite (HN x) by (now left).
    inversion HI as [|? ? Ix Ir]; subst. msteps.
    rewrite next_nd_keep by fset_keep_tac.
    rewrite IH.
    + now rewrite reparentF_cons.
    + apply next_path_amap_keep; auto. fset_keep_tac.
    + eapply Forall_impl; [|exact Ir]. intros; now apply inr_amap.
    + cbn in HL; lia.
    + intros s Hs. apply HN. now right.
Qed.

(* the error case: the walk stops at the first node equal to the new parent *)
Lemma rpl_err : forall S1 y S2 fuel a o,
  next_path a o (S1 ++ y :: S2) -> Forall (inr a) S1 -> length S1 < fuel ->
  ~ In y S1 ->
  rewrite_parents_loop fuel o (Some y) a = (amap (reparentF S1 (Some y)) a, Ok (CErr ParentChildLoop)).
Proof.
  induction S1 as [|x r IH]; intros y S2 fuel a o HP HI HL HN.
  - destruct HP as [-> _]. destruct fuel as [|fuel]; [cbn in HL; lia|].
    cbn [rewrite_parents_loop onid_eqb]. rewrite nid_eqb_refl. now rewrite reparentF_nil.
  - destruct HP as [-> HP]. destruct fuel as [|fuel]; [cbn in HL; lia|].
    cbn [rewrite_parents_loop onid_eqb]. rewrite nid_eqb_neq by (intros ->; apply HN; now left).
    inversion HI as [|? ? Ix Ir]; subst. msteps.
    rewrite next_nd_keep by fset_keep_tac.
    rewrite (IH y S2).
    + now rewrite reparentF_cons.
    + apply next_path_amap_keep; auto. fset_keep_tac.
    + eapply Forall_impl; [|exact Ir]. intros; now apply inr_amap.
    + cbn in HL; lia.
    + intros Hs. apply HN. now right.
Qed.

Lemma rewrite_parents_ok : forall S a f np,
  next_path a (Some f) S -> Forall (inr a) S -> length S <= chain_fuel a ->
  (forall s, In s S -> onid_eqb (Some s) np = false) ->
  rewrite_parents f np a = (amap (reparentF S np) a, Ok COk).
Proof. intros. unfold rewrite_parents, get_arena, bind. now apply rpl_ok. Qed.

Lemma rewrite_parents_self : forall a f, rewrite_parents f (Some f) a = (a, Ok (CErr ParentChildLoop)).
Proof.
  intros. unfold rewrite_parents, get_arena, bind, chain_fuel.
  cbn [rewrite_parents_loop onid_eqb]. now rewrite nid_eqb_refl.
Qed.

Lemma rewrite_parents_err : forall S1 y S2 a f,
  next_path a (Some f) (S1 ++ y :: S2) -> Forall (inr a) S1 -> length S1 < chain_fuel a -> ~ In y S1 ->
  rewrite_parents f (Some y) a = (amap (reparentF S1 (Some y)) a, Ok (CErr ParentChildLoop)).
Proof. intros. unfold rewrite_parents, get_arena, bind. eapply rpl_err; eauto. Qed.

(* ---------- transplant ---------- *)
Definition transplantF (a : arena) (S : list nid) (f l : nid) (par pv nx : option nid) : nodefun :=
  let F1 := cnF a par pv (Some f) ∘∘ reparentF S par in
  cnF (amap F1 a) par (Some l) nx ∘∘ F1.

Lemma links_only_transplantF : forall a S f l par pv nx, links_only (transplantF a S f l par pv nx).
Proof.
  intros. unfold transplantF. apply links_only_comp; [|apply links_only_comp];
    auto using links_only_cnF, links_only_reparentF.
Qed.

Lemma reparentF_keep_first : forall S np j n, first (reparentF S np j n) = first n.
Proof. intros. unfold reparentF. destruct (existsb _ _); reflexivity. Qed.
Lemma reparentF_keep_last : forall S np j n, last (reparentF S np j n) = last n.
Proof. intros. unfold reparentF. destruct (existsb _ _); reflexivity. Qed.
Lemma reparentF_keep_next : forall S np j n, next (reparentF S np j n) = next n.
Proof. intros. unfold reparentF. destruct (existsb _ _); reflexivity. Qed.
Lemma reparentF_keep_prev : forall S np j n, prev (reparentF S np j n) = prev n.
Proof. intros. unfold reparentF. destruct (existsb _ _); reflexivity. Qed.

Lemma next_path_head : forall a f S, next_path a (Some f) S -> exists r, S = f :: r.
Proof. intros a f [|x r] H; cbn in H; [discriminate|]. destruct H as [E _]. inversion E. eauto. Qed.

Lemma transplant_ok : forall a S f l par pv nx,
  next_path a (Some f) S -> Forall (inr a) S -> length S <= chain_fuel a ->
  (forall s, In s S -> onid_eqb (Some s) par = false) ->
  inr a l -> oinr a par -> oinr a pv -> oinr a nx ->
  transplant false f l par pv nx a = (amap (transplantF a S f l par pv nx) a, Ok COk).
Proof.
  intros a S f l par pv nx HP HI HL HN Il Ip Iv In_.
  assert (If : inr a f).
  { destruct (next_path_head _ _ _ HP) as [r ->]. now inversion HI. }
  unfold transplant, transplantF. msteps.
  erewrite bind_ok by (eapply rewrite_parents_ok; eauto).
  cbv beta iota.
  erewrite bind_ok by (apply cn_ok; rewrite ?oinr_amap; cbn [oinr]; rewrite ?inr_amap; assumption).
  erewrite bind_ok by (apply cn_ok; rewrite ?oinr_amap; cbn [oinr]; rewrite ?inr_amap; assumption).
  msteps. unfold ret. f_equal.
  rewrite (cnF_amap_keep (reparentF S par) a) by (intros; first [apply reparentF_keep_first | apply reparentF_keep_last]).
  now rewrite !amap_amap.
Qed.

(* ---------- detach ---------- *)
Definition detachF (a : arena) (x : nid) : nodefun := fset x Fparent None ∘∘ dfsF a x x.

Lemma links_only_detachF : forall a x, links_only (detachF a x).
Proof. intros. unfold detachF. apply links_only_comp; auto using links_only_fset, links_only_dfsF. Qed.

(* after detach_from_siblings x x the next link of x is clear, unless x was its own previous sibling *)
Lemma dfs_next_clear : forall a x, inr a x -> oat (prev (nd a x)) (idx x) = false ->
  next (nd (amap (dfsF a x x) a) x) = None.
Proof.
  intros a x I H. change (getf Fnext (nd (amap (dfsF a x x) a) x) = None).
  rewrite getf_nd_amap by auto. rewrite getf_dfsF. cbv zeta. cbn [fld_eqb].
  rewrite !andb_false_r, andb_true_r, H, Nat.eqb_refl. reflexivity.
Qed.

Lemma detach_ok : forall a x, inr a x ->
  oinr a (parent (nd a x)) -> oinr a (prev (nd a x)) -> oinr a (next (nd a x)) ->
  oat (prev (nd a x)) (idx x) = false ->
  detach false x a = (amap (detachF a x) a, Ok tt).
Proof.
  intros a x I Hp Hv Hn Hs. unfold detach, detachF.
  erewrite bind_ok by (apply dfs_ok; assumption).
  erewrite bind_ok.
  2:{ apply (rewrite_parents_ok [x]).
      - cbn [next_path]. split; auto. now apply dfs_next_clear.
      - constructor; [now apply inr_amap | constructor].
      - unfold chain_fuel. cbn. lia.
      - reflexivity. }
  msteps. unfold ret. f_equal. rewrite reparentF_single. now rewrite amap_amap.
Qed.

(* ---------- insert_with_neighbors, insert_last_unchecked ---------- *)
Definition iwnF (a : arena) (c : nid) (par pv nx : option nid) : nodefun :=
  transplantF (amap (dfsF a c c) a) [c] c c par pv nx ∘∘ dfsF a c c.

Lemma links_only_iwnF : forall a c par pv nx, links_only (iwnF a c par pv nx).
Proof. intros. unfold iwnF. apply links_only_comp; auto using links_only_transplantF, links_only_dfsF. Qed.

Lemma iwn_ok : forall a c par pv nx, inr a c ->
  oinr a (parent (nd a c)) -> oinr a (prev (nd a c)) -> oinr a (next (nd a c)) ->
  oat (prev (nd a c)) (idx c) = false ->
  oinr a par -> oinr a pv -> oinr a nx ->
  onid_eqb pv (Some c) = false -> onid_eqb nx (Some c) = false -> onid_eqb par (Some c) = false ->
  insert_with_neighbors false c par pv nx a = (amap (iwnF a c par pv nx) a, Ok COk).
Proof.
  intros a c par pv nx I Hp Hv Hn Hs Ip Iv In_ E1 E2 E3.
  unfold insert_with_neighbors, iwnF. msteps. rewrite E1, E2, E3. cbn [orb].
  erewrite bind_ok by (apply dfs_ok; assumption).
  erewrite bind_ok.
  2:{ apply (transplant_ok _ [c]); rewrite ?oinr_amap, ?inr_amap; auto.
      - cbn [next_path]. split; auto. now apply dfs_next_clear.
      - constructor; [now apply inr_amap | constructor].
      - unfold chain_fuel. cbn. lia.
      - intros s [<-|[]]. now rewrite onid_eqb_sym. }
  msteps. unfold ret. f_equal. now rewrite amap_amap.
Qed.

(* inserting a node that has no parent and no siblings: the internal detach_from_siblings is the identity *)
Lemma iwn_detached_ok : forall a c par pv nx, inr a c ->
  parent (nd a c) = None -> prev (nd a c) = None -> next (nd a c) = None ->
  oinr a par -> oinr a pv -> oinr a nx ->
  onid_eqb pv (Some c) = false -> onid_eqb nx (Some c) = false -> onid_eqb par (Some c) = false ->
  insert_with_neighbors false c par pv nx a = (amap (transplantF a [c] c c par pv nx) a, Ok COk).
Proof.
  intros a c par pv nx I Hp Hv Hn Ip Iv In_ E1 E2 E3.
  rewrite iwn_ok; auto; try (rewrite ?Hp, ?Hv, ?Hn; exact Logic.I).
  2:{ rewrite Hv. reflexivity. }
  f_equal. unfold iwnF. rewrite <- amap_amap. now rewrite !dfsF_detached.
Qed.

Definition iluF (a : arena) (c p : nid) : nodefun :=
  transplantF a [c] c c (Some p) (last (nd a p)) None.

Lemma links_only_iluF : forall a c p, links_only (iluF a c p).
Proof. intros. apply links_only_transplantF. Qed.

Lemma ilu_ok : forall a c p, inr a c -> inr a p -> oinr a (last (nd a p)) ->
  next (nd a c) = None -> nid_eqb c p = false ->
  insert_last_unchecked false c p a = (amap (iluF a c p) a, Ok tt).
Proof.
  intros a c p Ic Ip Il Hn E. unfold insert_last_unchecked, iluF. msteps.
  erewrite bind_ok.
  2:{ apply (transplant_ok _ [c]); auto.
      - cbn [next_path]. auto.
      - unfold chain_fuel. cbn. lia.
      - intros s [<-|[]]. exact E.
      - exact Logic.I. }
  msteps. reflexivity.
Qed.

(* ---------- shape ---------- *)
Lemma same_shape_amap : forall F a, links_only F -> same_shape a (amap F a).
Proof.
  intros F a H. unfold same_shape. rewrite length_amap. repeat split; auto.
  intros i n E. rewrite nth_amap, E. cbn. exists (F i n). destruct (H i n). auto.
Qed.

Lemma same_shape_refl : forall a, same_shape a a.
Proof. intros a. unfold same_shape. repeat split; auto. intros i n E. eauto. Qed.

Lemma same_shape_trans : forall a b c, same_shape a b -> same_shape b c -> same_shape a c.
Proof.
  intros a b c (L1 & F1 & G1 & H1) (L2 & F2 & G2 & H2). unfold same_shape.
  repeat split; try congruence. intros i n E.
  destruct (H1 i n E) as (n1 & E1 & S1 & D1). destruct (H2 i n1 E1) as (n2 & E2 & S2 & D2).
  exists n2. repeat split; congruence.
Qed.
