(* Layer1.v — equational ("symbolic execution") specifications of the link-manipulating
   primitives: under in-range preconditions each of them returns normally and its effect on the
   arena is [amap F], a slot-wise map of per-field updates.  Release semantics (dbg = false). *)
From IT Require Import NodeOps.
Require Import Lia.
Open Scope mon_scope.

(* ---------- slot-wise maps ---------- *)
Fixpoint mapi_from {A B} (k : nat) (F : nat -> A -> B) (l : list A) : list B :=
  match l with [] => [] | x :: r => F k x :: mapi_from (S k) F r end.
Definition mapi {A B} (F : nat -> A -> B) (l : list A) : list B := mapi_from 0 F l.

Definition nodefun := nat -> node -> node.
Definition amap (F : nodefun) (a : arena) : arena := set_nodes (mapi F (nodes a)) a.
Definition idF : nodefun := fun _ n => n.
Definition comp (G F : nodefun) : nodefun := fun j n => G j (F j n).     (* first F, then G *)
Infix "∘∘" := comp (at level 40, left associativity).

Lemma nth_error_mapi_from : forall A B (F : nat -> A -> B) l k j,
  nth_error (mapi_from k F l) j = option_map (F (k + j)%nat) (nth_error l j).
Proof.
  induction l as [|x r IH]; intros k j; destruct j; cbn; auto.
  - now rewrite Nat.add_0_r.
  - rewrite IH. now replace (S k + j)%nat with (k + S j)%nat by lia.
Qed.

Lemma nth_error_mapi : forall A B (F : nat -> A -> B) l j,
  nth_error (mapi F l) j = option_map (F j) (nth_error l j).
Proof. intros. unfold mapi. now rewrite nth_error_mapi_from. Qed.

Lemma length_mapi_from : forall A B (F : nat -> A -> B) l k, length (mapi_from k F l) = length l.
Proof. induction l; intros; cbn; auto. Qed.
Lemma length_mapi : forall A B (F : nat -> A -> B) l, length (mapi F l) = length l.
Proof. intros; apply length_mapi_from. Qed.

Lemma list_ext_nth : forall A (l l' : list A), (forall j, nth_error l j = nth_error l' j) -> l = l'.
Proof.
  induction l as [|x r IH]; intros [|y s] H; auto.
  - specialize (H 0%nat); discriminate.
  - specialize (H 0%nat); discriminate.
  - f_equal. + specialize (H 0%nat). now inversion H. + apply IH. intros j. apply (H (S j)).
Qed.

Lemma nth_amap : forall F a j, nth_error (nodes (amap F a)) j = option_map (F j) (nth_error (nodes a) j).
Proof. intros. unfold amap, set_nodes; cbn. apply nth_error_mapi. Qed.

Lemma length_amap : forall F a, length (nodes (amap F a)) = length (nodes a).
Proof. intros. unfold amap, set_nodes; cbn. apply length_mapi. Qed.
Lemma ffree_amap : forall F a, ffree (amap F a) = ffree a. Proof. reflexivity. Qed.
Lemma lfree_amap : forall F a, lfree (amap F a) = lfree a. Proof. reflexivity. Qed.

Lemma arena_ext : forall a b,
  (forall j, nth_error (nodes a) j = nth_error (nodes b) j) -> ffree a = ffree b -> lfree a = lfree b -> a = b.
Proof. intros [na fa la] [nb fb lb] H; cbn in *; intros -> ->. f_equal. now apply list_ext_nth. Qed.

Lemma amap_ext : forall F G a,
  (forall j n, nth_error (nodes a) j = Some n -> F j n = G j n) -> amap F a = amap G a.
Proof.
  intros. apply arena_ext; auto. intros j. rewrite !nth_amap.
  destruct (nth_error (nodes a) j) eqn:E; cbn; auto. f_equal; auto.
Qed.

Lemma amap_amap : forall G F a, amap G (amap F a) = amap (G ∘∘ F) a.
Proof.
  intros. apply arena_ext; auto. intros j. rewrite !nth_amap.
  destruct (nth_error (nodes a) j); reflexivity.
Qed.

Lemma amap_id : forall a, amap idF a = a.
Proof.
  intros. apply arena_ext; auto. intros j. rewrite nth_amap. destruct (nth_error (nodes a) j); reflexivity.
Qed.

(* ---------- single-field updates ---------- *)
Definition fset (x : nid) (f : fld) (v : option nid) : nodefun :=
  fun j n => if Nat.eqb j (idx x) then setf f v n else n.
Definition ofset (o : option nid) (f : fld) (v : option nid) : nodefun :=
  match o with Some x => fset x f v | None => idF end.

Definition fld_eqb (f g : fld) : bool :=
  match f, g with
  | Fparent, Fparent | Fprev, Fprev | Fnext, Fnext | Ffirst, Ffirst | Flast, Flast => true
  | _, _ => false
  end.

Lemma getf_setf : forall f g v n, getf g (setf f v n) = if fld_eqb f g then v else getf g n.
Proof. intros [] [] v n; reflexivity. Qed.
Lemma stamp_setf : forall f v n, stamp (setf f v n) = stamp n. Proof. intros []; reflexivity. Qed.
Lemma data_setf : forall f v n, data (setf f v n) = data n. Proof. intros []; reflexivity. Qed.

Lemma getf_fset : forall x f v g j n,
  getf g (fset x f v j n) = if Nat.eqb j (idx x) && fld_eqb f g then v else getf g n.
Proof. intros. unfold fset. destruct (Nat.eqb j (idx x)); cbn; auto. apply getf_setf. Qed.

(* a node function that only rewrites link fields *)
Definition links_only (F : nodefun) : Prop := forall j n, stamp (F j n) = stamp n /\ data (F j n) = data n.
Lemma links_only_id : links_only idF. Proof. split; reflexivity. Qed.
Lemma links_only_fset : forall x f v, links_only (fset x f v).
Proof. intros x f v j n. unfold fset. destruct (Nat.eqb j (idx x)); auto using stamp_setf, data_setf. Qed.
Lemma links_only_ofset : forall o f v, links_only (ofset o f v).
Proof. intros [x|] f v; cbn; auto using links_only_fset, links_only_id. Qed.
Lemma links_only_comp : forall G F, links_only G -> links_only F -> links_only (G ∘∘ F).
Proof. intros G F HG HF j n. unfold comp. destruct (HG j (F j n)), (HF j n). split; congruence. Qed.

(* ---------- primitive steps on mapped arenas ---------- *)
Lemma rd_ok : forall a i n, nth_error (nodes a) i = Some n -> rd i a = (a, Ok n).
Proof. intros. unfold rd. now rewrite H. Qed.

Lemma nth_list_set : forall A (l : list A) i n v j, nth_error l i = Some n ->
  nth_error (list_set i v l) j = if Nat.eqb j i then Some v else nth_error l j.
Proof.
  induction l as [|x r IH]; intros i n v j H.
  - destruct i; discriminate.
  - destruct i as [|i], j as [|j]; cbn in *; auto. eapply IH; eauto.
Qed.

Lemma upd_ok : forall a i n f, nth_error (nodes a) i = Some n ->
  upd i f a = (amap (fun j m => if Nat.eqb j i then f m else m) a, Ok tt).
Proof.
  intros. unfold upd. rewrite H. f_equal. apply arena_ext; auto. intros j.
  rewrite nth_amap. unfold set_nodes; cbn [nodes].
  rewrite (nth_list_set _ _ _ _ _ _ H).
  destruct (Nat.eqb j i) eqn:E.
  - apply Nat.eqb_eq in E; subst. now rewrite H.
  - destruct (nth_error (nodes a) j); reflexivity.
Qed.

Lemma updi_setf_ok : forall a x n f v, nth_error (nodes a) (idx x) = Some n ->
  updi x (setf f v) a = (amap (fset x f v) a, Ok tt).
Proof. intros. unfold updi. erewrite upd_ok by eauto. reflexivity. Qed.

Lemma bind_ok : forall A B (m : M A) (k : A -> M B) a a' x,
  m a = (a', Ok x) -> bind m k a = k x a'.
Proof. intros. unfold bind. now rewrite H. Qed.

(* lookups through a map *)
Definition inr (a : arena) (x : nid) : Prop := (idx x < length (nodes a))%nat.
Definition oinr (a : arena) (o : option nid) : Prop := match o with Some x => inr a x | None => True end.

Lemma inr_node : forall a x, inr a x -> exists n, nth_error (nodes a) (idx x) = Some n.
Proof.
  intros a x H. destruct (nth_error (nodes a) (idx x)) eqn:E; eauto.
  apply nth_error_None in E. unfold inr in H. lia.
Qed.
Lemma node_inr : forall a x n, nth_error (nodes a) (idx x) = Some n -> inr a x.
Proof. intros. unfold inr. apply nth_error_Some. congruence. Qed.
Lemma inr_amap : forall F a x, inr (amap F a) x <-> inr a x.
Proof. intros. unfold inr. now rewrite length_amap. Qed.
Lemma oinr_amap : forall F a o, oinr (amap F a) o <-> oinr a o.
Proof. intros F a [x|]; cbn; [apply inr_amap | tauto]. Qed.

(* the node stored at x (default: a blank node; only used in range) *)
Definition blank : node := fresh_node 0 (NextFree None).
Definition nd (a : arena) (x : nid) : node := nth (idx x) (nodes a) blank.
Lemma nd_at : forall a x n, nth_error (nodes a) (idx x) = Some n -> nd a x = n.
Proof. intros. unfold nd. now apply nth_error_nth. Qed.
Lemma at_nd : forall a x, inr a x -> nth_error (nodes a) (idx x) = Some (nd a x).
Proof. intros a x H. destruct (inr_node _ _ H) as [n E]. now rewrite (nd_at _ _ _ E). Qed.
Lemma nd_amap : forall F a x, inr a x -> nd (amap F a) x = F (idx x) (nd a x).
Proof.
  intros. apply nd_at. rewrite nth_amap, (at_nd _ _ H). reflexivity.
Qed.

Lemma rdi_ok : forall a x, inr a x -> rdi x a = (a, Ok (nd a x)).
Proof. intros. unfold rdi. apply rd_ok. now apply at_nd. Qed.
Lemma updi_ok : forall a x f v, inr a x -> updi x (setf f v) a = (amap (fset x f v) a, Ok tt).
Proof. intros. eapply updi_setf_ok. now apply at_nd. Qed.

(* ---------- connect_neighbors ---------- *)
Definition cn_first (a : arena) (par pv nx : option nid) : option nid :=
  match pv with
  | Some p => or_else (match par with Some q => first (nd a q) | None => None end) (Some p)
  | None => nx
  end.
Definition cn_last (a : arena) (par pv nx : option nid) : option nid :=
  match nx with
  | Some x => or_else (match par with Some q => last (nd a q) | None => None end) (Some x)
  | None => pv
  end.
Definition cnF (a : arena) (par pv nx : option nid) : nodefun :=
  ofset par Flast (cn_last a par pv nx) ∘∘ ofset par Ffirst (cn_first a par pv nx)
  ∘∘ ofset nx Fprev pv ∘∘ ofset pv Fnext nx.

Lemma links_only_cnF : forall a par pv nx, links_only (cnF a par pv nx).
Proof. intros. unfold cnF. apply links_only_comp; [apply links_only_comp; [apply links_only_comp|]|]; apply links_only_ofset. Qed.

Ltac mstep :=
  first
    [ erewrite bind_ok by (first [ apply rdi_ok | apply updi_ok | reflexivity ];
                           rewrite ?inr_amap; eassumption)
    | progress cbn [when_dbg dassert dtriangle ret] ].

