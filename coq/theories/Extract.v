(* Extract.v — extraction of the executable model to OCaml for the runner.
   Only ExtrOcamlBasic's directives are used (bool, option, unit, prod, list, sumbool ...);
   nat, N, Z, positive stay the extracted inductive types. No Extract Constant of ours. *)
From IT Require Import World Printer MacroModel Serde.
Require Extraction.
Require Import ExtrOcamlBasic.
Extraction Language OCaml.
Extraction "model.ml"
  init step run drop_arena
  empty_arena count is_empty get get_node_id_at id_is_removed free_list node_is_removed
  ancestors predecessors reverse_children children preceding_siblings following_siblings
  descendants traverse reverse_traverse de_run next_traverse prev_traverse
  pretty_print tree_macro flatten encode decode
  st_is_removed st_as_removed st_reuseable st_reuse
  nid_eqb.
