(* Extract.v — extraction of the executable model to OCaml for the runner.
   Only ExtrOcamlBasic's directives are used (bool, option, unit, prod, list, sumbool ...);
   nat, N, Z, positive stay the extracted inductive types. No Extract Constant of ours. *)
From IT Require Import World Printer MacroModel Serde Monitor.
(* field-name independent constructors/accessors for the OCaml glue *)
Definition mk_node := mkNode.
Definition node_last (n : node) := last n.
Require Extraction.
Require Import ExtrOcamlBasic.
Extraction Language OCaml.
Extraction "model.ml"
  init step run drop_arena
  empty_arena count is_empty get get_node_id_at id_is_removed free_list node_is_removed
  ancestors predecessors reverse_children children preceding_siblings following_siblings
  descendants traverse reverse_traverse de_run next_traverse prev_traverse
  pretty_print tree_macro tree_macro_full flatten encode decode new_node append_value
  st_is_removed st_as_removed st_reuseable st_reuse
  nid_eqb mk_node node_last
  c01_check c02_check c12_state check_step arena_eqb abs live_b slot_removed_b live_ids
  spec_ancestors spec_preceding spec_following spec_predecessors spec_children spec_descendants
  spec_traverse spec_print spec_de_seq de_spec spec_id_at reusable_slots payload_at.
