(* Concurrency.v — readers sharing one arena (C18, schedule part).  A reader is a deterministic
   step machine over its own private state that may only READ the arena (its step has no way to
   return a new arena: that is the model's rendering of `&Arena<T>` without interior mutability).
   A schedule is an arbitrary interleaving: the list of reader indices that take the next step. *)
From IT Require Export Traverse.

Section Readers.
  Variable St Obs : Type.
  (* one step of a reader: from its private state and the shared arena to a new private state and an observation *)
  Definition rstep := arena -> St -> St * Obs.

  (* run [sched] over the readers' current states; returns every observation tagged with its reader *)
  Fixpoint run_sched (a : arena) (steps : list rstep) (sts : list St) (sched : list nat) : list (nat * Obs) :=
    match sched with
    | [] => []
    | i :: rest =>
        match nth_error steps i, nth_error sts i with
        | Some f, Some s =>
            let (s', o) := f a s in
            (i, o) :: run_sched a steps (list_set i s' sts) rest
        | _, _ => run_sched a steps sts rest
        end
    end.

  (* reader i running alone for n steps *)
  Fixpoint run_alone (a : arena) (f : rstep) (s : St) (n : nat) : list Obs :=
    match n with
    | O => []
    | S k => let (s', o) := f a s in o :: run_alone a f s' k
    end.

  Definition project (i : nat) (l : list (nat * Obs)) : list Obs :=
    map snd (filter (fun p => Nat.eqb (fst p) i) l).
End Readers.
