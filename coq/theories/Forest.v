(* Forest.v — the abstract ordered forest that an arena represents, the abstract effect of every
   structural operation on it, and the representation relation [Repr].  Definitions only. *)
From IT Require Export Spec World.

(* ---------- abstract forests ---------- *)
(* kidsf p = the children of p in order ([] for leaves and non-members);
   tops    = the chains of parentless nodes (a lone root is a chain of length one) *)
Record forest := mkForest { kidsf : nid -> list nid; tops : list (list nid) }.

Definition empty_forest : forest := mkForest (fun _ => []) [].

Definition memberF (F : forest) (x : nid) : Prop :=
  (exists p, In x (kidsf F p)) \/ (exists c, In c (tops F) /\ In x c).

(* y is x itself or an ancestor of x *)
Inductive ancF (F : forest) : nid -> nid -> Prop :=
  | anc_refl : forall x, ancF F x x
  | anc_step : forall x p y, In x (kidsf F p) -> ancF F p y -> ancF F x y.

Inductive depthF (F : forest) : nid -> nat -> Prop :=
  | depth_top : forall x c, In c (tops F) -> In x c -> depthF F x 0
  | depth_kid : forall x p d, In x (kidsf F p) -> depthF F p d -> depthF F x (S d).

(* ---------- list surgery ---------- *)
Definition nid_in (x : nid) (l : list nid) : bool := existsb (nid_eqb x) l.
Definition remove_id (x : nid) (l : list nid) : list nid := filter (fun y => negb (nid_eqb y x)) l.
Definition subst_id (x : nid) (by_ : list nid) (l : list nid) : list nid :=
  flat_map (fun y => if nid_eqb y x then by_ else [y]) l.
Definition ins_after (a c : nid) (l : list nid) : list nid :=
  flat_map (fun y => if nid_eqb y a then [y; c] else [y]) l.
Definition ins_before (a c : nid) (l : list nid) : list nid :=
  flat_map (fun y => if nid_eqb y a then [c; y] else [y]) l.
Definition nonempty {A} (l : list A) : bool := match l with [] => false | _ => true end.

(* ---------- abstract operations ---------- *)
(* detach x: x (with its subtree, i.e. its kidsf entries) becomes a lone root; the gap closes *)
Definition f_detach (x : nid) (F : forest) : forest :=
  mkForest (fun p => remove_id x (kidsf F p))
           ([x] :: filter nonempty (map (remove_id x) (tops F))).

(* a.op(c): detach c, then put it at the requested place *)
Definition f_insert (k : inskind) (a c : nid) (F : forest) : forest :=
  let F1 := f_detach c F in
  let rest := tl (tops F1) in                                  (* the chains other than [c] *)
  match k with
  | KAppend  => mkForest (fun p => if nid_eqb p a then kidsf F1 p ++ [c] else kidsf F1 p) rest
  | KPrepend => mkForest (fun p => if nid_eqb p a then c :: kidsf F1 p else kidsf F1 p) rest
  | KAfter   => mkForest (fun p => ins_after a c (kidsf F1 p)) (map (ins_after a c) rest)
  | KBefore  => mkForest (fun p => ins_before a c (kidsf F1 p)) (map (ins_before a c) rest)
  end.

(* remove x: its children take its place, in order *)
Definition f_remove (x : nid) (F : forest) : forest :=
  mkForest (fun p => if nid_eqb p x then [] else subst_id x (kidsf F x) (kidsf F p))
           (filter nonempty (map (subst_id x (kidsf F x)) (tops F))).

(* x and all its descendants, depth-first pre-order *)
Fixpoint preorderF (fuel : nat) (F : forest) (x : nid) : list nid :=
  match fuel with
  | O => [x]
  | S f => x :: flat_map (preorderF f F) (kidsf F x)
  end.

(* remove_subtree x: the nodes D = preorder of x disappear, the gap closes *)
Definition f_remove_subtree (x : nid) (D : list nid) (F : forest) : forest :=
  mkForest (fun p => if nid_in p D then [] else remove_id x (kidsf F p))
           (filter nonempty (map (remove_id x) (tops F))).

Definition f_new (x : nid) (F : forest) : forest := mkForest (kidsf F) ([x] :: tops F).

Definition f_append_value (p x : nid) (F : forest) : forest :=
  mkForest (fun q => if nid_eqb q p then kidsf F q ++ [x] else kidsf F q) (tops F).

(* ---------- the representation relation ---------- *)
(* x is the current id of a slot holding a live node *)
Definition live (a : arena) (x : nid) : Prop :=
  exists n, node_at a x n /\ stamp n = gen x /\ 0 <= gen x.
(* the slot x points to holds a removed node (what `arena[x].is_removed()` tests) *)
Definition slot_removed (a : arena) (x : nid) : Prop := exists n, node_at a x n /\ stamp n < 0.

(* xs is a run of siblings with parent field o, linked by prev/next, [pv] before and [nx] after it *)
Fixpoint dseg (a : arena) (o pv : option nid) (xs : list nid) (nx : option nid) : Prop :=
  match xs with
  | [] => True
  | x :: r => exists n, node_at a x n /\ parent n = o /\ prev n = pv
                        /\ next n = match r with [] => nx | y :: _ => Some y end
                        /\ dseg a o (Some x) r nx
  end.

Record Repr (a : arena) (F : forest) : Prop := mkRepr {
  r_live  : forall x, memberF F x <-> live a x;
  r_kids  : forall p, dseg a (Some p) None (kidsf F p) None /\ NoDup (kidsf F p);
  r_owner : forall p, kidsf F p <> [] -> live a p;
  r_tops  : forall c, In c (tops F) -> c <> [] /\ dseg a None None c None /\ NoDup c;
  r_ends  : forall p n, live a p -> node_at a p n ->
              first n = hd_error (kidsf F p) /\ last n = last_error (kidsf F p);
  r_depth : forall x, memberF F x -> exists d, depthF F x d;
  r_dead  : forall i n, nth_error (nodes a) i = Some n -> stamp n < 0 ->
              parent n = None /\ prev n = None /\ next n = None /\ first n = None /\ last n = None
}.

(* ---------- when an insert is impossible, and which reasons apply ---------- *)
Definition ins_self (k : inskind) : nodeerror :=
  match k with KAppend => AppendSelf | KPrepend => PrependSelf | KAfter => InsertAfterSelf | KBefore => InsertBeforeSelf end.
Definition ins_ancestor (k : inskind) : nodeerror :=
  match k with KAppend => AppendAncestor | KPrepend => PrependAncestor
             | KAfter => InsertAfterAncestor | KBefore => InsertBeforeAncestor end.

(* "the node to insert (c) is an ancestor of the place it would go":
   append/prepend put c under x: c must not be x or an ancestor of x;
   insert_before/after put c next to x, i.e. under x's parent: c must not be an ancestor of x *)
Definition would_cycle (F : forest) (k : inskind) (x c : nid) : Prop :=
  match k with
  | KAppend | KPrepend => ancF F x c
  | KAfter | KBefore => exists p, In x (kidsf F p) /\ ancF F p c
  end.

Definition impossible (a : arena) (F : forest) (k : inskind) (x c : nid) : Prop :=
  x = c \/ slot_removed a x \/ slot_removed a c \/ would_cycle F k x c.

Definition reason_applies (a : arena) (F : forest) (k : inskind) (x c : nid) (e : nodeerror) : Prop :=
  (e = ins_self k /\ x = c) \/
  (e = Removed /\ (slot_removed a x \/ slot_removed a c)) \/
  (e = ins_ancestor k /\ would_cycle F k x c).

(* an id the eight insert entry points may be called with: in range, live or removed-not-recycled *)
Definition usable (a : arena) (x : nid) : Prop := live a x \/ slot_removed a x.

(* everything except the five link fields of the slots is unchanged *)
Definition same_shape (a a' : arena) : Prop :=
  length (nodes a') = length (nodes a) /\ ffree a' = ffree a /\ lfree a' = lfree a /\
  forall i n, nth_error (nodes a) i = Some n ->
    exists n', nth_error (nodes a') i = Some n' /\ stamp n' = stamp n /\ data n' = data n.
