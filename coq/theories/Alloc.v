(* Alloc.v — specification vocabulary for identity, generations and slot reuse (C06, C07, C08):
   validity of calls, and the allocation invariant over worlds.  Definitions only. *)
From IT Require Export Forest.

(* ---------- valid calls ---------- *)
(* the documented preconditions, stated on the arena alone: every id argument is in range and is
   the current id of a live node or points to a removed, not yet recycled slot *)
Definition valid_op (a : arena) (o : op) : Prop :=
  match o with
  | ONew _ => True
  | OAppendValue p _ => usable a p
  | OInsert _ _ x c => usable a x /\ usable a c
  | ODetach x | ORemove x | ORemoveSubtree x | OWrite x _ => live a x
  | OClear | OReserve _ => True
  end.

Fixpoint valid_hist (dbg : bool) (w : world) (ops : list op) : Prop :=
  match ops with
  | [] => True
  | o :: r => valid_op (ar w) o /\ valid_hist dbg (fst (step dbg w o)) r
  end.

(* ---------- the free list as a ghost sequence ---------- *)
(* starting at [cur], the NextFree links spell the slots [l] and then end *)
Fixpoint flseg (a : arena) (cur : option nat) (l : list nat) : Prop :=
  match l with
  | [] => cur = None
  | i :: r => cur = Some i /\ exists n nf, nth_error (nodes a) i = Some n /\ data n = NextFree nf /\ flseg a nf r
  end.

(* a removed slot that may be handed out again: its generation counter is not exhausted *)
Definition reusable_slot (a : arena) (i : nat) : Prop :=
  exists n, nth_error (nodes a) i = Some n /\ i16_min < stamp n < 0.

Definition FreeOK (a : arena) (FL : list nat) : Prop :=
  flseg a (ffree a) FL /\ lfree a = last_error FL /\ NoDup FL /\
  (forall i, In i FL <-> reusable_slot a i).

(* ---------- the allocation invariant ---------- *)
Definition stamp_at (a : arena) (i : nat) : option Z := option_map stamp (nth_error (nodes a) i).

Record AllocOK (w : world) : Prop := mkAllocOK {
  (* every stamp is an i16 *)
  al_range  : forall i n, nth_error (nodes (ar w)) i = Some n -> i16_min <= stamp n <= i16_max;
  (* live slots hold payloads, removed slots hold free-list links *)
  al_data   : forall i n, nth_error (nodes (ar w)) i = Some n ->
                (0 <= stamp n <-> exists v, data n = Data v);
  (* no id was issued twice *)
  al_nodup  : NoDup (issued w);
  (* every issued id points into the arena and is not newer than its slot's generation *)
  al_issued : forall x, In x (issued w) ->
                exists n, node_at (ar w) x n /\ 0 <= gen x /\
                          (0 <= stamp n -> gen x <= stamp n) /\ (stamp n < 0 -> gen x < - stamp n);
  (* the current id of every live slot has been issued *)
  al_live   : forall i n, nth_error (nodes (ar w)) i = Some n -> 0 <= stamp n -> In (mkId i (stamp n)) (issued w);
  (* [removed] is exactly the set of issued ids whose node is gone *)
  al_removed : forall x, In x (removed w) <-> (In x (issued w) /\ ~ live (ar w) x);
  (* the free list holds exactly the reusable removed slots, each once *)
  al_free   : exists FL, FreeOK (ar w) FL
}.

(* every payload is accounted for exactly once: stored in a live slot or already dropped *)
Definition stored (a : arena) : list N := payloads (nodes a).
