(* CfgModel.v — the inventory of conditional-compilation gates that tools/translate.py regenerates
   from the crate's sources, and what it means for a cargo feature gate to be additive (C17). *)
From Coq Require Export String List Bool Arith.
Export ListNotations.

Inductive gkind :=
  | KUse                  (* an import or re-export *)
  | KExternCrate
  | KCrateAttr            (* #![cfg_attr(.., no_std)] *)
  | KCrateCfg
  | KDeriveAttr           (* #[cfg_attr(.., derive(..))] on a type *)
  | KImplTrait            (* a whole `impl Trait for Type` block *)
  | KInherentImplNewFns   (* a whole inherent impl block containing only `pub fn`s *)
  | KFn | KFnInImpl | KMod | KTypeItem | KField
  | KExprMacro            (* cfg!(..) in expression position: selects between two behaviours *)
  | KUnknown.

Record gate := mkGate { g_file : string; g_line : nat; g_pred : string; g_kind : gkind; g_detail : string }.

Definition contains (needle hay : string) : bool :=
  match index 0 needle hay with Some _ => true | None => false end.

(* a gate that depends on a cargo feature (as opposed to debug_assertions, test, or the
   verification guard indextree_verif) *)
Definition is_feature_gate (g : gate) : bool := contains "feature" (g_pred g).

(* kinds of gated items that can only ADD names / impls to the crate, never change an existing
   function body, field or expression *)
Definition additive_kind (k : gkind) : bool :=
  match k with
  | KUse | KExternCrate | KCrateAttr | KDeriveAttr | KImplTrait | KInherentImplNewFns => true
  | _ => false
  end.

Definition gate_ok (g : gate) : bool := negb (is_feature_gate g) || additive_kind (g_kind g).

(* the only non-feature predicates allowed *)
Definition known_nonfeature (g : gate) : bool :=
  is_feature_gate g || contains "debug_assertions" (g_pred g) || contains "indextree_verif" (g_pred g).
