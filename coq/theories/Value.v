(* Value.v — lookups by reference/position (C11) and the arena as a plain value with a capacity
   (C13).  MODEL ONLY.
   - A `&Node<T>` is abstracted to WHERE it points: into this arena's buffer at a position, or
     elsewhere.  The pointer-range test and the division by size_of::<Node<T>>() of
     Arena::get_node_id are thereby replaced by their intended meaning; the correspondence check
     exercises the real pointer arithmetic (own, cloned, foreign and reallocated references).
   - Vec's growth policy is an arbitrary function [grow] with grow c n >= n (the documented
     guarantee of Vec::reserve / with_capacity), a Section variable instantiated in the Examples. *)
From IT Require Export World.

Inductive noderef := InBuffer (pos : nat) | Elsewhere.

(* fn get_node_id(&self, node: &Node<T>) -> Option<NodeId> *)
Definition get_node_id (a : arena) (r : noderef) : option nid :=
  match r with
  | Elsewhere => None                                     (* !nodes_range.contains(&p) *)
  | InBuffer k =>
      match nth_error (nodes a) k with
      | Some n => Some (mkId k (stamp n))                 (* NonZeroUsize::new(k+1) never fails *)
      | None => None                                      (* a position past the end is outside the range *)
      end
  end.

(* arena.get(id) as a reference *)
Definition ref_of (a : arena) (x : nid) : noderef :=
  match get a x with Some _ => InBuffer (idx x) | None => Elsewhere end.

(* usize::from(id), NonZeroUsize::from(id), Display *)
Definition usize_of (x : nid) : nat := S (idx x).

Section Capacity.
  Variable grow : nat -> nat -> nat.          (* grow current_capacity needed *)

  Record varena := mkV { va : arena; cap : nat }.

  Definition v_new : varena := mkV empty_arena 0.
  Definition v_with_capacity (n : nat) : varena := mkV empty_arena (grow 0 n).
  Definition v_reserve (k : nat) (v : varena) : varena :=
    let len := length (nodes (va v)) in
    mkV (va v) (if Nat.leb (len + k) (cap v) then cap v else grow (cap v) (len + k)).
  Definition v_clear (v : varena) : varena := mkV empty_arena (cap v).   (* Vec::clear keeps the allocation *)
  (* any step of the API: the Vec grows when a push needs room *)
  Definition v_step (dbg : bool) (v : varena) (w : world) (o : op) : varena :=
    let a' := ar (fst (step dbg w o)) in
    let len' := length (nodes a') in
    mkV a' (match o with
            | OReserve k => cap (v_reserve k v)
            | _ => if Nat.leb len' (cap v) then cap v else grow (cap v) len'
            end).
End Capacity.
