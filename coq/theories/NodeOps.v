(* NodeOps.v — id.rs: detach, the eight insert entry points, append_value, remove, remove_subtree.
   MODEL ONLY; follows the code after the fix commits e70ebf8, 03c5fe6, baf52e8, 49c9837. *)
From IT Require Export Traverse.
Open Scope mon_scope.

Inductive nodeerror :=
  | AppendSelf | PrependSelf | InsertBeforeSelf | InsertAfterSelf | Removed
  | AppendAncestor | PrependAncestor | InsertBeforeAncestor | InsertAfterAncestor.

Inductive nres := NOk | NErr (e : nodeerror).           (* Result<(), NodeError> *)

(* Node::is_detached *)
Definition node_is_detached (n : node) : bool :=
  negb (is_some (parent n)) && negb (is_some (prev n)) && negb (is_some (next n)).

(* pub fn detach(self, arena) *)
Definition detach (dbg : bool) (x : nid) : M unit :=
  detach_from_siblings dbg x x ;;;
  r <- rewrite_parents x None ;;
  expect r ;;;
  n <- rdi x ;;
  dassert dbg (node_is_detached n).

(* arena[self].is_removed() || arena[other].is_removed() *)
Definition either_removed (x y : nid) : M bool :=
  nx <- rdi x ;;
  if node_is_removed nx then ret true
  else ny <- rdi y ;; ret (node_is_removed ny).

(* self.ancestors(arena).any(|a| new == a) *)
Definition is_ancestor_or_self (x new : nid) : M bool :=
  a <- get_arena ;; lift (anc_any (chain_fuel a) (Some x) new).

(* self.ancestors(arena).skip(1).any(|a| new == a) : skip(1) pulls (and so reads) `self` first *)
Definition is_strict_ancestor (x new : nid) : M bool :=
  a <- get_arena ;;
  n <- rdi x ;;
  lift (anc_any (chain_fuel a) (parent n) new).

Definition checked_append (dbg : bool) (x new_child : nid) : M nres :=
  if nid_eqb new_child x then ret (NErr AppendSelf) else
  rm <- either_removed x new_child ;;
  if rm : bool then ret (NErr Removed) else
  anc <- is_ancestor_or_self x new_child ;;
  if anc : bool then ret (NErr AppendAncestor) else
  detach dbg new_child ;;;
  nx <- rdi x ;;
  r <- insert_with_neighbors dbg new_child (Some x) (last nx) None ;;
  expect r ;;;
  ret NOk.

Definition checked_prepend (dbg : bool) (x new_child : nid) : M nres :=
  if nid_eqb new_child x then ret (NErr PrependSelf) else
  rm <- either_removed x new_child ;;
  if rm : bool then ret (NErr Removed) else
  anc <- is_ancestor_or_self x new_child ;;
  if anc : bool then ret (NErr PrependAncestor) else
  detach dbg new_child ;;;
  nx <- rdi x ;;
  r <- insert_with_neighbors dbg new_child (Some x) None (first nx) ;;
  expect r ;;;
  ret NOk.

Definition checked_insert_after (dbg : bool) (x new_sibling : nid) : M nres :=
  if nid_eqb new_sibling x then ret (NErr InsertAfterSelf) else
  rm <- either_removed x new_sibling ;;
  if rm : bool then ret (NErr Removed) else
  anc <- is_strict_ancestor x new_sibling ;;
  if anc : bool then ret (NErr InsertAfterAncestor) else
  detach dbg new_sibling ;;;
  nx <- rdi x ;;
  r <- insert_with_neighbors dbg new_sibling (parent nx) (Some x) (next nx) ;;
  expect r ;;;
  ret NOk.

Definition checked_insert_before (dbg : bool) (x new_sibling : nid) : M nres :=
  if nid_eqb new_sibling x then ret (NErr InsertBeforeSelf) else
  rm <- either_removed x new_sibling ;;
  if rm : bool then ret (NErr Removed) else
  anc <- is_strict_ancestor x new_sibling ;;
  if anc : bool then ret (NErr InsertBeforeAncestor) else
  detach dbg new_sibling ;;;
  nx <- rdi x ;;
  r <- insert_with_neighbors dbg new_sibling (parent nx) (prev nx) (Some x) ;;
  expect r ;;;
  ret NOk.

(* the unchecked forms: checked_xxx(..).expect("Preconditions not met: invalid argument") *)
Definition expect_n (r : nres) : M unit :=
  match r with NOk => ret tt | NErr _ => panic P_PRECOND end.

Definition append (dbg : bool) (x c : nid) : M unit := r <- checked_append dbg x c ;; expect_n r.
Definition prepend (dbg : bool) (x c : nid) : M unit := r <- checked_prepend dbg x c ;; expect_n r.
Definition insert_after (dbg : bool) (x c : nid) : M unit := r <- checked_insert_after dbg x c ;; expect_n r.
Definition insert_before (dbg : bool) (x c : nid) : M unit := r <- checked_insert_before dbg x c ;; expect_n r.

(* pub fn append_value(self, value, arena) -> NodeId *)
Definition append_value (dbg : bool) (x : nid) (v : N) : M nid :=
  nx <- rdi x ;;
  (if node_is_removed nx then panic P_PRECOND else ret tt) ;;;       (* assert!(!arena[self].is_removed()) *)
  new_child <- new_node dbg v ;;
  insert_last_unchecked dbg new_child x ;;;
  ret new_child.

(* pub fn remove(self, arena).  Returns the dropped payload (see free_node). *)
Definition remove (dbg : bool) (x : nid) : M (option N) :=
  when_dbg dbg (
    n0 <- rdi x ;;
    assert_triangle_nodes (parent n0) (prev n0) (Some x) ;;;
    assert_triangle_nodes (parent n0) (Some x) (next n0) ;;;
    assert_triangle_nodes (Some x) None (first n0) ;;;
    assert_triangle_nodes (Some x) (last n0) None) ;;;
  n <- rdi x ;;
  let par := parent n in
  let pv := prev n in
  let nx := next n in
  let fc := first n in
  let lc := last n in
  (if Bool.eqb (is_some fc) (is_some lc) then ret tt else panic P_ASSERT) ;;;
  detach dbg x ;;;
  (match fc, lc with
   | Some f, Some l =>
       detach_from_siblings dbg f l ;;;
       r <- transplant dbg f l par pv nx ;;
       expect r
   | _, _ => ret tt
   end) ;;;
  old <- free_node dbg x ;;
  n' <- rdi x ;;
  dassert dbg (node_is_detached n') ;;;
  ret old.

(* pub fn remove_subtree(self, arena)  (after fix 49c9837).
   Returns the removed ids (pre-order) and the dropped payloads. *)
Definition clear_links (n : node) : node :=
  mkNode None None None None None (stamp n) (data n).

Fixpoint free_all (dbg : bool) (ids : list nid) : M (list N) :=
  match ids with
  | [] => ret []
  | id :: rest =>
      old <- free_node dbg id ;;
      updi id clear_links ;;;
      olds <- free_all dbg rest ;;
      ret (match old with Some v => v :: olds | None => olds end)
  end.

Definition remove_subtree (dbg : bool) (x : nid) : M (list nid * list N) :=
  detach dbg x ;;;
  subtree <- lift (descendants x) ;;
  olds <- free_all dbg subtree ;;
  ret (subtree, olds).
