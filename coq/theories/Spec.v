(* Spec.v — specification-level vocabulary shared by the property theorems: rose trees, what it
   means for a rose tree to be laid out in an arena, the documented traversal sequences and the
   documented pretty-printer output.  Definitions only, no proofs. *)
From IT Require Export Printer.

(* ---------- rose trees ---------- *)
Inductive rose := T (x : nid) (kids : list rose).

Definition root (t : rose) : nid := match t with T x _ => x end.
Definition kids (t : rose) : list rose := match t with T _ ks => ks end.

Fixpoint ids (t : rose) : list nid :=                         (* depth-first pre-order *)
  match t with T x ks => x :: flat_map ids ks end.

Fixpoint euler (t : rose) : list edge :=                      (* Start x, the children's tours, End x *)
  match t with T x ks => Start x :: flat_map euler ks ++ [End_ x] end.

Fixpoint rose_size (t : rose) : nat :=
  match t with T _ ks => S (fold_right (fun k n => (rose_size k + n)%nat) 0%nat ks) end.

Definition last_error {A} (l : list A) : option A :=
  match l with [] => None | x :: r => Some (List.last r x) end.

(* the slot addressed by x holds node n (ids address slots by index only, as arena[id] does) *)
Definition node_at (a : arena) (x : nid) (n : node) : Prop := nth_error (nodes a) (idx x) = Some n.

(* xs is a complete sibling chain under parent p, [pv] being the node before its first element *)
Fixpoint chain_from (a : arena) (p : nid) (pv : option nid) (xs : list nid) : Prop :=
  match xs with
  | [] => True
  | x :: r => exists n, node_at a x n /\ parent n = Some p /\ prev n = pv /\ next n = hd_error r
                        /\ chain_from a p (Some x) r
  end.

(* the links of the arena spell the rose tree t (nothing is said about t's root's own parent and siblings) *)
Inductive embeds (a : arena) : rose -> Prop :=
  | embeds_T : forall x ks n,
      node_at a x n ->
      first n = hd_error (map root ks) ->
      last n = last_error (map root ks) ->
      chain_from a x None (map root ks) ->
      Forall (embeds a) ks ->
      embeds a (T x ks).

(* t is a tree of the arena: laid out in it, over pairwise distinct slots *)
Definition tree_in (a : arena) (t : rose) : Prop := embeds a t /\ NoDup (map idx (ids t)).

(* ---------- documented pretty-printer output ---------- *)
Definition GUIDE_BAR : bytes := [BAR; SP; SP; SP].            (* "|   " *)
Definition GUIDE_BLANK : bytes := [SP; SP; SP; SP].           (* "    " *)
Definition BRANCH_MID : bytes := [BAR; DASH; DASH; SP].       (* "|-- " *)
Definition BRANCH_LAST : bytes := [TICK; DASH; DASH; SP].     (* "`-- " *)

(* split a text at '\n' into its lines (the text "a\n\nb" has the three lines "a", "", "b") *)
Fixpoint lines_acc (s : bytes) (cur : bytes) : list bytes :=
  match s with
  | [] => [rev cur]
  | c :: s' => if N.eqb c NL then rev cur :: lines_acc s' [] else lines_acc s' (c :: cur)
  end.
Definition lines (s : bytes) : list bytes := lines_acc s [].

(* a payload's own block: first line behind [p1], every further line behind [p2] *)
Definition block (p1 p2 : bytes) (ls : list bytes) : list bytes :=
  match ls with
  | [] => []
  | l :: r => (p1 ++ l) :: map (fun x => p2 ++ x) r
  end.

Section Render.
  Variable rend : rendering.
  Variable mode : nat.
  Variable pay : nid -> N.                                   (* payload stored under each id *)

  Definition text_of (x : nid) : bytes := concat (rend (pay x) mode).

  Definition guide (is_last : bool) : bytes := if is_last then GUIDE_BLANK else GUIDE_BAR.
  Definition branch (is_last : bool) : bytes := if is_last then BRANCH_LAST else BRANCH_MID.
  Definition is_nil {A} (l : list A) : bool := match l with [] => true | _ => false end.

  (* apply f to every tree of a sibling list, telling it whether the tree is the last sibling *)
  Definition over_siblings (f : bool -> rose -> list bytes) : list rose -> list bytes :=
    fix go (ks : list rose) : list bytes :=
      match ks with
      | [] => []
      | k :: r => f (is_nil r) k ++ go r
      end.

  (* lines drawn for a non-root node t whose ancestors contribute the guide prefix G:
     its own block behind the branch mark, then its children one guide further in *)
  Fixpoint render_sub (G : bytes) (is_last : bool) (t : rose) : list bytes :=
    match t with
    | T x ks =>
        block (G ++ branch is_last) (G ++ guide is_last) (lines (text_of x))
        ++ over_siblings (render_sub (G ++ guide is_last)) ks
    end.

  (* the start node: its own lines unindented, its children with an empty guide prefix *)
  Definition render_lines (t : rose) : list bytes :=
    lines (text_of (root t)) ++ over_siblings (render_sub []) (kids t).

  Fixpoint join_nl (ls : list bytes) : bytes :=
    match ls with
    | [] => []
    | [l] => l
    | l :: r => l ++ NL :: join_nl r
    end.

  Definition render (t : rose) : bytes := join_nl (render_lines t).
End Render.

(* a rendering the property speaks about: non-empty and not ending in a newline *)
Definition good_text (s : bytes) : Prop := s <> [] /\ List.last s 0%N <> NL.

(* ---------- double-ended iteration over a sequence (the DoubleEndedIterator laws) ---------- *)
(* what any interleaving of next() [true] and next_back() [false] must return on the sequence s *)
Fixpoint de_spec (s : list nid) (pulls : list bool) : list (option nid) :=
  match pulls with
  | [] => []
  | b :: ps =>
      match s with
      | [] => None :: de_spec [] ps
      | x :: r =>
          if b then Some x :: de_spec r ps
          else Some (List.last r x) :: de_spec (removelast s) ps
      end
  end.

(* xs is a run of siblings linked by next/prev (nothing is said beyond its two ends) *)
Fixpoint linked (a : arena) (xs : list nid) : Prop :=
  match xs with
  | [] => True
  | x :: r =>
      match r with
      | [] => exists n, node_at a x n
      | y :: _ => exists n m, node_at a x n /\ node_at a y m /\ next n = Some y /\ prev m = Some x /\ linked a r
      end
  end.
