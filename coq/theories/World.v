(* World.v — the public mutating API as one total step function over operations, with the
   ghost bookkeeping (ids issued / removed, payload drop log) the properties talk about.
   MODEL ONLY. *)
From IT Require Export NodeOps.
Open Scope mon_scope.

Inductive inskind := KAppend | KPrepend | KAfter | KBefore.

Inductive op :=
  | ONew (v : N)                                   (* arena.new_node(v) *)
  | OAppendValue (p : nid) (v : N)                 (* p.append_value(v, arena) *)
  | OInsert (k : inskind) (checked : bool) (a b : nid)   (* a.[checked_]append/prepend/insert_after/insert_before(b) *)
  | ODetach (x : nid)
  | ORemove (x : nid)
  | ORemoveSubtree (x : nid)
  | OWrite (x : nid) (v : N)                       (* *arena[x].get_mut() = v *)
  | OClear
  | OReserve (k : nat).

Inductive outcome :=
  | OutUnit
  | OutId (x : nid)
  | OutErr (e : nodeerror)
  | OutPanic (c : N)
  | OutDiverge.

Record world := mkWorld {
  ar : arena;
  issued : list nid;      (* ids handed out since creation / last clear, oldest first *)
  removed : list nid;     (* ids whose node has been removed since creation / last clear *)
  dropped : list N }.     (* payloads dropped so far, in order *)

Definition init : world := mkWorld empty_arena [] [] [].

Definition checked_insert (dbg : bool) (k : inskind) (a b : nid) : M nres :=
  match k with
  | KAppend => checked_append dbg a b
  | KPrepend => checked_prepend dbg a b
  | KAfter => checked_insert_after dbg a b
  | KBefore => checked_insert_before dbg a b
  end.

Definition unchecked_insert (dbg : bool) (k : inskind) (a b : nid) : M unit :=
  match k with
  | KAppend => append dbg a b
  | KPrepend => prepend dbg a b
  | KAfter => insert_after dbg a b
  | KBefore => insert_before dbg a b
  end.

Definition olist {A} (o : option A) : list A := match o with Some x => [x] | None => [] end.

Definition fail_out {A} (w : world) (a' : arena) (r : res A) : world * outcome :=
  (mkWorld a' (issued w) (removed w) (dropped w),
   match r with Panic c => OutPanic c | _ => OutDiverge end).

Definition step (dbg : bool) (w : world) (o : op) : world * outcome :=
  match o with
  | ONew v =>
      match new_node dbg v (ar w) with
      | (a', Ok x) => (mkWorld a' (issued w ++ [x]) (removed w) (dropped w), OutId x)
      | (a', r) => fail_out w a' r
      end
  | OAppendValue p v =>
      match append_value dbg p v (ar w) with
      | (a', Ok x) => (mkWorld a' (issued w ++ [x]) (removed w) (dropped w), OutId x)
      | (a', r) => fail_out w a' r
      end
  | OInsert k true a b =>
      match checked_insert dbg k a b (ar w) with
      | (a', Ok NOk) => (mkWorld a' (issued w) (removed w) (dropped w), OutUnit)
      | (a', Ok (NErr e)) => (mkWorld a' (issued w) (removed w) (dropped w), OutErr e)
      | (a', r) => fail_out w a' r
      end
  | OInsert k false a b =>
      match unchecked_insert dbg k a b (ar w) with
      | (a', Ok tt) => (mkWorld a' (issued w) (removed w) (dropped w), OutUnit)
      | (a', r) => fail_out w a' r
      end
  | ODetach x =>
      match detach dbg x (ar w) with
      | (a', Ok tt) => (mkWorld a' (issued w) (removed w) (dropped w), OutUnit)
      | (a', r) => fail_out w a' r
      end
  | ORemove x =>
      match remove dbg x (ar w) with
      | (a', Ok old) => (mkWorld a' (issued w) (removed w ++ [x]) (dropped w ++ olist old), OutUnit)
      | (a', r) => fail_out w a' r
      end
  | ORemoveSubtree x =>
      match remove_subtree dbg x (ar w) with
      | (a', Ok (ids, olds)) => (mkWorld a' (issued w) (removed w ++ ids) (dropped w ++ olds), OutUnit)
      | (a', r) => fail_out w a' r
      end
  | OWrite x v =>
      match write_payload x v (ar w) with
      | (a', Ok old) => (mkWorld a' (issued w) (removed w) (dropped w ++ [old]), OutUnit)
      | (a', r) => fail_out w a' r
      end
  | OClear =>
      match clear (ar w) with
      | (a', Ok olds) => (mkWorld a' [] [] (dropped w ++ olds), OutUnit)
      | (a', r) => fail_out w a' r
      end
  | OReserve _ => (w, OutUnit)
  end.

Definition run (dbg : bool) (ops : list op) (w : world) : world :=
  fold_left (fun w o => fst (step dbg w o)) ops w.

(* dropping the arena value itself: every payload still stored is dropped, in slot order *)
Definition drop_arena (w : world) : list N := dropped w ++ payloads (nodes (ar w)).
