(* Traverse.v — traverse.rs: the nine iterators and NodeEdge::{next,prev}_traverse.  MODEL ONLY.
   Iterators only read the arena: they live in the reader monad R.  Every loop runs on explicit
   fuel and returns Diverge when it is exhausted. *)
From IT Require Export Relations.
Open Scope rd_scope.

(* ---- single-ended iterators (macro arm with `Iter`):
     fn next(&mut self) { let node = self.0.node.take()?; self.0.node = next(&self.0.arena[node]); Some(node) } *)
Fixpoint iter_collect (nextf : node -> option nid) (fuel : nat) (cur : option nid) : R (list nid) :=
  match cur with
  | None => rret []
  | Some c =>
      match fuel with
      | O => fun _ => Diverge
      | S f => n <- rrdi c ;; rest <- iter_collect nextf f (nextf n) ;; rret (c :: rest)
      end
  end.

Definition ancestors (x : nid) : R (list nid) :=
  fun a => iter_collect parent (chain_fuel a) (Some x) a.
Definition predecessors (x : nid) : R (list nid) :=
  fun a => iter_collect (fun n => or_else (prev n) (parent n)) (trav_fuel a) (Some x) a.
Definition reverse_children (x : nid) : R (list nid) :=
  fun a => (n <- rrdi x ;; iter_collect prev (chain_fuel a) (last n)) a.

(* self.ancestors(arena).any(|ancestor| target == ancestor), starting from iterator state [cur] *)
Fixpoint anc_any (fuel : nat) (cur : option nid) (target : nid) : R bool :=
  match cur with
  | None => rret false
  | Some c =>
      match fuel with
      | O => fun _ => Diverge
      | S f => n <- rrdi c ;;
               if nid_eqb target c then rret true else anc_any f (parent n) target
      end
  end.

(* ---- double-ended iterators (macro arm with `DoubleEndedIter`) *)
Definition de_state := (option nid * option nid)%type.     (* (head, tail) *)

Definition de_next (nextf : node -> option nid) (s : de_state) : R (option nid * de_state) :=
  match s with
  | (Some h, Some t) =>
      if nid_eqb h t then rret (Some h, (None, None))
      else n <- rrdi h ;; rret (Some h, (nextf n, Some t))
  | (Some h, None) => n <- rrdi h ;; rret (Some h, (nextf n, None))
  | (None, _) => rret (None, s)
  end.

Definition de_next_back (backf : node -> option nid) (s : de_state) : R (option nid * de_state) :=
  match s with
  | (Some h, Some t) =>
      if nid_eqb h t then rret (Some h, (None, None))
      else n <- rrdi t ;; rret (Some t, (Some h, backf n))
  | (None, Some t) => n <- rrdi t ;; rret (Some t, (None, backf n))
  | (_, None) => rret (None, s)
  end.

(* `let mut e = x; while let Some(y) = arena[e].link { e = y }` (fix 6ce71b8) *)
Fixpoint walk_end (link : node -> option nid) (fuel : nat) (cur : nid) : R nid :=
  match fuel with
  | O => fun _ => Diverge
  | S f => n <- rrdi cur ;;
           match link n with
           | Some y => walk_end link f y
           | None => rret cur
           end
  end.

Definition rget_unwrap (x : nid) : R node :=
  fun a => match get a x with Some n => Ok n | None => Panic P_UNWRAP end.

(* which double-ended iterator *)
Inductive dekind := DChildren | DPreceding | DFollowing.

Definition de_fwd (k : dekind) : node -> option nid :=
  match k with DChildren => next | DPreceding => prev | DFollowing => next end.
Definition de_bwd (k : dekind) : node -> option nid :=
  match k with DChildren => prev | DPreceding => next | DFollowing => prev end.

Definition de_new (k : dekind) (x : nid) : R de_state :=
  match k with
  | DChildren => n <- rrdi x ;; rret (first n, last n)
  | DPreceding =>
      n <- rget_unwrap x ;;
      match parent n with
      | Some pid => fun a => Ok (Some x, match get a pid with Some p => first p | None => None end)
      | None => fun a => (e <- walk_end prev (chain_fuel a) x ;; rret (Some x, Some e)) a
      end
  | DFollowing =>
      n <- rget_unwrap x ;;
      match parent n with
      | Some pid => fun a => Ok (Some x, match get a pid with Some p => last p | None => None end)
      | None => fun a => (e <- walk_end next (chain_fuel a) x ;; rret (Some x, Some e)) a
      end
  end.

Fixpoint de_collect (k : dekind) (fuel : nat) (s : de_state) : R (list nid) :=
  match fuel with
  | O => fun _ => Diverge
  | S f => r <- de_next (de_fwd k) s ;;
           match r with
           | (Some x, s') => rest <- de_collect k f s' ;; rret (x :: rest)
           | (None, _) => rret []
           end
  end.

Definition de_iter (k : dekind) (x : nid) : R (list nid) :=
  fun a => (s <- de_new k x ;; de_collect k (S (chain_fuel a)) s) a.

Definition children := de_iter DChildren.
Definition preceding_siblings := de_iter DPreceding.
Definition following_siblings := de_iter DFollowing.

(* an arbitrary sequence of pulls: true = next(), false = next_back() *)
Fixpoint de_pulls (k : dekind) (pulls : list bool) (s : de_state) : R (list (option nid)) :=
  match pulls with
  | [] => rret []
  | b :: ps =>
      r <- (if b then de_next (de_fwd k) s else de_next_back (de_bwd k) s) ;;
      rest <- de_pulls k ps (snd r) ;;
      rret (fst r :: rest)
  end.

Definition de_run (k : dekind) (x : nid) (pulls : list bool) : R (list (option nid)) :=
  s <- de_new k x ;; de_pulls k pulls s.

(* ---- edge traversals *)
Inductive edge := Start (x : nid) | End_ (x : nid).

Definition edge_eqb (e f : edge) : bool :=
  match e, f with
  | Start x, Start y => nid_eqb x y
  | End_ x, End_ y => nid_eqb x y
  | _, _ => false
  end.

(* NodeEdge::next_traverse *)
Definition next_traverse (e : edge) : R (option edge) :=
  match e with
  | Start x => n <- rrdi x ;;
               match first n with
               | Some c => rret (Some (Start c))
               | None => rret (Some (End_ x))
               end
  | End_ x => n <- rrdi x ;;
              match next n with
              | Some s => rret (Some (Start s))
              | None => rret (option_map End_ (parent n))
              end
  end.

(* NodeEdge::prev_traverse *)
Definition prev_traverse (e : edge) : R (option edge) :=
  match e with
  | End_ x => n <- rrdi x ;;
              match last n with
              | Some c => rret (Some (End_ c))
              | None => rret (Some (Start x))
              end
  | Start x => n <- rrdi x ;;
               match prev n with
               | Some s => rret (Some (End_ s))
               | None => rret (option_map Start (parent n))
               end
  end.

(* Traverse::next: let next = self.next.take()?; self.next = self.next_of_next(next); Some(next)
   next_of_next: if next == End(root) { None } else { next.next_traverse(arena) } *)
Fixpoint traverse_loop (fuel : nat) (root : nid) (cur : option edge) : R (list edge) :=
  match cur with
  | None => rret []
  | Some e =>
      match fuel with
      | O => fun _ => Diverge
      | S f =>
          nn <- (if edge_eqb e (End_ root) then rret None else next_traverse e) ;;
          rest <- traverse_loop f root nn ;;
          rret (e :: rest)
      end
  end.

Fixpoint rtraverse_loop (fuel : nat) (root : nid) (cur : option edge) : R (list edge) :=
  match cur with
  | None => rret []
  | Some e =>
      match fuel with
      | O => fun _ => Diverge
      | S f =>
          nn <- (if edge_eqb e (Start root) then rret None else prev_traverse e) ;;
          rest <- rtraverse_loop f root nn ;;
          rret (e :: rest)
      end
  end.

Definition traverse (x : nid) : R (list edge) :=
  fun a => traverse_loop (trav_fuel a) x (Some (Start x)) a.
Definition reverse_traverse (x : nid) : R (list edge) :=
  fun a => rtraverse_loop (trav_fuel a) x (Some (End_ x)) a.

Definition starts (l : list edge) : list nid :=
  flat_map (fun e => match e with Start x => [x] | End_ _ => [] end) l.

(* Descendants: Traverse filtered to the Start edges (find_map) *)
Definition descendants (x : nid) : R (list nid) :=
  l <- traverse x ;; rret (starts l).
