(* IterModel.v — the small language into which tools/translate.py translates the step closures of the
   `new_iterator!` invocations of traverse.rs (which link an iterator follows), and its meaning. *)
From IT Require Export Traverse.
From Coq Require Export String.

Inductive lexpr :=
  | LField (f : fld)                 (* |n| n.f *)
  | LOr (f g : fld)                  (* |n| n.f.or(n.g) *)
  | LUnknown (src : string).         (* anything else: has no meaning, every theorem about it fails *)

Inductive sexpr :=
  | SSelf                            (* default constructor: the iterator starts at the node itself *)
  | SOne (f : fld)                   (* Iter::new(arena, arena[node].f) *)
  | SBoth (f g : fld)                (* DoubleEndedIter::new(arena, arena[node].f, arena[node].g) *)
  | SBlock                           (* a block computing the far end: modelled by hand in Traverse.de_new *)
  | SUnknown (src : string).

Record iterdef := mkIter { it_name : string; it_start : sexpr; it_next : lexpr; it_back : option lexpr }.

Definition interp (e : lexpr) : option (node -> option nid) :=
  match e with
  | LField f => Some (getf f)
  | LOr f g => Some (fun n => or_else (getf f n) (getf g n))
  | LUnknown _ => None
  end.

Definition find_iter (name : string) (l : list iterdef) : option iterdef :=
  find (fun d => String.eqb (it_name d) name) l.

(* the step function of iterator [name] according to the source, applied to a node *)
Definition src_next (l : list iterdef) (name : string) (n : node) : option (option nid) :=
  match find_iter name l with
  | Some d => match interp (it_next d) with Some f => Some (f n) | None => None end
  | None => None
  end.
Definition src_back (l : list iterdef) (name : string) (n : node) : option (option nid) :=
  match find_iter name l with
  | Some d => match it_back d with
              | Some e => match interp e with Some f => Some (f n) | None => None end
              | None => None
              end
  | None => None
  end.
Definition src_start (l : list iterdef) (name : string) : option sexpr :=
  option_map it_start (find_iter name l).
