(* Base.v — data types of the model and the state-and-panic monad.
   MODEL ONLY: no proofs in this file (so the model still runs when a proof breaks). *)
From Coq Require Export List ZArith NArith Bool Arith.
Export ListNotations.
Open Scope Z_scope.

(* ---------- identifiers and nodes ---------- *)

(* NodeId { index1: NonZeroUsize, stamp: NodeStamp(i16) }.  [idx] is the 0-based index
   (Rust's index0() = index1 - 1); usize::from(id) is [S idx]. *)
Record nid := mkId { idx : nat; gen : Z }.

Definition nid_eqb (x y : nid) : bool := Nat.eqb (idx x) (idx y) && Z.eqb (gen x) (gen y).

Definition onid_eqb (x y : option nid) : bool :=
  match x, y with
  | None, None => true
  | Some a, Some b => nid_eqb a b
  | _, _ => false
  end.

(* NodeData<T>: Data(T) | NextFree(Option<usize>); payloads are tokens in N *)
Inductive ndata := Data (v : N) | NextFree (o : option nat).

Record node := mkNode {
  parent : option nid;
  prev   : option nid;   (* previous_sibling *)
  next   : option nid;   (* next_sibling *)
  first  : option nid;   (* first_child *)
  last   : option nid;   (* last_child *)
  stamp  : Z;            (* NodeStamp(i16) *)
  data   : ndata }.

Record arena := mkArena {
  nodes : list node;          (* Vec<Node<T>> *)
  ffree : option nat;         (* first_free_slot *)
  lfree : option nat }.       (* last_free_slot *)

Definition empty_arena : arena := mkArena [] None None.

Inductive fld := Fparent | Fprev | Fnext | Ffirst | Flast.

Definition getf (f : fld) (n : node) : option nid :=
  match f with
  | Fparent => parent n | Fprev => prev n | Fnext => next n | Ffirst => first n | Flast => last n
  end.

Definition setf (f : fld) (v : option nid) (n : node) : node :=
  match f with
  | Fparent => mkNode v (prev n) (next n) (first n) (last n) (stamp n) (data n)
  | Fprev   => mkNode (parent n) v (next n) (first n) (last n) (stamp n) (data n)
  | Fnext   => mkNode (parent n) (prev n) v (first n) (last n) (stamp n) (data n)
  | Ffirst  => mkNode (parent n) (prev n) (next n) v (last n) (stamp n) (data n)
  | Flast   => mkNode (parent n) (prev n) (next n) (first n) v (stamp n) (data n)
  end.

Definition set_stamp (s : Z) (n : node) : node :=
  mkNode (parent n) (prev n) (next n) (first n) (last n) s (data n).
Definition set_data (d : ndata) (n : node) : node :=
  mkNode (parent n) (prev n) (next n) (first n) (last n) (stamp n) d.

Definition fresh_node (s : Z) (d : ndata) : node := mkNode None None None None None s d.

Definition set_nodes (l : list node) (a : arena) : arena := mkArena l (ffree a) (lfree a).
Definition set_ffree (o : option nat) (a : arena) : arena := mkArena (nodes a) o (lfree a).
Definition set_lfree (o : option nat) (a : arena) : arena := mkArena (nodes a) (ffree a) o.

Fixpoint list_set {A} (i : nat) (x : A) (l : list A) : list A :=
  match l, i with
  | [], _ => []
  | _ :: t, O => x :: t
  | h :: t, S j => h :: list_set j x t
  end.

Definition is_some {A} (o : option A) : bool := match o with Some _ => true | None => false end.
Definition or_else {A} (o d : option A) : option A := match o with Some _ => o | None => d end.

(* ---------- results and the monad ---------- *)

(* Panic carries a small code naming the Rust panic site (for diagnostics only). *)
Inductive res (A : Type) := Ok (a : A) | Panic (code : N) | Diverge.
Arguments Ok {A} a.
Arguments Panic {A} code.
Arguments Diverge {A}.

(* mutating computations: the arena is kept on panic (C05/C12 speak about it) *)
Definition M (A : Type) := arena -> arena * res A.

Definition ret {A} (x : A) : M A := fun a => (a, Ok x).
Definition bind {A B} (m : M A) (k : A -> M B) : M B :=
  fun a => match m a with
           | (a', Ok x) => k x a'
           | (a', Panic c) => (a', Panic c)
           | (a', Diverge) => (a', Diverge)
           end.
Definition panic {A} (c : N) : M A := fun a => (a, Panic c).
Definition diverge {A} : M A := fun a => (a, Diverge).

Declare Scope mon_scope.
Delimit Scope mon_scope with mon.
Notation "x <- m ;; k" := (bind m (fun x => k)) (at level 61, m at next level, right associativity) : mon_scope.
Notation "' p <- m ;; k" := (bind m (fun p => k)) (at level 61, p pattern, m at next level, right associativity) : mon_scope.
Notation "m ;;; k" := (bind m (fun _ => k)) (at level 61, right associativity) : mon_scope.
Open Scope mon_scope.

(* panic codes *)
Definition P_INDEX : N := 1%N.          (* slice index out of bounds: arena[id] *)
Definition P_DEBUG_ASSERT : N := 2%N.   (* a debug_assert!/debug_assert_eq! *)
Definition P_TRIANGLE : N := 3%N.       (* assert_triangle_nodes *)
Definition P_EXPECT : N := 4%N.         (* .expect(..) on an internal Err *)
Definition P_PRECOND : N := 5%N.        (* "Preconditions not met" in the unchecked forms / append_value *)
Definition P_ASSERT : N := 6%N.         (* assert_eq! in remove *)
Definition P_UNREACHABLE : N := 7%N.    (* unreachable!() *)
Definition P_OVERFLOW : N := 8%N.       (* arithmetic overflow (debug builds) *)
Definition P_UNWRAP : N := 9%N.         (* Option::unwrap on None *)

(* arena[id] (read) : panics out of range *)
Definition rd (i : nat) : M node :=
  fun a => match nth_error (nodes a) i with
           | Some n => (a, Ok n)
           | None => (a, Panic P_INDEX)
           end.

(* arena[id].. = .. (write through IndexMut) : panics out of range *)
Definition upd (i : nat) (f : node -> node) : M unit :=
  fun a => match nth_error (nodes a) i with
           | Some n => (set_nodes (list_set i (f n) (nodes a)) a, Ok tt)
           | None => (a, Panic P_INDEX)
           end.

Definition rdi (x : nid) : M node := rd (idx x).
Definition updi (x : nid) (f : node -> node) : M unit := upd (idx x) f.

Definition get_arena : M arena := fun a => (a, Ok a).
Definition put_arena (a' : arena) : M unit := fun _ => (a', Ok tt).

(* debug_assert!(b) : active only in debug builds *)
Definition dassert (dbg : bool) (b : bool) : M unit :=
  if dbg then (if b then ret tt else panic P_DEBUG_ASSERT) else ret tt.
(* code that only runs under cfg!(debug_assertions) *)
Definition when_dbg (dbg : bool) (m : M unit) : M unit := if dbg then m else ret tt.

(* read-only computations *)
Definition R (A : Type) := arena -> res A.
Definition rret {A} (x : A) : R A := fun _ => Ok x.
Definition rbind {A B} (m : R A) (k : A -> R B) : R B :=
  fun a => match m a with Ok x => k x a | Panic c => Panic c | Diverge => Diverge end.
Definition rrd (i : nat) : R node :=
  fun a => match nth_error (nodes a) i with Some n => Ok n | None => Panic P_INDEX end.
Definition rrdi (x : nid) : R node := rrd (idx x).
Definition lift {A} (r : R A) : M A := fun a => (a, r a).

Declare Scope rd_scope.
Delimit Scope rd_scope with rd.
Notation "x <- m ;; k" := (rbind m (fun x => k)) (at level 61, m at next level, right associativity) : rd_scope.

(* fuel for walks along parent / sibling links: one more than the number of slots *)
Definition chain_fuel (a : arena) : nat := S (length (nodes a)).
(* fuel for edge traversals: every slot contributes at most two edges *)
Definition trav_fuel (a : arena) : nat := S (S (2 * length (nodes a))).
