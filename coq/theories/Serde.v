(* Serde.v — the serde data-model view of the derived Serialize/Deserialize impls
   (feature `deser`) for Arena, Node, NodeData, NodeId, NodeStamp.  MODEL ONLY.
   serde_derive's expansion is modelled, not verified; the correspondence check compares the
   real token stream with [encode]. *)
From IT Require Export ArenaM.

Inductive sname := NArena | NNode | NNodeId | NNodeStamp | NNodeData.
Inductive fname :=
  | Fnodes | Ffirst_free_slot | Flast_free_slot
  | Fparent_ | Fprevious_sibling | Fnext_sibling | Ffirst_child | Flast_child | Fstamp | Fdata
  | Findex1.
Inductive vname := VData | VNextFree.

Inductive tok :=
  | TStruct (n : sname) (nfields : nat)
  | TField (f : fname)
  | TSeq (n : nat)
  | TNone
  | TSome
  | TU (n : N)                       (* u64 / usize / NonZeroUsize *)
  | TI (z : Z)                       (* i16 *)
  | TNS (n : sname)                  (* newtype struct *)
  | TNV (v : vname)                  (* newtype variant of enum NodeData; index 0 = Data, 1 = NextFree *)
  | TEnd.

Definition enc_stamp (s : Z) : list tok := [TNS NNodeStamp; TI s].

Definition enc_id (x : nid) : list tok :=
  [TStruct NNodeId 2; TField Findex1; TU (N.of_nat (S (idx x))); TField Fstamp] ++ enc_stamp (gen x) ++ [TEnd].

Definition enc_oid (o : option nid) : list tok :=
  match o with None => [TNone] | Some x => TSome :: enc_id x end.

Definition enc_ousize (o : option nat) : list tok :=
  match o with None => [TNone] | Some k => [TSome; TU (N.of_nat k)] end.

Definition enc_data (d : ndata) : list tok :=
  match d with
  | Data v => [TNV VData; TU v]
  | NextFree o => TNV VNextFree :: enc_ousize o
  end.

Definition enc_node (n : node) : list tok :=
  [TStruct NNode 7]
  ++ TField Fparent_ :: enc_oid (parent n)
  ++ TField Fprevious_sibling :: enc_oid (prev n)
  ++ TField Fnext_sibling :: enc_oid (next n)
  ++ TField Ffirst_child :: enc_oid (first n)
  ++ TField Flast_child :: enc_oid (last n)
  ++ TField Fstamp :: enc_stamp (stamp n)
  ++ TField Fdata :: enc_data (data n)
  ++ [TEnd].

Definition encode (a : arena) : list tok :=
  [TStruct NArena 3; TField Fnodes; TSeq (length (nodes a))]
  ++ flat_map enc_node (nodes a) ++ [TEnd]
  ++ TField Ffirst_free_slot :: enc_ousize (ffree a)
  ++ TField Flast_free_slot :: enc_ousize (lfree a)
  ++ [TEnd].

(* ---- decoding ---- *)
Definition dec A := list tok -> option (A * list tok).

Definition sname_eqb (x y : sname) : bool :=
  match x, y with
  | NArena, NArena | NNode, NNode | NNodeId, NNodeId | NNodeStamp, NNodeStamp | NNodeData, NNodeData => true
  | _, _ => false end.
Definition fname_eqb (x y : fname) : bool :=
  match x, y with
  | Fnodes, Fnodes | Ffirst_free_slot, Ffirst_free_slot | Flast_free_slot, Flast_free_slot
  | Fparent_, Fparent_ | Fprevious_sibling, Fprevious_sibling | Fnext_sibling, Fnext_sibling
  | Ffirst_child, Ffirst_child | Flast_child, Flast_child | Fstamp, Fstamp | Fdata, Fdata
  | Findex1, Findex1 => true
  | _, _ => false end.

Definition dbind {A B} (d : dec A) (k : A -> dec B) : dec B :=
  fun ts => match d ts with Some (x, r) => k x r | None => None end.
Definition dret {A} (x : A) : dec A := fun ts => Some (x, ts).
Definition dfail {A} : dec A := fun _ => None.

Definition expect_tok (p : tok -> bool) : dec unit :=
  fun ts => match ts with t :: r => if p t then Some (tt, r) else None | [] => None end.

Definition is_struct (n : sname) (k : nat) (t : tok) : bool :=
  match t with TStruct m j => sname_eqb n m && Nat.eqb j k | _ => false end.
Definition is_field (f : fname) (t : tok) : bool :=
  match t with TField g => fname_eqb f g | _ => false end.
Definition is_end (t : tok) : bool := match t with TEnd => true | _ => false end.
Definition is_ns (n : sname) (t : tok) : bool := match t with TNS m => sname_eqb n m | _ => false end.

Definition in_u64 (n : N) : bool := (n <? 18446744073709551616)%N.

Definition dec_stamp : dec Z :=
  dbind (expect_tok (is_ns NNodeStamp)) (fun _ ts =>
    match ts with TI z :: r => if in_i16 z then Some (z, r) else None | _ => None end).

(* NonZeroUsize refuses 0 *)
Definition dec_id : dec nid :=
  dbind (expect_tok (is_struct NNodeId 2)) (fun _ =>
  dbind (expect_tok (is_field Findex1)) (fun _ ts =>
    match ts with
    | TU n :: r =>
        match N.to_nat n with
        | S i => dbind (expect_tok (is_field Fstamp)) (fun _ =>
                 dbind dec_stamp (fun s =>
                 dbind (expect_tok is_end) (fun _ => dret (mkId i s)))) r
        | O => None
        end
    | _ => None
    end)).

Definition dec_option {A} (d : dec A) : dec (option A) :=
  fun ts => match ts with
            | TNone :: r => Some (None, r)
            | TSome :: r => match d r with Some (x, r') => Some (Some x, r') | None => None end
            | _ => None
            end.

Definition dec_usize : dec nat :=
  fun ts => match ts with TU n :: r => Some (N.to_nat n, r) | _ => None end.

Definition dec_data : dec ndata :=
  fun ts => match ts with
            | TNV VData :: TU v :: r => Some (Data v, r)
            | TNV VNextFree :: r =>
                match dec_option dec_usize r with Some (o, r') => Some (NextFree o, r') | None => None end
            | _ => None
            end.

Definition dec_field {A} (f : fname) (d : dec A) : dec A :=
  dbind (expect_tok (is_field f)) (fun _ => d).

Definition dec_node : dec node :=
  dbind (expect_tok (is_struct NNode 7)) (fun _ =>
  dbind (dec_field Fparent_ (dec_option dec_id)) (fun p =>
  dbind (dec_field Fprevious_sibling (dec_option dec_id)) (fun pv =>
  dbind (dec_field Fnext_sibling (dec_option dec_id)) (fun nx =>
  dbind (dec_field Ffirst_child (dec_option dec_id)) (fun fc =>
  dbind (dec_field Flast_child (dec_option dec_id)) (fun lc =>
  dbind (dec_field Fstamp dec_stamp) (fun s =>
  dbind (dec_field Fdata dec_data) (fun d =>
  dbind (expect_tok is_end) (fun _ => dret (mkNode p pv nx fc lc s d)))))))))).

Fixpoint dec_seq {A} (d : dec A) (n : nat) : dec (list A) :=
  match n with
  | O => dret []
  | S k => dbind d (fun x => dbind (dec_seq d k) (fun xs => dret (x :: xs)))
  end.

Definition decode : dec arena :=
  dbind (expect_tok (is_struct NArena 3)) (fun _ =>
  dbind (expect_tok (is_field Fnodes)) (fun _ ts =>
    match ts with
    | TSeq n :: r =>
        dbind (dec_seq dec_node n) (fun ns =>
        dbind (expect_tok is_end) (fun _ =>
        dbind (dec_field Ffirst_free_slot (dec_option dec_usize)) (fun ff =>
        dbind (dec_field Flast_free_slot (dec_option dec_usize)) (fun lf =>
        dbind (expect_tok is_end) (fun _ => dret (mkArena ns ff lf)))))) r
    | _ => None
    end)).
