(* SrcSupport.v — the few definitions the regenerated files coq/gen/Gen{Stamp,Rel,Alloc,Ops,Trav}.v need
   beyond the model's own vocabulary.  MODEL ONLY (no proofs). *)
From IT Require Export NodeOps.
From Coq Require Import String.
Open Scope mon_scope.

(* what rs2coq emits for a function it cannot translate: the bridging theorems do not type-check on it *)
Inductive unsupported := Unsupported (reason : string).

(* `for x in vec { body }` without loop-carried variables and without early exit *)
Fixpoint mfor {A} (l : list A) (f : A -> M unit) : M unit :=
  match l with
  | [] => ret tt
  | x :: rest => f x ;;; mfor rest f
  end.

(* usize subtraction of two numbers obtained from addresses: debug builds panic on underflow, release builds wrap *)
Definition usub (dbg : bool) (x y : Z) : M Z :=
  if Z.leb y x then ret (x - y)%Z
  else if dbg then panic P_OVERFLOW else ret (x - y + 18446744073709551616)%Z.
