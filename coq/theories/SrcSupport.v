(* SrcSupport.v — the few definitions the regenerated files coq/gen/Gen{Stamp,Rel,Alloc,Ops,Trav}.v need
   beyond the model's own vocabulary.  MODEL ONLY (no proofs). *)
From IT Require Export Printer NodeOps.
From Coq Require Import String.
Open Scope mon_scope.

(* what rs2coq emits for a function it cannot translate: the bridging theorems do not type-check on it *)
Inductive unsupported := Unsupported (reason : string).

(* `for x in vec { body }` without loop-carried variables and without early exit *)
Fixpoint mfor {A} (l : list A) (f : A -> M unit) : M unit :=
  match l with
  | [] => ret tt
  | x :: rest => f x ;;; mfor rest f
  end.

(* usize subtraction of two numbers obtained from addresses: debug builds panic on underflow, release builds wrap *)
Definition usub (dbg : bool) (x y : Z) : M Z :=
  if Z.leb y x then ret (x - y)%Z
  else if dbg then panic P_OVERFLOW else ret (x - y + 18446744073709551616)%Z.

(* ---- the pretty printer's IndentWriter as rs2coq sees it: the sink is the byte list written so far (it never
   fails), `indents` is the Vec in ITS OWN order (the model keeps it reversed, as a stack) ---- *)
Record gwriter := mkGW { g_out : list N; g_lst : lstate; g_ind : list istate; g_pend : nat }.
Definition set_g_out (v : list N) (w : gwriter) : gwriter := mkGW v (g_lst w) (g_ind w) (g_pend w).
Definition set_g_lst (v : lstate) (w : gwriter) : gwriter := mkGW (g_out w) v (g_ind w) (g_pend w).
Definition set_g_ind (v : list istate) (w : gwriter) : gwriter := mkGW (g_out w) (g_lst w) v (g_pend w).
Definition set_g_pend (v : nat) (w : gwriter) : gwriter := mkGW (g_out w) (g_lst w) (g_ind w) v.

(* Vec::last / last_mut *)
Definition last_opt {A} (l : list A) : option A := match rev l with x :: _ => Some x | [] => None end.
Definition upd_last {A} (f : A -> A) (l : list A) : list A :=
  match rev l with x :: t => (rev t ++ [f x])%list | [] => [] end.
(* iter().rev().take_while(p).count() *)
Fixpoint count_while {A} (p : A -> bool) (l : list A) : nat :=
  match l with x :: t => if p x then S (count_while p t) else O | [] => O end.
Definition count_trailing {A} (p : A -> bool) (l : list A) : nat := count_while p (rev l).
(* str::find('\n') as a byte offset *)
Fixpoint find_nl (s : list N) : option nat :=
  match s with
  | [] => None
  | c :: t => if N.eqb c 10 then Some O else option_map S (find_nl t)
  end.
