(* AutoTraits.v — Rust's auto-trait rules (Send / Sync) for the small type language that
   tools/translate.py regenerates from the struct and enum definitions of the crate (C18).
   The rules themselves are the meaning of rustc's inference and are trusted (the harness
   cross-checks them against rustc with `assert_send_sync` instantiations). *)
From Coq Require Export String List Bool.
Export ListNotations.

Inductive ty :=
  | TVar (s : string)
  | TUsize | TI16 | TBool | TStr | TUnit | TNonZeroUsize
  | TFormatter                      (* core::fmt::Formatter: holds a `&mut dyn Write`, neither Send nor Sync *)
  | TFn                             (* fn pointers *)
  | TOption (t : ty) | TVec (t : ty)
  | TRef (t : ty) | TMutRef (t : ty) | TRawPtr (t : ty)
  | TAdt (n : string) (args : list ty)
  | TUnknown (s : string).          (* anything the translator could not read: never Send, never Sync *)

Record adt := mkAdt { adt_name : string; adt_params : list string; adt_fields : list (string * ty) }.

Fixpoint lookup_var (s : string) (l : list (string * (bool * bool))) : bool * bool :=
  match l with
  | [] => (false, false)
  | (k, v) :: r => if String.eqb k s then v else lookup_var s r
  end.

Definition both (l : list (bool * bool)) : bool * bool :=
  (forallb fst l, forallb snd l).

(* (is Send, is Sync) of a type, under an assignment for the type variables in scope *)
Fixpoint auto (fuel : nat) (env : list adt) (rho : list (string * (bool * bool))) (t : ty) : bool * bool :=
  match fuel with
  | O => (false, false)
  | S f =>
      match t with
      | TVar s => lookup_var s rho
      | TUsize | TI16 | TBool | TStr | TUnit | TNonZeroUsize | TFn => (true, true)
      | TFormatter | TRawPtr _ | TUnknown _ => (false, false)
      | TOption u | TVec u => auto f env rho u
      | TRef u => let r := auto f env rho u in (snd r, snd r)        (* &U: Send iff U: Sync; Sync iff U: Sync *)
      | TMutRef u => auto f env rho u                                 (* &mut U: Send iff U: Send; Sync iff U: Sync *)
      | TAdt n args =>
          match find (fun d => String.eqb (adt_name d) n) env with
          | None => (false, false)
          | Some d =>
              let vals := map (auto f env rho) args in
              if Nat.eqb (length vals) (length (adt_params d)) then
                both (map (fun ft => auto f env (combine (adt_params d) vals) (snd ft)) (adt_fields d))
              else (false, false)
          end
      end
  end.

(* is the generic type `name<T>` (or `name` when it has no parameter) Send and Sync, given T: Send + Sync? *)
Definition send_sync_given (env : list adt) (name : string) (t_send t_sync : bool) : bool * bool :=
  match find (fun d => String.eqb (adt_name d) name) env with
  | None => (false, false)
  | Some d => auto 32 env [("T"%string, (t_send, t_sync))] (TAdt name (map TVar (adt_params d)))
  end.
