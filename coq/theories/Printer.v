(* Printer.v — debug_pretty_print.rs: the IndentWriter line-state machine and the four
   Display/Debug drivers.  MODEL ONLY.  Text is a list of bytes (N); '\n' = 10. *)
From IT Require Export Traverse.
Open Scope rd_scope.

Definition bytes := list N.
Definition NL : N := 10%N.
Definition SP : N := 32%N.
Definition BAR : N := 124%N.      (* '|' *)
Definition DASH : N := 45%N.      (* '-' *)
Definition TICK : N := 96%N.      (* '`' *)

(* IndentedBlockState { is_last_item, is_first_line } *)
Definition istate := (bool * bool)%type.

Definition as_str (i : istate) : bytes :=
  match i with
  | (false, true) => [BAR; DASH; DASH; SP]
  | (false, false) => [BAR; SP; SP; SP]
  | (true, true) => [TICK; DASH; DASH; SP]
  | (true, false) => [SP; SP; SP; SP]
  end.
Definition as_str_leading (i : istate) : bytes :=
  match i with
  | (false, true) => [BAR; DASH; DASH]
  | (false, false) => [BAR]
  | (true, true) => [TICK; DASH; DASH]
  | (true, false) => []
  end.
Definition as_str_trailing_spaces (i : istate) : bytes :=
  match i with
  | (_, true) => [SP]
  | (false, false) => [SP; SP; SP]
  | (true, false) => [SP; SP; SP; SP]
  end.
Definition is_all_whitespace (i : istate) : bool := fst i && negb (snd i).

Inductive lstate := BeforeIndent | PartialIndent | Content.
Definition lstate_eqb (x y : lstate) : bool :=
  match x, y with
  | BeforeIndent, BeforeIndent | PartialIndent, PartialIndent | Content, Content => true
  | _, _ => false
  end.

(* IndentWriter.  [indents] is the Vec with its LAST element at the HEAD of the list (a stack). *)
Record writer := mkWriter {
  out : bytes;
  lst : lstate;
  indents : list istate;
  pending : nat }.

Definition writer_new : writer := mkWriter [] BeforeIndent [] 0.

Definition set_top_first_line (f : bool -> bool) (st : list istate) : list istate :=
  match st with
  | (l, fl) :: t => (l, f fl) :: t
  | [] => []
  end.

(* fn open_item(&mut self, is_last_item) *)
Definition open_item (is_last : bool) (w : writer) : writer :=
  let w1 := if lstate_eqb (lst w) BeforeIndent then w
            else mkWriter (out w ++ [NL]) BeforeIndent (indents w) 0 in
  mkWriter (out w1) (lst w1) ((is_last, true) :: set_top_first_line (fun _ => false) (indents w1)) (pending w1).

(* fn close_item(&mut self) -> Result<(), ()> *)
Definition close_item (w : writer) : option writer :=
  match indents w with
  | _ :: t => Some (mkWriter (out w) (lst w) t (pending w))
  | [] => None
  end.

Fixpoint count_leading_ws (st : list istate) : nat :=
  match st with
  | i :: t => if is_all_whitespace i then S (count_leading_ws t) else 0
  | [] => 0
  end.

(* all but the last with as_str, the last with as_str_leading ([l] in Vec order) *)
Fixpoint indent_prefix (l : list istate) : bytes :=
  match l with
  | [] => []
  | [x] => as_str_leading x
  | x :: t => as_str x ++ indent_prefix t
  end.

(* fn write_indent_partial(&mut self) *)
Definition write_indent_partial (w : writer) : writer :=
  let p := count_leading_ws (indents w) in
  let to_print := rev (skipn p (indents w)) in
  mkWriter (out w ++ indent_prefix to_print) (lst w) (indents w) p.

Fixpoint repeat_bytes (n : nat) (b : bytes) : bytes :=
  match n with O => [] | S k => b ++ repeat_bytes k b end.

(* fn complete_partial_indent(&mut self).  `indents.len() - pending` is a usize subtraction:
   it cannot go below zero without a panic (debug: overflow; release: wrapped index out of range). *)
Definition complete_partial_indent (dbg : bool) (w : writer) : res writer :=
  if dbg && negb (lstate_eqb (lst w) PartialIndent) then Panic P_DEBUG_ASSERT
  else if Nat.ltb (length (indents w)) (pending w) then Panic P_OVERFLOW
  else
    let trailing := match nth_error (indents w) (pending w) with
                    | Some i => as_str_trailing_spaces i
                    | None => []
                    end in
    Ok (mkWriter (out w ++ trailing ++ repeat_bytes (pending w) [SP; SP; SP; SP]) (lst w) (indents w) 0).

(* split at newlines: each segment is `&s[..line_end]` of one iteration of the while loop *)
Fixpoint segs (s : bytes) (cur : bytes) : list (bytes * bool) :=
  match s with
  | [] => match cur with [] => [] | _ => [(rev cur, false)] end
  | c :: s' => if N.eqb c NL then (rev (c :: cur), true) :: segs s' [] else segs s' (c :: cur)
  end.

Definition write_seg (dbg : bool) (seg : bytes * bool) (w : writer) : res writer :=
  let '(content, ends_nl) := seg in
  let w1 := if lstate_eqb (lst w) BeforeIndent
            then let w' := write_indent_partial w in mkWriter (out w') PartialIndent (indents w') (pending w')
            else w in
  match (if lstate_eqb (lst w1) PartialIndent then complete_partial_indent dbg w1 else Ok w1) with
  | Ok w2 =>
      Ok (mkWriter (out w2 ++ content)
                   (if ends_nl then BeforeIndent else Content)
                   (set_top_first_line (fun fl => fl && negb ends_nl) (indents w2))
                   (pending w2))
  | Panic c => Panic c
  | Diverge => Diverge
  end.

Fixpoint write_segs (dbg : bool) (l : list (bytes * bool)) (w : writer) : res writer :=
  match l with
  | [] => Ok w
  | sg :: t => match write_seg dbg sg w with
               | Ok w' => write_segs dbg t w'
               | Panic c => Panic c
               | Diverge => Diverge
               end
  end.

(* impl fmt::Write for IndentWriter: fn write_str(&mut self, s) *)
Definition write_str (dbg : bool) (s : bytes) (w : writer) : res writer := write_segs dbg (segs s []) w.

(* a payload's fmt impl = the sequence of write_str calls it makes *)
Fixpoint write_chunks (dbg : bool) (chunks : list bytes) (w : writer) : res writer :=
  match chunks with
  | [] => Ok w
  | c :: t => match write_str dbg c w with
              | Ok w' => write_chunks dbg t w'
              | Panic c => Panic c
              | Diverge => Diverge
              end
  end.

(* rendering of payloads: mode 0 = {}, 1 = {:#}, 2 = {:?}, 3 = {:#?} *)
Definition rendering := N -> nat -> list bytes.

(* Node::get: unreachable!() on a freed node *)
Definition payload_of (x : nid) : R N :=
  n <- rrdi x ;; match data n with Data v => rret v | NextFree _ => fun _ => Panic P_UNREACHABLE end.

Definition liftw (r : res writer) : R writer := fun _ => r.

(* Traverse as a stepping iterator: state = self.next *)
Definition trav_step (root : nid) (cur : option edge) : R (option edge * option edge) :=
  match cur with
  | None => rret (None, None)
  | Some e => nn <- (if edge_eqb e (End_ root) then rret None else next_traverse e) ;; rret (Some e, nn)
  end.

(* fn prepare_next_node_printing(writer, traverser) -> Option<NodeId>, looped by the driver *)
Fixpoint print_loop (dbg : bool) (rend : rendering) (mode : nat) (fuel : nat) (root : nid)
         (cur : option edge) (w : writer) : R writer :=
  match fuel with
  | O => fun _ => Diverge
  | S f =>
      r <- trav_step root cur ;;
      match r with
      | (None, _) => rret w                                   (* traverser exhausted: Ok(None) *)
      | (Some (End_ _), cur') =>
          match close_item w with
          | Some w' => print_loop dbg rend mode f root cur' w'   (* closed a non-root node: continue *)
          | None => rret w                                    (* closed the root: break *)
          end
      | (Some (Start id), cur') =>
          n <- rrdi id ;;
          let w1 := open_item (negb (is_some (next n))) w in
          v <- payload_of id ;;
          w2 <- liftw (write_chunks dbg (rend v mode) w1) ;;
          print_loop dbg rend mode f root cur' w2
      end
  end.

(* impl Display/Debug for DebugPrettyPrint: the four modes share one shape *)
Definition pretty_print (dbg : bool) (rend : rendering) (mode : nat) (x : nid) : R bytes :=
  fun a =>
    (r <- trav_step x (Some (Start x)) ;;                      (* traverser.next(): the root's Start *)
     v <- payload_of x ;;
     w1 <- liftw (write_chunks dbg (rend v mode) writer_new) ;;
     w <- print_loop dbg rend mode (trav_fuel a) x (snd r) w1 ;;
     rret (out w)) a.
