(* MacroModel.v — indextree-macros: the `tree!` flattening loop and the program it expands to.
   MODEL ONLY.  syn's parser and quote!'s splicing are not modelled; the correspondence check
   compiles real macro invocations. *)
From IT Require Export World.
Open Scope mon_scope.

(* IndexNode { node: Expr, children }.  An expression is a payload token; evaluating it is logged. *)
Inductive lit := L (e : N) (kids : list lit).

Inductive action := AAppend (e : N) | AParent | ANest.

Fixpoint lit_size (t : lit) : nat :=
  match t with L _ ks => S ((fix go (l : list lit) : nat := match l with [] => 0%nat | k :: r => (lit_size k + go r)%nat end) ks) end.
Definition lits_size (l : list lit) : nat := fold_right (fun t n => (lit_size t + n)%nat) 0%nat l.

(* the `while let Some(item) = stack.pop()` loop; the Vec's END is the HEAD of [stack] *)
Fixpoint flatten_loop (fuel : nat) (stack : list (lit + unit)) (acc : list action) : option (list action) :=
  match stack with
  | [] => Some acc
  | item :: rest =>
      match fuel with
      | O => None
      | S f =>
          match item with
          | inr tt => flatten_loop f rest (acc ++ [AParent])
          | inl (L e children) =>
              match children with
              | [] => flatten_loop f rest (acc ++ [AAppend e])
              | _ => flatten_loop f (map inl children ++ inr tt :: rest) (acc ++ [AAppend e; ANest])
              end
          end
      end
  end.

Definition same_kind (x y : action) : bool :=
  match x, y with
  | AAppend _, AAppend _ | AParent, AParent | ANest, ANest => true
  | _, _ => false
  end.

(* itertools::coalesce of equal-kind neighbours: maximal runs *)
Fixpoint group_runs (l : list action) : list (list action) :=
  match l with
  | [] => []
  | x :: t =>
      match group_runs t with
      | (y :: ys) :: gs => if same_kind x y then (x :: y :: ys) :: gs else [x] :: (y :: ys) :: gs
      | gs => [x] :: gs
      end
  end.

Definition is_parent_run (g : list action) : bool :=
  match g with AParent :: _ => true | _ => false end.

(* `if is_last_action_useless { actions.pop(); }` *)
Definition drop_useless_last (gs : list (list action)) : list (list action) :=
  match rev gs with
  | g :: r => if is_parent_run g then rev r else gs
  | [] => gs
  end.

Definition flatten (nodes : list lit) : option (list action) :=
  match flatten_loop (S (2 * lits_size nodes)%nat) (map inl nodes) [] with
  | Some acts => Some (concat (drop_useless_last (group_runs acts)))
  | None => None
  end.

(* the expanded program: registers __node, __last; evaluation log of expressions *)
Record mstate := mkMState { m_node : nid; m_last : option nid; m_log : list N; m_new : list nid }.

Definition exec_action (dbg : bool) (act : action) (s : mstate) : M mstate :=
  match act with
  | AAppend e =>
      x <- append_value dbg (m_node s) e ;;
      ret (mkMState (m_node s) (Some x) (m_log s ++ [e]) (m_new s ++ [x]))
  | AParent =>
      a <- get_arena ;;
      match get a (m_node s) with                       (* Arena::get(..).unwrap() *)
      | Some n =>
          match parent n with                           (* Node::parent(..).unwrap() *)
          | Some p => ret (mkMState p (m_last s) (m_log s) (m_new s))
          | None => panic P_UNWRAP
          end
      | None => panic P_UNWRAP
      end
  | ANest =>
      match m_last s with
      | Some l => ret (mkMState l (m_last s) (m_log s) (m_new s))
      | None => panic P_UNREACHABLE                     (* rustc rejects use of unassigned __last *)
      end
  end.

Fixpoint exec_actions (dbg : bool) (acts : list action) (s : mstate) : M mstate :=
  match acts with
  | [] => ret s
  | act :: t => s' <- exec_action dbg act s ;; exec_actions dbg t s'
  end.

Inductive rootform := RootId (r : nid) | RootValue (v : N).

(* tree!(arena, root => { nodes }) : returns (root id, evaluation log, ids of created nodes) *)
Definition tree_macro (dbg : bool) (root : rootform) (nodes : list lit) : M (nid * list N * list nid) :=
  match flatten nodes with
  | None => diverge
  | Some acts =>
      '(r, log0, new0) <- match root with
                          | RootId r => ret (r, [], [])
                          | RootValue v => x <- new_node dbg v ;; ret (x, [v], [x])
                          end ;;
      s <- exec_actions dbg acts (mkMState r None log0 new0) ;;
      ret (r, m_log s, m_new s)
  end.

(* the whole expansion including the order in which the macro's own arguments are evaluated:
   `let __arena = #arena;` first, then `#root_node`, then the actions.  [amark] is the token logged
   by evaluating the arena expression, [rmark] the one logged by evaluating a NodeId root expression
   (a value root logs its own payload token). *)
Definition tree_macro_full (dbg : bool) (amark : N) (rmark : N) (root : rootform) (nodes : list lit)
  : M (nid * list N * list nid) :=
  '(r, log, new) <- tree_macro dbg root nodes ;;
  ret (r, amark :: (match root with RootId _ => [rmark] | RootValue _ => [] end) ++ log, new).
