(* Props.v — specification vocabulary of the state-level property theorems (C01, C02, C08, C09, C12).
   Definitions only. *)
From IT Require Export Monitor.

(* the global invariant of reachable worlds *)
Definition WF (w : world) : Prop := (exists F, Repr (ar w) F) /\ AllocOK w.

(* ---------- C01: what "the links describe a well-formed ordered forest" means ---------- *)
Definition LinksOK (a : arena) : Prop :=
  forall x n, live a x -> node_at a x n ->
    (* no link names a removed node or an id of an earlier generation *)
    (forall f z, getf f n = Some z -> live a z) /\
    (* y is the next sibling of x exactly when x is the previous sibling of y; siblings share the parent *)
    (forall y, next n = Some y -> exists m, node_at a y m /\ prev m = Some x /\ parent m = parent n) /\
    (forall y, prev n = Some y -> exists m, node_at a y m /\ next m = Some x /\ parent m = parent n) /\
    (* a first child exactly when a last child *)
    (first n = None <-> last n = None) /\
    (* first/last child are the two ends of the sibling chain made of exactly the nodes naming x as parent *)
    (exists ch, dseg a (Some x) None ch None /\ NoDup ch /\
                first n = hd_error ch /\ last n = last_error ch /\
                (forall c, In c ch <-> (live a c /\ exists m, node_at a c m /\ parent m = Some x))).

(* ---------- paths along a link (C02, C09) ---------- *)
(* l = x, link x, link (link x), ... up to and including the first node whose link is None *)
Fixpoint is_path (a : arena) (link : node -> option nid) (x : nid) (l : list nid) : Prop :=
  match l with
  | [] => False
  | y :: r => y = x /\ exists n, node_at a x n /\
                match r with
                | [] => link n = None
                | z :: _ => link n = Some z /\ is_path a link z r
                end
  end.

Definition pred_link (n : node) : option nid := or_else (prev n) (parent n).

(* ---------- C08: payload accounting ---------- *)
(* the payload tokens that successful calls of a history put into the arena, in call order *)
Fixpoint introduced (dbg : bool) (ops : list op) (w : world) : list N :=
  match ops with
  | [] => []
  | o :: r =>
      let res := step dbg w o in
      (match o, snd res with
       | ONew v, OutId _ => [v]
       | OAppendValue _ v, OutId _ => [v]
       | OWrite _ v, OutUnit => [v]
       | _, _ => []
       end) ++ introduced dbg r (fst res)
  end.

Definition payload_of_id (a : arena) (x : nid) : option N :=
  match nth_error (nodes a) (idx x) with
  | Some n => match data n with Data v => Some v | NextFree _ => None end
  | None => None
  end.
