(* ArenaM.v — arena.rs: allocation, the intrusive free list, lookups.  MODEL ONLY. *)
From IT Require Export Stamp.

Definition liftres {A} (r : res A) : M A := fun a => (a, r).

Definition count (a : arena) : nat := length (nodes a).
Definition is_empty (a : arena) : bool := Nat.eqb (count a) 0.

(* fn get(&self, id) -> Option<&Node<T>> { self.nodes.get(id.index0()) } *)
Definition get (a : arena) (x : nid) : option node := nth_error (nodes a) (idx x).

(* Node::is_removed *)
Definition node_is_removed (n : node) : bool := st_is_removed (stamp n).

(* NodeId::is_removed:  arena[self].stamp != self.stamp   (panics out of range) *)
Definition id_is_removed (x : nid) : R bool :=
  fun a => match nth_error (nodes a) (idx x) with
           | Some n => Ok (negb (Z.eqb (stamp n) (gen x)))
           | None => Panic P_INDEX
           end.

(* fn get_node_id_at(&self, index: NonZeroUsize) -> Option<NodeId>; [index1] >= 1 *)
Definition get_node_id_at (a : arena) (index1 : nat) : option nid :=
  match index1 with
  | O => None
  | S index0 =>
      match nth_error (nodes a) index0 with
      | Some n => if node_is_removed n then None else Some (mkId index0 (stamp n))
      | None => None
      end
  end.

(* fn pop_front_free_node(&mut self) -> Option<usize> *)
Definition pop_front_free_node : M (option nat) :=
  a <- get_arena ;;
  let first := ffree a in
  put_arena (set_ffree None a) ;;;                 (* self.first_free_slot.take() *)
  match first with
  | Some index =>
      n <- rd index ;;
      match data n with
      | NextFree nf =>
          a1 <- get_arena ;; put_arena (set_ffree nf a1) ;;;
          (if is_some nf then ret tt
           else (a2 <- get_arena ;; put_arena (set_lfree None a2))) ;;;
          ret first
      | Data _ => panic P_UNREACHABLE
      end
  | None => ret first
  end.

(* Node::reuse(&mut self, data) on slot [index] *)
Definition node_reuse (dbg : bool) (index : nat) (v : N) : M Z :=
  n <- rd index ;;
  dassert dbg (match data n with NextFree _ => true | Data _ => false end) ;;;
  dassert dbg (node_is_removed n) ;;;
  s' <- liftres (st_reuse dbg (stamp n)) ;;
  upd index (fun _ => fresh_node s' (Data v)) ;;;
  ret s'.

(* fn new_node(&mut self, data: T) -> NodeId *)
Definition new_node (dbg : bool) (v : N) : M nid :=
  o <- pop_front_free_node ;;
  match o with
  | Some index =>
      s <- node_reuse dbg index v ;;
      ret (mkId index s)
  | None =>
      a <- get_arena ;;
      let index := length (nodes a) in
      put_arena (set_nodes (nodes a ++ [fresh_node 0 (Data v)]) a) ;;;
      ret (mkId index 0)
  end.

(* fn free_node(&mut self, id: NodeId).  Returns the payload that the assignment
   `node.data = NodeData::NextFree(None)` drops (Rust drop semantics made explicit). *)
Definition free_node (dbg : bool) (x : nid) : M (option N) :=
  n <- rdi x ;;
  let old := match data n with Data v => Some v | NextFree _ => None end in
  updi x (set_data (NextFree None)) ;;;
  s' <- liftres (st_as_removed dbg (stamp n)) ;;
  updi x (set_stamp s') ;;;
  r <- liftres (st_reuseable dbg s') ;;
  (if r : bool then
     a <- get_arena ;;
     match lfree a with
     | Some index =>
         upd index (set_data (NextFree (Some (idx x)))) ;;;
         a1 <- get_arena ;; put_arena (set_lfree (Some (idx x)) a1)
     | None =>
         dassert dbg (negb (is_some (ffree a))) ;;;
         a1 <- get_arena ;;
         put_arena (set_lfree (Some (idx x)) (set_ffree (Some (idx x)) a1))
     end
   else ret tt) ;;;
  ret old.

(* fn clear(&mut self): returns the payloads dropped by Vec::clear, in slot order *)
Definition payloads (l : list node) : list N :=
  flat_map (fun n => match data n with Data v => [v] | NextFree _ => [] end) l.

Definition clear : M (list N) :=
  a <- get_arena ;;
  put_arena empty_arena ;;;
  ret (payloads (nodes a)).

(* *arena[id].get_mut() = v : returns the dropped old payload.
   Node::get_mut hits unreachable!() on a freed slot. *)
Definition write_payload (x : nid) (v : N) : M N :=
  n <- rdi x ;;
  match data n with
  | Data old => updi x (set_data (Data v)) ;;; ret old
  | NextFree _ => panic P_UNREACHABLE
  end.

(* walk of the free list from first_free_slot, in allocation order (observation only) *)
Fixpoint free_walk (fuel : nat) (a : arena) (cur : option nat) : list nat :=
  match cur, fuel with
  | None, _ => []
  | Some _, O => []
  | Some i, S f =>
      i :: match nth_error (nodes a) i with
           | Some n => match data n with NextFree nf => free_walk f a nf | Data _ => [] end
           | None => []
           end
  end.
Definition free_list (a : arena) : list nat := free_walk (length (nodes a)) a (ffree a).
