(* Relations.v — relations.rs and siblings_range.rs: the only writers of structural links.
   MODEL ONLY.  One Gallina function per Rust function, same control flow. *)
From IT Require Export ArenaM.

Inductive conserr := ParentChildLoop | SiblingsLoop.     (* error.rs: ConsistencyError *)
Inductive cres := COk | CErr (e : conserr).              (* Result<(), ConsistencyError> *)

(* Result::expect(..) *)
Definition expect (r : cres) : M unit :=
  match r with COk => ret tt | CErr _ => panic P_EXPECT end.

Definition assert_eq_onid (x y : option nid) : M unit :=
  if onid_eqb x y then ret tt else panic P_TRIANGLE.

(* fn assert_triangle_nodes(arena, parent, previous, next) *)
Definition assert_triangle_nodes (par pv nx : option nid) : M unit :=
  (match pv with
   | Some p => n <- rdi p ;;
               assert_eq_onid (parent n) par ;;;
               assert_eq_onid (next n) nx
   | None => ret tt
   end) ;;;
  (match nx with
   | Some x => n <- rdi x ;;
               assert_eq_onid (parent n) par ;;;
               assert_eq_onid (prev n) pv
   | None => ret tt
   end).

(* debug_assert_triangle_nodes! *)
Definition dtriangle (dbg : bool) (par pv nx : option nid) : M unit :=
  when_dbg dbg (assert_triangle_nodes par pv nx).

(* the recurring debug block
     if let Some(parent_node) = parent.map(|id| &arena[id]) {
         debug_assert_eq!(parent_node.first_child.is_some(), parent_node.last_child.is_some()); .. } *)
Definition dparent_ends_agree (par : option nid) : M unit :=
  match par with
  | Some p => n <- rdi p ;;
              if Bool.eqb (is_some (first n)) (is_some (last n)) then ret tt
              else panic P_DEBUG_ASSERT
  | None => ret tt
  end.

Definition dnot_removed (o : option nid) : M unit :=
  match o with
  | Some x => n <- rdi x ;; if node_is_removed n then panic P_DEBUG_ASSERT else ret tt
  | None => ret tt
  end.

(* fn connect_neighbors(arena, parent, previous, next) *)
Definition connect_neighbors (dbg : bool) (par pv nx : option nid) : M unit :=
  when_dbg dbg (dparent_ends_agree par ;;; dnot_removed par ;;; dnot_removed pv ;;; dnot_removed nx) ;;;
  '(pfc, plc) <- match par with
                 | Some p => n <- rdi p ;; ret (first n, last n)
                 | None => ret (None, None)
                 end ;;
  pfc' <- match pv with
          | Some p => updi p (setf Fnext nx) ;;; ret (or_else pfc (Some p))
          | None => ret nx
          end ;;
  plc' <- match nx with
          | Some x => updi x (setf Fprev pv) ;;; ret (or_else plc (Some x))
          | None => ret pv
          end ;;
  (match par with
   | Some p =>
       dassert dbg (Bool.eqb (is_some pfc') (is_some plc')) ;;;
       updi p (fun n => setf Flast plc' (setf Ffirst pfc' n))
   | None => ret tt
   end) ;;;
  dtriangle dbg par pv nx.

(* SiblingsRange::detach_from_siblings(self = (first,last)) *)
Definition detach_from_siblings (dbg : bool) (fst_ lst_ : nid) : M unit :=
  nf <- rdi fst_ ;;
  let par := parent nf in
  let prev_of_range := prev nf in
  updi fst_ (setf Fprev None) ;;;                 (* .previous_sibling.take() *)
  nl <- rdi lst_ ;;
  let next_of_range := next nl in
  updi lst_ (setf Fnext None) ;;;                 (* .next_sibling.take() *)
  connect_neighbors dbg par prev_of_range next_of_range ;;;
  when_dbg dbg (
    nf' <- rdi fst_ ;; dassert true (onid_eqb (prev nf') None) ;;;
    nl' <- rdi lst_ ;; dassert true (onid_eqb (next nl') None) ;;;
    assert_triangle_nodes par prev_of_range next_of_range ;;;
    match par with
    | Some p =>
        np <- rdi p ;;
        dassert true (Bool.eqb (is_some (first np)) (is_some (last np))) ;;;
        assert_triangle_nodes par None (first np) ;;;
        assert_triangle_nodes par (last np) None
    | None => ret tt
    end).

(* DetachedSiblingsRange::rewrite_parents: the `while let Some(child) = child_opt` loop *)
Fixpoint rewrite_parents_loop (fuel : nat) (child_opt : option nid) (new_parent : option nid) : M cres :=
  match child_opt with
  | None => ret COk
  | Some child =>
      match fuel with
      | O => diverge
      | S f =>
          if onid_eqb (Some child) new_parent then ret (CErr ParentChildLoop)
          else
            updi child (setf Fparent new_parent) ;;;
            n <- rdi child ;;
            rewrite_parents_loop f (next n) new_parent
      end
  end.

Definition rewrite_parents (fst_ : nid) (new_parent : option nid) : M cres :=
  a <- get_arena ;;
  rewrite_parents_loop (chain_fuel a) (Some fst_) new_parent.

(* DetachedSiblingsRange::transplant(self = (first,last), arena, parent, previous_sibling, next_sibling) *)
Definition transplant (dbg : bool) (fst_ lst_ : nid) (par pv nx : option nid) : M cres :=
  when_dbg dbg (
    (match pv with
     | Some p => n <- rdi p ;; dassert true (onid_eqb (parent n) par)
     | None => ret tt end) ;;;
    (match nx with
     | Some x => n <- rdi x ;; dassert true (onid_eqb (parent n) par)
     | None => ret tt end) ;;;
    assert_triangle_nodes par pv nx ;;;
    dparent_ends_agree par) ;;;
  r <- rewrite_parents fst_ par ;;
  match r with
  | CErr e => ret (CErr e)                         (* the `?` *)
  | COk =>
      connect_neighbors dbg par pv (Some fst_) ;;;
      connect_neighbors dbg par (Some lst_) nx ;;;
      when_dbg dbg (
        assert_triangle_nodes par pv (Some fst_) ;;;
        assert_triangle_nodes par (Some lst_) nx ;;;
        match par with
        | Some p =>
            np <- rdi p ;;
            dassert true (is_some (first np) && is_some (last np)) ;;;
            assert_triangle_nodes par None (first np) ;;;
            assert_triangle_nodes par (last np) None
        | None => ret tt
        end) ;;;
      ret COk
  end.

(* fn insert_with_neighbors(arena, new, parent, previous_sibling, next_sibling) *)
Definition insert_with_neighbors (dbg : bool) (new : nid) (par pv nx : option nid) : M cres :=
  dtriangle dbg par pv nx ;;;
  if onid_eqb pv (Some new) || onid_eqb nx (Some new) then ret (CErr SiblingsLoop)
  else if onid_eqb par (Some new) then ret (CErr ParentChildLoop)
  else
    detach_from_siblings dbg new new ;;;
    r <- transplant dbg new new par pv nx ;;
    expect r ;;;
    dtriangle dbg par pv (Some new) ;;;
    dtriangle dbg par (Some new) nx ;;;
    ret COk.

(* fn insert_last_unchecked(arena, new, parent) *)
Definition insert_last_unchecked (dbg : bool) (new par : nid) : M unit :=
  np <- rdi par ;;
  let previous_sibling := last np in
  r <- transplant dbg new new (Some par) previous_sibling None ;;
  expect r ;;;
  dtriangle dbg (Some par) previous_sibling (Some new).
