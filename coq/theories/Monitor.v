(* Monitor.v — executable (boolean) versions of the property statements, evaluated by the
   correspondence check on the states OBSERVED ON THE IMPLEMENTATION (parsed from its dumps).
   They restate the properties over computed views of an arena; no model function of the
   operations is involved except the abstract forest operations of Forest.v.
   Definitions only.  Each check returns the list of codes of the clauses that FAILED. *)
From IT Require Export Alloc.
Open Scope nat_scope.

Definition node_of (a : arena) (x : nid) : option node := nth_error (nodes a) (idx x).

(* x is the current id of a live slot *)
Definition live_b (a : arena) (x : nid) : bool :=
  match node_of a x with Some n => Z.eqb (stamp n) (gen x) && (0 <=? stamp n)%Z | None => false end.
Definition slot_removed_b (a : arena) (x : nid) : bool :=
  match node_of a x with Some n => (stamp n <? 0)%Z | None => false end.

Fixpoint slots_from (k : nat) (l : list node) : list (nid * node) :=
  match l with [] => [] | n :: r => (mkId k (stamp n), n) :: slots_from (S k) r end.
Definition slots (a : arena) : list (nid * node) := slots_from 0 (nodes a).
Definition live_slots (a : arena) : list (nid * node) := filter (fun xn => (0 <=? stamp (snd xn))%Z) (slots a).
Definition live_ids (a : arena) : list nid := map fst (live_slots a).

(* follow [link] from [cur]; None if it does not end within [fuel] steps *)
Fixpoint walk_b (link : node -> option nid) (fuel : nat) (a : arena) (cur : option nid) : option (list nid) :=
  match cur with
  | None => Some []
  | Some x =>
      match fuel with
      | O => None
      | S f => match node_of a x with
               | Some n => option_map (cons x) (walk_b link f a (link n))
               | None => None
               end
      end
  end.

Fixpoint nodup_b (l : list nid) : bool :=
  match l with [] => true | x :: r => negb (nid_in x r) && nodup_b r end.
Definition same_list (l1 l2 : list nid) : bool :=
  Nat.eqb (length l1) (length l2) && forallb (fun p => nid_eqb (fst p) (snd p)) (combine l1 l2).
Definition olink_live (a : arena) (o : option nid) : bool := match o with Some z => live_b a z | None => true end.
Definition last_opt (l : list nid) : option nid := match l with [] => None | x :: r => Some (List.last r x) end.

(* ---------- C01: links of live nodes describe a well-formed ordered forest ---------- *)
(* codes: 1 a link names a non-live id; 2 next/prev not mutual; 3 siblings disagree on parent;
   4 first/last not both present or absent; 5 children chain does not end / has duplicates;
   6 chain end is not last_child; 7 chain member does not name the parent (or first has a prev);
   8 a node naming the parent is not on its chain *)
Definition c01_node (a : arena) (xn : nid * node) : list N :=
  let (x, n) := xn in
  (if forallb (olink_live a) [parent n; prev n; next n; first n; last n] then [] else [1%N]) ++
  (match next n with
   | Some y => match node_of a y with
               | Some m => (if onid_eqb (prev m) (Some x) then [] else [2%N]) ++
                           (if onid_eqb (parent m) (parent n) then [] else [3%N])
               | None => [1%N] end
   | None => [] end) ++
  (match prev n with
   | Some y => match node_of a y with
               | Some m => (if onid_eqb (next m) (Some x) then [] else [2%N]) ++
                           (if onid_eqb (parent m) (parent n) then [] else [3%N])
               | None => [1%N] end
   | None => [] end) ++
  (if Bool.eqb (is_some (first n)) (is_some (last n)) then [] else [4%N]) ++
  (match walk_b next (S (length (nodes a))) a (first n) with
   | None => [5%N]
   | Some ch =>
       (if nodup_b ch then [] else [5%N]) ++
       (if onid_eqb (last_opt ch) (last n) then [] else [6%N]) ++
       (if forallb (fun c => match node_of a c with Some m => onid_eqb (parent m) (Some x) | None => false end) ch
           && match ch with c :: _ => match node_of a c with Some m => negb (is_some (prev m)) | None => false end | [] => true end
        then [] else [7%N]) ++
       (if forallb (fun ym => negb (onid_eqb (parent (snd ym)) (Some x)) || nid_in (fst ym) ch) (live_slots a)
        then [] else [8%N])
   end).
Definition c01_check (a : arena) : list N := flat_map (c01_node a) (live_slots a).

(* ---------- C02: acyclic; every walk ends in fewer steps than there are nodes ---------- *)
(* codes: 1 parent walk does not end; 2 next walk does not end; 3 prev walk does not end *)
Definition c02_node (a : arena) (xn : nid * node) : list N :=
  let (x, _) := xn in
  let k := length (nodes a) in
  (match walk_b parent k a (Some x) with Some _ => [] | None => [1%N] end) ++
  (match walk_b next k a (Some x) with Some _ => [] | None => [2%N] end) ++
  (match walk_b prev k a (Some x) with Some _ => [] | None => [3%N] end).
Definition c02_check (a : arena) : list N := flat_map (c02_node a) (live_slots a).

(* ---------- C12 (state part): a removed slot has no links ---------- *)
Definition c12_state (a : arena) : list N :=
  flat_map (fun xn : nid * node => let n := snd xn in
     if (stamp n <? 0)%Z && (is_some (parent n) || is_some (prev n) || is_some (next n) || is_some (first n) || is_some (last n))
     then [1%N] else []) (slots a).

(* ---------- the abstract forest computed from an arena ---------- *)
Definition kids_of (a : arena) (p : nid) : list nid :=
  match node_of a p with
  | Some n => match walk_b next (S (length (nodes a))) a (first n) with Some l => l | None => [] end
  | None => []
  end.
(* the same children list read from the other end: last_child, then previous siblings *)
Definition kids_rev_of (a : arena) (p : nid) : list nid :=
  match node_of a p with
  | Some n => match walk_b prev (S (length (nodes a))) a (last n) with Some l => rev l | None => [] end
  | None => []
  end.
(* both ends of every live node's children list tell the same story *)
Definition both_views_agree (a : arena) : bool :=
  forallb (fun xn : nid * node => same_list (kids_of a (fst xn)) (kids_rev_of a (fst xn))) (live_slots a).

Definition tops_of (a : arena) : list (list nid) :=
  flat_map (fun xn : nid * node => let (x, n) := xn in
     match parent n, prev n with
     | None, None => match walk_b next (S (length (nodes a))) a (Some x) with Some l => [l] | None => [] end
     | _, _ => []
     end) (live_slots a).
Definition abs (a : arena) : forest :=
  mkForest (fun p => if live_b a p then kids_of a p else []) (tops_of a).

Definition chains_sub (t1 t2 : list (list nid)) : bool := forallb (fun c => existsb (same_list c) t2) t1.
(* equality of forests as far as the ids in [dom] can tell; top chains as sets *)
Definition forest_eqb (dom : list nid) (F G : forest) : bool :=
  forallb (fun p => same_list (kidsf F p) (kidsf G p)) dom
  && chains_sub (tops F) (tops G) && chains_sub (tops G) (tops F).

(* ancestors of x in a (x first), None if the walk does not end *)
Definition anc_list (a : arena) (x : nid) : option (list nid) := walk_b parent (S (length (nodes a))) a (Some x).

Definition would_cycle_b (a : arena) (k : inskind) (x c : nid) : bool :=
  match anc_list a x with
  | Some l => match k with
              | KAppend | KPrepend => nid_in c l
              | KAfter | KBefore => nid_in c (tl l)
              end
  | None => true
  end.
Definition impossible_b (a : arena) (k : inskind) (x c : nid) : bool :=
  nid_eqb x c || slot_removed_b a x || slot_removed_b a c || would_cycle_b a k x c.
Definition nodeerror_eqb (e f : nodeerror) : bool :=
  match e, f with
  | AppendSelf, AppendSelf | PrependSelf, PrependSelf | InsertBeforeSelf, InsertBeforeSelf
  | InsertAfterSelf, InsertAfterSelf | Removed, Removed | AppendAncestor, AppendAncestor
  | PrependAncestor, PrependAncestor | InsertBeforeAncestor, InsertBeforeAncestor
  | InsertAfterAncestor, InsertAfterAncestor => true
  | _, _ => false
  end.
Definition reason_applies_b (a : arena) (k : inskind) (x c : nid) (e : nodeerror) : bool :=
  (nodeerror_eqb e (ins_self k) && nid_eqb x c)
  || (nodeerror_eqb e Removed && (slot_removed_b a x || slot_removed_b a c))
  || (nodeerror_eqb e (ins_ancestor k) && would_cycle_b a k x c).

(* ---------- equality and frames of arenas ---------- *)
Definition ondata_eqb (d e : ndata) : bool :=
  match d, e with
  | Data v, Data w => N.eqb v w
  | NextFree None, NextFree None => true
  | NextFree (Some i), NextFree (Some j) => Nat.eqb i j
  | _, _ => false
  end.
Definition node_eqb (n m : node) : bool :=
  onid_eqb (parent n) (parent m) && onid_eqb (prev n) (prev m) && onid_eqb (next n) (next m)
  && onid_eqb (first n) (first m) && onid_eqb (last n) (last m) && Z.eqb (stamp n) (stamp m)
  && ondata_eqb (data n) (data m).
Definition onat_eqb (x y : option nat) : bool :=
  match x, y with None, None => true | Some i, Some j => Nat.eqb i j | _, _ => false end.
Fixpoint nodes_eqb (l m : list node) : bool :=
  match l, m with [] , [] => true | x :: r, y :: s => node_eqb x y && nodes_eqb r s | _, _ => false end.
(* the arena's PartialEq *)
Definition arena_eqb (a b : arena) : bool :=
  nodes_eqb (nodes a) (nodes b) && onat_eqb (ffree a) (ffree b) && onat_eqb (lfree a) (lfree b).

(* stamps and payloads of all slots unchanged (structural operations) *)
Definition shape_same_b (a a' : arena) : bool :=
  Nat.eqb (length (nodes a)) (length (nodes a')) &&
  forallb (fun p : node * node => Z.eqb (stamp (fst p)) (stamp (snd p)) && ondata_eqb (data (fst p)) (data (snd p)))
          (combine (nodes a) (nodes a')).

(* live slots other than those with index in [except] are identical (links, stamp, payload) *)
Definition others_same_b (except : list nat) (a a' : arena) : bool :=
  forallb (fun xn : nid * node => let (x, n) := xn in
     existsb (Nat.eqb (idx x)) except ||
     match node_of a' x with Some m => node_eqb n m | None => false end) (live_slots a).

(* a removed slot whose generation counter is not exhausted exists *)
Definition reusable_exists_b (a : arena) : bool :=
  existsb (fun n => (stamp n <? 0)%Z && (i16_min <? stamp n)%Z) (nodes a).

Definition dom2 (a a' : arena) : list nid := map fst (slots a) ++ map fst (slots a').

(* ---------- per-step checks: the observed effect of one call against the documented one ----------
   codes: 10 outcome wrong for a possible/impossible request; 11 reported reason does not apply;
   12 arena changed although the call failed; 20 forest after the call is not the documented one;
   21 stamps/payloads changed by a structural call; 22 forward and backward view of a children list differ;
   30 new id's slot held a live node;
   31 another node was touched; 32 count rule broken; 33 new node has links;
   40 wrong set of nodes removed; 41 a survivor was touched *)
Definition check_step (a : arena) (o : op) (out : outcome) (a' : arena) : list N :=
  let F := abs a in
  let F' := abs a' in
  let dom := dom2 a a' in
  let unchanged := if arena_eqb a a' then [] else [12%N] in
  (if both_views_agree a' then [] else [22%N]) ++
  match o with
  | OInsert k checked x c =>
      if impossible_b a k x c then
        match out, checked with
        | OutErr e, true => (if reason_applies_b a k x c e then [] else [11%N]) ++ unchanged
        | OutPanic _, false => unchanged
        | _, _ => [10%N]
        end
      else
        match out with
        | OutUnit => (if forest_eqb dom (f_insert k x c F) F' then [] else [20%N]) ++
                     (if shape_same_b a a' then [] else [21%N])
        | _ => [10%N]
        end
  | ODetach x =>
      match out with
      | OutUnit => (if forest_eqb dom (f_detach x F) F' then [] else [20%N]) ++
                   (if shape_same_b a a' then [] else [21%N])
      | _ => [10%N]
      end
  | ORemove x =>
      match out with
      | OutUnit => (if forest_eqb dom (f_remove x F) F' then [] else [20%N]) ++
                   (if slot_removed_b a' x then [] else [40%N]) ++
                   (if forallb (fun ym : nid * node => nid_eqb (fst ym) x || live_b a' (fst ym)) (live_slots a) then [] else [40%N]) ++
                   (if forallb (fun ym : nid * node => let (y, m) := ym in nid_eqb y x ||
                        match node_of a' y with Some m' => ondata_eqb (data m) (data m') | None => false end) (live_slots a)
                    then [] else [41%N])
      | _ => [10%N]
      end
  | ORemoveSubtree x =>
      let D := preorderF (length (nodes a)) F x in
      match out with
      | OutUnit => (if forest_eqb dom (f_remove_subtree x D F) F' then [] else [20%N]) ++
                   (if forallb (fun ym : nid * node => Bool.eqb (nid_in (fst ym) D) (negb (live_b a' (fst ym)))) (live_slots a)
                    then [] else [40%N]) ++
                   (if forallb (fun ym : nid * node => let (y, m) := ym in nid_in y D ||
                        match node_of a' y with Some m' => ondata_eqb (data m) (data m') | None => false end) (live_slots a)
                    then [] else [41%N])
      | _ => [10%N]
      end
  | ONew v =>
      match out with
      | OutId z =>
          (if live_b a z || negb (live_b a' z) then [30%N] else []) ++
          (if others_same_b [] a a' then [] else [31%N]) ++
          (if Nat.eqb (length (nodes a')) (if reusable_exists_b a then length (nodes a) else S (length (nodes a))) then [] else [32%N]) ++
          (match node_of a' z with
           | Some n => if node_eqb n (fresh_node (gen z) (Data v)) then [] else [33%N]
           | None => [33%N] end) ++
          (if forest_eqb dom (f_new z F) F' then [] else [20%N])
      | _ => [10%N]
      end
  | OAppendValue p v =>
      if slot_removed_b a p then
        match out with OutPanic _ => unchanged | _ => [10%N] end
      else
        match out with
        | OutId z =>
            (if live_b a z || negb (live_b a' z) then [30%N] else []) ++
            (if others_same_b (idx p :: match node_of a p with
                                        | Some n => match last n with Some l => [idx l] | None => [] end
                                        | None => [] end) a a' then [] else [31%N]) ++
            (if Nat.eqb (length (nodes a')) (if reusable_exists_b a then length (nodes a) else S (length (nodes a))) then [] else [32%N]) ++
            (if forest_eqb dom (f_append_value p z F) F' then [] else [20%N])
        | _ => [10%N]
        end
  | OWrite x v =>
      match out with
      | OutUnit => (if others_same_b [idx x] a a' then [] else [41%N]) ++
                   (if forest_eqb dom F F' then [] else [20%N]) ++
                   (match node_of a' x with Some n => if ondata_eqb (data n) (Data v) then [] else [41%N] | None => [41%N] end)
      | _ => [10%N]
      end
  | OClear =>
      match out with OutUnit => if arena_eqb a' empty_arena then [] else [20%N] | _ => [10%N] end
  | OReserve _ =>
      match out with OutUnit => unchanged | _ => [10%N] end
  end.

(* ---------- documented traversal sequences, computed from the observed arena (C09, C10, C14) ---------- *)
Fixpoint tree_of (fuel : nat) (F : forest) (x : nid) : rose :=
  match fuel with O => T x [] | S f => T x (map (tree_of f F) (kidsf F x)) end.
Definition tree_at (a : arena) (x : nid) : rose := tree_of (length (nodes a)) (abs a) x.

Definition spec_ancestors (a : arena) (x : nid) : option (list nid) := walk_b parent (S (length (nodes a))) a (Some x).
Definition spec_preceding (a : arena) (x : nid) : option (list nid) := walk_b prev (S (length (nodes a))) a (Some x).
Definition spec_following (a : arena) (x : nid) : option (list nid) := walk_b next (S (length (nodes a))) a (Some x).
(* x, then repeatedly the previous sibling if there is one, else the parent *)
Definition spec_predecessors (a : arena) (x : nid) : option (list nid) :=
  walk_b (fun n => or_else (prev n) (parent n)) (S (S (2 * length (nodes a)))) a (Some x).
Definition spec_children (a : arena) (x : nid) : list nid := kids_of a x.
Definition spec_descendants (a : arena) (x : nid) : list nid := ids (tree_at a x).
Definition spec_traverse (a : arena) (x : nid) : list edge := euler (tree_at a x).

Definition payload_at (a : arena) (x : nid) : N :=
  match node_of a x with Some n => match data n with Data v => v | NextFree _ => 0%N end | None => 0%N end.
Definition spec_print (rend : rendering) (mode : nat) (a : arena) (x : nid) : bytes :=
  render rend mode (payload_at a) (tree_at a x).

(* which sequence a double-ended iterator runs over *)
Definition spec_de_seq (k : dekind) (a : arena) (x : nid) : option (list nid) :=
  match k with
  | DChildren => Some (kids_of a x)
  | DPreceding => spec_preceding a x
  | DFollowing => spec_following a x
  end.

(* get_node_id_at(k) as the property states it: the current id of a live slot, None otherwise *)
Definition spec_id_at (a : arena) (index1 : nat) : option nid :=
  match index1 with
  | O => None
  | S i => match nth_error (nodes a) i with
           | Some n => if (0 <=? stamp n)%Z then Some (mkId i (stamp n)) else None
           | None => None
           end
  end.

(* slots available for reuse *)
Definition reusable_slots (a : arena) : list nat :=
  flat_map (fun xn : nid * node => if (stamp (snd xn) <? 0)%Z && (i16_min <? stamp (snd xn))%Z then [idx (fst xn)] else []) (slots a).
