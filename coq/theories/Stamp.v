(* Stamp.v — NodeStamp(i16): the per-slot generation counter (id.rs).  MODEL ONLY. *)
From IT Require Export Base.

Definition i16_min : Z := -32768.
Definition i16_max : Z := 32767.
Definition in_i16 (z : Z) : bool := (i16_min <=? z) && (z <=? i16_max).

(* two's complement wrap-around of release builds (overflow-checks off) *)
Definition wrap16 (z : Z) : Z := ((z + 32768) mod 65536) - 32768.

(* one checked i16 operation: debug builds panic on overflow, release builds wrap *)
Definition arith16 (dbg : bool) (z : Z) : res Z :=
  if in_i16 z then Ok z else if dbg then Panic P_OVERFLOW else Ok (wrap16 z).

(* fn is_removed(self) -> bool { self.0.is_negative() } *)
Definition st_is_removed (s : Z) : bool := s <? 0.

(* fn as_removed(&mut self) {
       debug_assert!(!self.is_removed());
       self.0 = if self.0 < i16::MAX { -self.0 - 1 } else { i16::MIN };  }     (after fix 07ee5ff) *)
Definition st_as_removed (dbg : bool) (s : Z) : res Z :=
  if dbg && st_is_removed s then Panic P_DEBUG_ASSERT
  else if s <? i16_max then
         match arith16 dbg (- s) with
         | Ok n => arith16 dbg (n - 1)
         | Panic c => Panic c
         | Diverge => Diverge
         end
       else Ok i16_min.

(* fn reuseable(self) -> bool { debug_assert!(self.is_removed()); self.0 > i16::MIN } *)
Definition st_reuseable (dbg : bool) (s : Z) : res bool :=
  if dbg && negb (st_is_removed s) then Panic P_DEBUG_ASSERT
  else Ok (i16_min <? s).

(* fn reuse(&mut self) -> Self { debug_assert!(self.reuseable()); self.0 = -self.0; *self } *)
Definition st_reuse (dbg : bool) (s : Z) : res Z :=
  let go := arith16 dbg (- s) in
  if dbg then
    match st_reuseable true s with
    | Ok true => go
    | Ok false => Panic P_DEBUG_ASSERT
    | Panic c => Panic c
    | Diverge => Diverge
    end
  else go.
