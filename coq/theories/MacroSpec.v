(* MacroSpec.v — what a `tree!` literal MEANS, independently of the macro's flattening machinery:
   a reference semantics by plain recursion on the literal, and the vocabulary in which the shape of
   the result is stated.  Definitions only, no proofs. *)
From IT Require Export MacroModel Forest Alloc.
Open Scope mon_scope.

(* what the literal says, by plain recursion on the literal: every node expression is evaluated
   (logged) and appended under the node of the literal that encloses it, in textual order.
   Returns (ids of the created nodes, evaluation log), both in textual (pre-)order. *)
Fixpoint ref_node (dbg : bool) (par : nid) (t : lit) : M (list nid * list N) :=
  match t with
  | L e ks =>
      x <- append_value dbg par e ;;
      r <- (fix go (l : list lit) : M (list nid * list N) :=
              match l with
              | [] => ret ([], [])
              | k :: rest =>
                  r1 <- ref_node dbg x k ;;
                  r2 <- go rest ;;
                  ret (fst r1 ++ fst r2, snd r1 ++ snd r2)
              end) ks ;;
      ret (x :: fst r, e :: snd r)
  end.

Fixpoint ref_forest (dbg : bool) (par : nid) (ts : list lit) : M (list nid * list N) :=
  match ts with
  | [] => ret ([], [])
  | k :: rest =>
      r1 <- ref_node dbg par k ;;
      r2 <- ref_forest dbg par rest ;;
      ret (fst r1 ++ fst r2, snd r1 ++ snd r2)
  end.

(* tree!(arena, root => { nodes }) as the literal reads: (root id, evaluation log, created ids) *)
Definition tree_reference (dbg : bool) (root : rootform) (nodes : list lit) : M (nid * list N * list nid) :=
  '(r, log0, new0) <- match root with
                      | RootId r => ret (r, [], [])
                      | RootValue v => x <- new_node dbg v ;; ret (x, [v], [x])
                      end ;;
  res <- ref_forest dbg r nodes ;;
  ret (r, log0 ++ snd res, new0 ++ fst res).

(* textual (pre-)order of the node expressions *)
Fixpoint lit_preorder (t : lit) : list N :=
  match t with L e ks => e :: flat_map lit_preorder ks end.

(* the created ids, shaped like the literal: rose trees over ids *)
Inductive shaped : lit -> rose -> Prop :=
  | shaped_L : forall e ks x ts, Forall2 shaped ks ts -> shaped (L e ks) (T x ts).

(* s is t itself or a subtree of one of t's children *)
Inductive subtree_of : rose -> rose -> Prop :=
  | sub_refl : forall t, subtree_of t t
  | sub_kid : forall x ks k s, In k ks -> subtree_of k s -> subtree_of (T x ks) s.

(* the slot addressed by x holds the payload e *)
Definition has_payload (a : arena) (x : nid) (e : N) : Prop :=
  exists n, nth_error (nodes a) (idx x) = Some n /\ data n = Data e.

(* every node [L e _] of the literal is matched with a tree node [T x _] whose slot holds e *)
Inductive pay_match (a : arena) : lit -> rose -> Prop :=
  | pay_L : forall e ks x ts,
      has_payload a x e -> Forall2 (pay_match a) ks ts -> pay_match a (L e ks) (T x ts).

Definition payloads_match (a : arena) (nodes : list lit) (trees : list rose) : Prop :=
  Forall2 (pay_match a) nodes trees.
